/-
  Golib.Ext.UdpClient — net/udp/UcpClient.go (and its older twin net/UdpClient.go) as the code has it:
  the datagram batching state machine.

    Send / SendRelay      serialise the pack body, then sendByBuffer(&UdpData{type, ver, body, flush})
    sendByBuffer          frame = type(1) ver(4, BE) len(4, BE) body   (WriteByte, WriteInt, WriteIntBytes)
                          buffer non-empty and buffer+frame > LIMIT  ⇒ hand the buffer to the channel, reset
                          append the frame; flush flag ⇒ hand the buffer to the channel, reset
    sendBuffer            (timer branch of processRemain) buffer non-empty ⇒ hand it to the channel
    process               one datagram from the channel → udp.Write (fails above the socket's maximum)
    Shutdown              close(sendCh), write what is in the channel, close the socket — the buffer is NOT flushed
    channel send          `select { case sendCh <- d: case <-time.After(5s): }`: a full channel that nobody
                          drains drops the datagram; a closed channel panics (recovered in sendByBuffer)

  The two files differ in constants only (`cfgUcp`, `cfgOld`) as far as this machine is concerned.
  Ghost fields (`offered`, `lost`) record what was handed to the channel and what was dropped; they do not
  influence the run.  (core Lean only; imported by the driver)
-/
import Golib.Basic
import Golib.Prim.Int
import Golib.Prim.Codec

namespace Ext.Udp

structure Cfg where
  limit : Nat      -- UDP_PACKET_BUFFER_CHUNKED_LIMIT
  chanCap : Nat    -- UDP_PACKET_CHANNEL_MAX
  udpMax : Nat     -- largest payload udp.Write accepts (65507 over IPv4)
  deriving DecidableEq, Repr

def cfgUcp : Cfg := ⟨49152, 2048, 65507⟩   -- net/udp/UcpClient.go: 48*1024, 2048
def cfgOld : Cfg := ⟨64512, 1024, 65507⟩   -- net/UdpClient.go:     63*1024, 1024

structure Frame where
  typ : Nat
  ver : Int
  body : Bytes
  deriving DecidableEq, Repr

def Frame.wf (f : Frame) : Prop :=
  f.typ < 256 ∧ Prim.inRange 4 f.ver ∧ f.body.length < 2147483648

/-- `out.WriteByte(Type); out.WriteInt(Ver); out.WriteIntBytes(Data)` -/
def encFrame (f : Frame) : Bytes := f.typ :: (Prim.encI 4 f.ver ++ Prim.encBytes32 f.body)

def encFrames (fs : List Frame) : Bytes := (fs.map encFrame).flatten

/-- the receiver's header parsing (`receive()`: buff[0], ToInt(buff[1:5]), ToInt(buff[5:9]), body) -/
def decFrame : P Frame :=
  .read 1 (fun tb =>
    P.bind (Prim.rdI 4) (fun v =>
      P.bind Prim.decBytes32 (fun b => .pure ⟨tb.headD 0, v, b⟩)))

def parseFuel : Nat → Bytes → Option (List Frame)
  | 0, bs => if bs.isEmpty then some [] else none
  | n+1, bs =>
    if bs.isEmpty then some [] else
    match P.run decFrame bs with
    | none => none
    | some (f, r) => (parseFuel n r).map (f :: ·)

/-- a datagram is a sequence of whole frames and nothing else -/
def parseDatagram (bs : Bytes) : Option (List Frame) := parseFuel bs.length bs

structure St where
  isOpen : Bool := true       -- udp != nil (&& wr != nil)
  closed : Bool := false      -- sendCh has been closed
  buf : Bytes := []           -- this.buffer
  chan : List Bytes := []     -- sendCh, oldest first
  wire : List Bytes := []     -- datagrams written to the socket, newest first
  offered : List Bytes := []  -- ghost: datagrams handed to the channel send, newest first
  lost : List Bytes := []     -- ghost: datagrams / frames that were dropped, newest first
  packCount : Nat := 0
  chanCount : Nat := 0
  sendCount : Nat := 0
  errCount : Nat := 0
  deriving DecidableEq, Repr

/-- the channel send with its 5 s timeout, nobody receiving meanwhile; `none` = panic (closed channel) -/
def push (cfg : Cfg) (s : St) (d : Bytes) : Option St :=
  if s.closed then none
  else if s.chan.length < cfg.chanCap then
    some { s with chan := s.chan ++ [d], offered := d :: s.offered }
  else some { s with offered := d :: s.offered, lost := d :: s.lost }

/-- sendByBuffer -/
def send (cfg : Cfg) (s0 : St) (f : Frame) (flush : Bool) : St :=
  let s := { s0 with packCount := s0.packCount + 1 }
  if !s.isOpen then { s with lost := encFrame f :: s.lost }
  else
    let fb := encFrame f
    let over := !s.buf.isEmpty && decide (s.buf.length + fb.length > cfg.limit)
    let s1? : Option St :=
      if over then
        (push cfg { s with chanCount := s.chanCount + 1 } s.buf).map (fun t => { t with buf := [] })
      else some s
    match s1? with
    | none =>        -- recovered panic: buffer kept, the frame never written
      { s with chanCount := s.chanCount + 1, lost := fb :: s.lost }
    | some s1 =>
      let s2 := { s1 with buf := s1.buf ++ fb }
      if flush then
        let s3 := { s2 with chanCount := s2.chanCount + 1, buf := [] }
        match push cfg s3 s2.buf with
        | none => { s3 with lost := s2.buf :: s3.lost }   -- Reset came before the panic
        | some t => t
      else s2

/-- processRemain's timer branch (`if !isOpen continue`, then sendBuffer) -/
def tick (cfg : Cfg) (s : St) : St :=
  if !s.isOpen || s.buf.isEmpty then s
  else
    let s1 := { s with buf := [] }
    match push cfg s1 s.buf with
    | none => { s1 with lost := s.buf :: s1.lost }
    | some t => { t with chanCount := t.chanCount + 1 }

/-- one iteration of process() with a datagram available -/
def proc (cfg : Cfg) (s : St) : St :=
  match s.chan with
  | [] => s
  | d :: rest =>
    if s.isOpen && decide (d.length ≤ cfg.udpMax) then
      { s with chan := rest, sendCount := s.sendCount + 1, wire := d :: s.wire }
    else
      { s with chan := rest, sendCount := s.sendCount + 1, errCount := s.errCount + 1, lost := d :: s.lost }

/-- Shutdown's `for sendData := range sendCh { sendUDP(sendData) }` (errors ignored, nothing counted) -/
def drain (cfg : Cfg) : List Bytes → List Bytes × List Bytes → List Bytes × List Bytes
  | [], wl => wl
  | d :: rest, (w, l) =>
    if d.length ≤ cfg.udpMax then drain cfg rest (d :: w, l) else drain cfg rest (w, d :: l)

def shutdown (cfg : Cfg) (s : St) : St :=
  if !s.isOpen || s.closed then s      -- udp == nil: nothing; closed channel: close panics, recovered
  else
    let wl := drain cfg s.chan (s.wire, s.lost)
    { s with chan := [], wire := wl.1, lost := wl.2, isOpen := false, closed := true }

/-- ApplyConfig with a different server text: UdpShutdown() (the singleton) and open() — the channel
    stays closed, the socket is dialled again -/
def reopen (s : St) : St := { s with isOpen := true }

inductive Op
  | send (f : Frame) (flush : Bool)
  | sendNil
  | tick
  | proc
  | shutdown
  | reopen
  deriving DecidableEq, Repr

def step (cfg : Cfg) (s : St) : Op → St
  | .send f fl => send cfg s f fl
  | .sendNil => { s with packCount := s.packCount + 1 }
  | .tick => tick cfg s
  | .proc => proc cfg s
  | .shutdown => shutdown cfg s
  | .reopen => reopen s

def run (cfg : Cfg) (ops : List Op) : St := ops.foldl (step cfg) {}

/-- ops that neither close nor reopen anything -/
def Op.plain : Op → Bool
  | .shutdown => false
  | .reopen => false
  | _ => true

/-! ### the simple spec: a FIFO of frames, cut into datagrams of at most `limit` bytes -/

def frameLen (f : Frame) : Nat := 9 + f.body.length
def size (fs : List Frame) : Nat := (fs.map frameLen).sum

structure Cut where
  done : List (List Frame) := []   -- newest first
  cur : List Frame := []
  deriving DecidableEq, Repr

def Cut.close (c : Cut) : Cut := if c.cur.isEmpty then c else { done := c.cur :: c.done, cur := [] }

def Cut.send (limit : Nat) (c : Cut) (f : Frame) (flush : Bool) : Cut :=
  let c1 := if !c.cur.isEmpty && decide (size c.cur + frameLen f > limit) then c.close else c
  let c2 : Cut := { c1 with cur := c1.cur ++ [f] }
  if flush then c2.close else c2

def specStep (limit : Nat) (c : Cut) : Op → Cut
  | .send f fl => c.send limit f fl
  | .tick => c.close
  | _ => c

def spec (limit : Nat) (ops : List Op) : Cut := ops.foldl (specStep limit) {}

def accepted : List Op → List Frame
  | [] => []
  | .send f _ :: r => f :: accepted r
  | _ :: r => accepted r

end Ext.Udp
