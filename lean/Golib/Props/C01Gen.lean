/-
  C01, tie A — obligations over the facts regenerated from io/DataOutputX.go and
  io/DataInputX.go (lean/Golib/Gen/C01.lean, written by xlate/c01 on every run).

  Two layers:
  * `*_shape` theorems: the regenerated tables equal the canonical tables below (`decide`).
    They break whenever the source changes shape.
  * semantic theorems: the canonical tables, read with the semantics of Go's integer
    conversions and shifts (`evalPut`, `evalGet`: trusted transcription semantics), compute
    exactly the model's `beN` / `decI` / `decILittle`.  Proved once, for all byte values.
-/
import Golib.Prim.Extra
import Golib.Prim.Api
import Golib.Gen.C01

namespace C01Gen
open Prim

/-! ### writers: `buf[i] = byte(v >> s)` -/

/-- semantics of a put table on the two's-complement pattern `u` of the argument -/
def evalPut (shifts : List (Nat × Nat)) (u : Nat) : Bytes := shifts.map (fun p => u / 2 ^ p.2 % 256)

def shiftsBE : Nat → List (Nat × Nat)
  | 0 => []
  | w+1 => (shiftsBE w).map (fun p => (p.1 + 1, p.2)) |> fun t => (0, 8 * w) :: t

theorem evalPut_shiftsBE (w u : Nat) : evalPut (shiftsBE w) u = beN w u := by
  induction w with
  | zero => rfl
  | succ w ih =>
    simp only [shiftsBE, evalPut, List.map_cons, List.map_map, beN]
    have hf : (fun p : Nat × Nat => u / 2 ^ p.2 % 256) ∘ (fun p : Nat × Nat => (p.1 + 1, p.2))
        = (fun p : Nat × Nat => u / 2 ^ p.2 % 256) := by funext p; rfl
    have ih' : List.map (fun p : Nat × Nat => u / 2 ^ p.2 % 256) (shiftsBE w) = beN w u := ih
    rw [hf, ih', Nat.pow_mul]

/-! The put tables are evaluated on the two's-complement pattern `toU W v`.  That this is what Go's
    `byte(v >> s)` computes for a *signed* `v` (arithmetic shift, then truncation) is proved, not assumed: -/

theorem shift_byte_general (v d c : Int) (hd : 0 < d) :
    (v / d) % 256 = ((v % (d * (256 * c))) / d) % 256 := by
  have h := Int.emod_add_mul_ediv v (d * (256 * c))
  generalize hr : v % (d * (256 * c)) = r at h ⊢
  generalize hq : v / (d * (256 * c)) = q at h
  have : v = r + d * (256 * c * q) := by rw [← h]; simp [Int.mul_assoc]
  rw [this, Int.add_mul_ediv_left _ _ (Int.ne_of_gt hd)]
  have : 256 * c * q = 256 * (c * q) := Int.mul_assoc _ _ _
  rw [this, Int.add_mul_emod_self_left]

theorem modulus_split (W s : Nat) (hs : s + 8 ≤ 8 * W) :
    modulus W = (2 : Int) ^ s * (256 * (2 : Int) ^ (8 * W - s - 8)) := by
  unfold modulus
  have : (256 : Nat) ^ W = 2 ^ s * (256 * 2 ^ (8 * W - s - 8)) := by
    have e : (256 : Nat) = 2 ^ 8 := rfl
    rw [e, ← Nat.pow_mul, ← Nat.pow_add, ← Nat.pow_add]
    congr 1; omega
  rw [this]; simp [Int.natCast_mul, Int.natCast_pow]

/-- Go's `byte(v >> s)` on a signed `v` held in `W` bytes (arithmetic shift = floor division,
    conversion to byte = mod 256) is the byte at bit offset `s` of the two's-complement pattern -/
theorem put_byte_signed (W s : Nat) (v : Int) (hs : s + 8 ≤ 8 * W) :
    ((v / (2 : Int) ^ s) % 256).toNat = toU W v / 2 ^ s % 256 := by
  have hp : (0 : Int) < (2 : Int) ^ s := Int.pow_pos (by decide)
  rw [shift_byte_general v ((2 : Int) ^ s) ((2 : Int) ^ (8 * W - s - 8)) hp, ← modulus_split W s hs]
  have h0 : 0 ≤ v % modulus W := Int.emod_nonneg _ (Int.ne_of_gt (modulus_pos W))
  unfold toU
  generalize v % modulus W = r at h0 ⊢
  obtain ⟨n, rfl⟩ := Int.eq_ofNat_of_zero_le h0
  simp only [Int.toNat_natCast]
  have : ((n : Int) / (2 : Int) ^ s) % 256 = ((n / 2 ^ s % 256 : Nat) : Int) := by
    simp [Int.natCast_ediv, Int.natCast_emod, Int.natCast_pow]
  rw [this, Int.toNat_natCast]

/-- hence every signed writer emits `encI w v`: the bytes of the shift table are Go's `byte(v >> s)` -/
theorem put_table_signed (w : Nat) (v : Int) :
    evalPut (shiftsBE w) (toU w v) = encI w v := evalPut_shiftsBE w (toU w v)

def lookup {α : Type} (tbl : List (String × α)) (k : String) : Option α :=
  (tbl.find? (fun p => p.1 == k)).map (·.2)

def putExpected : List (String × Option (List (Nat × Nat))) :=
  [("ToBytesShort", some (shiftsBE 2)), ("ToBytesUShort", some (shiftsBE 2)), ("SetBytesShort", some (shiftsBE 2)),
   ("ToBytesInt3", some (shiftsBE 3)), ("SetBytesInt3", some (shiftsBE 3)),
   ("ToBytesInt", some (shiftsBE 4)), ("SetBytesInt", some (shiftsBE 4)),
   ("ToBytesLong5", some (shiftsBE 5)), ("SetBytesLong5", some (shiftsBE 5)),
   ("ToBytesLong", some (shiftsBE 8)), ("SetBytesLong", some (shiftsBE 8))]

/-- every ToBytesX / SetBytesX writes the big-endian shift table of its width, in index order -/
theorem put_shape : putExpected.all (fun e => lookup Gen.C01.putShifts e.1 == some e.2) = true := by
  decide

/-! ### readers -/

def byteAt (bs : Bytes) (i : Nat) : Int := ((bs.getD i 0 : Nat) : Int)
def sext8 (b : Int) : Int := if b < 128 then b else b - 256

/-- Go semantics of the straight-line reader bodies: the sum of the shifted (possibly
    sign-extended) bytes, wrapped to the `w`-byte result type, then arithmetically shifted -/
def evalGet (w : Nat) (signed : Bool) (terms : List (Nat × Nat × Bool)) (shr : Nat) (bs : Bytes) : Int :=
  let raw : Int := terms.foldl
    (fun acc t => acc + (if t.2.2 then sext8 (byteAt bs t.1) else byteAt bs t.1) * 2 ^ t.2.1) 0
  let u : Int := raw % modulus w
  let wrapped : Int := if signed then (if 2 * u < modulus w then u else u - modulus w) else u
  wrapped / 2 ^ shr

def termsBE : Nat → List (Nat × Nat × Bool)
  | 0 => []
  | w+1 => (0, 8 * w, false) :: (termsBE w).map (fun t => (t.1 + 1, t.2.1, t.2.2))
def termsLE (w : Nat) : List (Nat × Nat × Bool) := (List.range w).map (fun i => (i, 8 * i, false))

def getExpected : List (String × Option (List (Nat × Nat × Bool) × Nat)) :=
  [("ToShort", some (termsBE 2, 0)), ("ToUShort", some (termsBE 2, 0)), ("ToUshort", some (termsBE 2, 0)),
   ("ToInt3", some ([(0, 24, false), (1, 16, false), (2, 8, false)], 8)),
   ("ToInt", some (termsBE 4, 0)), ("ToUint", some (termsBE 4, 0)),
   ("ToLong5", some ([(0, 32, true), (1, 24, false), (2, 16, false), (3, 8, false), (4, 0, false)], 0)),
   ("ToLong", some (termsBE 8, 0)), ("ToLong6", some (termsBE 6, 0)),
   ("ToShortLittle", some (termsLE 2, 0)), ("ToUshortLittle", some (termsLE 2, 0)),
   ("ToIntLittle", some (termsLE 4, 0)), ("ToUintLittle", some (termsLE 4, 0)),
   ("ToLongLittle", some (termsLE 8, 0)), ("ToUlongLittle", some (termsLE 8, 0))]

theorem get_shape : getExpected.all (fun e => lookup Gen.C01.getTerms e.1 == some e.2) = true := by
  decide

section sem
variable (b0 b1 b2 b3 b4 b5 b6 b7 : Nat)

theorem get_short (h0 : b0 < 256) (h1 : b1 < 256) :
    evalGet 2 true (termsBE 2) 0 [b0, b1] = decI 2 [b0, b1] := by
  simp [evalGet, termsBE, byteAt, decI, ofU, unbeN, modulus, List.foldl]
  omega

theorem get_ushort (h0 : b0 < 256) (h1 : b1 < 256) :
    evalGet 2 false (termsBE 2) 0 [b0, b1] = (unbeN [b0, b1] : Nat) := by
  simp [evalGet, termsBE, byteAt, unbeN, modulus, List.foldl]
  omega

theorem get_int3 (h0 : b0 < 256) (h1 : b1 < 256) (h2 : b2 < 256) :
    evalGet 4 true [(0, 24, false), (1, 16, false), (2, 8, false)] 8 [b0, b1, b2] = decI 3 [b0, b1, b2] := by
  simp [evalGet, byteAt, decI, ofU, unbeN, modulus, List.foldl]
  omega

theorem get_int (h0 : b0 < 256) (h1 : b1 < 256) (h2 : b2 < 256) (h3 : b3 < 256) :
    evalGet 4 true (termsBE 4) 0 [b0, b1, b2, b3] = decI 4 [b0, b1, b2, b3] := by
  simp [evalGet, termsBE, byteAt, decI, ofU, unbeN, modulus, List.foldl]
  omega

theorem get_uint (h0 : b0 < 256) (h1 : b1 < 256) (h2 : b2 < 256) (h3 : b3 < 256) :
    evalGet 4 false (termsBE 4) 0 [b0, b1, b2, b3] = (unbeN [b0, b1, b2, b3] : Nat) := by
  simp [evalGet, termsBE, byteAt, unbeN, modulus, List.foldl]
  omega

theorem get_long5 (h0 : b0 < 256) (h1 : b1 < 256) (h2 : b2 < 256) (h3 : b3 < 256) (h4 : b4 < 256) :
    evalGet 8 true [(0, 32, true), (1, 24, false), (2, 16, false), (3, 8, false), (4, 0, false)] 0
      [b0, b1, b2, b3, b4] = decI 5 [b0, b1, b2, b3, b4] := by
  simp [evalGet, byteAt, sext8, decI, ofU, unbeN, modulus, List.foldl]
  split <;> omega

theorem get_long (h0 : b0 < 256) (h1 : b1 < 256) (h2 : b2 < 256) (h3 : b3 < 256)
    (h4 : b4 < 256) (h5 : b5 < 256) (h6 : b6 < 256) (h7 : b7 < 256) :
    evalGet 8 true (termsBE 8) 0 [b0, b1, b2, b3, b4, b5, b6, b7] = decI 8 [b0, b1, b2, b3, b4, b5, b6, b7] := by
  simp [evalGet, termsBE, byteAt, decI, ofU, unbeN, modulus, List.foldl]
  omega

/-- `ToLong6` (used by no stream method; exported for six-byte fields): the *unsigned* value of
    six bytes in an int64 — it cannot go negative -/
theorem get_long6 (h0 : b0 < 256) (h1 : b1 < 256) (h2 : b2 < 256) (h3 : b3 < 256) (h4 : b4 < 256)
    (h5 : b5 < 256) :
    evalGet 8 true (termsBE 6) 0 [b0, b1, b2, b3, b4, b5] = (unbeN [b0, b1, b2, b3, b4, b5] : Nat) := by
  simp [evalGet, termsBE, byteAt, unbeN, modulus, List.foldl]
  omega

theorem get_short_little (h0 : b0 < 256) (h1 : b1 < 256) :
    evalGet 2 true (termsLE 2) 0 [b0, b1] = decILittle 2 [b0, b1] := by
  simp [evalGet, termsLE, byteAt, decILittle, unleN, ofU, unbeN, modulus, List.foldl, List.range, List.range.loop]
  omega

theorem get_ushort_little (h0 : b0 < 256) (h1 : b1 < 256) :
    evalGet 2 false (termsLE 2) 0 [b0, b1] = (unleN [b0, b1] : Nat) := by
  simp [evalGet, termsLE, byteAt, unleN, unbeN, modulus, List.foldl, List.range, List.range.loop]
  omega

theorem get_int_little (h0 : b0 < 256) (h1 : b1 < 256) (h2 : b2 < 256) (h3 : b3 < 256) :
    evalGet 4 true (termsLE 4) 0 [b0, b1, b2, b3] = decILittle 4 [b0, b1, b2, b3] := by
  simp [evalGet, termsLE, byteAt, decILittle, unleN, ofU, unbeN, modulus, List.foldl, List.range, List.range.loop]
  omega

theorem get_uint_little (h0 : b0 < 256) (h1 : b1 < 256) (h2 : b2 < 256) (h3 : b3 < 256) :
    evalGet 4 false (termsLE 4) 0 [b0, b1, b2, b3] = (unleN [b0, b1, b2, b3] : Nat) := by
  simp [evalGet, termsLE, byteAt, unleN, unbeN, modulus, List.foldl, List.range, List.range.loop]
  omega

theorem get_long_little (h0 : b0 < 256) (h1 : b1 < 256) (h2 : b2 < 256) (h3 : b3 < 256)
    (h4 : b4 < 256) (h5 : b5 < 256) (h6 : b6 < 256) (h7 : b7 < 256) :
    evalGet 8 true (termsLE 8) 0 [b0, b1, b2, b3, b4, b5, b6, b7] = decILittle 8 [b0, b1, b2, b3, b4, b5, b6, b7] := by
  simp [evalGet, termsLE, byteAt, decILittle, unleN, ofU, unbeN, modulus, List.foldl, List.range, List.range.loop]
  omega

theorem get_ulong_little (h0 : b0 < 256) (h1 : b1 < 256) (h2 : b2 < 256) (h3 : b3 < 256)
    (h4 : b4 < 256) (h5 : b5 < 256) (h6 : b6 < 256) (h7 : b7 < 256) :
    evalGet 8 false (termsLE 8) 0 [b0, b1, b2, b3, b4, b5, b6, b7] = (unleN [b0, b1, b2, b3, b4, b5, b6, b7] : Nat) := by
  simp [evalGet, termsLE, byteAt, unleN, unbeN, modulus, List.foldl, List.range, List.range.loop]
  omega
end sem

/-! ### decimal and blob switches, arrays, the `written` counter -/

/-- the model's `encDecimal` case table: (lo, hi, length byte, payload width) -/
def decimalCases : List (Int × Int × Nat × Nat) :=
  [(0, 0, 0, 0), (-128, 127, 1, 1), (-32768, 32767, 2, 2), (-8388608, 8388607, 3, 3),
   (-2147483648, 2147483647, 4, 4), (-549755813888, 549755813887, 5, 5),
   (-9223372036854775808, 9223372036854775807, 8, 8)]

/-- `encDecimal` is the first-match evaluation of that table -/
def encDecimalTbl (v : Int) : List (Int × Int × Nat × Nat) → Bytes
  | [] => []
  | (lo, hi, lb, w) :: rest => if lo ≤ v ∧ v ≤ hi then lb :: encI w v else encDecimalTbl v rest

theorem encDecimal_is_table (v : Int) (h : inRange 8 v) : encDecimal v = encDecimalTbl v decimalCases := by
  have h8 := (inRange_8 v).mp h
  unfold encDecimal
  simp only [encDecimalTbl, decimalCases]
  by_cases h0 : v = 0
  · subst h0; simp [encI, beN]
  · have : ¬ (0 ≤ v ∧ v ≤ 0) := by omega
    simp only [h0, this, if_false]
    repeat' split
    all_goals first | rfl | omega

theorem decimal_shape :
    Gen.C01.decimalW = decimalCases ∧
    Gen.C01.decimalR = ([(0, 0), (1, 1), (2, 2), (3, 3), (4, 4), (5, 5)], 8) := by decide

theorem blob_shape :
    Gen.C01.blobW = ([253, 65535], [(255, 2), (254, 4)]) ∧
    Gen.C01.blobR = ([(255, "u16"), (254, "i32"), (0, "empty")], "self") := by decide

/-! the blob tables, interpreted: the regenerated thresholds/markers *are* the model's `encBlob`,
    and the regenerated case list of `ReadBlob` *is* the model's `decBlob`, for all inputs -/

/-- semantics of `blobW`: thresholds of the `sz <=` chain, (marker, width of the length field) -/
def encBlobTbl (t : List Nat × List (Nat × Nat)) (bs : Bytes) : Bytes :=
  match t with
  | ([t1, t2], [(m1, w1), (m2, w2)]) =>
    if bs.length = 0 then [0]
    else if bs.length ≤ t1 then bs.length :: bs
    else if bs.length ≤ t2 then m1 :: (beN w1 bs.length ++ bs)
    else m2 :: (beN w2 bs.length ++ bs)
  | _ => []

theorem encBlob_is_table (bs : Bytes) (h : bs.length < 2147483648) :
    encBlob bs = encBlobTbl Gen.C01.blobW bs := by
  rw [blob_shape.1]
  have e : encI 4 (bs.length : Int) = beN 4 bs.length := by
    unfold encI toU
    rw [modulus_4, Int.emod_eq_of_lt (by omega) (by omega), Int.toNat_natCast]
  unfold encBlob encBlobTbl
  simp only [e]

/-- semantics of the length-reading tags of `blobR` -/
def lenReader (n : Nat) (tag : String) : P Bytes :=
  if tag = "u16" then P.bind (rdU 2) (fun k => rdBytes k)
  else if tag = "i32" then P.bind (rdI 4) (fun k => if k < 0 then .fail else rdBytes k.toNat)
  else if tag = "empty" then .pure []
  else if tag = "self" then rdBytes n
  else .fail

def decBlobTbl (t : List (Nat × String) × String) : P Bytes :=
  .read 1 (fun b =>
    match t.1.find? (fun p => p.1 == b.headD 0) with
    | some p => lenReader (b.headD 0) p.2
    | none => lenReader (b.headD 0) t.2)

theorem decBlob_is_table : decBlob = decBlobTbl Gen.C01.blobR := by
  rw [blob_shape.2]
  unfold decBlob decBlobTbl
  congr 1
  funext b
  generalize b.headD 0 = n
  by_cases h255 : n = 255
  · subst h255; rfl
  by_cases h254 : n = 254
  · subst h254; rfl
  by_cases h0 : n = 0
  · subst h0; rfl
  have a1 : (255 == n) = false := beq_false_of_ne (Ne.symm h255)
  have a2 : (254 == n) = false := beq_false_of_ne (Ne.symm h254)
  have a3 : (0 == n) = false := beq_false_of_ne (Ne.symm h0)
  have f : List.find? (fun p : Nat × String => p.1 == n) [(255, "u16"), (254, "i32"), (0, "empty")] = none := by
    simp [List.find?, a1, a2, a3]
  have g : lenReader n "self" = rdBytes n := by simp [lenReader]
  rw [f]
  simp only []
  rw [g]

theorem arrays_shape :
    Gen.C01.arrays = [
      ("ReadDoubleArray", ["ReadShort", "ReadDouble"]), ("ReadFloatArray", ["ReadShort", "ReadFloat"]),
      ("ReadIntArray", ["ReadShort", "ReadInt"]), ("ReadLongArray", ["ReadShort", "ReadLong"]),
      ("ReadShortArray", ["ReadShort", "ReadShort"]), ("ReadTextArray", ["ReadShort", "ReadText"]),
      ("WriteDoubleArray", ["WriteShort", "WriteShort", "WriteDouble"]),
      ("WriteFloatArray", ["WriteShort", "WriteShort", "WriteFloat"]),
      ("WriteIntArray", ["WriteShort", "WriteShort", "WriteInt"]),
      ("WriteLongArray", ["WriteShort", "WriteShort", "WriteLong"]),
      ("WriteShortArray", ["WriteShort", "WriteShort", "WriteShort"]),
      ("WriteTextArray", ["WriteShort", "WriteShort", "WriteText"])] := by decide

theorem written_shape :
    Gen.C01.written = [("WriteBytes", ["+=len(b)"]), ("WriteByte", ["++"]), ("Write", ["+=sz"])] := by decide

/-- `ReadDecimalLen` has the same case table as `ReadDecimal` plus an explicit 8 arm -/
theorem decimalLen_shape :
    Gen.C01.decimalLenR = ([(0, 0), (1, 1), (2, 2), (3, 3), (4, 4), (5, 5), (8, 8)], 8) := by decide

/-- the model's `decDecimalLen` is the first-match evaluation of that table -/
def decDecimalLenTbl (n : Nat) (tbl : List (Nat × Nat)) (dflt : Nat) : Nat :=
  match tbl.find? (fun p => p.1 == n) with
  | some p => p.2
  | none => dflt

theorem decDecimalLen_is_table (n : Nat) :
    decDecimalLen n =
      (match decDecimalLenTbl n Gen.C01.decimalLenR.1 Gen.C01.decimalLenR.2 with
       | 0 => P.pure 0
       | w => rdI w) := by
  rw [decimalLen_shape]
  unfold decDecimalLen decDecimalLenTbl
  match n with
  | 0 | 1 | 2 | 3 | 4 | 5 | 8 => rfl
  | 6 | 7 => rfl
  | n + 9 => simp [List.find?]

/-- `ReadDecimal`'s regenerated case list, interpreted, is the model's `decDecimal` -/
theorem decDecimal_is_table :
    decDecimal = .read 1 (fun b =>
      match decDecimalLenTbl (b.headD 0) Gen.C01.decimalR.1 Gen.C01.decimalR.2 with
      | 0 => P.pure 0
      | w => rdI w) := by
  rw [decimal_shape.2]
  unfold decDecimal
  congr 1
  funext b
  generalize b.headD 0 = n
  unfold decDecimalLen decDecimalLenTbl
  match n with
  | 0 | 1 | 2 | 3 | 4 | 5 => rfl
  | 6 | 7 | 8 => rfl
  | n + 9 => simp [List.find?]

/-- frame headers: reset buffer and counter, then source, version, project code, (hash | oid, key),
    and the old buffer as int-length bytes — the call sequence `Writer.header` / `secureHeader` models -/
theorem header_calls_shape :
    lookup Gen.C01.callSeqs "WriteHeader" =
      some ["buffer.Bytes", "buffer.Reset", "written=0", "WriteByte", "WriteByte", "WriteLong", "WriteLong", "WriteIntBytes"] ∧
    lookup Gen.C01.callSeqs "WriteOneWayHeader" = lookup Gen.C01.callSeqs "WriteHeader" ∧
    lookup Gen.C01.callSeqs "WriteSecureHeader" =
      some ["buffer.Bytes", "buffer.Reset", "written=0", "WriteByte", "WriteByte", "WriteLong", "WriteInt", "WriteInt", "WriteIntBytes"] := by
  decide

theorem composite_calls_shape :
    lookup Gen.C01.callSeqs "WriteIntBytes" = some ["WriteInt", "WriteInt", "WriteBytes"] ∧
    lookup Gen.C01.callSeqs "WriteShortBytes" = some ["WriteShort", "WriteShort", "WriteBytes"] ∧
    lookup Gen.C01.callSeqs "ReadIntBytes" = some ["ReadInt", "ReadBytes"] ∧
    lookup Gen.C01.callSeqs "ReadIntBytesLimit" = some ["ReadInt", "ReadBytes"] ∧
    lookup Gen.C01.callSeqs "ReadShortBytes" = some ["ReadShort", "ReadBytes"] ∧
    lookup Gen.C01.callSeqs "ReadDecimalArray" = some ["ReadDecimal", "CheckCount", "ReadDecimal"] ∧
    lookup Gen.C01.callSeqs "ReadDecimalArrayInt" = some ["ReadDecimal", "CheckCount", "ReadDecimal"] ∧
    lookup Gen.C01.callSeqs "ReadTextShortLength" = some ["ReadUShort", "ReadBytes"] := by
  decide

/-! ### fixed-width readers / writers: which width, which conversion -/

/-- every fixed-width reader asks `ReadBytes` for exactly the width of its field and hands the bytes
    to the conversion whose meaning is proved above (`get_*`); the model's `readOp` reads the same
    widths (`rdI w` / `rdU w` / `rdILittle w` / `rdULittle w`) -/
theorem prim_readers_shape :
    Gen.C01.primReaders =
      [("ReadBool", some (1, "b[0] == 1")), ("ReadByte", some (1, "b[0]")),
       ("ReadDouble", some (8, "ToDouble(b, 0)")), ("ReadFloat", some (4, "ToFloat(b, 0)")),
       ("ReadInt", some (4, "ToInt(b, 0)")), ("ReadInt3", some (3, "ToInt3(b, 0)")),
       ("ReadIntLittle", some (4, "ToIntLittle(b, 0)")), ("ReadLong", some (8, "ToLong(b, 0)")),
       ("ReadLong5", some (5, "ToLong5(b, 0)")), ("ReadShort", some (2, "ToShort(b, 0)")),
       ("ReadShortLittle", some (2, "ToShortLittle(b, 0)")), ("ReadUShort", some (2, "ToUShort(b, 0)")),
       ("ReadUintLittle", some (4, "ToUintLittle(b, 0)")), ("ReadUnsignedInt", some (4, "ToUint(b, 0)")),
       ("ReadUnsignedShort", some (2, "uint16(ToShort(b, 0))")),
       ("ReadUnsignedShortLittle", some (2, "uint16(ToUshortLittle(b, 0))"))] := by
  decide

/-- every fixed-width writer hands `WriteBytes` the bytes of the packing function of its own width
    (whose shifts are `put_shape`) -/
theorem prim_writers_shape :
    Gen.C01.primWriters =
      [("WriteBool", some "ToBytesBool(b)"), ("WriteDouble", some "ToBytesDouble(b)"),
       ("WriteFloat", some "ToBytesFloat(b)"), ("WriteInt", some "ToBytesInt(b)"),
       ("WriteInt3", some "ToBytesInt3(b)"), ("WriteLong", some "ToBytesLong(b)"),
       ("WriteLong5", some "ToBytesLong5(b)"), ("WriteShort", some "ToBytesShort(b)"),
       ("WriteUShort", some "ToBytesUShort(b)")] := by
  decide

/-! ### `ReadBytes`: the buffer guard and the connection loop

  The statements of `ReadBytes` as the model reads them: on a byte slice, a size that is negative
  or larger than what is left fails before anything is allocated (`P.run`'s `hasAtLeast` test); on a
  connection, `conn.Read(buff[until:])` is repeated, `left -= n; until += n`, until nothing is
  left, and an error of the connection fails the read — `Prim.Stream.readN`
  (`Prim.Stream.readN_is_loop`).  Golden text: a rewrite of this function has to be re-tied here. -/
theorem readBytes_shape :
    Gen.C01.readBytes =
      ["if in.tcp == nil && (sz < 0 || int(sz) > in.buffer.Len()) {", "panic", "}",
       "in.offset += sz",
       "buff := make([]byte, sz)",
       "if in.tcp != nil {",
       "nbytesleft := int(sz)",
       "nbytesuntilnow := 0",
       "for nbytesleft > 0 {",
       "nbytethistime, err := in.tcp.Read(buff[nbytesuntilnow:])",
       "if err != nil {", "panic", "}",
       "nbytesleft -= nbytethistime",
       "nbytesuntilnow += nbytethistime",
       "}",
       "} else {",
       "if _, err := in.buffer.Read(buff); err != nil {", "panic", "return nil", "}",
       "}",
       "return buff"] := by
  decide

/-! ### the fixed-width stream readers, interpreted end to end

  `prim_readers_shape` says which helper a `ReadX` hands its bytes to; `get_shape` + `get_*` say what
  the helper computes.  Here the two regenerated tables are composed and given one semantics
  (`readerSem` / `readerValue`), and the composition is proved to be the model's `readOp` for all bytes. -/

/-- Go result type of each conversion helper, (bytes, signed) — transcribed from the signatures -/
def convSig : List (String × (Nat × Bool)) :=
  [("ToShort", (2, true)), ("ToUShort", (2, false)), ("ToInt3", (4, true)), ("ToInt", (4, true)),
   ("ToUint", (4, false)), ("ToLong5", (8, true)), ("ToLong", (8, true)),
   ("ToShortLittle", (2, true)), ("ToUshortLittle", (2, false)), ("ToIntLittle", (4, true)),
   ("ToUintLittle", (4, false))]

/-- the forms of a reader's return expression: the helper applied to the bytes read, and the width
    of an outer unsigned conversion (`uint16(…)`) if there is one -/
def exprForms : List (String × (String × Option Nat)) :=
  [("ToShort(b, 0)", ("ToShort", none)), ("ToUShort(b, 0)", ("ToUShort", none)),
   ("ToInt3(b, 0)", ("ToInt3", none)), ("ToInt(b, 0)", ("ToInt", none)), ("ToUint(b, 0)", ("ToUint", none)),
   ("ToLong5(b, 0)", ("ToLong5", none)), ("ToLong(b, 0)", ("ToLong", none)),
   ("ToShortLittle(b, 0)", ("ToShortLittle", none)), ("ToIntLittle(b, 0)", ("ToIntLittle", none)),
   ("ToUintLittle(b, 0)", ("ToUintLittle", none)),
   ("uint16(ToShort(b, 0))", ("ToShort", some 2)),
   ("uint16(ToUshortLittle(b, 0))", ("ToUshortLittle", some 2))]

structure ReaderData where
  rw : Nat
  signed : Bool
  terms : List (Nat × Nat × Bool)
  shr : Nat
  wrap : Option Nat
deriving DecidableEq

/-- one entry of the regenerated `primReaders`, resolved through `exprForms`, the regenerated
    `getTerms` and `convSig`: bytes asked of `ReadBytes`, and (result width, signed, summands, final
    shift, outer unsigned conversion) -/
def readerSem (name : String) : Option (Nat × ReaderData) :=
  match lookup Gen.C01.primReaders name with
  | some (some (w, expr)) =>
    match lookup exprForms expr with
    | some (conv, wrap) =>
      match lookup Gen.C01.getTerms conv, lookup convSig conv with
      | some (some (terms, shr)), some (rw, sg) => some (w, ⟨rw, sg, terms, shr, wrap⟩)
      | _, _ => none
    | none => none
  | _ => none

/-- the value a reader returns for the bytes `ReadBytes` gave it -/
def readerValue (d : ReaderData) (bs : Bytes) : Int :=
  let f := evalGet d.rw d.signed d.terms d.shr bs
  match d.wrap with
  | none => f
  | some k => f % modulus k

theorem readers_interpreted :
    readerSem "ReadShort" = some (2, ⟨2, true, termsBE 2, 0, none⟩) ∧
    readerSem "ReadUShort" = some (2, ⟨2, false, termsBE 2, 0, none⟩) ∧
    readerSem "ReadUnsignedShort" = some (2, ⟨2, true, termsBE 2, 0, some 2⟩) ∧
    readerSem "ReadInt3" = some (3, ⟨4, true, [(0, 24, false), (1, 16, false), (2, 8, false)], 8, none⟩) ∧
    readerSem "ReadInt" = some (4, ⟨4, true, termsBE 4, 0, none⟩) ∧
    readerSem "ReadUnsignedInt" = some (4, ⟨4, false, termsBE 4, 0, none⟩) ∧
    readerSem "ReadLong5" = some (5, ⟨8, true, [(0, 32, true), (1, 24, false), (2, 16, false), (3, 8, false), (4, 0, false)], 0, none⟩) ∧
    readerSem "ReadLong" = some (8, ⟨8, true, termsBE 8, 0, none⟩) ∧
    readerSem "ReadShortLittle" = some (2, ⟨2, true, termsLE 2, 0, none⟩) ∧
    readerSem "ReadUnsignedShortLittle" = some (2, ⟨2, false, termsLE 2, 0, some 2⟩) ∧
    readerSem "ReadIntLittle" = some (4, ⟨4, true, termsLE 4, 0, none⟩) ∧
    readerSem "ReadUintLittle" = some (4, ⟨4, false, termsLE 4, 0, none⟩) := by
  decide

theorem run_rdI_bytes (w : Nat) (bs r : Bytes) (h : bs.length = w) :
    P.run (rdI w) (bs ++ r) = some (decI w bs, r) := by
  unfold rdI; rw [P.run_read_append _ _ _ _ h]; rfl
theorem run_rdU_bytes (w : Nat) (bs r : Bytes) (h : bs.length = w) :
    P.run (rdU w) (bs ++ r) = some (unbeN bs, r) := by
  unfold rdU; rw [P.run_read_append _ _ _ _ h]; rfl
theorem run_rdILittle_bytes (w : Nat) (bs r : Bytes) (h : bs.length = w) :
    P.run (rdILittle w) (bs ++ r) = some (decILittle w bs, r) := by
  unfold rdILittle; rw [P.run_read_append _ _ _ _ h]; rfl
theorem run_rdULittle_bytes (w : Nat) (bs r : Bytes) (h : bs.length = w) :
    P.run (rdULittle w) (bs ++ r) = some (unleN bs, r) := by
  unfold rdULittle; rw [P.run_read_append _ _ _ _ h]; rfl

section chain
variable (b0 b1 b2 b3 b4 b5 b6 b7 : Nat) (r : Bytes)

/-- `ReadShort`, from the regenerated tables to the model: for all bytes -/
theorem read_short_chain (h0 : b0 < 256) (h1 : b1 < 256) :
    ∃ d, readerSem "ReadShort" = some (2, d) ∧
      P.run (readOp (.short 0)) ([b0, b1] ++ r) = some (.short (readerValue d [b0, b1]), r) :=
  ⟨_, readers_interpreted.1, by
    rw [show readerValue ⟨2, true, termsBE 2, 0, none⟩ [b0, b1] = decI 2 [b0, b1] from get_short b0 b1 h0 h1]
    exact run_map _ _ _ _ _ (run_rdI_bytes 2 [b0, b1] r rfl)⟩

theorem read_ushort_chain (h0 : b0 < 256) (h1 : b1 < 256) :
    ∃ d, readerSem "ReadUShort" = some (2, d) ∧
      P.run (readOp (.ushort 0)) ([b0, b1] ++ r) = some (.ushort (readerValue d [b0, b1]).toNat, r) :=
  ⟨_, readers_interpreted.2.1, by
    rw [show readerValue ⟨2, false, termsBE 2, 0, none⟩ [b0, b1] = (unbeN [b0, b1] : Nat) from get_ushort b0 b1 h0 h1]
    rw [Int.toNat_natCast]
    exact run_map _ _ _ _ _ (run_rdU_bytes 2 [b0, b1] r rfl)⟩

/-- `ReadUnsignedShort` is `uint16(ToShort(b, 0))`: the signed value wrapped back to 16 bits is the
    unsigned reading -/
theorem read_unsigned_short_chain (h0 : b0 < 256) (h1 : b1 < 256) :
    ∃ d, readerSem "ReadUnsignedShort" = some (2, d) ∧
      P.run (rdU 2) ([b0, b1] ++ r) = some ((readerValue d [b0, b1]).toNat, r) :=
  ⟨_, readers_interpreted.2.2.1, by
    have e : readerValue ⟨2, true, termsBE 2, 0, some 2⟩ [b0, b1] = (unbeN [b0, b1] : Nat) := by
      show evalGet 2 true (termsBE 2) 0 [b0, b1] % modulus 2 = _
      rw [get_short b0 b1 h0 h1]
      simp [decI, ofU, unbeN, modulus]
      omega
    rw [e, Int.toNat_natCast]
    exact run_rdU_bytes 2 [b0, b1] r rfl⟩

theorem read_int3_chain (h0 : b0 < 256) (h1 : b1 < 256) (h2 : b2 < 256) :
    ∃ d, readerSem "ReadInt3" = some (3, d) ∧
      P.run (readOp (.int3 0)) ([b0, b1, b2] ++ r) = some (.int3 (readerValue d [b0, b1, b2]), r) :=
  ⟨_, readers_interpreted.2.2.2.1, by
    rw [show readerValue ⟨4, true, [(0, 24, false), (1, 16, false), (2, 8, false)], 8, none⟩ [b0, b1, b2]
      = decI 3 [b0, b1, b2] from get_int3 b0 b1 b2 h0 h1 h2]
    exact run_map _ _ _ _ _ (run_rdI_bytes 3 [b0, b1, b2] r rfl)⟩

theorem read_int_chain (h0 : b0 < 256) (h1 : b1 < 256) (h2 : b2 < 256) (h3 : b3 < 256) :
    ∃ d, readerSem "ReadInt" = some (4, d) ∧
      P.run (readOp (.int 0)) ([b0, b1, b2, b3] ++ r) = some (.int (readerValue d [b0, b1, b2, b3]), r) :=
  ⟨_, readers_interpreted.2.2.2.2.1, by
    rw [show readerValue ⟨4, true, termsBE 4, 0, none⟩ [b0, b1, b2, b3] = decI 4 [b0, b1, b2, b3]
      from get_int b0 b1 b2 b3 h0 h1 h2 h3]
    exact run_map _ _ _ _ _ (run_rdI_bytes 4 [b0, b1, b2, b3] r rfl)⟩

theorem read_unsigned_int_chain (h0 : b0 < 256) (h1 : b1 < 256) (h2 : b2 < 256) (h3 : b3 < 256) :
    ∃ d, readerSem "ReadUnsignedInt" = some (4, d) ∧
      P.run (rdU 4) ([b0, b1, b2, b3] ++ r) = some ((readerValue d [b0, b1, b2, b3]).toNat, r) :=
  ⟨_, readers_interpreted.2.2.2.2.2.1, by
    rw [show readerValue ⟨4, false, termsBE 4, 0, none⟩ [b0, b1, b2, b3] = (unbeN [b0, b1, b2, b3] : Nat)
      from get_uint b0 b1 b2 b3 h0 h1 h2 h3]
    rw [Int.toNat_natCast]
    exact run_rdU_bytes 4 [b0, b1, b2, b3] r rfl⟩

theorem read_long5_chain (h0 : b0 < 256) (h1 : b1 < 256) (h2 : b2 < 256) (h3 : b3 < 256) (h4 : b4 < 256) :
    ∃ d, readerSem "ReadLong5" = some (5, d) ∧
      P.run (readOp (.long5 0)) ([b0, b1, b2, b3, b4] ++ r) =
        some (.long5 (readerValue d [b0, b1, b2, b3, b4]), r) :=
  ⟨_, readers_interpreted.2.2.2.2.2.2.1, by
    rw [show readerValue ⟨8, true, [(0, 32, true), (1, 24, false), (2, 16, false), (3, 8, false), (4, 0, false)], 0, none⟩
      [b0, b1, b2, b3, b4] = decI 5 [b0, b1, b2, b3, b4] from get_long5 b0 b1 b2 b3 b4 h0 h1 h2 h3 h4]
    exact run_map _ _ _ _ _ (run_rdI_bytes 5 [b0, b1, b2, b3, b4] r rfl)⟩

theorem read_long_chain (h0 : b0 < 256) (h1 : b1 < 256) (h2 : b2 < 256) (h3 : b3 < 256)
    (h4 : b4 < 256) (h5 : b5 < 256) (h6 : b6 < 256) (h7 : b7 < 256) :
    ∃ d, readerSem "ReadLong" = some (8, d) ∧
      P.run (readOp (.long 0)) ([b0, b1, b2, b3, b4, b5, b6, b7] ++ r) =
        some (.long (readerValue d [b0, b1, b2, b3, b4, b5, b6, b7]), r) :=
  ⟨_, readers_interpreted.2.2.2.2.2.2.2.1, by
    rw [show readerValue ⟨8, true, termsBE 8, 0, none⟩ [b0, b1, b2, b3, b4, b5, b6, b7]
      = decI 8 [b0, b1, b2, b3, b4, b5, b6, b7] from get_long b0 b1 b2 b3 b4 b5 b6 b7 h0 h1 h2 h3 h4 h5 h6 h7]
    exact run_map _ _ _ _ _ (run_rdI_bytes 8 [b0, b1, b2, b3, b4, b5, b6, b7] r rfl)⟩

theorem read_short_little_chain (h0 : b0 < 256) (h1 : b1 < 256) :
    ∃ d, readerSem "ReadShortLittle" = some (2, d) ∧
      P.run (rdILittle 2) ([b0, b1] ++ r) = some (readerValue d [b0, b1], r) :=
  ⟨_, readers_interpreted.2.2.2.2.2.2.2.2.1, by
    rw [show readerValue ⟨2, true, termsLE 2, 0, none⟩ [b0, b1] = decILittle 2 [b0, b1]
      from get_short_little b0 b1 h0 h1]
    exact run_rdILittle_bytes 2 [b0, b1] r rfl⟩

theorem read_unsigned_short_little_chain (h0 : b0 < 256) (h1 : b1 < 256) :
    ∃ d, readerSem "ReadUnsignedShortLittle" = some (2, d) ∧
      P.run (rdULittle 2) ([b0, b1] ++ r) = some ((readerValue d [b0, b1]).toNat, r) :=
  ⟨_, readers_interpreted.2.2.2.2.2.2.2.2.2.1, by
    have e : readerValue ⟨2, false, termsLE 2, 0, some 2⟩ [b0, b1] = (unleN [b0, b1] : Nat) := by
      show evalGet 2 false (termsLE 2) 0 [b0, b1] % modulus 2 = _
      rw [get_ushort_little b0 b1 h0 h1]
      simp [unleN, unbeN, modulus]
      omega
    rw [e, Int.toNat_natCast]
    exact run_rdULittle_bytes 2 [b0, b1] r rfl⟩

theorem read_int_little_chain (h0 : b0 < 256) (h1 : b1 < 256) (h2 : b2 < 256) (h3 : b3 < 256) :
    ∃ d, readerSem "ReadIntLittle" = some (4, d) ∧
      P.run (rdILittle 4) ([b0, b1, b2, b3] ++ r) = some (readerValue d [b0, b1, b2, b3], r) :=
  ⟨_, readers_interpreted.2.2.2.2.2.2.2.2.2.2.1, by
    rw [show readerValue ⟨4, true, termsLE 4, 0, none⟩ [b0, b1, b2, b3] = decILittle 4 [b0, b1, b2, b3]
      from get_int_little b0 b1 b2 b3 h0 h1 h2 h3]
    exact run_rdILittle_bytes 4 [b0, b1, b2, b3] r rfl⟩

theorem read_uint_little_chain (h0 : b0 < 256) (h1 : b1 < 256) (h2 : b2 < 256) (h3 : b3 < 256) :
    ∃ d, readerSem "ReadUintLittle" = some (4, d) ∧
      P.run (rdULittle 4) ([b0, b1, b2, b3] ++ r) = some ((readerValue d [b0, b1, b2, b3]).toNat, r) :=
  ⟨_, readers_interpreted.2.2.2.2.2.2.2.2.2.2.2, by
    rw [show readerValue ⟨4, false, termsLE 4, 0, none⟩ [b0, b1, b2, b3] = (unleN [b0, b1, b2, b3] : Nat)
      from get_uint_little b0 b1 b2 b3 h0 h1 h2 h3]
    rw [Int.toNat_natCast]
    exact run_rdULittle_bytes 4 [b0, b1, b2, b3] r rfl⟩
end chain

-- non-vacuity: the chain computes concrete values from the regenerated tables
example : (readerSem "ReadInt3").map (fun p => readerValue p.2 [255, 255, 254]) = some (-2) := by decide
example : (readerSem "ReadUnsignedShort").map (fun p => readerValue p.2 [255, 254]) = some 65534 := by decide

/-! ### the fixed-width stream writers, interpreted end to end (`prim_writers_shape` ∘ `put_shape`) -/

/-- the forms of the expression a fixed-width writer hands to `WriteBytes` -/
def writerForms : List (String × String) :=
  [("ToBytesShort(b)", "ToBytesShort"), ("ToBytesUShort(b)", "ToBytesUShort"), ("ToBytesInt3(b)", "ToBytesInt3"),
   ("ToBytesInt(b)", "ToBytesInt"), ("ToBytesLong5(b)", "ToBytesLong5"), ("ToBytesLong(b)", "ToBytesLong")]

/-- one entry of the regenerated `primWriters`, resolved to the regenerated shift table of the helper it calls -/
def writerSem (name : String) : Option (List (Nat × Nat)) :=
  match lookup Gen.C01.primWriters name with
  | some (some expr) =>
    match lookup writerForms expr with
    | some helper =>
      match lookup Gen.C01.putShifts helper with
      | some (some t) => some t
      | _ => none
    | none => none
  | _ => none

theorem writers_interpreted :
    writerSem "WriteShort" = some (shiftsBE 2) ∧ writerSem "WriteUShort" = some (shiftsBE 2) ∧
    writerSem "WriteInt3" = some (shiftsBE 3) ∧ writerSem "WriteInt" = some (shiftsBE 4) ∧
    writerSem "WriteLong5" = some (shiftsBE 5) ∧ writerSem "WriteLong" = some (shiftsBE 8) := by
  decide

/-- from the regenerated tables to the model's `writeOp`, for all values: the bytes a fixed-width
    writer appends are the regenerated shift table of its helper evaluated on the two's-complement
    pattern of the argument (which is what Go's `byte(v >> s)` computes: `put_byte_signed`) -/
theorem write_chain (v : Int) (n : Nat) :
    (∃ t, writerSem "WriteShort" = some t ∧ writeOp (.short v) = evalPut t (toU 2 v)) ∧
    (∃ t, writerSem "WriteUShort" = some t ∧ writeOp (.ushort n) = evalPut t n) ∧
    (∃ t, writerSem "WriteInt3" = some t ∧ writeOp (.int3 v) = evalPut t (toU 3 v)) ∧
    (∃ t, writerSem "WriteInt" = some t ∧ writeOp (.int v) = evalPut t (toU 4 v)) ∧
    (∃ t, writerSem "WriteLong5" = some t ∧ writeOp (.long5 v) = evalPut t (toU 5 v)) ∧
    (∃ t, writerSem "WriteLong" = some t ∧ writeOp (.long v) = evalPut t (toU 8 v)) :=
  ⟨⟨_, writers_interpreted.1, (put_table_signed 2 v).symm⟩,
   ⟨_, writers_interpreted.2.1, (evalPut_shiftsBE 2 n).symm⟩,
   ⟨_, writers_interpreted.2.2.1, (put_table_signed 3 v).symm⟩,
   ⟨_, writers_interpreted.2.2.2.1, (put_table_signed 4 v).symm⟩,
   ⟨_, writers_interpreted.2.2.2.2.1, (put_table_signed 5 v).symm⟩,
   ⟨_, writers_interpreted.2.2.2.2.2, (put_table_signed 8 v).symm⟩⟩

example : (writerSem "WriteInt3").map (fun t => evalPut t (toU 3 (-2))) = some [255, 255, 254] := by decide

/-! ### the array readers, interpreted (`Gen.C01.arrayReaders`)

  The translator recognises the whole body of a `Read*Array`: count reader, `if sz == 0` shortcut,
  `CheckCount(sz, minBytes)`, `make`, the element loop.  Which reader reads the count and the
  elements is golden (`array_readers_names`); the shortcut and the guard constant are *interpreted*:
  `Prim.arrSemG` runs the structure with whatever constants were regenerated, and it is the model's
  decoder on every input as long as the guard does not ask for more bytes per element than an
  element has (`array_guards_sound`, evaluated on the regenerated constants) — so a harmless change
  of a guard constant keeps the obligation, a harmful one breaks it. -/

def guardOf (name : String) : Nat :=
  match lookup Gen.C01.arrayReaders name with
  | some (some t) => t.2.2.1
  | _ => 0
def zeroOf (name : String) : Bool :=
  match lookup Gen.C01.arrayReaders name with
  | some (some t) => t.2.1
  | _ => false

theorem array_readers_names :
    (Gen.C01.arrayReaders.map (fun e => (e.1, e.2.map (fun t => (t.1, t.2.2.2.1, t.2.2.2.2)))) ==
      [("ReadDecimalArray", some ("ReadDecimal", "ReadDecimal", "")),
       ("ReadDecimalArrayInt", some ("ReadDecimal", "ReadDecimal", "int32")),
       ("ReadDoubleArray", some ("ReadShort", "ReadDouble", "")), ("ReadFloatArray", some ("ReadShort", "ReadFloat", "")),
       ("ReadIntArray", some ("ReadShort", "ReadInt", "")), ("ReadLongArray", some ("ReadShort", "ReadLong", "")),
       ("ReadShortArray", some ("ReadShort", "ReadShort", "")), ("ReadTextArray", some ("ReadShort", "ReadText", ""))]) = true := by
  decide

/-- no guard asks for more bytes per element than the element's reader consumes -/
theorem array_guards_sound :
    guardOf "ReadShortArray" ≤ 2 ∧ guardOf "ReadIntArray" ≤ 4 ∧ guardOf "ReadLongArray" ≤ 8 ∧
    guardOf "ReadFloatArray" ≤ 4 ∧ guardOf "ReadDoubleArray" ≤ 8 ∧ guardOf "ReadTextArray" ≤ 1 ∧
    guardOf "ReadDecimalArray" ≤ 1 ∧ guardOf "ReadDecimalArrayInt" ≤ 1 := by
  decide

/-- every array read, run as its regenerated structure says (shortcut, guard constant), is the
    model's array decoder — for all inputs, well formed or not -/
theorem array_readers_interpreted (bs : Bytes) :
    arrSemG (rdI 2) (zeroOf "ReadShortArray") (guardOf "ReadShortArray") (rdI 2) bs = P.run (decArr (rdI 2)) bs ∧
    arrSemG (rdI 2) (zeroOf "ReadIntArray") (guardOf "ReadIntArray") (rdI 4) bs = P.run (decArr (rdI 4)) bs ∧
    arrSemG (rdI 2) (zeroOf "ReadLongArray") (guardOf "ReadLongArray") (rdI 8) bs = P.run (decArr (rdI 8)) bs ∧
    arrSemG (rdI 2) (zeroOf "ReadFloatArray") (guardOf "ReadFloatArray") (rdU 4) bs = P.run (decArr (rdU 4)) bs ∧
    arrSemG (rdI 2) (zeroOf "ReadDoubleArray") (guardOf "ReadDoubleArray") (rdU 8) bs = P.run (decArr (rdU 8)) bs ∧
    arrSemG (rdI 2) (zeroOf "ReadTextArray") (guardOf "ReadTextArray") decBlob bs = P.run (decArr decBlob) bs ∧
    arrSemG decDecimal (zeroOf "ReadDecimalArray") (guardOf "ReadDecimalArray") decDecimal bs = P.run decDecArr bs ∧
    (arrSemG decDecimal (zeroOf "ReadDecimalArrayInt") (guardOf "ReadDecimalArrayInt") decDecimal bs).map
        (fun p => (p.1.map narrow32, p.2)) = P.run decDecArrInt bs :=
  have g := array_guards_sound
  ⟨arrSemG_eq _ _ 2 (consumes_rdI 2) _ _ g.1 bs, arrSemG_eq _ _ 4 (consumes_rdI 4) _ _ g.2.1 bs,
   arrSemG_eq _ _ 8 (consumes_rdI 8) _ _ g.2.2.1 bs, arrSemG_eq _ _ 4 (consumes_rdU 4) _ _ g.2.2.2.1 bs,
   arrSemG_eq _ _ 8 (consumes_rdU 8) _ _ g.2.2.2.2.1 bs, arrSemG_eq _ _ 1 consumes_decBlob _ _ g.2.2.2.2.2.1 bs,
   arrSemG_eq _ _ 1 consumes_decDecimal _ _ g.2.2.2.2.2.2.1 bs,
   by rw [arrSemG_eq _ _ 1 consumes_decDecimal _ _ g.2.2.2.2.2.2.2 bs]; exact (run_map_eq _ _ bs).symm⟩

-- non-vacuity: the entries exist and were recognised (no constant is named here: a harmless change of one must not break anything)
example : Gen.C01.arrayReaders.all (fun e => e.2.isSome) = true ∧ 1 ≤ guardOf "ReadLongArray" := by decide

/-! ### the frame-header writers, interpreted (`header_calls_shape` given a semantics)

  The regenerated call sequence of a header writer is *run*: every call name is a step on the
  stream state (buffer, counter, the saved payload) and takes its arguments in source order.  The
  result is the model's `Writer.header` / `Writer.secureHeader` for all arguments and all streams. -/

inductive HArg where
  | n (v : Nat)
  | i (v : Int)

structure HState where
  w : Writer
  saved : Bytes
  args : List HArg

/-- one call of a header writer's body; arguments are consumed in order -/
def runCall (st : HState) (c : String) : Option HState :=
  if c = "buffer.Bytes" then some { st with saved := st.w.buf }
  else if c = "buffer.Reset" then some { st with w := ⟨[], st.w.written⟩ }
  else if c = "written=0" then some { st with w := ⟨st.w.rev, 0⟩ }
  else if c = "WriteByte" then
    match st.args with
    | .n v :: t => some { st with w := st.w.put [v], args := t }
    | _ => none
  else if c = "WriteLong" then
    match st.args with
    | .i v :: t => some { st with w := st.w.put (encI 8 v), args := t }
    | _ => none
  else if c = "WriteInt" then
    match st.args with
    | .i v :: t => some { st with w := st.w.put (encI 4 v), args := t }
    | _ => none
  else if c = "WriteIntBytes" then some { st with w := st.w.op (.intBytes st.saved) }
  else none

def runCalls : List String → HState → Option HState
  | [], st => some st
  | c :: cs, st =>
    match runCall st c with
    | some st' => runCalls cs st'
    | none => none

/-- a header writer, run as its regenerated call sequence says; every argument must be used -/
def headerSem (name : String) (w : Writer) (args : List HArg) : Option Writer :=
  match lookup Gen.C01.callSeqs name with
  | some cs =>
    match runCalls cs ⟨w, [], args⟩ with
    | some st => if st.args.isEmpty then some st.w else none
    | none => none
  | none => none

theorem header_interpreted (w : Writer) (src ver : Nat) (pcode lic : Int) :
    headerSem "WriteHeader" w [.n src, .n ver, .i pcode, .i lic] = some (w.header src ver pcode lic) ∧
    headerSem "WriteOneWayHeader" w [.n src, .n ver, .i pcode, .i lic] = some (w.header src ver pcode lic) := by
  have h := header_calls_shape
  constructor
  · simp only [headerSem, h.1]
    rfl
  · simp only [headerSem, h.2.1, h.1]
    rfl

theorem secure_header_interpreted (w : Writer) (src ver : Nat) (pcode oid key : Int) :
    headerSem "WriteSecureHeader" w [.n src, .n ver, .i pcode, .i oid, .i key] =
      some (w.secureHeader src ver pcode oid key) := by
  simp only [headerSem, header_calls_shape.2.2]
  rfl

/-! ### the array writers, interpreted (`Gen.C01.arrayWriters`)

  The translator recognises the whole body of a `Write*Array`:
  `if v == nil { out.WriteShort(lit) } else { sz := len(v); out.WriteShort(int16(sz)); for … { out.WriteX(v[i]) } }`.
  Which writers are called is golden (`array_writers_names`); the literal of the nil branch is
  interpreted: the structure, run with the regenerated literal, is the model's `encArr` — and so a
  nil array and an empty one are the same bytes ("nil and empty … are the same value on the wire"). -/

/-- the array writer as its structure says: `none` is a nil slice -/
def arrWSemG (nilLit : Nat) (enc : α → Bytes) : Option (List α) → Bytes
  | none => encI 2 nilLit
  | some xs => encI 2 xs.length ++ encMany enc xs

def nilLitOf (name : String) : Nat :=
  match lookup Gen.C01.arrayWriters name with
  | some (some t) => t.2.1
  | _ => 1

theorem arrWSemG_eq (enc : α → Bytes) (v : Option (List α)) :
    arrWSemG 0 enc v = encArr enc (v.getD []) := by
  cases v with
  | none => simp [arrWSemG, encArr, encMany]
  | some xs => rfl

theorem array_writers_names :
    (Gen.C01.arrayWriters.map (fun e => (e.1, e.2.map (fun t => (t.1, t.2.2.1, t.2.2.2.1, t.2.2.2.2)))) ==
      [("WriteDoubleArray", some ("WriteShort", "WriteShort", "int16", "WriteDouble")),
       ("WriteFloatArray", some ("WriteShort", "WriteShort", "int16", "WriteFloat")),
       ("WriteIntArray", some ("WriteShort", "WriteShort", "int16", "WriteInt")),
       ("WriteLongArray", some ("WriteShort", "WriteShort", "int16", "WriteLong")),
       ("WriteShortArray", some ("WriteShort", "WriteShort", "int16", "WriteShort")),
       ("WriteTextArray", some ("WriteShort", "WriteShort", "int16", "WriteText"))]) = true := by
  decide

theorem array_writers_nil_literal :
    nilLitOf "WriteShortArray" = 0 ∧ nilLitOf "WriteIntArray" = 0 ∧ nilLitOf "WriteLongArray" = 0 ∧
    nilLitOf "WriteFloatArray" = 0 ∧ nilLitOf "WriteDoubleArray" = 0 ∧ nilLitOf "WriteTextArray" = 0 := by
  decide

/-- every array writer, run as its regenerated structure says, emits the model's `writeOp` of the
    array op — nil and empty alike -/
theorem array_writers_interpreted (is : Option (List Int)) (ns : Option (List Nat)) (ts : Option (List Bytes)) :
    arrWSemG (nilLitOf "WriteShortArray") (encI 2) is = writeOp (.shortArr (is.getD [])) ∧
    arrWSemG (nilLitOf "WriteIntArray") (encI 4) is = writeOp (.intArr (is.getD [])) ∧
    arrWSemG (nilLitOf "WriteLongArray") (encI 8) is = writeOp (.longArr (is.getD [])) ∧
    arrWSemG (nilLitOf "WriteFloatArray") (beN 4) ns = writeOp (.floatArr (ns.getD [])) ∧
    arrWSemG (nilLitOf "WriteDoubleArray") (beN 8) ns = writeOp (.doubleArr (ns.getD [])) ∧
    arrWSemG (nilLitOf "WriteTextArray") encBlob ts = writeOp (.textArr (ts.getD [])) := by
  have g := array_writers_nil_literal
  rw [g.1, g.2.1, g.2.2.1, g.2.2.2.1, g.2.2.2.2.1, g.2.2.2.2.2]
  exact ⟨arrWSemG_eq _ _, arrWSemG_eq _ _, arrWSemG_eq _ _, arrWSemG_eq _ _, arrWSemG_eq _ _, arrWSemG_eq _ _⟩

/-- nil and empty arrays are the same value on the wire -/
theorem nil_is_empty_array (enc : α → Bytes) : arrWSemG 0 enc none = arrWSemG 0 enc (some []) := by
  rw [arrWSemG_eq, arrWSemG_eq]; rfl

/-! ### the length-prefixed byte-string writers, interpreted (`Gen.C01.lenPrefixed`)

  `if b == nil || len(b) == 0 { out.WriteX(lit) } else { out.WriteX(conv(len(b))); out.WriteBytes(b) }`
  (for `WriteTextShortLength`: `if v == "" …`, `b := []byte(v)`).  The writers called are golden; the
  literal of the nil/empty branch is interpreted. -/

/-- the writer as its structure says, with a `w`-byte length field: `none` is nil -/
def lpSem (w nilLit : Nat) : Option Bytes → Bytes
  | none => encI w nilLit
  | some bs => if bs.length = 0 then encI w nilLit else encI w bs.length ++ bs

def lpLitOf (name : String) : Nat :=
  match lookup Gen.C01.lenPrefixed name with
  | some (some t) => t.2.1
  | _ => 1

theorem encI_nat (w n : Nat) (h : n < 256 ^ w) : encI w (n : Int) = beN w n := by
  unfold encI toU modulus
  rw [Int.emod_eq_of_lt (by omega) (by exact_mod_cast h), Int.toNat_natCast]

theorem len_prefixed_names :
    (Gen.C01.lenPrefixed.map (fun e => (e.1, e.2.map (fun t => (t.1, t.2.2.1, t.2.2.2)))) ==
      [("WriteIntBytes", some ("WriteInt", "WriteInt", "int32")),
       ("WriteShortBytes", some ("WriteShort", "WriteShort", "int16")),
       ("WriteTextShortLength", some ("WriteShort", "WriteShort", "int16"))]) = true := by
  decide

theorem len_prefixed_nil_literal :
    lpLitOf "WriteIntBytes" = 0 ∧ lpLitOf "WriteShortBytes" = 0 ∧ lpLitOf "WriteTextShortLength" = 0 := by
  decide

/-- run as their regenerated structure says, the three writers emit the model's `writeOp` — for nil,
    empty and every other byte string the length field can represent -/
theorem len_prefixed_interpreted (v : Option Bytes) (h16 : (v.getD []).length ≤ 65535) :
    lpSem 4 (lpLitOf "WriteIntBytes") v = writeOp (.intBytes (v.getD [])) ∧
    lpSem 2 (lpLitOf "WriteShortBytes") v = writeOp (.shortBytes (v.getD [])) ∧
    lpSem 2 (lpLitOf "WriteTextShortLength") v = writeOp (.textShort (v.getD [])) := by
  have g := len_prefixed_nil_literal
  rw [g.1, g.2.1, g.2.2]
  have z4 : encI 4 ((0 : Nat) : Int) = encI 4 0 := rfl
  cases v with
  | none => exact ⟨rfl, rfl, rfl⟩
  | some bs =>
    simp only [Option.getD_some] at h16
    have e2 : encI 2 (bs.length : Int) = beN 2 bs.length := encI_nat 2 bs.length (by simp; omega)
    by_cases h0 : bs.length = 0
    · have : bs = [] := List.eq_nil_of_length_eq_zero h0
      subst this
      exact ⟨rfl, rfl, rfl⟩
    · simp only [lpSem, h0, if_false, Option.getD_some, writeOp, encBytes32, encBytes16, e2]
      exact ⟨trivial, trivial, trivial⟩

/-- nil and empty byte strings are the same value on the wire -/
theorem nil_is_empty_bytes (w : Nat) : lpSem w 0 none = lpSem w 0 (some []) := rfl


end C01Gen
