/-
  C01, tie A — obligations over the facts regenerated from io/DataOutputX.go and
  io/DataInputX.go (lean/Golib/Gen/C01.lean, written by xlate/c01 on every run).

  Two layers:
  * `*_shape` theorems: the regenerated tables equal the canonical tables below (`decide`).
    They break whenever the source changes shape.
  * semantic theorems: the canonical tables, read with the semantics of Go's integer
    conversions and shifts (`evalPut`, `evalGet`: trusted transcription semantics), compute
    exactly the model's `beN` / `decI` / `decILittle`.  Proved once, for all byte values.
-/
import Golib.Prim.Extra
import Golib.Gen.C01

namespace C01Gen
open Prim

/-! ### writers: `buf[i] = byte(v >> s)` -/

/-- semantics of a put table on the two's-complement pattern `u` of the argument -/
def evalPut (shifts : List (Nat × Nat)) (u : Nat) : Bytes := shifts.map (fun p => u / 2 ^ p.2 % 256)

def shiftsBE : Nat → List (Nat × Nat)
  | 0 => []
  | w+1 => (shiftsBE w).map (fun p => (p.1 + 1, p.2)) |> fun t => (0, 8 * w) :: t

theorem evalPut_shiftsBE (w u : Nat) : evalPut (shiftsBE w) u = beN w u := by
  induction w with
  | zero => rfl
  | succ w ih =>
    simp only [shiftsBE, evalPut, List.map_cons, List.map_map, beN]
    have hf : (fun p : Nat × Nat => u / 2 ^ p.2 % 256) ∘ (fun p : Nat × Nat => (p.1 + 1, p.2))
        = (fun p : Nat × Nat => u / 2 ^ p.2 % 256) := by funext p; rfl
    have ih' : List.map (fun p : Nat × Nat => u / 2 ^ p.2 % 256) (shiftsBE w) = beN w u := ih
    rw [hf, ih', Nat.pow_mul]

/-! The put tables are evaluated on the two's-complement pattern `toU W v`.  That this is what Go's
    `byte(v >> s)` computes for a *signed* `v` (arithmetic shift, then truncation) is proved, not assumed: -/

theorem shift_byte_general (v d c : Int) (hd : 0 < d) :
    (v / d) % 256 = ((v % (d * (256 * c))) / d) % 256 := by
  have h := Int.emod_add_mul_ediv v (d * (256 * c))
  generalize hr : v % (d * (256 * c)) = r at h ⊢
  generalize hq : v / (d * (256 * c)) = q at h
  have : v = r + d * (256 * c * q) := by rw [← h]; simp [Int.mul_assoc]
  rw [this, Int.add_mul_ediv_left _ _ (Int.ne_of_gt hd)]
  have : 256 * c * q = 256 * (c * q) := Int.mul_assoc _ _ _
  rw [this, Int.add_mul_emod_self_left]

theorem modulus_split (W s : Nat) (hs : s + 8 ≤ 8 * W) :
    modulus W = (2 : Int) ^ s * (256 * (2 : Int) ^ (8 * W - s - 8)) := by
  unfold modulus
  have : (256 : Nat) ^ W = 2 ^ s * (256 * 2 ^ (8 * W - s - 8)) := by
    have e : (256 : Nat) = 2 ^ 8 := rfl
    rw [e, ← Nat.pow_mul, ← Nat.pow_add, ← Nat.pow_add]
    congr 1; omega
  rw [this]; simp [Int.natCast_mul, Int.natCast_pow]

/-- Go's `byte(v >> s)` on a signed `v` held in `W` bytes (arithmetic shift = floor division,
    conversion to byte = mod 256) is the byte at bit offset `s` of the two's-complement pattern -/
theorem put_byte_signed (W s : Nat) (v : Int) (hs : s + 8 ≤ 8 * W) :
    ((v / (2 : Int) ^ s) % 256).toNat = toU W v / 2 ^ s % 256 := by
  have hp : (0 : Int) < (2 : Int) ^ s := Int.pow_pos (by decide)
  rw [shift_byte_general v ((2 : Int) ^ s) ((2 : Int) ^ (8 * W - s - 8)) hp, ← modulus_split W s hs]
  have h0 : 0 ≤ v % modulus W := Int.emod_nonneg _ (Int.ne_of_gt (modulus_pos W))
  unfold toU
  generalize v % modulus W = r at h0 ⊢
  obtain ⟨n, rfl⟩ := Int.eq_ofNat_of_zero_le h0
  simp only [Int.toNat_natCast]
  have : ((n : Int) / (2 : Int) ^ s) % 256 = ((n / 2 ^ s % 256 : Nat) : Int) := by
    simp [Int.natCast_ediv, Int.natCast_emod, Int.natCast_pow]
  rw [this, Int.toNat_natCast]

/-- hence every signed writer emits `encI w v`: the bytes of the shift table are Go's `byte(v >> s)` -/
theorem put_table_signed (w : Nat) (v : Int) :
    evalPut (shiftsBE w) (toU w v) = encI w v := evalPut_shiftsBE w (toU w v)

def lookup {α : Type} (tbl : List (String × α)) (k : String) : Option α :=
  (tbl.find? (fun p => p.1 == k)).map (·.2)

def putExpected : List (String × Option (List (Nat × Nat))) :=
  [("ToBytesShort", some (shiftsBE 2)), ("ToBytesUShort", some (shiftsBE 2)), ("SetBytesShort", some (shiftsBE 2)),
   ("ToBytesInt3", some (shiftsBE 3)), ("SetBytesInt3", some (shiftsBE 3)),
   ("ToBytesInt", some (shiftsBE 4)), ("SetBytesInt", some (shiftsBE 4)),
   ("ToBytesLong5", some (shiftsBE 5)), ("SetBytesLong5", some (shiftsBE 5)),
   ("ToBytesLong", some (shiftsBE 8)), ("SetBytesLong", some (shiftsBE 8))]

/-- every ToBytesX / SetBytesX writes the big-endian shift table of its width, in index order -/
theorem put_shape : putExpected.all (fun e => lookup Gen.C01.putShifts e.1 == some e.2) = true := by
  decide

/-! ### readers -/

def byteAt (bs : Bytes) (i : Nat) : Int := ((bs.getD i 0 : Nat) : Int)
def sext8 (b : Int) : Int := if b < 128 then b else b - 256

/-- Go semantics of the straight-line reader bodies: the sum of the shifted (possibly
    sign-extended) bytes, wrapped to the `w`-byte result type, then arithmetically shifted -/
def evalGet (w : Nat) (signed : Bool) (terms : List (Nat × Nat × Bool)) (shr : Nat) (bs : Bytes) : Int :=
  let raw : Int := terms.foldl
    (fun acc t => acc + (if t.2.2 then sext8 (byteAt bs t.1) else byteAt bs t.1) * 2 ^ t.2.1) 0
  let u : Int := raw % modulus w
  let wrapped : Int := if signed then (if 2 * u < modulus w then u else u - modulus w) else u
  wrapped / 2 ^ shr

def termsBE : Nat → List (Nat × Nat × Bool)
  | 0 => []
  | w+1 => (0, 8 * w, false) :: (termsBE w).map (fun t => (t.1 + 1, t.2.1, t.2.2))
def termsLE (w : Nat) : List (Nat × Nat × Bool) := (List.range w).map (fun i => (i, 8 * i, false))

def getExpected : List (String × Option (List (Nat × Nat × Bool) × Nat)) :=
  [("ToShort", some (termsBE 2, 0)), ("ToUShort", some (termsBE 2, 0)), ("ToUshort", some (termsBE 2, 0)),
   ("ToInt3", some ([(0, 24, false), (1, 16, false), (2, 8, false)], 8)),
   ("ToInt", some (termsBE 4, 0)), ("ToUint", some (termsBE 4, 0)),
   ("ToLong5", some ([(0, 32, true), (1, 24, false), (2, 16, false), (3, 8, false), (4, 0, false)], 0)),
   ("ToLong", some (termsBE 8, 0)),
   ("ToShortLittle", some (termsLE 2, 0)), ("ToUshortLittle", some (termsLE 2, 0)),
   ("ToIntLittle", some (termsLE 4, 0)), ("ToUintLittle", some (termsLE 4, 0)),
   ("ToLongLittle", some (termsLE 8, 0)), ("ToUlongLittle", some (termsLE 8, 0))]

theorem get_shape : getExpected.all (fun e => lookup Gen.C01.getTerms e.1 == some e.2) = true := by
  decide

section sem
variable (b0 b1 b2 b3 b4 b5 b6 b7 : Nat)

theorem get_short (h0 : b0 < 256) (h1 : b1 < 256) :
    evalGet 2 true (termsBE 2) 0 [b0, b1] = decI 2 [b0, b1] := by
  simp [evalGet, termsBE, byteAt, decI, ofU, unbeN, modulus, List.foldl]
  omega

theorem get_ushort (h0 : b0 < 256) (h1 : b1 < 256) :
    evalGet 2 false (termsBE 2) 0 [b0, b1] = (unbeN [b0, b1] : Nat) := by
  simp [evalGet, termsBE, byteAt, unbeN, modulus, List.foldl]
  omega

theorem get_int3 (h0 : b0 < 256) (h1 : b1 < 256) (h2 : b2 < 256) :
    evalGet 4 true [(0, 24, false), (1, 16, false), (2, 8, false)] 8 [b0, b1, b2] = decI 3 [b0, b1, b2] := by
  simp [evalGet, byteAt, decI, ofU, unbeN, modulus, List.foldl]
  omega

theorem get_int (h0 : b0 < 256) (h1 : b1 < 256) (h2 : b2 < 256) (h3 : b3 < 256) :
    evalGet 4 true (termsBE 4) 0 [b0, b1, b2, b3] = decI 4 [b0, b1, b2, b3] := by
  simp [evalGet, termsBE, byteAt, decI, ofU, unbeN, modulus, List.foldl]
  omega

theorem get_uint (h0 : b0 < 256) (h1 : b1 < 256) (h2 : b2 < 256) (h3 : b3 < 256) :
    evalGet 4 false (termsBE 4) 0 [b0, b1, b2, b3] = (unbeN [b0, b1, b2, b3] : Nat) := by
  simp [evalGet, termsBE, byteAt, unbeN, modulus, List.foldl]
  omega

theorem get_long5 (h0 : b0 < 256) (h1 : b1 < 256) (h2 : b2 < 256) (h3 : b3 < 256) (h4 : b4 < 256) :
    evalGet 8 true [(0, 32, true), (1, 24, false), (2, 16, false), (3, 8, false), (4, 0, false)] 0
      [b0, b1, b2, b3, b4] = decI 5 [b0, b1, b2, b3, b4] := by
  simp [evalGet, byteAt, sext8, decI, ofU, unbeN, modulus, List.foldl]
  split <;> omega

theorem get_long (h0 : b0 < 256) (h1 : b1 < 256) (h2 : b2 < 256) (h3 : b3 < 256)
    (h4 : b4 < 256) (h5 : b5 < 256) (h6 : b6 < 256) (h7 : b7 < 256) :
    evalGet 8 true (termsBE 8) 0 [b0, b1, b2, b3, b4, b5, b6, b7] = decI 8 [b0, b1, b2, b3, b4, b5, b6, b7] := by
  simp [evalGet, termsBE, byteAt, decI, ofU, unbeN, modulus, List.foldl]
  omega

theorem get_short_little (h0 : b0 < 256) (h1 : b1 < 256) :
    evalGet 2 true (termsLE 2) 0 [b0, b1] = decILittle 2 [b0, b1] := by
  simp [evalGet, termsLE, byteAt, decILittle, unleN, ofU, unbeN, modulus, List.foldl, List.range, List.range.loop]
  omega

theorem get_ushort_little (h0 : b0 < 256) (h1 : b1 < 256) :
    evalGet 2 false (termsLE 2) 0 [b0, b1] = (unleN [b0, b1] : Nat) := by
  simp [evalGet, termsLE, byteAt, unleN, unbeN, modulus, List.foldl, List.range, List.range.loop]
  omega

theorem get_int_little (h0 : b0 < 256) (h1 : b1 < 256) (h2 : b2 < 256) (h3 : b3 < 256) :
    evalGet 4 true (termsLE 4) 0 [b0, b1, b2, b3] = decILittle 4 [b0, b1, b2, b3] := by
  simp [evalGet, termsLE, byteAt, decILittle, unleN, ofU, unbeN, modulus, List.foldl, List.range, List.range.loop]
  omega

theorem get_uint_little (h0 : b0 < 256) (h1 : b1 < 256) (h2 : b2 < 256) (h3 : b3 < 256) :
    evalGet 4 false (termsLE 4) 0 [b0, b1, b2, b3] = (unleN [b0, b1, b2, b3] : Nat) := by
  simp [evalGet, termsLE, byteAt, unleN, unbeN, modulus, List.foldl, List.range, List.range.loop]
  omega

theorem get_long_little (h0 : b0 < 256) (h1 : b1 < 256) (h2 : b2 < 256) (h3 : b3 < 256)
    (h4 : b4 < 256) (h5 : b5 < 256) (h6 : b6 < 256) (h7 : b7 < 256) :
    evalGet 8 true (termsLE 8) 0 [b0, b1, b2, b3, b4, b5, b6, b7] = decILittle 8 [b0, b1, b2, b3, b4, b5, b6, b7] := by
  simp [evalGet, termsLE, byteAt, decILittle, unleN, ofU, unbeN, modulus, List.foldl, List.range, List.range.loop]
  omega

theorem get_ulong_little (h0 : b0 < 256) (h1 : b1 < 256) (h2 : b2 < 256) (h3 : b3 < 256)
    (h4 : b4 < 256) (h5 : b5 < 256) (h6 : b6 < 256) (h7 : b7 < 256) :
    evalGet 8 false (termsLE 8) 0 [b0, b1, b2, b3, b4, b5, b6, b7] = (unleN [b0, b1, b2, b3, b4, b5, b6, b7] : Nat) := by
  simp [evalGet, termsLE, byteAt, unleN, unbeN, modulus, List.foldl, List.range, List.range.loop]
  omega
end sem

/-! ### decimal and blob switches, arrays, the `written` counter -/

/-- the model's `encDecimal` case table: (lo, hi, length byte, payload width) -/
def decimalCases : List (Int × Int × Nat × Nat) :=
  [(0, 0, 0, 0), (-128, 127, 1, 1), (-32768, 32767, 2, 2), (-8388608, 8388607, 3, 3),
   (-2147483648, 2147483647, 4, 4), (-549755813888, 549755813887, 5, 5),
   (-9223372036854775808, 9223372036854775807, 8, 8)]

/-- `encDecimal` is the first-match evaluation of that table -/
def encDecimalTbl (v : Int) : List (Int × Int × Nat × Nat) → Bytes
  | [] => []
  | (lo, hi, lb, w) :: rest => if lo ≤ v ∧ v ≤ hi then lb :: encI w v else encDecimalTbl v rest

theorem encDecimal_is_table (v : Int) (h : inRange 8 v) : encDecimal v = encDecimalTbl v decimalCases := by
  have h8 := (inRange_8 v).mp h
  unfold encDecimal
  simp only [encDecimalTbl, decimalCases]
  by_cases h0 : v = 0
  · subst h0; simp [encI, beN]
  · have : ¬ (0 ≤ v ∧ v ≤ 0) := by omega
    simp only [h0, this, if_false]
    repeat' split
    all_goals first | rfl | omega

theorem decimal_shape :
    Gen.C01.decimalW = decimalCases ∧
    Gen.C01.decimalR = ([(0, 0), (1, 1), (2, 2), (3, 3), (4, 4), (5, 5)], 8) := by decide

theorem blob_shape :
    Gen.C01.blobW = ([253, 65535], [(255, 2), (254, 4)]) ∧
    Gen.C01.blobR = ([(255, "u16"), (254, "i32"), (0, "empty")], "self") := by decide

theorem arrays_shape :
    Gen.C01.arrays = [
      ("ReadDoubleArray", ["ReadShort", "ReadDouble"]), ("ReadFloatArray", ["ReadShort", "ReadFloat"]),
      ("ReadIntArray", ["ReadShort", "ReadInt"]), ("ReadLongArray", ["ReadShort", "ReadLong"]),
      ("ReadShortArray", ["ReadShort", "ReadShort"]), ("ReadTextArray", ["ReadShort", "ReadText"]),
      ("WriteDoubleArray", ["WriteShort", "WriteShort", "WriteDouble"]),
      ("WriteFloatArray", ["WriteShort", "WriteShort", "WriteFloat"]),
      ("WriteIntArray", ["WriteShort", "WriteShort", "WriteInt"]),
      ("WriteLongArray", ["WriteShort", "WriteShort", "WriteLong"]),
      ("WriteShortArray", ["WriteShort", "WriteShort", "WriteShort"]),
      ("WriteTextArray", ["WriteShort", "WriteShort", "WriteText"])] := by decide

theorem written_shape :
    Gen.C01.written = [("WriteBytes", ["+=len(b)"]), ("WriteByte", ["++"]), ("Write", ["+=sz"])] := by decide

/-- `ReadDecimalLen` has the same case table as `ReadDecimal` plus an explicit 8 arm -/
theorem decimalLen_shape :
    Gen.C01.decimalLenR = ([(0, 0), (1, 1), (2, 2), (3, 3), (4, 4), (5, 5), (8, 8)], 8) := by decide

/-- the model's `decDecimalLen` is the first-match evaluation of that table -/
def decDecimalLenTbl (n : Nat) (tbl : List (Nat × Nat)) (dflt : Nat) : Nat :=
  match tbl.find? (fun p => p.1 == n) with
  | some p => p.2
  | none => dflt

theorem decDecimalLen_is_table (n : Nat) :
    decDecimalLen n =
      (match decDecimalLenTbl n Gen.C01.decimalLenR.1 Gen.C01.decimalLenR.2 with
       | 0 => P.pure 0
       | w => rdI w) := by
  rw [decimalLen_shape]
  unfold decDecimalLen decDecimalLenTbl
  match n with
  | 0 | 1 | 2 | 3 | 4 | 5 | 8 => rfl
  | 6 | 7 => rfl
  | n + 9 => simp [List.find?]

/-- frame headers: reset buffer and counter, then source, version, project code, (hash | oid, key),
    and the old buffer as int-length bytes — the call sequence `Writer.header` / `secureHeader` models -/
theorem header_calls_shape :
    lookup Gen.C01.callSeqs "WriteHeader" =
      some ["buffer.Bytes", "buffer.Reset", "written=0", "WriteByte", "WriteByte", "WriteLong", "WriteLong", "WriteIntBytes"] ∧
    lookup Gen.C01.callSeqs "WriteOneWayHeader" = lookup Gen.C01.callSeqs "WriteHeader" ∧
    lookup Gen.C01.callSeqs "WriteSecureHeader" =
      some ["buffer.Bytes", "buffer.Reset", "written=0", "WriteByte", "WriteByte", "WriteLong", "WriteInt", "WriteInt", "WriteIntBytes"] := by
  decide

theorem composite_calls_shape :
    lookup Gen.C01.callSeqs "WriteIntBytes" = some ["WriteInt", "WriteInt", "WriteBytes"] ∧
    lookup Gen.C01.callSeqs "WriteShortBytes" = some ["WriteShort", "WriteShort", "WriteBytes"] ∧
    lookup Gen.C01.callSeqs "ReadIntBytes" = some ["ReadInt", "ReadBytes"] ∧
    lookup Gen.C01.callSeqs "ReadIntBytesLimit" = some ["ReadInt", "ReadBytes"] ∧
    lookup Gen.C01.callSeqs "ReadShortBytes" = some ["ReadShort", "ReadBytes"] ∧
    lookup Gen.C01.callSeqs "ReadDecimalArray" = some ["ReadDecimal", "CheckCount", "ReadDecimal"] ∧
    lookup Gen.C01.callSeqs "ReadDecimalArrayInt" = some ["ReadDecimal", "CheckCount", "ReadDecimal"] ∧
    lookup Gen.C01.callSeqs "ReadTextShortLength" = some ["ReadUShort", "ReadBytes"] := by
  decide

/-! ### fixed-width readers / writers: which width, which conversion -/

/-- every fixed-width reader asks `ReadBytes` for exactly the width of its field and hands the bytes
    to the conversion whose meaning is proved above (`get_*`); the model's `readOp` reads the same
    widths (`rdI w` / `rdU w` / `rdILittle w` / `rdULittle w`) -/
theorem prim_readers_shape :
    Gen.C01.primReaders =
      [("ReadBool", some (1, "b[0] == 1")), ("ReadByte", some (1, "b[0]")),
       ("ReadDouble", some (8, "ToDouble(b, 0)")), ("ReadFloat", some (4, "ToFloat(b, 0)")),
       ("ReadInt", some (4, "ToInt(b, 0)")), ("ReadInt3", some (3, "ToInt3(b, 0)")),
       ("ReadIntLittle", some (4, "ToIntLittle(b, 0)")), ("ReadLong", some (8, "ToLong(b, 0)")),
       ("ReadLong5", some (5, "ToLong5(b, 0)")), ("ReadShort", some (2, "ToShort(b, 0)")),
       ("ReadShortLittle", some (2, "ToShortLittle(b, 0)")), ("ReadUShort", some (2, "ToUShort(b, 0)")),
       ("ReadUintLittle", some (4, "ToUintLittle(b, 0)")), ("ReadUnsignedInt", some (4, "ToUint(b, 0)")),
       ("ReadUnsignedShort", some (2, "uint16(ToShort(b, 0))")),
       ("ReadUnsignedShortLittle", some (2, "uint16(ToUshortLittle(b, 0))"))] := by
  decide

/-- every fixed-width writer hands `WriteBytes` the bytes of the packing function of its own width
    (whose shifts are `put_shape`) -/
theorem prim_writers_shape :
    Gen.C01.primWriters =
      [("WriteBool", some "ToBytesBool(b)"), ("WriteDouble", some "ToBytesDouble(b)"),
       ("WriteFloat", some "ToBytesFloat(b)"), ("WriteInt", some "ToBytesInt(b)"),
       ("WriteInt3", some "ToBytesInt3(b)"), ("WriteLong", some "ToBytesLong(b)"),
       ("WriteLong5", some "ToBytesLong5(b)"), ("WriteShort", some "ToBytesShort(b)"),
       ("WriteUShort", some "ToBytesUShort(b)")] := by
  decide

/-! ### `ReadBytes`: the buffer guard and the connection loop

  The statements of `ReadBytes` as the model reads them: on a byte slice, a size that is negative
  or larger than what is left fails before anything is allocated (`P.run`'s `hasAtLeast` test); on a
  connection, `conn.Read(buff[until:])` is repeated, `left -= n; until += n`, until nothing is
  left, and an error of the connection fails the read — `Prim.Stream.readN`
  (`Prim.Stream.readN_is_loop`).  Golden text: a rewrite of this function has to be re-tied here. -/
theorem readBytes_shape :
    Gen.C01.readBytes =
      ["if in.tcp == nil && (sz < 0 || int(sz) > in.buffer.Len()) {", "panic", "}",
       "in.offset += sz",
       "buff := make([]byte, sz)",
       "if in.tcp != nil {",
       "nbytesleft := int(sz)",
       "nbytesuntilnow := 0",
       "for nbytesleft > 0 {",
       "nbytethistime, err := in.tcp.Read(buff[nbytesuntilnow:])",
       "if err != nil {", "panic", "}",
       "nbytesleft -= nbytethistime",
       "nbytesuntilnow += nbytethistime",
       "}",
       "} else {",
       "if _, err := in.buffer.Read(buff); err != nil {", "panic", "return nil", "}",
       "}",
       "return buff"] := by
  decide

end C01Gen
