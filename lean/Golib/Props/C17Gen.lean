/-
  C17, tie A — obligations over the facts regenerated from logger/logfile/FileLogger.go,
  logger/Logger.go and util/dateutil/DateTimeHelper.go (lean/Golib/Gen/C17.lean, written by
  xlate/c17 on every run).

  Two layers:
  * semantic obligations: the regenerated level gates, constants and entry-point shapes are
    exactly what the model (`Logger.Meth.gate`, `Meth.ln`, `Meth.rateId`, `idLen`, `cacheMax`,
    the one-minute and one-day constants) says;
  * shape obligations: the regenerated conditions and calls of `checkOk`, `process`,
    `openFile`, `clearOldLog`, `Read` equal the expressions the model was written from
    (normal form: single-definition locals inlined, other locals numbered), among them the
    presence of the containment test and of the `length <= 0` test in `Read`, the digit test
    in `clearOldLog`, and the install-before-close order in `process`.
  They break whenever the source changes one of these expressions; renaming locals or
  reordering independent statements does not change the normal form.
  * interpreted obligations (last section): the regenerated expressions of `checkOk`, of the
    `Read` window (`file == "" || length <= 0`, `size < endpos`, `if endpos < 0 { endpos = size }`,
    the `ReadAt` offset and buffer length through float64/math.Max/math.Min) and of the whole
    per-entry decision of `clearOldLog` (switch-off guards, the five skip guards with `LastIndex`,
    slice, `len != 8`, digit test, and the removal condition) are given the semantics of
    `Logger.IR.eval` and proved equal to the model (`checkOk`, `readWindow`, `candidate`, `deleted`)
    for all inputs.
-/
import Golib.Logger.RateLemmas
import Golib.Gen.C17

namespace C17Gen
open Logger

def goName : Meth → String
  | .errorf => "Errorf" | .error => "Error" | .warnf => "Warnf" | .warn => "Warn"
  | .infof => "Infof" | .info => "Info" | .infoln => "Infoln" | .debugf => "Debugf" | .debug => "Debug"
  | .printf => "Printf" | .println => "Println" | .printlnStd => "PrintlnStd"

def allMeths : List Meth :=
  [.errorf, .error, .warnf, .warn, .infof, .info, .infoln, .debugf, .debug, .printf, .println, .printlnStd]

def const (n : String) : Option Int := Gen.C17.consts.lookup n

/-- the gate of an entry point as the source has it: `if this.conf.level > LOG_LEVEL_X { return }` -/
def gateOf (m : Meth) : Option (Option Int) :=
  match Gen.C17.gates.lookup (goName m) with
  | some ("", "") => some none
  | some (">", c) => (const c).map some
  | _ => none

theorem gen_level_gates : allMeths.all (fun m => gateOf m == some m.gate) = true := by decide

theorem gen_constants :
    const "defaultLogIDPrefixLength" = some (idLen : Int) ∧
    const "lastLog.SetMax" = some (cacheMax : Int) ∧
    const "MILLIS_PER_MINUTE" = some 60000 ∧
    const "MILLIS_PER_DAY" = some millisPerDay ∧
    const "LOG_LEVEL_ERROR" = some 3 ∧ const "LOG_LEVEL_WARN" = some 2 ∧
    const "LOG_LEVEL_INFO" = some 1 ∧ const "LOG_LEVEL_DEBUG" = some 0 := by decide

def methodFact (m : Meth) : Option (String × String) := Gen.C17.methods.lookup (goName m)

def modelFormatter (m : Meth) : String :=
  if m == .printlnStd then "" else if m.ln then "Sprintln" else "Sprintf"

def modelRateShape (m : Meth) : String :=
  match m with
  | .errorf | .error | .warnf | .warn | .infof | .info | .infoln => "truncate:defaultLogIDPrefixLength"
  | .printf | .println => "param"
  | .debugf | .debug | .printlnStd => "none"

/-- formatter (`Sprintf` / `Sprintln`, i.e. `Meth.ln`) and origin of the rate-limit id per entry point -/
theorem gen_methods : allMeths.all (fun m => methodFact m == some (modelFormatter m, modelRateShape m)) = true := by decide

/-- and the model's `rateId` is that shape -/
theorem model_rate_shape (id s : Bytes) : allMeths.all (fun m =>
    match modelRateShape m with
    | "truncate:defaultLogIDPrefixLength" => m.rateId id s == some (s.take idLen)
    | "param" => m.rateId id s == some id
    | _ => m.rateId id s == none) = true := by
  simp [allMeths, modelRateShape, Meth.rateId, truncate]

def expectedGuards : List (String × String × String) := [
  ("Debug", "return", "this.conf.level > logger.LOG_LEVEL_DEBUG"),
  ("Debugf", "return", "this.conf.level > logger.LOG_LEVEL_DEBUG"),
  ("Error", "return", "this.checkOk(stringutil.Truncate(fmt.Sprintln($1...), defaultLogIDPrefixLength), this.conf.cacheInterval) == false"),
  ("Errorf", "return", "this.checkOk(stringutil.Truncate(fmt.Sprintf($1, $2...), defaultLogIDPrefixLength), this.conf.cacheInterval) == false"),
  ("Info", "return", "this.checkOk(stringutil.Truncate(fmt.Sprintln($1...), defaultLogIDPrefixLength), this.conf.cacheInterval) == false"),
  ("Info", "return", "this.conf.level > logger.LOG_LEVEL_INFO"),
  ("Infof", "return", "this.checkOk(stringutil.Truncate(fmt.Sprintf($1, $2...), defaultLogIDPrefixLength), this.conf.cacheInterval) == false"),
  ("Infof", "return", "this.conf.level > logger.LOG_LEVEL_INFO"),
  ("Infoln", "return", "this.checkOk(stringutil.Truncate(fmt.Sprintln($1...), defaultLogIDPrefixLength), this.conf.cacheInterval) == false"),
  ("Infoln", "return", "this.conf.level > logger.LOG_LEVEL_INFO"),
  ("Read", "return", "$1 != nil || $2 == \"..\" || strings.HasPrefix($2, \"..\" + string(filepath.Separator))"),
  ("Read", "return", "$1 == \"\" || $2 <= 0"),
  ("Read", "return", "$1.Size() < $2"),
  ("Read", "set", "$1 < 0 => $1 = $2.Size()"),
  ("Read", "set-else", "($1 + $2) > $3.Size() => $1 = -1 ; else $1 += $2"),
  ("Warn", "return", "this.checkOk(stringutil.Truncate(fmt.Sprintln($1...), defaultLogIDPrefixLength), this.conf.cacheInterval) == false"),
  ("Warn", "return", "this.conf.level > logger.LOG_LEVEL_WARN"),
  ("Warnf", "return", "this.checkOk(stringutil.Truncate(fmt.Sprintf($1, $2...), defaultLogIDPrefixLength), this.conf.cacheInterval) == false"),
  ("Warnf", "return", "this.conf.level > logger.LOG_LEVEL_WARN"),
  ("checkOk", "return", "dateutil.Now() < (this.lastLog.Get($1) + int64($2) * 1000)"),
  ("clearOldLog", "continue", "!strings.HasPrefix($1.Name(), this.conf.logID + \"-\")"),
  ("clearOldLog", "continue", "$1.IsDir()"),
  ("clearOldLog", "continue", "len(($1.Name()[strings.LastIndex($1.Name(), \"-\") + 1:strings.LastIndex($1.Name(), \".\")])) != 8 || strings.IndexFunc(($1.Name()[strings.LastIndex($1.Name(), \"-\") + 1:strings.LastIndex($1.Name(), \".\")]), func{$2 < '0' || $2 > '9'}) >= 0"),
  ("clearOldLog", "continue", "strings.LastIndex($1.Name(), \"-\") < 0 || strings.LastIndex($1.Name(), \"-\") >= strings.LastIndex($1.Name(), \".\") - 1"),
  ("clearOldLog", "continue", "strings.LastIndex($1.Name(), \".\") < 0"),
  ("clearOldLog", "return", "this.conf.keepDays <= 0"),
  ("clearOldLog", "return", "this.conf.rotationEnabled == false"),
  ("println", "return", "this.checkOk($1, this.conf.cacheInterval) == false")
]

def expectedCalls : List (String × String) := [
  ("Debug", "this.myLog.Println(\"[Debug] \", fmt.Sprintln($1...))"),
  ("Debugf", "this.myLog.Println(\"[Debug] \", fmt.Sprintf($1, $2...))"),
  ("Error", "this.myLog.Println(ansi.Red(fmt.Sprintf(\"%s %s\", \"[Error]\", fmt.Sprintln($1...))))"),
  ("Errorf", "this.myLog.Println(ansi.Red(fmt.Sprintf(\"%s %s\", \"[Error]\", fmt.Sprintf($1, $2...))))"),
  ("Info", "this.myLog.Println(\"[Info] \", fmt.Sprintln($1...))"),
  ("Infof", "this.myLog.Println(\"[Info] \", fmt.Sprintf($1, $2...))"),
  ("Infoln", "this.myLog.Println(\"[Info] \", fmt.Sprintln($1...))"),
  ("NewFileLogger", "hmap.NewStringLongLinkedMap().SetMax(1000)"),
  ("Printf", "this.println($1, this.build($1, fmt.Sprintf($2, $3...)))"),
  ("Println", "this.println($1, this.build($1, fmt.Sprintln($2...)))"),
  ("PrintlnStd", "this.myLog.Println(\"WA10002\", \"println Recover\", recover())"),
  ("PrintlnStd", "this.myLog.Println($1)"),
  ("Read", "$1.ReadAt(make([]byte, int(math.Min(float64(($2.Size() - int64(math.Max(0, float64($3 - $4))))), float64($4)))), int64(math.Max(0, float64($3 - $4))))"),
  ("Read", "NewLogData(int64(math.Max(0, float64($1 - $2))), $3, $4)"),
  ("Read", "filepath.Rel(filepath.Join(this.conf.homePath, \"logs\"), filepath.Join(filepath.Join(this.conf.homePath, \"logs\"), $1))"),
  ("Read", "os.Open(filepath.Join(filepath.Join(this.conf.homePath, \"logs\"), $1))"),
  ("Warn", "this.myLog.Println(\"[Warn] \", fmt.Sprintln($1...))"),
  ("Warnf", "this.myLog.Println(\"[Warn] \", fmt.Sprintf($1, $2...))"),
  ("checkOk", "this.lastLog.Put($1, dateutil.Now())"),
  ("clearOldLog", "os.Remove(filepath.Join(filepath.Join(this.conf.homePath, \"logs\"), $1.Name()))"),
  ("clearOldLog", "this.myLog.Println(\"WA10006\", \" File Delete Error\", recover())"),
  ("openFile", "os.OpenFile(filepath.Join(this.conf.homePath, \"logs\", fmt.Sprintf(\"%s-%s-%s.log\", this.conf.logID, this.conf.oname, dateutil.YYYYMMDD(dateutil.Now()))), os.O_CREATE | os.O_WRONLY | os.O_APPEND, 0666)"),
  ("openFile", "os.OpenFile(filepath.Join(this.conf.homePath, \"logs\", fmt.Sprintf(\"%s-%s.log\", this.conf.logID, this.conf.oname)), os.O_CREATE | os.O_WRONLY | os.O_APPEND, 0666)"),
  ("openFile", "this.myLog.Println(\"\")"),
  ("openFile", "this.myLog.Println(\"## OPEN LOG FILE \", this.conf.oname, \"\", dateutil.TimeStampNow() + \" ##\")"),
  ("println", "this.myLog.Println(this.build($1, $2))")
]

def expectedReturns : List (String × String) := [
  ("build", "fmt.Sprint(\"[\", $1, \"] \", $2)"),
  ("checkOk", "false"),
  ("checkOk", "true")
]

def expectedConds : List (String × String × String) := [
  ("checkOk", "if", "$1 > 0"),
  ("checkOk", "if", "dateutil.Now() < (this.lastLog.Get($1) + int64($2) * 1000)"),
  ("clearOldLog", "remove", "dateutil.GetDateUnitNow() - dateutil.GetDateUnit(dateutil.GetYmdTime(($1.Name()[strings.LastIndex($1.Name(), \"-\") + 1:strings.LastIndex($1.Name(), \".\")]))) > int64(this.conf.keepDays)"),
  ("process", "if", "(this.lastFileRotation != this.conf.rotationEnabled) || (this.lastDataUnit != dateutil.GetDateUnitNow()) || (this.logfile == nil)"),
  ("process", "if", "dateutil.Now() > this.last + dateutil.MILLIS_PER_MINUTE"),
  ("process", "if", "recover() != nil"),
  ("process", "if", "this.logfile != nil")
]

theorem gen_guards_shape : Gen.C17.guards = expectedGuards := by decide +kernel
theorem gen_calls_shape : Gen.C17.calls = expectedCalls := by decide +kernel
theorem gen_returns_shape : Gen.C17.returns = expectedReturns := by decide +kernel
theorem gen_conds_shape : Gen.C17.conds = expectedConds := by decide +kernel

/-- rotation installs the new file before it closes the old one (fix-D35) -/
theorem gen_rotation_order : Gen.C17.processOrder = "install-then-close" := by decide

/-- `Read` tests containment and refuses non-positive lengths (fix-D34) -/
theorem gen_read_contained :
    ("Read", "return", "$1 != nil || $2 == \"..\" || strings.HasPrefix($2, \"..\" + string(filepath.Separator))") ∈ Gen.C17.guards ∧
    ("Read", "return", "$1 == \"\" || $2 <= 0") ∈ Gen.C17.guards ∧
    ("Read", "filepath.Rel(filepath.Join(this.conf.homePath, \"logs\"), filepath.Join(filepath.Join(this.conf.homePath, \"logs\"), $1))") ∈ Gen.C17.calls ∧
    ("Read", "os.Open(filepath.Join(filepath.Join(this.conf.homePath, \"logs\"), $1))") ∈ Gen.C17.calls := by decide +kernel

/-- the settings accessor, when the source has one (repair of the unsynchronised settings), is a
    read-locked copy of `this.conf`, and `SetLevel`/`ApplyConfig` then hold the write lock; on that
    basis the translator reads `this.settings().f` as `this.conf.f` -/
theorem gen_settings_accessor :
    (Gen.C17.settingsAccessor = [] ∨
     Gen.C17.settingsAccessor = ["this.confLock.RLock()", "defer this.confLock.RUnlock()", "return this.conf"]) ∧
    Gen.C17.settingsWritersLocked = true := by decide

open Logger.IR

/-! ## interpreted obligations -/

theorem strBytes_dot : strBytes "." = [cDot] := by decide
theorem strBytes_dash : strBytes "-" = [cDash] := by decide
theorem strBytes_empty : strBytes "" = [] := by decide

@[simp] theorem vb_beq_true (x : Bool) : (V.b x == V.b true) = x := by cases x <;> rfl
@[simp] theorem vbad_beq_true : (V.bad == V.b true) = false := rfl
@[simp] theorem vi_beq_true (n : Int) : (V.i n == V.b true) = false := rfl
@[simp] theorem vs_beq_true (n : Bytes) : (V.s n == V.b true) = false := rfl

/-! ### checkOk -/

def envCheck (c : Cache) (id : Bytes) (sec now : Int) : Env := fun n args =>
  match n, args with
  | "#p0", [] => .s id
  | "#p1", [] => .i sec
  | "dateutil.Now", [] => .i now
  | "this.lastLog.Get", [.s k] => .i (cacheGet c k)
  | _, _ => .bad

/-- the two conditions and the `Put` of `checkOk`, read with the semantics of `IR.eval`, are the
    model's `checkOk` for every cache, id, interval and time -/
theorem gen_checkOk_interp (c : Cache) (id : Bytes) (sec now : Int) :
    ∃ g s, Gen.C17.checkOkConds = [g, s] ∧
      Gen.C17.checkOkPut.map (eval (envCheck c id sec now) 0) = [.s id, .i now] ∧
      evalB (envCheck c id sec now) g = decide (sec > 0) ∧
      evalB (envCheck c id sec now) s = decide (now < cacheGet c id + sec * 1000) ∧
      checkOk c id sec now =
        if evalB (envCheck c id sec now) g then
          (if evalB (envCheck c id sec now) s then (false, c) else (true, cachePut c id now))
        else (true, c) := by
  refine ⟨_, _, rfl, ?_, ?_, ?_, ?_⟩
  · simp [Gen.C17.checkOkPut, eval, envCheck]
  · simp [evalB, eval, binop, envCheck]
  · simp [evalB, eval, binop, envCheck]
  · by_cases h1 : sec > 0 <;> by_cases h2 : now < cacheGet c id + sec * 1000 <;>
      simp [evalB, eval, binop, envCheck, checkOk, h1, h2]

/-! ### Read: guards and window arithmetic -/

def envRead (file : Bytes) (endpos length size : Int) : Env := fun n args =>
  match n, args with
  | "#p0", [] => .s file
  | "#p1", [] => .i endpos
  | "#p2", [] => .i length
  | ".Size", [_] => .i size
  | _, _ => .bad

/-- the guards `file == "" || length <= 0` and `size < endpos`, the assignment
    `if endpos < 0 { endpos = size }`, the offset and the buffer length handed to `ReadAt`
    (through `float64`, `math.Max`, `math.Min`), read with `IR.eval`, are `readWindow` for every
    size, end position and length -/
theorem gen_read_window_interp (file : Bytes) (size endpos length : Int) :
    ∃ g0 g1 g2 c rhs ty n off a1 a2,
      Gen.C17.readGuards = [g0, g1, g2] ∧ Gen.C17.readSets = [(c, .var "#p1", rhs)] ∧
      Gen.C17.readAtArgs = [.call2 "make" ty n, off] ∧ Gen.C17.readNewLogData = [off, a1, a2] ∧
      evalB (envRead file endpos length size) g0 = decide (file = [] ∨ length ≤ 0) ∧
      evalB (envRead file endpos length size) g2 = decide (size < endpos) ∧
      (let e := if evalB (envRead file endpos length size) c then
                  (match eval (envRead file endpos length size) 0 rhs with | .i v => v | _ => 0) else endpos
       ¬ size < endpos →
        ∃ st rd, eval (envRead file e length size) 0 off = .i st ∧ eval (envRead file e length size) 0 n = .i rd ∧
          readWindow size endpos length = some (st, rd)) := by
  refine ⟨_, _, _, _, _, _, _, _, _, _, rfl, rfl, rfl, rfl, ?_, ?_, ?_⟩
  · by_cases h1 : file = [] <;> by_cases h2 : length ≤ 0 <;>
      simp [evalB, eval, binop, envRead, strBytes_empty, h1, h2]
  · simp [evalB, eval, binop, envRead]
  · intro e hbe
    refine ⟨_, _, rfl, rfl, ?_⟩
    simp only [readWindow, hbe, if_false]
    by_cases hneg : endpos < 0 <;> simp [e, evalB, eval, binop, envRead, hneg]

/-! ### Read: the `Next` field -/

def envNext (e length size next n : Int) : Env := fun nm args =>
  match nm, args with
  | "#p1", [] => .i e
  | "#p2", [] => .i length
  | "#m2", [] => .i next
  | ".Size", [_] => .i size
  | "#proj0", [_] => .i n
  | _, _ => .bad

/-- `next := start + int64(n)`, then `if next+length > size { next = -1 } else { next += length }`,
    read with `IR.eval`, is the model's `nextPos` whenever `next + length` does not overflow an
    int64 (the model wraps; the code's arithmetic is the same two's-complement addition) -/
theorem gen_read_next_interp (e length size n : Int)
    (hov : -9223372036854775808 ≤ max 0 (e - length) + n + length ∧ max 0 (e - length) + n + length < 9223372036854775808) :
    ∃ v init c thenE op elseE,
      Gen.C17.readNextInit = [v, init] ∧ Gen.C17.readNext = [c, thenE, .str op, elseE] ∧ v = .var "#m2" ∧ op = "+=" ∧
      eval (envNext e length size 0 n) 0 init = .i (max 0 (e - length) + n) ∧
      (let next := max 0 (e - length) + n
       (if evalB (envNext e length size next n) c then eval (envNext e length size next n) 0 thenE
        else binop "+" (.i next) (eval (envNext e length size next n) 0 elseE)) =
         .i (nextPos size (max 0 (e - length)) n length)) := by
  refine ⟨_, _, _, _, _, _, rfl, rfl, rfl, rfl, ?_, ?_⟩
  · simp [eval, binop, envNext]
  · have hw : wrap64 (max 0 (e - length) + n + length) = max 0 (e - length) + n + length := by
      unfold wrap64; omega
    simp only [nextPos, hw]
    by_cases hgt : max 0 (e - length) + n + length > size <;> simp [evalB, eval, binop, envNext, hgt]

/-! ### clearOldLog: the parse of a file name and the removal condition -/

def envRet (cal : Cal) (rot : Bool) (logID name : Bytes) (keep nowUnit : Int) : Env := fun n args =>
  match n, args with
  | ".Name", [_] => .s name
  | ".IsDir", [_] => .b false
  | "this.conf.logID", [] => .s logID
  | "this.conf.rotationEnabled", [] => .b rot
  | "false", [] => .b false
  | "this.conf.keepDays", [] => .i keep
  | "dateutil.GetDateUnitNow", [] => .i nowUnit
  | "dateutil.GetYmdTime", [.s d] => .s d
  | "dateutil.GetDateUnit", [.s d] => (match cal.unitOf d with | some u => .i u | none => .bad)
  | _, _ => .bad

theorem indexFunc_nonneg (p : Nat → Bool) (bs : Bytes) (i : Nat) :
    decide (indexFunc p bs i ≥ 0) = bs.any p := by
  induction bs generalizing i with
  | nil => simp [indexFunc]
  | cons b r ih =>
    simp only [indexFunc, List.any_cons]
    by_cases hp : p b = true
    · simp [hp]
    · have hf : p b = false := by simpa using hp
      simp only [hf, Bool.false_eq_true, if_false, Bool.false_or]
      exact ih (i + 1)

theorem any_not_digit (d : Bytes) : d.any (fun c => decide ((c : Int) < 48) || decide ((c : Int) > 57)) = !d.all isDigit := by
  induction d with
  | nil => rfl
  | cons b r ih =>
    simp only [List.any_cons, List.all_cons, ih, Bool.not_and]
    congr 1
    unfold isDigit
    by_cases h1 : (b : Int) < 48 <;> by_cases h2 : (b : Int) > 57 <;> simp [h1, h2] <;> omega

/-- every test `clearOldLog` applies to a directory entry before it looks at the date
    (`IsDir`, `HasPrefix(name, logID+"-")`, the two `LastIndex` tests, the slice, `len(date) != 8`,
    the digit test), read with `IR.eval`, skips exactly the names for which the model's
    `candidate` is `none` — for every name and log id -/
theorem gen_retention_parse_interp (cal : Cal) (rot : Bool) (logID name : Bytes) (keep nowUnit : Int) :
    Gen.C17.retentionGuards.any (evalB (envRet cal rot logID name keep nowUnit)) = (candidate logID name).isNone := by
  have hN : ∀ l, eval (envRet cal rot logID name keep nowUnit) l (E.call1 ".Name" (E.var "#rv")) = .s name := by
    intro l; simp [eval, envRet]
  have hD : eval (envRet cal rot logID name keep nowUnit) 0 (E.call1 ".IsDir" (E.var "#rv")) = .b false := by
    simp [eval, envRet]
  have hL : eval (envRet cal rot logID name keep nowUnit) 0 (E.var "this.conf.logID") = .s logID := by
    simp [eval, envRet]
  have hpred : ∀ c : Nat, (eval (envRet cal rot logID name keep nowUnit) c
      (E.bin "||" (E.bin "<" (E.var "#l0") (E.int 48)) (E.bin ">" (E.var "#l0") (E.int 57))) == V.b true)
      = (decide ((c : Int) < 48) || decide ((c : Int) > 57)) := by
    intro c; simp [eval, binop]
  unfold candidate datePart
  simp only [Gen.C17.retentionGuards, List.any_cons, List.any_nil, Bool.or_false, evalB]
  cases hx : lastIndexOf cDot name with
  | none =>
    have : lastIndexOf 46 name = none := hx
    simp [eval, binop, hN, hD, hL, strBytes_dot, strBytes_dash, lastIndexV, cDot, this]
  | some x =>
    have hx' : lastIndexOf 46 name = some x := hx
    cases hs : lastIndexOf cDash name with
    | none =>
      have : lastIndexOf 45 name = none := hs
      simp [eval, binop, hN, hD, hL, strBytes_dot, strBytes_dash, lastIndexV, cDot, cDash, hx', this]
    | some s =>
      have hs' : lastIndexOf 45 name = some s := hs
      by_cases hp : (logID ++ [cDash]).isPrefixOf name = true
      · have hp' : (logID ++ [45]).isPrefixOf name = true := hp
        by_cases hlt : s + 1 ≥ x
        · have h1 : ((x : Int) - 1 ≤ (s : Int)) := by omega
          simp [eval, binop, hN, hD, hL, strBytes_dot, strBytes_dash, lastIndexV, cDot, cDash, hx', hs', hp', hlt, h1]
        · have h1 : ¬ ((x : Int) - 1 ≤ (s : Int)) := by omega
          have h2 : ¬ ((s : Int) < 0) := by omega
          have e1 : ((s : Int) + 1).toNat = s + 1 := by omega
          have e2 : (x : Int).toNat - ((s : Int) + 1).toNat = x - (s + 1) := by omega
          simp only [eval, binop, hN, hD, hL, strBytes_dot, strBytes_dash, lastIndexV, cDot, cDash, hx', hs', hp', hp, hlt, h1, h2,
            e1, e2, hpred, indexFunc_nonneg, any_not_digit]
          have e3 : ((x : Int)).toNat = x := by omega
          simp only [e3, vb_beq_true, any_not_digit]
          generalize List.take (x - (s + 1)) (List.drop (s + 1) name) = d
          by_cases hl : d.length = 8 <;> cases hd : d.all isDigit <;> simp [hl, hd] <;>
            first | omega | (right; omega) | (intro _ ; omega) | skip
      · have hp' : ¬ (logID ++ [45]).isPrefixOf name = true := hp
        simp [eval, binop, hN, hD, hL, strBytes_dot, strBytes_dash, lastIndexV, cDot, cDash, hx', hs', hp', hp]

/-- the guards that switch retention off (`rotationEnabled == false`, `keepDays <= 0`) -/
theorem gen_retention_returns_interp (cal : Cal) (rot : Bool) (logID name : Bytes) (keep nowUnit : Int) :
    Gen.C17.retentionReturns.any (evalB (envRet cal rot logID name keep nowUnit)) = !retentionOn rot keep := by
  cases rot <;> by_cases hk : keep ≤ 0 <;>
    simp [Gen.C17.retentionReturns, evalB, eval, binop, envRet, retentionOn, hk] <;> omega

/-- the condition under which `os.Remove` is reached: its date argument is the model's date
    part, and with the calendar answering for `GetDateUnit(GetYmdTime(date))` the comparison is
    `nowUnit - unit > keepDays` (a calendar panic, recovered in the code, removes nothing) -/
theorem gen_retention_remove_interp (cal : Cal) (rot : Bool) (logID name d : Bytes) (keep nowUnit : Int)
    (hc : candidate logID name = some d) :
    ∃ r, Gen.C17.removeCond = [r] ∧
      evalB (envRet cal rot logID name keep nowUnit) r =
        (match cal.unitOf d with | some u => decide (nowUnit - u > keep) | none => false) := by
  refine ⟨_, rfl, ?_⟩
  obtain ⟨_, hd, _, _⟩ := candidate_some hc
  have hN : ∀ l, eval (envRet cal rot logID name keep nowUnit) l (E.call1 ".Name" (E.var "#rv")) = .s name := by
    intro l; simp [eval, envRet]
  unfold datePart at hd
  cases hx : lastIndexOf cDot name with
  | none => rw [hx] at hd; cases hd
  | some x =>
    rw [hx] at hd
    cases hs : lastIndexOf cDash name with
    | none => rw [hs] at hd; cases hd
    | some s =>
      rw [hs] at hd
      simp only [] at hd
      split at hd
      · cases hd
      · rename_i hlt
        injection hd with hd
        have hx' : lastIndexOf 46 name = some x := hx
        have hs' : lastIndexOf 45 name = some s := hs
        have e1 : ((s : Int) + 1).toNat = s + 1 := by omega
        have e3 : ((x : Int)).toNat = x := by omega
        have e4 : x - (s + 1) = x - (s + 1) := rfl
        cases hu : cal.unitOf d with
        | none => simp [evalB, eval, binop, strBytes_dot, strBytes_dash, lastIndexV, cDot, cDash, hx', hs', e1, e3, hd, envRet, hu]
        | some u => simp [evalB, eval, binop, strBytes_dot, strBytes_dash, lastIndexV, cDot, cDash, hx', hs', e1, e3, hd, envRet, hu]

/-- all of `clearOldLog`'s decision for one directory entry, interpreted: the entry is removed
    iff no switch-off guard fires, no skip guard fires and the removal condition holds — and that
    is the model's `deleted`, for every calendar, setting, time and name -/
theorem gen_retention_interp (cal : Cal) (rot : Bool) (logID name : Bytes) (keep nowUnit : Int) :
    (!(Gen.C17.retentionReturns.any (evalB (envRet cal rot logID name keep nowUnit))) &&
     !(Gen.C17.retentionGuards.any (evalB (envRet cal rot logID name keep nowUnit))) &&
     Gen.C17.removeCond.all (evalB (envRet cal rot logID name keep nowUnit))) =
    deleted cal rot logID keep nowUnit name := by
  rw [gen_retention_returns_interp, gen_retention_parse_interp]
  unfold deleted verdict
  cases hc : candidate logID name with
  | none => simp
  | some d =>
    obtain ⟨r, hr, hv⟩ := gen_retention_remove_interp cal rot logID name d keep nowUnit hc
    rw [hr]
    simp only [List.all_cons, List.all_nil, Bool.and_true, hv, Bool.not_not, Option.isNone_some, Bool.not_false]
    cases hu : cal.unitOf d with
    | none => simp
    | some u => by_cases hgt : nowUnit - u > keep <;> simp [hgt]

end C17Gen
