/-
  C17, tie A — obligations over the facts regenerated from logger/logfile/FileLogger.go,
  logger/Logger.go and util/dateutil/DateTimeHelper.go (lean/Golib/Gen/C17.lean, written by
  xlate/c17 on every run).

  Two layers:
  * semantic obligations: the regenerated level gates, constants and entry-point shapes are
    exactly what the model (`Logger.Meth.gate`, `Meth.ln`, `Meth.rateId`, `idLen`, `cacheMax`,
    the one-minute and one-day constants) says;
  * shape obligations: the regenerated conditions and calls of `checkOk`, `process`,
    `openFile`, `clearOldLog`, `Read` equal the expressions the model was written from
    (normal form: single-definition locals inlined, other locals numbered), among them the
    presence of the containment test and of the `length <= 0` test in `Read`, the digit test
    in `clearOldLog`, and the install-before-close order in `process`.
  They break whenever the source changes one of these expressions; renaming locals or
  reordering independent statements does not change the normal form.
-/
import Golib.Logger.Model
import Golib.Gen.C17

namespace C17Gen
open Logger

def goName : Meth → String
  | .errorf => "Errorf" | .error => "Error" | .warnf => "Warnf" | .warn => "Warn"
  | .infof => "Infof" | .info => "Info" | .infoln => "Infoln" | .debugf => "Debugf" | .debug => "Debug"
  | .printf => "Printf" | .println => "Println" | .printlnStd => "PrintlnStd"

def allMeths : List Meth :=
  [.errorf, .error, .warnf, .warn, .infof, .info, .infoln, .debugf, .debug, .printf, .println, .printlnStd]

def const (n : String) : Option Int := Gen.C17.consts.lookup n

/-- the gate of an entry point as the source has it: `if this.conf.level > LOG_LEVEL_X { return }` -/
def gateOf (m : Meth) : Option (Option Int) :=
  match Gen.C17.gates.lookup (goName m) with
  | some ("", "") => some none
  | some (">", c) => (const c).map some
  | _ => none

theorem gen_level_gates : allMeths.all (fun m => gateOf m == some m.gate) = true := by decide

theorem gen_constants :
    const "defaultLogIDPrefixLength" = some (idLen : Int) ∧
    const "lastLog.SetMax" = some (cacheMax : Int) ∧
    const "MILLIS_PER_MINUTE" = some 60000 ∧
    const "MILLIS_PER_DAY" = some millisPerDay ∧
    const "LOG_LEVEL_ERROR" = some 3 ∧ const "LOG_LEVEL_WARN" = some 2 ∧
    const "LOG_LEVEL_INFO" = some 1 ∧ const "LOG_LEVEL_DEBUG" = some 0 := by decide

def methodFact (m : Meth) : Option (String × String) := Gen.C17.methods.lookup (goName m)

def modelFormatter (m : Meth) : String :=
  if m == .printlnStd then "" else if m.ln then "Sprintln" else "Sprintf"

def modelRateShape (m : Meth) : String :=
  match m with
  | .errorf | .error | .warnf | .warn | .infof | .info | .infoln => "truncate:defaultLogIDPrefixLength"
  | .printf | .println => "param"
  | .debugf | .debug | .printlnStd => "none"

/-- formatter (`Sprintf` / `Sprintln`, i.e. `Meth.ln`) and origin of the rate-limit id per entry point -/
theorem gen_methods : allMeths.all (fun m => methodFact m == some (modelFormatter m, modelRateShape m)) = true := by decide

/-- and the model's `rateId` is that shape -/
theorem model_rate_shape (id s : Bytes) : allMeths.all (fun m =>
    match modelRateShape m with
    | "truncate:defaultLogIDPrefixLength" => m.rateId id s == some (s.take idLen)
    | "param" => m.rateId id s == some id
    | _ => m.rateId id s == none) = true := by
  simp [allMeths, modelRateShape, Meth.rateId, truncate]

def expectedGuards : List (String × String × String) := [
  ("Debug", "return", "this.conf.level > logger.LOG_LEVEL_DEBUG"),
  ("Debugf", "return", "this.conf.level > logger.LOG_LEVEL_DEBUG"),
  ("Error", "return", "this.checkOk(stringutil.Truncate(fmt.Sprintln($1...), defaultLogIDPrefixLength), this.conf.cacheInterval) == false"),
  ("Errorf", "return", "this.checkOk(stringutil.Truncate(fmt.Sprintf($1, $2...), defaultLogIDPrefixLength), this.conf.cacheInterval) == false"),
  ("Info", "return", "this.checkOk(stringutil.Truncate(fmt.Sprintln($1...), defaultLogIDPrefixLength), this.conf.cacheInterval) == false"),
  ("Info", "return", "this.conf.level > logger.LOG_LEVEL_INFO"),
  ("Infof", "return", "this.checkOk(stringutil.Truncate(fmt.Sprintf($1, $2...), defaultLogIDPrefixLength), this.conf.cacheInterval) == false"),
  ("Infof", "return", "this.conf.level > logger.LOG_LEVEL_INFO"),
  ("Infoln", "return", "this.checkOk(stringutil.Truncate(fmt.Sprintln($1...), defaultLogIDPrefixLength), this.conf.cacheInterval) == false"),
  ("Infoln", "return", "this.conf.level > logger.LOG_LEVEL_INFO"),
  ("Read", "return", "$1 != nil || $2 == \"..\" || strings.HasPrefix($2, \"..\" + string(filepath.Separator))"),
  ("Read", "return", "$1 == \"\" || $2 <= 0"),
  ("Read", "return", "$1.Size() < $2"),
  ("Read", "set", "$1 < 0 => $1 = $2.Size()"),
  ("Read", "set-else", "($1 + $2) > $3.Size() => $1 = -1 ; else $1 += $2"),
  ("Warn", "return", "this.checkOk(stringutil.Truncate(fmt.Sprintln($1...), defaultLogIDPrefixLength), this.conf.cacheInterval) == false"),
  ("Warn", "return", "this.conf.level > logger.LOG_LEVEL_WARN"),
  ("Warnf", "return", "this.checkOk(stringutil.Truncate(fmt.Sprintf($1, $2...), defaultLogIDPrefixLength), this.conf.cacheInterval) == false"),
  ("Warnf", "return", "this.conf.level > logger.LOG_LEVEL_WARN"),
  ("checkOk", "return", "dateutil.Now() < (this.lastLog.Get($1) + int64($2) * 1000)"),
  ("clearOldLog", "continue", "!strings.HasPrefix($1.Name(), this.conf.logID + \"-\")"),
  ("clearOldLog", "continue", "$1.IsDir()"),
  ("clearOldLog", "continue", "len(($1.Name()[strings.LastIndex($1.Name(), \"-\") + 1:strings.LastIndex($1.Name(), \".\")])) != 8 || strings.IndexFunc(($1.Name()[strings.LastIndex($1.Name(), \"-\") + 1:strings.LastIndex($1.Name(), \".\")]), func{$2 < '0' || $2 > '9'}) >= 0"),
  ("clearOldLog", "continue", "strings.LastIndex($1.Name(), \"-\") < 0 || strings.LastIndex($1.Name(), \"-\") >= strings.LastIndex($1.Name(), \".\") - 1"),
  ("clearOldLog", "continue", "strings.LastIndex($1.Name(), \".\") < 0"),
  ("clearOldLog", "return", "this.conf.keepDays <= 0"),
  ("clearOldLog", "return", "this.conf.rotationEnabled == false"),
  ("println", "return", "this.checkOk($1, this.conf.cacheInterval) == false")
]

def expectedCalls : List (String × String) := [
  ("Debug", "this.myLog.Println(\"[Debug] \", fmt.Sprintln($1...))"),
  ("Debugf", "this.myLog.Println(\"[Debug] \", fmt.Sprintf($1, $2...))"),
  ("Error", "this.myLog.Println(ansi.Red(fmt.Sprintf(\"%s %s\", \"[Error]\", fmt.Sprintln($1...))))"),
  ("Errorf", "this.myLog.Println(ansi.Red(fmt.Sprintf(\"%s %s\", \"[Error]\", fmt.Sprintf($1, $2...))))"),
  ("Info", "this.myLog.Println(\"[Info] \", fmt.Sprintln($1...))"),
  ("Infof", "this.myLog.Println(\"[Info] \", fmt.Sprintf($1, $2...))"),
  ("Infoln", "this.myLog.Println(\"[Info] \", fmt.Sprintln($1...))"),
  ("NewFileLogger", "hmap.NewStringLongLinkedMap().SetMax(1000)"),
  ("Printf", "this.println($1, this.build($1, fmt.Sprintf($2, $3...)))"),
  ("Println", "this.println($1, this.build($1, fmt.Sprintln($2...)))"),
  ("PrintlnStd", "this.myLog.Println(\"WA10002\", \"println Recover\", recover())"),
  ("PrintlnStd", "this.myLog.Println($1)"),
  ("Read", "$1.ReadAt(make([]byte, int(math.Min(float64(($2.Size() - int64(math.Max(0, float64($3 - $4))))), float64($4)))), int64(math.Max(0, float64($3 - $4))))"),
  ("Read", "NewLogData(int64(math.Max(0, float64($1 - $2))), $3, $4)"),
  ("Read", "filepath.Rel(filepath.Join(this.conf.homePath, \"logs\"), filepath.Join(filepath.Join(this.conf.homePath, \"logs\"), $1))"),
  ("Read", "os.Open(filepath.Join(filepath.Join(this.conf.homePath, \"logs\"), $1))"),
  ("Warn", "this.myLog.Println(\"[Warn] \", fmt.Sprintln($1...))"),
  ("Warnf", "this.myLog.Println(\"[Warn] \", fmt.Sprintf($1, $2...))"),
  ("checkOk", "this.lastLog.Put($1, dateutil.Now())"),
  ("clearOldLog", "os.Remove(filepath.Join(filepath.Join(this.conf.homePath, \"logs\"), $1.Name()))"),
  ("clearOldLog", "this.myLog.Println(\"WA10006\", \" File Delete Error\", recover())"),
  ("openFile", "os.OpenFile(filepath.Join(this.conf.homePath, \"logs\", fmt.Sprintf(\"%s-%s-%s.log\", this.conf.logID, this.conf.oname, dateutil.YYYYMMDD(dateutil.Now()))), os.O_CREATE | os.O_WRONLY | os.O_APPEND, 0666)"),
  ("openFile", "os.OpenFile(filepath.Join(this.conf.homePath, \"logs\", fmt.Sprintf(\"%s-%s.log\", this.conf.logID, this.conf.oname)), os.O_CREATE | os.O_WRONLY | os.O_APPEND, 0666)"),
  ("openFile", "this.myLog.Println(\"\")"),
  ("openFile", "this.myLog.Println(\"## OPEN LOG FILE \", this.conf.oname, \"\", dateutil.TimeStampNow() + \" ##\")"),
  ("println", "this.myLog.Println(this.build($1, $2))")
]

def expectedReturns : List (String × String) := [
  ("build", "fmt.Sprint(\"[\", $1, \"] \", $2)"),
  ("checkOk", "false"),
  ("checkOk", "true")
]

def expectedConds : List (String × String × String) := [
  ("checkOk", "if", "$1 > 0"),
  ("checkOk", "if", "dateutil.Now() < (this.lastLog.Get($1) + int64($2) * 1000)"),
  ("clearOldLog", "remove", "dateutil.GetDateUnitNow() - dateutil.GetDateUnit(dateutil.GetYmdTime(($1.Name()[strings.LastIndex($1.Name(), \"-\") + 1:strings.LastIndex($1.Name(), \".\")]))) > int64(this.conf.keepDays)"),
  ("process", "if", "(this.lastFileRotation != this.conf.rotationEnabled) || (this.lastDataUnit != dateutil.GetDateUnitNow()) || (this.logfile == nil)"),
  ("process", "if", "dateutil.Now() > this.last + dateutil.MILLIS_PER_MINUTE"),
  ("process", "if", "recover() != nil"),
  ("process", "if", "this.logfile != nil")
]

theorem gen_guards_shape : Gen.C17.guards = expectedGuards := by decide +kernel
theorem gen_calls_shape : Gen.C17.calls = expectedCalls := by decide +kernel
theorem gen_returns_shape : Gen.C17.returns = expectedReturns := by decide +kernel
theorem gen_conds_shape : Gen.C17.conds = expectedConds := by decide +kernel

/-- rotation installs the new file before it closes the old one (fix-D35) -/
theorem gen_rotation_order : Gen.C17.processOrder = "install-then-close" := by decide

/-- `Read` tests containment and refuses non-positive lengths (fix-D34) -/
theorem gen_read_contained :
    ("Read", "return", "$1 != nil || $2 == \"..\" || strings.HasPrefix($2, \"..\" + string(filepath.Separator))") ∈ Gen.C17.guards ∧
    ("Read", "return", "$1 == \"\" || $2 <= 0") ∈ Gen.C17.guards ∧
    ("Read", "filepath.Rel(filepath.Join(this.conf.homePath, \"logs\"), filepath.Join(filepath.Join(this.conf.homePath, \"logs\"), $1))") ∈ Gen.C17.calls ∧
    ("Read", "os.Open(filepath.Join(filepath.Join(this.conf.homePath, \"logs\"), $1))") ∈ Gen.C17.calls := by decide +kernel

end C17Gen
