/-
  Property C09 — linked hash maps / sets behave as bounded insertion-ordered dictionaries.

  Spec      `HMap.S` / `HMap.S.step`          (Golib/HMap/Spec.lean): association list with distinct keys + `max`
  CodeModel `HMap.LMap` / `HMap.LMap.step`    (Golib/HMap/Linked.lean): bucket table of hash chains + order list
            + count / threshold / max, generic in key type, value type, **hash function** and **growth threshold**
  Tie       harness/c09 (13 types × generated histories against `S.step` run by drv_c09) and the regenerated
            per-type descriptors (Golib/Props/C09Gen.lean).

  Statements only; proofs are references to lemmas of Golib.HMap.*.
-/
import Golib.HMap.LinkedStep
import Golib.HMap.Types
import Golib.HMap.Multi
import Golib.HMap.Enum
import Golib.HMap.MultiLemmas
import Golib.HMap.WireLemmas
import Golib.HMap.EntryLemmas
import Golib.HMap.EntryTypes

set_option linter.unusedSectionVars false

namespace C09
open HMap

variable {K V : Type} [DecidableEq K] [DecidableEq V]

/-! ### the CodeModel refines the Spec (any hash function, any growth policy, any history) -/

/-- a freshly constructed map (any capacity; 0 is raised to 1) satisfies the invariant and is empty -/
theorem inv_init (hash : K → Nat) (thr : Nat → Nat) (d : Desc K V) (cap : Nat) :
    LMap.Inv hash d (LMap.new thr cap : LMap K V) ∧ LMap.abs hash (LMap.new thr cap : LMap K V) = {} :=
  ⟨LMap.Inv.new cap, LMap.abs_new cap⟩

/-- every operation — including table growth and the eviction loops — preserves the invariant -/
theorem inv_step (hash : K → Nat) (thr : Nat → Nat) (d : Desc K V) (m : LMap K V) (op : Op K V)
    (h : LMap.Inv hash d m) : LMap.Inv hash d (LMap.step hash thr d m op).1 :=
  (LMap.refine_step thr h op).1

/-- one operation: same output as the dictionary, and abstraction commutes -/
theorem refine_step (hash : K → Nat) (thr : Nat → Nat) (d : Desc K V) (m : LMap K V) (op : Op K V)
    (h : LMap.Inv hash d m) :
    (LMap.step hash thr d m op).2 = (S.step d (LMap.abs hash m) op).2 ∧
    LMap.abs hash (LMap.step hash thr d m op).1 = (S.step d (LMap.abs hash m) op).1 :=
  (LMap.refine_step thr h op).2

/-- all finite histories from a fresh map of any capacity: the outputs (return values, sizes, first/last,
    key / value / entry enumerations) are exactly those of the insertion-ordered dictionary -/
theorem refine_run (hash : K → Nat) (thr : Nat → Nat) (d : Desc K V) (cap : Nat) (ops : List (Op K V)) :
    (LMap.run hash thr d (LMap.new thr cap) ops).2 = (S.run d {} ops).2 := by
  have := (LMap.refine_run thr ops (LMap.Inv.new (hash := hash) (thr := thr) (d := d) cap)).2.1
  rw [LMap.abs_new] at this
  exact this

/-- … from any reachable state -/
theorem refine_run_from (hash : K → Nat) (thr : Nat → Nat) (d : Desc K V) (m : LMap K V) (ops : List (Op K V))
    (h : LMap.Inv hash d m) :
    (LMap.run hash thr d m ops).2 = (S.run d (LMap.abs hash m) ops).2 ∧
    LMap.abs hash (LMap.run hash thr d m ops).1 = (S.run d (LMap.abs hash m) ops).1 :=
  (LMap.refine_run thr ops h).2

/-- enumeration lists every stored key exactly once, in the order of the dictionary -/
theorem enumerate_keys (hash : K → Nat) (d : Desc K V) (m : LMap K V) (h : LMap.Inv hash d m) :
    AL.keys (LMap.abs hash m).ents = m.order ∧ m.order.Nodup ∧ (LMap.abs hash m).ents.length = m.count :=
  ⟨LMap.abs_keys h, h.nodup, LMap.abs_length h⟩

/-! ### properties of the dictionary (inherited by the CodeModel through `refine_step`) -/

/-- keys stay distinct -/
theorem spec_wf (d : Desc K V) (s : S K V) (op : Op K V) (h : s.WF) : (S.step d s op).1.WF :=
  S.WF_step d h op

/-- lookup after put -/
theorem get_put (d : Desc K V) (s : S K V) (mode : Mode) (k : K) (v : V) (h : s.WF) (hk : d.refuse k = false) :
    AL.get (S.put d s mode k v).1.ents k = some v := by
  have hwf : (S.put d s mode k v).1.WF := by
    have := S.WF_step d h (.put mode k v); simpa [S.step] using this
  rw [AL.get_eq_some_iff hwf]
  unfold S.put S.putWith
  simp only [hk, Bool.false_eq_true, if_false]
  cases hg : AL.get s.ents k with
  | some old =>
    simp only
    have hmem : (k, old) ∈ s.ents := AL.get_some_mem hg
    cases mode <;> simp only [AL.touch]
    · unfold AL.set; exact List.mem_map.mpr ⟨(k, old), hmem, by simp⟩
    · simp
    · simp
    · unfold AL.set; exact List.mem_map.mpr ⟨(k, old), hmem, by simp⟩
  | none =>
    simp only [AL.insertNew]
    split <;> simp

/-- the bound: with `max > 0` set, an operation (other than SetMax) never leaves more than
    `max(max, previous size)` entries, and once within the bound the map stays within it -/
theorem bounded (d : Desc K V) (s : S K V) (mode : Mode) (k : K) (v : V) (h : s.WF) (hm : 0 < s.max) :
    (S.put d s mode k v).1.ents.length ≤ Nat.max s.max s.ents.length ∧
    (s.ents.length ≤ s.max → (S.put d s mode k v).1.ents.length ≤ s.max) := by
  unfold S.put
  split
  · exact ⟨Nat.le_max_right _ _, fun h => h⟩
  · rw [S.length_putWith h]
    constructor
    · split
      · exact Nat.le_max_right _ _
      · split
        · exact Nat.le_max_left _ _
        · rename_i h1 h2
          have : s.ents.length + 1 ≤ s.max := by
            have : ¬ (s.max ≤ s.ents.length) := fun hh => h2 ⟨hm, hh⟩
            omega
          exact Nat.le_trans this (Nat.le_max_left _ _)
    · intro hle
      split
      · exact hle
      · split
        · exact Nat.le_refl _
        · rename_i h1 h2
          have : ¬ (s.max ≤ s.ents.length) := fun hh => h2 ⟨hm, hh⟩
          omega

theorem bounded_add (d : Desc K V) (s : S K V) (mode : Mode) (k : K) (v : V) (h : s.WF) (hm : 0 < s.max)
    (hle : s.ents.length ≤ s.max) : (S.add d s mode k v).1.ents.length ≤ s.max := by
  unfold S.add
  split
  · exact hle
  · rw [S.length_putWith h]
    split
    · exact hle
    · split
      · exact Nat.le_refl _
      · rename_i h1 h2
        have : ¬ (s.max ≤ s.ents.length) := fun hh => h2 ⟨hm, hh⟩
        omega

/-- the bound for every operation: a map within its bound stays within it under every operation
    other than SetMax (which changes the bound itself) -/
theorem bounded_step (d : Desc K V) (s : S K V) (op : Op K V) (h : s.WF) (hm : 0 < s.max)
    (hle : s.ents.length ≤ s.max) (hop : ∀ n, op ≠ .setMax n) :
    (S.step d s op).1.ents.length ≤ s.max ∧ (S.step d s op).1.max = s.max :=
  S.bounded_step d h hm hle op hop

/-- … for whole histories of the CodeModel: once `max > 0` is set and the map holds at most `max`
    entries, no history without SetMax makes `count` exceed `max` (table growth and collisions included) -/
theorem bounded_run (hash : K → Nat) (thr : Nat → Nat) (d : Desc K V) (m : LMap K V) (ops : List (Op K V))
    (h : LMap.Inv hash d m) (hm : 0 < m.max) (hle : m.count ≤ m.max) (hops : ∀ op ∈ ops, ∀ n, op ≠ .setMax n) :
    (LMap.run hash thr d m ops).1.count ≤ m.max ∧ (LMap.run hash thr d m ops).1.max = m.max := by
  induction ops generalizing m with
  | nil => exact ⟨hle, rfl⟩
  | cons op ops ih =>
    obtain ⟨hi, _, he⟩ := LMap.refine_step thr h op
    have hb := S.bounded_step d (LMap.abs_WF h) (by rw [LMap.abs_max]; exact hm)
      (by rw [LMap.abs_length h, LMap.abs_max]; exact hle) op (hops op (by simp))
    rw [← he, LMap.abs_length hi, LMap.abs_max, LMap.abs_max] at hb
    have := ih (m := (LMap.step hash thr d m op).1) hi (by rw [hb.2]; exact hm) (by rw [hb.2]; exact hb.1)
      (fun o ho => hops o (by simp [ho]))
    simp only [LMap.run]
    rw [hb.2] at this
    exact this

/-- the bound with **no** hypothesis on the current size (a `SetMax` below the size leaves a surplus, `setMax_keeps`):
    under a bound, no operation other than SetMax ever makes the map larger than `max(max, previous size)` — a map
    within its bound stays within it, a surplus never grows -/
theorem bounded_any_step (d : Desc K V) (s : S K V) (op : Op K V) (h : s.WF) (hm : 0 < s.max)
    (hop : ∀ n, op ≠ .setMax n) :
    (S.step d s op).1.ents.length ≤ Nat.max s.max s.ents.length ∧ (S.step d s op).1.max = s.max := by
  by_cases hle : s.ents.length ≤ s.max
  · have := S.bounded_step d h hm hle op hop
    exact ⟨Nat.le_trans this.1 (Nat.le_max_left _ _), this.2⟩
  · have hover : s.max < s.ents.length := by omega
    suffices hs : (S.step d s op).1.ents.length ≤ s.ents.length ∧ (S.step d s op).1.max = s.max from
      ⟨Nat.le_trans hs.1 (Nat.le_max_right _ _), hs.2⟩
    have hput : ∀ m k f, (s.putWith m k f).1.ents.length ≤ s.ents.length ∧ (s.putWith m k f).1.max = s.max := by
      intro m k f
      refine ⟨?_, by unfold S.putWith; split <;> rfl⟩
      rw [S.length_putWith h]
      split
      · exact Nat.le_refl _
      · split
        · omega
        · rename_i h1 h2
          exact absurd ⟨hm, Nat.le_of_lt hover⟩ h2
    cases op <;> simp only [S.step]
    case put m k v => unfold S.put; split; exact ⟨Nat.le_refl _, (by first | rfl | trivial)⟩; exact hput _ _ _
    case add m k v => unfold S.add; split; exact ⟨Nat.le_refl _, (by first | rfl | trivial)⟩; exact hput _ _ _
    case addNoOver k v =>
      unfold S.addNoOver
      split; exact ⟨Nat.le_refl _, (by first | rfl | trivial)⟩
      split
      · simp only [AL.length_set]; exact ⟨Nat.le_refl _, (by first | rfl | trivial)⟩
      · split
        · exact ⟨Nat.le_refl _, (by first | rfl | trivial)⟩
        · rename_i hf
          simp only [S.isFull, decide_eq_true_eq] at hf
          exact absurd ⟨hm, Nat.le_of_lt hover⟩ hf
    case getLRU k =>
      split
      · rename_i v hg
        have hk : k ∈ AL.keys s.ents := AL.get_isSome_iff.mp (by rw [hg]; rfl)
        have := AL.length_erase_of_mem h hk
        simp only [List.length_append, List.length_cons, List.length_nil]
        exact ⟨by omega, (by first | rfl | trivial)⟩
      · exact ⟨Nat.le_refl _, (by first | rfl | trivial)⟩
    case remove k =>
      unfold S.remove
      exact ⟨(AL.erase_sublist s.ents k).length_le, (by first | rfl | trivial)⟩
    case removeFirst =>
      split
      · exact ⟨Nat.le_refl _, (by first | rfl | trivial)⟩
      · rename_i hs
        rw [hs]; simp only [List.length_cons]
        exact ⟨by omega, (by first | rfl | trivial)⟩
    case removeLast =>
      split
      · exact ⟨Nat.le_refl _, (by first | rfl | trivial)⟩
      · simp only [List.length_dropLast]; exact ⟨by omega, (by first | rfl | trivial)⟩
    case clear => exact ⟨by simp, (by first | rfl | trivial)⟩
    case setMax n => exact absurd rfl (hop n)
    case sort lt =>
      refine ⟨Nat.le_trans (S.length_keepLast_le _ _) ?_, (by first | rfl | trivial)⟩
      have : (AL.sortEnts lt s.ents).length = s.ents.length := (List.mergeSort_perm _ _).length_eq
      rw [this]; exact Nat.le_refl _
    all_goals exact ⟨Nat.le_refl _, (by first | rfl | trivial)⟩

/-- … for whole histories of the CodeModel from **any** reachable state (over its bound or not): no history without
    SetMax makes `count` exceed `max(max, count at the start)` -/
theorem bounded_any_run (hash : K → Nat) (thr : Nat → Nat) (d : Desc K V) (m : LMap K V) (ops : List (Op K V))
    (h : LMap.Inv hash d m) (hm : 0 < m.max) (hops : ∀ op ∈ ops, ∀ n, op ≠ .setMax n) :
    (LMap.run hash thr d m ops).1.count ≤ Nat.max m.max m.count ∧ (LMap.run hash thr d m ops).1.max = m.max := by
  induction ops generalizing m with
  | nil => exact ⟨Nat.le_max_right _ _, rfl⟩
  | cons op ops ih =>
    obtain ⟨hi, _, he⟩ := LMap.refine_step thr h op
    have hb := bounded_any_step d (LMap.abs hash m) op (LMap.abs_WF h) (by rw [LMap.abs_max]; exact hm) (hops op (by simp))
    rw [← he, LMap.abs_length hi, LMap.abs_max, LMap.abs_max, LMap.abs_length h] at hb
    have := ih (m := (LMap.step hash thr d m op).1) hi (by rw [hb.2]; exact hm) (fun o ho => hops o (by simp [ho]))
    simp only [LMap.run]
    rw [hb.2] at this
    refine ⟨Nat.le_trans this.1 ?_, this.2⟩
    exact Nat.max_le.mpr ⟨Nat.le_max_left _ _, hb.1⟩

/-- no eviction when an existing key is updated: size and key set are unchanged, whatever the mode -/
theorem no_evict_on_update (d : Desc K V) (s : S K V) (mode : Mode) (k : K) (v : V) (h : s.WF)
    (hk : k ∈ AL.keys s.ents) :
    (S.put d s mode k v).1.ents.length = s.ents.length ∧
    (∀ x, x ∈ AL.keys (S.put d s mode k v).1.ents ↔ x ∈ AL.keys s.ents) := by
  unfold S.put
  split
  · exact ⟨rfl, fun _ => Iff.rfl⟩
  · obtain ⟨old, hold⟩ := Option.isSome_iff_exists.mp (AL.get_isSome_iff.mpr hk)
    unfold S.putWith
    simp only [hold]
    refine ⟨S.length_touch mode k v h hk, ?_⟩
    intro x
    cases mode <;> simp only [AL.touch]
    · rw [AL.keys_set]
    · rw [S.keys_append, AL.keys_erase]
      simp only [AL.keys, List.map_cons, List.map_nil, List.mem_append, List.mem_filter, List.mem_singleton,
        Bool.not_eq_eq_eq_not, Bool.not_true, decide_eq_false_iff_not]
      constructor
      · rintro (⟨h1, _⟩ | rfl); exact h1; exact hk
      · intro hx; by_cases e : x = k; exact Or.inr e; exact Or.inl ⟨hx, e⟩
    · simp only [AL.keys, List.map_cons, List.mem_cons]
      have := AL.keys_erase s.ents k
      simp only [AL.keys] at this
      rw [this]
      simp only [List.mem_filter, Bool.not_eq_eq_eq_not, Bool.not_true, decide_eq_false_iff_not]
      constructor
      · rintro (rfl | ⟨h1, _⟩); exact hk; exact h1
      · intro hx; by_cases e : x = k; exact Or.inl e; exact Or.inr ⟨hx, e⟩
    · rw [AL.keys_set]

/-- … the same for add / add-first / add-last -/
theorem no_evict_on_update_add (d : Desc K V) (s : S K V) (mode : Mode) (k : K) (v : V) (h : s.WF)
    (hk : k ∈ AL.keys s.ents) :
    (S.add d s mode k v).1.ents.length = s.ents.length ∧
    (AL.keys (S.add d s mode k v).1.ents).Perm (AL.keys s.ents) := by
  have hlen : (S.add d s mode k v).1.ents.length = s.ents.length := by
    unfold S.add
    split
    · rfl
    · rw [S.length_putWith h]; simp [AL.get_isSome_iff.mpr hk]
  refine ⟨hlen, ?_⟩
  have hwf : (S.add d s mode k v).1.WF := by
    have := S.WF_step d h (.add mode k v); simpa [S.step] using this
  rw [List.perm_ext_iff_of_nodup hwf h]
  intro x
  unfold S.add
  split
  · exact Iff.rfl
  · obtain ⟨old, hold⟩ := Option.isSome_iff_exists.mp (AL.get_isSome_iff.mpr hk)
    unfold S.putWith
    simp only [hold]
    cases mode <;> simp only [AL.touch]
    · rw [AL.keys_set]
    · rw [S.keys_append, AL.keys_erase]
      simp only [AL.keys, List.map_cons, List.map_nil, List.mem_append, List.mem_filter, List.mem_singleton,
        Bool.not_eq_eq_eq_not, Bool.not_true, decide_eq_false_iff_not]
      constructor
      · rintro (⟨h1, _⟩ | rfl); exact h1; exact hk
      · intro hx; by_cases e : x = k; exact Or.inr e; exact Or.inl ⟨hx, e⟩
    · simp only [AL.keys, List.map_cons, List.mem_cons]
      have := AL.keys_erase s.ents k
      simp only [AL.keys] at this
      rw [this]
      simp only [List.mem_filter, Bool.not_eq_eq_eq_not, Bool.not_true, decide_eq_false_iff_not]
      constructor
      · rintro (rfl | ⟨h1, _⟩); exact hk; exact h1
      · intro hx; by_cases e : x = k; exact Or.inl e; exact Or.inr ⟨hx, e⟩
    · rw [AL.keys_set]

/-- eviction is from the end opposite to the insertion end: inserting an absent key at the back of a
    full map keeps a suffix of the old entries; inserting at the front keeps a prefix -/
theorem evict_opposite_end (d : Desc K V) (s : S K V) (k : K) (v : V)
    (hk : AL.get s.ents k = none) (hr : d.refuse k = false) :
    (S.put d s .last k v).1.ents = AL.evictFront s.ents s.max ++ [(k, v)] ∧
    (S.put d s .forceLast k v).1.ents = AL.evictFront s.ents s.max ++ [(k, v)] ∧
    (S.put d s .forceFirst k v).1.ents = (k, v) :: AL.evictBack s.ents s.max ∧
    (∃ n, AL.evictFront s.ents s.max = s.ents.drop n) ∧ (∃ n, AL.evictBack s.ents s.max = s.ents.take n) := by
  refine ⟨?_, ?_, ?_, ?_, ?_⟩
  · simp [S.put, S.putWith, hr, hk, AL.insertNew, Mode.atFront]
  · simp [S.put, S.putWith, hr, hk, AL.insertNew, Mode.atFront]
  · simp [S.put, S.putWith, hr, hk, AL.insertNew, Mode.atFront]
  · unfold AL.evictFront; split
    · exact ⟨_, rfl⟩
    · exact ⟨0, by simp⟩
  · unfold AL.evictBack; split
    · exact ⟨_, rfl⟩
    · exact ⟨s.ents.length, by simp⟩

/-- put-first / put-last place or move the entry at the stated end -/
theorem put_places_at_end (d : Desc K V) (s : S K V) (k : K) (v : V) (hr : d.refuse k = false) :
    (S.put d s .forceFirst k v).1.ents.head? = some (k, v) ∧
    (S.put d s .forceLast k v).1.ents.getLast? = some (k, v) := by
  constructor
  · unfold S.put S.putWith
    simp only [hr, Bool.false_eq_true, if_false]
    cases AL.get s.ents k <;> simp [AL.touch, AL.insertNew, Mode.atFront]
  · unfold S.put S.putWith
    simp only [hr, Bool.false_eq_true, if_false]
    cases AL.get s.ents k <;> simp [AL.touch, AL.insertNew, Mode.atFront]

/-- sorting: the result is a permutation of the entries and is ordered by the comparator on keys, for every
    comparator that is asymmetric and whose complement is transitive (every strict weak order, in
    particular `<` and `>`); the sorted sequence is then re-inserted under the bound like any puts -/
theorem sort_sorted (lt : K → K → Bool) (l : List (K × V))
    (hasym : ∀ a b : K, lt a b = true → lt b a = false)
    (htrans : ∀ a b c : K, lt b a = false → lt c b = false → lt c a = false) :
    (AL.sortEnts lt l).Perm l ∧ (AL.sortEnts lt l).Pairwise (fun a b => lt b.1 a.1 = false) := by
  refine ⟨List.mergeSort_perm _ _, ?_⟩
  have := List.pairwise_mergeSort (le := fun (a b : K × V) => !(lt b.1 a.1))
    (by
      intro a b c hab hbc
      simp only [Bool.not_eq_eq_eq_not, Bool.not_true] at hab hbc ⊢
      exact htrans a.1 b.1 c.1 hab hbc)
    (by
      intro a b
      simp only [Bool.or_eq_true, Bool.not_eq_eq_eq_not, Bool.not_true]
      cases hb : lt b.1 a.1 with
      | false => exact Or.inl rfl
      | true => exact Or.inr (hasym _ _ hb))
    l
  refine this.imp ?_
  intro a b hab
  simpa using hab

/-- with distinct keys and a total comparator the sorted order is unique: any other sorted
    permutation (whatever `sort.Sort` does internally) is the same list -/
theorem sort_unique (lt : K → K → Bool) (l l' : List (K × V)) (hn : (AL.keys l).Nodup)
    (htot : ∀ a b : K, a ≠ b → lt a b = true ∨ lt b a = true)
    (hp : l'.Perm l) (hs : l'.Pairwise (fun a b => lt b.1 a.1 = false))
    (hs0 : (AL.sortEnts lt l).Pairwise (fun a b => lt b.1 a.1 = false)) :
    l' = AL.sortEnts lt l := by
  have hperm : l'.Perm (AL.sortEnts lt l) := hp.trans (List.mergeSort_perm _ _).symm
  refine List.Perm.eq_of_pairwise (le := fun a b => lt b.1 a.1 = false) ?_ hs hs0 hperm
  intro a b ha hb hab hba
  have ha' : a ∈ l := hp.subset ha
  have hb' : b ∈ l := (List.mergeSort_perm _ _).subset hb
  by_cases e : a.1 = b.1
  · have hwf : (AL.keys l).Nodup := hn
    have h1 := (AL.get_eq_some_iff hwf (k := a.1) (v := a.2)).mpr ha'
    have h2 := (AL.get_eq_some_iff hwf (k := b.1) (v := b.2)).mpr hb'
    rw [e, h2] at h1
    have : b.2 = a.2 := by simpa using h1
    exact Prod.ext e this.symm
  · rcases htot a.1 b.1 e with h | h
    · rw [h] at hba; simp at hba
    · rw [h] at hab; simp at hab

/-! ### sets are maps to Unit -/

/-- descriptor of the linked sets -/
def setDesc (K : Type) : Desc K Unit := { comb := fun _ _ => (), veq := fun _ _ => true }

/-- LinkedSet / IntLinkedSet / StringLinkedSet: the set API is the map API at `V = Unit`
    (Put k = put k (), Contains = containsKey, …), so every history of a set is a history of the dictionary -/
theorem sets_are_maps (hash : K → Nat) (thr : Nat → Nat) (d : Desc K Unit) (cap : Nat) (ops : List (Op K Unit)) :
    (LMap.run hash thr d (LMap.new thr cap) ops).2 = (S.run d {} ops).2 :=
  refine_run hash thr d cap ops

/-- … and a set's entries are determined by its keys -/
theorem set_entries (hash : K → Nat) (d : Desc K Unit) (m : LMap K Unit) (h : LMap.Inv hash d m) :
    (LMap.abs hash m).ents = m.order.map (fun k => (k, ())) := by
  have hk := LMap.abs_keys h
  generalize (LMap.abs hash m).ents = l at hk
  rw [← hk]
  clear hk
  induction l with
  | nil => rfl
  | cons e t ih => obtain ⟨a, u⟩ := e; cases u; simp only [AL.keys, List.map_cons, List.map_map] at ih ⊢; rw [← ih]

/-! ### SetMax on a map that already holds more than the new bound: exact behaviour -/

/-- `SetMax(n)` itself never removes an entry (whatever `n`) -/
theorem setMax_keeps (d : Desc K V) (s : S K V) (n : Nat) :
    (S.step d s (.setMax n)).1.ents = s.ents ∧ (S.step d s (.setMax n)).1.max = n := ⟨rfl, rfl⟩

/-- … the surplus stays until the next *insertion* of an absent key, which evicts down to `n - 1` entries from
    the end opposite to the insertion end and then inserts: exactly `n` entries remain — the last `n - 1` old
    ones for put / put-last, the first `n - 1` old ones for put-first -/
theorem over_bound_insert (d : Desc K V) (s : S K V) (k : K) (v : V) (hk : AL.get s.ents k = none)
    (hr : d.refuse k = false) (hm : 0 < s.max) (hover : s.max ≤ s.ents.length) :
    (S.put d s .last k v).1.ents = s.ents.drop (s.ents.length + 1 - s.max) ++ [(k, v)] ∧
    (S.put d s .forceLast k v).1.ents = s.ents.drop (s.ents.length + 1 - s.max) ++ [(k, v)] ∧
    (S.put d s .forceFirst k v).1.ents = (k, v) :: s.ents.take (s.max - 1) ∧
    (S.put d s .last k v).1.ents.length = s.max ∧ (S.put d s .forceFirst k v).1.ents.length = s.max := by
  have e := evict_opposite_end d s k v hk hr
  have hf : AL.evictFront s.ents s.max = s.ents.drop (s.ents.length + 1 - s.max) := by
    unfold AL.evictFront; simp [hm, hover]
  have hb : AL.evictBack s.ents s.max = s.ents.take (s.max - 1) := by
    unfold AL.evictBack; simp [hm, hover]
  refine ⟨by rw [e.1, hf], by rw [e.2.1, hf], by rw [e.2.2.1, hb], ?_, ?_⟩
  · rw [e.1, hf]; simp [List.length_drop]; omega
  · rw [e.2.2.1, hb]; simp [List.length_take]; omega

/-- … while updating a present key of an over-full map evicts nothing (`no_evict_on_update` has no bound hypothesis),
    and Sort re-inserts under the bound: the last `max` entries of the sorted sequence remain -/
theorem over_bound_sort (d : Desc K V) (s : S K V) (lt : K → K → Bool) (hm : 0 < s.max) (hover : s.max < s.ents.length) :
    (S.step d s (.sort lt)).1.ents = (AL.sortEnts lt s.ents).drop (s.ents.length - s.max) ∧
    (S.step d s (.sort lt)).1.ents.length = s.max := by
  have hl : (AL.sortEnts lt s.ents).length = s.ents.length := (List.mergeSort_perm _ _).length_eq
  have : (S.step d s (.sort lt)).1.ents = (AL.sortEnts lt s.ents).drop (s.ents.length - s.max) := by
    simp only [S.step, AL.keepLast, hl, hm, hover, and_self, if_true]
  refine ⟨this, ?_⟩
  rw [this, List.length_drop, hl]; omega

/-! ### enumerator objects: HasMoreElements / Next -/

/-- an enumeration taken while the map is not modified: calling HasMoreElements / Next until exhausted on a
    `Keys()` enumerator yields every stored key exactly once, in the order of the dictionary; the `Values()`
    and `Entries()` enumerators yield the values / entries of those keys in the same order -/
theorem enumerator_protocol (hash : K → Nat) (d : Desc K V) (m : LMap K V) (h : LMap.Inv hash d m) :
    LEnum.drain m.count m.openEnum = AL.keys (LMap.abs hash m).ents ∧
    (LEnum.drain m.count m.openEnum).Nodup ∧
    m.enumValues hash (LEnum.drain m.count m.openEnum) = (LMap.abs hash m).ents.map Prod.snd ∧
    m.enumEntries hash (LEnum.drain m.count m.openEnum) = (LMap.abs hash m).ents := by
  have hd : LEnum.drain m.count m.openEnum = m.order :=
    LEnum.drain_eq _ _ (by show m.order.length ≤ m.count; rw [h.count]; exact Nat.le_refl _)
  rw [hd]
  refine ⟨(LMap.abs_keys h).symm, h.nodup, ?_, rfl⟩
  exact (map_snd_absL (m.tab.get hash) m.order).symm

/-- the protocol itself: `Next` is defined exactly when `HasMoreElements` answers true; `Next` without a prior
    `HasMoreElements` is correct too (`n` bare calls yield the first `n` remaining keys — the `Size()`-driven loops of
    `KeyArray`, `Sort`, `ToString`); `HasMoreElements` does not change the enumerator (it is a pure test here) -/
theorem enumerator_hasMore_next (e : LEnum K) :
    e.hasMore = e.next.isSome ∧ (∀ n, LEnum.takeN n e = e.rest.take n) := by
  refine ⟨?_, fun n => LEnum.takeN_eq n e⟩
  obtain ⟨r⟩ := e; cases r <;> rfl

/-- `Size()` bare calls of `Next` enumerate the whole map, like the HasMoreElements-driven loop -/
theorem enumerator_size_driven (hash : K → Nat) (d : Desc K V) (m : LMap K V) (h : LMap.Inv hash d m) :
    LEnum.takeN m.count m.openEnum = m.order ∧ LEnum.takeN m.count m.openEnum = LEnum.drain m.count m.openEnum := by
  have hc : m.order.length = m.count := h.count.symm
  have h1 : LEnum.takeN m.count m.openEnum = m.order := by
    rw [LEnum.takeN_eq]; show m.order.take m.count = m.order; rw [← hc, List.take_length]
  exact ⟨h1, by rw [h1, LEnum.drain_eq _ _ (by show m.order.length ≤ m.count; omega)]; rfl⟩

/-! ### several live containers: no aliasing -/

/-- **no_aliasing.**  In a pool of live maps an operation addressed to slot `i` leaves every other slot
    exactly as it was, whatever the operation (containers are values in the model: "no shared storage" is the
    specification; `ToObject(other.ToBytes())` is a sequence of puts of the source's entries into the
    target).  Tie B keeps 1–3 live instances per history and compares all of them after every mutating op. -/
theorem no_aliasing (hash : K → Nat) (thr : Nat → Nat) (d : Desc K V) (dflt : LMap K V)
    (pool : Array (LMap K V)) (i k : Nat) (op : Op K V) (h : k ≠ i) :
    (poolStep (LMap.step hash thr d) dflt pool i op).1.getD k dflt = pool.getD k dflt :=
  poolStep_frame _ dflt pool i k op h

/-- … and the addressed slot makes exactly the single-object step (so `refine_step` applies to it) -/
theorem pool_target (hash : K → Nat) (thr : Nat → Nat) (d : Desc K V) (dflt : LMap K V)
    (pool : Array (LMap K V)) (i : Nat) (op : Op K V) (h : i < pool.size) :
    (poolStep (LMap.step hash thr d) dflt pool i op).1.getD i dflt = (LMap.step hash thr d (pool.getD i dflt) op).1 ∧
    (poolStep (LMap.step hash thr d) dflt pool i op).2 = (LMap.step hash thr d (pool.getD i dflt) op).2 :=
  poolStep_target _ dflt pool i op h

/-- **histories over several live containers**: for every interleaved history over a pool of maps (each operation names
    its slot), the outputs are those of the pool of dictionaries and every slot still refines its own dictionary —
    the per-call frame condition (`no_aliasing`) lifted to `foldl step`. -/
theorem pool_refine_run (hash : K → Nat) (thr : Nat → Nat) (d : Desc K V) (dflt : LMap K V) (sdflt : S K V)
    (ops : List (Nat × Op K V)) (pool : Array (LMap K V)) (spool : Array (S K V))
    (h : LMap.PoolRel hash d dflt sdflt pool spool) (hops : ∀ o ∈ ops, o.1 < pool.size) :
    (poolRun (LMap.step hash thr d) dflt pool ops).2 = (poolRun (S.step d) sdflt spool ops).2 ∧
    LMap.PoolRel hash d dflt sdflt (poolRun (LMap.step hash thr d) dflt pool ops).1 (poolRun (S.step d) sdflt spool ops).1 :=
  let r := LMap.pool_refine_run thr dflt sdflt ops h hops
  ⟨r.2, r.1⟩

/-! ### serialized form (IntIntLinkedMap, LongLongLinkedMap; Int/LongFloatLinkedMap with `float := true`) -/

/-- the bytes decode to the entries in iteration order (exact consumption), for decimal and for float values -/
theorem wire_decodes (es : List (Int × Int)) (r : Bytes) (hlen : Prim.inRange 8 (es.length : Int)) :
    ((∀ e ∈ es, Prim.inRange 8 e.1 ∧ Prim.inRange 8 e.2) → P.run pairsFromBytes (pairsToBytes es ++ r) = some (es, r)) ∧
    ((∀ e ∈ es, Prim.inRange 8 e.1 ∧ 0 ≤ e.2 ∧ e.2 < 4294967296) → P.run pairsFromBytesF (pairsToBytesF es ++ r) = some (es, r)) :=
  ⟨run_pairsFromBytes es r hlen, run_pairsFromBytesF es r hlen⟩

/-- `ToObject(ToBytes(m))` into a fresh map of any capacity is the same dictionary **in the same order**
    (keys within the decimal codec's range; values decimals, or 32-bit float patterns) -/
theorem linked_wire (hash : Int → Nat) (thr : Nat → Nat) (d : Desc Int Int) (float : Bool) (cap : Nat) (m : LMap Int Int)
    (h : LMap.Inv hash d m) (hlen : Prim.inRange 8 ((m.entries hash).length : Int))
    (hr : ∀ e ∈ m.entries hash, wireOK float e) :
    LMap.Inv hash d (LMap.toObject hash thr float d (LMap.new thr cap) (LMap.toBytes hash float m)) ∧
    (LMap.abs hash (LMap.toObject hash thr float d (LMap.new thr cap) (LMap.toBytes hash float m))).ents = (LMap.abs hash m).ents :=
  LMap.linked_wire float thr cap h hlen hr

/-! ### enumeration and modification -/

/-- The property's premise is an enumeration "taken while the structure is not being modified"; `enumerator_protocol`
    is exactly that case.  Outside the premise nothing is claimed: an enumerator taken before a modification and
    drained after it need not show the new contents (here: a key put meanwhile is missed). -/
theorem enumeration_premise_is_needed :
    let d : Desc Int Int := { comb := fun a b => a + b, veq := fun a b => a == b }
    let m := (LMap.run (fun _ : Int => 7) (fun c => c / 2) d (LMap.new (fun c => c / 2) 1) [.put .last 1 10]).1
    let e := m.openEnum
    let m' := (LMap.step (fun _ : Int => 7) (fun c => c / 2) d m (.put .last 2 20)).1
    LEnum.drain 5 e = [1] ∧ LEnum.drain 5 m'.openEnum = [1, 2] := by decide

/-! ### recorded deviations around empty string keys (D15) -/

/-- full statement: a key that was put is contained.  It holds for regular descriptors … -/
theorem contains_after_put_partial (d : Desc K V) (hreg : d.regular) (s : S K V) (mode : Mode) (k : K) (v : V)
    (h : s.WF) : (S.step d (S.put d s mode k v).1 (.containsKey k)).2 = .bool true := by
  have hg := get_put d s mode k v h (hreg.1 k)
  simp [S.step, hreg.2 k, hg]

/-- complete characterisation (D15): after `put k v` the key is reported as contained **iff** the descriptor is not
    blind for `k` and either does not refuse `k` or `k` was present before.  So the property's statement
    ("a key that was put is contained") fails exactly for the blind keys and for refused keys that are absent. -/
theorem contains_after_put_iff (d : Desc K V) (s : S K V) (mode : Mode) (k : K) (v : V) (h : s.WF) :
    (S.step d (S.put d s mode k v).1 (.containsKey k)).2 = .bool true ↔
      d.blind k = false ∧ (d.refuse k = false ∨ k ∈ AL.keys s.ents) := by
  cases hr : d.refuse k with
  | true =>
    have hp : (S.put d s mode k v).1 = s := by simp [S.put, hr]
    rw [hp]
    simp only [S.step, Out.bool.injEq, Bool.and_eq_true, Bool.not_eq_eq_eq_not, Bool.not_true, AL.get_isSome_iff]
    constructor
    · rintro ⟨a, b⟩; exact ⟨a, Or.inr b⟩
    · rintro ⟨a, b | b⟩
      · exact absurd b (by simp)
      · exact ⟨a, b⟩
  | false =>
    have hg := get_put d s mode k v h hr
    simp [S.step, hg]

/-- … StringLinkedSet (`blind ""`): Put("") stores the key, Contains("") answers false -/
theorem finding_D15_blind :
    let d : Desc String Unit := { comb := fun _ _ => (), veq := fun _ _ => true, blind := fun k => k == "" }
    (S.step d (S.put d {} .last "" ()).1 (.containsKey "")).2 = .bool false ∧
    (S.put d {} .last "" ()).1.ents = [("", ())] := by
  decide

/-- … String{Int,Long}LinkedMap (`refuse ""`): Put("", 5) is ignored -/
theorem finding_D15_refuse :
    let d : Desc String Int := { comb := fun a b => a + b, veq := fun a b => a == b, refuse := fun k => k == "" }
    (S.step d (S.put d {} .last "" 5).1 (.get "")).2 = .none ∧ (S.put d {} .last "" 5).1.ents = [] := by
  decide

/-! ### the thirteen types -/

/-- exactly the three types with an empty-string guard are irregular in the model -/
theorem irregular_types :
    (linkedTypes.filter (fun t => !t.regular)).map (·.name) =
      ["StringIntLinkedMap", "StringLongLinkedMap", "StringLinkedSet"] := by decide

theorem thirteen_types : linkedTypes.length = 13 ∧ (linkedTypes.map (·.name)).Nodup := by decide

/-! ### the rest of the public API: entry objects, container text, enumerators opened at an entry (round 4)

`XOp` = the operations above plus: `SetValue` on a live entry object handed out by `Entries()`, `Unipoint`, an enumerator
constructed at an entry (`New<Type>Enumer`), `ValueIterator` (HasNext / Next), `ToString` / `ToFormatString`, `ToKeySet`,
entry `Equals` / `HashCode`. -/

/-- one operation of the extended API: invariant kept, same output as the dictionary (the text of `ToString` included:
    the `for i := 0; x.HasMoreElements(); i++` loop over the enumerator object yields exactly `{e₁, e₂, …}`), abstraction commutes -/
theorem refine_xstep (hash : K → Nat) (thr : Nat → Nat) (d : Desc K V) (ek : EntryKind K V) (m : LMap K V) (op : XOp K V)
    (h : LMap.Inv hash d m) :
    LMap.Inv hash d (LMap.xstep hash thr d ek m op).1 ∧
    (LMap.xstep hash thr d ek m op).2 = (S.xstep d ek (LMap.abs hash m) op).2 ∧
    LMap.abs hash (LMap.xstep hash thr d ek m op).1 = (S.xstep d ek (LMap.abs hash m) op).1 :=
  LMap.refine_xstep thr ek h op

/-- every finite history over the extended API, from a fresh map of any capacity -/
theorem refine_xrun (hash : K → Nat) (thr : Nat → Nat) (d : Desc K V) (ek : EntryKind K V) (cap : Nat) (ops : List (XOp K V)) :
    (LMap.xrun hash thr d ek (LMap.new thr cap) ops).2 = (S.xrun d ek {} ops).2 := by
  have := (LMap.refine_xrun thr ek ops (LMap.Inv.new (hash := hash) (thr := thr) (d := d) cap)).2.1
  rw [LMap.abs_new] at this
  exact this

/-- … and from any reachable state -/
theorem refine_xrun_from (hash : K → Nat) (thr : Nat → Nat) (d : Desc K V) (ek : EntryKind K V) (m : LMap K V)
    (ops : List (XOp K V)) (h : LMap.Inv hash d m) :
    LMap.Inv hash d (LMap.xrun hash thr d ek m ops).1 ∧
    (LMap.xrun hash thr d ek m ops).2 = (S.xrun d ek (LMap.abs hash m) ops).2 ∧
    LMap.abs hash (LMap.xrun hash thr d ek m ops).1 = (S.xrun d ek (LMap.abs hash m) ops).1 :=
  LMap.refine_xrun thr ek ops h

/-- `SetValue` on the entry object of a stored key writes THROUGH to the dictionary: the previous value is returned, the key
    then maps to the new value, every other key keeps its value, and the keys, their order and the size are untouched
    (frame condition) — no eviction, no relinking, whatever the bound -/
theorem entry_setValue_writes_through (s : S K V) (k : K) (v old : V) (hk : AL.get s.ents k = some old) :
    (s.entrySetValue k v).2 = some old ∧
    AL.get (s.entrySetValue k v).1.ents k = some v ∧
    (∀ k', k' ≠ k → AL.get (s.entrySetValue k v).1.ents k' = AL.get s.ents k') ∧
    AL.keys (s.entrySetValue k v).1.ents = AL.keys s.ents ∧
    (s.entrySetValue k v).1.ents.length = s.ents.length ∧ (s.entrySetValue k v).1.max = s.max := by
  unfold S.entrySetValue
  simp only [hk]
  refine ⟨by trivial, ?_, ?_, AL.keys_set _ _ _, AL.length_set _ _ _, by trivial⟩
  · rw [AL.get_set]; simp [hk]
  · intro k' hne; rw [AL.get_set]; simp [Ne.symm hne]

/-- on a stored key it is the same as `Put` (mode PUT_LAST, which does not move a present key) -/
theorem entry_setValue_is_put (d : Desc K V) (s : S K V) (k : K) (v old : V) (hk : AL.get s.ents k = some old)
    (hr : d.refuse k = false) : s.entrySetValue k v = S.put d s .last k v := by
  unfold S.entrySetValue S.put S.putWith
  simp [hk, hr, AL.touch]

/-- an entry object whose key is no longer stored has no effect on the dictionary -/
theorem entry_setValue_absent (s : S K V) (k : K) (v : V) (hk : AL.get s.ents k = none) :
    s.entrySetValue k v = (s, none) := by
  unfold S.entrySetValue; simp [hk]

/-- an enumerator constructed at the entry of `k` yields the keys from `k` on: the enumeration splits into the keys before
    `k` (none of them is `k`) and what the enumerator yields, which starts with `k` when `k` is stored -/
theorem enumFrom_suffix (d : Desc K V) (ek : EntryKind K V) (s : S K V) (k : K) :
    ∃ rest, (S.xstep d ek s (.enumFrom k)).2 = .out (.keys rest) ∧
      AL.keys s.ents = (AL.keys s.ents).takeWhile (· != k) ++ rest ∧
      k ∉ (AL.keys s.ents).takeWhile (· != k) ∧
      (k ∈ AL.keys s.ents → rest.head? = some k) := by
  exact ⟨(AL.keys s.ents).dropWhile (· != k), rfl, (List.takeWhile_append_dropWhile).symm,
    LMap.not_mem_takeWhile_ne _ k, LMap.head_dropWhile_ne _ k⟩

/-- `Equals` of two entries implies equal keys; entries of one container with distinct keys are never equal -/
theorem entry_equals_key (ek : EntryKind K V) (a b : K × V) (h : ek.equals a b = true) : a.1 = b.1 := by
  unfold EntryKind.equals at h
  simp only [Bool.and_eq_true, decide_eq_true_eq] at h
  exact h.1

/-- for the key-only entry types `Equals` is exactly key equality -/
theorem entry_equals_keyOnly (ek : EntryKind K V) (hk : ek.eqValue = false) (a b : K × V) :
    ek.equals a b = decide (a.1 = b.1) := by
  unfold EntryKind.equals; simp [hk]

/-- the ten entry types of the table, and which of them compare the value -/
theorem entry_types :
    entryDescs.length = 13 ∧ (entryDescs.map (·.owner)) = linkedTypes.map (·.name) ∧
    ((entryDescs.filter (·.equals == "kv")).map (·.owner)
      = ["IntIntLinkedMap", "IntFloatLinkedMap", "LongFloatLinkedMap", "LongLongLinkedMap"]) := by decide

/-! ### non-vacuity -/

example : LMap.Inv (fun k : Int => k.toNat) (setDesc Int) (LMap.new (fun c => c * 3 / 4) 0 : LMap Int Unit) :=
  LMap.Inv.new 0

/-- a history with growth, collisions (constant hash), a bound and eviction; outputs computed by the CodeModel -/
example :
    (LMap.run (fun _ : Int => 7) (fun c => c / 2) ({ comb := fun a b => a + b, veq := fun a b => a == b } : Desc Int Int) (LMap.new (fun c => c / 2) 1)
      [.setMax 2, .put .last 1 10, .put .last 2 20, .put .forceFirst 3 30, .add .last 3 5, .entries]).2
      = [.unit, .none, .none, .none, .val 30, .ents [(3, 35), (1, 10)]] := by decide

/-- SetMax below the current size, then an insertion: `over_bound_insert`'s hypotheses hold and 5 entries become 2 -/
example :
    let d : Desc Int Int := { comb := fun a b => a + b, veq := fun a b => a == b }
    let s : S Int Int := { ents := [(1, 10), (2, 20), (3, 30), (4, 40), (5, 50)], max := 2 }
    AL.get s.ents 9 = none ∧ 0 < s.max ∧ s.max ≤ s.ents.length ∧
    (S.put d s .last 9 90).1.ents = [(5, 50), (9, 90)] ∧ (S.put d s .forceFirst 9 90).1.ents = [(9, 90), (1, 10)] := by
  decide

/-- the enumerator object drained on a concrete map (constant hash: one chain) -/
example :
    let d : Desc Int Int := { comb := fun a b => a + b, veq := fun a b => a == b }
    let m := (LMap.run (fun _ : Int => 7) (fun c => c / 2) d (LMap.new (fun c => c / 2) 1)
      [.put .last 1 10, .put .forceFirst 2 20, .put .last 3 30]).1
    LEnum.drain m.count m.openEnum = [2, 1, 3] ∧ m.enumValues (fun _ => 7) [2, 1, 3] = [20, 10, 30] := by
  decide

/-- `contains_after_put_iff` on both sides: a blind key, a refused absent key, a regular key -/
example :
    let d : Desc String Unit := { comb := fun _ _ => (), veq := fun _ _ => true, blind := fun k => k == "b", refuse := fun k => k == "r" }
    (S.step d (S.put d {} .last "b" ()).1 (.containsKey "b")).2 = .bool false ∧
    (S.step d (S.put d {} .last "r" ()).1 (.containsKey "r")).2 = .bool false ∧
    (S.step d (S.put d {} .last "x" ()).1 (.containsKey "x")).2 = .bool true := by
  decide

/-- `pool_refine_run`: its premise holds for a pool of fresh maps, and an interleaved history over two slots computes -/
example :
    let d : Desc Int Int := { comb := fun a b => a + b, veq := fun a b => a == b }
    LMap.PoolRel (fun _ : Int => 7) d (LMap.new (fun c => c / 2) 1) {}
      #[LMap.new (fun c => c / 2) 1, LMap.new (fun c => c / 2) 4] #[{}, {}] ∧
    (poolRun (LMap.step (fun _ : Int => 7) (fun c => c / 2) d) (LMap.new (fun c => c / 2) 1)
      #[LMap.new (fun c => c / 2) 1, LMap.new (fun c => c / 2) 4]
      [(0, .put .last 1 10), (1, .put .last 1 11), (0, .put .last 2 20), (1, .get 1), (0, .entries), (1, .entries)]).2
      = [.none, .none, .none, .val 11, .ents [(1, 10), (2, 20)], .ents [(1, 11)]] := by
  refine ⟨⟨rfl, fun i hi => ?_⟩, by decide⟩
  have hi' : i < 2 := hi
  match i, hi' with
  | 0, _ => exact inv_init (fun _ : Int => 7) (fun c => c / 2) _ 1
  | 1, _ => exact inv_init (fun _ : Int => 7) (fun c => c / 2) _ 4

/-- `linked_wire` on a concrete map: decimal values and float bit patterns, order kept (constant hash: one chain) -/
example :
    let d : Desc Int Int := { comb := fun a b => a + b, veq := fun a b => a == b }
    let m := (LMap.run (fun _ : Int => 7) (fun c => c / 2) d (LMap.new (fun c => c / 2) 1)
      [.put .last 300 (-1), .put .forceFirst (-2) 1065353216]).1
    (LMap.toObject (fun _ => 7) (fun c => c / 2) false d (LMap.new (fun c => c / 2) 3) (LMap.toBytes (fun _ => 7) false m)).entries (fun _ => 7)
      = [(-2, 1065353216), (300, -1)] ∧
    m.entries (fun _ => 7) = [(-2, 1065353216), (300, -1)] ∧
    (∀ e ∈ [((-2 : Int), (1065353216 : Int)), (300, -1)], wireOK false e) := by
  refine ⟨by decide, by decide, fun e he => ?_⟩
  simp only [List.mem_cons, List.mem_nil_iff, or_false] at he
  rcases he with rfl | rfl <;> exact ⟨by decide, by decide⟩

/-- `bounded_any_step` / `bounded_any_run` where they say more than `bounded_run`: a map over its bound (SetMax 2 on five
    entries) — lookups, an update, a removal and an insertion never make it larger; the insertion brings it down to the bound -/
example :
    let d : Desc Int Int := { comb := fun a b => a + b, veq := fun a b => a == b }
    let m := (LMap.run (fun _ : Int => 7) (fun c => c / 2) d (LMap.new (fun c => c / 2) 1)
      [.put .last 1 10, .put .last 2 20, .put .last 3 30, .put .last 4 40, .put .last 5 50, .setMax 2]).1
    m.count = 5 ∧ 0 < m.max ∧
    ((LMap.run (fun _ : Int => 7) (fun c => c / 2) d m [.get 1, .put .last 3 33, .size]).2 = [.val 10, .val 30, .nat 5]) ∧
    ((LMap.run (fun _ : Int => 7) (fun c => c / 2) d m [.remove 1, .size, .put .last 9 90, .size, .keys]).2
      = [.val 10, .nat 4, .none, .nat 2, .keys [5, 9]]) := by
  decide

/-- the extended API on a concrete map (constant hash: one chain): SetValue through an entry object, Unipoint-style put,
    an enumerator opened at an entry, ToKeySet, the text of ToString and ToFormatString, entry Equals / HashCode;
    `entry_setValue_writes_through`'s hypothesis holds for key 1 -/
example :
    let d : Desc Int Int := { comb := fun a b => a + b, veq := fun a b => a == b }
    let ek : EntryKind Int Int := { eqValue := true, veq := fun a b => a == b, hashCode := fun k v => u64 k ^^^ u64 v,
                                     showK := fun k => [48 + k.toNat], showV := fun v => [48 + v.toNat] }
    let m := (LMap.run (fun _ : Int => 7) (fun c => c / 2) d (LMap.new (fun c => c / 2) 1)
      [.put .last 1 5, .put .last 2 6, .put .forceFirst 3 7]).1
    AL.get (LMap.abs (fun _ => 7) m).ents 1 = some 5 ∧
    (LMap.xrun (fun _ : Int => 7) (fun c => c / 2) d ek m
      [.entrySetValue 1 9, .base .entries, .entrySetValue 4 9, .enumFrom 1, .toKeySet, .valueIterator, .toString false,
       .toString true, .entryEquals 1 2, .entryEquals 2 2, .unipoint 8 0, .base .keys]).2
      = [.out (.val 5), .out (.ents [(3, 7), (1, 9), (2, 6)]), .out .none, .out (.keys [1, 2]), .out (.keys [2, 1, 3]),
         .out (.vals [7, 9, 6]), .text [123, 51, 61, 55, 44, 32, 49, 61, 57, 44, 32, 50, 61, 54, 125],
         .text [123, 51, 61, 55, 10, 44, 32, 49, 61, 57, 10, 44, 32, 50, 61, 54, 10, 125],
         .eq false 8, .eq true 4, .out (.key 8), .out (.keys [3, 1, 2, 8])] := by
  decide

/-- the per-type reading used by the driver: decimal text, `<nil>`, the float placeholder, the three HashCode expressions -/
example :
    decBytes (-12) = [45, 49, 50] ∧
    entryHash (lt "IntIntLinkedMap" .int32 .int32 .accumulate .noCtor .all) ⟨"", "", "kv", "uint(this.key) ^ uint(this.value)", "", [], ""⟩ (-1) 1
      = 18446744073709551614 ∧
    entryHash (lt "IntKeyLinkedMap" .int32 .obj .none .guarded .all) ⟨"", "", "k", "uint(this.key ^ this.key>>32)", "", [], ""⟩ (-5) 0 = 4 ∧
    entryHash (lt "LongKeyLinkedMap" .int64 .obj .none .guarded .none) ⟨"", "", "k", "uint(this.key ^ this.key>>32)", "", [], ""⟩ 4294967298 0 = 4294967299 := by
  decide

end C09
