/-
  Property C11, tie A — obligations over the regenerated facts of util/queue/RequestQueue.go and
  RequestDoubleQueue.go (`Golib/Gen/Locks.lean`, rewritten by `xlate/c10` on every check: for each
  method the execution paths through its body — loops unrolled up to twice — with the branch
  conditions taken, the calls made, and the Lock / defer Unlock / Wait / Broadcast sites).

  They pin the facts the model (Golib/Queue/Seq.lean, Golib/Queue/Conc.lean) assumes:
    * the capacity test of every put is `capacity <= 0 || size < capacity`        (Q.room)
    * a put that adds broadcasts afterwards, on every path                         (qbcast; queue_H)
    * a refused put adds nothing, returns false and calls the failure callback     (put_full)
    * a forced put evicts only while `size >= capacity`, reports each evicted element, then adds,
      broadcasts and returns false                                                 (putForce_full)
    * Get waits only inside `for size <= 0 { Wait() }` under the lock and removes only after the
      guard was seen false                                                         (cstep; no_lost_wakeup)
    * only Put/PutForce add elements (so the operations that do not broadcast cannot enable a waiter)
-/
import Golib.Gen.Locks

namespace C11Gen
open LockFacts Gen.Locks

def capTest (cap q : String) : String := s!"this.{cap} <= 0 || this.{q}.Size() < this.{cap}"
def evictTest (cap q : String) : String := s!"this.{q}.Size() >= this.{cap}"

/-- a call of `t` on this path happens only directly under a taken condition `c` (since the last
    evaluation of a condition) -/
def callOnlyUnder (t c : String) : List Tok → Bool → Bool
  | [], _ => true
  | .assume c' :: rest, _ => callOnlyUnder t c rest (c' == c)
  | .assumeNot _ :: rest, _ => callOnlyUnder t c rest false
  | .call t' :: rest, ok => (t' != t || ok) && callOnlyUnder t c rest ok
  | _ :: rest, ok => callOnlyUnder t c rest ok

def putPathOk (cap q failed : String) (p : List Tok) : Bool :=
  if p.contains (.assume (capTest cap q)) then
    p.contains (.call (q ++ ".Add")) && broadcastAfter [q ++ ".Add"] p && p.getLast? == some (.ret "true")
  else if p.contains (.assumeNot (capTest cap q)) then
    !p.contains (.call (q ++ ".Add")) && p.getLast? == some (.ret "false")
      && (!p.contains (.assume s!"this.{failed} != nil") || p.contains (.call failed))
  else false

def putForcePathOk (cap q overflowed : String) (p : List Tok) : Bool :=
  if p.contains (.assume (capTest cap q)) then
    p.contains (.call (q ++ ".Add")) && broadcastAfter [q ++ ".Add"] p && p.getLast? == some (.ret "true")
      && !p.contains (.call (q ++ ".RemoveFirst"))
  else if p.contains (.assumeNot (capTest cap q)) then
    p.contains (.call (q ++ ".Add")) && broadcastAfter [q ++ ".Add"] p && p.getLast? == some (.ret "false")
      && callOnlyUnder (q ++ ".RemoveFirst") (evictTest cap q) p false
      && (!p.contains (.assume s!"this.{overflowed} != nil") || p.contains (.call overflowed))
      && p.contains (.assumeNot (evictTest cap q))       -- the loop is left only when size < capacity
  else false

def methodOk (T : TypeFacts) (m : String) (pathOk : List Tok → Bool) : Bool :=
  match T.find m with
  | none => false
  | some M => M.acquires && M.lockFirst && M.deferUnlock && !M.irregular && !M.paths.isEmpty
              && pathsLockFirst M && M.paths.all pathOk

def getPathOk (guard : String) (removes : List String) (p : List Tok) : Bool :=
  waitGuarded guard p && removeAfterGuardFalse guard removes p false

def removesSomething (removes : List String) (p : List Tok) : Bool :=
  removes.any (fun r => p.contains (.call r))

/-- the methods of `T` that add to one of its lists -/
def adders (T : TypeFacts) (adds : List String) : List String :=
  (T.methods.filter (fun M => M.paths.any (fun p => adds.any (fun a => p.contains (.call a))))).map (·.name)

/-- the methods of `T` with a Broadcast on some path / a Wait on some path -/
def broadcasters (T : TypeFacts) : List String :=
  (T.methods.filter (fun M => M.paths.any (·.contains .broadcast))).map (·.name)
def waiters (T : TypeFacts) : List String :=
  (T.methods.filter (fun M => M.paths.any (·.contains .wait))).map (·.name)

/-! ### RequestQueue -/

theorem put_capacity_test_and_broadcast :
    methodOk RequestQueue.facts "Put" (putPathOk "capacity" "queue" "Failed") = true := by decide

theorem putforce_evicts_then_adds_and_broadcasts :
    methodOk RequestQueue.facts "PutForce" (putForcePathOk "capacity" "queue" "Overflowed") = true := by decide

theorem get_waits_in_guarded_loop :
    methodOk RequestQueue.facts "Get" (fun p => getPathOk "this.queue.Size() <= 0" ["queue.RemoveFirst"] p
      && removesSomething ["queue.RemoveFirst"] p) = true ∧
    waiters RequestQueue.facts = ["Get"] := by decide

theorem getnowait_never_waits :
    methodOk RequestQueue.facts "GetNoWait" (fun p => !p.contains .wait
      && callOnlyUnder "queue.RemoveFirst" "this.queue.Size() > 0" p false) = true := by decide

/-- exactly the operations the model lets broadcast (`Queue.qbcast`: put, putForce) add elements and
    broadcast; Clear / GetNoWait / Size / SetCapacity neither add nor need to -/
theorem only_puts_add_and_they_broadcast :
    adders RequestQueue.facts ["queue.Add", "queue.AddLast", "queue.AddFirst", "queue.PutBefore"] = ["Put", "PutForce"] ∧
    broadcasters RequestQueue.facts = ["Put", "PutForce"] := by decide

/-- GetTimeout is the polling loop of the model: it only calls GetNoWait (never touches the list or
    the lock itself) -/
def pollsOnly (T : TypeFacts) (m : String) : Bool :=
  match T.find m with
  | none => false
  | some M => !M.acquires && !M.callsFree.isEmpty && M.callsFree.all (fun c => c == "GetNoWait" || c == "poll") && M.callsHeld.isEmpty
              && M.fieldCallsFree.isEmpty && M.fieldCallsHeld.isEmpty

theorem gettimeout_polls_getnowait :
    pollsOnly RequestQueue.facts "GetTimeout" = true ∧ pollsOnly RequestDoubleQueue.facts "GetTimeout" = true := by
  decide

/-- the clock functions a method calls -/
def clockFns : List String := ["dateutil.Now", "dateutil.SystemNow", "time.Now", "dateutil.SystemMillis", "dateutil.Millis"]
def usedClocks (T : TypeFacts) (m : String) : List String :=
  match T.find m with
  | none => ["?"]
  | some M => M.extCalls.filter (fun c => clockFns.contains c)

/-- the timed get computes its deadline and the remaining time with one and the same clock (a
    server-time delta between two clocks would make it return early or late) -/
theorem gettimeout_uses_one_clock :
    (usedClocks RequestQueue.facts "GetTimeout").length = 1 ∧
    (usedClocks RequestDoubleQueue.facts "GetTimeout").length = 1 := by decide

/-! ### RequestDoubleQueue -/

theorem double_put_capacity_test_and_broadcast :
    methodOk RequestDoubleQueue.facts "Put1" (putPathOk "capacity1" "queue1" "failed1") = true ∧
    methodOk RequestDoubleQueue.facts "Put2" (putPathOk "capacity2" "queue2" "failed2") = true := by decide

theorem double_putforce_evicts_then_adds_and_broadcasts :
    methodOk RequestDoubleQueue.facts "PutForce1" (putForcePathOk "capacity1" "queue1" "overflowed1") = true ∧
    methodOk RequestDoubleQueue.facts "PutForce2" (putForcePathOk "capacity2" "queue2" "overflowed2") = true := by decide

/-- Get waits while both queues are empty and then tries queue 1 before queue 2 -/
theorem double_get_waits_and_prefers_first :
    methodOk RequestDoubleQueue.facts "Get"
      (fun p => getPathOk "this.queue1.Size() <= 0 && this.queue2.Size() <= 0" ["queue1.RemoveFirst", "queue2.RemoveFirst"] p
        && callOnlyUnder "queue1.RemoveFirst" "this.queue1.Size() > 0" p false
        && callOnlyUnder "queue2.RemoveFirst" "this.queue2.Size() > 0" p false
        && (!p.contains (.call "queue2.RemoveFirst") || p.contains (.assumeNot "this.queue1.Size() > 0"))
        -- the only path that removes nothing is the one marked /*impossible*/ in the source: guard false
        -- (some queue non-empty) and yet both size tests false
        && (removesSomething ["queue1.RemoveFirst", "queue2.RemoveFirst"] p
            || (p.contains (.assumeNot "this.queue1.Size() > 0") && p.contains (.assumeNot "this.queue2.Size() > 0")
                && p.getLast? == some (.ret "nil")))) = true ∧
    waiters RequestDoubleQueue.facts = ["Get"] := by decide

theorem double_getnowait_prefers_first :
    methodOk RequestDoubleQueue.facts "GetNoWait"
      (fun p => !p.contains .wait
        && callOnlyUnder "queue1.RemoveFirst" "this.queue1.Size() > 0" p false
        && callOnlyUnder "queue2.RemoveFirst" "this.queue2.Size() > 0" p false
        && (!p.contains (.call "queue2.RemoveFirst") || p.contains (.assumeNot "this.queue1.Size() > 0"))) = true := by decide

theorem double_only_puts_add_and_they_broadcast :
    adders RequestDoubleQueue.facts ["queue1.Add", "queue2.Add", "queue1.AddLast", "queue2.AddLast", "queue1.AddFirst", "queue2.AddFirst"]
      = ["Put1", "Put2", "PutForce1", "PutForce2"] ∧
    broadcasters RequestDoubleQueue.facts = ["Put1", "Put2", "PutForce1", "PutForce2"] := by decide

/-! ### every queue operation runs under the queue's lock — one obligation per method, so that a dropped
    lock names the method (GetTimeout is the polling loop: it only calls GetNoWait, see
    `gettimeout_polls_getnowait`) -/

/-- `m` takes the queue's lock as its first statement, releases it by `defer`, touches no field and calls
    nothing on the inner lists outside of it -/
def methodLocked (T : TypeFacts) (m : String) : Bool :=
  atomicMethod T m && (match T.find m with | some M => M.fieldCallsFree.isEmpty | none => false)

theorem RequestQueue_Clear_locked : methodLocked RequestQueue.facts "Clear" = true := by decide
theorem RequestQueue_Get_locked : methodLocked RequestQueue.facts "Get" = true := by decide
theorem RequestQueue_GetCapacity_locked : methodLocked RequestQueue.facts "GetCapacity" = true := by decide
theorem RequestQueue_GetNoWait_locked : methodLocked RequestQueue.facts "GetNoWait" = true := by decide
theorem RequestQueue_Put_locked : methodLocked RequestQueue.facts "Put" = true := by decide
theorem RequestQueue_PutForce_locked : methodLocked RequestQueue.facts "PutForce" = true := by decide
theorem RequestQueue_SetCapacity_locked : methodLocked RequestQueue.facts "SetCapacity" = true := by decide
theorem RequestQueue_Size_locked : methodLocked RequestQueue.facts "Size" = true := by decide

theorem RequestDoubleQueue_Clear_locked : methodLocked RequestDoubleQueue.facts "Clear" = true := by decide
theorem RequestDoubleQueue_Get_locked : methodLocked RequestDoubleQueue.facts "Get" = true := by decide
theorem RequestDoubleQueue_GetCapacity1_locked : methodLocked RequestDoubleQueue.facts "GetCapacity1" = true := by decide
theorem RequestDoubleQueue_GetCapacity2_locked : methodLocked RequestDoubleQueue.facts "GetCapacity2" = true := by decide
theorem RequestDoubleQueue_GetNoWait_locked : methodLocked RequestDoubleQueue.facts "GetNoWait" = true := by decide
theorem RequestDoubleQueue_Put1_locked : methodLocked RequestDoubleQueue.facts "Put1" = true := by decide
theorem RequestDoubleQueue_Put2_locked : methodLocked RequestDoubleQueue.facts "Put2" = true := by decide
theorem RequestDoubleQueue_PutForce1_locked : methodLocked RequestDoubleQueue.facts "PutForce1" = true := by decide
theorem RequestDoubleQueue_PutForce2_locked : methodLocked RequestDoubleQueue.facts "PutForce2" = true := by decide
theorem RequestDoubleQueue_SetCapacity_locked : methodLocked RequestDoubleQueue.facts "SetCapacity" = true := by decide
theorem RequestDoubleQueue_Size_locked : methodLocked RequestDoubleQueue.facts "Size" = true := by decide
theorem RequestDoubleQueue_Size1_locked : methodLocked RequestDoubleQueue.facts "Size1" = true := by decide
theorem RequestDoubleQueue_Size2_locked : methodLocked RequestDoubleQueue.facts "Size2" = true := by decide
theorem RequestDoubleQueue_ToString1_locked : methodLocked RequestDoubleQueue.facts "ToString1" = true := by decide
theorem RequestDoubleQueue_ToString2_locked : methodLocked RequestDoubleQueue.facts "ToString2" = true := by decide

/-- no exported queue method is left out of the list above (a new method needs its obligation) -/
theorem queue_methods_covered :
    (RequestQueue.facts.methods.filter (·.exported)).map (·.name)
      = ["Clear", "Get", "GetCapacity", "GetNoWait", "GetTimeout", "Put", "PutForce", "SetCapacity", "Size"] ∧
    -- (SetCallbacks1/2 exist only with proposed/C11/fix-KF-callbacks-unsettable.diff; they must then be locked)
    ((RequestDoubleQueue.facts.methods.filter (fun M => M.exported && M.name != "SetCallbacks1" && M.name != "SetCallbacks2")).map (·.name)
      = ["Clear", "Get", "GetCapacity1", "GetCapacity2", "GetNoWait", "GetTimeout", "Put1", "Put2", "PutForce1",
         "PutForce2", "SetCapacity", "Size", "Size1", "Size2", "ToString1", "ToString2"]) ∧
    (RequestDoubleQueue.facts.methods.filter (fun M => M.name == "SetCallbacks1" || M.name == "SetCallbacks2")).all
      (fun M => methodLocked RequestDoubleQueue.facts M.name) = true := by decide

/-! ### the former finding `RequestDoubleQueue:callbacks-unsettable` (repaired: SetCallbacks1/2), on the source facts -/

/-- the methods of `T` that assign one of the fields `flds` -/
def assigners (T : TypeFacts) (flds : List String) : List String :=
  (T.methods.filter (fun M => (M.accHeld ++ M.accFree).any (fun a => a.write && flds.contains a.root))).map (·.name)

/-- the methods of `T` that invoke one of the function-valued fields `flds` -/
def invokers (T : TypeFacts) (flds : List String) : List String :=
  (T.methods.filter (fun M => flds.any (fun f => M.callbacksHeld.contains f))).map (·.name)

/-- The double queue's four callbacks are fields of the struct whose names are not exported and that
    no method of the type assigns (they can only be set from inside package `queue`, which never does),
    although Put1/Put2/PutForce1/PutForce2 would invoke them: through the public API a refused or
    evicted element of the double queue is reported to nobody.  The single queue's callbacks are
    exported fields (`Failed`, `Overflowed`) and are invoked by Put / PutForce. -/
theorem double_queue_callbacks_assigned_only_by_setters :
    ["failed1", "overflowed1", "failed2", "overflowed2"].all (RequestDoubleQueue.facts.fields.contains ·) = true ∧
    -- no method assigns them — or, with proposed/C11/fix-KF-callbacks-unsettable.diff, only the two setters do
    (assigners RequestDoubleQueue.facts ["failed1", "overflowed1", "failed2", "overflowed2"]).all
      (fun m => m == "SetCallbacks1" || m == "SetCallbacks2") = true ∧
    invokers RequestDoubleQueue.facts ["failed1", "overflowed1", "failed2", "overflowed2"]
      = ["Put1", "Put2", "PutForce1", "PutForce2"] ∧
    ["Failed", "Overflowed"].all (RequestQueue.facts.fields.contains ·) = true ∧
    invokers RequestQueue.facts ["Failed", "Overflowed"] = ["Put", "PutForce"] := by decide

end C11Gen
