/-
  Property C07, fourth round — what the masking writes *exactly* (the token-level `mask_password` does not
  exclude a rewriting that damages the key and keeps the value), streams of packs in one buffer, and the
  remaining exported functions of the anchor files (ParamKV accessors, the setter whose value travels as text).

  Statements only; proofs in Golib.Udp.MaskExact / Golib.Udp.ApiThm.  The new model functions
  (Golib.Udp.Api) are run by the driver (ops V, I, H, C, WS, RS) and compared in harness stage `api`.
-/
import Golib.Props.C07
import Golib.Udp.MaskExact
import Golib.Udp.ApiThm

namespace C07
open Udp Udp.Layout Prim

/-! ### masking, exactly

`mask_password` is token-level: a rewriting that damages the key instead of replacing the value
(`password=word` ↦ `pass#=word`, the value located by searching the token for its text) satisfies it
and keeps the password.  The statements below say what the result *is*. -/

/-- the token-level statement alone does not exclude a damaged key: `"host=db1 pass#=word"` is leak-free -/
theorem leakFree_is_token_level :
    leakFree [104, 111, 115, 116, 61, 100, 98, 49, 32, 112, 97, 115, 115, 35, 61, 119, 111, 114, 100] := by
  unfold leakFree; decide

/-- **`ParamKV.ToStringStr`, exactly**: `NewParamKVSeperate(s, c, "=").ToStringStr(key, val)` on plain
    tokens joined by `c` (blank or semicolon) writes every keyed token as `key=value'` with `value'` =
    `val` for the key asked for and the value of the *last* token with that key otherwise (Go map);
    tokens with an empty key are copied; nothing else changes (any number of tokens, repeated keys,
    any `key`/`val`) -/
theorem tostringstr_exact (c : Nat) (hc : c = 32 ∨ c = 59) (key val : Bytes) (toks : List Tok) (hne : toks ≠ [])
    (h : ∀ u ∈ toks, PlainTok u) :
    maskPass c key val (renderGrp c toks) = renderGrp c (toks.map (substTok key val toks)) :=
  Udp.maskPass_exact c hc key val toks hne h

/-- **both passes of Process(), exactly**, on a string with one kind of separator whose first key is
    not `password` (a first key `password` makes the other pass cut the string to `password=#`);
    blank-joined: the tokens with the first token's key have non-empty values (`k= b=1` is glued to
    `k=b=1` by TrimSpace — not a leak, but not this shape) -/
theorem mask_exact_uniform (c : Nat) (hc : c = 32 ∨ c = 59) (t : Tok) (r : List Tok) (h : ∀ u ∈ t :: r, PlainTok u)
    (hk : t.1 ≠ kwPassword) (hfirst : c = 32 → ∀ u ∈ t :: r, u.1 = t.1 → u.2 ≠ []) :
    maskDbc (renderGrp c (t :: r)) = renderGrp c ((t :: r).map (substTok kwPassword kwHash (t :: r))) :=
  Udp.maskDbc_uniform c hc t r h hk hfirst

/-- **the masking replaces the password value and nothing else**: pairwise distinct keys, one kind of
    separator, first key not `password`, any version of a masking family: `password=v` becomes
    `password=#` for *any* plain `v` — also a piece of the word `password` — and every other token
    stays byte for byte -/
theorem mask_exact_distinct (ver : Int) (hv : masksAt ver = true) (c : Nat) (hc : c = 32 ∨ c = 59)
    (t : Tok) (r : List Tok) (h : ∀ u ∈ t :: r, PlainTok u) (hn : ((t :: r).map (·.1)).Nodup)
    (hk : t.1 ≠ kwPassword) (hfirst : c = 32 → t.2 ≠ []) :
    processDbc ver (renderGrp c (t :: r)) = renderGrp c ((t :: r).map maskTok) :=
  Udp.mask_exact_distinct ver hv c hc t r h hn hk hfirst

/-- pack level: Dbc after Process() of the three connection-string packs is the masked string -/
theorem process_masks_exactly (p : PackT) (hp : p = UdpTxSqlPack ∨ p = UdpTxSqlParamPack ∨ p = UdpTxDbcPack)
    (ver : Int) (hv : masksAt ver = true) (st : Rec) (c : Nat) (hc : c = 32 ∨ c = 59)
    (t : Tok) (r : List Tok) (h : ∀ u ∈ t :: r, PlainTok u) (hn : ((t :: r).map (·.1)).Nodup)
    (hk : t.1 ≠ kwPassword) (hfirst : c = 32 → t.2 ≠ [])
    (hd : st "Dbc" = .str (renderGrp c (t :: r))) :
    ∃ st', p.process ver st = some st' ∧ st' "Dbc" = .str (renderGrp c ((t :: r).map maskTok)) := by
  obtain ⟨st', hpr, hdbc⟩ := Udp.process_dbc p hp ver st ⟨_, hd⟩
  refine ⟨st', hpr, ?_⟩
  rw [hdbc, hd]
  exact congrArg _ (Udp.mask_exact_distinct ver hv c hc t r h hn hk hfirst)

/-- non-vacuity, on the shape the token-level statement misses: `"host=db1 user=app password=word dbname=x"`
    satisfies the hypotheses (the password is a piece of its own key) … -/
example : (∀ u ∈ [(([104, 111, 115, 116], [100, 98, 49]) : Tok), ([117, 115, 101, 114], [97, 112, 112]),
      (kwPassword, [119, 111, 114, 100]), ([100, 98, 110, 97, 109, 101], [120])], PlainTok u) ∧
    ([(([104, 111, 115, 116], [100, 98, 49]) : Tok), ([117, 115, 101, 114], [97, 112, 112]),
      (kwPassword, [119, 111, 114, 100]), ([100, 98, 110, 97, 109, 101], [120])].map (·.1)).Nodup := by
  unfold PlainTok; decide
/-- … and comes out as `"host=db1 user=app password=# dbname=x"`, for blanks and for semicolons -/
example : ∀ c ∈ [32, 59], processDbc 50100 (renderGrp c [([104, 111, 115, 116], [100, 98, 49]), ([117, 115, 101, 114], [97, 112, 112]),
      (kwPassword, [119, 111, 114, 100]), ([100, 98, 110, 97, 109, 101], [120])]) =
    renderGrp c [([104, 111, 115, 116], [100, 98, 49]), ([117, 115, 101, 114], [97, 112, 112]),
      (kwPassword, kwHash), ([100, 98, 110, 97, 109, 101], [120])] := by decide
/-- repeated keys: the last value wins (`x=2 x=1` ↦ `x=1 x=1`), `password=password` ↦ `password=#` -/
example : maskPass 32 kwPassword kwHash (renderGrp 32 [([120], [50]), ([120], [49]), (kwPassword, kwPassword)]) =
    renderGrp 32 [([120], [49]), ([120], [49]), (kwPassword, kwHash)] := by decide

/-- `ParamKV.ExistsKey` / `GetValue` on plain tokens: whether a token has the key; the value of the last one -/
theorem paramkv_getvalue (c : Nat) (hc : c = 32 ∨ c = 59) (key : Bytes) (toks : List Tok) (hne : toks ≠ [])
    (h : ∀ u ∈ toks, PlainTok u) (hk : key ≠ []) :
    existsKey c key (renderGrp c toks) = toks.any (fun u => u.1 == key) ∧
    getValue c key (renderGrp c toks) = lastValOf key toks :=
  Udp.getValue_plain c hc key toks hne h hk

example : getValue 59 [120] (renderGrp 59 [([120], [50]), ([121], []), ([120], [49])]) = [49] ∧
    existsKey 59 [122] (renderGrp 59 [([120], [50]), ([121], []), ([120], [49])]) = false := by decide

/-! ### streams of packs -/

/-- **streams**: any sequence of packs — any types, versions, receiving packs — written one after the
    other into one buffer (`WritePack` … `WritePack`) and read one after the other from one reader
    (`ReadPack` … `ReadPack`): every reader consumes exactly its own pack's bytes, every pack comes out as
    `post` (hence `udp_restores` for each), the bytes after the last pack are untouched.  `items` =
    (type, version, pack written, receiving pack). -/
theorem udp_stream_roundtrip (items : List (PackT × Int × Rec × Rec)) (rest : Bytes)
    (h : ∀ i ∈ items, WF i.1.layout i.2.1 i.2.2.1 i.2.2.2) :
    P.run (readStream (items.map fun i => (i.1, i.2.1, i.2.2.2)))
        (writeStream (items.map fun i => (i.1, i.2.1, i.2.2.1)) ++ rest)
      = some (items.map fun i => post i.1.layout i.2.1 i.2.2.1 i.2.2.2, rest) :=
  Udp.stream_roundtrip items rest h

/-- non-vacuity: the example end pack at two versions in one stream, into a pooled and into a new pack -/
example : ∀ i ∈ [(UdpTxEndPack, (50101 : Int), exEnd, UdpTxEndPack.clearedRec), (UdpTxEndPack, 50100, exEnd, UdpTxEndPack.freshRec)],
    WF i.1.layout i.2.1 i.2.2.1 i.2.2.2 := by
  intro i hi
  simp only [List.mem_cons, List.not_mem_nil, or_false] at hi
  rcases hi with rfl | rfl <;> exact WF_of_wfB _ _ _ _ (by decide)

/-! ### setters -/

/-- `UdpTxEndPack.SetMcallerUrlHash(v)` followed by Process(): the hash is `v` wherever the code parses it
    (every int32; the decimal text is what the wire carries) -/
theorem set_caller_hash_process (ver : Int) (st : Rec) (v : Int) (hv : inRange 4 v) (ha : endHashActive ver = true) :
    ∃ st', UdpTxEndPack.process ver (setMcallerUrlHash v st) = some st' ∧ st' "McallerUrlHash" = .int v :=
  Udp.setCallerHash_process ver st v hv ha

/-! ### the masking families over their whole range (round 8, seed C07-r8-2)

`Write` / `Read` of every pack take the Go branch for every version above 50000 and the PHP branch for
every version up to 20000; `Process()` must mask on exactly those versions — not only from the first
gate of the family (50100, 10101 …) on. -/

/-- `Process()` masks at a version iff the family ladder of `Write` / `Read` puts it in the Go family
    (above 50000 — also 50001 … 50099, below the first Go gate) or the PHP family (up to 20000) -/
theorem mask_family_iff (ver : Int) : masksAt ver = true ↔ (50000 < ver ∨ ver ≤ 20000) := by
  unfold masksAt
  simp only [Bool.or_eq_true, decide_eq_true_eq, gt_iff_lt]

/-- the whole families: every Go and every PHP version masks -/
theorem mask_whole_families (ver : Int) (h : 50000 < ver ∨ ver ≤ 20000) : masksAt ver = true :=
  (mask_family_iff ver).2 h

/-- **Process() never leaves a password value, for every version of the Go and PHP families** as the
    family ladder delimits them (the hypothesis is on the version itself, not on `masksAt`) -/
theorem process_no_password_whole_families (t : PackT)
    (ht : t = UdpTxSqlPack ∨ t = UdpTxSqlParamPack ∨ t = UdpTxDbcPack)
    (ver : Int) (hfam : 50000 < ver ∨ ver ≤ 20000) (st : Rec) (tok : Tok) (rest : List (Nat × Tok))
    (htok : PlainTok tok) (hrest : ∀ cu ∈ rest, (cu.1 = 32 ∨ cu.1 = 59) ∧ PlainTok cu.2)
    (hd : st "Dbc" = .str (renderFlat tok rest)) :
    ∃ st', t.process ver st = some st' ∧ ∃ b, st' "Dbc" = .str b ∧ leakFree b :=
  process_no_password t ht ver st tok rest htok hrest (mask_whole_families ver hfam) hd

/-- non-vacuity: the lowest Go version, an interior one below the gate 50100, the lower neighbour of
    that gate, the top of the PHP family; and the other families do not mask -/
example : masksAt 50001 = true ∧ masksAt 50050 = true ∧ masksAt 50099 = true ∧ masksAt 20000 = true ∧
    masksAt 10001 = true ∧ masksAt 50000 = false ∧ masksAt 20001 = false := by decide

end C07
