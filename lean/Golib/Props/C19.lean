/-
  Property C19 — calendar helpers agree with the standard calendar for 2000–2099; the
  pattern-based date format is the inverse of its parser.

  Statements only; every proof is a reference to a lemma of Golib.Cal.*.

  Spec      Golib.Cal.Civil      closed-form proleptic Gregorian calendar (`civil`, `daysFromCivil`,
                                  `weekdayMon`), independent of any table or leap-year test;
                                  compared with Go's time package on every day of the century by
                                  harness/c19 (op C)
  CodeModel Golib.Cal.Table      DateTimeHelper.open(): the loops that build `table`/`dateTable`
            Golib.Cal.Helper     yyyymmdd, weekday, datetime, timestamp, logtime, ymdhms, hhmmss,
                                  hhmm, the unit functions, getYmdTime
            Golib.Cal.DateFormat DateFormat.format / Parse / ToInt / LPadInt
            Golib.Cal.Fmt        mk2, mk3, %02d, Itoa, Atoi
  The CodeModel is tied to /repo/util/dateutil by harness/c19 (ops H, Y, F, P) and by the
  regenerated constants of Golib.Gen.C19 (Golib/Props/C19Gen.lean).

  Instants are milliseconds since 1970-01-01T00:00:00Z; `InCentury t` is
  2000-01-01T00:00:00.000Z ≤ t ≤ 2099-12-31T23:59:59.999Z.  An `Option` result `none` means the Go
  code panics; the theorems show it never does inside the century.
-/
import Golib.Cal.TableProof
import Golib.Cal.HelperProof
import Golib.Cal.YmdProof
import Golib.Cal.DateFormatProof
import Golib.Cal.TableStruct
import Golib.Cal.CivilSucc
import Golib.Cal.DateFormatObjProof
import Golib.Cal.Gregorian
import Golib.Cal.ObjHistory
import Golib.Cal.PkgProof

namespace C19
open Cal

/-! ## the Spec calendar is a calendar -/

/-- every day number has a month 1..12 and a day 1..31 -/
theorem spec_fields (z : Nat) :
    1 ≤ (civil z).m ∧ (civil z).m ≤ 12 ∧ 1 ≤ (civil z).d ∧ (civil z).d ≤ 31 := civil_fields z

/-- date ↦ day number inverts day number ↦ date, for every day (not only the century);
    so distinct days have distinct dates -/
theorem spec_inverse (z : Nat) : daysFromCivil (civil z).y (civil z).m (civil z).d = z :=
  days_civil z

theorem spec_injective (a b : Nat) (h : civil a = civil b) : a = b := civil_injective a b h

/-- anchors: the epoch, the first and the last day of the table, a leap day, and the non-leap
    century year 2100 right after it -/
theorem spec_anchors :
    civil 0 = ⟨1970, 1, 1⟩ ∧ civil 10957 = ⟨2000, 1, 1⟩ ∧ civil 11016 = ⟨2000, 2, 29⟩ ∧
    civil 47481 = ⟨2099, 12, 31⟩ ∧ civil 47482 = ⟨2100, 1, 1⟩ ∧ civil 47540 = ⟨2100, 2, 28⟩ ∧
    civil 47541 = ⟨2100, 3, 1⟩ ∧ weekdayMon 0 = 3 ∧ weekdayMon 10957 = 5 := by decide

/-- on the century the closed-form calendar is the day-by-day calendar: each date is followed by
    the date that the textbook rule gives (month lengths 31/28/…, 29 days in February of a
    Gregorian leap year, year carry).  With the anchor `civil 10957 = 2000-01-01` this
    determines `civil` on 2000-01-01 … 2100-01-01 completely. -/
theorem spec_day_by_day (i : Nat) (h : i < 36525) :
    civil (10957 + i + 1) = nextDay (civil (10957 + i)) := civil_succ_century i h

/-- open() applies `isYun` to the offset from 2000; on the offsets it passes (0..99) that is the
    Gregorian leap rule of the year 2000 + offset -/
theorem leap_rule_ok (y : Nat) (h : y < 100) : isYun y = isLeap (2000 + y) := isYun_is_leap y h

/-- date ↦ day number ↦ date is the identity on every date of the Gregorian calendar from 1970 on
    (structural; with `spec_inverse` this makes `civil` a bijection between day numbers and dates) -/
theorem spec_inverse_left (y m d : Nat) (hy : 1970 ≤ y) (hv : ValidDate y m d) :
    civil (daysFromCivil y m d) = ⟨y, m, d⟩ := civil_days y m d hy hv

/-- **for every day number** (not only the century, and without evaluation): `civil z` is a valid
    date and the next day number is the next date by the textbook rule.  With `civil 0 = 1970-01-01`
    this determines `civil` completely: the Spec *is* the proleptic Gregorian calendar. -/
theorem spec_day_by_day_all (z : Nat) :
    ValidDate (civil z).y (civil z).m (civil z).d ∧ civil (z + 1) = nextDay (civil z) :=
  ⟨(civil_day_by_day z).1, (civil_day_by_day z).2.2⟩

/-- `isYun` on the offset is the Gregorian rule of the year for **every** offset (2000 ≡ 0 mod 400) -/
theorem leap_rule_all (y : Nat) : isYun y = isLeap (y + 2000) := isYun_eq_isLeap y

/-! ## the specification: the calendar by counting days

  `gregorian z` = start at 1970-01-01 and apply the textbook next-day rule z times (month lengths,
  leap years: divisible by 4 and not by 100, or by 400); `weekdayIter z` = start at Thursday and
  step modulo 7.  This independent, obviously-right definition is what "the standard calendar" means
  here; Go's time package is only the oracle of tie B. -/

/-- the closed forms used everywhere else are the counted calendar — for ALL days (all years) -/
theorem calendar_by_counting (z : Nat) : civil z = gregorian z ∧ weekdayMon z = weekdayIter z :=
  ⟨civil_eq_gregorian z, weekdayMon_eq_iter z⟩

/-- days ↔ (y, m, d) are inverse bijections with respect to the counted calendar -/
theorem counting_inverse (z y m d : Nat) (hy : 1970 ≤ y) (hv : ValidDate y m d) :
    daysFromCivil (gregorian z).y (gregorian z).m (gregorian z).d = z ∧
    ValidDate (gregorian z).y (gregorian z).m (gregorian z).d ∧
    gregorian (daysFromCivil y m d) = ⟨y, m, d⟩ :=
  ⟨days_of_gregorian z, gregorian_valid z, gregorian_of_date y m d hy hv⟩

/-- specialised to the century where the code's table applies: the table entries and the
    date/weekday helpers, stated against the counted calendar -/
theorem helpers_agree_with_counted_calendar (t : Int) (h : InCentury t) :
    yyyymmdd t = some (specYmd (gregorian (dayOf t))) ∧ weekdayIdx t = some (weekdayIter (dayOf t)) := by
  rw [← civil_eq_gregorian, ← weekdayMon_eq_iter]
  exact ⟨yyyymmdd_eq t h, weekdayIdx_eq t h⟩

theorem table_is_counted_calendar (i : Nat) (h : i < 36525) :
    dateTable[i]? = some ⟨(gregorian (10957 + i)).y, (gregorian (10957 + i)).m, (gregorian (10957 + i)).d,
      weekdayIter (10957 + i), 946684800000 + (i : Int) * 86400000⟩ := by
  rw [← civil_eq_gregorian, ← weekdayMon_eq_iter]; exact dateTable_get i h

/-! ## the table built by open() -/

/-- **the algorithm of open() is the calendar, for any number of years** (structural: induction
    over the three loops + the calendar bijection; no evaluation).  Running the year loop for `n`
    years from the initial state yields, in order, exactly the Spec days from 2000-01-01 up to
    (but excluding) (2000+n)-01-01 — date, weekday index and start instant. -/
theorem open_is_calendar_any_years (n : Nat) :
    ∃ len, ((yearLoop n 0 St.init).1.map List.flatten).flatten = (List.range' 0 len).map specDay ∧
      10957 + len = daysFromCivil (2000 + n) 1 1 := open_loop_is_calendar n

/-- the century instance derived from the structural theorem alone; `table_is_calendar` below is the
    same statement obtained by kernel evaluation per year — two independent proofs -/
theorem table_is_calendar_structural : dateTable = (List.range' 0 36525).map specDay :=
  dateTable_eq_structural


/-- **table_is_calendar**: the 36 525 entries that open() stores in `dateTable`, in order, are
    exactly the days 2000-01-01 … 2099-12-31 of the Spec calendar — year, month, day, weekday
    index and start instant (one kernel evaluation per year, Golib.Cal.TableChunk0..3) -/
theorem table_is_calendar : dateTable = (List.range' 0 36525).map specDay := dateTable_eq

theorem table_entry (i : Nat) (h : i < 36525) :
    dateTable[i]? = some ⟨(civil (10957 + i)).y, (civil (10957 + i)).m, (civil (10957 + i)).d,
      weekdayMon (10957 + i), 946684800000 + (i : Int) * 86400000⟩ := dateTable_get i h

/-- the table ends there: index 36 525 is the first one that panics in Go -/
theorem table_length : dateTable.length = 36525 := dateTable_length

/-- `table[yyyy-2000][mm-1][dd-1]` is the entry of that date -/
theorem table_by_date (i : Nat) (h : i < 36525) :
    2000 ≤ (civil (10957 + i)).y ∧ (civil (10957 + i)).y ≤ 2099 ∧
    1 ≤ (civil (10957 + i)).m ∧ 1 ≤ (civil (10957 + i)).d ∧
    lookup3 table3 ((civil (10957 + i)).y - 2000) ((civil (10957 + i)).m - 1) ((civil (10957 + i)).d - 1)
      = some (specDay i) :=
  ⟨(specDay_year i h).1, (specDay_year i h).2, (civil_fields _).1, (civil_fields _).2.2.1, table3_get i h⟩

/-- **weekday_ok**: the weekday index stored for day `i` is the calendar weekday, which is
    `(i + 5) mod 7` counted from Saturday 2000-01-01 (index 5; 0 = Monday).
    The label of index 3 is spelled "Thr" by the library: a naming matter, the index agrees. -/
theorem weekday_ok (i : Nat) (h : i < 36525) :
    (dateTable[i]?).map Day.wd = some (weekdayMon (10957 + i)) ∧ weekdayMon (10957 + i) = (i + 5) % 7 := by
  refine ⟨by rw [dateTable_get i h]; rfl, ?_⟩
  simp only [weekdayMon]; omega

/-! ## time of day -/

/-- **intra_day**: the chain of `/` and `%` computes the unique (hh, mm, ss, sss) with
    hh < 24, mm < 60, ss < 60, sss < 1000 and ms = ((hh·60 + mm)·60 + ss)·1000 + sss -/
theorem intra_day (r : Nat) (h : r < 86400000) :
    let x := hmsOf r
    x.hh < 24 ∧ x.mm < 60 ∧ x.ss < 60 ∧ x.sss < 1000 ∧
    r = x.hh * 3600000 + x.mm * 60000 + x.ss * 1000 + x.sss := by
  intro x; simp only [x, hmsOf_eq]; exact specHMS_range r h

theorem intra_day_unique (r a b c d : Nat) (hb : b < 60) (hc : c < 60) (hd : d < 1000)
    (h : r = a * 3600000 + b * 60000 + c * 1000 + d) : hmsOf r = ⟨a, b, c, d⟩ := by
  rw [hmsOf_eq]; exact hms_unique r a b c d hb hc hd h

/-- the renderers are the fixed-width decimal digits on their ranges -/
theorem pads (n : Nat) : (n < 100 → mk2 n = render2 n ∧ pad0 2 n = render2 n) ∧
    (n < 1000 → mk3 n = render3 n ∧ pad0 3 n = render3 n) ∧ (n < 10000 → pad0 4 n = render4 n) :=
  ⟨fun h => ⟨mk2_eq n h, pad0_2_eq n h⟩, fun h => ⟨mk3_eq n h, pad0_3_eq n h⟩, pad0_4_eq n⟩

/-! ## the string helpers (**formats**) — each equals the rendering of the Spec calendar date of
    `t div day` and the decomposition of `t mod day`; in particular none panics in the century -/

theorem fmt_yyyymmdd (t : Int) (h : InCentury t) : yyyymmdd t = some (specYmd (civil (dayOf t))) :=
  yyyymmdd_eq t h

theorem fmt_weekday (t : Int) (h : InCentury t) :
    weekdayIdx t = some (weekdayMon (dayOf t)) ∧ weekdayMon (dayOf t) < 7 ∧
    weekday t = some (["Mon", "Tue", "Wed", "Thr", "Fri", "Sat", "Sun"].getD (weekdayMon (dayOf t)) "") ∧
    (∀ l, weekday t = some l → l ∈ ["Mon", "Tue", "Wed", "Thr", "Fri", "Sat", "Sun"]) := by
  have hlt : weekdayMon (dayOf t) < 7 := by simp only [weekdayMon]; omega
  refine ⟨weekdayIdx_eq t h, hlt, weekday_eq t h, ?_⟩
  intro l hl
  rw [weekday_eq t h] at hl
  have : ∀ k, k < 7 → wdayLabels.getD k "" ∈ ["Mon", "Tue", "Wed", "Thr", "Fri", "Sat", "Sun"] := by decide
  cases hl
  exact this _ hlt

theorem fmt_datetime (t : Int) (h : InCentury t) :
    datetime t = some (specYmd (civil (dayOf t)) ++ ' ' :: render2 (specHMS (msOfDay t)).hh ++ ':' ::
      render2 (specHMS (msOfDay t)).mm ++ ':' :: render2 (specHMS (msOfDay t)).ss) := datetime_eq t h

/-- millisecond timestamp, with the three-digit pad (the repaired code; see `finding_D40`) -/
theorem fmt_timestamp (t : Int) (h : InCentury t) :
    timestamp t = some (specYmd (civil (dayOf t)) ++ ' ' :: render2 (specHMS (msOfDay t)).hh ++ ':' ::
      render2 (specHMS (msOfDay t)).mm ++ ':' :: render2 (specHMS (msOfDay t)).ss ++ '.' ::
      render3 (specHMS (msOfDay t)).sss) := timestamp_eq t h

theorem fmt_logtime (t : Int) (h : InCentury t) :
    logtime t = render2 (specHMS (msOfDay t)).hh ++ ':' :: render2 (specHMS (msOfDay t)).mm ++ ':' ::
      render2 (specHMS (msOfDay t)).ss ++ '.' :: render3 (specHMS (msOfDay t)).sss := logtime_eq t h

theorem fmt_ymdhms (t : Int) (h : InCentury t) :
    ymdhms t = some (specYmd (civil (dayOf t)) ++ render2 (specHMS (msOfDay t)).hh ++
      render2 (specHMS (msOfDay t)).mm ++ render2 (specHMS (msOfDay t)).ss) := ymdhms_eq t h

theorem fmt_hhmmss (t : Int) (h : InCentury t) :
    hhmmss t = render2 (specHMS (msOfDay t)).hh ++ render2 (specHMS (msOfDay t)).mm ++
      render2 (specHMS (msOfDay t)).ss := hhmmss_eq t h

theorem fmt_hhmm (t : Int) (h : InCentury t) :
    hhmm t = render2 (specHMS (msOfDay t)).hh ++ render2 (specHMS (msOfDay t)).mm := hhmm_eq t h

/-- **finding_D40** — with the two-digit pad that `timestamp`/`logtime` use in the unchanged code,
    5 ms after midnight is printed ".05" (which reads as 50 ms), not ".005" -/
theorem finding_D40 :
    timestampWith mk2 946684800005 = some "20000101 00:00:00.05".toList ∧
    timestampWith mk2 946684800005 ≠ some "20000101 00:00:00.005".toList ∧
    timestamp 946684800005 = some "20000101 00:00:00.005".toList := by
  have h : InCentury 946684800005 := by decide
  rw [timestamp_eq _ h, timestampWith_eq _ h]
  decide

/-! ## unit functions (**units_step**) -/

theorem units_value (t : Int) (h : BASE_TIME ≤ t) :
    getDateUnit t = (t - BASE_TIME) / 86400000 ∧ getMinUnit t = (t - BASE_TIME) / 60000 ∧
    getFiveMinUnit t = (t - BASE_TIME) / 300000 :=
  ⟨dateUnit_eq t h, minUnit_eq t h, fiveMinUnit_eq t h⟩

/-- monotone; one step further is exactly one unit more; the value changes only at multiples
    of the step counted from the base instant -/
theorem units_step (t t' : Int) (h : BASE_TIME ≤ t) (htt : t ≤ t') :
    (getDateUnit t ≤ getDateUnit t' ∧ getDateUnit (t + 86400000) = getDateUnit t + 1 ∧
      getDateUnit (t + 1) = getDateUnit t + (if (t + 1 - BASE_TIME) % 86400000 = 0 then 1 else 0)) ∧
    (getMinUnit t ≤ getMinUnit t' ∧ getMinUnit (t + 60000) = getMinUnit t + 1 ∧
      getMinUnit (t + 1) = getMinUnit t + (if (t + 1 - BASE_TIME) % 60000 = 0 then 1 else 0)) ∧
    (getFiveMinUnit t ≤ getFiveMinUnit t' ∧ getFiveMinUnit (t + 300000) = getFiveMinUnit t + 1 ∧
      getFiveMinUnit (t + 1) = getFiveMinUnit t + (if (t + 1 - BASE_TIME) % 300000 = 0 then 1 else 0)) := by
  rw [dateUnit_eq t h, dateUnit_eq t' (by omega), dateUnit_eq (t + 86400000) (by omega),
    dateUnit_eq (t + 1) (by omega), minUnit_eq t h, minUnit_eq t' (by omega),
    minUnit_eq (t + 60000) (by omega), minUnit_eq (t + 1) (by omega), fiveMinUnit_eq t h,
    fiveMinUnit_eq t' (by omega), fiveMinUnit_eq (t + 300000) (by omega), fiveMinUnit_eq (t + 1) (by omega)]
  exact ⟨step_laws_day _ t t' htt, step_laws_min _ t t' htt, step_laws_5min _ t t' htt⟩

/-! ## date string → time (**ymd_inverse**) -/

theorem ymd_inverse (t : Int) (h : InCentury t) :
    (yyyymmdd t).bind getYmdTime = some (t - (t - BASE_TIME) % MILLIS_PER_DAY) := getYmdTime_yyyymmdd t h

/-! ## DateFormat: Parse ∘ format

  Full statement of the property (NOT a theorem of the code as it is — candidate defect D41):

      ∀ pat now t,  parse pat now (format pat (fieldsOf t)) = some (truncTo pat t)

  i.e. the instant truncated to the fields present in the pattern, whatever the clock shows.
  What holds: the characterisation `format_parse_now`; the property for patterns that contain
  all seven letters (`format_parse_partial`); the property if absent fields were filled with
  their least values instead of the clock (`format_parse_if_origin`); and a witness that the
  full statement fails (`finding_D41`). -/

/-- present fields come back from the text, absent ones are read from the clock.
    (Audit note: `dateToMs` works on naturals, so for a clock whose year is below 1970 its truncated
    subtraction would not be Go's arithmetic; the integer model `parseObj`/`dateToMsZ` has no such
    region — `obj_format_parse` is the statement without it, `obj_fresh` the bridge for calendar fields.) -/
theorem format_parse_now (pat : List Char) (now : Fields) (t : Nat) (h : t < 2900000 * MS_DAY) :
    parse pat now (format pat (fieldsOf t)) = some (dateToMs (merge pat (fieldsOf t) now)) :=
  parse_format pat now t h

/-- **format_parse_partial** — hypothesis: every field letter occurs in the pattern (any order,
    repetitions and any literal runes in between allowed).  Then Parse ∘ format is the identity
    on instants (for all instants before the year 9909, in particular the century). -/
theorem format_parse_partial (pat : List Char) (now : Fields) (t : Nat) (h : t < 2900000 * MS_DAY)
    (hall : ∀ c ∈ ['y', 'm', 'd', 'H', 'M', 'S', 's'], c ∈ pat) :
    parse pat now (format pat (fieldsOf t)) = some t := parse_format_all pat now t h hall

/-- with least values in place of the clock the full property would hold for every pattern -/
theorem format_parse_if_origin (pat : List Char) (t : Nat) (h : t < 2900000 * MS_DAY) :
    parse pat Fields.origin (format pat (fieldsOf t)) = some (truncTo pat t) :=
  parse_format_origin pat t h

/-- **finding_D41** — pattern "y-m-d", t = 2024-02-29T12:34:56.789Z, clock = 2026-09-29T00:33:54.141Z:
    the text is "2024-02-29", the parse gives 2024-02-29T00:33:54.141Z, the truncation is
    2024-02-29T00:00:00.000Z -/
theorem finding_D41 :
    format "y-m-d".toList (fieldsOf 1709210096789) = "2024-02-29".toList ∧
    parse "y-m-d".toList (fieldsOf 1790642034141) "2024-02-29".toList = some 1709166834141 ∧
    truncTo "y-m-d".toList 1709210096789 = 1709164800000 ∧
    ¬ (parse "y-m-d".toList (fieldsOf 1790642034141) (format "y-m-d".toList (fieldsOf 1709210096789))
        = some (truncTo "y-m-d".toList 1709210096789)) := by decide +kernel

/-- the statement of `format_parse_partial` quantifies over *every* pattern: letters may repeat
    ("yy" prints and reads the year twice), literal runes may be anything that is not one of the
    seven letters (digits, other letters, non-ASCII), in any position -/
example : ∀ c ∈ ['y', 'm', 'd', 'H', 'M', 'S', 's'], c ∈ "y년m월d일 H:M:S.s (y) 0Tx→m".toList := by decide
example : parse "yy-m-d H:M:S.s,s".toList Fields.origin
    (format "yy-m-d H:M:S.s,s".toList (fieldsOf 1709210096789)) = some 1709210096789 :=
  format_parse_partial _ _ _ (by decide) (by decide)

/-! ## the DateFormat object: signed fields, the map that survives between Parse calls -/

/-- `strconv.Atoi` as `ToInt` uses it: an optional sign is accepted, so a field text "-5" is -5 -/
theorem atoi_signs : atoiZ "-5".toList = some (-5) ∧ atoiZ "+7".toList = some 7 ∧ atoiZ "07".toList = some 7 ∧
    atoiZ "-".toList = none ∧ atoiZ "5-".toList = none ∧ atoiZ [] = none := by decide

/-- unsigned digit strings mean the same to the signed and the unsigned model -/
theorem atoi_unsigned (cs : List Char) (v : Nat) (h : atoiNat cs = some v) : atoiZ cs = some (v : Int) :=
  atoiZ_of_atoiNat cs v h

/-- Parse after format on an object with **any** prior map `st`: present letters from the text,
    absent letters from the map if it has them, else from the clock; afterwards the map is full -/
theorem obj_format_parse (st : PStateZ) (pat : List Char) (f now : Fields) (hf : FieldsOk f) :
    (parseObj st pat now (format pat f)).2 = some (dateToMsZ (mergeZ pat f st now)) ∧
    (parseObj st pat now (format pat f)).1.Full := parseObj_format st pat f now hf

/-- with all seven letters the identity holds on every object, fresh or reused -/
theorem obj_format_parse_all (st : PStateZ) (pat : List Char) (now : Fields) (t : Nat)
    (h1 : 365 * MS_DAY ≤ t) (h2 : t < 2900000 * MS_DAY)
    (hall : ∀ c ∈ ['y', 'm', 'd', 'H', 'M', 'S', 's'], c ∈ pat) :
    (parseObj st pat now (format pat (fieldsOf t))).2 = some (t : Int) :=
  parseObj_format_all st pat now t h1 h2 hall

/-- a fresh object is the model of the `format_parse_*` theorems -/
theorem obj_fresh (pat : List Char) (now : Fields) (t : Nat) (h1 : 365 * MS_DAY ≤ t)
    (h2 : t < 2900000 * MS_DAY) (hn : CalFields now) :
    (parseObj {} pat now (format pat (fieldsOf t))).2 = (parse pat now (format pat (fieldsOf t))).map Int.ofNat :=
  parseObj_fresh pat now t h1 h2 hn

/-- after any successful Parse the map holds all seven keys … -/
theorem obj_success_fills (st : PStateZ) (pat : List Char) (now : Fields) (inp : List Char)
    (h : (parseObj st pat now inp).2.isSome) : (parseObj st pat now inp).1.Full :=
  parseObj_success_full st pat now inp h

/-- … and on a full map the clock is never consulted: the result is the same for any two clock
    readings (absent fields are the ones stored by the earlier call) -/
theorem obj_reuse_ignores_clock (st : PStateZ) (pat : List Char) (f now₁ now₂ : Fields) (hf : FieldsOk f)
    (hfull : st.Full) :
    (parseObj st pat now₁ (format pat f)).2 = (parseObj st pat now₂ (format pat f)).2 :=
  parseObj_reuse st pat f now₁ now₂ hf hfull

/-- **finding_reuse** (same family as D41) — one object, pattern "y-m-d":
    Parse("2024-02-29") at 2026-09-29T00:33:54.141Z, then Parse("2025-03-01") a day and some hours
    later (2026-09-30T00:34:04.999Z): the second result is 2025-03-01T00:33:54.141Z — the time of
    day of the *first* call's clock, neither the truncation nor the second call's clock -/
theorem finding_reuse :
    parseHistory "y-m-d".toList {} [(fieldsOf 1790642034141, "2024-02-29".toList),
      (fieldsOf 1790728444999, "2025-03-01".toList)] = [some 1709166834141, some 1740789234141] ∧
    (1740789234141 : Int) ≠ 1740787200000 ∧
    (parseObj {} "y-m-d".toList (fieldsOf 1790728444999) "2025-03-01".toList).2 = some 1740789244999 := by
  decide +kernel

/-! ## whole histories on one DateFormat object -/

/-- splitting a history: the second part runs from the map the first part left -/
theorem obj_history_append (pat : List Char) (h1 h2 : List (Fields × List Char)) (st : PStateZ) :
    parseHistory pat st (h1 ++ h2) = parseHistory pat st h1 ++ parseHistory pat (stateAfter pat st h1) h2 :=
  parseHistory_append pat h1 h2 st

/-- all seven letters: after ANY earlier history (arbitrary texts, failing calls included — `st` is
    arbitrary) a run of calls on format outputs returns exactly the formatted instants -/
theorem obj_history_all (pat : List Char) (hall : ∀ c ∈ ['y', 'm', 'd', 'H', 'M', 'S', 's'], c ∈ pat)
    (calls : List (Fields × Nat)) (st : PStateZ)
    (hr : ∀ c ∈ calls, 365 * MS_DAY ≤ c.2 ∧ c.2 < 2900000 * MS_DAY) :
    parseHistory pat st (calls.map fun c => (c.1, format pat (fieldsOf c.2))) =
      calls.map fun c => some (c.2 : Int) := parseHistory_all pat hall calls st hr

/-- a full map (any earlier success): the call's result and the map it leaves do not depend on
    the clock, for ANY text … -/
theorem obj_full_clock_free (st : PStateZ) (pat : List Char) (now₁ now₂ : Fields) (inp : List Char)
    (h : st.Full) : parseObj st pat now₁ inp = parseObj st pat now₂ inp :=
  parseObj_full_clock_free st pat now₁ now₂ inp h

/-- … hence whole histories with the same texts and different clock readings agree call by call -/
theorem obj_history_clock_free (pat : List Char) (calls : List (Fields × Fields × List Char)) (st : PStateZ)
    (h : st.Full) :
    parseHistory pat st (calls.map fun c => (c.1, c.2.2)) = parseHistory pat st (calls.map fun c => (c.2.1, c.2.2)) :=
  parseHistory_clock_free pat calls st h

/-- the repair proposed for the reuse defect (map cleared on entry): every call of any history is a
    call on a fresh object -/
theorem obj_reset_history_fresh (pat : List Char) (calls : List (Fields × List Char)) (st : PStateZ) :
    parseHistoryReset pat st calls = calls.map fun c => (parseObj {} pat c.1 c.2).2 :=
  parseHistoryReset_fresh pat calls st

/-! ## the exported functions as a state machine (DateUtil.go): frame and purity over histories -/

/-- only SetDelta / SetServerTime change the package state -/
theorem pkg_frame (clock : Int) (s : Pkg) (c : Call) (h : c.isSetter = false) : (step clock s c).1 = s :=
  step_frame clock s c h

/-- at any position of any history — whatever calls came before, setters included, whatever the
    clock — an instant- or string-taking helper answers what it answers alone -/
theorem pkg_history_pure (h : List (Int × Call)) (s : Pkg) (k : Nat) (clock : Int) (c : Call) (a : Ans)
    (hk : h[k]? = some (clock, c)) (hp : pureAns c = some a) : (run s h)[k]? = some a :=
  run_pure h s k clock c a hk hp

/-- the clock-reading variants render SystemNow() + delta, delta being what the last setter left -/
theorem pkg_now_variants (h : List (Int × Call)) (s : Pkg) (clock : Int) :
    run s (h ++ [(clock, .timeStampNow)]) = run s h ++ [.str (timestamp (clock + (pkgAfter s h).delta))] ∧
    run s (h ++ [(clock, .ymdNow)]) = run s h ++ [.str (yyyymmdd (clock + (pkgAfter s h).delta))] ∧
    run s (h ++ [(clock, .dateUnitNow)]) = run s h ++ [.int (some (getDateUnit (clock + (pkgAfter s h).delta)))] ∧
    run s (h ++ [(clock, .now)]) = run s h ++ [.int (some (clock + (pkgAfter s h).delta))] := run_now h s clock

theorem pkg_setDelta (h : List (Int × Call)) (s : Pkg) (clock d : Int) :
    pkgAfter s (h ++ [(clock, .setDelta d)]) = ⟨d⟩ := pkgAfter_setDelta h s clock d

/-! ## DateFormat in a zone with constant offset (non-hour offsets included) -/

/-- format in the zone, Parse with time.Local in the same zone: identity on instants for patterns with
    all seven letters, on any object -/
theorem format_parse_fixed_offset (off : Int) (st : PStateZ) (pat : List Char) (now t : Nat)
    (h1 : 365 * (MS_DAY : Int) ≤ (t : Int) + off) (h2 : (t : Int) + off < 2900000 * (MS_DAY : Int))
    (hall : ∀ c ∈ ['y', 'm', 'd', 'H', 'M', 'S', 's'], c ∈ pat) :
    (parseObjIn off st pat now (formatIn off pat t)).2 = some (t : Int) :=
  parseObjIn_format_all off st pat now t h1 h2 hall

/-! ## non-vacuity -/

example : InCentury 946684800000 ∧ InCentury 4102444799999 ∧ ¬ InCentury 4102444800000 := by decide
example : (1709210096789 : Nat) < 2900000 * MS_DAY := by decide
example : ∀ c ∈ ['y', 'm', 'd', 'H', 'M', 'S', 's'], c ∈ "y-m-d H:M:S.s".toList := by decide
example : format "y-m-d H:M:S.s".toList (fieldsOf 1709210096789) = "2024-02-29 12:34:56.789".toList := by
  decide +kernel
example : hmsOf 45296789 = ⟨12, 34, 56, 789⟩ := by decide
example : parseHistory "ymdHMSs".toList {} ([(fieldsOf 1790642034141, 1709210096789), (Fields.origin, 946684800005)].map
    fun c => (c.1, format "ymdHMSs".toList (fieldsOf c.2))) = [some 1709210096789, some 946684800005] := by decide +kernel
example : ∀ c ∈ [(fieldsOf 1790642034141, (1709210096789 : Nat))], 365 * MS_DAY ≤ c.2 ∧ c.2 < 2900000 * MS_DAY := by decide +kernel
example : (Call.hhmm 5).isSetter = false ∧ pureAns (.hhmm 946684800000) = some (.str (some "0000".toList)) := by decide +kernel
example : gregorian 59 = ⟨1970, 3, 1⟩ ∧ weekdayIter 4 = 0 := by decide +kernel
example : formatIn 20700000 "y-m-d H:M:S.s".toList 1709210096789 = "2024-02-29 18:19:56.789".toList := by decide +kernel
example : run ⟨0⟩ [(1000, .setDelta 946684799000), (1005, .now), (2000, .hhmm 946684800000)] =
    [.unit, .int (some 946684800005), .str (some "0000".toList)] := by decide +kernel
example : ValidDate 2024 2 29 ∧ ¬ ValidDate 2023 2 29 ∧ ¬ ValidDate 2100 2 29 := by decide
example : (365 * MS_DAY ≤ 1709210096789) ∧ CalFields (fieldsOf 1790642034141) := by decide +kernel
example : (PStateZ.fill {} (fieldsOf 1790642034141)).Full := fill_full _ _
example : FieldsOk (fieldsOf 1709210096789) := fieldsOf_ok' _ (by decide)

/-! ## the exported field primitives `LPadInt` / `ToInt`, and what a literal is -/

/-- the exported `LPadInt` on a non-negative value and width is the `pad0` the format model is built from -/
theorem lpadInt_nonneg (n w : Nat) : lpadInt (n : Int) (w : Int) = pad0 w n := by
  have h1 : itoaZ (n : Int) = itoa n := by simp [itoaZ]
  unfold lpadInt pad0
  simp only [h1]
  split
  · rename_i h
    have : w - (itoa n).length = 0 := by omega
    simp [this]
  · rename_i h
    have : ((w : Int) - ((itoa n).length : Int)).toNat = w - (itoa n).length := by omega
    rw [this]

/-- **`LPadInt` and `ToInt` are inverse on every field**: what `format` writes for a field of width 2, 3 or 4
    (`LPadInt(v, w)`, v below 10^w) is read back by `ToInt(r, w)` as `v`, leaving exactly the rest of the text —
    whatever follows (arbitrary trailing runes) -/
theorem lpad_toInt_inverse (w n : Nat) (rest : List Char)
    (h : (w = 2 ∧ n < 100) ∨ (w = 3 ∧ n < 1000) ∨ (w = 4 ∧ n < 10000)) :
    toIntZ (lpadInt (n : Int) (w : Int) ++ rest) w = some ((n : Int), rest) := by
  rw [lpadInt_nonneg]
  apply toIntZ_of_toInt
  rcases h with ⟨rfl, h⟩ | ⟨rfl, h⟩ | ⟨rfl, h⟩
  · rw [pad0_2_eq n h]; exact toInt_render n 2 _ rest rfl (by omega) (atoi_render2 n h)
  · rw [pad0_3_eq n h]; exact toInt_render n 3 _ rest rfl (by omega) (atoi_render3 n h)
  · rw [pad0_4_eq n h]; exact toInt_render n 4 _ rest rfl (by omega) (atoi_render4 n h)

/-- "patterns composed of the supported field letters and literal separators": the field letters are exactly
    y m d H M S s — -/
theorem field_letters_exactly (c : Char) :
    (letterWidth c).isSome = true ↔ c ∈ ['y', 'm', 'd', 'H', 'M', 'S', 's'] := letterWidth_isSome c

/-- — and **every other rune is a literal**, whichever it is (apostrophe, backslash, percent, digit, another letter,
    non-ASCII): `format` copies it and goes on, `Parse` (while the index is inside the text) skips one rune of the
    input and goes on, with the field map untouched.  No rune quotes, escapes or repeats anything. -/
theorem literal_rune (c : Char) (hc : c ∉ ['y', 'm', 'd', 'H', 'M', 'S', 's']) (f : Fields)
    (sz i : Nat) (pat inp : List Char) (p : PStateZ) (hi : i < sz) :
    format (c :: pat) f = c :: format pat f ∧
    parseLoopZ sz (c :: pat) i inp p = parseLoopZ sz pat (i + 1) (inp.drop 1) p := by
  have hn : letterWidth c = none := by
    cases h : letterWidth c with
    | none => rfl
    | some w => exact absurd ((letterWidth_isSome c).mp (by simp [h])) hc
  constructor
  · simp [format, List.flatMap_cons, fmtRune, hn]
  · simp [parseLoopZ, hn, Nat.not_le.mpr hi]

/-- `LPadInt` outside the range `format` uses it in: the sign of a negative value ends up behind the padding, a text
    longer than the width is not cut, a negative width pads nothing (observations, compared by stage M) -/
example : lpadInt (-5) 3 = "0-5".toList ∧ lpadInt 12345 2 = "12345".toList ∧ lpadInt 7 (-1) = "7".toList := by decide

/-- the apostrophe, the backslash and the percent sign are literals like any other: the round trip holds with them
    between, around and after the field letters (the pattern of a quoted-literal dialect, read literally) -/
example : parse "y-m-d'T'H:M:S.s'".toList Fields.origin
    (format "y-m-d'T'H:M:S.s'".toList (fieldsOf 1709210096789)) = some 1709210096789 :=
  format_parse_partial _ _ _ (by decide) (by decide)
example : format "H'M\\S%s".toList (fieldsOf 1709210096789) = "12'34\\56%789".toList := by decide
example : toIntZ (lpadInt 45 3 ++ "rest".toList) 3 = some (45, "rest".toList) := lpad_toInt_inverse 3 45 _ (by omega)
example : 'T' ∉ ['y', 'm', 'd', 'H', 'M', 'S', 's'] ∧ '\'' ∉ ['y', 'm', 'd', 'H', 'M', 'S', 's'] := by decide

end C19
