/-
  Property C01 — primitive stream codec is lossless, canonical and big-endian.

  Statements only; every proof is a reference to a lemma of Golib.Prim.*.
  The model (`Prim.writeOp`, `Prim.readOp`, …) is tied to /repo/io by the
  correspondence harness `harness/c01` and by the regenerated facts of
  `Golib.Gen.C01` (see Golib/Props/C01Gen.lean).
-/
import Golib.Prim.Extra
import Golib.Prim.Stream
import Golib.Prim.Api

namespace C01
open Prim

/-- every fixed-width signed field: `w` bytes, big-endian two's complement, round trip -/
theorem be_roundtrip (w : Nat) (v : Int) (h : inRange w v) : decI w (encI w v) = v :=
  decI_encI w v h

/-- the encoding is exactly `w` bytes, each a byte -/
theorem be_bytes (w : Nat) (v : Int) : WFB (encI w v) ∧ (encI w v).length = w :=
  ⟨encI_WFB w v, encI_length w v⟩

/-- big-endian: the first byte is the most significant (value = Σ bᵢ·256^(w-1-i)) and the
    encoding is canonical: any `w` bytes are the encoding of the value they decode to -/
theorem be_canonical (bs : Bytes) (h : WFB bs) : encI bs.length (decI bs.length bs) = bs :=
  encI_decI bs h

theorem be_most_significant_first (b : Nat) (bs : Bytes) :
    unbeN (b :: bs) = b * 256 ^ bs.length + unbeN bs := rfl

theorem decimal_roundtrip (v : Int) (r : Bytes) (h : inRange 8 v) :
    P.run decDecimal (encDecimal v ++ r) = some (v, r) := run_decDecimal v r h

/-- the decimal uses the shortest of its 0/1/2/3/4/5/8-byte forms that holds the value -/
theorem decimal_shortest (v : Int) (h : inRange 8 v) :
    (encDecimal v).length = 1 + leastClass v ∧ (encDecimal v).headD 0 = leastClass v ∧
    fits (leastClass v) v ∧
    ∀ c ∈ [0, 1, 2, 3, 4, 5, 8], c < leastClass v → ¬ fits c v :=
  ⟨encDecimal_length v, encDecimal_head v, leastClass_fits v h, fun c hc hlt => leastClass_least v c hc hlt⟩

theorem blob_roundtrip (bs r : Bytes) (h : bs.length < 2147483648) :
    P.run decBlob (encBlob bs ++ r) = some (bs, r) := run_decBlob bs r h

theorem blob_prefix_len (bs : Bytes) :
    (encBlob bs).length =
      bs.length + (if bs.length ≤ 253 then 1 else if bs.length ≤ 65535 then 3 else 5) :=
  encBlob_length bs

theorem op_roundtrip (op : Op) (r : Bytes) (h : WFOp op) :
    P.run (readOp op) (writeOp op ++ r) = some (op, r) := Prim.op_roundtrip op r h

/-- any program of mixed writes is read back identically, in order, consuming exactly
    the bytes produced -/
theorem program_roundtrip (ops : List Op) (h : ∀ op ∈ ops, WFOp op) :
    P.run (readAll ops) (writeAll ops) = some (ops, []) := by
  have := Prim.program_roundtrip ops [] h
  simpa using this

/-- … and whatever follows the program's bytes is left untouched -/
theorem program_roundtrip_rest (ops : List Op) (r : Bytes) (h : ∀ op ∈ ops, WFOp op) :
    P.run (readAll ops) (writeAll ops ++ r) = some (ops, r) := Prim.program_roundtrip ops r h

/-- the stream's reported size equals the number of bytes produced -/
theorem size_is_length (ops : List Op) :
    (Writer.exec ops).buf = writeAll ops ∧ (Writer.exec ops).written = (writeAll ops).length := by
  have := Writer.foldl_spec ops Writer.empty
  simpa [Writer.exec, Writer.empty, Writer.buf] using this

/-- floats travel as the big-endian form of their IEEE-754 bit pattern, so every NaN
    payload survives -/
theorem float_bits (b : Nat) (r : Bytes) (h : b < 4294967296) :
    writeOp (.float b) = beN 4 b ∧ P.run (readOp (.float 0)) (writeOp (.float b) ++ r) = some (.float b, r) :=
  ⟨rfl, Prim.op_roundtrip (.float b) r h⟩

theorem double_bits (b : Nat) (r : Bytes) (h : b < 18446744073709551616) :
    writeOp (.double b) = beN 8 b ∧ P.run (readOp (.double 0)) (writeOp (.double b) ++ r) = some (.double b, r) :=
  ⟨rfl, Prim.op_roundtrip (.double b) r h⟩

/-- the little-endian read helpers decode the byte-reversed layout of the same widths -/
theorem little_endian_signed (w : Nat) (v : Int) (r : Bytes) (h : inRange w v) :
    P.run (rdILittle w) ((encI w v).reverse ++ r) = some (v, r) := run_rdILittle w v r h

theorem little_endian_unsigned (w n : Nat) (r : Bytes) (h : n < 256 ^ w) :
    P.run (rdULittle w) ((beN w n).reverse ++ r) = some (n, r) := run_rdULittle w n r h

/-- the error side is not totalised away: an array longer than the signed 16-bit count can
    represent is rejected by the reader -/
theorem array_too_long_rejected {α : Type} (enc : α → Bytes) (dec : P α) (xs : List α) (r : Bytes)
    (h1 : 32767 < xs.length) (h2 : xs.length ≤ 65535) :
    P.run (decArr dec) (encArr enc xs ++ r) = none := decArr_too_long enc dec xs r h1 h2

/-- a strict prefix of a program's bytes never reads back (from `P.prefix_fails`) -/
theorem program_prefix_fails (ops : List Op) (q s : Bytes) (h : ∀ op ∈ ops, WFOp op)
    (hs : s ≠ []) (hq : q ++ s = writeAll ops) : P.run (readAll ops) q = none :=
  P.prefix_fails (readAll ops) q s ops hs (by rw [hq]; exact program_roundtrip ops h)

/-! ### the rest of the stream API (Golib.Prim.Extra) -/

/-- `ReadUnsignedShort` / `ReadUnsignedInt` over a signed write return the two's-complement pattern -/
theorem unsigned_read_of_signed_write (w : Nat) (v : Int) (r : Bytes) :
    P.run (rdU w) (encI w v ++ r) = some (toU w v, r) := run_rdU_encI w v r

/-- `ReadByte` followed by `ReadDecimalLen(b)` is `ReadDecimal` (the pack header relies on it) -/
theorem decimal_two_step (bs : Bytes) :
    P.run decDecimal bs = P.run (P.bind (rdU 1) (fun b => decDecimalLen b)) bs := decDecimal_two_step bs

theorem int_bytes_limit_roundtrip (max : Nat) (bs r : Bytes) (h : bs.length ≤ max) (hm : max < 2147483648) :
    P.run (decBytes32Limit max) (encBytes32 bs ++ r) = some (bs, r) := run_decBytes32Limit max bs r h hm

theorem int_bytes_limit_rejects (max : Nat) (bs r : Bytes) (h : max < bs.length) (hl : bs.length < 2147483648) :
    P.run (decBytes32Limit max) (encBytes32 bs ++ r) = none := decBytes32Limit_rejects max bs r h hl

theorem decimal_array_roundtrip (xs : List Int) (r : Bytes) (hl : xs.length < 2147483648)
    (h : ∀ x ∈ xs, inRange 8 x) : P.run decDecArr (encDecArr xs ++ r) = some (xs, r) :=
  run_decDecArr xs r hl h

theorem decimal_array_int_roundtrip (xs : List Int) (r : Bytes) (hl : xs.length < 2147483648)
    (h : ∀ x ∈ xs, inRange 4 x) : P.run decDecArrInt (encDecArr xs ++ r) = some (xs, r) :=
  run_decDecArrInt xs r hl h

/-- `WriteHeader` turns whatever was written into the int-length payload of a frame
    `[src, ver] ++ be8 pcode ++ be8 licenseHash ++ be4 |payload| ++ payload`, and `Size()` is again the
    number of bytes in the buffer -/
theorem header_layout (w : Writer) (src ver : Nat) (pcode lic : Int) :
    (w.header src ver pcode lic).buf =
      writeAll [.byte src, .byte ver, .long pcode, .long lic, .intBytes w.buf] ∧
    (w.header src ver pcode lic).written = (w.header src ver pcode lic).buf.length :=
  Writer.header_spec w src ver pcode lic

theorem secure_header_layout (w : Writer) (src ver : Nat) (pcode oid key : Int) :
    (w.secureHeader src ver pcode oid key).buf =
      writeAll [.byte src, .byte ver, .long pcode, .int oid, .int key, .intBytes w.buf] ∧
    (w.secureHeader src ver pcode oid key).written = (w.secureHeader src ver pcode oid key).buf.length :=
  Writer.secureHeader_spec w src ver pcode oid key

/-- `Write(b, off, sz)` appends exactly the window `b[off : off+sz]` and adds `sz` to `Size()` -/
theorem write_window (w : Writer) (b : Bytes) (off sz : Nat) (h : off + sz ≤ b.length) :
    (w.window b off sz).buf = w.buf ++ (b.drop off).take sz ∧
    (w.window b off sz).written = w.written + sz := Writer.window_spec w b off sz h

theorem header_roundtrip (w : Writer) (src ver : Nat) (pcode lic : Int) (r : Bytes)
    (hs : src < 256) (hv : ver < 256) (hp : inRange 8 pcode) (hl : inRange 8 lic)
    (hb : w.buf.length < 2147483648) :
    P.run (readAll [.byte 0, .byte 0, .long 0, .long 0, .intBytes []])
      ((w.header src ver pcode lic).buf ++ r) =
      some ([.byte src, .byte ver, .long pcode, .long lic, .intBytes w.buf], r) :=
  Prim.header_roundtrip w src ver pcode lic r hs hv hp hl hb

/-! ### the connection-backed input (NewDataInputNet): fragmentation is invisible -/

/-- the loop of `ReadBytes` on a connection returns exactly the next `n` bytes of the stream and
    leaves the rest of the stream to arrive, however the stream is cut into reads (a read may
    return any number of bytes from 0 to what is asked for) -/
theorem conn_read_bytes (n : Nat) (fs : List Bytes) (h : n ≤ fs.flatten.length) :
    ∃ r, Prim.Stream.readN n fs = some (fs.flatten.take n, r) ∧ r.flatten = fs.flatten.drop n :=
  Prim.Stream.readN_some n fs h

/-- … and reports the read error when the stream ends first -/
theorem conn_read_bytes_eof (n : Nat) (fs : List Bytes) (h : fs.flatten.length < n) :
    Prim.Stream.readN n fs = none := Prim.Stream.readN_none n fs h

/-- every decoder over a connection is the same decoder over the concatenated bytes -/
theorem conn_decoder_is_flat_decoder {α : Type} (p : P α) (fs : List Bytes) :
    (P.runC p fs).map (fun x => (x.1, x.2.flatten)) = P.run p fs.flatten := P.runC_iff p fs

/-- any program of mixed writes, delivered over a connection in fragments of any sizes (a field
    may be split over any number of fragments), is read back identically and in order, and what
    is left to arrive is exactly what followed the program's bytes -/
theorem program_roundtrip_stream (ops : List Op) (fs : List Bytes) (rest : Bytes)
    (h : ∀ op ∈ ops, WFOp op) (hf : fs.flatten = writeAll ops ++ rest) :
    ∃ r, P.runC (readAll ops) fs = some (ops, r) ∧ r.flatten = rest :=
  P.runC_of_run (readAll ops) fs ops rest (by rw [hf]; exact Prim.program_roundtrip ops rest h)

/-- a connection that ends inside the program's bytes makes the read fail (never a short value) -/
theorem program_stream_truncated_fails (ops : List Op) (fs : List Bytes) (s : Bytes)
    (h : ∀ op ∈ ops, WFOp op) (hs : s ≠ []) (hq : fs.flatten ++ s = writeAll ops) :
    P.runC (readAll ops) fs = none :=
  P.runC_none_of_run (readAll ops) fs (program_prefix_fails ops fs.flatten s h hs hq)

/-! ### fourth round: the rest of the exported API (Golib.Prim.Api), statements at full strength -/

/-- lossless in the strongest sense: two programs of the same reads whose bytes (followed by
    anything) are equal are the same program followed by the same thing — no two values of a type
    share an encoding, and no encoding is a prefix of another -/
theorem encode_injective (ops₁ ops₂ : List Op) (r₁ r₂ : Bytes)
    (h₁ : ∀ op ∈ ops₁, WFOp op) (h₂ : ∀ op ∈ ops₂, WFOp op)
    (hk : readAll ops₁ = readAll ops₂) (he : writeAll ops₁ ++ r₁ = writeAll ops₂ ++ r₂) :
    ops₁ = ops₂ ∧ r₁ = r₂ := by
  have a := Prim.program_roundtrip ops₁ r₁ h₁
  have b := Prim.program_roundtrip ops₂ r₂ h₂
  rw [hk, he, b] at a
  simp only [Option.some.injEq, Prod.mk.injEq] at a
  exact ⟨a.1.symm, a.2.symm⟩

/-- `Available()` after a program was read is what followed the program: consumed + available =
    size, for *every* decoder and every input on which it succeeds -/
theorem available_is_rest {α : Type} (p : P α) (bs : Bytes) (v : α) (r : Bytes)
    (h : P.run p bs = some (v, r)) : ∃ consumed, bs = consumed ++ r ∧ r.length = bs.length - consumed.length := by
  obtain ⟨a, ha, _⟩ := P.locality p bs v r h
  exact ⟨a, ha, by rw [ha]; simp⟩

/-- the decimal's length byte names the least class and nothing else: iff -/
theorem decimal_length_iff (v : Int) (c : Nat) :
    (encDecimal v).length = 1 + c ↔ c = leastClass v := by
  rw [encDecimal_length]; omega

/-- `ReadBytes(sz)`: succeeds exactly when `0 ≤ sz ≤ available`, returns exactly the next `sz`
    bytes and leaves exactly the rest (iff; the size is signed in the Go code) -/
theorem read_bytes_iff (sz : Int) (bs out r : Bytes) :
    P.run (rdBytesI sz) bs = some (out, r) ↔
      0 ≤ sz ∧ sz ≤ (bs.length : Int) ∧ out = bs.take sz.toNat ∧ r = bs.drop sz.toNat :=
  run_rdBytesI_iff sz bs out r

/-- `WriteBytes(b)` then `ReadBytes(len b)` is the identity, whatever follows -/
theorem raw_bytes_roundtrip (b r : Bytes) :
    P.run (rdBytesI b.length) (b ++ r) = some (b, r) := by
  rw [read_bytes_iff]
  refine ⟨by omega, by rw [List.length_append]; omega, by simp, by simp⟩

/-- `CheckCount(count, minBytes)` passes exactly when `count` elements of `minBytes` bytes fit -/
theorem check_count_iff (count : Int) (mb avail : Nat) (hmb : 1 ≤ mb) :
    checkCount count mb avail = true ↔ 0 ≤ count ∧ count.toNat * mb ≤ avail :=
  checkCount_iff count mb avail hmb

/-- **the guard is invisible.**  On every input — well formed, truncated or garbage — each typed
    array read *with* its `CheckCount` (as the Go code runs it on a byte slice) is the model's
    array read without it: the guard rejects only what the element reads would reject anyway.
    So `op_roundtrip`/`program_roundtrip` speak about the guarded code as well. -/
theorem check_count_invisible (bs : Bytes) :
    runArrGuarded (rdI 2) 2 bs = P.run (decArr (rdI 2)) bs ∧
    runArrGuarded (rdI 4) 4 bs = P.run (decArr (rdI 4)) bs ∧
    runArrGuarded (rdI 8) 8 bs = P.run (decArr (rdI 8)) bs ∧
    runArrGuarded (rdU 4) 4 bs = P.run (decArr (rdU 4)) bs ∧
    runArrGuarded (rdU 8) 8 bs = P.run (decArr (rdU 8)) bs ∧
    runArrGuarded decBlob 1 bs = P.run (decArr decBlob) bs ∧
    runDecArrGuarded bs = P.run decDecArr bs :=
  ⟨runArrGuarded_eq _ 2 (by omega) (consumes_rdI 2) bs, runArrGuarded_eq _ 4 (by omega) (consumes_rdI 4) bs,
   runArrGuarded_eq _ 8 (by omega) (consumes_rdI 8) bs, runArrGuarded_eq _ 4 (by omega) (consumes_rdU 4) bs,
   runArrGuarded_eq _ 8 (by omega) (consumes_rdU 8) bs, runArrGuarded_eq _ 1 (by omega) consumes_decBlob bs,
   runDecArrGuarded_eq consumes_decDecimal bs⟩

/-- a guarded array read of what the array writer produced returns the array (the guard never
    rejects a well-formed array) -/
theorem guarded_array_roundtrip (xs : List Int) (r : Bytes) (hl : xs.length ≤ 32767)
    (h : ∀ x ∈ xs, inRange 4 x) :
    runArrGuarded (rdI 4) 4 (encArr (encI 4) xs ++ r) = some (xs, r) := by
  rw [(check_count_invisible _).2.1]
  exact run_decArr _ _ _ (fun x r hx => run_rdI 4 x r hx) xs r hl h

/-- `ToX(buf, pos)`: a field embedded at any offset reads as the field itself (signed, unsigned,
    little-endian), whatever stands before and behind it -/
theorem field_at_offset (w : Nat) (v : Int) (pre suf : Bytes) (h : inRange w v) :
    fieldI w (pre ++ encI w v ++ suf) pre.length = some v ∧
    fieldU w (pre ++ encI w v ++ suf) pre.length = some (toU w v) ∧
    fieldILittle w (pre ++ (encI w v).reverse ++ suf) pre.length = some v := by
  have e1 := getAt_embedded pre (encI w v) suf
  have e2 := getAt_embedded pre (encI w v).reverse suf
  rw [encI_length] at e1
  rw [List.length_reverse, encI_length] at e2
  refine ⟨?_, ?_, ?_⟩
  · simp only [fieldI, e1, Option.map_some, decI_encI w v h]
  · simp only [fieldU, e1, Option.map_some]
    congr 1
    exact unbeN_beN_of_lt w (toU w v) (toU_lt w v)
  · simp only [fieldILittle, e2, Option.map_some, decILittle_reverse_encI w v h]

/-- `ToBool(buf, pos)` reads back what `SetBytesBool`/`ToBytesBool` packed at that offset (it is
    `byte != 0`; `ReadBool` on a stream is `byte == 1`; the writers emit only 0 and 1) -/
theorem bool_field (b : Bool) (pre suf : Bytes) :
    fieldBool (pre ++ encBool b ++ suf) pre.length = some b := by
  have e := getAt_embedded pre (encBool b) suf
  have l : (encBool b).length = 1 := rfl
  rw [l] at e
  simp only [fieldBool, e, Option.map_some]
  cases b <;> rfl

/-- `Get(buf, pos, sz)` is the window, and fails exactly when the window leaves the buffer -/
theorem get_window (buf : Bytes) (pos sz : Nat) :
    (getAt buf pos sz = none ↔ buf.length < pos + sz) ∧
    (∀ out, getAt buf pos sz = some out → out = (buf.drop pos).take sz ∧ out.length = sz) := by
  unfold getAt
  constructor
  · by_cases h : pos + sz ≤ buf.length
    · rw [if_pos h]; constructor
      · intro h'; cases h'
      · intro h'; omega
    · rw [if_neg h]; constructor
      · intro _; omega
      · intro _; rfl
  · intro out h
    by_cases hl : pos + sz ≤ buf.length
    · rw [if_pos hl] at h
      simp only [Option.some.injEq] at h
      subst h
      exact ⟨rfl, by rw [List.length_take, List.length_drop]; omega⟩
    · rw [if_neg hl] at h; cases h

/-- `SetBytesX(buf, off, v)`: the buffer keeps its length, the field reads back as `v` at `off`, and
    every byte before and behind the field is untouched (frame condition) -/
theorem set_bytes_frame (w : Nat) (v : Int) (buf out : Bytes) (off : Nat) (hv : inRange w v)
    (h : setAt buf off (encI w v) = some out) :
    out.length = buf.length ∧ fieldI w out off = some v ∧
    out.take off = buf.take off ∧ out.drop (off + w) = buf.drop (off + w) := by
  have s := setAt_spec buf off (encI w v) out h
  rw [encI_length] at s
  exact ⟨s.1, by simp [fieldI, s.2.1, decI_encI w v hv], s.2.2.1, s.2.2.2⟩

/-- … and it fails (index out of range) exactly when the field does not fit -/
theorem set_bytes_fails_iff (buf : Bytes) (off : Nat) (bs : Bytes) :
    setAt buf off bs = none ↔ buf.length < off + bs.length := by
  unfold setAt
  by_cases h : off + bs.length ≤ buf.length
  · rw [if_pos h]; constructor
    · intro h'; cases h'
    · intro h'; omega
  · rw [if_neg h]; constructor
    · intro _; omega
    · intro _; rfl

/-- **every history of one output stream** — typed writes, `WriteBytes`, `Write(b,off,sz)` and the
    three frame headers in any order and any number — refines the abstract specification
    `foldl specStep`: the buffer is the specified byte string and `Size()` is its length after
    every step (a header wraps what was written so far, and writing goes on behind it) -/
theorem writer_history (h : List WStep) (hs : ∀ s ∈ h, s.ok) :
    (h.foldl Writer.step Writer.empty).buf = h.foldl specStep [] ∧
    (h.foldl Writer.step Writer.empty).written = (h.foldl Writer.step Writer.empty).buf.length :=
  Writer.history_spec h Writer.empty hs rfl

/-! non-vacuity: concrete non-trivial programs meet the hypotheses -/
example : (∀ s ∈ [WStep.op (.decimal 300), .window [1, 2, 3, 4] 1 2, .header 7 1 5 (-1), .bytes [9]], s.ok) ∧
    ([WStep.op (.decimal 300), .window [1, 2, 3, 4] 1 2, .header 7 1 5 (-1), .bytes [9]].foldl specStep []).length = 28 := by
  constructor
  · intro s h
    simp only [List.mem_cons, List.mem_nil_iff, or_false] at h
    rcases h with rfl | rfl | rfl | rfl <;> simp [WStep.ok]
  · decide
example : readAll [Op.int 5, .text [1]] = readAll [Op.int (-7), .text []] := rfl
example : checkCount 3 4 12 = true ∧ checkCount 3 4 11 = false ∧ checkCount (-1) 4 100 = false ∧
    checkCount 5 0 5 = true := by decide
-- a count that the guard rejects, and the unguarded read fails on the same bytes
example : runArrGuarded (rdI 4) 4 [0, 2, 0, 0, 0, 1, 0, 0] = none ∧
    P.run (decArr (rdI 4)) [0, 2, 0, 0, 0, 1, 0, 0] = none := by decide
example : setAt [9, 9, 9, 9, 9] 1 (encI 2 (-2)) = some [9, 255, 254, 9, 9] := by decide
example : fieldI 3 [7, 255, 255, 254, 7] 1 = some (-2) ∧ fieldI 3 [7, 255, 255] 1 = none := by decide
example : P.run (rdBytesI (-1)) [1, 2] = none ∧ P.run (rdBytesI 3) [1, 2] = none ∧
    P.run (rdBytesI 2) [1, 2, 3] = some ([1, 2], [3]) := by decide

example : ∀ op ∈ [Op.decimal (-129), .blob [1, 2, 3], .shortArr [1, -2], .text []],
    WFOp op := by
  intro op h
  simp only [List.mem_cons, List.mem_nil_iff, or_false] at h
  rcases h with rfl | rfl | rfl | rfl <;> simp [WFOp, inRange_8, inRange_2]

example : WFOp (.blob (List.replicate 254 7)) := by
  show (List.replicate 254 7).length < 2147483648
  rw [List.length_replicate]; decide

example : encDecimal (-129) = [2, 255, 127] := by decide
example : encDecimal 8388608 = [4, 0, 128, 0, 0] := by decide
example : (encBlob (List.replicate 254 7)).take 3 = [255, 0, 254] := by decide +kernel
example : P.run decDecimal [1, 255] = some (-1, []) := by decide
-- a decimal split over three reads, one of them empty, with a byte of the next message behind it
example : P.runC decDecimal [[2], [], [255], [127, 9]] = some (-129, [[9]]) := by decide
example : P.runC decDecimal [[2], [255]] = none := by decide

end C01
