/-
  Property C10 — shared collections are linearizable, race-free and never self-deadlock.

  Statements only; every proof is a reference to a lemma of Golib.Conc.*.

  The proof core is the generic *mutex object* machine (Golib/Conc/Mutex.lean): threads are
  natural numbers (any number of goroutines), a schedule is an arbitrary list of micro-actions
  (any interleaving), and the body of an operation is split into `load` (take a snapshot of the
  shared state) and `store` (write back the result of the sequential `step`), so that atomicity is
  a *consequence* of holding the lock, not an assumption.  The theorems hold for every sequential
  object `step : σ → Op → σ × Ret`; below they are instantiated with the sequential specs of the
  hash maps/sets, the linked list and the request queues (Golib/Conc/SeqSpec.lean).

  What justifies using this machine for a given Go method is the regenerated lock table
  (Golib/Gen/Locks.lean, obligations in Golib/Props/C10Gen.lean): the method takes the instance
  lock first thing, releases it by `defer`, touches shared fields only in between, and never
  reaches a method that takes the lock again.  The Go memory model and `sync.Mutex` are assumptions
  (a release happens-before the next acquire; the mutex is not re-entrant).
-/
import Golib.Conc.WellNested
import Golib.Conc.Racy
import Golib.Conc.Lockset
import Golib.Conc.SeqSpecThms

namespace C10
open Conc

variable {σ Op Ret : Type} (step : σ → Op → σ × Ret)

/-- **mutex_linearizable.**  For every number of threads, every program and every schedule: in the
    state reached, the event log is well nested per thread (each linearization point lies between
    the operation's invocation and its response, and the response carries the value computed at
    the linearization point), the values are those of the sequential object replayed in
    linearization order, and the shared state is the result of that replay. -/
theorem mutex_linearizable (init : σ) (sched : List (Act Op)) (s : St σ Op Ret)
    (h : runActs step (initSt init) sched = some s) :
    wn s.log ∧ retsOk step init s.log ∧ s.sh = seqState step init s.log :=
  Conc.mutex_linearizable step init sched s h

/-- the same in Herlihy–Wing form: the chronological list of linearization points is a legal
    sequential history of the object and the shared state is its final state -/
theorem mutex_herlihy_wing (init : σ) (sched : List (Act Op)) (s : St σ Op Ret)
    (h : runActs step (initSt init) sched = some s) :
    wn s.log ∧ legal step (linOps s.log) init ∧ s.sh = runOps step (linOps s.log) init :=
  Conc.mutex_herlihy_wing step init sched s h

/-- every response is explained by a linearization point of the same thread, same operation, same
    value, that lies after the matching invocation (history oldest first) -/
theorem response_matches_linearization (init : σ) (sched : List (Act Op)) (s : St σ Op Ret)
    (h : runActs step (initSt init) sched = some s)
    (p q : List (Ev Op Ret)) (t : Nat) (op : Op) (r : Ret)
    (hh : s.log.reverse = p ++ .ret t op r :: q) :
    ∃ c b a, p = c ++ .inv t op :: (b ++ .lin t op r :: a) ∧
      (∀ e ∈ b, evThread e ≠ t) ∧ (∀ e ∈ a, evThread e ≠ t) :=
  Conc.hist_ret_matches_lin step init sched s h p q t op r hh

/-- real-time order is respected: if operation 1 returned before operation 2 was invoked, then
    operation 1 stands before operation 2 in the sequential witness -/
theorem realtime_order_respected (init : σ) (sched : List (Act Op)) (s : St σ Op Ret)
    (h : runActs step (initSt init) sched = some s)
    (p m n' n : List (Ev Op Ret)) (t1 t2 : Nat) (op1 op2 op2' : Op) (r1 r2 : Ret)
    (hh : s.log.reverse =
      p ++ .ret t1 op1 r1 :: (m ++ .inv t2 op2 :: (n' ++ .lin t2 op2' r2 :: n)))
    (hn' : ∀ e ∈ n', evThread e ≠ t2) :
    op2' = op2 ∧
    ∃ b a, p = b ++ .lin t1 op1 r1 :: a ∧ (∀ e ∈ a, evThread e ≠ t1) ∧
      ∃ xs ys zs, linOps s.log = xs ++ (t1, op1, r1) :: ys ++ (t2, op2, r2) :: zs ∧
        xs = linOps b.reverse ∧
        ys = linOps a.reverse ++ linOps m.reverse ++ linOps n'.reverse ∧
        zs = linOps n.reverse :=
  Conc.hist_realtime_order step init sched s h p m n' n t1 t2 op1 op2 op2' r1 r2 hh hn'

/-- at most one thread is between `Lock()` and `Unlock()` -/
theorem mutual_exclusion (init : σ) (sched : List (Act Op)) (s : St σ Op Ret)
    (h : runActs step (initSt init) sched = some s) (t u : Nat)
    (ht : inCS (s.ph t)) (hu : inCS (s.ph u)) : t = u :=
  Conc.mutual_exclusion step init sched s h t u ht hu

/-- **mutex_no_corruption.**  A structure invariant of the sequential object holds in every
    reachable state of the concurrent machine, and of every snapshot a thread is working on. -/
theorem mutex_no_corruption (init : σ) (I : σ → Prop) (h0 : I init)
    (hs : ∀ v op, I v → I (step v op).1) (sched : List (Act Op)) (s : St σ Op Ret)
    (h : runActs step (initSt init) sched = some s) :
    I s.sh ∧ ∀ t op v, s.ph t = .loaded op v → I v :=
  Conc.no_corruption step init I h0 hs sched s h

/-- **lockset_race_free.**  If two accesses by different threads are both made while holding the
    instance lock, the first thread's release and the second thread's acquire lie between them —
    the happens-before edge that orders them in the Go memory model: no data race. -/
theorem lockset_race_free (pre mid post : List Lockset.E) (t u : Nat) (w w' : Bool) (htu : t ≠ u)
    (h0 : Lockset.holderAfter none pre = some (some t))
    (h1 : Lockset.holderAfter none (pre ++ [Lockset.E.acc t w] ++ mid) = some (some u)) :
    ∃ m1 m2 m3, mid = m1 ++ [Lockset.E.rel t] ++ m2 ++ [Lockset.E.acq u] ++ m3 :=
  Lockset.lockset_race_free pre mid post t u w w' htu h0 h1

/-! ### what goes wrong without the lock (the model of a method that forgets it — D18) -/

/-- a body that reads and writes without the lock loses an update: two increments, final state 1 -/
theorem finding_unlocked_body_loses_update :
    ∃ s, runActsRacy ctr (initSt 0) sched = some s ∧ s.sh = 1 ∧ seqState ctr 0 s.log = 2 :=
  Conc.lost_update

/-- … and the history it produces has no sequential explanation -/
theorem finding_unlocked_body_not_linearizable :
    ∃ s, runActsRacy ctr (initSt 0) sched = some s ∧ ¬ retsOk ctr 0 s.log :=
  Conc.lost_update_not_linearizable

/-- the same interleaving is impossible once the body is bracketed by the lock -/
theorem locked_body_excludes_that_schedule :
    runActs ctr (initSt 0) [.inv 0 (), .inv 1 (), .acq 0, .acq 1] = none :=
  Conc.locked_schedule_rejected

/-- an access made without the lock is not ordered with a locked one -/
theorem finding_unlocked_access_unordered :
    Lockset.holderAfter none [.acq 0, .acc 0 true, .acc 1 false, .rel 0] = some none ∧
    Lockset.holderAfter none [.acq 0] = some (some 0) ∧
    Lockset.holderAfter none [.acq 0, .acc 0 true] ≠ some (some 1) := by decide

/-! ### instances: the collections' point operations -/

open SeqSpec

/-- hash maps and sets (all 17 types): any concurrent mix of put / get / contains / remove /
    removeFirst / removeLast / size / isEmpty / clear is linearizable w.r.t. the insertion-ordered
    dictionary -/
theorem dict_linearizable (sched : List (Act MOp)) (s : St MSt MOp Fact)
    (h : runActs mstep (initSt []) sched = some s) :
    wn s.log ∧ legal mstep (linOps s.log) [] ∧ s.sh = runOps mstep (linOps s.log) [] :=
  Conc.mutex_herlihy_wing mstep [] sched s h

/-- … and never corrupts the structure: keys stay distinct in every reachable state -/
theorem dict_no_corruption (sched : List (Act MOp)) (s : St MSt MOp Fact)
    (h : runActs mstep (initSt []) sched = some s) :
    keysNodup s.sh ∧ ∀ t op v, s.ph t = .loaded op v → keysNodup v :=
  Conc.no_corruption mstep [] keysNodup keysNodup_nil (fun v op hv => mstep_keysNodup v op hv) sched s h

/-- the linked list used as a deque -/
theorem deque_linearizable (sched : List (Act DOp)) (s : St (List Nat) DOp Fact)
    (h : runActs dstep (initSt []) sched = some s) :
    wn s.log ∧ legal dstep (linOps s.log) [] ∧ s.sh = runOps dstep (linOps s.log) [] :=
  Conc.mutex_herlihy_wing dstep [] sched s h

/-- the request queue's non-blocking operations (enqueue, forced enqueue, dequeue-no-wait, size,
    clear, capacity) for every initial capacity; the blocking `Get` is treated in C11 -/
theorem queue_linearizable (cap : Int) (sched : List (Act Queue.Op)) (s : St Queue.Q Queue.Op Queue.Ret)
    (h : runActs qstep (initSt ⟨[], cap⟩) sched = some s) :
    wn s.log ∧ legal qstep (linOps s.log) ⟨[], cap⟩ ∧ s.sh = runOps qstep (linOps s.log) ⟨[], cap⟩ :=
  Conc.mutex_herlihy_wing qstep ⟨[], cap⟩ sched s h

theorem double_queue_linearizable (c1 c2 : Int) (sched : List (Act Queue.DOp))
    (s : St Queue.DQ Queue.DOp Queue.Ret)
    (h : runActs dqstep (initSt ⟨⟨[], c1⟩, ⟨[], c2⟩⟩) sched = some s) :
    wn s.log ∧ legal dqstep (linOps s.log) ⟨⟨[], c1⟩, ⟨[], c2⟩⟩ ∧
      s.sh = runOps dqstep (linOps s.log) ⟨⟨[], c1⟩, ⟨[], c2⟩⟩ :=
  Conc.mutex_herlihy_wing dqstep ⟨⟨[], c1⟩, ⟨[], c2⟩⟩ sched s h

/-! ### non-vacuity: a schedule with two overlapping operations on a dictionary -/

example :
    (runActs mstep (initSt []) [.inv 1 (.put 1 2), .inv 2 (.get 1), .acq 2, .load 2, .store 2, .rel 2,
      .acq 1, .load 1, .store 1, .rel 1, .ret 1, .ret 2]).map (fun s => (s.sh, linOps s.log)) =
    some ([(1, 2)], [(2, .get 1, .val 0), (1, .put 1 2, .val 0)]) := by rfl

end C10
