/-
  Property C10 — shared collections are linearizable, race-free and never self-deadlock.

  Statements only; every proof is a reference to a lemma of Golib.Conc.*.

  The proof core is the generic *mutex object* machine (Golib/Conc/Mutex.lean): threads are
  natural numbers (any number of goroutines), a schedule is an arbitrary list of micro-actions
  (any interleaving), and the body of an operation is split into `load` (take a snapshot of the
  shared state) and `store` (write back the result of the sequential `step`), so that atomicity is
  a *consequence* of holding the lock, not an assumption.  The theorems hold for every sequential
  object `step : σ → Op → σ × Ret`; below they are instantiated with the sequential specs of the
  hash maps/sets, the linked list and the request queues (Golib/Conc/SeqSpec.lean).

  What justifies using this machine for a given Go method is the regenerated lock table
  (Golib/Gen/Locks.lean, obligations in Golib/Props/C10Gen.lean): the method takes the instance
  lock first thing, releases it by `defer`, touches shared fields only in between, and never
  reaches a method that takes the lock again.  The Go memory model and `sync.Mutex` are assumptions
  (a release happens-before the next acquire; the mutex is not re-entrant).
-/
import Golib.Conc.WellNested
import Golib.Conc.Racy
import Golib.Conc.Lockset
import Golib.Conc.SeqSpecThms
import Golib.Conc.Instances
import Golib.Conc.Deadlock
import Golib.Conc.Callback
import Golib.Conc.WholeOps

namespace C10
open Conc

variable {σ Op Ret : Type} (step : σ → Op → σ × Ret)

/-- **mutex_linearizable.**  For every number of threads, every program and every schedule: in the
    state reached, the event log is well nested per thread (each linearization point lies between
    the operation's invocation and its response, and the response carries the value computed at
    the linearization point), the values are those of the sequential object replayed in
    linearization order, and the shared state is the result of that replay. -/
theorem mutex_linearizable (init : σ) (sched : List (Act Op)) (s : St σ Op Ret)
    (h : runActs step (initSt init) sched = some s) :
    wn s.log ∧ retsOk step init s.log ∧ s.sh = seqState step init s.log :=
  Conc.mutex_linearizable step init sched s h

/-- the same in Herlihy–Wing form: the chronological list of linearization points is a legal
    sequential history of the object and the shared state is its final state -/
theorem mutex_herlihy_wing (init : σ) (sched : List (Act Op)) (s : St σ Op Ret)
    (h : runActs step (initSt init) sched = some s) :
    wn s.log ∧ legal step (linOps s.log) init ∧ s.sh = runOps step (linOps s.log) init :=
  Conc.mutex_herlihy_wing step init sched s h

/-- every response is explained by a linearization point of the same thread, same operation, same
    value, that lies after the matching invocation (history oldest first) -/
theorem response_matches_linearization (init : σ) (sched : List (Act Op)) (s : St σ Op Ret)
    (h : runActs step (initSt init) sched = some s)
    (p q : List (Ev Op Ret)) (t : Nat) (op : Op) (r : Ret)
    (hh : s.log.reverse = p ++ .ret t op r :: q) :
    ∃ c b a, p = c ++ .inv t op :: (b ++ .lin t op r :: a) ∧
      (∀ e ∈ b, evThread e ≠ t) ∧ (∀ e ∈ a, evThread e ≠ t) :=
  Conc.hist_ret_matches_lin step init sched s h p q t op r hh

/-- real-time order is respected: if operation 1 returned before operation 2 was invoked, then
    operation 1 stands before operation 2 in the sequential witness -/
theorem realtime_order_respected (init : σ) (sched : List (Act Op)) (s : St σ Op Ret)
    (h : runActs step (initSt init) sched = some s)
    (p m n' n : List (Ev Op Ret)) (t1 t2 : Nat) (op1 op2 op2' : Op) (r1 r2 : Ret)
    (hh : s.log.reverse =
      p ++ .ret t1 op1 r1 :: (m ++ .inv t2 op2 :: (n' ++ .lin t2 op2' r2 :: n)))
    (hn' : ∀ e ∈ n', evThread e ≠ t2) :
    op2' = op2 ∧
    ∃ b a, p = b ++ .lin t1 op1 r1 :: a ∧ (∀ e ∈ a, evThread e ≠ t1) ∧
      ∃ xs ys zs, linOps s.log = xs ++ (t1, op1, r1) :: ys ++ (t2, op2, r2) :: zs ∧
        xs = linOps b.reverse ∧
        ys = linOps a.reverse ++ linOps m.reverse ++ linOps n'.reverse ∧
        zs = linOps n.reverse :=
  Conc.hist_realtime_order step init sched s h p m n' n t1 t2 op1 op2 op2' r1 r2 hh hn'

/-- at most one thread is between `Lock()` and `Unlock()` -/
theorem mutual_exclusion (init : σ) (sched : List (Act Op)) (s : St σ Op Ret)
    (h : runActs step (initSt init) sched = some s) (t u : Nat)
    (ht : inCS (s.ph t)) (hu : inCS (s.ph u)) : t = u :=
  Conc.mutual_exclusion step init sched s h t u ht hu

/-- **mutex_no_corruption.**  A structure invariant of the sequential object holds in every
    reachable state of the concurrent machine, and of every snapshot a thread is working on. -/
theorem mutex_no_corruption (init : σ) (I : σ → Prop) (h0 : I init)
    (hs : ∀ v op, I v → I (step v op).1) (sched : List (Act Op)) (s : St σ Op Ret)
    (h : runActs step (initSt init) sched = some s) :
    I s.sh ∧ ∀ t op v, s.ph t = .loaded op v → I v :=
  Conc.no_corruption step init I h0 hs sched s h

/-- **lockset_race_free.**  If two accesses by different threads are both made while holding the
    instance lock, the first thread's release and the second thread's acquire lie between them —
    the happens-before edge that orders them in the Go memory model: no data race. -/
theorem lockset_race_free (pre mid post : List Lockset.E) (t u : Nat) (w w' : Bool) (htu : t ≠ u)
    (h0 : Lockset.holderAfter none pre = some (some t))
    (h1 : Lockset.holderAfter none (pre ++ [Lockset.E.acc t w] ++ mid) = some (some u)) :
    ∃ m1 m2 m3, mid = m1 ++ [Lockset.E.rel t] ++ m2 ++ [Lockset.E.acq u] ++ m3 :=
  Lockset.lockset_race_free pre mid post t u w w' htu h0 h1

/-! ### self-deadlock and lock order: the table judgements imply deadlock freedom of the call graph -/

open LockFacts in
/-- **no_self_deadlock is sound.**  For every lock table `T` (regenerated from the source): if the
    decidable judgement `noSelfDeadlock T` holds, then in the call-graph machine `runs` no method
    entered without the lock, to any call depth, ever tries to take the non re-entrant lock while it
    holds it.  (C10Gen applies this to the twenty regenerated tables: `C10Gen.deadlock_free`.) -/
theorem no_self_deadlock_sound (T : TypeFacts) (h : noSelfDeadlock T = true) :
    ∀ n m, runs T n false m = true :=
  noSelfDeadlock_sound T h

open LockFacts in
/-- … and the judgement is not vacuous: a direct re-lock is a deadlock of the machine -/
theorem relock_is_a_deadlock (T : TypeFacts) (M C : Method) (c : String) (hmem : M ∈ T.methods)
    (hf : T.find M.name = some M) (ha : M.acquires = true) (hc : c ∈ M.callsHeld)
    (hC : T.find c = some C) (hCa : C.acquires = true) : runs T 2 false M.name = false :=
  relock_reaches_deadlock T M C c hmem hf ha hc hC hCa

open LockFacts in
/-- no lock order between two instances of one type: if `nestFree T` holds, no execution ever holds or
    requests both instances' locks, and a thread that never does cannot be part of a wait cycle -/
theorem no_lock_order_deadlock (T : TypeFacts) (h : nestFree T = true) :
    (∀ n m, nests T n false false m = false) ∧
    (∀ w1 w2 : Wait, (w1.holds = none ∨ w1.wants = none) → ¬ cycle2 w1 w2) :=
  ⟨nestFree_sound T h, fun w1 w2 h1 => no_cycle_without_nesting w1 w2 h1⟩

/-! ### callbacks run inside the critical section: nothing of another thread completes meanwhile -/

/-- **callback_window_exclusive.**  `Put`/`PutForce` invoke the user's callback while holding the lock,
    between taking the snapshot and storing the result (phase `loaded`).  For every reachable state in
    which thread `t` is there and every schedule segment of other threads' actions — whatever the other
    goroutines try: Put, Get, Clear, Size … — the shared state is unchanged, still equal to `t`'s
    snapshot, `t` is still in its callback, and *no operation has been linearized*: nothing of another
    thread takes effect in the middle of the operation (what the harness's `callbackReentrancy` measures). -/
theorem callback_window_exclusive (init : σ) (pre : List (Act Op)) (s s' : St σ Op Ret)
    (hs : runActs step (initSt init) pre = some s) (t : Nat) (op : Op) (v : σ)
    (hcb : s.ph t = .loaded op v) (others : List (Act Op)) (ho : ∀ a ∈ others, a.actor ≠ t)
    (hr : runActs step s others = some s') :
    s'.sh = s.sh ∧ s'.ph t = .loaded op v ∧ linOps s'.log = linOps s.log ∧ s'.sh = v :=
  Conc.callback_window_exclusive step init pre s s' hs t op v hcb others ho hr

/-- the same for the whole critical section (from `Lock()` to `Unlock()`) -/
theorem critical_section_exclusive (init : σ) (pre : List (Act Op)) (s s' : St σ Op Ret)
    (hs : runActs step (initSt init) pre = some s) (t : Nat) (hcs : inCS (s.ph t))
    (others : List (Act Op)) (ho : ∀ a ∈ others, a.actor ≠ t) (hr : runActs step s others = some s') :
    s'.sh = s.sh ∧ s'.holder = some t ∧ s'.ph t = s.ph t ∧ linOps s'.log = linOps s.log :=
  Conc.foreign_run_in_cs step init s s' (Conc.reachable_inv step init pre s hs) t hcs others ho hr

/-- **finding (documented hazard, not a defect of the collections): a callback that calls the queue from
    its own goroutine never gets the lock** — the mutex is not re-entrant, the holder waits for its own
    callback: a self-deadlock.  (The harness therefore lets *another* goroutine do the call.) -/
theorem finding_callback_reentry_never_acquires (init : σ) (pre : List (Act Op)) (s s' : St σ Op Ret)
    (hs : runActs step (initSt init) pre = some s) (t : Nat) (hcs : inCS (s.ph t))
    (others : List (Act Op)) (ho : ∀ a ∈ others, a.actor ≠ t) (hr : runActs step s others = some s')
    (u : Nat) : next step s' (.acq u) = none :=
  Conc.finding_callback_reentry_never_acquires step init pre s s' hs t hcs others ho hr u

/-- results already handed out never change: the history only grows (for the Go code: a returned slice
    must not be memory the object keeps using — `C10Gen.slice_results_fresh`) -/
theorem returned_results_are_final (s s' : St σ Op Ret) (sched : List (Act Op))
    (hr : runActs step s sched = some s') : ∃ l, s'.log = l ++ s.log :=
  Conc.returned_results_are_final step s s' sched hr

/-- non-vacuity: thread 1 sits in its callback (snapshot taken) while thread 2 invokes a put and tries to lock -/
example :
    (runActs SeqSpec.mstep (initSt []) [.inv 1 (.put 1 2), .acq 1, .load 1, .inv 2 (.put 3 4)]).map
      (fun s => (s.sh, linOps s.log)) = some ([], []) ∧
    (runActs SeqSpec.mstep (initSt []) [.inv 1 (.put 1 2), .acq 1, .load 1, .inv 2 (.put 3 4), .acq 2]).isNone = true := by
  constructor <;> rfl

/-! ### whole-structure operations never disturb the point operations

  Sort (and every read-only traversal) leaves the *content* — the key → value pairs — unchanged; it is not a
  point operation and need not even be compared as one, but the point operations must stay linearizable in
  its presence.  For any object, any content equivalence `E` respected by the point operations and any set
  `N` of content-neutral operations: the neutral operations can be erased from the linearization. -/

/-- **neutral_ops_never_disturb_point_ops.**  For every schedule of the mutex machine: the shared state is
    content-equal (`E`) to the sequential replay of the point operations *alone* in linearization order, and
    every point operation returned what it returns in that replay. -/
theorem neutral_ops_never_disturb_point_ops (I : σ → Prop) (E : σ → σ → Prop) (N : Op → Bool)
    (hI : ∀ s op, I s → I (step s op).1)
    (hN : ∀ s s' op, I s → I s' → E s s' → N op = true → E (step s op).1 s')
    (hC : ∀ s s' op, I s → I s' → E s s' → N op = false →
      E (step s op).1 (step s' op).1 ∧ (step s op).2 = (step s' op).2)
    (init : σ) (h0 : I init) (hE0 : E init init) (sched : List (Act Op)) (s : St σ Op Ret)
    (h : runActs step (initSt init) sched = some s) :
    E s.sh (runOps step (pointOps N (linOps s.log)) init) ∧ legal step (pointOps N (linOps s.log)) init :=
  Conc.neutral_ops_never_disturb step I E N hI hN hC init h0 hE0 sched s h

/-- **sort_never_disturbs_point_ops** (the hypotheses above discharged for the dictionary): whatever Sorts,
    under whatever comparators, run concurrently with put / get / contains / remove / size / isEmpty / clear,
    the dictionary holds exactly the entries of the replay of the point operations alone and each of them
    returned what it returns there — no completed put is lost, no removed key comes back. -/
theorem sort_never_disturbs_point_ops (sched : List (Act SeqSpec.WOp)) (s : St SeqSpec.MSt SeqSpec.WOp SeqSpec.Fact)
    (h : runActs SeqSpec.wstep (initSt []) sched = some s) :
    s.sh.Perm (runOps SeqSpec.wstep (pointOps SeqSpec.isSort (linOps s.log)) []) ∧
      legal SeqSpec.wstep (pointOps SeqSpec.isSort (linOps s.log)) [] :=
  SeqSpec.sort_never_disturbs sched s h

/-- non-vacuity: a put overlaps a Sort (descending); the Sort is linearized first, the put survives it -/
example :
    (runActs SeqSpec.wstep (initSt [])
      [.inv 1 (.put 1 10), .acq 1, .load 1, .store 1, .rel 1, .ret 1,
       .inv 1 (.sort (fun a b => decide (b ≤ a))), .inv 2 (.put 2 20), .acq 1, .load 1, .store 1, .rel 1,
       .acq 2, .load 2, .store 2, .rel 2, .ret 2, .ret 1]).map
        (fun s => (s.sh, (pointOps SeqSpec.isSort (linOps s.log)).map (fun x => x.1))) =
    some ([(1, 10), (2, 20)], [1, 2]) := by rfl

/-- **finding (counter-model: Sort made of two critical sections).**  `snap` and `rebuild` are each a
    properly locked operation: the schedule is accepted, nothing races, nothing deadlocks, every obligation
    about single operations holds — and the put of key 9 that completed between them is gone although no
    remove or clear ever ran.  (Tie A: `C10Gen.writers_single_critical_section` rejects this shape; tie B:
    `wholeMutators` puts a point operation between the two sections.) -/
theorem split_sort_undoes_completed_put :
    ∃ s, runActs SeqSpec.sstep (initSt [(2, 20), (1, 10)]) SeqSpec.splitSortSchedule = some s ∧
      s.sh = [(1, 10), (2, 20)] ∧ SeqSpec.lookup 9 s.sh = 0 ∧
      (linOps s.log).map (fun x => x.1) = [1, 2, 1] ∧
      (∃ l, linOps s.log = [(1, .snap, .ents [(2, 20), (1, 10)]), (2, .pt (.put 9 90), .fact (.val 0)), l]) :=
  SeqSpec.split_sort_loses_put

/-- with the atomic Sort that interleaving is not a schedule (the put cannot take the lock) -/
theorem atomic_sort_excludes_that_schedule (lt : Nat → Nat → Bool) :
    runActs SeqSpec.wstep (initSt [(2, 20), (1, 10)])
      [.inv 1 (.sort lt), .acq 1, .load 1, .inv 2 (.put 9 90), .acq 2] = none :=
  SeqSpec.atomic_sort_excludes_that_schedule lt

/-! ### what goes wrong without the lock (the model of a method that forgets it — D18) -/

/-- a body that reads and writes without the lock loses an update: two increments, final state 1 -/
theorem finding_unlocked_body_loses_update :
    ∃ s, runActsRacy ctr (initSt 0) sched = some s ∧ s.sh = 1 ∧ seqState ctr 0 s.log = 2 :=
  Conc.lost_update

/-- … and the history it produces has no sequential explanation -/
theorem finding_unlocked_body_not_linearizable :
    ∃ s, runActsRacy ctr (initSt 0) sched = some s ∧ ¬ retsOk ctr 0 s.log :=
  Conc.lost_update_not_linearizable

/-- the same interleaving is impossible once the body is bracketed by the lock -/
theorem locked_body_excludes_that_schedule :
    runActs ctr (initSt 0) [.inv 0 (), .inv 1 (), .acq 0, .acq 1] = none :=
  Conc.locked_schedule_rejected

/-- an access made without the lock is not ordered with a locked one -/
theorem finding_unlocked_access_unordered :
    Lockset.holderAfter none [.acq 0, .acc 0 true, .acc 1 false, .rel 0] = some none ∧
    Lockset.holderAfter none [.acq 0] = some (some 0) ∧
    Lockset.holderAfter none [.acq 0, .acc 0 true] ≠ some (some 1) := by decide

/-! ### instances: the collections' point operations -/

open SeqSpec

/-- hash maps and sets (all 17 types): any concurrent mix of put / get / contains / remove /
    removeFirst / removeLast / size / isEmpty / clear is linearizable w.r.t. the insertion-ordered
    dictionary -/
theorem dict_linearizable (sched : List (Act MOp)) (s : St MSt MOp Fact)
    (h : runActs mstep (initSt []) sched = some s) :
    wn s.log ∧ legal mstep (linOps s.log) [] ∧ s.sh = runOps mstep (linOps s.log) [] :=
  Conc.mutex_herlihy_wing mstep [] sched s h

/-- … and never corrupts the structure: keys stay distinct in every reachable state -/
theorem dict_no_corruption (sched : List (Act MOp)) (s : St MSt MOp Fact)
    (h : runActs mstep (initSt []) sched = some s) :
    keysNodup s.sh ∧ ∀ t op v, s.ph t = .loaded op v → keysNodup v :=
  Conc.no_corruption mstep [] keysNodup keysNodup_nil (fun v op hv => mstep_keysNodup v op hv) sched s h

/-- the linked list used as a deque -/
theorem deque_linearizable (sched : List (Act DOp)) (s : St (List Nat) DOp Fact)
    (h : runActs dstep (initSt []) sched = some s) :
    wn s.log ∧ legal dstep (linOps s.log) [] ∧ s.sh = runOps dstep (linOps s.log) [] :=
  Conc.mutex_herlihy_wing dstep [] sched s h

/-- the request queue's non-blocking operations (enqueue, forced enqueue, dequeue-no-wait, size,
    clear, capacity) for every initial capacity; the blocking `Get` is treated in C11 -/
theorem queue_linearizable (cap : Int) (sched : List (Act Queue.Op)) (s : St Queue.Q Queue.Op Queue.Ret)
    (h : runActs qstep (initSt ⟨[], cap⟩) sched = some s) :
    wn s.log ∧ legal qstep (linOps s.log) ⟨[], cap⟩ ∧ s.sh = runOps qstep (linOps s.log) ⟨[], cap⟩ :=
  Conc.mutex_herlihy_wing qstep ⟨[], cap⟩ sched s h

theorem double_queue_linearizable (c1 c2 : Int) (sched : List (Act Queue.DOp))
    (s : St Queue.DQ Queue.DOp Queue.Ret)
    (h : runActs dqstep (initSt ⟨⟨[], c1⟩, ⟨[], c2⟩⟩) sched = some s) :
    wn s.log ∧ legal dqstep (linOps s.log) ⟨⟨[], c1⟩, ⟨[], c2⟩⟩ ∧
      s.sh = runOps dqstep (linOps s.log) ⟨⟨[], c1⟩, ⟨[], c2⟩⟩ :=
  Conc.mutex_herlihy_wing dqstep ⟨⟨[], c1⟩, ⟨[], c2⟩⟩ sched s h

/-! ### the concrete CodeModels: linearizable with respect to their *Specs*

  The instances above use small abstract objects.  The following three use the CodeModels that C09,
  C12 and C13 tie to the Go code (bucket arrays with hash chains and an order list; the doubly linked
  pointer heap) with their full operation sets, and conclude linearizability with respect to the
  *Spec* (insertion-ordered dictionary, functional map, deque) through the refinement theorems of
  those properties — for every hash function, growth policy, type descriptor, initial capacity,
  number of threads and schedule. -/

section concrete
open HMap

variable {K V : Type} [DecidableEq K] [DecidableEq V]

/-- **linked hash maps / sets (13 types, C09 CodeModel, all operations incl. put modes, eviction, GetLRU,
    sort, enumerations): every concurrent history is linearizable w.r.t. the insertion-ordered
    dictionary Spec**, and the shared structure always satisfies the structure invariant and
    abstracts to the Spec state reached by the linearization. -/
theorem linked_maps_linearizable_wrt_dictionary (hash : K → Nat) (thr : Nat → Nat) (d : Desc K V) (cap : Nat)
    (sched : List (Act (HMap.Op K V))) (s : St (LMap K V) (HMap.Op K V) (Out K V))
    (h : runActs (LMap.step hash thr d) (initSt (LMap.new thr cap)) sched = some s) :
    wn s.log ∧ legal (S.step d) (linOps s.log) {} ∧
      LMap.Inv hash d s.sh ∧ LMap.abs hash s.sh = runOps (S.step d) (linOps s.log) {} := by
  obtain ⟨h1, h2, h3, h4⟩ := Conc.mutex_refines _ _ _ _ (Inst.linked_simulates hash thr d) _ _
    (Inst.linked_init hash thr d cap) sched s h
  exact ⟨h1, (Conc.legalAbs_eq _ _ _).1 h2, h3, by rw [h4, Conc.runAbs_eq]⟩

/-- plain hash maps / sets (C12 CodeModel): linearizable w.r.t. the functional-map Spec, outputs equal
    up to the order of enumerations -/
theorem plain_maps_linearizable_wrt_map (hash : K → Nat) (thr : Nat → Nat) (d : PDesc K V) (cap : Nat)
    (sched : List (Act (POp K V))) (s : St (PMap K V) (POp K V) (Out K V))
    (h : runActs (PMap.step hash thr d) (initSt (PMap.new thr cap)) sched = some s) :
    wn s.log ∧ legalAbs (PS.step d) Out.equiv (linOps s.log) {} ∧
      PMap.Rel hash d s.sh (runAbs (PS.step d) (linOps s.log) {}) :=
  Conc.mutex_refines _ _ _ _ (Inst.plain_simulates hash thr d) _ _ (PMap.Rel.new cap) sched s h

end concrete

/-- the linked list (C13 CodeModel: nodes in a heap with prev/next pointers, all operations incl.
    entity removal and PutBefore): linearizable w.r.t. the deque Spec -/
theorem linked_list_linearizable_wrt_deque (sched : List (Act Lists.Linked.Op))
    (s : St Lists.Linked.LL Lists.Linked.Op Lists.Linked.Out)
    (h : runActs Inst.llStep (initSt Lists.Linked.LL.empty) sched = some s) :
    wn s.log ∧ legal Inst.llSpec (linOps s.log) [] ∧
      Inst.ListRel s.sh (runOps Inst.llSpec (linOps s.log) []) := by
  obtain ⟨h1, h2, h3⟩ := Conc.mutex_refines _ _ _ _ Inst.list_simulates _ _ Inst.list_init sched s h
  exact ⟨h1, (Conc.legalAbs_eq _ _ _).1 h2, by rw [← Conc.runAbs_eq]; exact h3⟩

/-- the generic transfer used above, for any refinement proved elsewhere -/
theorem linearizability_transfers_along_refinement {σc σa Op' RetC RetA : Type}
    (stepC : σc → Op' → σc × RetC) (stepA : σa → Op' → σa × RetA)
    (R : σc → σa → Prop) (Q : RetC → RetA → Prop) (hsim : Simulates stepC stepA R Q)
    (c0 : σc) (a0 : σa) (h0 : R c0 a0) (sched : List (Act Op')) (s : St σc Op' RetC)
    (hs : runActs stepC (initSt c0) sched = some s) :
    wn s.log ∧ legalAbs stepA Q (linOps s.log) a0 ∧ R s.sh (runAbs stepA (linOps s.log) a0) :=
  Conc.mutex_refines stepC stepA R Q hsim c0 a0 h0 sched s hs

/-! ### non-vacuity: overlapping operations on the concrete CodeModels -/

def exDesc : HMap.Desc Nat Nat := { comb := (· + ·), veq := (· == ·) }

/-- a put and a GetLRU overlap on the bucket-array model; the GetLRU is linearized first and misses -/
example :
    (runActs (HMap.LMap.step (fun k => k) (fun n => n * 3 / 4) exDesc) (initSt (HMap.LMap.new (fun n => n * 3 / 4) 3))
      [.inv 1 (.put .last 7 1), .inv 2 (.getLRU 7), .acq 2, .load 2, .store 2, .rel 2,
       .acq 1, .load 1, .store 1, .rel 1, .ret 1, .ret 2]).map
        (fun s => (linOps s.log).map (fun x => (x.1, x.2.2))) =
    some [(2, .none), (1, .none)] := by rfl

/-- an AddLast and a RemoveFirst overlap on the pointer-heap model of the linked list -/
example :
    (runActs Inst.llStep (initSt Lists.Linked.LL.empty)
      [.inv 1 (.addLast 5), .inv 2 .removeFirst, .acq 1, .load 1, .store 1, .rel 1,
       .acq 2, .load 2, .store 2, .rel 2, .ret 2, .ret 1]).map
        (fun s => (linOps s.log).map (fun x => (x.1, x.2.2))) =
    some [(1, .unit), (2, .val 5)] := by rfl

/-! ### non-vacuity: a schedule with two overlapping operations on a dictionary -/

example :
    (runActs mstep (initSt []) [.inv 1 (.put 1 2), .inv 2 (.get 1), .acq 2, .load 2, .store 2, .rel 2,
      .acq 1, .load 1, .store 1, .rel 1, .ret 1, .ret 2]).map (fun s => (s.sh, linOps s.log)) =
    some ([(1, 2)], [(2, .get 1, .val 0), (1, .put 1 2, .val 0)]) := by rfl

end C10
