/-
  Golib.Props.X02Buf — extension check X02, item 5: util/stringutil/StringBuffer.go.
  Law: the buffer holds the appended texts, each preceded by one tab per open block; a history returns
  from every call iff it never closes more blocks than it opened (`strings.Repeat` panics on a negative
  count).
-/
import Golib.Ext.StrBuf

namespace X02
open Ext.StrBuf

/-- a write returns iff the depth is not negative, and then appends `depth` tabs and the text -/
theorem strbuf_write (b : SB) (s : Bytes) :
    ((write b s).2 = true ↔ 0 ≤ b.indent) ∧
    (0 ≤ b.indent → write b s = ({ b with buf := b.buf ++ (List.replicate b.indent.toNat 9 ++ s) }, true)) ∧
    (b.indent < 0 → write b s = (b, false)) := by
  unfold write
  by_cases h : b.indent < 0
  · simp [h]
  · simp [h]; omega

/-- never more blocks closed than opened, at every write (Clear starts over) -/
def depthOK : Int → List Op → Bool
  | _, [] => true
  | d, op :: ops =>
    match op with
    | .clear => depthOK 0 ops
    | .appendLineIndent _ => decide (0 ≤ d) && depthOK (d + 1) ops
    | .appendLineClose _ => decide (0 ≤ d - 1) && depthOK (d - 1) ops
    | .appendClose _ => decide (0 ≤ d - 1) && depthOK (d - 1) ops
    | _ => decide (0 ≤ d) && depthOK d ops

theorem write_indent (b : SB) (s : Bytes) : (write b s).1.indent = b.indent := by
  unfold write; split <;> rfl

theorem write_ok (b : SB) (s : Bytes) : (write b s).2 = decide (0 ≤ b.indent) := by
  unfold write
  by_cases h : b.indent < 0
  · have : ¬ (0 ≤ b.indent) := by omega
    simp [h, this]
  · have : 0 ≤ b.indent := by omega
    simp [h, this]

/-- totality of a history: every call returns iff the blocks are balanced -/
theorem strbuf_no_panic_iff (ops : List Op) : ∀ (b : SB), (run b ops).2.all id = depthOK b.indent ops := by
  induction ops with
  | nil => intro b; rfl
  | cons op ops ih =>
    intro b
    cases op with
    | clear => simp only [run, step, List.all_cons, id, Bool.true_and, depthOK]; exact ih _
    | append s =>
      simp only [run, step, List.all_cons, id, depthOK]
      rw [ih, write_indent, write_ok]
    | appendLine s =>
      simp only [run, step, List.all_cons, id, depthOK]
      rw [ih, write_indent, write_ok]
    | appendComment s =>
      simp only [run, step, List.all_cons, id, depthOK]
      rw [ih, write_indent, write_ok]
    | appendLineClose s =>
      simp only [run, step, List.all_cons, id, depthOK]
      rw [ih, write_indent, write_ok]
    | appendClose s =>
      simp only [run, step, List.all_cons, id, depthOK]
      rw [ih, write_indent, write_ok]
    | appendLineIndent s =>
      simp only [run, step, List.all_cons, id, depthOK]
      by_cases h : 0 ≤ b.indent
      · have hw : (write b (s ++ [10])).2 = true := by rw [write_ok]; simp [h]
        simp only [hw, if_true]
        rw [ih]
        simp [write_indent, h]
      · have hw : (write b (s ++ [10])).2 = false := by rw [write_ok]; simp [h]
        simp [hw, h]

/-- the text of a balanced block: `if a {` / body / `}` at depth 0 -/
theorem strbuf_block :
    run {} [.appendLineIndent [123], .appendLine [120], .appendLineClose [125]] =
      ({ buf := [123, 10, 9, 120, 10, 125, 10], indent := 0 }, [true, true, true]) := by decide

/-- FINDING: closing a block that was not opened panics, and so does every later write
    (`NewStringBuffer().AppendClose("}")`: strings: negative Repeat count) -/
theorem finding_appendClose_panics :
    run {} [.appendClose [125], .append [120]] = ({ buf := [], indent := -1 }, [false, false]) := by decide

end X02
