/-
  Property C11 — request queues are bounded FIFOs that lose, duplicate or strand nothing.

  Statements only; proofs are references to Golib/Queue/Thms.lean (sequential model),
  Golib/Conc/Cond.lean (monitor object = mutex object + wait set, any number of threads, any
  schedule) and Golib/Queue/Conc.lean (the queue as a monitor object).

  Model: Golib/Queue/Seq.lean — state `(items, cap)`, elements are naturals with 0 = Go's `nil`;
  each operation yields the return value and the events it caused (accepted / failed / overflowed /
  delivered / cleared / swallowed).  It is tied to util/queue/*.go by the differential harness
  `harness/c11` and by the regenerated facts of Golib/Props/C11Gen.lean (capacity test expression,
  Broadcast on every put path, Wait inside the `for size <= 0` loop under the lock).

  Known finding kept in the model (see `finding_nil_element_swallowed`): GetTimeout treats a `nil`
  *element* as "nothing yet", pops it and keeps polling — a nil element is delivered to nobody.
  Every theorem below is stated for all elements; the only thing that can ever be swallowed is
  nil (`only_nil_is_ever_swallowed`).
-/
import Golib.Queue.Thms
import Golib.Queue.Conc
import Golib.Queue.Fair
import Golib.Queue.Timed
import Golib.Queue.Findings
import Golib.Queue.Composite
import Golib.Queue.Fixed
import Golib.Queue.TimedMany
import Golib.Queue.OverLinked
import Golib.Conc.Callback
import Golib.Conc.SeqSpec

namespace C11
open Queue

/-! ### sequential: every history of put / putForce / get / getNoWait / getTimeout / clear /
    setCapacity / size, every capacity (≤ 0 = unbounded) -/

/-- **fifo.**  Everything leaves the queue from the front, in the order accepted: the initial
    content followed by the accepted elements *is* the sequence of elements that left (delivered,
    evicted, cleared, swallowed — in the order they left) followed by what is still queued. -/
theorem fifo (q : Q) (ops : List Op) :
    q.items ++ acceptedOf (run q ops).2.2 = leftOf (run q ops).2.2 ++ (run q ops).1.items :=
  run_fifo q ops

/-- delivered elements appear in acceptance order -/
theorem delivered_in_acceptance_order (q : Q) (ops : List Op) :
    (deliveredOf (run q ops).2.2).Sublist (q.items ++ acceptedOf (run q ops).2.2) :=
  fifo_order q ops

/-- **put_full.**  A plain put on a full queue is refused: returns false, hands the element to the
    failure callback, leaves the state unchanged. -/
theorem put_full (q : Q) (x : Nat) (hc : q.cap > 0) (hs : (q.size : Int) ≥ q.cap) :
    step q (.put x) = (q, .bool false, [.failed x]) :=
  Queue.put_full q x hc hs

theorem put_accepts_when_room (q : Q) (x : Nat) (h : q.cap ≤ 0 ∨ (q.size : Int) < q.cap) :
    step q (.put x) = ({ q with items := q.items ++ [x] }, .bool true, [.accepted x]) :=
  put_room q x h

/-- **putforce_full.**  A forced put on a full queue evicts the oldest elements (a non-empty prefix),
    hands each to the overflow callback in order, appends the element, returns false, and leaves
    exactly `cap` elements. -/
theorem putforce_full (q : Q) (x : Nat) (hc : q.cap > 0) (hs : (q.size : Int) ≥ q.cap) :
    ∃ ev rest, q.items = ev ++ rest ∧
      step q (.putForce x) =
        ({ q with items := rest ++ [x] }, .bool false, ev.map .overflowed ++ [.accepted x]) ∧
      ((rest.length : Int) + 1 = q.cap) ∧ ev ≠ [] :=
  putForce_full q x hc hs

/-- **bounded.**  With a positive capacity no operation lets the queue grow beyond
    `max cap (size before)`; a forced put always ends within the capacity; along a history without
    capacity changes the bound holds throughout. -/
theorem bounded (q : Q) (op : Op) (h : (step q op).1.cap > 0) :
    ((step q op).1.size : Int) ≤ max (q.size : Int) (step q op).1.cap :=
  bounded_step q op h

theorem bounded_after_putforce (q : Q) (x : Nat) (h : q.cap > 0) :
    ((step q (.putForce x)).1.size : Int) ≤ q.cap :=
  putForce_bounded q x h

theorem bounded_history (q : Q) (ops : List Op) (hc : q.cap > 0)
    (hno : ∀ op ∈ ops, ∀ c, op ≠ .setCapacity c) :
    ((run q ops).1.size : Int) ≤ max (q.size : Int) q.cap ∧ (run q ops).1.cap = q.cap :=
  bounded_run q ops hc hno

/-- **conservation.**  accepted = delivered ⊎ evicted ⊎ cleared ⊎ swallowed ⊎ still queued. -/
theorem conservation (q : Q) (ops : List Op) :
    (q.items ++ acceptedOf (run q ops).2.2).Perm
      (deliveredOf (run q ops).2.2 ++ overflowedOf (run q ops).2.2 ++ clearedOf (run q ops).2.2 ++
        swallowedOf (run q ops).2.2 ++ (run q ops).1.items) :=
  Queue.conservation q ops

/-- the full statement of the property has no `swallowed` term; it holds whenever no nil element is
    involved, because only nil is ever swallowed … -/
theorem only_nil_is_ever_swallowed (q : Q) (ops : List Op) :
    ∀ x ∈ swallowedOf (run q ops).2.2, x = 0 :=
  run_swallowed_nil q ops

/-- … and without evictions, clears and swallowed nils delivery is exact, as lists -/
theorem conservation_partial (q : Q) (ops : List Op) (h1 : overflowedOf (run q ops).2.2 = [])
    (h2 : clearedOf (run q ops).2.2 = []) (h3 : swallowedOf (run q ops).2.2 = []) :
    q.items ++ acceptedOf (run q ops).2.2 = deliveredOf (run q ops).2.2 ++ (run q ops).1.items :=
  exact_delivery q ops h1 h2 h3

/-- known finding `RequestQueue.GetTimeout:nil-element-swallowed`: queue [nil, 5], a timed get
    returns 5; the nil element was consumed and reported to nobody. -/
theorem finding_nil_element_swallowed :
    (step ⟨[0, 5], 0⟩ (.getTimeout 3)).2 = (.val 5, [.swallowed 0, .delivered 5]) :=
  finding_nil_swallowed

/-- **double_priority.**  The double queue serves its first queue whenever it is non-empty … -/
theorem double_priority (d : DQ) (x : Nat) (r : List Nat) (h : d.q1.items = x :: r) :
    dstep d .get = ({ d with q1 := { d.q1 with items := r } }, .val x, [(1, .delivered x)]) ∧
    dstep d .getNoWait =
      ({ d with q1 := { d.q1 with items := r } }, .val x, [(1, .delivered x)]) :=
  Queue.double_priority d x r h

/-- … and an element of the second queue is handed out by get / getNoWait only if the first is empty -/
theorem double_second_only_if_first_empty (d : DQ) (op : DOp) (hop : op = .get ∨ op = .getNoWait)
    (x : Nat)
    (h : (2, Ev.delivered x) ∈ (dstep d op).2.2 ∨ (2, Ev.swallowed x) ∈ (dstep d op).2.2) :
    d.q1.items = [] :=
  Queue.double_second_only_if_first_empty d op hop x h

/-- for the timed get the same holds up to nil elements (same known finding): -/
theorem double_priority_timed_partial (d : DQ) (k : Nat) (x : Nat)
    (h : (2, Ev.delivered x) ∈ (dstep d (.getTimeout k)).2.2 ∨
         (2, Ev.swallowed x) ∈ (dstep d (.getTimeout k)).2.2) :
    ∀ y ∈ d.q1.items, y = 0 :=
  double_second_timeout d k x h

theorem finding_double_timed_get_skips_nil :
    (dstep ⟨⟨[0], 2⟩, ⟨[5], 2⟩⟩ (.getTimeout 3)).2 =
      (.val 5, [(1, .swallowed 0), (2, .delivered 5)]) :=
  finding_double_timeout_second

/-- both queues of the double queue are FIFOs that lose nothing -/
theorem double_fifo (d : DQ) (ops : List DOp) :
    d.q1.items ++ acceptedOf (untag 1 (drun d ops).2.2) =
      leftOf (untag 1 (drun d ops).2.2) ++ (drun d ops).1.q1.items ∧
    d.q2.items ++ acceptedOf (untag 2 (drun d ops).2.2) =
      leftOf (untag 2 (drun d ops).2.2) ++ (drun d ops).1.q2.items :=
  ⟨drun_fifo1 d ops, drun_fifo2 d ops⟩

/-- **timed_get.**  Over an abstract clock (any readings): the timed get returns empty-handed only
    at a reading `t` with `t − start ≥ timeout`, after a poll that found nothing. -/
theorem timed_get (start timeout : Int) (ticks : List Tick) (t : Int)
    (h : timedGet (start + timeout) ticks = some (.timedOut t)) :
    t - start ≥ timeout ∧ ∃ tk ∈ ticks, tk.now = t ∧ tk.polled = 0 :=
  ⟨timed_get_lower_bound start timeout ticks t h, (Queue.timed_get (start + timeout) ticks t h).2⟩

theorem timed_get_returns_what_it_polled (timeto : Int) (ticks : List Tick) (x : Nat)
    (h : timedGet timeto ticks = some (.got x)) : x ≠ 0 ∧ ∃ tk ∈ ticks, tk.polled = x :=
  timed_get_got timeto ticks x h

/-! ### the timed get as the polling loop it is: polls of GetNoWait interleaved with the operations of
    other threads, over an abstract clock (`timedGetQ`; `Round.others` = what other threads did to the
    queue before this poll, `Round.now` = the clock read after the sleep that follows an empty-handed
    poll) -/

/-- **lower bound with the queue in the loop**: empty-handed only at a clock reading `t` with
    `t − start ≥ timeout`, and then nothing was delivered -/
theorem timed_get_polling_lower_bound (start timeout : Int) (q : Q) (rounds : List Round) (q' : Q)
    (t : Int) (evs : List Ev)
    (h : timedGetQ (start + timeout) q rounds = (q', some (.timedOut t), evs)) :
    t - start ≥ timeout ∧ deliveredOf evs = [] :=
  timedGetQ_lower_bound start timeout q rounds q' t evs h

/-- **upper side: it returns an element if one arrives and the thread polls.**  After any prefix of
    rounds in which every poll came back empty-handed before the deadline, if the queue — after what
    the other threads did — has a non-nil head `x` at the next poll, the call returns `x`, removes
    exactly `x`, and `delivered x` is its last event. -/
theorem timed_get_returns_arrival (timeto : Int) (q : Q) (pre : List Round) (r : Round)
    (post : List Round) (qm : Q) (e : List Ev) (x : Nat) (xs : List Nat)
    (hpre : afterRounds timeto q pre = some (qm, e))
    (hhead : (run qm r.others).1.items = x :: xs) (hx : x ≠ 0) :
    timedGetQ timeto q (pre ++ r :: post) =
      ({ (run qm r.others).1 with items := xs }, some (.got x), e ++ [.delivered x]) :=
  timedGetQ_returns_arrival timeto q pre r post qm e x xs hpre hhead hx

/-- the environment-level model characterised completely -/
theorem timed_get_got_iff (timeto : Int) (ticks : List Tick) (x : Nat) :
    timedGet timeto ticks = some (.got x) ↔
      ∃ pre tk post, ticks = pre ++ tk :: post ∧ tk.polled = x ∧ x ≠ 0 ∧
        ∀ p ∈ pre, p.polled = 0 ∧ timeto - p.now > 0 :=
  timedGet_got_iff timeto ticks x

theorem timed_get_timed_out_iff (timeto : Int) (ticks : List Tick) (t : Int) :
    timedGet timeto ticks = some (.timedOut t) ↔
      ∃ pre tk post, ticks = pre ++ tk :: post ∧ tk.polled = 0 ∧ tk.now = t ∧ timeto - t ≤ 0 ∧
        ∀ p ∈ pre, p.polled = 0 ∧ timeto - p.now > 0 :=
  timedGet_timedOut_iff timeto ticks t

/-- the sequential operation `getTimeout k` *is* the polling loop with nobody else around and the
    deadline passing at the (k+1)-th clock reading: this ties the model's `extraPolls` to the clock -/
theorem timed_get_alone_is_the_sequential_op (timeto : Int) (q : Q) (pre : List Round) (r : Round)
    (post : List Round)
    (hpre : ∀ p ∈ pre, p.others = [] ∧ timeto - p.now > 0)
    (hr : r.others = [] ∧ timeto - r.now ≤ 0) :
    timedGetQ timeto q (pre ++ r :: post) =
      ({ q with items := (getTimeoutLoop (pre.length + 1) q.items).1 },
       some (resOf r.now (getTimeoutLoop (pre.length + 1) q.items).2.1),
       (getTimeoutLoop (pre.length + 1) q.items).2.2) :=
  timedGetQ_no_others timeto q pre r post hpre hr

/-! ### the known findings, characterised completely -/

/-- closed form of the timed get's loop: with `z` leading nil elements it swallows `min polls z` of
    them and then returns the first non-nil element, if the polls reach it -/
theorem nil_swallowing_closed_form (n : Nat) (items : List Nat) :
    getTimeoutLoop n items =
      if n ≤ (items.takeWhile (· = 0)).length then
        (items.drop n, 0, List.replicate n (.swallowed 0))
      else
        match items.drop (items.takeWhile (· = 0)).length with
        | [] => ([], 0, List.replicate (items.takeWhile (· = 0)).length (.swallowed 0))
        | x :: r =>
          (r, x, List.replicate (items.takeWhile (· = 0)).length (.swallowed 0) ++ [.delivered x]) :=
  getTimeoutLoop_closed n items

/-- **`RequestQueue.GetTimeout:nil-element-swallowed`, iff**: a timed get loses an element exactly
    when the head of the queue is a nil element, and it loses exactly `min polls (leading nils)` -/
theorem nil_element_swallowed_iff (q : Q) (k : Nat) :
    (swallowedOf (step q (.getTimeout k)).2.2 ≠ [] ↔ q.items.head? = some 0) ∧
    (swallowedOf (step q (.getTimeout k)).2.2).length = min (k + 1) (q.items.takeWhile (· = 0)).length :=
  ⟨swallows_iff q k, swallowed_count q k⟩

/-- the full conservation law of the property (no `swallowed` term) for every history in which no
    nil element is put -/
theorem conservation_without_nil_elements (q : Q) (ops : List Op) (hq : 0 ∉ q.items)
    (hops : ∀ op ∈ ops, op ≠ .put 0 ∧ op ≠ .putForce 0) :
    (q.items ++ acceptedOf (run q ops).2.2).Perm
      (deliveredOf (run q ops).2.2 ++ overflowedOf (run q ops).2.2 ++ clearedOf (run q ops).2.2 ++
        (run q ops).1.items) :=
  conservation_no_nil q ops hq hops

/-- **`RequestDoubleQueue.GetTimeout:nil-element-swallowed`, iff**: the timed get of the double queue
    serves the second queue although the first is not empty exactly when the first queue holds only
    nil elements and the polls that remain after swallowing them (and the leading nils of the second
    queue) reach a non-nil element of the second queue -/
theorem double_timed_get_serves_second_iff (d : DQ) (k : Nat) :
    (d.q1.items ≠ [] ∧ ∃ x, (2, Ev.delivered x) ∈ (dstep d (.getTimeout k)).2.2) ↔
      (d.q1.items ≠ [] ∧ (∀ y ∈ d.q1.items, y = 0) ∧
        ∃ x, x ≠ 0 ∧ ∃ pre post, d.q2.items = pre ++ x :: post ∧ (∀ y ∈ pre, y = 0) ∧
          d.q1.items.length + pre.length < k + 1) :=
  double_second_while_first_nonempty_iff d k

/-- … while Get / GetNoWait hand out an element of the second queue iff the first is empty and that
    element is the head of the second -/
theorem double_get_serves_second_iff (d : DQ) (op : DOp) (hop : op = .get ∨ op = .getNoWait) (x : Nat) :
    (2, Ev.delivered x) ∈ (dstep d op).2.2 ↔ d.q1.items = [] ∧ d.q2.items.head? = some x :=
  double_second_get_iff d op hop x

example : (timedGetQ 100 ⟨[], 2⟩ [⟨[], 40⟩, ⟨[.put 7], 80⟩, ⟨[], 120⟩]).2.1 = some (.got 7) := by decide
example : (timedGetQ 100 ⟨[], 2⟩ [⟨[], 40⟩, ⟨[.put 7, .get], 80⟩, ⟨[], 120⟩]).2.1 = some (.timedOut 120) := by decide

/-! ### with the proposed repair (proposed/C11/fix-KF-nil-element-swallowed.diff) the exceptions disappear -/

/-- the repaired timed get hands a nil element out like any other: conservation without a `swallowed`
    term, for all elements and histories (`runF` = the model with the repaired GetTimeout) -/
theorem conservation_repaired (q : Q) (ops : List Op) :
    (q.items ++ acceptedOf (runF q ops).2.2).Perm
      (deliveredOf (runF q ops).2.2 ++ overflowedOf (runF q ops).2.2 ++ clearedOf (runF q ops).2.2 ++
        (runF q ops).1.items) :=
  conservationF q ops

theorem fifo_repaired (q : Q) (ops : List Op) :
    q.items ++ acceptedOf (runF q ops).2.2 = leftOf (runF q ops).2.2 ++ (runF q ops).1.items :=
  runF_fifo q ops

/-- the repaired model — the one the code now corresponds to (the repair is applied; the harness compares
    with `stepF`) — differs from `step` in the timed get only, where it is a single GetNoWait; so every
    per-operation theorem above about put / putForce / get / getNoWait / clear / setCapacity / size holds
    for it verbatim, and `fifo_repaired` / `conservation_repaired` are the history-level statements -/
theorem repaired_model_differs_only_in_timed_get (q : Q) (op : Op) :
    ((∀ k, op ≠ .getTimeout k) → stepF q op = step q op) ∧
    (∀ k, stepF q (.getTimeout k) = step q .getNoWait) :=
  ⟨stepF_other q op, fun k => stepF_getTimeout q k⟩

/-- … and the double queue's timed get serves the second queue only if the first is empty -/
theorem double_priority_timed_repaired (d : DQ) (k : Nat) (x : Nat)
    (h : (2, Ev.delivered x) ∈ (dstepF d (.getTimeout k)).2.2) : d.q1.items = [] :=
  Queue.double_priority_timed_fixed d k x h

/-! ### the double queue's composite operations (Size, Clear over two lists) under the outer lock -/

/-- under the queue's lock, Clear is exactly its two halves one after the other, and Size adds two sizes
    read from one and the same state; that nothing of another thread falls between the halves, for every
    schedule, is `composite_body_is_exclusive` below; that every method holds the lock is
    `C11Gen.RequestDoubleQueue_<Method>_locked` -/
theorem composite_ops_are_their_halves (d : DQ) :
    (dstep d .clear).1 = microRun d [.clear1, .clear2] ∧
    (dstep d .size).2.1 = .int (d.q1.size + d.q2.size) ∧ (dstep d .size).1 = d :=
  ⟨clear_is_its_two_halves d, size_is_sum_of_one_state d⟩

open Conc in
/-- for every schedule: while a thread is inside the body of an operation on the double queue (between
    `Lock()` and `Unlock()` of the outer lock), no step of any other thread changes either list, acquires
    the lock or linearizes — the halves of a composite operation see one state -/
theorem composite_body_is_exclusive (c1 c2 : Int) (pre : List (Act DOp)) (s s' : St DQ DOp Ret)
    (hs : runActs SeqSpec.dqstep (initSt ⟨⟨[], c1⟩, ⟨[], c2⟩⟩) pre = some s) (t : Nat) (hcs : inCS (s.ph t))
    (others : List (Act DOp)) (ho : ∀ a ∈ others, a.actor ≠ t)
    (hr : runActs SeqSpec.dqstep s others = some s') :
    s'.sh = s.sh ∧ s'.holder = some t ∧ s'.ph t = s.ph t ∧ linOps s'.log = linOps s.log :=
  foreign_run_in_cs SeqSpec.dqstep _ s s' (reachable_inv SeqSpec.dqstep _ pre s hs) t hcs others ho hr

/-- non-vacuity: a thread inside `Clear` (lock taken, snapshot read) while another has invoked `Put1` -/
example :
    (Conc.runActs SeqSpec.dqstep (Conc.initSt ⟨⟨[], 2⟩, ⟨[], 2⟩⟩)
      [.inv 1 .clear, .acq 1, .load 1, .inv 2 (.put1 7)]).map (fun s => (s.holder, Conc.linOps s.log)) =
    some (some 1, []) := by rfl

/-- **what the outer lock is for**: done as two separately locked halves (each list still protected by its
    own mutex — no data race, no sequential difference) Clear is not atomic … -/
theorem finding_two_step_clear_not_atomic :
    let d : DQ := ⟨⟨[], 0⟩, ⟨[], 0⟩⟩
    microRun d [.clear1, .put1 7, .put2 8, .clear2] = ⟨⟨[7], 0⟩, ⟨[], 0⟩⟩ ∧
    microRun d [.clear1, .put1 7, .put2 8, .clear2] ∉ atomicClearOutcomes d 7 8 :=
  Queue.finding_two_step_clear_not_atomic

/-- … and Size can report a number of elements the queue never held -/
theorem finding_two_step_size_not_atomic :
    let d0 : DQ := ⟨⟨[5], 0⟩, ⟨[], 0⟩⟩
    let d1 := microRun d0 [.take, .put2 6]
    d0.q1.size + d1.q2.size = 2 ∧
    (d0.q1.size + d0.q2.size = 1) ∧ ((micro d0 .take).q1.size + (micro d0 .take).q2.size = 0) ∧
    (d1.q1.size + d1.q2.size = 1) :=
  Queue.finding_two_step_size_not_atomic

/-! ### concurrent: the queue as a monitor object — any number of producers and consumers, any
    schedule, consumers that block before the first producer arrives included -/

open Conc.Cond in
/-- the monitor machine is linearizable for every sequential object and broadcast table -/
theorem monitor_linearizable {σ Op' Ret' : Type} (step' : σ → Op' → Option (σ × Ret'))
    (bc : Op' → Bool) (init : σ) (sched : List (Act Op')) (s : St σ Op' Ret')
    (h : runActs step' bc (initSt init) sched = some s) :
    Conc.wn s.log ∧ retsOk step' init s.log ∧ s.sh = seqState step' init s.log :=
  Conc.Cond.monitor_linearizable step' bc init sched s h

/-- **no_lost_wakeup.**  In every reachable state a thread sits in the wait set only if it is a
    `get` and the queue is empty — at every instant, since this is an invariant.  (It rests on:
    Wait releases the lock and joins the wait set atomically; every operation that can make the
    queue non-empty broadcasts — `queue_H`, tied to the source by C11Gen.) -/
theorem no_lost_wakeup (q0 : Q) (sched : List (Conc.Cond.Act Op)) (s : Conc.Cond.St Q Op CRet)
    (h : Conc.Cond.runActs cstep qbcast (Conc.Cond.initSt q0) sched = some s) (t : Nat) (op : Op)
    (hw : s.ph t = .waiting op) : op = .get ∧ s.sh.items = [] :=
  queue_no_lost_wakeup q0 sched s h t op hw

/-- the producer that makes the queue non-empty moves every waiting consumer out of the wait set -/
theorem put_wakes_waiters (s s1 : Conc.Cond.St Q Op CRet) (t u : Nat) (op' : Op)
    (hw : s.ph t = .waiting .get) (hl : s.ph u = .locked op') (hb : qbcast op' = true)
    (hn : Conc.Cond.next cstep qbcast s (.body u) = some s1) : s1.ph t = .woken .get :=
  put_wakes_consumer s s1 t u op' hw hl hb hn

/-- **a blocked get returns as soon as an element is available and it is scheduled**: with the lock
    free and a non-empty queue, the consumer's next four steps succeed and return the head. -/
theorem blocked_get_returns (q0 : Q) (sched : List (Conc.Cond.Act Op)) (s : Conc.Cond.St Q Op CRet)
    (h : Conc.Cond.runActs cstep qbcast (Conc.Cond.initSt q0) sched = some s) (t : Nat)
    (x : Nat) (rest : List Nat)
    (hp : s.ph t = .invoked .get ∨ s.ph t = .woken .get) (hfree : s.holder = none)
    (hi : s.sh.items = x :: rest) :
    ∃ s', Conc.Cond.runActs cstep qbcast s [.acq t, .body t, .rel t, .ret t] = some s' ∧
      s'.sh = { s.sh with items := rest } ∧
      s'.log = .ret t .get (.val x, [.delivered x]) :: .lin t .get (.val x, [.delivered x]) :: s.log ∧
      s'.ph t = .idle :=
  Queue.blocked_get_returns q0 sched s h t x rest hp hfree hi

/-! ### progress under explicit fairness — infinite executions, any number of producers and
    consumers, an adversarial scheduler that is only (weakly / strongly) fair to thread `t`

  `IsExec st acts`: an infinite execution of the monitor machine; `WF a`: an action that stays enabled
  forever from some point on is eventually taken; `SF a`: an action that is enabled again and again
  is eventually taken. -/

open Conc.Cond in
/-- **blocked_get_returns under weak fairness.**  Thread `t` is in a `get` (about to lock, or woken
    from the wait set); as long as it has not got the lock, the lock is free and the queue is
    non-empty whenever one looks.  With weak fairness of t's own four actions it returns an element. -/
theorem fair_blocked_get_returns {st : Nat → St Q Op CRet} {acts : Nat → Act Op}
    (hE : IsExec cstep qbcast st acts) (q0 : Q) (h0 : Reach q0 st) (t : Nat)
    (hwa : WF cstep qbcast st acts (.acq t)) (hwb : WF cstep qbcast st acts (.body t))
    (hwr : WF cstep qbcast st acts (.rel t)) (hwt : WF cstep qbcast st acts (.ret t))
    (i : Nat) (hp : (st i).ph t = .invoked .get ∨ (st i).ph t = .woken .get)
    (hG : ∀ j, i ≤ j → ((st j).ph t = .invoked .get ∨ (st j).ph t = .woken .get) →
      (st j).holder = none ∧ (st j).sh.items ≠ []) :
    ∃ j, i < j ∧ ∃ x l, (st j).log = .ret t .get (.val x, [.delivered x]) :: l ∧
      (st j).ph t = .idle :=
  Queue.fair_blocked_get_returns hE q0 h0 t hwa hwb hwr hwt i hp hG

open Conc.Cond in
/-- **… with a contended lock (strong fairness of the acquisition).**  Other producers and consumers
    may take the lock in between; it suffices that the lock is free again and again and that the queue
    is non-empty whenever `t` wants the lock and finds it free.  The element returned is the head of
    the queue at the moment `t` got the lock. -/
theorem fair_blocked_get_returns_contended {st : Nat → St Q Op CRet} {acts : Nat → Act Op}
    (hE : IsExec cstep qbcast st acts) (q0 : Q) (h0 : Reach q0 st) (t : Nat)
    (hsa : SF cstep qbcast st acts (.acq t)) (hwb : WF cstep qbcast st acts (.body t))
    (hwr : WF cstep qbcast st acts (.rel t)) (hwt : WF cstep qbcast st acts (.ret t))
    (i : Nat) (hp : (st i).ph t = .invoked .get ∨ (st i).ph t = .woken .get)
    (hfree : ∀ j, i ≤ j → ((st j).ph t = .invoked .get ∨ (st j).ph t = .woken .get) →
      ∃ k, j ≤ k ∧ (st k).holder = none)
    (hG : ∀ j, i ≤ j → ((st j).ph t = .invoked .get ∨ (st j).ph t = .woken .get) →
      (st j).holder = none → (st j).sh.items ≠ []) :
    ∃ j, i < j ∧ ∃ x l, (st j).log = .ret t .get (.val x, [.delivered x]) :: l ∧
      (st j).ph t = .idle ∧
      ∃ a k rest, i ≤ a ∧ a < k ∧ k < j ∧ acts a = .acq t ∧ acts k = .body t ∧
        (st k).sh = (st a).sh ∧ (st a).sh.items = x :: rest ∧
        (st (k + 1)).sh = { (st a).sh with items := rest } :=
  Queue.sfair_blocked_get_returns hE q0 h0 t hsa hwb hwr hwt i hp hfree hG

open Conc.Cond in
/-- **no lost wake-up along an execution.**  A consumer that is in the wait set at `i` has been moved
    out of it (is `woken`) at the latest at the first moment the queue is non-empty — and it was a
    `get` waiting on an empty queue. -/
theorem waiter_leaves_wait_set {st : Nat → St Q Op CRet} {acts : Nat → Act Op}
    (hE : IsExec cstep qbcast st acts) (q0 : Q) (h0 : Reach q0 st) (t : Nat) (op : Op)
    (i k : Nat) (hik : i ≤ k) (hw : (st i).ph t = .waiting op) (hq : (st k).sh.items ≠ []) :
    op = .get ∧ (st i).sh.items = [] ∧
    ∃ j, i < j ∧ j ≤ k ∧ (st j).ph t = .woken op ∧
      ∀ m, i ≤ m → m < j → (st m).ph t = .waiting op :=
  Queue.fair_waiter_leaves_wait_set hE q0 h0 t op i k hik hw hq

open Conc.Cond in
/-- waiter + contention: a consumer blocked before any producer arrived returns an element once the
    queue becomes non-empty, under the hypotheses of `fair_blocked_get_returns_contended` -/
theorem fair_waiting_get_returns {st : Nat → St Q Op CRet} {acts : Nat → Act Op}
    (hE : IsExec cstep qbcast st acts) (q0 : Q) (h0 : Reach q0 st) (t : Nat)
    (hsa : SF cstep qbcast st acts (.acq t)) (hwb : WF cstep qbcast st acts (.body t))
    (hwr : WF cstep qbcast st acts (.rel t)) (hwt : WF cstep qbcast st acts (.ret t))
    (i k : Nat) (hik : i ≤ k) (hw : (st i).ph t = .waiting .get) (hq : (st k).sh.items ≠ [])
    (hfree : ∀ j, i ≤ j → ((st j).ph t = .invoked .get ∨ (st j).ph t = .woken .get) →
      ∃ k, j ≤ k ∧ (st k).holder = none)
    (hG : ∀ j, i ≤ j → ((st j).ph t = .invoked .get ∨ (st j).ph t = .woken .get) →
      (st j).holder = none → (st j).sh.items ≠ []) :
    ∃ j, i < j ∧ ∃ x l, (st j).log = .ret t .get (.val x, [.delivered x]) :: l ∧
      (st j).ph t = .idle :=
  Queue.sfair_waiting_get_returns hE q0 h0 t hsa hwb hwr hwt i k hik hw hq hfree hG

open Conc.Cond in
/-- the fairness hypotheses are satisfiable (an explicit infinite execution: a producer puts, the
    consumer gets, forever) -/
theorem fairness_hypotheses_satisfiable :
    ∃ (st : Nat → St Q Op CRet) (acts : Nat → Act Op),
      IsExec cstep qbcast st acts ∧ Reach demoQ st ∧
      WF cstep qbcast st acts (.acq 0) ∧ WF cstep qbcast st acts (.body 0) ∧
      WF cstep qbcast st acts (.rel 0) ∧ WF cstep qbcast st acts (.ret 0) ∧
      (st 6).ph 0 = .invoked .get ∧
      ∀ j, ((st j).ph 0 = .invoked .get ∨ (st j).ph 0 = .woken .get) →
        (st j).holder = none ∧ (st j).sh.items ≠ [] :=
  Queue.fair_hyps_satisfiable

/-- what goes wrong without the broadcast: a consumer waits although the queue holds an element -/
theorem finding_lost_wakeup_without_broadcast : ¬ Conc.Cond.NoEnable cstep (fun _ => false) :=
  queue_H_needs_put_broadcast

/-- the concurrent execution *is* a sequential history in linearization order -/
theorem concurrent_is_sequential (q0 : Q) (sched : List (Conc.Cond.Act Op)) (s : Conc.Cond.St Q Op CRet)
    (h : Conc.Cond.runActs cstep qbcast (Conc.Cond.initSt q0) sched = some s) :
    (run q0 (opsOf (Conc.linOps s.log))).1 = s.sh ∧
    (run q0 (opsOf (Conc.linOps s.log))).2.2 = evsOf (Conc.linOps s.log) ∧
    (run q0 (opsOf (Conc.linOps s.log))).2.1 = retsOf (Conc.linOps s.log) :=
  conc_run q0 sched s h

/-- **exactly_once.**  Every accepted element is delivered to exactly one consumer, or reported
    evicted, or cleared, or (nil only) swallowed, or still queued — as multisets. -/
theorem exactly_once (q0 : Q) (sched : List (Conc.Cond.Act Op)) (s : Conc.Cond.St Q Op CRet)
    (h : Conc.Cond.runActs cstep qbcast (Conc.Cond.initSt q0) sched = some s) :
    (q0.items ++ acceptedOf (evsOf (Conc.linOps s.log))).Perm
      (deliveredOf (evsOf (Conc.linOps s.log)) ++ overflowedOf (evsOf (Conc.linOps s.log)) ++
        clearedOf (evsOf (Conc.linOps s.log)) ++ swallowedOf (evsOf (Conc.linOps s.log)) ++
        s.sh.items) :=
  Queue.exactly_once q0 sched s h

/-- **per_producer_order.**  For every producer (any predicate on elements): the elements it had
    accepted are delivered in the order they were accepted … -/
theorem per_producer_order (q0 : Q) (sched : List (Conc.Cond.Act Op)) (s : Conc.Cond.St Q Op CRet)
    (h : Conc.Cond.runActs cstep qbcast (Conc.Cond.initSt q0) sched = some s) (p : Nat → Bool) :
    ((deliveredOf (evsOf (Conc.linOps s.log))).filter p).Sublist
      ((q0.items ++ acceptedOf (evsOf (Conc.linOps s.log))).filter p) :=
  conc_per_producer_order q0 sched s h p

/-- … and acceptance order extends each thread's program order: a thread's operations appear in the
    linearization in the order it invoked them (plus at most one pending operation) -/
theorem program_order (q0 : Q) (sched : List (Conc.Cond.Act Op)) (s : Conc.Cond.St Q Op CRet)
    (h : Conc.Cond.runActs cstep qbcast (Conc.Cond.initSt q0) sched = some s) (t : Nat) :
    (Conc.Cond.invsN t s.log).reverse =
      ((Conc.linOps s.log).filter (fun x => x.1 == t)).map (fun x => x.2.1) ++
        Conc.Cond.pendOf (Conc.Cond.absPh (s.ph t)) :=
  Queue.program_order q0 sched s h t

/-! ### several timed gets on one queue at once (`Queue/TimedMany.lean`; driver line `TM`)

  A history = operations of other threads (`other op`, linearized) and turns of the timed consumers'
  polling loops (`poll i now`), in any order, with any clock readings; each consumer has its own deadline.
  The poll is the repaired one (`poll() (v, taken)`: the code as it stands). -/

/-- **a timed get returns empty-handed only after *its own* timeout**, whatever the other consumers of
    the queue and the producers do: the call of consumer `j`, running at the start, has ended with
    `timedOut t` ⇒ `t` is at or after `j`'s deadline, it ended in a turn of `j` itself, the queue was empty
    in that turn and the call was still running until then -/
theorem timed_gets_each_by_its_own_deadline (s : MSt) (es : List MEv) (j : Nat) (t : Int)
    (h0 : s.res j = none) (h : (mrun s es).1.res j = some (.timedOut t)) :
    ∃ d pre post, s.timeto j = some d ∧ d - t ≤ 0 ∧ es = pre ++ MEv.poll j t :: post ∧
      (mrun s pre).1.q.items = [] ∧ (mrun s pre).1.res j = none :=
  mrun_timedOut s es j t h0 h

/-- nothing but a turn of its own loop ends a timed get: not another consumer reaching its deadline, not
    an element that another consumer took, not a put, a refused put, a Clear (one event … -/
theorem timed_get_not_ended_by_others (s : MSt) (e : MEv) (j : Nat) (h : ∀ now, e ≠ .poll j now) :
    (mstep s e).1.res j = s.res j :=
  mstep_frame s e j h

/-- … and whole histories in which the consumer has no turn) -/
theorem timed_get_not_ended_by_others_history (s : MSt) (es : List MEv) (j : Nat)
    (h : ∀ now, MEv.poll j now ∉ es) : (mrun s es).1.res j = s.res j :=
  mrun_frame s es j h

/-- a timed get that came back with an element took the head of the queue in a turn of its own -/
theorem timed_gets_got_the_head (s : MSt) (es : List MEv) (j : Nat) (x : Nat)
    (h0 : s.res j = none) (h : (mrun s es).1.res j = some (.got x)) :
    ∃ now pre post r, es = pre ++ MEv.poll j now :: post ∧ (mrun s pre).1.q.items = x :: r ∧
      (mrun s pre).1.res j = none :=
  mrun_got s es j x h0 h

/-- an element taken in a turn goes to exactly that consumer: one `delivered` event, the head leaves the
    queue, that consumer's call ends with it, every other consumer's call is untouched -/
theorem timed_gets_deliver_to_exactly_one (s : MSt) (i : Nat) (now : Int) (x : Nat)
    (h : Ev.delivered x ∈ (mstep s (.poll i now)).2) :
    (mstep s (.poll i now)).2 = [.delivered x] ∧ (mstep s (.poll i now)).1.res i = some (.got x) ∧
    s.res i = none ∧ (∃ r, s.q.items = x :: r ∧ (mstep s (.poll i now)).1.q.items = r) ∧
    ∀ j, j ≠ i → (mstep s (.poll i now)).1.res j = s.res j :=
  mstep_poll_delivers s i now x h

/-- the queue content and the events of a history with any number of timed consumers are those of a
    sequential history of the (repaired) queue model — the turns that found an element are its `GetNoWait`s —
    hence FIFO as the exact list equation and conservation without exception hold for it -/
theorem timed_gets_refine_sequential (s : MSt) (es : List MEv) :
    ∃ ops : List Op, ops.length ≤ es.length ∧
      (mrun s es).1.q = (runF s.q ops).1 ∧ (mrun s es).2 = (runF s.q ops).2.2 :=
  mrun_sequential s es

theorem timed_gets_fifo_and_conservation (s : MSt) (es : List MEv) :
    s.q.items ++ acceptedOf (mrun s es).2 = leftOf (mrun s es).2 ++ (mrun s es).1.q.items ∧
    (s.q.items ++ acceptedOf (mrun s es).2).Perm
      (deliveredOf (mrun s es).2 ++ overflowedOf (mrun s es).2 ++ clearedOf (mrun s es).2 ++
        (mrun s es).1.q.items) := by
  obtain ⟨ops, _, hq, he⟩ := mrun_sequential s es
  rw [hq, he]
  exact ⟨runF_fifo s.q ops, conservationF s.q ops⟩

/-- the two histories of the seeded change of round 7: deadlines 200 and 1500, no producer — the second
    call is still running after the first timed out; two consumers and one element — the loser is still
    running, and times out only at its own deadline -/
example : ((mrun (MSt.start ⟨[], 10⟩ [200, 1500]) [.poll 0 66, .poll 1 500, .poll 0 201, .poll 1 834]).1.cs.map (·.res)) =
    [some (.timedOut 201), none] := by decide
example : ((mrun (MSt.start ⟨[], 10⟩ [1200, 1200]) [.poll 0 400, .poll 1 400, .other (.put 7), .poll 1 0, .poll 0 900,
    .poll 0 1201]).1.cs.map (·.res)) = [some (.timedOut 1201), some (.got 7)] := by decide
example : (MSt.start ⟨[], 10⟩ [200, 1500]).res 1 = none := by decide

/-! ### the queue over the pointer-level doubly linked list (`Queue/OverLinked.lean`; driver line `QL`)

  `stepL` is RequestQueue written the way the Go methods are — `Size()`, `Add`, `RemoveFirst`, `Clear` of
  C13's CodeModel of util/list/LinkedList.go (nodes in a heap, first/last/prev/next pointers, a size
  counter) — instead of on a plain list.  -/

/-- one operation from any well-formed list: same return value, same events, well-formed list holding the
    abstract content afterwards -/
theorem queue_over_linked_list_step (ql : QL) (q : Q) (op : Op) (h : RefL ql q) :
    (stepL ql op).2 = (stepF q op).2 ∧ RefL (stepL ql op).1 (stepF q op).1 :=
  stepL_refines ql q op h

/-- **every history** of `NewRequestQueue(cap)` over the linked list returns and reports what the abstract
    queue does; the list stays well-formed and holds exactly the abstract content -/
theorem queue_over_linked_list_refines (cap : Int) (ops : List Op) :
    (runL (QL.new cap) ops).2 = (runF ⟨[], cap⟩ ops).2 ∧
    RefL (runL (QL.new cap) ops).1 (runF ⟨[], cap⟩ ops).1 :=
  runL_refines _ _ ops (RefL.new cap)

/-- hence FIFO (exact list equation) and conservation for the queue over the linked list: the content
    `items` is what the well-formed list holds at the end -/
theorem fifo_and_conservation_over_linked_list (cap : Int) (ops : List Op) :
    ∃ items ids, Lists.Linked.Rep (runL (QL.new cap) ops).1.list ids (items.map encE) ∧
      acceptedOf (runL (QL.new cap) ops).2.2 = leftOf (runL (QL.new cap) ops).2.2 ++ items ∧
      (acceptedOf (runL (QL.new cap) ops).2.2).Perm
        (deliveredOf (runL (QL.new cap) ops).2.2 ++ overflowedOf (runL (QL.new cap) ops).2.2 ++
          clearedOf (runL (QL.new cap) ops).2.2 ++ items) := by
  obtain ⟨h1, _, ids, h2⟩ := runL_refines (QL.new cap) ⟨[], cap⟩ ops (RefL.new cap)
  have e : (runL (QL.new cap) ops).2.2 = (runF ⟨[], cap⟩ ops).2.2 := by rw [h1]
  refine ⟨_, ids, h2, ?_, ?_⟩
  · rw [e]; simpa using runF_fifo ⟨[], cap⟩ ops
  · rw [e]; simpa using conservationF ⟨[], cap⟩ ops

example : (runL (QL.new 2) [.put 1, .put 2, .put 3, .putForce 4, .get, .getNoWait, .getTimeout 0]).2.1 =
    [.bool true, .bool true, .bool false, .bool false, .val 2, .val 4, .val 0] := by decide

/-- the capacity is changed by `SetCapacity` and by nothing else, and `GetCapacity` returns it -/
theorem capacity_changed_only_by_setCapacity (q : Q) (op : Op) :
    ((stepF q op).1.cap = match op with | .setCapacity c => c | _ => q.cap) ∧
    (stepF q .getCapacity).2.1 = .int q.cap := by
  refine ⟨?_, rfl⟩
  rw [stepF_eq]
  cases op <;> simp only [step] <;> (try split) <;> rfl

/-- the double queue's observers (`Size1`, `Size2`, `GetCapacity1`, `GetCapacity2`, `Size`) change nothing, cause
    no event and return the size / capacity of the list they name (`Size`: the sum, read from one state) -/
theorem double_observers_are_pure (d : DQ) :
    dstep d .size1 = (d, .int d.q1.size, []) ∧ dstep d .size2 = (d, .int d.q2.size, []) ∧
    dstep d .getCapacity1 = (d, .int d.q1.cap, []) ∧ dstep d .getCapacity2 = (d, .int d.q2.cap, []) ∧
    dstep d .size = (d, .int (d.q1.size + d.q2.size), []) :=
  ⟨rfl, rfl, rfl, rfl, rfl⟩

/-! ### non-vacuity -/

example : (run ⟨[], 2⟩ [.put 1, .put 2, .put 3, .putForce 4, .get, .getNoWait, .getNoWait]).2 =
    ([.bool true, .bool true, .bool false, .bool false, .val 2, .val 4, .val 0],
     [.accepted 1, .accepted 2, .failed 3, .overflowed 1, .accepted 4, .delivered 2, .delivered 4]) := by
  decide

example : timedGet (100 + 50) [⟨0, 120⟩, ⟨0, 140⟩, ⟨0, 151⟩] = some (.timedOut 151) := by decide

end C11
