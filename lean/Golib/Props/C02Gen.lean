/-
  Property C02, tie A — the facts `xlate/c02` regenerates from lang/value on every run
  (Golib/Gen/C02.lean) are the ones the model was written against (Golib/Value/Codes.lean).

  A changed type-code constant, a reordered / retargeted arm of `CreateValue`, a `GetValueType`
  returning another constant, or a `Write` / `Read` body calling other stream methods changes the
  generated data, and the corresponding equation below no longer checks.
-/
import Golib.Gen.C02
import Golib.Value.Codes
import Golib.Value.ApiTable

namespace C02Gen
open Value

/-- the 21 type-code constants of Value.go -/
theorem consts_agree : Gen.C02.consts = constTable := by decide

/-- the `CreateValue` switch: every case label creates the type the model decodes under that code -/
theorem factory_agrees : Gen.C02.factory = factoryTable := by decide

/-- per type: its `GetValueType` constant and the stream calls of its `Write` / `Read` bodies -/
theorem types_agree : Gen.C02.types = typeTable := by decide

/-- `WriteValue` writes the tag byte then the body; `ReadValue` reads the tag, creates, reads -/
theorem write_read_value_agree :
    Gen.C02.writeValue = writeValueCalls ∧ Gen.C02.readValue = readValueCalls := by decide

/-- hence, read off the *generated* tables: every implemented type is written under the code the
    model uses, and that code creates the same type again; the codes are pairwise distinct -/
theorem source_codes_roundtrip :
    ∀ c ∈ Ctor.all,
      ((Gen.C02.types.find? (fun e => e.1 == c.typeName)).bind (fun e =>
          (Gen.C02.consts.find? (fun k => k.1 == e.2.1)).map (·.2))) = some c.code ∧
      ((Gen.C02.consts.find? (fun k => k.2 == c.code)).bind (fun k =>
          (Gen.C02.factory.find? (fun e => e.1 == k.1)).map (·.2))) = some c.typeName := by decide

/-- the only calls left out of the skeletons are the availability guard `CheckCount` (reads
    nothing; rejects only counts that the remaining bytes cannot satisfy, on which decoding fails
    anyway — the model's decoders fail there too), and only inside `Read` bodies -/
theorem guards_are_noops :
    Gen.C02.guards.all (fun g => g.2.1 == "Read" && g.2.2.all (· == "CheckCount")) = true := by decide

/-- **the codec keeps no state between calls.**  `value_roundtrip` is a statement about one call;
    that it describes *every* call of a process — whatever was decoded or encoded before, failed
    or not, on whichever goroutine — needs the code to have no package-level mutable state.
    Regenerated fact: no function of lang/value, io, util/hmap, util/hash writes (assigns,
    increments, appends to, takes the address of) a package-level variable … -/
theorem no_package_state_written : Gen.C02.stateRefs.all (fun r => r.2.2.1 == "r") = true := by decide

/-- … and in lang/value and io the only package-level variable is the shared `NULL_VALUE`, read by
    its constructor only: no intern table, scratch buffer or counter exists that a `Read` / `Write`
    could consult (the harness's decode-history, failed-decode and concurrent stages look for the
    behaviour; this looks for the mechanism) -/
theorem codec_has_no_hidden_state :
    Gen.C02.pkgVars.filter (fun p => p.1 == "lang/value" || p.1 == "io") = codecPkgVars ∧
    Gen.C02.stateRefs.filter (fun r => r.1 == "lang/value" || r.1 == "io") = codecStateRefs := by decide

/-- the exported wrappers, typed look-ups and map-only entry points modelled in Golib/Value/Api.lean: the calls
    and type-code tests of every body are the ones the model makes — the constructor a wrapper stores
    (`PutLong` / `AddLong`: DecimalValue, `PutString` / `AddString`: TextValue, `NewList`: ListValue) and the
    constant a typed look-up tests (`GetLong`: VALUE_DECIMAL, `GetFloat`: VALUE_FLOAT …) are read off the model
    (`storedM`, `testedM`), `PutAll` enumerates the other map and Puts, `WriteMapValue` / `IntMapValue.WriteValue`
    are tag byte + body like `WriteValue`, `ReadMapValue` reads one byte and compares it with the map's code -/
theorem api_skeletons_agree : Gen.C02.apiCalls = apiTable := by decide

/-- what `storedM` / `testedM` read off the model, spelled out (so that a change of the model is seen here) -/
theorem api_model_choices :
    storedM (.putLong [] 0) = "NewDecimalValue" ∧ storedM (.putString [] []) = "NewTextValue" ∧
    storedM (.newList []) = "NewListValue" ∧ storedL (.addLong 0) = "NewDecimalValue" ∧
    testedM .getLong = ["==VALUE_DECIMAL"] ∧ testedM .getFloat = ["==VALUE_FLOAT"] ∧
    testedM .getString = ["==VALUE_TEXT"] ∧ testedM .getBool = ["==VALUE_BOOLEAN"] ∧
    testedL .getString = ["==VALUE_TEXT"] ∧ testedL .getBool = ["==VALUE_BOOLEAN"] := by decide

theorem source_codes_distinct : (Gen.C02.consts.map (·.2)).Nodup := by decide

end C02Gen
