/-
  Golib.Props.X05 — extension check X05: the string utilities of util/stringutil/StringUtil.go that no property
  speaks about, uuidutil.ToLong, percentutil.TopFloat, exception.CustomException.Error and the ansi colours.
  Models: Golib.Ext.StrUtil (over Golib.Ext.StrLib / StrLib2).  Byte strings as Go indexes them; where the code
  decodes UTF-8 the model works on Go's rune chunks.  `…_partial` = the evident law under the narrowest hypothesis
  that makes it true of the code that exists; `finding_*` = a concrete witness where it fails (replayed on the Go
  code by harness/x05).
-/
import Golib.Ext.StrUtilLemmas

namespace X05
open Ext.Str Ext.StrUtil

/-! ## padding: LPad / RPad / LPadInt -/

/-- the padded text has exactly `max(len(s), n)` bytes (any `n`, negative included) -/
theorem lpad_length (s : Bytes) (n : Int) : (lpad s n).length = max s.length n.toNat := by
  unfold lpad
  split
  · rename_i h; have : s = [] := by simpa using h
    subst this; simp [padding_eq]
  · split
    · rw [Nat.max_def]; split <;> omega
    · simp only [padding_eq, List.length_append, List.length_replicate]; rw [Nat.max_def]; split <;> omega

theorem rpad_length (s : Bytes) (n : Int) : (rpad s n).length = max s.length n.toNat := by
  unfold rpad
  split
  · rename_i h; have : s = [] := by simpa using h
    subst this; simp [padding_eq]
  · split
    · rw [Nat.max_def]; split <;> omega
    · simp only [padding_eq, List.length_append, List.length_replicate]; rw [Nat.max_def]; split <;> omega

/-- LPad only adds blanks in front: the text is a suffix of the result -/
theorem lpad_suffix (s : Bytes) (n : Int) : ∃ k, lpad s n = List.replicate k 32 ++ s := by
  unfold lpad
  split
  · rename_i h; have : s = [] := by simpa using h
    exact ⟨n.toNat, by simp [this, padding_eq]⟩
  · split
    · exact ⟨0, by simp⟩
    · exact ⟨_, by rw [padding_eq]⟩

/-- RPad only adds blanks behind: the text is a prefix of the result -/
theorem rpad_prefix (s : Bytes) (n : Int) : ∃ k, rpad s n = s ++ List.replicate k 32 := by
  unfold rpad
  split
  · rename_i h; have : s = [] := by simpa using h
    exact ⟨n.toNat, by simp [this, padding_eq]⟩
  · split
    · exact ⟨0, by simp⟩
    · exact ⟨_, by rw [padding_eq]⟩

theorem lpad_idem (s : Bytes) (n : Int) : lpad (lpad s n) n = lpad s n := by
  have hl := lpad_length s n
  generalize lpad s n = t at hl
  unfold lpad
  split
  · rename_i h; have ht : t = [] := by simpa using h
    subst ht
    have : n.toNat = 0 := by simp at hl; omega
    simp [padding_eq, this]
  · split
    · rfl
    · rename_i h2; exfalso; apply h2; rw [hl, Nat.max_def]; split <;> omega

theorem rpad_idem (s : Bytes) (n : Int) : rpad (rpad s n) n = rpad s n := by
  have hl := rpad_length s n
  generalize rpad s n = t at hl
  unfold rpad
  split
  · rename_i h; have ht : t = [] := by simpa using h
    subst ht
    have : n.toNat = 0 := by simp at hl; omega
    simp [padding_eq, this]
  · split
    · rfl
    · rename_i h2; exfalso; apply h2; rw [hl, Nat.max_def]; split <;> omega

theorem lpadInt_length (v size : Int) : (lpadInt v size).length = max (itoa v).length size.toNat := by
  unfold lpadInt
  simp only
  split
  · rw [Nat.max_def]; split <;> omega
  · simp only [padding_eq, List.length_append, List.length_replicate]; rw [Nat.max_def]; split <;> omega

/-- law "LPadInt writes v with leading zeros": true for v ≥ 0 (the result is zeros followed by the digits) -/
theorem lpadInt_partial (v size : Int) (hv : 0 ≤ v) : ∃ k, lpadInt v size = List.replicate k 48 ++ natDigits v.natAbs := by
  have e : itoa v = natDigits v.natAbs := by simp [itoa]; omega
  unfold lpadInt
  simp only [e]
  split
  · exact ⟨0, by simp⟩
  · exact ⟨_, by rw [padding_eq]⟩

/-- … and false for a negative v: the zeros go in front of the sign and the text is no number any more.
    `LPadInt(-5, 4) = "00-5"`, which strconv.Atoi rejects. -/
theorem finding_lpadInt_negative : lpadInt (-5) 4 = [48, 48, 45, 53] ∧ (atoi [48, 48, 45, 53]).2 = false := by
  constructor <;> decide

example : lpadInt 5 4 = [48, 48, 48, 53] ∧ atoi [48, 48, 48, 53] = (5, true) := by constructor <;> decide

/-! ## CutLastString -/

/-- law "the part behind the last delimiter": holds for a one-byte delimiter -/
theorem cutLast_partial (c : Nat) (a r : Bytes) (h : c ∉ r) : cutLast (a ++ c :: r) [c] = some r := by
  unfold cutLast
  rw [lastIndexOf_single c a r h]
  simp [sliceFrom]

theorem cutLast_absent (c : Nat) (s : Bytes) (h : c ∉ s) : cutLast s [c] = some s := by
  unfold cutLast; rw [lastIndexOf_absent c s h]

/-- a longer delimiter leaves all but its first byte in the result: `CutLastString("a::b", "::") = ":b"` -/
theorem finding_cutLast_multibyte : cutLast [97, 58, 58, 98] [58, 58] = some [58, 98] := by decide

/-- with an empty delimiter LastIndex is len(s) and `s[len(s)+1:]` panics — for every text -/
theorem finding_cutLast_empty_delim (s : Bytes) : cutLast s [] = none := by
  unfold cutLast; rw [lastIndexOf_nil]; simp [sliceFrom]

example : cutLast [97, 46, 98, 46, 99] [46] = some [99] := cutLast_partial 46 [97, 46, 98] [99] (by decide)

/-! ## ToPair / Substring / SubstringN -/

/-- law "key and value around the first separator (ASCII case-insensitive), trimmed": holds for ASCII text -/
theorem toPair_partial (s sep : Bytes) (pos : Nat) (hs : Ascii s) (hp : Ascii sep)
    (h : indexOf (sep.map lowerB) (s.map lowerB) = some pos) :
    toPair s sep = some (trimSpace (s.take pos), trimSpace (s.drop (pos + sep.length))) ∧
    s.map lowerB = (s.take pos).map lowerB ++ sep.map lowerB ++ (s.drop (pos + sep.length)).map lowerB := by
  have hb := indexOf_bound h
  simp only [List.length_map] at hb
  constructor
  · unfold toPair
    rw [toLower_ascii s hs, toLower_ascii sep hp, h]
    have h1 : slice s 0 pos = some (s.take pos) := by simp [slice]; omega
    have h2 : sliceFrom s (pos + sep.length) = some (s.drop (pos + sep.length)) := by simp [sliceFrom]; omega
    simp [h1, h2]
  · have := indexOf_some h
    simpa [List.map_take, List.map_drop] using this

theorem toPair_absent (s sep : Bytes) (h : indexOf (toLower sep) (toLower s) = none) : toPair s sep = some ([], []) := by
  unfold toPair; rw [h]

example : toPair [75, 61, 32, 118] [61] = some ([75], [118]) := by decide

/-- the offset is found in the lowered text and applied to the text itself; strings.ToLower rewrites an ill-formed
    byte to U+FFFD (3 bytes), so behind such a byte the cut is 2 bytes late: `ToPair("\xff=ab", "=") = ("\xff=a", "")` -/
theorem finding_toPair_lowered_index : toPair [0xff, 61, 97, 98] [61] = some ([0xff, 61, 97], []) := by decide

/-- … and the late cut can fall outside the text: `ToPair("\xff\xff=", "=")` panics (no recover in ToPair) -/
theorem finding_toPair_panics : toPair [0xff, 0xff, 61] [61] = none := by decide

/-- law "the trimmed text between the first `from` and the next `to` (ASCII case-insensitive)": holds for ASCII text -/
theorem substring_partial (s frm to : Bytes) (p q : Nat) (hs : Ascii s) (hf : Ascii frm) (ht : Ascii to) (hne : to ≠ [])
    (h1 : indexOf (frm.map lowerB) (s.map lowerB) = some p)
    (h2 : indexOf (to.map lowerB) ((s.drop (p + frm.length)).map lowerB) = some q) :
    substring s frm to = trimSpace ((s.take (p + frm.length + q)).drop (p + frm.length)) := by
  have b1 := indexOf_bound h1
  have b2 := indexOf_bound h2
  simp only [List.length_map, List.length_drop] at b1 b2
  have e : to.isEmpty = false := by cases to <;> simp at hne ⊢
  have h3 : sliceFrom s (p + frm.length) = some (s.drop (p + frm.length)) := by simp [sliceFrom]; omega
  have h4 : slice s (p + frm.length) (p + frm.length + q) = some ((s.take (p + frm.length + q)).drop (p + frm.length)) := by
    simp [slice]; omega
  unfold substring substringBody
  rw [toLower_ascii s hs, toLower_ascii frm hf, h1]
  simp only [e, h3, Bool.false_eq_true, if_false]
  rw [toLower_ascii to ht, toLower_ascii _ (ascii_drop s _ hs), h2]
  simp [h4]

theorem substring_absent (s frm to : Bytes) (h : indexOf (toLower frm) (toLower s) = none) : substring s frm to = [] := by
  simp [substring, substringBody, h]

example : substring [97, 61, 32, 49, 59, 98] [65, 61] [59] = [49] := by decide

/-- SubstringN("a=1;a=2;", "a=", ";", -1) = ["1", "2"] … -/
theorem substringN_terminated :
    substringN [97, 61, 49, 59, 97, 61, 50, 59] [97, 61] [59] (-1) = [[49], [50]] := by decide

/-- … but without the last terminator the second round slices `s[lastPos+pos : lastPos+len(s)]`, panics, and the
    recover returns nil: every field is lost, the first one too.  SubstringN("a=1;a=2", "a=", ";", -1) = nil -/
theorem finding_substringN_unterminated :
    substringN [97, 61, 49, 59, 97, 61, 50] [97, 61] [59] (-1) = [] := by decide

/-! ## Split / Join -/

/-- join ∘ split = id for every non-empty separator -/
theorem join_split (s sep : Bytes) (h : sep ≠ []) : join sep (split s sep) = s := by
  unfold split
  have : sep.isEmpty = false := by cases sep <;> simp at h ⊢
  simp only [this]
  exact join_splitF sep _ s

/-- with the empty separator the pieces are the UTF-8 sequences of the text and concatenate to it -/
theorem split_empty_concat (s : Bytes) : (split s []).flatten = s := by
  have := chunks_raw s
  simpa [split, List.flatMap] using this

/-- replacing `old` by itself changes nothing -/
theorem replaceAll_self (s old : Bytes) : replaceAll s old old = s := join_splitF old _ s

example : split [97, 44, 98, 44] [44] = [[97], [98], []] := by decide

/-! ## Tokenizer / FirstWord / LastWord -/

/-- the tokens, concatenated, are the text without its delimiter runes -/
theorem tokenizer_concat (src delim : Bytes) (h1 : src ≠ []) (h2 : delim ≠ []) :
    (tokenizer src delim).flatten = rawOf ((chunks src).filter (fun k => !isDelim delim k)) := by
  have e1 : src.isEmpty = false := by cases src <;> simp at h1 ⊢
  have e2 : delim.isEmpty = false := by cases delim <;> simp at h2 ⊢
  simp only [tokenizer, e1, e2, Bool.or_self]
  exact fields_flatten _ _

/-- no token is empty -/
theorem tokenizer_nonempty (src delim : Bytes) (h1 : src ≠ []) (h2 : delim ≠ []) :
    ∀ t ∈ tokenizer src delim, t ≠ [] := by
  have e1 : src.isEmpty = false := by cases src <;> simp at h1 ⊢
  have e2 : delim.isEmpty = false := by cases delim <;> simp at h2 ⊢
  simp only [tokenizer, e1, e2, Bool.or_self, Bool.false_eq_true, if_false, fields]
  intro t ht
  simp only [List.mem_map, List.mem_filter] at ht
  obtain ⟨g, ⟨hg, hne⟩, rfl⟩ := ht
  cases g with
  | nil => simp at hne
  | cons k g =>
    have hk : k ∈ chunks src := groups_mem_sub _ _ _ hg k (by simp)
    have := chunksF_raw_ne _ _ k hk
    simp [rawOf]
    intro hr; exact absurd hr this

/-- every token is a run of runes none of which is a delimiter rune -/
theorem tokenizer_no_delim (src delim : Bytes) (h1 : src ≠ []) (h2 : delim ≠ []) :
    ∀ t ∈ tokenizer src delim, ∃ g, t = rawOf g ∧ ∀ k ∈ g, isDelim delim k = false := by
  have e1 : src.isEmpty = false := by cases src <;> simp at h1 ⊢
  have e2 : delim.isEmpty = false := by cases delim <;> simp at h2 ⊢
  simp only [tokenizer, e1, e2, Bool.or_self, Bool.false_eq_true, if_false, fields]
  intro t ht
  simp only [List.mem_map, List.mem_filter] at ht
  obtain ⟨g, ⟨hg, _⟩, rfl⟩ := ht
  exact ⟨g, rfl, groups_no_delim _ _ g hg⟩

/-- with an empty delimiter (or text) nothing is cut — and FirstWord/LastWord then do not trim either -/
theorem tokenizer_empty_delim (src : Bytes) : tokenizer src [] = [src] ∧ firstWord src [] = src ∧ lastWord src [] = src := by
  simp [tokenizer, firstWord, lastWord]

example : tokenizer [44, 97, 44, 44, 98, 99, 44] [44] = [[97], [98, 99]] := by decide
example : firstWord [32, 97, 44, 98] [44] = [97] ∧ lastWord [32, 97, 44, 98, 32] [44] = [98] := by constructor <;> decide
/-- a text of delimiters only has no token at all, the empty text has one -/
example : tokenizer [44] [44] = [] ∧ tokenizer [] [44] = [[]] := by constructor <;> decide
/-- an ill-formed byte in the text is the rune U+FFFD and is cut by a U+FFFD delimiter -/
example : tokenizer [97, 0xff, 98] [0xEF, 0xBF, 0xBD] = [[97], [98]] := by decide

/-! ## TrimEmpty / TrimAllSpace / TruncateRune -/

theorem trimEmpty_eq (s : Bytes) : trimEmpty s = trimSpace s := by
  unfold trimEmpty; split
  · rename_i h; have : s = [] := by simpa using h
    subst this; decide
  · rfl

/-- law "the text without its white space": holds on ASCII text -/
theorem trimAllSpace_partial (s : Bytes) (h : Ascii s) : trimAllSpace s = s.filter (fun b => !asciiSpace b) :=
  trimAllSpace_ascii s h

/-- an ill-formed byte is not dropped and not kept: it is rewritten to U+FFFD. `TrimAllSpace("\xff") = "\xef\xbf\xbd"` -/
theorem finding_trimAllSpace_rewrites : trimAllSpace [0xff] = [0xEF, 0xBF, 0xBD] := by decide

example : trimAllSpace [32, 97, 0xE3, 0x80, 0x80, 9, 98, 0xC2, 0xA0] = [97, 98] := by decide

/-- law "the first sz characters": holds on ASCII text, where TruncateRune is Truncate -/
theorem truncateRune_partial (s : Bytes) (sz : Nat) (h : Ascii s) : truncateRune s sz = s.take sz :=
  truncateRune_ascii s sz h

/-- `for i, ch := range str` yields BYTE offsets: "한글" cut at 2 keeps one character (not two), and "한" cut at 1
    keeps the whole 3-byte character (more than 1 byte) -/
theorem finding_truncateRune_byte_offsets :
    truncateRune [0xED, 0x95, 0x9C, 0xEA, 0xB8, 0x80] 2 = [0xED, 0x95, 0x9C] ∧
    truncateRune [0xED, 0x95, 0x9C] 1 = [0xED, 0x95, 0x9C] := by constructor <;> decide

/-! ## membership tests -/

theorem stringInSlice_iff (a : Bytes) (l : List Bytes) : stringInSlice a l = true ↔ a ∈ l := by
  simp only [stringInSlice, List.any_eq_true, beq_iff_eq]
  constructor
  · rintro ⟨x, hx, rfl⟩; exact hx
  · intro h; exact ⟨a, h, rfl⟩

theorem contains_eq (a : Bytes) (l : List Bytes) : contains l a = stringInSlice a l := rfl

theorem inArrayCS_iff (s : Bytes) (l : List Bytes) : inArrayCS s l = true ↔ trimSpace s ∈ l.map trimSpace := by
  simp only [inArrayCS, List.any_eq_true, beq_iff_eq, List.mem_map]
  constructor <;> (rintro ⟨x, hx, e⟩; exact ⟨x, hx, e.symm⟩)

theorem inArray_iff (s : Bytes) (l : List Bytes) :
    inArray s l = true ↔ toUpper (trimSpace s) ∈ l.map (fun it => toUpper (trimSpace it)) := by
  simp only [inArray, List.any_eq_true, beq_iff_eq, List.mem_map]
  constructor <;> (rintro ⟨x, hx, e⟩; exact ⟨x, hx, e.symm⟩)

/-- the case-sensitive test implies the case-insensitive one -/
theorem inArrayCS_inArray (s : Bytes) (l : List Bytes) (h : inArrayCS s l = true) : inArray s l = true := by
  simp only [inArrayCS, inArray, List.any_eq_true, beq_iff_eq] at h ⊢
  obtain ⟨x, hx, e⟩ := h
  exact ⟨x, hx, by rw [e]⟩

example : inArray [32, 97] [[65], [98]] = true ∧ inArrayCS [32, 97] [[65], [98]] = false := by constructor <;> decide

/-! ## NullTermToStrings -/

/-- parser/printer inverse: non-empty NUL-free records, each followed by one NUL, then a second NUL -/
theorem nullTerm_records (x : Bytes) (xs : List Bytes) (tail : Bytes) (h : ∀ y ∈ x :: xs, y ≠ [] ∧ 0 ∉ y) :
    nullTerm (nulEnc (x :: xs) ++ 0 :: tail) = some (x :: xs) := by
  unfold nullTerm
  have hl := nulEnc_length (x :: xs)
  have := nullTermF_records xs x [] tail ((nulEnc (x :: xs) ++ 0 :: tail).length + 1) h (by
    simp only [List.length_append, List.length_cons] at hl ⊢; omega)
  simpa using this

theorem nullTerm_no_nul (b : Bytes) (h : 0 ∉ b) : nullTerm b = some [] := by
  simp [nullTerm, nullTermF, indexByte_absent 0 b h]

/-- a buffer that ends right behind a single terminator: `b[0]` is read from the empty rest, index out of range -/
theorem finding_nullTerm_single_terminator : nullTerm [97, 0] = none := by decide

example : nullTerm [97, 0, 98, 99, 0, 0, 7] = some [[97], [98, 99]] :=
  nullTerm_records [97] [[98, 99]] [7] (by decide)

/-! ## EscapeSpace -/

theorem findEsc_none : ∀ (n : Nat) (s : Bytes), s.length ≤ n → 92 ∉ s → findEsc s = []
  | 0, s, hl, _ => by
    have : s = [] := List.eq_nil_of_length_eq_zero (by omega)
    subst this; simp [findEsc]
  | n + 1, s, hl, h => by
    match s, hl, h with
    | c :: d1 :: d2 :: d3 :: r, hl, h =>
      have hc : c ≠ 92 := by intro e; apply h; simp [e]
      rw [findEsc]
      simp only [hc, false_and, if_false]
      exact findEsc_none n _ (by simp at hl ⊢; omega) (by intro e; apply h; simp at e ⊢; exact Or.inr e)
    | [], _, _ => simp [findEsc]
    | [_], _, _ => simp [findEsc]
    | [_, _], _, _ => simp [findEsc]
    | [_, _, _], _, _ => simp [findEsc]

/-- a text without a backslash is returned unchanged -/
theorem escapeSpace_plain (s : Bytes) (h : 92 ∉ s) : escapeSpace s = s := by
  simp [escapeSpace, findEsc_none s.length s (Nat.le_refl _) h]

/-- `a\040b` → `a b`;  `\099` is no octal number and stays -/
theorem escapeSpace_examples : escapeSpace [97, 92, 48, 52, 48, 98] = [97, 32, 98] ∧
    escapeSpace [92, 48, 57, 57] = [92, 48, 57, 57] := by
  constructor
  · simp [escapeSpace, findEsc, isDigit]; decide
  · simp [escapeSpace, findEsc, isDigit]

/-! ## Concat, ParseMapSASToString -/

theorem concat_append (a b : List Item) : concat (a ++ b) = concat a ++ concat b := by
  simp [concat]

example : concat [.str [97], .int (-5), .int 18446744073709551615] =
    [97, 45, 53] ++ [49, 56, 52, 52, 54, 55, 52, 52, 48, 55, 51, 55, 48, 57, 53, 53, 49, 54, 49, 53] := by decide

/-- `idx` is never incremented: the result does not depend on a non-negative maxCount (three entries, maxCount 0,
    three lines) -/
theorem finding_mapSAS_maxCount_ignored (m : List (Bytes × Option Bytes)) (c c' : Int) (ksz vsz : Nat)
    (h : 0 ≤ c) (h' : 0 ≤ c') : mapSAS m c ksz vsz = mapSAS m c' ksz vsz := by
  have h1 : ¬ c < 0 := by omega
  have h2 : ¬ c' < 0 := by omega
  simp [mapSAS, h1, h2]

theorem mapSAS_negative (m : List (Bytes × Option Bytes)) (c : Int) (ksz vsz : Nat) (h : c < 0) :
    mapSAS m c ksz vsz = [] := by simp [mapSAS, h]

theorem mapSAS_length_le (m : List (Bytes × Option Bytes)) (c : Int) (ksz vsz : Nat) :
    (mapSAS m c ksz vsz).length ≤ m.length * (ksz + vsz + 2) := by
  unfold mapSAS
  split
  · simp
  induction m with
  | nil => simp
  | cons e m ih =>
    obtain ⟨k, v⟩ := e
    have h1 : (truncate k ksz).length ≤ ksz := by simp [truncate]; omega
    rw [List.flatMap_cons, List.length_append, List.length_cons, Nat.succ_mul]
    cases v with
    | none => simp only [List.length_append, List.length_cons, List.length_nil]; omega
    | some v0 =>
      have h2 : (truncate v0 vsz).length ≤ vsz := by simp [truncate]; omega
      simp only [List.length_append, List.length_cons, List.length_nil]; omega

example : mapSAS [([97, 98], some [99, 100]), ([101], none)] 0 1 1 = [97, 61, 99, 10, 101, 61] := by decide

/-! ## uuidutil.ToLong -/

/-- the int64 loop is the polynomial Σ 31^(n-1-i)·s[i], wrapped once (the same function as stringutil.HashCode) -/
theorem toLong_poly (s : Bytes) : toLong s = wrap64 (polyF s 0) := by
  have := toLongF_poly s 0
  simpa [toLong, wrap64] using this

theorem toLong_range (s : Bytes) : -9223372036854775808 ≤ toLong s ∧ toLong s ≤ 9223372036854775807 := by
  rw [toLong_poly]; unfold wrap64; omega

example : toLong [] = 0 ∧ toLong [97, 98] = 3105 := by constructor <;> decide

/-! ## percentutil.TopFloat -/

/-- whatever the comparison answers (NaN included), the result is one of the two arguments -/
theorem topBy_mem {α : Type} (gt : α → α → Bool) (a b : α) : topBy gt a b = a ∨ topBy gt a b = b := by
  unfold topBy; split <;> simp

/-- over a total order it is the minimum -/
theorem topBy_min (a b : Int) : topBy (fun x y => decide (x > y)) a b = min a b := by
  unfold topBy; simp only [decide_eq_true_eq]; split <;> omega

theorem topBy_idem (a b : Int) :
    topBy (fun x y => decide (x > y)) (topBy (fun x y => decide (x > y)) a b) b = topBy (fun x y => decide (x > y)) a b := by
  simp only [topBy_min]; omega

/-! ## exception.Error, ansi colours -/

theorem errorText_length (t msg stack esc : Bytes) :
    (errorText t msg stack esc).length = 29 + t.length + msg.length + stack.length + esc.length := by
  simp [errorText, sName, sMessage, sEsc, sStack]; omega

/-- the text begins with "name:" followed by the class name -/
theorem errorText_prefix (t msg stack esc : Bytes) : ∃ r, errorText t msg stack esc = sName ++ t ++ r :=
  ⟨sMessage ++ msg ++ sEsc ++ esc ++ sStack ++ stack, by simp [errorText]⟩

theorem colour_length (c : Colour) (s : Bytes) : (colour c s).length = s.length + 9 := by
  simp [colour, ansiCode, ansiReset]

/-- the colour and the text can be read back -/
theorem colour_injective (c c' : Colour) (s s' : Bytes) (h : colour c s = colour c' s') : c = c' ∧ s = s' := by
  cases c <;> cases c' <;> simp [colour, ansiCode, ansiReset, Colour.digit] at h ⊢ <;> exact h

example : colour .red [97] = [27, 91, 51, 49, 109, 97, 27, 91, 48, 109] := by decide

end X05
