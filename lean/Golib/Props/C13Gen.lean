/-
  Property C13 — obligations over the facts regenerated from the source on every run
  (Golib.Gen.C13, written by xlate/c13: tie A).

  For each of the five list types: the capacity policy transcribed from `ensure` is one of the
  policies the refinement theorems quantify over (`Growth.OK`: the new capacity is at least the
  requested one and never reaches "too big size" below `BOUND` elements), the nil-table branch
  takes the larger of the default capacity and the request, the guards of get/set are
  `i >= size`, AddAll reads its bound once, the wire form is a 24-bit count followed by the
  element codec the model uses for that type, and the type codes agree with
  StatGeneralPack.create and CompareChild's dispatch.
-/
import Golib.Gen.C13
import Golib.Lists.Typed
import Golib.Lists.Sort
import Golib.Gen.Locks
import Golib.Conc.LockFacts
import Golib.Lists.Table

namespace C13Gen
open Lists

structure TypeFacts where
  nilCap : Nat → Nat
  newSize : Nat → Nat → Nat
  maxSize : Nat
  dcap : Nat
  getPanics : Int → Int → Int → Bool
  setPanics : Int → Int → Int → Bool
  addAllBound : String
  wire : List String
  typeCode : Nat

/-- what the CodeModel assumes of one list type -/
structure Agrees (f : TypeFacts) (elemW elemR : String) (code : Nat) : Prop where
  growth_ok : (Growth.mk f.newSize f.dcap f.maxSize).OK
  nil_max : ∀ m, f.nilCap m = max f.dcap m
  get_guard : ∀ i size len, f.getPanics i size len = decide (i ≥ size)
  set_guard : ∀ i size len, f.setPanics i size len = decide (i ≥ size)
  hoisted : f.addAllBound = "hoisted"
  wire : f.wire = ["WriteInt3", elemW, "ReadInt3", elemR]
  code : f.typeCode = code

def intList : TypeFacts := ⟨Gen.C13.IntList.nilCap, Gen.C13.IntList.newSize, Gen.C13.IntList.maxSize,
  Gen.C13.IntList.dcap, Gen.C13.IntList.getPanics, Gen.C13.IntList.setPanics,
  Gen.C13.IntList.addAllBound, Gen.C13.IntList.wire, Gen.C13.IntList.typeCode⟩
def longList : TypeFacts := ⟨Gen.C13.LongList.nilCap, Gen.C13.LongList.newSize, Gen.C13.LongList.maxSize,
  Gen.C13.LongList.dcap, Gen.C13.LongList.getPanics, Gen.C13.LongList.setPanics,
  Gen.C13.LongList.addAllBound, Gen.C13.LongList.wire, Gen.C13.LongList.typeCode⟩
def floatList : TypeFacts := ⟨Gen.C13.FloatList.nilCap, Gen.C13.FloatList.newSize, Gen.C13.FloatList.maxSize,
  Gen.C13.FloatList.dcap, Gen.C13.FloatList.getPanics, Gen.C13.FloatList.setPanics,
  Gen.C13.FloatList.addAllBound, Gen.C13.FloatList.wire, Gen.C13.FloatList.typeCode⟩
def doubleList : TypeFacts := ⟨Gen.C13.DoubleList.nilCap, Gen.C13.DoubleList.newSize, Gen.C13.DoubleList.maxSize,
  Gen.C13.DoubleList.dcap, Gen.C13.DoubleList.getPanics, Gen.C13.DoubleList.setPanics,
  Gen.C13.DoubleList.addAllBound, Gen.C13.DoubleList.wire, Gen.C13.DoubleList.typeCode⟩
def stringList : TypeFacts := ⟨Gen.C13.StringList.nilCap, Gen.C13.StringList.newSize, Gen.C13.StringList.maxSize,
  Gen.C13.StringList.dcap, Gen.C13.StringList.getPanics, Gen.C13.StringList.setPanics,
  Gen.C13.StringList.addAllBound, Gen.C13.StringList.wire, Gen.C13.StringList.typeCode⟩

/-- one proof script for all five types; it does not mention the shape of the growth rule, only
    what the refinement needs of it -/
macro "agrees_tac" f:ident ns:ident nc:ident mx:ident dc:ident gp:ident sp:ident : tactic => `(tactic|
  (refine ⟨⟨?_, ?_, ?_⟩, ?_, ?_, ?_, ?_, ?_, ?_⟩
   · intro old m
     simp only [$f:ident, $ns:ident]
     split <;> omega
   · intro old m h1 h2
     simp only [$f:ident, $ns:ident, $mx:ident]
     unfold TL.BOUND at h2
     split <;> omega
   · simp only [$f:ident, $dc:ident, TL.BOUND]; decide
   · intro m; simp only [$f:ident, $nc:ident, $dc:ident]
   · intro i size len; simp only [$f:ident, $gp:ident]
   · intro i size len; simp only [$f:ident, $sp:ident]
   · decide
   · decide
   · decide))

theorem intList_agrees : Agrees intList "WriteDecimal" "ReadDecimal" 1 := by
  agrees_tac intList Gen.C13.IntList.newSize Gen.C13.IntList.nilCap Gen.C13.IntList.maxSize
    Gen.C13.IntList.dcap Gen.C13.IntList.getPanics Gen.C13.IntList.setPanics

theorem longList_agrees : Agrees longList "WriteDecimal" "ReadDecimal" 2 := by
  agrees_tac longList Gen.C13.LongList.newSize Gen.C13.LongList.nilCap Gen.C13.LongList.maxSize
    Gen.C13.LongList.dcap Gen.C13.LongList.getPanics Gen.C13.LongList.setPanics

theorem floatList_agrees : Agrees floatList "WriteFloat" "ReadFloat" 3 := by
  agrees_tac floatList Gen.C13.FloatList.newSize Gen.C13.FloatList.nilCap Gen.C13.FloatList.maxSize
    Gen.C13.FloatList.dcap Gen.C13.FloatList.getPanics Gen.C13.FloatList.setPanics

theorem doubleList_agrees : Agrees doubleList "WriteDouble" "ReadDouble" 4 := by
  agrees_tac doubleList Gen.C13.DoubleList.newSize Gen.C13.DoubleList.nilCap Gen.C13.DoubleList.maxSize
    Gen.C13.DoubleList.dcap Gen.C13.DoubleList.getPanics Gen.C13.DoubleList.setPanics

theorem stringList_agrees : Agrees stringList "WriteText" "ReadText" 5 := by
  agrees_tac stringList Gen.C13.StringList.newSize Gen.C13.StringList.nilCap Gen.C13.StringList.maxSize
    Gen.C13.StringList.dcap Gen.C13.StringList.getPanics Gen.C13.StringList.setPanics

/-- the constants the model names -/
theorem constants : Gen.C13.ANYLIST_DEFAULT_CAPACITY = DEFAULT_CAPACITY ∧
    Gen.C13.ANYLIST_MAX_SIZE = MAX_SIZE ∧
    [Gen.C13.ANYLIST_INT, Gen.C13.ANYLIST_LONG, Gen.C13.ANYLIST_FLOAT, Gen.C13.ANYLIST_DOUBLE,
     Gen.C13.ANYLIST_STRING] = [1, 2, 3, 4, 5] := by decide

/-- CompareChild dispatches as the model's `leOf`: strings as strings, int/long children exactly
    (fix-D43), the rest through float64 -/
theorem compareChild_dispatch : Gen.C13.compareChild =
    [(["ANYLIST_STRING"], "CompareToString", "GetString"),
     (["ANYLIST_INT", "ANYLIST_LONG"], "CompareToLong", "GetLong"),
     ([], "CompareToDouble", "GetDouble")] := by decide

/-- StatGeneralPack.create builds, for the code a list's GetType returns, a list of that type -/
theorem create_inverts_getType : Gen.C13.create =
    [(1, "NewIntListDefault"), (2, "NewLongListDefault"), (3, "NewFloatListDefault"),
     (4, "NewDoubleListDefault"), (0, "NewStringListDefault")] := by decide

/-- the type code of the list a constructor of util/list builds -/
def tyOfCtor (c : String) : Nat :=
  if c = "NewIntListDefault" then 1 else if c = "NewLongListDefault" then 2
  else if c = "NewFloatListDefault" then 3 else if c = "NewDoubleListDefault" then 4
  else if c = "NewStringListDefault" then 5 else 0

/-- **create, interpreted.**  `StatGeneralPack.create`, compiled from its switch statement, builds for
    EVERY type byte a list whose type is the one the model's `Table.create` gives (unknown codes →
    StringList) -/
theorem create_is_model (t : Nat) : tyOfCtor (Gen.C13.createF t) = (Lists.Table.create t).ty := by
  simp only [Gen.C13.createF, Lists.Table.create]
  by_cases h1 : t = 1
  · subst h1; decide
  by_cases h2 : t = 2
  · subst h2; decide
  by_cases h3 : t = 3
  · subst h3; decide
  by_cases h4 : t = 4
  · subst h4; decide
  simp [h1, h2, h3, h4, tyOfCtor]

/-! ### interpreted comparator code

  The closures of Sorting / SortingAnyList, `CompareChild` and `compare.CompareToX` are compiled
  from the Go statements (if/else, switch, assignments, returns) into Lean functions and proved
  equal, for all inputs, to the functions the theorems of C13 are about. -/

open Lists.Sort

/-- the closure of `Sorting` is the model's `lessOneC`, for every comparison function and values -/
theorem sorting_closures_are_model {α : Type} (cmp : α → α → Int) (asc : Bool) (v1 v2 : α) :
    Gen.C13.IntList.sortingLess cmp asc v1 v2 = lessOneC cmp asc v1 v2 ∧
    Gen.C13.LongList.sortingLess cmp asc v1 v2 = lessOneC cmp asc v1 v2 ∧
    Gen.C13.FloatList.sortingLess cmp asc v1 v2 = lessOneC cmp asc v1 v2 ∧
    Gen.C13.DoubleList.sortingLess cmp asc v1 v2 = lessOneC cmp asc v1 v2 ∧
    Gen.C13.StringList.sortingLess cmp asc v1 v2 = lessOneC cmp asc v1 v2 := by
  refine ⟨?_, ?_, ?_, ?_, ?_⟩ <;>
    simp only [Gen.C13.IntList.sortingLess, Gen.C13.LongList.sortingLess,
      Gen.C13.FloatList.sortingLess, Gen.C13.DoubleList.sortingLess,
      Gen.C13.StringList.sortingLess, lessOneC] <;>
    cases asc <;> simp <;> (try split) <;> simp_all

/-- the closure of `SortingAnyList` is the model's `lessTwoC` -/
theorem sortingAny_closures_are_model {α : Type} (cmp : α → α → Int) (asc : Bool)
    (cc : Nat → Nat → Int) (k1 : Nat) (v1 : α) (k2 : Nat) (v2 : α) :
    Gen.C13.IntList.sortingAnyLess cmp asc cc k1 v1 k2 v2 = lessTwoC cmp asc cc k1 v1 k2 v2 ∧
    Gen.C13.LongList.sortingAnyLess cmp asc cc k1 v1 k2 v2 = lessTwoC cmp asc cc k1 v1 k2 v2 ∧
    Gen.C13.FloatList.sortingAnyLess cmp asc cc k1 v1 k2 v2 = lessTwoC cmp asc cc k1 v1 k2 v2 ∧
    Gen.C13.DoubleList.sortingAnyLess cmp asc cc k1 v1 k2 v2 = lessTwoC cmp asc cc k1 v1 k2 v2 ∧
    Gen.C13.StringList.sortingAnyLess cmp asc cc k1 v1 k2 v2 = lessTwoC cmp asc cc k1 v1 k2 v2 := by
  refine ⟨?_, ?_, ?_, ?_, ?_⟩ <;>
    simp only [Gen.C13.IntList.sortingAnyLess, Gen.C13.LongList.sortingAnyLess,
      Gen.C13.FloatList.sortingAnyLess, Gen.C13.DoubleList.sortingAnyLess,
      Gen.C13.StringList.sortingAnyLess, lessTwoC] <;>
    cases asc <;> simp <;> (repeat' split) <;> simp_all

/-- each list type calls the comparison of its own element type, in both closures -/
theorem closures_call_own_compare :
    Gen.C13.IntList.compareFns = ["CompareToInt", "CompareToInt"] ∧
    Gen.C13.LongList.compareFns = ["CompareToLong", "CompareToLong"] ∧
    Gen.C13.FloatList.compareFns = ["CompareToFloat", "CompareToFloat"] ∧
    Gen.C13.DoubleList.compareFns = ["CompareToDouble", "CompareToDouble"] ∧
    Gen.C13.StringList.compareFns = ["CompareToString", "CompareToString"] := by decide

/-- `compare.CompareToInt/Long/Float/Double` are the model's `cmp3`: with `l == r` read as
    `l ≤ r ∧ r ≤ l` and `l > r` as `¬ l ≤ r` (true of Go's integers and of NaN-free floats) -/
theorem compare_fns_are_cmp3 {α : Type} (le : α → α → Bool) (l r : α) :
    Gen.C13.CompareToInt (fun a b => le a b && le b a) (fun a b => !le a b) l r = cmp3 le l r ∧
    Gen.C13.CompareToLong (fun a b => le a b && le b a) (fun a b => !le a b) l r = cmp3 le l r ∧
    Gen.C13.CompareToFloat (fun a b => le a b && le b a) (fun a b => !le a b) l r = cmp3 le l r ∧
    Gen.C13.CompareToDouble (fun a b => le a b && le b a) (fun a b => !le a b) l r = cmp3 le l r ∧
    Gen.C13.CompareToString_isStringsCompare = true := by
  refine ⟨?_, ?_, ?_, ?_, by decide⟩ <;>
    simp only [Gen.C13.CompareToInt, Gen.C13.CompareToLong, Gen.C13.CompareToFloat,
      Gen.C13.CompareToDouble, cmp3] <;>
    cases le l r <;> cases le r l <;> simp

/-- what `CompareChild` is in the model: pick (comparison, getter) by the child's type code —
    strings as strings, int/long exactly, the rest through float64 — and read it in the
    direction `ord` -/
def childDispatch (ty : Nat) (ord : Bool) (c : String → String → Nat → Nat → Int) (i1 i2 : Nat) : Int :=
  let fg : String × String :=
    if ty = 5 then ("CompareToString", "GetString")
    else if ty = 1 ∨ ty = 2 then ("CompareToLong", "GetLong")
    else ("CompareToDouble", "GetDouble")
  if ord then c fg.1 fg.2 i1 i2 else c fg.1 fg.2 i2 i1

/-- the compiled `CompareChild` equals that dispatch for every type code, direction, pair of
    indices and every meaning of the comparison calls -/
theorem compareChild_is_dispatch (ty : Nat) (ord : Bool) (c : String → String → Nat → Nat → Int)
    (i1 i2 : Nat) : Gen.C13.compareChildF ty ord c i1 i2 = childDispatch ty ord c i1 i2 := by
  simp only [Gen.C13.compareChildF, childDispatch]
  cases ord <;> (repeat' split) <;> simp_all

/-- … and the dispatch, with the comparison calls given their meaning (`cmp3` of the child's order
    on the child's elements), is the model's `compareChild` -/
theorem dispatch_is_model_compareChild {β : Type} (cle : β → β → Bool) (child : Nat → β)
    (ty : Nat) (ord : Bool) (i1 i2 : Nat) :
    childDispatch ty ord (fun _ _ a b => cmp3 cle (child a) (child b)) i1 i2 =
      compareChild cle child ord i1 i2 := by
  simp only [childDispatch, compareChild]

example : childDispatch 2 false (fun f g a b => if f = "CompareToLong" ∧ g = "GetLong" then (a : Int) - b else 99) 3 5 = 2 := by
  decide

/-! ### LinkedList: every public mutator runs under the list's lock

  Facts regenerated from util/list/LinkedList.go by `xlate/c10` (C10's translator, run by this
  check too): a method is `atomicOrDelegates` when it takes `o.lock` as its first statement, releases
  it by `defer`, touches no shared field outside the lock — or touches nothing itself and only
  delegates to one method that does.  This is what makes the code an instance of the mutex-object
  machine of `Lists.Linked.locked_conservation`.  One obligation per method, so that a failure
  names the method. -/

open LockFacts Gen.Locks in
theorem linkedlist_Add_locked : atomicOrDelegates LinkedList.facts "Add" = true := by decide
open LockFacts Gen.Locks in
theorem linkedlist_AddFirst_locked : atomicOrDelegates LinkedList.facts "AddFirst" = true := by decide
open LockFacts Gen.Locks in
theorem linkedlist_AddLast_locked : atomicOrDelegates LinkedList.facts "AddLast" = true := by decide
open LockFacts Gen.Locks in
theorem linkedlist_PutBefore_locked : atomicOrDelegates LinkedList.facts "PutBefore" = true := by decide
open LockFacts Gen.Locks in
theorem linkedlist_Remove_locked : atomicOrDelegates LinkedList.facts "Remove" = true := by decide
open LockFacts Gen.Locks in
theorem linkedlist_RemoveFirst_locked : atomicOrDelegates LinkedList.facts "RemoveFirst" = true := by decide
open LockFacts Gen.Locks in
theorem linkedlist_RemoveLast_locked : atomicOrDelegates LinkedList.facts "RemoveLast" = true := by decide
open LockFacts Gen.Locks in
theorem linkedlist_Clear_locked : atomicOrDelegates LinkedList.facts "Clear" = true := by decide

open LockFacts Gen.Locks in
theorem linkedlist_ToArray_locked : atomicOrDelegates LinkedList.facts "ToArray" = true := by decide

open LockFacts Gen.Locks in
/-- … and these are ALL the exported methods that (transitively) write anything (ToArray writes only
    the slice it returns): a new public mutator changes this list and needs its own obligation -/
theorem linkedlist_mutators_listed :
    ((LinkedList.facts.methods.filter
        (fun M => M.exported && mutatesWithin LinkedList.facts LinkedList.facts.fuel M.name)).map (·.name)) =
      ["Add", "AddFirst", "AddLast", "Clear", "PutBefore", "Remove", "RemoveFirst", "RemoveLast", "ToArray"] := by
  decide

open LockFacts Gen.Locks in
/-- the lock is released on every path (Lock first, `defer Unlock`), and no method re-enters it -/
theorem linkedlist_lock_pattern : noSelfDeadlock LinkedList.facts = true := by decide

end C13Gen
