/-
  Property C20, tie A — the bodies of `Equals` / `CompareTo` that `xlate/c20` regenerates from
  lang/value and util/compare on every run (Golib/Gen/C20.lean), *interpreted* by the semantics of
  Golib/Value/CmpIR.lean, compute the model's `cmpV` / `eqV` for all inputs.

  So the flat part of the model is not compared with the code by the harness only: the transcribed
  code itself is proved equal to it.  A changed constant (1 ↔ -1), a swapped `<`, another field,
  another helper, a byte-typed fallback, an `Equals` that no longer checks the type — each changes
  the generated body and the corresponding theorem no longer checks.  The three container types
  and the slice helpers are tied by golden skeletons (their semantics is the hand-written model).
-/
import Golib.Gen.C20
import Golib.Value.CmpRec
import Golib.Value.CmpIRCLaws

namespace C20Gen
open Value Value.IR

/-- the transcribed `CompareTo` of the value's own type -/
def genCmp (a b : Value) : Option Int :=
  (lookup Gen.C20.cmpBodies (ctorOf a).typeName).bind (fun fc => runCmp fc a b)

def genEq (a b : Value) : Option Bool :=
  (lookup Gen.C20.eqBodies (ctorOf a).typeName).bind (fun e => runEq e a b)

/-- every flat type, any two values (same or different types): the interpreted source body of
    `CompareTo` returns what the model returns -/
theorem compareTo_bodies_agree (a b : Value) (hf : isFlat a = true) : genCmp a b = some (cmpV a b) := by
  rw [cmpV_flat a b hf]
  by_cases ht : tag a = tag b
  · cases a <;> (try (simp [isFlat] at hf; done)) <;> cases b <;> (try (simp [tag] at ht; done))
    all_goals simp [genCmp, lookup, Gen.C20.cmpBodies, Ctor.typeName, ctorOf, runCmp, runBody, evalCond, fieldRel,
      fieldTrue, helperCmp, cmpFlat, cmpDesc, tag]
    case bool.bool x y => cases x <;> cases y <;> simp
    case dsum.dsum s c _ _ s' c' _ _ =>
      cases h1 : eq64 s s' <;> cases h2 : lt64 s s' <;> by_cases h3 : c = c' <;> by_cases h4 : c < c' <;>
        simp [h3, h4]
    case lsum.lsum s c _ _ s' c' _ _ =>
      by_cases h1 : s = s' <;> by_cases h2 : s < s' <;> by_cases h3 : c = c' <;> by_cases h4 : c < c' <;>
        simp [h1, h2, h3, h4]
    all_goals (split <;> simp_all)
  · rw [cmpFlat_tag_ne a b ht]
    have hb : (tag a == tag b) = false := by simpa using ht
    cases a <;> (try (simp [isFlat] at hf; done)) <;>
      simp [genCmp, lookup, Gen.C20.cmpBodies, Ctor.typeName, ctorOf, runCmp, hb]

/-- … and the interpreted source body of `Equals` -/
theorem equals_bodies_agree (a b : Value) (hf : isFlat a = true) : genEq a b = some (eqV a b) := by
  rw [eqV_flat a b hf]
  by_cases ht : tag a = tag b
  · cases a <;> (try (simp [isFlat] at hf; done)) <;> cases b <;> (try (simp [tag] at ht; done))
    all_goals simp [genEq, lookup, Gen.C20.eqBodies, Ctor.typeName, ctorOf, runEq, evalCond, fieldRel,
      helperEq, helperCmp, eqFlat, tag]
    all_goals first
      | done
      | (simp [beq_eq_decide]; done)
      | (rw [Bool.eq_iff_iff]; simp [cmpStr_zero])
  · have hb : (tag a == tag b) = false := by simpa using ht
    have : eqFlat a b = false := by unfold eqFlat; simp [ht]
    rw [this]
    cases a <;> (try (simp [isFlat] at hf; done)) <;>
      simp [genEq, lookup, Gen.C20.eqBodies, Ctor.typeName, ctorOf, runEq, hb]

/-- every flat `CompareTo` answers 1 to a nil argument and falls back on the int difference of the type codes -/
theorem fallbacks_are_int :
    Gen.C20.cmpBodies.all (fun e => e.2.fallback == "intSub" && e.2.nilRet == 1) = true := by decide

/-- exactly the seventeen flat types have bodies (a new value type would show up here) -/
theorem flat_types_complete :
    Gen.C20.cmpBodies.length = 17 ∧ Gen.C20.eqBodies.length = 17 ∧
    Gen.C20.eqBodies.map (·.1) = Gen.C20.cmpBodies.map (·.1) := by decide

/-- list / map / int-map: nil, type fallback, size difference, the loop along the receiver, plain
    assertion on the receiver's entry and comma-ok on the other's (D04), missing ⇒ 1 / false,
    recursion, first non-zero / first unequal, 0 / true at the end -/
theorem container_skeletons_agree : Gen.C20.containers = containerSkeletons := by decide

/-- util/compare: the slice helpers are the plain loop the model's `lexBy (cmpOf lt)` describes -/
theorem helper_skeletons_agree : Gen.C20.helpers = helperSkeletons := by decide


/-! ### the container methods and the slice helpers, interpreted (CmpIRC.lean)

The loops of `ListValue / MapValue / IntMapValue . Equals / CompareTo` are transcribed statement by
statement (nil test, type fallback, size test, `for i …` over the receiver's slice with `that.table[i]`
or `keys := this.Keys()` with `that.table.Get(key)`, plain or comma-ok assertion on the other's entry,
`if v2 == nil`, the recursive call, the final return) and interpreted with the calls on the children
as a parameter `rec`.  With `rec := cmpV` the interpretation returns `cmpV` — the model satisfies the
transcribed equations — and it is the only function that does (`source_determines_cmp / _eq`). -/

/-- the transcribed `CompareTo` of a container type; `rec` stands for the calls on the children -/
def genContCmp (rec : Value → Value → Int) (a b : Value) : Option Int :=
  (lookup Gen.C20.contCmp (ctorOf a).typeName).bind (fun cc => runContCmp cc rec a b)

def genContEq (rec : Value → Value → Bool) (a b : Value) : Option Bool :=
  (lookup Gen.C20.contEq (ctorOf a).typeName).bind (fun ce => runContEq ce rec a b)

/-- list / map / int map against any value: the interpreted source of `CompareTo`, with the model
    for the recursive calls, returns what the model returns (type fallback, size difference, the walk
    along the receiver, 1 for a key the other map lacks, first non-zero child result, 0) -/
theorem container_compareTo_agree (a b : Value) (hf : isFlat a = false) :
    genContCmp cmpV a b = some (cmpV a b) := by
  by_cases ht : tag a = tag b
  · cases a <;> (try (simp [isFlat] at hf; done)) <;> cases b <;> (try (simp [tag] at ht; done))
    case list.list xs ys =>
      rw [cmpV_list]
      by_cases hl : xs.length = ys.length
      · simpa [genContCmp, lookup, Gen.C20.contCmp, Ctor.typeName, ctorOf, runContCmp, tag, hl] using runIdx_cmp_std 1 xs ys hl
      · simp [genContCmp, lookup, Gen.C20.contCmp, Ctor.typeName, ctorOf, runContCmp, tag, hl]
    case map.map xs ys =>
      rw [cmpV_map]
      by_cases hl : xs.length = ys.length
      · simpa [genContCmp, lookup, Gen.C20.contCmp, Ctor.typeName, ctorOf, runContCmp, tag, hl] using runKeys_cmp_std xs ys
      · simp [genContCmp, lookup, Gen.C20.contCmp, Ctor.typeName, ctorOf, runContCmp, tag, hl]
    case imap.imap xs ys =>
      rw [cmpV_imap]
      by_cases hl : xs.length = ys.length
      · simpa [genContCmp, lookup, Gen.C20.contCmp, Ctor.typeName, ctorOf, runContCmp, tag, hl] using runKeys_icmp_std xs ys
      · simp [genContCmp, lookup, Gen.C20.contCmp, Ctor.typeName, ctorOf, runContCmp, tag, hl]
  · rw [cmpV_tag_ne a b ht]
    cases a <;> (try (simp [isFlat] at hf; done)) <;>
      simp [genContCmp, lookup, Gen.C20.contCmp, Ctor.typeName, ctorOf, runContCmp, ht]

/-- … and of `Equals` -/
theorem container_equals_agree (a b : Value) (hf : isFlat a = false) :
    genContEq eqV a b = some (eqV a b) := by
  by_cases ht : tag a = tag b
  · cases a <;> (try (simp [isFlat] at hf; done)) <;> cases b <;> (try (simp [tag] at ht; done))
    case list.list xs ys =>
      rw [eqV_list]
      by_cases hl : xs.length = ys.length
      · simpa [genContEq, lookup, Gen.C20.contEq, Ctor.typeName, ctorOf, runContEq, tag, hl] using runIdx_eq_std false xs ys hl
      · simp [genContEq, lookup, Gen.C20.contEq, Ctor.typeName, ctorOf, runContEq, tag, hl]
    case map.map xs ys =>
      rw [eqV_map]
      by_cases hl : xs.length = ys.length
      · simpa [genContEq, lookup, Gen.C20.contEq, Ctor.typeName, ctorOf, runContEq, tag, hl] using runKeys_eq_std xs ys
      · simp [genContEq, lookup, Gen.C20.contEq, Ctor.typeName, ctorOf, runContEq, tag, hl]
    case imap.imap xs ys =>
      rw [eqV_imap]
      by_cases hl : xs.length = ys.length
      · simpa [genContEq, lookup, Gen.C20.contEq, Ctor.typeName, ctorOf, runContEq, tag, hl] using runKeys_ieq_std xs ys
      · simp [genContEq, lookup, Gen.C20.contEq, Ctor.typeName, ctorOf, runContEq, tag, hl]
  · have he : eqV a b = false := by
      cases a <;> (try (simp [isFlat] at hf; done)) <;> cases b <;> first | exact absurd rfl ht | simp [eqV]
    rw [he]
    cases a <;> (try (simp [isFlat] at hf; done)) <;>
      simp [genContEq, lookup, Gen.C20.contEq, Ctor.typeName, ctorOf, runContEq, ht]

/-- one unfolding of the whole transcribed `CompareTo` (all twenty types) -/
def genStepCmp (rec : Value → Value → Int) (a b : Value) : Option Int :=
  if isFlat a then genCmp a b else genContCmp rec a b

def genStepEq (rec : Value → Value → Bool) (a b : Value) : Option Bool :=
  if isFlat a then genEq a b else genContEq rec a b

/-- the model satisfies the equations read off the source, for every pair of values of every type -/
theorem model_satisfies_source (a b : Value) :
    genStepCmp cmpV a b = some (cmpV a b) ∧ genStepEq eqV a b = some (eqV a b) := by
  cases hf : isFlat a
  · simp [genStepCmp, genStepEq, hf, container_compareTo_agree a b hf, container_equals_agree a b hf]
  · simp [genStepCmp, genStepEq, hf, compareTo_bodies_agree a b hf, equals_bodies_agree a b hf]

theorem genContCmp_congr (f g : Value → Value → Int) (a b : Value)
    (h : ∀ x ∈ children a, ∀ w, f x w = g x w) : genContCmp f a b = genContCmp g a b := by
  unfold genContCmp
  cases lookup Gen.C20.contCmp (ctorOf a).typeName with
  | none => rfl
  | some cc => simp [Option.bind, runContCmp_congr cc f g a b h]

theorem genContEq_congr (f g : Value → Value → Bool) (a b : Value)
    (h : ∀ x ∈ children a, ∀ w, f x w = g x w) : genContEq f a b = genContEq g a b := by
  unfold genContEq
  cases lookup Gen.C20.contEq (ctorOf a).typeName with
  | none => rfl
  | some ce => simp [Option.bind, runContEq_congr ce f g a b h]

/-- … and it is the only function that does: whatever satisfies the transcribed `CompareTo`
    (terminating on every pair, i.e. never panicking) is `cmpV`.  Nesting depth is unbounded. -/
theorem source_determines_cmp (f : Value → Value → Int)
    (h : ∀ a b, genStepCmp f a b = some (f a b)) : ∀ a b, f a b = cmpV a b := by
  intro a
  refine value_ind (fun a => ∀ b, f a b = cmpV a b) ?_ ?_ ?_ ?_ a
  · intro a hf b
    have h1 := h a b
    simp only [genStepCmp, hf, if_true, compareTo_bodies_agree a b hf] at h1
    exact (Option.some.inj h1).symm
  · intro xs ih b
    have h1 := h (.list xs) b
    have hf : isFlat (.list xs) = false := rfl
    simp only [genStepCmp, hf, Bool.false_eq_true, if_false] at h1
    rw [genContCmp_congr f cmpV (.list xs) b (fun x hx w => ih x (by simpa [children] using hx) w),
      container_compareTo_agree _ b hf] at h1
    exact (Option.some.inj h1).symm
  · intro kvs ih b
    have h1 := h (.map kvs) b
    have hf : isFlat (.map kvs) = false := rfl
    simp only [genStepCmp, hf, Bool.false_eq_true, if_false] at h1
    rw [genContCmp_congr f cmpV (.map kvs) b (fun x hx w => by
        simp only [children, List.mem_map] at hx; obtain ⟨p, hp, rfl⟩ := hx; exact ih p hp w),
      container_compareTo_agree _ b hf] at h1
    exact (Option.some.inj h1).symm
  · intro kvs ih b
    have h1 := h (.imap kvs) b
    have hf : isFlat (.imap kvs) = false := rfl
    simp only [genStepCmp, hf, Bool.false_eq_true, if_false] at h1
    rw [genContCmp_congr f cmpV (.imap kvs) b (fun x hx w => by
        simp only [children, List.mem_map] at hx; obtain ⟨p, hp, rfl⟩ := hx; exact ih p hp w),
      container_compareTo_agree _ b hf] at h1
    exact (Option.some.inj h1).symm

theorem source_determines_eq (f : Value → Value → Bool)
    (h : ∀ a b, genStepEq f a b = some (f a b)) : ∀ a b, f a b = eqV a b := by
  intro a
  refine value_ind (fun a => ∀ b, f a b = eqV a b) ?_ ?_ ?_ ?_ a
  · intro a hf b
    have h1 := h a b
    simp only [genStepEq, hf, if_true, equals_bodies_agree a b hf] at h1
    exact (Option.some.inj h1).symm
  · intro xs ih b
    have h1 := h (.list xs) b
    have hf : isFlat (.list xs) = false := rfl
    simp only [genStepEq, hf, Bool.false_eq_true, if_false] at h1
    rw [genContEq_congr f eqV (.list xs) b (fun x hx w => ih x (by simpa [children] using hx) w),
      container_equals_agree _ b hf] at h1
    exact (Option.some.inj h1).symm
  · intro kvs ih b
    have h1 := h (.map kvs) b
    have hf : isFlat (.map kvs) = false := rfl
    simp only [genStepEq, hf, Bool.false_eq_true, if_false] at h1
    rw [genContEq_congr f eqV (.map kvs) b (fun x hx w => by
        simp only [children, List.mem_map] at hx; obtain ⟨p, hp, rfl⟩ := hx; exact ih p hp w),
      container_equals_agree _ b hf] at h1
    exact (Option.some.inj h1).symm
  · intro kvs ih b
    have h1 := h (.imap kvs) b
    have hf : isFlat (.imap kvs) = false := rfl
    simp only [genStepEq, hf, Bool.false_eq_true, if_false] at h1
    rw [genContEq_congr f eqV (.imap kvs) b (fun x hx w => by
        simp only [children, List.mem_map] at hx; obtain ⟨p, hp, rfl⟩ := hx; exact ih p hp w),
      container_equals_agree _ b hf] at h1
    exact (Option.some.inj h1).symm

/-- the other map's entry is read with the comma-ok form in all four map methods (D04 repaired);
    a nil argument gives 0 / false -/
theorem container_assertions :
    Gen.C20.contCmp.all (fun e => e.2.nilRet == 0 && e.2.fallback == "intSub" && e.2.sizeCheck &&
      (e.2.iter == "index" || e.2.thatCommaOk)) = true ∧
    Gen.C20.contEq.all (fun e => e.2.guard && e.2.sizeCheck && (e.2.iter == "index" || e.2.thatCommaOk)) = true := by
  decide

/-! ### util/compare, interpreted: the six numeric slice helpers are `cmpSeq`, `CompareToStrings`
    is `cmpStrs`, every `EqualX` is `CompareToX(…) == 0` — for all element orders and all inputs -/

theorem numeric_helpers_are_cmpSeq {α : Type} (lt : α → α → Bool) (c : α → α → Int) (xs ys : List α) :
    ∀ h ∈ ["CompareToBytes", "CompareToShorts", "CompareToInts", "CompareToLongs", "CompareToFloats", "CompareToDoubles"],
      runHelperCmp Gen.C20.helperBodies h lt c xs ys = some (cmpSeq lt xs ys) := by
  intro h hm
  simp only [List.mem_cons, List.not_mem_nil, or_false] at hm
  rcases hm with rfl | rfl | rfl | rfl | rfl | rfl <;>
    simp [runHelperCmp, lookup, Gen.C20.helperBodies, runHLoop_ltgt]

theorem string_helper_is_cmpStrs (lt : Bytes → Bytes → Bool) (xs ys : List Bytes) :
    runHelperCmp Gen.C20.helperBodies "CompareToStrings" lt cmpStr xs ys = some (cmpStrs xs ys) := by
  simp [runHelperCmp, lookup, Gen.C20.helperBodies, runHLoop_cmp3, cmpStrs]

theorem equal_helpers_are_zero_tests {α : Type} (lt : α → α → Bool) (c : α → α → Int) (xs ys : List α) :
    ∀ p ∈ [("EqualBytes", "CompareToBytes"), ("EqualShorts", "CompareToShorts"), ("EqualInts", "CompareToInts"),
        ("EqualLongs", "CompareToLongs"), ("EqualFloats", "CompareToFloats"), ("EqualDoubles", "CompareToDoubles"),
        ("EqualStrings", "CompareToStrings")],
      runHelperEq Gen.C20.helperBodies p.1 lt c xs ys = (runHelperCmp Gen.C20.helperBodies p.2 lt c xs ys).map (· == 0) := by
  intro p hm
  simp only [List.mem_cons, List.not_mem_nil, or_false] at hm
  rcases hm with rfl | rfl | rfl | rfl | rfl | rfl | rfl <;>
    simp [runHelperEq, lookup, Gen.C20.helperBodies]

/-- wherever the semantics of a flat body calls a helper by name (`helperCmp`, CmpIR.lean), the
    transcribed body of that helper computes the same on the two payloads -/
theorem helper_bodies_agree (h f : String) (a b : Value) (r : Int) (hr : helperCmp h f a b = some r) :
    payloadCmp Gen.C20.helperBodies h a b = some r := by
  unfold helperCmp at hr
  split at hr <;> first
    | (cases hr; done)
    | (cases hr; simp [payloadCmp, runHelperCmp, lookup, Gen.C20.helperBodies, runHLoop_ltgt, runHLoop_cmp3, cmpStrs])

theorem helper_eq_bodies_agree (h f : String) (a b : Value) (r : Bool) (hr : helperEq h f a b = some r) :
    payloadEq? Gen.C20.helperBodies h a b = some r := by
  unfold helperEq at hr
  split at hr
  all_goals first
    | (cases hr; done)
    | (unfold helperCmp at hr
       split at hr
       all_goals first
        | (cases hr; done)
        | (rename_i heq; simp at heq; done)
        | (cases hr; simp [payloadEq?, runHelperEq, runHelperCmp, lookup, Gen.C20.helperBodies, runHLoop_ltgt, runHLoop_cmp3, cmpStrs]))

/-! non-vacuity -/
example : genCmp (.dec 3) (.dec 5) = some 1 := by decide +kernel
example : genCmp (.lsum 5 1 0 0) (.lsum 5 2 9 9) = some 1 := by decide +kernel
example : genEq (.text [1]) (.blob [1]) = some false := by decide +kernel
example : genContCmp cmpV (.list [.dec 1, .list [.dec 3]]) (.list [.dec 1, .list [.dec 5]]) = some 1 := by decide +kernel
example : genContCmp cmpV (.map [([97], .null)]) (.map [([98], .null)]) = some 1 := by decide +kernel      -- D04/D08: missing key
example : genContEq eqV (.imap [(1, .dec 1), (2, .null)]) (.imap [(2, .null), (1, .dec 1)]) = some true := by decide +kernel
example : genStepCmp cmpV (.list []) (.dec 0) = some 50 := by decide +kernel
example : payloadCmp Gen.C20.helperBodies "CompareToBytes" (.blob [1, 2]) (.blob [1, 3]) = some (-1) := by decide +kernel
example : helperCmp "CompareToStrings" "Val" (.at [[1]]) (.at [[1], [2]]) = some (-1) := by decide +kernel
example : helperEq "EqualInts" "Val" (.ai [1]) (.ai [1]) = some true := by decide +kernel

end C20Gen
