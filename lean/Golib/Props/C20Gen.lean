/-
  Property C20, tie A — the bodies of `Equals` / `CompareTo` that `xlate/c20` regenerates from
  lang/value and util/compare on every run (Golib/Gen/C20.lean), *interpreted* by the semantics of
  Golib/Value/CmpIR.lean, compute the model's `cmpV` / `eqV` for all inputs.

  So the flat part of the model is not compared with the code by the harness only: the transcribed
  code itself is proved equal to it.  A changed constant (1 ↔ -1), a swapped `<`, another field,
  another helper, a byte-typed fallback, an `Equals` that no longer checks the type — each changes
  the generated body and the corresponding theorem no longer checks.  The three container types
  and the slice helpers are tied by golden skeletons (their semantics is the hand-written model).
-/
import Golib.Gen.C20
import Golib.Value.CmpRec

namespace C20Gen
open Value Value.IR

/-- the transcribed `CompareTo` of the value's own type -/
def genCmp (a b : Value) : Option Int :=
  (lookup Gen.C20.cmpBodies (ctorOf a).typeName).bind (fun fc => runCmp fc a b)

def genEq (a b : Value) : Option Bool :=
  (lookup Gen.C20.eqBodies (ctorOf a).typeName).bind (fun e => runEq e a b)

/-- every flat type, any two values (same or different types): the interpreted source body of
    `CompareTo` returns what the model returns -/
theorem compareTo_bodies_agree (a b : Value) (hf : isFlat a = true) : genCmp a b = some (cmpV a b) := by
  rw [cmpV_flat a b hf]
  by_cases ht : tag a = tag b
  · cases a <;> (try (simp [isFlat] at hf; done)) <;> cases b <;> (try (simp [tag] at ht; done))
    all_goals simp [genCmp, lookup, Gen.C20.cmpBodies, Ctor.typeName, ctorOf, runCmp, runBody, evalCond, fieldRel,
      fieldTrue, helperCmp, cmpFlat, cmpDesc, tag]
    case bool.bool x y => cases x <;> cases y <;> simp
    case dsum.dsum s c _ _ s' c' _ _ =>
      cases h1 : eq64 s s' <;> cases h2 : lt64 s s' <;> by_cases h3 : c = c' <;> by_cases h4 : c < c' <;>
        simp [h3, h4]
    case lsum.lsum s c _ _ s' c' _ _ =>
      by_cases h1 : s = s' <;> by_cases h2 : s < s' <;> by_cases h3 : c = c' <;> by_cases h4 : c < c' <;>
        simp [h1, h2, h3, h4]
    all_goals (split <;> simp_all)
  · rw [cmpFlat_tag_ne a b ht]
    have hb : (tag a == tag b) = false := by simpa using ht
    cases a <;> (try (simp [isFlat] at hf; done)) <;>
      simp [genCmp, lookup, Gen.C20.cmpBodies, Ctor.typeName, ctorOf, runCmp, hb]

/-- … and the interpreted source body of `Equals` -/
theorem equals_bodies_agree (a b : Value) (hf : isFlat a = true) : genEq a b = some (eqV a b) := by
  rw [eqV_flat a b hf]
  by_cases ht : tag a = tag b
  · cases a <;> (try (simp [isFlat] at hf; done)) <;> cases b <;> (try (simp [tag] at ht; done))
    all_goals simp [genEq, lookup, Gen.C20.eqBodies, Ctor.typeName, ctorOf, runEq, evalCond, fieldRel,
      helperEq, helperCmp, eqFlat, tag, cmpStr_zero]
    all_goals first
      | done
      | (simp [beq_eq_decide]; done)
      | (rw [Bool.eq_iff_iff]; simp [cmpStr_zero])
  · have hb : (tag a == tag b) = false := by simpa using ht
    have : eqFlat a b = false := by unfold eqFlat; simp [ht]
    rw [this]
    cases a <;> (try (simp [isFlat] at hf; done)) <;>
      simp [genEq, lookup, Gen.C20.eqBodies, Ctor.typeName, ctorOf, runEq, hb]

/-- every flat `CompareTo` answers 1 to a nil argument and falls back on the int difference of the type codes -/
theorem fallbacks_are_int :
    Gen.C20.cmpBodies.all (fun e => e.2.fallback == "intSub" && e.2.nilRet == 1) = true := by decide

/-- exactly the seventeen flat types have bodies (a new value type would show up here) -/
theorem flat_types_complete :
    Gen.C20.cmpBodies.length = 17 ∧ Gen.C20.eqBodies.length = 17 ∧
    Gen.C20.eqBodies.map (·.1) = Gen.C20.cmpBodies.map (·.1) := by decide

/-- list / map / int-map: nil, type fallback, size difference, the loop along the receiver, plain
    assertion on the receiver's entry and comma-ok on the other's (D04), missing ⇒ 1 / false,
    recursion, first non-zero / first unequal, 0 / true at the end -/
theorem container_skeletons_agree : Gen.C20.containers = containerSkeletons := by decide

/-- util/compare: the slice helpers are the plain loop the model's `lexBy (cmpOf lt)` describes -/
theorem helper_skeletons_agree : Gen.C20.helpers = helperSkeletons := by decide

/-! non-vacuity -/
example : genCmp (.dec 3) (.dec 5) = some 1 := by decide +kernel
example : genCmp (.lsum 5 1 0 0) (.lsum 5 2 9 9) = some 1 := by decide +kernel
example : genEq (.text [1]) (.blob [1]) = some false := by decide +kernel

end C20Gen
