/-
  C08, tie A — obligations over the facts regenerated from lang/step, lang/service and the profile
  packs (lean/Golib/Gen/C08.lean, written by xlate/c08 on every run).

  * the two registries (`CreateStep`, `CreateService`) and every type's own type code equal the
    model's tables;
  * for every type, the skeleton of its `Write` and of its `Read` (ordered calls, declared field
    types, conversions, constants, control structure) equals the skeleton of the model's layout.

  All by `decide`: an edit of a writer or a reader that changes the wire format (dropped, added or
  reordered call, other primitive, other width, other presence condition, other constant) changes
  the regenerated data and the corresponding theorem stops checking.
-/
import Golib.Step.Skeleton
import Golib.Gen.C08

namespace C08Gen
open Step

/-! ### registries and type codes -/

def codesOf (tbl : List (Nat × String × L)) : List (Int × String) := tbl.map (fun (c, n, _) => ((c : Int), n))

theorem createStep_agrees : Gen.C08.createStep = codesOf stepTable := by decide
theorem createService_agrees : Gen.C08.createService = codesOf serviceTable := by decide

/-- what `GetStepType` / `GetServiceType` of each type answers is the code the model writes for it -/
theorem typeCodes_agree :
    Gen.C08.typeCodes = (stepTable ++ unregisteredSteps ++ serviceTable).map (fun (c, n, _) => (n, (c : Int))) := by
  decide

/-- the constants the layouts mention: error level WARNING, default HttpcStepX version -/
theorem consts_agree :
    Gen.C08.consts.lookup "WARNING" = some 20 ∧ Gen.C08.consts.lookup "HTTPC_STEP_DEFAULT_VERSION" = some 2 ∧
    Gen.C08.consts.lookup "STEP_MESSAGE_X" = some 22 := by decide

/-- every registered step type answers the code it is registered under; the two unregistered types
    do not occur in `CreateStep` (observation of DESIGN §1) -/
theorem registered_codes_consistent :
    (∀ p ∈ Gen.C08.createStep, Gen.C08.typeCodes.lookup p.2 = some p.1) ∧
    Gen.C08.createStep.all (fun p => p.2 != "MessageStepX" && p.2 != "SqlStep_3") = true := by decide

/-! ### writers -/

theorem w_MethodStepX : Gen.C08.wskel_MethodStepX = methodStepX.wskel := by decide
theorem w_SqlStepX : Gen.C08.wskel_SqlStepX = sqlStepX.wskel := by decide
theorem w_ResultSetStep : Gen.C08.wskel_ResultSetStep = resultSetStep.wskel := by decide
theorem w_SocketStep : Gen.C08.wskel_SocketStep = socketStep.wskel := by decide
theorem w_HttpcStepX : Gen.C08.wskel_HttpcStepX = httpcStepX.wskel := by decide
theorem w_ActiveStackStep : Gen.C08.wskel_ActiveStackStep = activeStackStep.wskel := by decide
theorem w_MessageStep : Gen.C08.wskel_MessageStep = messageStep.wskel := by decide
theorem w_SecureMsgStep : Gen.C08.wskel_SecureMsgStep = secureMsgStep.wskel := by decide
theorem w_DBCStep : Gen.C08.wskel_DBCStep = dbcStep.wskel := by decide
theorem w_MessageStepX : Gen.C08.wskel_MessageStepX = messageStepX.wskel := by decide
theorem w_SqlStep_3 : Gen.C08.wskel_SqlStep_3 = sqlStep3.wskel := by decide
theorem w_WasService : Gen.C08.wskel_WasService = wasService.wskel := by decide
theorem w_AppService : Gen.C08.wskel_AppService = appService.wskel := by decide
theorem w_WasService2 : Gen.C08.wskel_WasService2 = wasService.wskel := by decide
theorem w_TxRecord : Gen.C08.wskel_TxRecord = txRecord.wskel := by decide
theorem w_ProfilePack : Gen.C08.wskel_ProfilePack = profilePackW := by decide
theorem w_ProfileStepSplitPack :
    Gen.C08.wskel_ProfileStepSplitPack = "call AbstractPack.Write" :: profileStepSplitPackBody.wskel := by decide
theorem w_ErrorSnapPack1 :
    Gen.C08.wskel_ErrorSnapPack1 = "call AbstractPack.Write" :: errorSnapPack1Body.wskel := by decide

/-! ### readers -/

theorem r_MethodStepX : Gen.C08.rskel_MethodStepX = methodStepX.rskel := by decide
theorem r_SqlStepX : Gen.C08.rskel_SqlStepX = sqlStepX.rskel := by decide
theorem r_ResultSetStep : Gen.C08.rskel_ResultSetStep = resultSetStep.rskel := by decide
theorem r_SocketStep : Gen.C08.rskel_SocketStep = socketStep.rskel := by decide
theorem r_HttpcStepX : Gen.C08.rskel_HttpcStepX = httpcStepX.rskel := by decide
theorem r_ActiveStackStep : Gen.C08.rskel_ActiveStackStep = activeStackStep.rskel := by decide
theorem r_MessageStep : Gen.C08.rskel_MessageStep = messageStep.rskel := by decide
theorem r_SecureMsgStep : Gen.C08.rskel_SecureMsgStep = secureMsgStep.rskel := by decide
theorem r_DBCStep : Gen.C08.rskel_DBCStep = dbcStep.rskel := by decide
theorem r_MessageStepX : Gen.C08.rskel_MessageStepX = messageStepXR := by decide
theorem r_SqlStep_3 : Gen.C08.rskel_SqlStep_3 = sqlStep3.rskel := by decide
theorem r_WasService : Gen.C08.rskel_WasService = wasService.rskel := by decide
theorem r_AppService : Gen.C08.rskel_AppService = appService.rskel := by decide
theorem r_WasService2 : Gen.C08.rskel_WasService2 = wasService.rskel := by decide
theorem r_TxRecord : Gen.C08.rskel_TxRecord = txRecordR := by decide
theorem r_ProfilePack : Gen.C08.rskel_ProfilePack = profilePackR := by decide
theorem r_ProfileStepSplitPack :
    Gen.C08.rskel_ProfileStepSplitPack = "call AbstractPack.Read" :: profileStepSplitPackBody.rskel := by decide
theorem r_ErrorSnapPack1 :
    Gen.C08.rskel_ErrorSnapPack1 = "call AbstractPack.Read" :: errorSnapPack1Body.rskel := by decide

end C08Gen
