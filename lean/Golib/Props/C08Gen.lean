/-
  C08, tie A — obligations over the facts regenerated from lang/step, lang/service and the profile
  packs (lean/Golib/Gen/C08.lean, written by xlate/c08 on every run).

  * the two registries (`CreateStep`, `CreateService`) and every type's own type code equal the
    model's tables (`decide`);
  * **interpreted skeletons**: the regenerated token list of every `Write` is read as a layout by
    `Step.parseW`, that of every `Read` by `Step.parseR` (interpreters that know nothing of the
    model); the obligations `iw_T` / `ir_T` say that these are the writer view and the reader view
    of the model's layout `T` (`decide`).  `gen_roundtrip_T` then follows from the bridge lemmas
    `wview_write` / `rview_read` and the generic round trip: the reader denoted by the regenerated
    `Read` skeleton reads back, for all field values in range and any following bytes, exactly
    what the writer denoted by the regenerated `Write` skeleton writes — and these bytes are the
    model's.  An edit of a writer or reader that changes the wire format changes the regenerated
    tokens; either they no longer parse, or they parse to another layout, and `iw_T` / `ir_T` fail.
-/
import Golib.Step.Interp
import Golib.Step.Setters
import Golib.Step.Api
import Golib.Step.Layouts
import Golib.Step.ValueInst
import Golib.Gen.C08

namespace C08Gen
open Step

/-! ### registries and type codes -/

def codesOf (tbl : List (Nat × String × L)) : List (Int × String) := tbl.map (fun (c, n, _) => ((c : Int), n))

theorem createStep_agrees : Gen.C08.createStep = codesOf stepTable := by decide
theorem createService_agrees : Gen.C08.createService = codesOf serviceTable := by decide

/-- what `GetStepType` / `GetServiceType` of each type answers is the code the model writes for it -/
theorem typeCodes_agree :
    Gen.C08.typeCodes = (stepTable ++ unregisteredSteps ++ serviceTable).map (fun (c, n, _) => (n, (c : Int))) := by
  decide

/-- the constants the layouts mention: error level WARNING, default HttpcStepX version -/
theorem consts_agree :
    Gen.C08.consts.lookup "WARNING" = some 20 ∧ Gen.C08.consts.lookup "HTTPC_STEP_DEFAULT_VERSION" = some 2 ∧
    Gen.C08.consts.lookup "STEP_MESSAGE_X" = some 22 := by decide

/-- every registered step type answers the code it is registered under; the two unregistered types
    do not occur in `CreateStep` -/
theorem registered_codes_consistent :
    (∀ p ∈ Gen.C08.createStep, Gen.C08.typeCodes.lookup p.2 = some p.1) ∧
    Gen.C08.createStep.all (fun p => p.2 != "MessageStepX" && p.2 != "SqlStep_3") = true := by decide

/-! ### interpreted skeletons -/

/-- what an interpreted pair of skeletons gives -/
abbrev Denotes (tw tr : List Tok) (T : L) : Prop :=
  ∃ lw lr, parseW tw = some lw ∧ parseR tr = some lr ∧
    ∀ (x : Rec) (r : Bytes), T.WF valueRT x [] →
      (lw.write x = T.write x) ∧ lr.read [] (lw.write x ++ r) = some (T.expect x [], r)

theorem iw_MethodStepX : parseW Gen.C08.wtok_MethodStepX = some methodStepX.wview := by decide
theorem ir_MethodStepX : parseR Gen.C08.rtok_MethodStepX = some methodStepX.rview := by decide
theorem gen_roundtrip_MethodStepX : Denotes Gen.C08.wtok_MethodStepX Gen.C08.rtok_MethodStepX methodStepX :=
  interp_roundtrip valueRT _ _ methodStepX (by decide) iw_MethodStepX ir_MethodStepX

theorem iw_SqlStepX : parseW Gen.C08.wtok_SqlStepX = some sqlStepX.wview := by decide
theorem ir_SqlStepX : parseR Gen.C08.rtok_SqlStepX = some sqlStepX.rview := by decide
theorem gen_roundtrip_SqlStepX : Denotes Gen.C08.wtok_SqlStepX Gen.C08.rtok_SqlStepX sqlStepX :=
  interp_roundtrip valueRT _ _ sqlStepX (by decide) iw_SqlStepX ir_SqlStepX

theorem iw_ResultSetStep : parseW Gen.C08.wtok_ResultSetStep = some resultSetStep.wview := by decide
theorem ir_ResultSetStep : parseR Gen.C08.rtok_ResultSetStep = some resultSetStep.rview := by decide
theorem gen_roundtrip_ResultSetStep : Denotes Gen.C08.wtok_ResultSetStep Gen.C08.rtok_ResultSetStep resultSetStep :=
  interp_roundtrip valueRT _ _ resultSetStep (by decide) iw_ResultSetStep ir_ResultSetStep

theorem iw_SocketStep : parseW Gen.C08.wtok_SocketStep = some socketStep.wview := by decide
theorem ir_SocketStep : parseR Gen.C08.rtok_SocketStep = some socketStep.rview := by decide
theorem gen_roundtrip_SocketStep : Denotes Gen.C08.wtok_SocketStep Gen.C08.rtok_SocketStep socketStep :=
  interp_roundtrip valueRT _ _ socketStep (by decide) iw_SocketStep ir_SocketStep

theorem iw_HttpcStepX : parseW Gen.C08.wtok_HttpcStepX = some httpcStepX.wview := by decide
theorem ir_HttpcStepX : parseR Gen.C08.rtok_HttpcStepX = some httpcStepX.rview := by decide
theorem gen_roundtrip_HttpcStepX : Denotes Gen.C08.wtok_HttpcStepX Gen.C08.rtok_HttpcStepX httpcStepX :=
  interp_roundtrip valueRT _ _ httpcStepX (by decide) iw_HttpcStepX ir_HttpcStepX

theorem iw_ActiveStackStep : parseW Gen.C08.wtok_ActiveStackStep = some activeStackStep.wview := by decide
theorem ir_ActiveStackStep : parseR Gen.C08.rtok_ActiveStackStep = some activeStackStep.rview := by decide
theorem gen_roundtrip_ActiveStackStep : Denotes Gen.C08.wtok_ActiveStackStep Gen.C08.rtok_ActiveStackStep activeStackStep :=
  interp_roundtrip valueRT _ _ activeStackStep (by decide) iw_ActiveStackStep ir_ActiveStackStep

theorem iw_MessageStep : parseW Gen.C08.wtok_MessageStep = some messageStep.wview := by decide
theorem ir_MessageStep : parseR Gen.C08.rtok_MessageStep = some messageStep.rview := by decide
theorem gen_roundtrip_MessageStep : Denotes Gen.C08.wtok_MessageStep Gen.C08.rtok_MessageStep messageStep :=
  interp_roundtrip valueRT _ _ messageStep (by decide) iw_MessageStep ir_MessageStep

theorem iw_SecureMsgStep : parseW Gen.C08.wtok_SecureMsgStep = some secureMsgStep.wview := by decide
theorem ir_SecureMsgStep : parseR Gen.C08.rtok_SecureMsgStep = some secureMsgStep.rview := by decide
theorem gen_roundtrip_SecureMsgStep : Denotes Gen.C08.wtok_SecureMsgStep Gen.C08.rtok_SecureMsgStep secureMsgStep :=
  interp_roundtrip valueRT _ _ secureMsgStep (by decide) iw_SecureMsgStep ir_SecureMsgStep

theorem iw_DBCStep : parseW Gen.C08.wtok_DBCStep = some dbcStep.wview := by decide
theorem ir_DBCStep : parseR Gen.C08.rtok_DBCStep = some dbcStep.rview := by decide
theorem gen_roundtrip_DBCStep : Denotes Gen.C08.wtok_DBCStep Gen.C08.rtok_DBCStep dbcStep :=
  interp_roundtrip valueRT _ _ dbcStep (by decide) iw_DBCStep ir_DBCStep

theorem iw_MessageStepX : parseW Gen.C08.wtok_MessageStepX = some messageStepX.wview := by decide
theorem ir_MessageStepX : parseR Gen.C08.rtok_MessageStepX = some messageStepX.rview := by decide
theorem gen_roundtrip_MessageStepX : Denotes Gen.C08.wtok_MessageStepX Gen.C08.rtok_MessageStepX messageStepX :=
  interp_roundtrip valueRT _ _ messageStepX (by decide) iw_MessageStepX ir_MessageStepX

theorem iw_SqlStep_3 : parseW Gen.C08.wtok_SqlStep_3 = some sqlStep3.wview := by decide
theorem ir_SqlStep_3 : parseR Gen.C08.rtok_SqlStep_3 = some sqlStep3.rview := by decide
theorem gen_roundtrip_SqlStep_3 : Denotes Gen.C08.wtok_SqlStep_3 Gen.C08.rtok_SqlStep_3 sqlStep3 :=
  interp_roundtrip valueRT _ _ sqlStep3 (by decide) iw_SqlStep_3 ir_SqlStep_3

theorem iw_WasService : parseW Gen.C08.wtok_WasService = some wasService.wview := by decide
theorem ir_WasService : parseR Gen.C08.rtok_WasService = some wasService.rview := by decide
theorem gen_roundtrip_WasService : Denotes Gen.C08.wtok_WasService Gen.C08.rtok_WasService wasService :=
  interp_roundtrip valueRT _ _ wasService (by decide) iw_WasService ir_WasService

theorem iw_AppService : parseW Gen.C08.wtok_AppService = some appService.wview := by decide
theorem ir_AppService : parseR Gen.C08.rtok_AppService = some appService.rview := by decide
theorem gen_roundtrip_AppService : Denotes Gen.C08.wtok_AppService Gen.C08.rtok_AppService appService :=
  interp_roundtrip valueRT _ _ appService (by decide) iw_AppService ir_AppService

theorem iw_WasService2 : parseW Gen.C08.wtok_WasService2 = some wasService.wview := by decide
theorem ir_WasService2 : parseR Gen.C08.rtok_WasService2 = some wasService.rview := by decide
theorem gen_roundtrip_WasService2 : Denotes Gen.C08.wtok_WasService2 Gen.C08.rtok_WasService2 wasService :=
  interp_roundtrip valueRT _ _ wasService (by decide) iw_WasService2 ir_WasService2

theorem iw_TxRecord : parseW Gen.C08.wtok_TxRecord = some txRecord.wview := by decide
theorem ir_TxRecord : parseR Gen.C08.rtok_TxRecord = some txRecord.rview := by decide
theorem gen_roundtrip_TxRecord : Denotes Gen.C08.wtok_TxRecord Gen.C08.rtok_TxRecord txRecord :=
  interp_roundtrip valueRT _ _ txRecord (by decide) iw_TxRecord ir_TxRecord

/-! the packs: the first token is the call of the header writer / reader (C03's subject), the rest is the body -/

theorem iw_ProfilePack : Gen.C08.wtok_ProfilePack.head? = some (.call "AbstractPack.Write") ∧
    parseW (Gen.C08.wtok_ProfilePack.drop 1) = some profilePackBody.wview := by decide
theorem ir_ProfilePack : Gen.C08.rtok_ProfilePack.head? = some (.call "AbstractPack.Read") ∧
    parseR (Gen.C08.rtok_ProfilePack.drop 1) = some profilePackBody.rview := by decide
theorem gen_roundtrip_ProfilePack : Denotes (Gen.C08.wtok_ProfilePack.drop 1) (Gen.C08.rtok_ProfilePack.drop 1) profilePackBody :=
  interp_roundtrip valueRT _ _ profilePackBody (by decide) iw_ProfilePack.2 ir_ProfilePack.2

theorem iw_ProfileStepSplitPack : Gen.C08.wtok_ProfileStepSplitPack.head? = some (.call "AbstractPack.Write") ∧
    parseW (Gen.C08.wtok_ProfileStepSplitPack.drop 1) = some profileStepSplitPackBody.wview := by decide
theorem ir_ProfileStepSplitPack : Gen.C08.rtok_ProfileStepSplitPack.head? = some (.call "AbstractPack.Read") ∧
    parseR (Gen.C08.rtok_ProfileStepSplitPack.drop 1) = some profileStepSplitPackBody.rview := by decide
theorem gen_roundtrip_ProfileStepSplitPack : Denotes (Gen.C08.wtok_ProfileStepSplitPack.drop 1) (Gen.C08.rtok_ProfileStepSplitPack.drop 1) profileStepSplitPackBody :=
  interp_roundtrip valueRT _ _ profileStepSplitPackBody (by decide) iw_ProfileStepSplitPack.2 ir_ProfileStepSplitPack.2

theorem iw_ErrorSnapPack1 : Gen.C08.wtok_ErrorSnapPack1.head? = some (.call "AbstractPack.Write") ∧
    parseW (Gen.C08.wtok_ErrorSnapPack1.drop 1) = some errorSnapPack1Body.wview := by decide
theorem ir_ErrorSnapPack1 : Gen.C08.rtok_ErrorSnapPack1.head? = some (.call "AbstractPack.Read") ∧
    parseR (Gen.C08.rtok_ErrorSnapPack1.drop 1) = some errorSnapPack1Body.rview := by decide
theorem gen_roundtrip_ErrorSnapPack1 : Denotes (Gen.C08.wtok_ErrorSnapPack1.drop 1) (Gen.C08.rtok_ErrorSnapPack1.drop 1) errorSnapPack1Body :=
  interp_roundtrip valueRT _ _ errorSnapPack1Body (by decide) iw_ErrorSnapPack1.2 ir_ErrorSnapPack1.2

/-! ### what an object could carry from one Write to the next

  The model's writers are functions of the current public fields.  For the Go objects to behave like that a
  record or pack must not keep encoded state between Writes.  Regenerated from the source: the unexported
  fields of every covered struct (incl. AbstractStep / AbstractService / AbstractPack), the receiver fields
  assigned inside `Write` (embedded writers and own helpers inlined), and the package-level variables of
  lang/step and lang/service.  A cache field, an assignment inside Write or a package-level scratch buffer
  changes one of these lists. -/

theorem no_unexported_state : ∀ e ∈ Gen.C08.unexportedFields, e.2 = [] := by decide
theorem write_assigns_no_field : ∀ e ∈ Gen.C08.assignedInWrite, e.2 = [] := by decide
/-- the only package-level variables are the two WebMethod name tables of lang/service (no writer mentions them) -/
theorem package_level_state : Gen.C08.packageVars = ["service.WebMethodName", "service.WebMethodValue"] := by decide

/-! ### builders called more than once: replace or accumulate, read off the source -/

/-- every builder of the covered containers denotes the semantics the model gives it: the three
    `SetProfile` and `SetStack` REPLACE their field (`this.f = …`), `SetCtr` / `SetTrue` or into it.
    (An appending `SetProfile` — `this.Steps = append(this.Steps, …)` — denotes nothing and this fails.) -/
theorem setters_agree :
    Gen.C08.setters.map (fun p => (p.1, parseSetter p.2)) = setterTable.map (fun p => (p.1, some p.2)) := by decide

example : parseSetter [.asg "Steps" "[]byte" "append(Steps, step.ToBytesStep(local1)...)"] = none := by decide

/-! ### accessors and constructors, read off the source -/

/-- what a regenerated accessor entry (receiver, kind, field) denotes -/
def parseAcc (recv kind f : String) : Option Acc :=
  if kind = "get" then some (.get (qualField recv f))
  else if kind = "set" then some (.set (qualField recv f))
  else if kind = "or" then some (.orByte (qualField recv f))
  else if kind = "bit" then some (.bit (qualField recv f))
  else if kind = "const" ∧ f = "0" then some (.const 0)
  else none

/-- every exported one-line method of `AbstractStep` and of the eleven step types that is not a wire method, a
    type code or a builder denotes exactly what the model's `accessorTable` says (getter of which field, setter of
    which field, or-ing setter, bit test, constant 0) — and there are no others.  (`GetElapsed` returning another
    field, a `SetParent` that also touches `Index`, a type overriding `SetTrue` … change the regenerated entry.) -/
theorem accessors_agree :
    (∀ e ∈ Gen.C08.accessors, (parseAcc e.1 e.2.2.1 e.2.2.2).isSome ∧
        accessorTable.lookup (e.1, e.2.1) = parseAcc e.1 e.2.2.1 e.2.2.2) ∧
    Gen.C08.accessors.length = accessorTable.length ∧
    (Gen.C08.accessors.map (fun e => (e.1, e.2.1))).Nodup := by decide

def initKey : Option Val → String × Int
  | none => ("arg", 0)
  | some (.i v) => ("int", v)
  | some (.b []) => ("empty", 0)
  | _ => ("other", 0)

/-- every constructor of the covered types allocates the type and sets the fields the model's `ctorTable` says
    (`NewHttpcStepX`: Version 2; `NewHttpcStepXVersion`, `NewMessageStepXWithStartTime`: their argument;
    `NewProfileStepSplitPack`: an empty step blob; all others: the zero object) — and there are no others -/
theorem ctors_agree :
    (∀ e ∈ Gen.C08.ctors,
        (ctorTable.lookup e.1).map (fun p => (p.1, p.2.map (fun i => (i.1, initKey i.2)))) = some e.2) ∧
    Gen.C08.ctors.length = ctorTable.length ∧ (Gen.C08.ctors.map (·.1)).Nodup := by decide

example : parseAcc "DBCStep" "unknown" "return this.Elapsed + 1" = none := by decide

/-- non-vacuity: the interpreters do not accept everything — a writer skeleton with a call they do not
    know, or one that stops inside a section, denotes nothing -/
example : parseW [.w "WriteFloat" "X" "float32"] = none := by decide
example : parseW [.ifnz "Mtid", .wl "WriteByte" 1] = none := by decide
example : parseR [.r "ReadDecimal" "X" "int64" "int32"] = none := by decide   -- a narrowing read of an int64 field

end C08Gen
