/-
  Property C06 — the one-way TCP client delivers whole frames, in order, at most once, and recovers.

  Statements and one-line proofs by reference to the lemma files Golib.Tcp.*.

  The CodeModel (Golib.Tcp.Model) is a machine of atomic actions following OneWayTcpClient.go:
  senders (threads 1,2,…) run sendDirect or SendFlush, thread 0 runs process(); the environment
  decides whether a dial, a write or a flush succeeds, how many bytes go out before an error,
  and when the peer closes.  Every theorem below quantifies over **all schedules** (`Reach`: any
  list of actions whose guards hold), all frame contents (`bytesOf` is arbitrary), any number of
  threads, any fault sequence.

  `Cfg` carries what tie A re-extracts from the Go source on every run (Golib/Props/C06Gen.lean):
  `sendLocked` (sendDirect holds the send lock around makeData/send/Flush) and `bgLocked`
  (process() connects under that lock — false in the code as found: D42, see `finding_D42`).

  What a state records about the wire: `s.sent c` — the bytes the kernel took on connection `c`;
  `s.delivered c` — what the peer received (`sent c`, cut where the peer closed); `s.log.get c` —
  the sends whose frames were handed to the buffered writer of `c`, in order; `s.handed` — the
  sends in acceptance order (lock order / enqueue order; send ids are issued in that order);
  `s.results` — what Send returned.
-/
import Golib.Tcp.Drain
import Golib.Tcp.WireLink

namespace C06
open Tcp

variable (cfg : Cfg) (bytesOf : Nat → Bytes)

/-! ### whole frames -/

/-- Per connection, every prefix of the bytes sent — in particular what the peer received before
    it closed, at whatever byte — is a sequence of whole frames of sends handed to that connection,
    in that order, followed by nothing or by a strict prefix of the next such frame. -/
theorem frames_whole (hl : cfg.sendLocked = true) (s : St) (hr : Reach cfg bytesOf s) (c : Nat) (d : Bytes)
    (hd : d <+: s.sent c) : WholeThenTail bytesOf (s.log.get c) d :=
  prefix_frames bytesOf _ d (hd.trans (sent_prefix_of_core cfg bytesOf (core_reach cfg bytesOf hl hr) c))

/-- … so is what the peer received -/
theorem frames_whole_delivered (hl : cfg.sendLocked = true) (s : St) (hr : Reach cfg bytesOf s) (c : Nat) :
    WholeThenTail bytesOf (s.log.get c) (s.delivered c) :=
  frames_whole cfg bytesOf hl s hr c _ (delivered_prefix_sent s c)

/-- the frames on the wire are frames of accepted sends -/
theorem frames_accepted (hl : cfg.sendLocked = true) (s : St) (hr : Reach cfg bytesOf s) (c sid : Nat)
    (h : sid ∈ s.log.get c) : sid ∈ s.handed :=
  log_handed cfg bytesOf (core_reach cfg bytesOf hl hr) c sid h

/-- a stream ends inside a frame only while a write is in progress or bytes are still buffered:
    when the writer's buffer is empty and no copy is in progress, exactly whole frames were sent -/
theorem frames_complete_when_flushed (hl : cfg.sendLocked = true) (s : St) (hr : Reach cfg bytesOf s) (c : Nat)
    (hb : s.buf.get c = []) (hp : s.pend.get c = []) : s.sent c = concatF bytesOf (s.log.get c) :=
  sent_whole_of_idle cfg bytesOf (core_reach cfg bytesOf hl hr) c hb hp

/-- The reader's parse is the writer's log.  Frames are self-delimiting (a length header), so however
    the collector splits what it received on a connection into whole frames and a tail, it finds
    byte for byte the first frames handed to that connection, in order. -/
theorem parse_is_log (hl : cfg.sendLocked = true) (h : Nat) (lenOf : Bytes → Nat) (sd : SelfDelim bytesOf h lenOf)
    (s : St) (hr : Reach cfg bytesOf s) (c : Nat) (fs' : List Nat) (t' : Bytes) (ht' : IsTail bytesOf t')
    (hparse : s.delivered c = concatF bytesOf fs' ++ t') :
    ∃ k, fs'.map bytesOf = ((s.log.get c).take k).map bytesOf := by
  obtain ⟨k, tail, hk, htail⟩ := frames_whole_delivered cfg bytesOf hl s hr c
  refine ⟨k, ?_⟩
  have hT : IsTail bytesOf tail := by
    rcases htail with h0 | ⟨sid, _, hp, hn⟩
    · exact Or.inl h0
    · exact Or.inr ⟨sid, hp, hn⟩
  exact ((sd.decompose_unique _ _ _ _ hT ht' (hk.symm.trans hparse)).1).symm

/-- the frames `makeData` builds are self-delimiting (payload length in header bytes 18..21) -/
theorem makeData_self_delimiting (hash64 : Bytes → Int) (dflt : Bytes) (ov : Nat → Bytes) (pc : Nat → Int)
    (pl : Nat → Bytes) (hlen : ∀ sid, (pl sid).length < 256 ^ 4) :
    SelfDelim (fun sid => makeData hash64 dflt (ov sid) (pc sid) (pl sid)) 22
      (fun hdr => Prim.unbeN ((hdr.drop 18).take 4)) :=
  mkFrame_selfDelim pc (fun sid => hash64 (effLicense (ov sid) dflt)) pl hlen

/-! ### order, at most once -/

/-- The sends whose frames went to the connections, connection after connection, are strictly
    increasing in acceptance order: nothing twice, nothing reordered; all of them were accepted;
    hence they form a subsequence of the acceptance order. -/
theorem order_once (hl : cfg.sendLocked = true) (s : St) (hr : Reach cfg bytesOf s) :
    (flatLogs s).Pairwise (· < ·) ∧ s.handed.Pairwise (· < ·) ∧ (∀ x ∈ flatLogs s, x ∈ s.handed) ∧
    (flatLogs s).Sublist s.handed := by
  have hc := (core_reach cfg bytesOf hl hr).order
  exact ⟨hc.logSorted, hc.handedSorted, hc.logHanded,
    sublist_of_sorted _ _ hc.logSorted hc.handedSorted hc.logHanded⟩

/-- frames go to connections in the order the connections were made: only the newest writer is written -/
theorem newest_connection_only (hl : cfg.sendLocked = true) (s : St) (hr : Reach cfg bytesOf s) (w : Nat)
    (h : s.wr = some w) : w + 1 = s.next ∧ ∀ w', s.next ≤ w' → s.log.get w' = [] :=
  ⟨(core_reach cfg bytesOf hl hr).order.wrNew w h, (core_reach cfg bytesOf hl hr).order.freshLog⟩

/-! ### no interleaving -/

/-- at most one thread is between Lock and Unlock (direct mode) / only process() sends (queue mode) -/
theorem mutual_exclusion (hl : cfg.sendLocked = true) (s : St) (hr : Reach cfg bytesOf s) (t t' : Nat)
    (h1 : inCS (s.pc t) = true) (h2 : inCS (s.pc t') = true) : t = t' :=
  mutex_unique cfg (core_reach cfg bytesOf hl hr).mutex t t' h1 h2

/-- For every buffered writer: bytes already sent, then bytes buffered, then the part of the frame
    still being copied are **exactly** the concatenation of the frames handed to it — the bytes
    of a frame are contiguous, never mixed with another frame's. -/
theorem no_interleave (hl : cfg.sendLocked = true) (s : St) (hr : Reach cfg bytesOf s) (w : Nat) :
    s.sent w ++ s.buf.get w ++ s.pend.get w = concatF bytesOf (s.log.get w) :=
  (core_reach cfg bytesOf hl hr).bytes.eq w

/-! ### frame header: pcode and license -/

/-- the frame `makeData` builds carries the pack's project code, the hash of the per-send license
    if one was given and of the client's license otherwise, and the payload length -/
theorem license_choice (hash64 : Bytes → Int) (dflt override : Bytes) (pcode : Int) (payload rest : Bytes)
    (hp : Prim.inRange 8 pcode) (hh : ∀ b, Prim.inRange 8 (hash64 b)) (hlen : payload.length < 256 ^ 4) :
    parseHeader (makeData hash64 dflt override pcode payload ++ rest) =
      some { src := 10, ver := 0, pcode := pcode,
             hash := hash64 (if override ≠ [] then override else dflt), len := payload.length } :=
  parseHeader_mkFrame pcode _ payload rest hp (hh _) hlen

theorem frame_length (hash64 : Bytes → Int) (dflt override : Bytes) (pcode : Int) (payload : Bytes) :
    (makeData hash64 dflt override pcode payload).length = 22 + payload.length :=
  mkFrame_length _ _ _

/-! ### the frames are C05's frames -/

/-- with C05's license hash, the frame `makeData` builds is C05's reference frame byte for byte -/
theorem frame_is_c05_frame (dflt ov : Bytes) (pcode : Int) (pl : Bytes) (hlen : pl.length < 256 ^ 4) :
    makeData Wire.hash64 dflt ov pcode pl = Wire.frame pcode (effLicense ov dflt) pl :=
  makeData_eq_wire_frame dflt ov pcode pl hlen

/-- instance of C05's `frame_parse`: the collector's parser reads from a C06 frame the pack's project
    code, the hash of the license in effect and the payload, consuming exactly the frame -/
theorem frame_parse_c05 (dflt ov : Bytes) (pcode : Int) (pl r : Bytes) (hp : Prim.inRange 8 pcode)
    (hlen : pl.length < 2147483648) :
    P.run Wire.parseFrame (makeData Wire.hash64 dflt ov pcode pl ++ r) =
      some (⟨10, 0, pcode, Wire.hash64 (effLicense ov dflt), pl⟩, r) :=
  makeData_parse dflt ov pcode pl r hp hlen

/-- instance of C05's `frame_length`: streams of C05 frames decompose uniquely, so for the client
    sending C05 frames the collector's split of a connection's bytes is the beginning of that
    connection's log -/
theorem parse_is_log_c05 (hl : cfg.sendLocked = true) (pc : Nat → Int) (lic pl : Nat → Bytes)
    (hlen : ∀ sid, (pl sid).length < 2147483648) (s : St)
    (hr : Reach cfg (fun sid => Wire.frame (pc sid) (lic sid) (pl sid)) s) (c : Nat) (fs' : List Nat) (t' : Bytes)
    (ht' : IsTail (fun sid => Wire.frame (pc sid) (lic sid) (pl sid)) t')
    (hparse : s.delivered c = concatF (fun sid => Wire.frame (pc sid) (lic sid) (pl sid)) fs' ++ t') :
    ∃ k, fs'.map (fun sid => Wire.frame (pc sid) (lic sid) (pl sid)) =
      ((s.log.get c).take k).map (fun sid => Wire.frame (pc sid) (lic sid) (pl sid)) :=
  parse_is_log cfg _ hl 22 _ (wire_frames_selfDelim pc lic pl hlen) s hr c fs' t' ht' hparse

/-! ### recovery -/

/-- Every connection — in particular one made after any sequence of faults — starts at a frame
    boundary: the first byte the peer receives on it is the first byte of the first frame handed
    to that connection. -/
theorem recovers (hl : cfg.sendLocked = true) (hne : ∀ sid, bytesOf sid ≠ []) (s : St)
    (hr : Reach cfg bytesOf s) (c b : Nat) (rest : Bytes) (hd : s.delivered c = b :: rest) :
    ∃ sid r, s.log.get c = sid :: r ∧ (bytesOf sid).head? = some b := by
  have hp : s.delivered c <+: concatF bytesOf (s.log.get c) :=
    (delivered_prefix_sent s c).trans (sent_prefix_of_core cfg bytesOf (core_reach cfg bytesOf hl hr) c)
  rw [hd] at hp
  cases hlog : s.log.get c with
  | nil => rw [hlog] at hp; simp [concatF] at hp
  | cons sid r =>
    refine ⟨sid, r, rfl, ?_⟩
    rw [hlog] at hp
    simp only [concatF] at hp
    cases hb : bytesOf sid with
    | nil => exact absurd hb (hne sid)
    | cons x xs =>
      rw [hb, List.cons_append, List.cons_prefix_cons] at hp
      simp [hp.1]

/-- The client reconnects on a later send (direct mode).  From every reachable state in which
    sender `t` is idle and the send lock is free — after any faults whatever — there is a
    continuation of at most two sends by `t`, containing no fault action, after which a send has
    been accepted and its frame is whole on a connection.  (Two, because a writer left with a
    sticky error makes the next send fail and close; the one after that dials.)  Queue mode:
    `queue_drains`. -/
theorem reconnects (hl : cfg.sendLocked = true) (hra : cfg.rearm = true) (hq : cfg.useQueue = false)
    (hne : ∀ sid, bytesOf sid ≠ [])
    (s : St) (hr : Reach cfg bytesOf s) (t : Nat) (ht : t ≠ 0) (hidle : s.pc t = .idle) (hlock : s.lock = none) :
    ∃ acts s', run cfg bytesOf acts s = some s' ∧ acts.length ≤ 11 ∧ (∀ a ∈ acts, a.isFault = false) ∧
      ∃ sid, s.nsid ≤ sid ∧ (sid, true) ∈ s'.results ∧ ∃ w, Whole bytesOf s' w sid :=
  reconnects_direct cfg bytesOf hl hra hq hne s hr t ht hidle hlock

/-- **Queue mode: every queued pack is eventually written whole, in order.**  From every reachable
    queue-mode state in which process() is idle and the send lock free — after any faults — there
    is a fault-free continuation in which process() (dialling if there is no connection) empties the
    queue; afterwards every pack that was queued lies whole on a connection, and (by `order_once`,
    which holds in every reachable state) in acceptance order. -/
theorem queue_drains (hl : cfg.sendLocked = true) (hra : cfg.rearm = true) (huq : cfg.useQueue = true)
    (hne : ∀ sid, bytesOf sid ≠ []) (s : St) (hr : Reach cfg bytesOf s) (hp : s.pc 0 = .idle)
    (hlk : cfg.procLocked = true → s.lock = none) :
    ∃ acts s', run cfg bytesOf acts s = some s' ∧ (∀ a ∈ acts, a.isFault = false) ∧ s'.queue = [] ∧
      s'.pc 0 = .idle ∧ (∀ sid ∈ s.queue, ∃ w, Whole bytesOf s' w sid) ∧
      (flatLogs s').Pairwise (· < ·) := by
  obtain ⟨acts, s', h1, h2, h3, h4, h5, _⟩ :=
    drain cfg bytesOf hl hra huq hne s.queue s (goodQ_reach cfg bytesOf hl hr) rfl hp hlk
  obtain ⟨a0, ha0⟩ := hr
  have hr' : Reach cfg bytesOf s' := ⟨a0 ++ acts, by rw [run_append, ha0]; exact h1⟩
  exact ⟨acts, s', h1, h2, h3, h4, h5, (order_once cfg bytesOf hl s' hr').1⟩

/-- the queue component is C11's RequestQueue model: a Put is refused only when the queue is full,
    an accepted pack goes to the back, and GetTimeout hands out the front -/
theorem queue_is_c11 (s s' : St) (t sid : Nat) :
    (step cfg bytesOf s (.enqueue t sid) = some s' → s.q.room = true ∧ s'.queue = s.queue ++ [sid]) ∧
    (step cfg bytesOf s (.enqueueFail t sid) = some s' → s.q.room = false ∧ s'.queue = s.queue) ∧
    (step cfg bytesOf s .dequeue = some s' → ∃ x, s.queue = x :: s'.queue) := by
  refine ⟨fun h => ?_, fun h => ?_, fun h => ?_⟩
  · obtain ⟨⟨_, _, _, _, hr⟩, rfl⟩ := step_enqueue h; exact ⟨hr, rfl⟩
  · obtain ⟨⟨_, _, _, _, hr⟩, rfl⟩ := step_enqueueFail h; exact ⟨hr, rfl⟩
  · obtain ⟨x, q, _, hq, _, _, rfl⟩ := step_dequeue h; exact ⟨x, hq⟩

/-- **A healthy idle connection never fails a send** (direct mode): however long the client idles
    (`tick d`, any `d`), the next send on a clean writer — or with no connection: it dials — is
    accepted and whole on the wire: `send()` re-arms the write deadline before every write. -/
theorem idle_connection_never_fails (hl : cfg.sendLocked = true) (hra : cfg.rearm = true) (hq : cfg.useQueue = false)
    (hne : ∀ sid, bytesOf sid ≠ []) (s : St) (hr : Reach cfg bytesOf s) (t : Nat) (ht : t ≠ 0)
    (hidle : s.pc t = .idle) (hlock : s.lock = none)
    (hclean : s.conn = none ∨ ∃ w, s.wr = some w ∧ s.err.get w = false) (d : Nat) :
    ∃ dial s', run cfg bytesOf (.tick d :: okSend t s.nsid (bytesOf s.nsid).length dial) s = some s' ∧
      (s.nsid, true) ∈ s'.results ∧ ∃ w, Whole bytesOf s' w s.nsid :=
  idle_then_send_ok cfg bytesOf hl hra hq hne s (good_reach cfg bytesOf hl hr) t ht hidle hlock hclean d

/-! ### with a healthy connection nothing accepted is lost -/

/-- The repaired client (process() connects, and sends its items, under the send lock; ApplyConfig
    closes and re-dials under it): along any schedule without a fault action — reconfigurations
    (ApplyConfig: Close, Connect), capacity and timeout changes, idle time included — every send
    that was accepted (Send / Put returned success) is still queued, is being sent by process(), or
    lies whole in what a connection carried and the peer received. -/
theorem healthy_no_loss (hl : cfg.sendLocked = true) (hbg : cfg.bgLocked = true) (hac : cfg.acLocked = true)
    (hpl : cfg.procLocked = true) (acts : List Act) (s : St)
    (hh : Healthy acts) (h : run cfg bytesOf acts init = some s) : NothingLost bytesOf s :=
  no_loss_locked cfg bytesOf hl hbg hac hpl acts s hh h

/-- Whatever the other locks: the same holds along schedules that additionally contain neither
    the racy background dial (`bgDialOk`) nor a reconfiguration. -/
theorem healthy_no_loss_partial (hl : cfg.sendLocked = true) (acts : List Act) (s : St)
    (hh : ∀ a ∈ acts, a.benign = true) (h : run cfg bytesOf acts init = some s) : NothingLost bytesOf s :=
  no_loss_benign cfg bytesOf hl acts s hh h

/-- once the queue is drained and process() is idle, every accepted send is whole on the wire
    (both modes) -/
theorem healthy_drained (hl : cfg.sendLocked = true) (hbg : cfg.bgLocked = true) (hac : cfg.acLocked = true)
    (hpl : cfg.procLocked = true) (acts : List Act) (s : St)
    (hh : Healthy acts) (h : run cfg bytesOf acts init = some s) (hq : s.queue = []) (hp : s.pc 0 = .idle)
    (sid : Nat) (ha : (sid, true) ∈ s.results) : ∃ w, Whole bytesOf s w sid ∧ s.delivered w = s.sent w := by
  rcases no_loss_locked cfg bytesOf hl hbg hac hpl acts s hh h sid ha with h1 | h1 | h1
  · rw [hq] at h1; cases h1
  · rw [hp] at h1; rcases h1 with h2 | ⟨_, _, h2⟩ | ⟨_, h2⟩ <;> cases h2
  · exact h1

/-! ### the code as found: D42 (process() connects without the lock), D70 (ApplyConfig and process()'s
    sends without the lock), and what re-arming the deadline is for -/

-- (deciding equality of the concrete end states needs a larger instance-search budget than the default)
set_option synthInstance.maxSize 1024

def cfgFixed : Cfg :=
  { useQueue := false, sendLocked := true, bgLocked := true, procLocked := true, acLocked := true, rearm := true }
/-- the client as first found -/
def cfgFound : Cfg := { cfgFixed with bgLocked := false, procLocked := false, acLocked := false }
/-- after fix-D42 only -/
def cfgD70 : Cfg := { cfgFixed with procLocked := false, acLocked := false }
def threeBytes : Nat → Bytes := fun sid => [10, 0, sid]

/-- no end state of these schedules has anything on the wire -/
theorem nothing_sent_of {s : St} (h : s.sentRev.toList.map Prod.snd = [[]] ∨ s.sentRev.toList.map Prod.snd = [])
    (w : Nat) : s.sent w = [] := by
  have : s.sentRev.get w = [] := AMap.get_eq_of_forall s.sentRev [] rfl (fun p hp => by
    have hm : p.2 ∈ s.sentRev.toList.map Prod.snd := List.mem_map.mpr ⟨p, hp, rfl⟩
    rcases h with h | h <;> rw [h] at hm <;> simpa using hm) w
  simp [St.sent, this]

/-- a schedule after which send `1` was accepted, nobody is in progress, the queue is empty and
    nothing was ever sent refutes `NothingLost` -/
theorem refutes_nothingLost {cfg : Cfg} {sched : List Act} (hh : Healthy sched)
    (h1 : (run cfg threeBytes sched init).map (fun s => (s.results, s.sentRev.toList.map Prod.snd)) = some ([(1, true)], [[]]))
    (h2 : (run cfg threeBytes sched init).map (fun s => (s.queue, s.pcs.get 0)) = some ([], Pc.idle)) :
    ¬ (∀ (acts : List Act) (s : St), Healthy acts → run cfg threeBytes acts init = some s → NothingLost threeBytes s) := by
  intro hall
  cases hrun : run cfg threeBytes sched init with
  | none => rw [hrun] at h1; cases h1
  | some s =>
    rw [hrun] at h1 h2
    simp only [Option.map_some, Option.some.injEq, Prod.mk.injEq] at h1 h2
    obtain ⟨hres, hsent⟩ := h1
    obtain ⟨hq, hpc⟩ := h2
    have := hall sched s hh hrun 1 (by rw [hres]; simp)
    rcases this with h3 | h3 | ⟨w, ⟨pre, post, _, h4⟩, _⟩
    · rw [hq] at h3; cases h3
    · have : s.pc 0 = Pc.idle := hpc
      rw [this] at h3; rcases h3 with h5 | ⟨_, _, h5⟩ | ⟨_, h5⟩ <;> cases h5
    · rw [nothing_sent_of (Or.inl hsent) w, concatF_append, concatF_singleton] at h4
      have := List.prefix_nil.mp h4
      simp [threeBytes] at this

/-- D42: process() sees `conn == nil` and starts to dial; sender 1 connects, copies its frame into the
    buffered writer; process() assigns its own connection and writer; the sender's Flush flushes
    the new, empty writer and Send returns nil. -/
def scheduleD42 : List Act :=
  [.bgCheck, .lockSend 1 1, .connectOk 1, .writeBegin 1, .writeChunk 1 3, .writeEnd 1, .bgDialOk, .flushOk 1, .unlock 1]

theorem scheduleD42_healthy : Healthy scheduleD42 := by decide

theorem scheduleD42_runs :
    (run cfgFound threeBytes scheduleD42 init).map (fun s => (s.results, s.sentRev.toList.map Prod.snd)) = some ([(1, true)], [[]]) ∧
    (run cfgFound threeBytes scheduleD42 init).map (fun s => (s.queue, s.pcs.get 0)) = some ([], Pc.idle) := by
  constructor <;> decide

/-- D42: in the code as found, no fault anywhere, a send is accepted and its frame is on no connection -/
theorem finding_D42 :
    ¬ (∀ (acts : List Act) (s : St), Healthy acts → run cfgFound threeBytes acts init = some s →
        NothingLost threeBytes s) :=
  refutes_nothingLost scheduleD42_healthy scheduleD42_runs.1 scheduleD42_runs.2

/-- the same schedule is not a schedule of the repaired client: its background dial needs the lock -/
theorem scheduleD42_not_fixed : run cfgFixed threeBytes scheduleD42 init = none := by decide

/-- D70 (direct mode, after fix-D42): sender 1 has copied its frame into the buffered writer; thread 2
    runs ApplyConfig with a changed license — Close, Connect, no lock —; the sender's Flush flushes
    the new, empty writer and Send returns nil. -/
def scheduleD70 : List Act :=
  [.lockSend 1 1, .connectOk 1, .writeBegin 1, .writeChunk 1 3, .writeEnd 1, .reconfClose 2, .reconfDialOk 2,
   .flushOk 1, .unlock 1]

theorem scheduleD70_healthy : Healthy scheduleD70 := by decide

theorem scheduleD70_runs :
    (run cfgD70 threeBytes scheduleD70 init).map (fun s => (s.results, s.sentRev.toList.map Prod.snd)) = some ([(1, true)], [[]]) ∧
    (run cfgD70 threeBytes scheduleD70 init).map (fun s => (s.queue, s.pcs.get 0)) = some ([], Pc.idle) := by
  constructor <;> decide

theorem finding_D70 :
    ¬ (∀ (acts : List Act) (s : St), Healthy acts → run cfgD70 threeBytes acts init = some s →
        NothingLost threeBytes s) :=
  refutes_nothingLost scheduleD70_healthy scheduleD70_runs.1 scheduleD70_runs.2

/-- with ApplyConfig under the lock the reconfiguration has to wait for the sender -/
theorem scheduleD70_not_fixed : run cfgFixed threeBytes scheduleD70 init = none := by decide

/-- D70 (queue mode): ApplyConfig takes the lock, but process() sends its items without it: the
    consumer has copied the frame of the accepted pack 1 into the writer when the connection is
    replaced; its Flush flushes the new writer; nothing reports the loss. -/
def cfgQueueD70 : Cfg := { cfgFixed with useQueue := true, procLocked := false }
def cfgQueueFixed : Cfg := { cfgFixed with useQueue := true }

def scheduleD70q : List Act :=
  [.enqueue 1 1, .bgConnectOk, .dequeue, .writeBegin 0, .writeChunk 0 3, .writeEnd 0, .reconfClose 2, .reconfDialOk 2,
   .flushOk 0]

theorem scheduleD70q_healthy : Healthy scheduleD70q := by decide

theorem scheduleD70q_runs :
    (run cfgQueueD70 threeBytes scheduleD70q init).map (fun s => (s.results, s.sentRev.toList.map Prod.snd)) = some ([(1, true)], [[]]) ∧
    (run cfgQueueD70 threeBytes scheduleD70q init).map (fun s => (s.queue, s.pcs.get 0)) = some ([], Pc.idle) := by
  constructor <;> decide

theorem finding_D70_queue :
    ¬ (∀ (acts : List Act) (s : St), Healthy acts → run cfgQueueD70 threeBytes acts init = some s →
        NothingLost threeBytes s) :=
  refutes_nothingLost scheduleD70q_healthy scheduleD70q_runs.1 scheduleD70q_runs.2

theorem scheduleD70q_not_fixed : run cfgQueueFixed threeBytes scheduleD70q init = none := by decide

/-- What re-arming is for.  If the write deadline were armed once, when the connection is made
    (`rearm = false`), a healthy connection that idles longer than the timeout could not complete
    its next flush: the only continuation is the error.  With re-arming the same schedule runs. -/
def cfgArmOnce : Cfg := { cfgFixed with rearm := false }

def scheduleIdle : List Act :=
  [.bgConnectOk, .tick 60001, .lockSend 1 1, .writeBegin 1, .writeChunk 1 3, .writeEnd 1, .flushOk 1, .unlock 1]

theorem finding_armOnce :
    run cfgArmOnce threeBytes scheduleIdle init = none ∧
    (run cfgArmOnce threeBytes (scheduleIdle.take 6) init).isSome = true ∧
    (run cfgFixed threeBytes scheduleIdle init).map (fun s => s.results) = some [(1, true)] := by
  refine ⟨?_, ?_, ?_⟩ <;> decide

/-! ### why the send lock matters -/

def cfgNoLock : Cfg := { cfgFixed with sendLocked := false }
def twoFrames : Nat → Bytes := fun sid => [10 + sid, 20 + sid]

def scheduleNoLock : List Act :=
  [.lockSend 1 1, .connectOk 1, .writeBegin 1, .writeChunk 1 1, .lockSend 2 2, .writeBegin 2, .writeChunk 2 2,
   .writeEnd 2, .writeChunk 1 1, .writeEnd 1, .flushOk 1]

/-- without the lock two senders' frames interleave in the buffered writer: what connection 0
    carries is no longer a prefix of whole frames -/
theorem finding_nolock :
    ∃ s, run cfgNoLock twoFrames scheduleNoLock init = some s ∧
      ¬ (s.sent 0 <+: concatF twoFrames (s.log.get 0)) := by
  cases hrun : run cfgNoLock twoFrames scheduleNoLock init with
  | none => exact absurd hrun (by decide)
  | some s =>
    refine ⟨s, rfl, ?_⟩
    have h1 : (run cfgNoLock twoFrames scheduleNoLock init).map (fun s => (s.sentRev.get 0, s.log.get 0)) =
        some ([21, 22, 12, 11], [1, 2]) := by decide
    rw [hrun] at h1
    simp only [Option.map_some, Option.some.injEq, Prod.mk.injEq] at h1
    simp only [St.sent, h1.1, h1.2]
    decide

/-! ### non-vacuity: schedules of the model with faults, reconfiguration, overflow, idle time -/

/-- direct sends by two threads; the peer closes connection 0 inside the second frame, the third
    send fails on flush, the fourth fails on the sticky error and closes, the fifth reconnects; the
    peer received frame 1 whole, two bytes of frame 2, and on connection 1 frame 5 -/
def scheduleFaulty : List Act :=
  [.lockSend 1 1, .connectOk 1, .writeBegin 1, .writeChunk 1 3, .writeEnd 1, .flushOk 1, .unlock 1,
   .lockSend 2 2, .writeBegin 2, .writeChunk 2 2, .writeChunk 2 1, .writeEnd 2, .flushOk 2, .unlock 2,
   .peerClose 0 5,
   .lockSend 1 3, .writeBegin 1, .writeChunk 1 3, .writeEnd 1, .flushErr 1 1, .unlock 1,
   .lockSend 2 4, .writeSticky 2, .close 2, .unlock 2,
   .lockSend 1 5, .connectOk 1, .writeBegin 1, .writeChunk 1 3, .writeEnd 1, .flushOk 1, .unlock 1]

example : (run cfgFixed threeBytes scheduleFaulty init).map (fun s => (s.delivered 0, s.delivered 1)) =
    some ([10, 0, 1, 10, 0], [10, 0, 5]) := by decide
example : (run cfgFixed threeBytes scheduleFaulty init).map (fun s => (s.log.get 0, s.log.get 1)) =
    some ([1, 2, 3], [5]) := by decide
example : (run cfgFixed threeBytes scheduleFaulty init).map (fun s => s.results) =
    some [(5, true), (4, false), (3, false), (2, true), (1, true)] := by decide

example : Reach cfgFixed threeBytes ((run cfgFixed threeBytes scheduleFaulty init).get (by decide)) :=
  ⟨scheduleFaulty, by simp⟩

/-- queue mode, repaired client: capacity 2, two packs accepted, the third refused (C11: full), the
    capacity raised, a fourth accepted; process() connects and sends under the lock; ApplyConfig
    reconnects in between (it has to wait for the lock); idle time; everything accepted arrives, in order -/
def scheduleQueue : List Act :=
  [.setCapacity 2, .enqueue 1 1, .enqueue 2 2, .enqueueFail 1 3, .setCapacity 3, .enqueue 1 4, .bgConnectOk,
   .dequeue, .writeBegin 0, .writeChunk 0 3, .writeEnd 0, .flushOk 0,
   .reconfClose 3, .reconfDialOk 3, .tick 100000,
   .dequeue, .writeBegin 0, .writeChunk 0 3, .writeEnd 0, .flushOk 0,
   .dequeue, .writeBegin 0, .writeChunk 0 3, .writeEnd 0, .flushOk 0]

example : Healthy scheduleQueue := by decide
example : (run cfgQueueFixed threeBytes scheduleQueue init).map (fun s => (s.delivered 0, s.delivered 1)) =
    some ([10, 0, 1], [10, 0, 2, 10, 0, 4]) := by decide
example : (run cfgQueueFixed threeBytes scheduleQueue init).map (fun s => (s.results, s.queue, s.lock)) =
    some ([(4, true), (3, false), (2, true), (1, true)], [], none) := by decide
/-- a Put cannot be refused while there is room (C11's rule, not "may refuse at any time") -/
example : run cfgQueueFixed threeBytes [.setCapacity 2, .enqueue 1 1, .enqueueFail 1 2] init = none := by decide

end C06
