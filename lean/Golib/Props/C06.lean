/-
  Property C06 — the one-way TCP client delivers whole frames, in order, at most once, and recovers.

  Statements and one-line proofs by reference to the lemma files Golib.Tcp.*.

  The CodeModel (Golib.Tcp.Model) is a machine of atomic actions following OneWayTcpClient.go:
  senders (threads 1,2,…) run sendDirect or SendFlush, thread 0 runs process(); the environment
  decides whether a dial, a write or a flush succeeds, how many bytes go out before an error,
  and when the peer closes.  Every theorem below quantifies over **all schedules** (`Reach`: any
  list of actions whose guards hold), all frame contents (`bytesOf` is arbitrary), any number of
  threads, any fault sequence.

  `Cfg` carries what tie A re-extracts from the Go source on every run (Golib/Props/C06Gen.lean):
  `sendLocked` (sendDirect holds the send lock around makeData/send/Flush) and `bgLocked`
  (process() connects under that lock — false in the code as found: D42, see `finding_D42`).

  What a state records about the wire: `s.sent c` — the bytes the kernel took on connection `c`;
  `s.delivered c` — what the peer received (`sent c`, cut where the peer closed); `s.log.get c` —
  the sends whose frames were handed to the buffered writer of `c`, in order; `s.handed` — the
  sends in acceptance order (lock order / enqueue order; send ids are issued in that order);
  `s.results` — what Send returned.
-/
import Golib.Tcp.Drain
import Golib.Tcp.WireLink
import Golib.Tcp.Histories
import Golib.Tcp.Dial

namespace C06
open Tcp

variable (cfg : Cfg) (bytesOf : Nat → Bytes)

/-! ### whole frames -/

/-- Per connection, every prefix of the bytes sent — in particular what the peer received before
    it closed, at whatever byte — is a sequence of whole frames of sends handed to that connection,
    in that order, followed by nothing or by a strict prefix of the next such frame. -/
theorem frames_whole (hl : cfg.sendLocked = true) (s : St) (hr : Reach cfg bytesOf s) (c : Nat) (d : Bytes)
    (hd : d <+: s.sent c) : WholeThenTail bytesOf (s.log.get c) d :=
  prefix_frames bytesOf _ d (hd.trans (sent_prefix_of_core cfg bytesOf (core_reach cfg bytesOf hl hr) c))

/-- … so is what the peer received -/
theorem frames_whole_delivered (hl : cfg.sendLocked = true) (s : St) (hr : Reach cfg bytesOf s) (c : Nat) :
    WholeThenTail bytesOf (s.log.get c) (s.delivered c) :=
  frames_whole cfg bytesOf hl s hr c _ (delivered_prefix_sent s c)

/-- the frames on the wire are frames of accepted sends -/
theorem frames_accepted (hl : cfg.sendLocked = true) (s : St) (hr : Reach cfg bytesOf s) (c sid : Nat)
    (h : sid ∈ s.log.get c) : sid ∈ s.handed :=
  log_handed cfg bytesOf (core_reach cfg bytesOf hl hr) c sid h

/-- a stream ends inside a frame only while a write is in progress or bytes are still buffered:
    when the writer's buffer is empty and no copy is in progress, exactly whole frames were sent -/
theorem frames_complete_when_flushed (hl : cfg.sendLocked = true) (s : St) (hr : Reach cfg bytesOf s) (c : Nat)
    (hb : s.buf.get c = []) (hp : s.pend.get c = []) : s.sent c = concatF bytesOf (s.log.get c) :=
  sent_whole_of_idle cfg bytesOf (core_reach cfg bytesOf hl hr) c hb hp

/-- The reader's parse is the writer's log.  Frames are self-delimiting (a length header), so however
    the collector splits what it received on a connection into whole frames and a tail, it finds
    byte for byte the first frames handed to that connection, in order. -/
theorem parse_is_log (hl : cfg.sendLocked = true) (h : Nat) (lenOf : Bytes → Nat) (sd : SelfDelim bytesOf h lenOf)
    (s : St) (hr : Reach cfg bytesOf s) (c : Nat) (fs' : List Nat) (t' : Bytes) (ht' : IsTail bytesOf t')
    (hparse : s.delivered c = concatF bytesOf fs' ++ t') :
    ∃ k, fs'.map bytesOf = ((s.log.get c).take k).map bytesOf := by
  obtain ⟨k, tail, hk, htail⟩ := frames_whole_delivered cfg bytesOf hl s hr c
  refine ⟨k, ?_⟩
  have hT : IsTail bytesOf tail := by
    rcases htail with h0 | ⟨sid, _, hp, hn⟩
    · exact Or.inl h0
    · exact Or.inr ⟨sid, hp, hn⟩
  exact ((sd.decompose_unique _ _ _ _ hT ht' (hk.symm.trans hparse)).1).symm

/-- the frames `makeData` builds are self-delimiting (payload length in header bytes 18..21) -/
theorem makeData_self_delimiting (hash64 : Bytes → Int) (dflt : Bytes) (ov : Nat → Bytes) (pc : Nat → Int)
    (pl : Nat → Bytes) (hlen : ∀ sid, (pl sid).length < 256 ^ 4) :
    SelfDelim (fun sid => makeData hash64 dflt (ov sid) (pc sid) (pl sid)) 22
      (fun hdr => Prim.unbeN ((hdr.drop 18).take 4)) :=
  mkFrame_selfDelim pc (fun sid => hash64 (effLicense (ov sid) dflt)) pl hlen

/-! ### order, at most once -/

/-- The sends whose frames went to the connections, connection after connection, are strictly
    increasing in acceptance order: nothing twice, nothing reordered; all of them were accepted;
    hence they form a subsequence of the acceptance order. -/
theorem order_once (hl : cfg.sendLocked = true) (s : St) (hr : Reach cfg bytesOf s) :
    (flatLogs s).Pairwise (· < ·) ∧ s.handed.Pairwise (· < ·) ∧ (∀ x ∈ flatLogs s, x ∈ s.handed) ∧
    (flatLogs s).Sublist s.handed := by
  have hc := (core_reach cfg bytesOf hl hr).order
  exact ⟨hc.logSorted, hc.handedSorted, hc.logHanded,
    sublist_of_sorted _ _ hc.logSorted hc.handedSorted hc.logHanded⟩

/-- frames go to connections in the order the connections were made: only the newest writer is written -/
theorem newest_connection_only (hl : cfg.sendLocked = true) (s : St) (hr : Reach cfg bytesOf s) (w : Nat)
    (h : s.wr = some w) : w + 1 = s.next ∧ ∀ w', s.next ≤ w' → s.log.get w' = [] :=
  ⟨(core_reach cfg bytesOf hl hr).order.wrNew w h, (core_reach cfg bytesOf hl hr).order.freshLog⟩

/-! ### no interleaving -/

/-- at most one thread is between Lock and Unlock (direct mode) / only process() sends (queue mode) -/
theorem mutual_exclusion (hl : cfg.sendLocked = true) (s : St) (hr : Reach cfg bytesOf s) (t t' : Nat)
    (h1 : inCS (s.pc t) = true) (h2 : inCS (s.pc t') = true) : t = t' :=
  mutex_unique cfg (core_reach cfg bytesOf hl hr).mutex t t' h1 h2

/-- For every buffered writer: bytes already sent, then bytes buffered, then the part of the frame
    still being copied are **exactly** the concatenation of the frames handed to it — the bytes
    of a frame are contiguous, never mixed with another frame's. -/
theorem no_interleave (hl : cfg.sendLocked = true) (s : St) (hr : Reach cfg bytesOf s) (w : Nat) :
    s.sent w ++ s.buf.get w ++ s.pend.get w = concatF bytesOf (s.log.get w) :=
  (core_reach cfg bytesOf hl hr).bytes.eq w

/-! ### frame header: pcode and license -/

/-- the frame `makeData` builds carries the pack's project code, the hash of the per-send license
    if one was given and of the client's license otherwise, and the payload length -/
theorem license_choice (hash64 : Bytes → Int) (dflt override : Bytes) (pcode : Int) (payload rest : Bytes)
    (hp : Prim.inRange 8 pcode) (hh : ∀ b, Prim.inRange 8 (hash64 b)) (hlen : payload.length < 256 ^ 4) :
    parseHeader (makeData hash64 dflt override pcode payload ++ rest) =
      some { src := 10, ver := 0, pcode := pcode,
             hash := hash64 (if override ≠ [] then override else dflt), len := payload.length } :=
  parseHeader_mkFrame pcode _ payload rest hp (hh _) hlen

theorem frame_length (hash64 : Bytes → Int) (dflt override : Bytes) (pcode : Int) (payload : Bytes) :
    (makeData hash64 dflt override pcode payload).length = 22 + payload.length :=
  mkFrame_length _ _ _

/-! ### the frames are C05's frames -/

/-- with C05's license hash, the frame `makeData` builds is C05's reference frame byte for byte -/
theorem frame_is_c05_frame (dflt ov : Bytes) (pcode : Int) (pl : Bytes) (hlen : pl.length < 256 ^ 4) :
    makeData Wire.hash64 dflt ov pcode pl = Wire.frame pcode (effLicense ov dflt) pl :=
  makeData_eq_wire_frame dflt ov pcode pl hlen

/-- instance of C05's `frame_parse`: the collector's parser reads from a C06 frame the pack's project
    code, the hash of the license in effect and the payload, consuming exactly the frame -/
theorem frame_parse_c05 (dflt ov : Bytes) (pcode : Int) (pl r : Bytes) (hp : Prim.inRange 8 pcode)
    (hlen : pl.length < 2147483648) :
    P.run Wire.parseFrame (makeData Wire.hash64 dflt ov pcode pl ++ r) =
      some (⟨10, 0, pcode, Wire.hash64 (effLicense ov dflt), pl⟩, r) :=
  makeData_parse dflt ov pcode pl r hp hlen

/-- instance of C05's `frame_length`: streams of C05 frames decompose uniquely, so for the client
    sending C05 frames the collector's split of a connection's bytes is the beginning of that
    connection's log -/
theorem parse_is_log_c05 (hl : cfg.sendLocked = true) (pc : Nat → Int) (lic pl : Nat → Bytes)
    (hlen : ∀ sid, (pl sid).length < 2147483648) (s : St)
    (hr : Reach cfg (fun sid => Wire.frame (pc sid) (lic sid) (pl sid)) s) (c : Nat) (fs' : List Nat) (t' : Bytes)
    (ht' : IsTail (fun sid => Wire.frame (pc sid) (lic sid) (pl sid)) t')
    (hparse : s.delivered c = concatF (fun sid => Wire.frame (pc sid) (lic sid) (pl sid)) fs' ++ t') :
    ∃ k, fs'.map (fun sid => Wire.frame (pc sid) (lic sid) (pl sid)) =
      ((s.log.get c).take k).map (fun sid => Wire.frame (pc sid) (lic sid) (pl sid)) :=
  parse_is_log cfg _ hl 22 _ (wire_frames_selfDelim pc lic pl hlen) s hr c fs' t' ht' hparse

/-! ### recovery -/

/-- Every connection — in particular one made after any sequence of faults — starts at a frame
    boundary: the first byte the peer receives on it is the first byte of the first frame handed
    to that connection. -/
theorem recovers (hl : cfg.sendLocked = true) (hne : ∀ sid, bytesOf sid ≠ []) (s : St)
    (hr : Reach cfg bytesOf s) (c b : Nat) (rest : Bytes) (hd : s.delivered c = b :: rest) :
    ∃ sid r, s.log.get c = sid :: r ∧ (bytesOf sid).head? = some b := by
  have hp : s.delivered c <+: concatF bytesOf (s.log.get c) :=
    (delivered_prefix_sent s c).trans (sent_prefix_of_core cfg bytesOf (core_reach cfg bytesOf hl hr) c)
  rw [hd] at hp
  cases hlog : s.log.get c with
  | nil => rw [hlog] at hp; simp [concatF] at hp
  | cons sid r =>
    refine ⟨sid, r, rfl, ?_⟩
    rw [hlog] at hp
    simp only [concatF] at hp
    cases hb : bytesOf sid with
    | nil => exact absurd hb (hne sid)
    | cons x xs =>
      rw [hb, List.cons_append, List.cons_prefix_cons] at hp
      simp [hp.1]

/-- The client reconnects on a later send (direct mode).  From every reachable state in which
    sender `t` is idle and the send lock is free — after any faults whatever — there is a
    continuation of at most two sends by `t`, containing no fault action, after which a send has
    been accepted and its frame is whole on a connection.  (Two, because a writer left with a
    sticky error makes the next send fail and close; the one after that dials.)  Queue mode:
    `queue_drains`. -/
theorem reconnects (hl : cfg.sendLocked = true) (hra : cfg.rearm = true) (hq : cfg.useQueue = false)
    (hne : ∀ sid, bytesOf sid ≠ [])
    (s : St) (hr : Reach cfg bytesOf s) (t : Nat) (ht : t ≠ 0) (hidle : s.pc t = .idle) (hlock : s.lock = none) :
    ∃ acts s', run cfg bytesOf acts s = some s' ∧ acts.length ≤ 11 ∧ (∀ a ∈ acts, a.isFault = false) ∧
      ∃ sid, s.nsid ≤ sid ∧ (sid, true) ∈ s'.results ∧ ∃ w, Whole bytesOf s' w sid :=
  reconnects_direct cfg bytesOf hl hra hq hne s hr t ht hidle hlock

/-- **Queue mode: every queued pack is eventually written whole, in order.**  From every reachable
    queue-mode state in which process() is idle and the send lock free — after any faults — there
    is a fault-free continuation in which process() (dialling if there is no connection) empties the
    queue; afterwards every pack that was queued lies whole on a connection, and (by `order_once`,
    which holds in every reachable state) in acceptance order. -/
theorem queue_drains (hl : cfg.sendLocked = true) (hra : cfg.rearm = true) (huq : cfg.useQueue = true)
    (hne : ∀ sid, bytesOf sid ≠ []) (s : St) (hr : Reach cfg bytesOf s) (hp : s.pc 0 = .idle)
    (hlk : cfg.procLocked = true → s.lock = none) :
    ∃ acts s', run cfg bytesOf acts s = some s' ∧ (∀ a ∈ acts, a.isFault = false) ∧ s'.queue = [] ∧
      s'.pc 0 = .idle ∧ (∀ sid ∈ s.queue, ∃ w, Whole bytesOf s' w sid) ∧
      (flatLogs s').Pairwise (· < ·) := by
  obtain ⟨acts, s', h1, h2, h3, h4, h5, _⟩ :=
    drain cfg bytesOf hl hra huq hne s.queue s (goodQ_reach cfg bytesOf hl hr) rfl hp hlk
  obtain ⟨a0, ha0⟩ := hr
  have hr' : Reach cfg bytesOf s' := ⟨a0 ++ acts, by rw [run_append, ha0]; exact h1⟩
  exact ⟨acts, s', h1, h2, h3, h4, h5, (order_once cfg bytesOf hl s' hr').1⟩

/-- the queue component is C11's RequestQueue model: a Put is refused only when the queue is full,
    an accepted pack goes to the back, and GetTimeout hands out the front -/
theorem queue_is_c11 (s s' : St) (t sid : Nat) :
    (step cfg bytesOf s (.enqueue t sid) = some s' → s.q.room = true ∧ s'.queue = s.queue ++ [sid]) ∧
    (step cfg bytesOf s (.enqueueFail t sid) = some s' → s.q.room = false ∧ s'.queue = s.queue) ∧
    (step cfg bytesOf s .dequeue = some s' → ∃ x, s.queue = x :: s'.queue) := by
  refine ⟨fun h => ?_, fun h => ?_, fun h => ?_⟩
  · obtain ⟨⟨_, _, _, _, hr⟩, rfl⟩ := step_enqueue h; exact ⟨hr, rfl⟩
  · obtain ⟨⟨_, _, _, _, hr⟩, rfl⟩ := step_enqueueFail h; exact ⟨hr, rfl⟩
  · obtain ⟨x, q, _, hq, _, _, rfl⟩ := step_dequeue h; exact ⟨x, hq⟩

/-- **A healthy idle connection never fails a send** (direct mode): however long the client idles
    (`tick d`, any `d`), the next send on a clean writer — or with no connection: it dials — is
    accepted and whole on the wire: `send()` re-arms the write deadline before every write. -/
theorem idle_connection_never_fails (hl : cfg.sendLocked = true) (hra : cfg.rearm = true) (hq : cfg.useQueue = false)
    (hne : ∀ sid, bytesOf sid ≠ []) (s : St) (hr : Reach cfg bytesOf s) (t : Nat) (ht : t ≠ 0)
    (hidle : s.pc t = .idle) (hlock : s.lock = none)
    (hclean : s.conn = none ∨ ∃ w, s.wr = some w ∧ s.err.get w = false) (d : Nat) :
    ∃ dial s', run cfg bytesOf (.tick d :: okSend t s.nsid (bytesOf s.nsid).length dial) s = some s' ∧
      (s.nsid, true) ∈ s'.results ∧ ∃ w, Whole bytesOf s' w s.nsid :=
  idle_then_send_ok cfg bytesOf hl hra hq hne s (good_reach cfg bytesOf hl hr) t ht hidle hlock hclean d

/-! ### with a healthy connection nothing accepted is lost -/

/-- The repaired client (process() connects, and sends its items, under the send lock; ApplyConfig
    closes and re-dials under it): along any schedule without a fault action — reconfigurations
    (ApplyConfig: Close, Connect), capacity and timeout changes, idle time included — every send
    that was accepted (Send / Put returned success) is still queued, is being sent by process(), or
    lies whole in what a connection carried and the peer received. -/
theorem healthy_no_loss (hl : cfg.sendLocked = true) (hbg : cfg.bgLocked = true) (hac : cfg.acLocked = true)
    (hpl : cfg.procLocked = true) (hrr : cfg.recoverReports = true) (acts : List Act) (s : St)
    (hh : Healthy acts) (h : run cfg bytesOf acts init = some s) : NothingLost bytesOf s :=
  no_loss_locked cfg bytesOf hl hbg hac hpl hrr acts s hh h

/-- Whatever the other locks: the same holds along schedules that additionally contain neither
    the racy background dial (`bgDialOk`) nor a reconfiguration. -/
theorem healthy_no_loss_partial (hl : cfg.sendLocked = true) (acts : List Act) (s : St)
    (hh : ∀ a ∈ acts, a.benign = true) (h : run cfg bytesOf acts init = some s) : NothingLost bytesOf s :=
  no_loss_benign cfg bytesOf hl acts s hh h

/-- once the queue is drained and process() is idle, every accepted send is whole on the wire
    (both modes) -/
theorem healthy_drained (hl : cfg.sendLocked = true) (hbg : cfg.bgLocked = true) (hac : cfg.acLocked = true)
    (hpl : cfg.procLocked = true) (hrr : cfg.recoverReports = true) (acts : List Act) (s : St)
    (hh : Healthy acts) (h : run cfg bytesOf acts init = some s) (hq : s.queue = []) (hp : s.pc 0 = .idle)
    (sid : Nat) (ha : (sid, true) ∈ s.results) : ∃ w, Whole bytesOf s w sid ∧ s.delivered w = s.sent w := by
  rcases no_loss_locked cfg bytesOf hl hbg hac hpl hrr acts s hh h sid ha with h1 | h1 | h1
  · rw [hq] at h1; cases h1
  · rw [hp] at h1; rcases h1 with h2 | ⟨_, _, h2⟩ | ⟨_, h2⟩ <;> cases h2
  · exact h1

/-! ### fault histories: errors at arbitrary byte offsets, reconnects, no re-send -/

/-- Once a connection's buffered writer has failed, the connection is final: whatever the client
    and the environment do afterwards — any schedule — the bytes it carried and the sends logged on
    it stay as they are.  With `frames_whole`: the truncated frame stays the last thing on it. -/
theorem dead_connection_is_final (acts : List Act) (s s' : St) (h : run cfg bytesOf acts s = some s') (w : Nat)
    (hd : s.err.get w = true) : s'.err.get w = true ∧ s'.sent w = s.sent w ∧ s'.log.get w = s.log.get w :=
  run_dead cfg bytesOf acts s s' h w hd

/-- No re-send: the frame of a send is handed to at most one connection. -/
theorem no_resend (hl : cfg.sendLocked = true) (s : St) (hr : Reach cfg bytesOf s) (c c' sid : Nat)
    (h1 : sid ∈ s.log.get c) (h2 : sid ∈ s.log.get c') : c = c' :=
  one_connection (core_reach cfg bytesOf hl hr).order c c' sid h1 h2

/-- **Delivered whole, in order, at most once — over all connections.**  In every reachable state
    there is a count `k c` per connection such that the peer of `c` received exactly the first
    `k c` frames handed to `c` and then nothing or a strict prefix of the next one; the whole frames
    of all connections, connection after connection, are strictly increasing in acceptance order
    (no frame twice, on one or on two connections) and a subsequence of the accepted sends. -/
theorem delivered_once (hl : cfg.sendLocked = true) (s : St) (hr : Reach cfg bytesOf s) :
    ∃ k : Nat → Nat,
      (∀ c, ∃ tail, s.delivered c = concatF bytesOf ((s.log.get c).take (k c)) ++ tail ∧
          (tail = [] ∨ ∃ sid, (s.log.get c)[k c]? = some sid ∧ tail <+: bytesOf sid ∧ tail ≠ bytesOf sid)) ∧
      (wholeFrames s k).Pairwise (· < ·) ∧ (wholeFrames s k).Sublist s.handed :=
  Tcp.delivered_once cfg bytesOf (core_reach cfg bytesOf hl hr)

/-- The same over **histories of calls**: any list of sends that succeed, dials that fail, writes
    and flushes that fail after an arbitrary number of bytes, peer closes after an arbitrary number
    of bytes, `Close()` calls and idle periods (`Tcp.HEv`, run as a fold over the action machine). -/
theorem fault_histories (hl : cfg.sendLocked = true) (es : List HEv) (s : St)
    (h : runHist cfg bytesOf es init = some s) :
    ∃ k : Nat → Nat,
      (∀ c, ∃ tail, s.delivered c = concatF bytesOf ((s.log.get c).take (k c)) ++ tail ∧
          (tail = [] ∨ ∃ sid, (s.log.get c)[k c]? = some sid ∧ tail <+: bytesOf sid ∧ tail ≠ bytesOf sid)) ∧
      (wholeFrames s k).Pairwise (· < ·) ∧ (wholeFrames s k).Sublist s.handed :=
  Tcp.fault_histories cfg bytesOf hl es s h

/-- **A write error at any byte offset `k`**: exactly `k` more bytes are on the connection, the
    writer is in error, the client has closed, the send is reported as failed, the lock is free. -/
theorem write_fault_at_any_offset {s : St} {t sid w k : Nat} (ht : t ≠ 0) (hp : s.pc t = .made sid) (hw : s.wr = some w)
    (hc : s.conn ≠ none) (he : s.err.get w = false) (hne : bytesOf sid ≠ [])
    (hk : k ≤ (s.buf.get w ++ bytesOf sid).length) :
    ∃ s', run cfg bytesOf (writeFaultTail t (bytesOf sid).length k) s = some s' ∧
      s'.sent w = s.sent w ++ (s.buf.get w ++ bytesOf sid).take k ∧ s'.err.get w = true ∧ s'.conn = none ∧
      s'.results = (sid, false) :: s.results ∧ s'.log.get w = s.log.get w ++ [sid] ∧ s'.lock = none ∧
      s'.pc t = .idle ∧ s'.nsid = s.nsid ∧ (∀ w', w ≠ w' → s'.sent w' = s.sent w') :=
  write_fault_at cfg bytesOf ht hp hw hc he hne hk

/-- **A flush error at any byte offset `k`** (short of everything). -/
theorem flush_fault_at_any_offset {s : St} {t sid w k : Nat} (ht : t ≠ 0) (hp : s.pc t = .made sid) (hw : s.wr = some w)
    (hc : s.conn ≠ none) (he : s.err.get w = false) (hne : bytesOf sid ≠ [])
    (hk : k < (s.buf.get w ++ bytesOf sid).length) :
    ∃ s', run cfg bytesOf (flushFaultTail t (bytesOf sid).length k) s = some s' ∧
      s'.sent w = s.sent w ++ (s.buf.get w ++ bytesOf sid).take k ∧ s'.err.get w = true ∧
      s'.results = (sid, false) :: s.results ∧ s'.log.get w = s.log.get w ++ [sid] ∧ s'.lock = none ∧
      s'.pc t = .idle ∧ s'.nsid = s.nsid ∧ (∀ w', w ≠ w' → s'.sent w' = s.sent w') :=
  flush_fault_at cfg bytesOf ht hp hw hc he hne hk

/-- **Write error at byte `k`, then reconnect** — from any reachable state with a connection up on a
    clean writer `w`, for every `k`: the history `[writeFault t k, ok t]` is admitted; connection
    `w` carried exactly `k` bytes more and never changes again; the failed send is reported failed
    and its frame is on no other connection (never re-sent); the next send is accepted and whole
    on a connection. -/
theorem fault_then_reconnect (hl : cfg.sendLocked = true) (hra : cfg.rearm = true) (hq : cfg.useQueue = false)
    (hne : ∀ sid, bytesOf sid ≠ []) (s : St) (hr : Reach cfg bytesOf s) (t w : Nat) (ht : t ≠ 0)
    (hidle : s.pc t = .idle) (hlock : s.lock = none) (hc : s.conn ≠ none) (hw : s.wr = some w) (he : s.err.get w = false)
    (k : Nat) (hk : k ≤ (s.buf.get w ++ bytesOf s.nsid).length) :
    ∃ s1 s2, runHist cfg bytesOf [.writeFault t k] s = some s1 ∧ runHist cfg bytesOf [.ok t] s1 = some s2 ∧
      s1.sent w = s.sent w ++ (s.buf.get w ++ bytesOf s.nsid).take k ∧
      (s.nsid, false) ∈ s2.results ∧ (s.nsid + 1, true) ∈ s2.results ∧ (∃ w', Whole bytesOf s2 w' (s.nsid + 1)) ∧
      (∀ c, s.nsid ∈ s2.log.get c → c = w) ∧
      (∀ acts s3, run cfg bytesOf acts s1 = some s3 → s3.sent w = s1.sent w) :=
  Tcp.fault_then_reconnect cfg bytesOf hl hra hq hne s hr t w ht hidle hlock hc hw he k hk

/-! ### Close() racing a send -/

/-- **Every schedule of sends ∥ Close() leaves whole frames.**  The public `Close()` takes no lock
    (`extClose`, enabled whenever its caller is between calls); whatever it interleaves with — a
    sender before its nil test, inside `wr.Write`, before `Flush` — and whether or not `send()`'s
    recover() swallows the resulting panic (`swallow`): each connection received whole frames of
    accepted sends, in order, then at most a strict prefix of the next; nothing twice. -/
theorem close_race_whole_frames (hl : cfg.sendLocked = true) (acts : List Act) (s : St)
    (h : run cfg bytesOf acts init = some s) :
    (∀ c, WholeThenTail bytesOf (s.log.get c) (s.delivered c)) ∧
    (flatLogs s).Pairwise (· < ·) ∧ (flatLogs s).Sublist s.handed :=
  ⟨fun c => frames_whole_delivered cfg bytesOf hl s ⟨acts, h⟩ c,
   (order_once cfg bytesOf hl s ⟨acts, h⟩).1, (order_once cfg bytesOf hl s ⟨acts, h⟩).2.2.2⟩

/-- `Close()` is not a fault: the no-loss theorem `healthy_no_loss` covers every interleaving of
    `Close()` calls with sends, provided recover() reports (`recoverReports`; `finding_D71` is the
    counterexample without) -/
theorem close_is_healthy (t : Nat) : (Act.extClose t).isFault = false := rfl

theorem close_race_no_loss (hl : cfg.sendLocked = true) (hbg : cfg.bgLocked = true) (hac : cfg.acLocked = true)
    (hpl : cfg.procLocked = true) (hrr : cfg.recoverReports = true) (pre post : List Act) (t : Nat) (s : St)
    (hh : Healthy pre) (hh' : Healthy post) (h : run cfg bytesOf (pre ++ .extClose t :: post) init = some s) :
    NothingLost bytesOf s := by
  refine no_loss_locked cfg bytesOf hl hbg hac hpl hrr _ s ?_ h
  intro a ha
  rcases List.mem_append.mp ha with h1 | h1
  · exact hh a h1
  · rcases List.mem_cons.mp h1 with rfl | h2
    · rfl
    · exact hh' a h2

/-! ### the code as found: D42 (process() connects without the lock), D70 (ApplyConfig and process()'s
    sends without the lock), and what re-arming the deadline is for -/

-- (deciding equality of the concrete end states needs a larger instance-search budget than the default)
set_option synthInstance.maxSize 1024

def cfgFixed : Cfg :=
  { useQueue := false, sendLocked := true, bgLocked := true, procLocked := true, acLocked := true, rearm := true,
    recoverReports := true }
/-- the client as first found -/
def cfgFound : Cfg := { cfgFixed with bgLocked := false, procLocked := false, acLocked := false, recoverReports := false }
/-- after fix-D42 only -/
def cfgD70 : Cfg := { cfgFixed with procLocked := false, acLocked := false, recoverReports := false }
/-- after fix-D42 and fix-D70: every lock in place, `send()`'s recover() still returns nil -/
def cfgD71 : Cfg := { cfgFixed with recoverReports := false }
def threeBytes : Nat → Bytes := fun sid => [10, 0, sid]

/-- no end state of these schedules has anything on the wire -/
theorem nothing_sent_of {s : St} (h : s.sentRev.toList.map Prod.snd = [[]] ∨ s.sentRev.toList.map Prod.snd = [])
    (w : Nat) : s.sent w = [] := by
  have : s.sentRev.get w = [] := AMap.get_eq_of_forall s.sentRev [] rfl (fun p hp => by
    have hm : p.2 ∈ s.sentRev.toList.map Prod.snd := List.mem_map.mpr ⟨p, hp, rfl⟩
    rcases h with h | h <;> rw [h] at hm <;> simpa using hm) w
  simp [St.sent, this]

/-- a schedule after which send `1` was accepted, nobody is in progress, the queue is empty and
    nothing was ever sent refutes `NothingLost` -/
theorem refutes_nothingLost {cfg : Cfg} {sched : List Act} (hh : Healthy sched)
    (h1 : (run cfg threeBytes sched init).map (fun s => (s.results, s.sentRev.toList.map Prod.snd)) = some ([(1, true)], [[]]))
    (h2 : (run cfg threeBytes sched init).map (fun s => (s.queue, s.pcs.get 0)) = some ([], Pc.idle)) :
    ¬ (∀ (acts : List Act) (s : St), Healthy acts → run cfg threeBytes acts init = some s → NothingLost threeBytes s) := by
  intro hall
  cases hrun : run cfg threeBytes sched init with
  | none => rw [hrun] at h1; cases h1
  | some s =>
    rw [hrun] at h1 h2
    simp only [Option.map_some, Option.some.injEq, Prod.mk.injEq] at h1 h2
    obtain ⟨hres, hsent⟩ := h1
    obtain ⟨hq, hpc⟩ := h2
    have := hall sched s hh hrun 1 (by rw [hres]; simp)
    rcases this with h3 | h3 | ⟨w, ⟨pre, post, _, h4⟩, _⟩
    · rw [hq] at h3; cases h3
    · have : s.pc 0 = Pc.idle := hpc
      rw [this] at h3; rcases h3 with h5 | ⟨_, _, h5⟩ | ⟨_, h5⟩ <;> cases h5
    · rw [nothing_sent_of (Or.inl hsent) w, concatF_append, concatF_singleton] at h4
      have := List.prefix_nil.mp h4
      simp [threeBytes] at this

/-- D42: process() sees `conn == nil` and starts to dial; sender 1 connects, copies its frame into the
    buffered writer; process() assigns its own connection and writer; the sender's Flush flushes
    the new, empty writer and Send returns nil. -/
def scheduleD42 : List Act :=
  [.bgCheck, .lockSend 1 1, .connectOk 1, .writeBegin 1, .writeChunk 1 3, .writeEnd 1, .bgDialOk, .flushOk 1, .unlock 1]

theorem scheduleD42_healthy : Healthy scheduleD42 := by decide

theorem scheduleD42_runs :
    (run cfgFound threeBytes scheduleD42 init).map (fun s => (s.results, s.sentRev.toList.map Prod.snd)) = some ([(1, true)], [[]]) ∧
    (run cfgFound threeBytes scheduleD42 init).map (fun s => (s.queue, s.pcs.get 0)) = some ([], Pc.idle) := by
  constructor <;> decide

/-- D42: in the code as found, no fault anywhere, a send is accepted and its frame is on no connection -/
theorem finding_D42 :
    ¬ (∀ (acts : List Act) (s : St), Healthy acts → run cfgFound threeBytes acts init = some s →
        NothingLost threeBytes s) :=
  refutes_nothingLost scheduleD42_healthy scheduleD42_runs.1 scheduleD42_runs.2

/-- the same schedule is not a schedule of the repaired client: its background dial needs the lock -/
theorem scheduleD42_not_fixed : run cfgFixed threeBytes scheduleD42 init = none := by decide

/-- D70 (direct mode, after fix-D42): sender 1 has copied its frame into the buffered writer; thread 2
    runs ApplyConfig with a changed license — Close, Connect, no lock —; the sender's Flush flushes
    the new, empty writer and Send returns nil. -/
def scheduleD70 : List Act :=
  [.lockSend 1 1, .connectOk 1, .writeBegin 1, .writeChunk 1 3, .writeEnd 1, .reconfClose 2, .reconfDialOk 2,
   .flushOk 1, .unlock 1]

theorem scheduleD70_healthy : Healthy scheduleD70 := by decide

theorem scheduleD70_runs :
    (run cfgD70 threeBytes scheduleD70 init).map (fun s => (s.results, s.sentRev.toList.map Prod.snd)) = some ([(1, true)], [[]]) ∧
    (run cfgD70 threeBytes scheduleD70 init).map (fun s => (s.queue, s.pcs.get 0)) = some ([], Pc.idle) := by
  constructor <;> decide

theorem finding_D70 :
    ¬ (∀ (acts : List Act) (s : St), Healthy acts → run cfgD70 threeBytes acts init = some s →
        NothingLost threeBytes s) :=
  refutes_nothingLost scheduleD70_healthy scheduleD70_runs.1 scheduleD70_runs.2

/-- with ApplyConfig under the lock the reconfiguration has to wait for the sender -/
theorem scheduleD70_not_fixed : run cfgFixed threeBytes scheduleD70 init = none := by decide

/-- D70 (queue mode): ApplyConfig takes the lock, but process() sends its items without it: the
    consumer has copied the frame of the accepted pack 1 into the writer when the connection is
    replaced; its Flush flushes the new writer; nothing reports the loss. -/
def cfgQueueD70 : Cfg := { cfgFixed with useQueue := true, procLocked := false }
def cfgQueueFixed : Cfg := { cfgFixed with useQueue := true }

def scheduleD70q : List Act :=
  [.enqueue 1 1, .bgConnectOk, .dequeue, .writeBegin 0, .writeChunk 0 3, .writeEnd 0, .reconfClose 2, .reconfDialOk 2,
   .flushOk 0]

theorem scheduleD70q_healthy : Healthy scheduleD70q := by decide

theorem scheduleD70q_runs :
    (run cfgQueueD70 threeBytes scheduleD70q init).map (fun s => (s.results, s.sentRev.toList.map Prod.snd)) = some ([(1, true)], [[]]) ∧
    (run cfgQueueD70 threeBytes scheduleD70q init).map (fun s => (s.queue, s.pcs.get 0)) = some ([], Pc.idle) := by
  constructor <;> decide

theorem finding_D70_queue :
    ¬ (∀ (acts : List Act) (s : St), Healthy acts → run cfgQueueD70 threeBytes acts init = some s →
        NothingLost threeBytes s) :=
  refutes_nothingLost scheduleD70q_healthy scheduleD70q_runs.1 scheduleD70q_runs.2

theorem scheduleD70q_not_fixed : run cfgQueueFixed threeBytes scheduleD70q init = none := by decide

/-- D71 (all locks in place): sender 1 holds the send lock and has passed `send()`'s `conn == nil` test;
    thread 2 calls the public `Close()` — which takes no lock — and `conn` becomes nil; the sender's
    `conn.SetWriteDeadline` dereferences nil, `send()`'s deferred `recover()` swallows the panic and
    `send()` returns nil; `Flush()` of the (empty) writer succeeds; Send returns nil.  The frame was
    never written. -/
def scheduleD71 : List Act :=
  [.bgConnectOk, .lockSend 1 1, .extClose 2, .swallow 1, .flushOk 1, .unlock 1]

theorem scheduleD71_healthy : Healthy scheduleD71 := by decide

theorem scheduleD71_runs :
    (run cfgD71 threeBytes scheduleD71 init).map (fun s => (s.results, s.sentRev.toList.map Prod.snd)) = some ([(1, true)], [[]]) ∧
    (run cfgD71 threeBytes scheduleD71 init).map (fun s => (s.queue, s.pcs.get 0)) = some ([], Pc.idle) := by
  constructor <;> decide

theorem finding_D71 :
    ¬ (∀ (acts : List Act) (s : St), Healthy acts → run cfgD71 threeBytes acts init = some s →
        NothingLost threeBytes s) :=
  refutes_nothingLost scheduleD71_healthy scheduleD71_runs.1 scheduleD71_runs.2

/-- once recover() reports the panic as an error the schedule is no schedule of the client: the
    send cannot come back with nil -/
theorem scheduleD71_not_fixed : run cfgFixed threeBytes scheduleD71 init = none := by decide

/-- … the same race then ends in a reported failure (`connectFail` stands for "send() returned an
    error before anything was written"), or — had the test come after the Close — in a reconnect -/
example : (run cfgFixed threeBytes [.bgConnectOk, .lockSend 1 1, .extClose 2, .connectFail 1, .close 1, .unlock 1] init).map
    (fun s => s.results) = some [(1, false)] := by decide
example : (run cfgFixed threeBytes [.bgConnectOk, .lockSend 1 1, .extClose 2, .connectOk 1, .writeBegin 1, .writeChunk 1 3,
    .writeEnd 1, .extClose 2, .flushOk 1, .unlock 1] init).map (fun s => (s.results, s.delivered 0, s.delivered 1)) =
    some ([(1, true)], [], [10, 0, 1]) := by decide

/-- What re-arming is for.  If the write deadline were armed once, when the connection is made
    (`rearm = false`), a healthy connection that idles longer than the timeout could not complete
    its next flush: the only continuation is the error.  With re-arming the same schedule runs. -/
def cfgArmOnce : Cfg := { cfgFixed with rearm := false }

def scheduleIdle : List Act :=
  [.bgConnectOk, .tick 60001, .lockSend 1 1, .writeBegin 1, .writeChunk 1 3, .writeEnd 1, .flushOk 1, .unlock 1]

theorem finding_armOnce :
    run cfgArmOnce threeBytes scheduleIdle init = none ∧
    (run cfgArmOnce threeBytes (scheduleIdle.take 6) init).isSome = true ∧
    (run cfgFixed threeBytes scheduleIdle init).map (fun s => s.results) = some [(1, true)] := by
  refine ⟨?_, ?_, ?_⟩ <;> decide

/-! ### why the send lock matters -/

def cfgNoLock : Cfg := { cfgFixed with sendLocked := false }
def twoFrames : Nat → Bytes := fun sid => [10 + sid, 20 + sid]

def scheduleNoLock : List Act :=
  [.lockSend 1 1, .connectOk 1, .writeBegin 1, .writeChunk 1 1, .lockSend 2 2, .writeBegin 2, .writeChunk 2 2,
   .writeEnd 2, .writeChunk 1 1, .writeEnd 1, .flushOk 1]

/-- without the lock two senders' frames interleave in the buffered writer: what connection 0
    carries is no longer a prefix of whole frames -/
theorem finding_nolock :
    ∃ s, run cfgNoLock twoFrames scheduleNoLock init = some s ∧
      ¬ (s.sent 0 <+: concatF twoFrames (s.log.get 0)) := by
  cases hrun : run cfgNoLock twoFrames scheduleNoLock init with
  | none => exact absurd hrun (by decide)
  | some s =>
    refine ⟨s, rfl, ?_⟩
    have h1 : (run cfgNoLock twoFrames scheduleNoLock init).map (fun s => (s.sentRev.get 0, s.log.get 0)) =
        some ([21, 22, 12, 11], [1, 2]) := by decide
    rw [hrun] at h1
    simp only [Option.map_some, Option.some.injEq, Prod.mk.injEq] at h1
    simp only [St.sent, h1.1, h1.2]
    decide

/-! ### non-vacuity: schedules of the model with faults, reconfiguration, overflow, idle time -/

/-- direct sends by two threads; the peer closes connection 0 inside the second frame, the third
    send fails on flush, the fourth fails on the sticky error and closes, the fifth reconnects; the
    peer received frame 1 whole, two bytes of frame 2, and on connection 1 frame 5 -/
def scheduleFaulty : List Act :=
  [.lockSend 1 1, .connectOk 1, .writeBegin 1, .writeChunk 1 3, .writeEnd 1, .flushOk 1, .unlock 1,
   .lockSend 2 2, .writeBegin 2, .writeChunk 2 2, .writeChunk 2 1, .writeEnd 2, .flushOk 2, .unlock 2,
   .peerClose 0 5,
   .lockSend 1 3, .writeBegin 1, .writeChunk 1 3, .writeEnd 1, .flushErr 1 1, .unlock 1,
   .lockSend 2 4, .writeSticky 2, .close 2, .unlock 2,
   .lockSend 1 5, .connectOk 1, .writeBegin 1, .writeChunk 1 3, .writeEnd 1, .flushOk 1, .unlock 1]

example : (run cfgFixed threeBytes scheduleFaulty init).map (fun s => (s.delivered 0, s.delivered 1)) =
    some ([10, 0, 1, 10, 0], [10, 0, 5]) := by decide
example : (run cfgFixed threeBytes scheduleFaulty init).map (fun s => (s.log.get 0, s.log.get 1)) =
    some ([1, 2, 3], [5]) := by decide
example : (run cfgFixed threeBytes scheduleFaulty init).map (fun s => s.results) =
    some [(5, true), (4, false), (3, false), (2, true), (1, true)] := by decide

example : Reach cfgFixed threeBytes ((run cfgFixed threeBytes scheduleFaulty init).get (by decide)) :=
  ⟨scheduleFaulty, by simp⟩

/-- a fault history: send; write fault after 2 bytes; send (reconnects); the peer cuts connection 1 after
    2 bytes; flush fault after 1 byte; a send that meets the sticky error; 70 s idle; send (reconnects);
    Close(); dial fault; send (reconnects).  Four connections; the peers received frame 1 and two bytes
    of frame 2 | two bytes of frame 3 | frame 6 | frame 8; nothing twice; failures reported. -/
def historyFaulty : List HEv :=
  [.ok 1, .writeFault 2 2, .ok 1, .cut 1 2, .flushFault 2 1, .writeFault 1 0, .idle 70000, .ok 2, .close 1, .dialFault 2, .ok 1]

example : (runHist cfgFixed threeBytes historyFaulty init).map
      (fun s => ((List.range s.next).map (fun c => (s.delivered c, s.log.get c)), s.results)) =
    some ([([10, 0, 1, 10, 0], [1, 2]), ([10, 0], [3, 4]), ([10, 0, 6], [6]), ([10, 0, 8], [8])],
          [(8, true), (7, false), (6, true), (5, false), (4, false), (3, true), (2, false), (1, true)]) := by decide
/-- every fault offset of a 3-byte frame is admitted, none beyond it -/
example : (List.range 5).map (fun k => (runHist cfgFixed threeBytes [.ok 1, .writeFault 1 k] init).isSome) =
    [true, true, true, true, false] := by decide
example : (List.range 5).map (fun k => (runHist cfgFixed threeBytes [.ok 1, .flushFault 1 k] init).isSome) =
    [true, true, true, false, false] := by decide

/-- a write timeout with the peer alive (the collector stalls, nobody closes): the flush fails after one
    byte; the connection is not closed, but its writer keeps the error — a second send cannot write
    to it (the history with two flush faults in a row on one connection is not a history of the client:
    this is what the driver answers `reject` with when a client resets its writer), it fails on the
    sticky error, closes, and the send after that reconnects; connection 0 ends with the fragment -/
example : runHist cfgFixed threeBytes [.ok 1, .flushFault 1 1, .flushFault 1 1] init = none := by decide
example : (runHist cfgFixed threeBytes [.ok 1, .flushFault 1 1, .writeFault 1 0, .ok 1] init).map
      (fun s => ((List.range s.next).map (fun c => (s.delivered c, s.log.get c)), s.results)) =
    some ([([10, 0, 1, 10], [1, 2]), ([10, 0, 4], [4])], [(4, true), (3, false), (2, false), (1, true)]) := by decide

/-- queue mode, repaired client: capacity 2, two packs accepted, the third refused (C11: full), the
    capacity raised, a fourth accepted; process() connects and sends under the lock; ApplyConfig
    reconnects in between (it has to wait for the lock); idle time; everything accepted arrives, in order -/
def scheduleQueue : List Act :=
  [.setCapacity 2, .enqueue 1 1, .enqueue 2 2, .enqueueFail 1 3, .setCapacity 3, .enqueue 1 4, .bgConnectOk,
   .dequeue, .writeBegin 0, .writeChunk 0 3, .writeEnd 0, .flushOk 0,
   .reconfClose 3, .reconfDialOk 3, .tick 100000,
   .dequeue, .writeBegin 0, .writeChunk 0 3, .writeEnd 0, .flushOk 0,
   .dequeue, .writeBegin 0, .writeChunk 0 3, .writeEnd 0, .flushOk 0]

example : Healthy scheduleQueue := by decide
example : (run cfgQueueFixed threeBytes scheduleQueue init).map (fun s => (s.delivered 0, s.delivered 1)) =
    some ([10, 0, 1], [10, 0, 2, 10, 0, 4]) := by decide
example : (run cfgQueueFixed threeBytes scheduleQueue init).map (fun s => (s.results, s.queue, s.lock)) =
    some ([(4, true), (3, false), (2, true), (1, true)], [], none) := by decide
/-- a Put cannot be refused while there is room (C11's rule, not "may refuse at any time") -/
example : run cfgQueueFixed threeBytes [.setCapacity 2, .enqueue 1 1, .enqueueFail 1 2] init = none := by decide

/-! ### the server list: "the client reconnects" whenever one collector of the list is up

  The action machine takes the outcome of a dial (`connectOk` / `connectFail`) from the environment.
  `Tcp.connectList` (Golib.Tcp.Dial) is `Connect()`'s loop over `this.Servers` with time: every server
  is given the full `Timeout`; a server can accept after `d` time units, refuse at once, or never
  answer.  The theorems say which of the two outcomes the environment may give. -/

/-- `Connect()` connects to the first server of the list that answers within `Timeout` — for every
    list, every `Timeout`, every time of day -/
theorem connect_reaches_first_live (T : Nat) (servers : List Srv) (now : Nat) :
    (connectList T servers now 0).1 = firstLive T servers :=
  connect_is_firstLive T servers now

/-- … exactly: it reports server `k` iff `k` answers within `Timeout` and no server before `k` does -/
theorem connect_first_live_spec (T : Nat) (servers : List Srv) (now k : Nat) :
    (connectList T servers now 0).1 = some k ↔
      (∃ s, servers[k]? = some s ∧ s.live T = true) ∧ ∀ j, j < k → ∀ s, servers[j]? = some s → s.live T = false := by
  rw [connect_is_firstLive]; exact firstLive_some_iff T servers k

/-- "could not connect to any server" iff no server of the list answers within `Timeout` -/
theorem connect_fails_iff_none_live (T : Nat) (servers : List Srv) (now : Nat) :
    (connectList T servers now 0).1 = none ↔ ∀ s ∈ servers, s.live T = false := by
  rw [connect_is_firstLive]; exact firstLive_none_iff T servers

/-- **Any number of dead servers, dead in any way, before a live one**: the live one is reached.
    (`pre` may refuse, may never answer, may answer too late — each costs at most `Timeout`, none
    takes anything away from the servers behind it.) -/
theorem live_behind_dead_is_reached (T : Nat) (pre post : List Srv) (s : Srv) (now : Nat)
    (hpre : ∀ x ∈ pre, x.live T = false) (hs : s.live T = true) :
    (connectList T (pre ++ s :: post) now 0).1 = some pre.length := by
  rw [connect_first_live_spec]
  refine ⟨⟨s, by simp, hs⟩, ?_⟩
  intro j hj x hx
  rw [List.getElem?_append_left hj] at hx
  exact hpre x (List.mem_of_getElem? hx)

/-- the call returns within `length × Timeout` -/
theorem connect_time_bound (T : Nat) (servers : List Srv) (now : Nat) :
    now ≤ (connectList T servers now 0).2 ∧ (connectList T servers now 0).2 ≤ now + servers.length * T :=
  connectList_time T servers now 0

/-- Counterexample class for one dial deadline shared by the whole list (`now + Timeout` computed once
    before the loop): a first server that never answers uses the budget up; no server behind it is
    reached, however healthy — the client never reconnects although a collector of its list is up. -/
theorem finding_sharedBudget (T : Nat) (rest : List Srv) (now : Nat) :
    interpDial { assumedDialLoop with budget := .shared } T (.gone :: rest) now = (none, now + T) :=
  shared_budget_loses _ rfl rfl rfl T rest now

/-- non-vacuity: [gone, refused, up 2, up 0] with Timeout 5 — server 2 is reached at time 5 + 0 + 2;
    a server that answers only after the Timeout is passed over; with the shared deadline nothing is reached -/
example : connectList 5 [.gone, .refused, .up 2, .up 0] 0 0 = (some 2, 7) := by decide
example : connectList 5 [.up 9, .gone, .up 4] 100 0 = (some 2, 114) := by decide
example : connectList 5 [.gone, .refused, .up 5] 0 0 = (none, 10) := by decide
example : interpDial { assumedDialLoop with budget := .shared } 5 [.gone, .refused, .up 2, .up 0] 0 = (none, 5) := by decide
example : (∀ x ∈ [Srv.gone, .refused, .up 7], x.live 5 = false) ∧ (Srv.up 2).live 5 = true := by decide

end C06
