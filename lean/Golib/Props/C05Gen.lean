/-
  C05, tie A — obligations over the facts regenerated from the Go source on every run
  (lean/Golib/Gen/C05.lean, written by xlate/c05).

  * constants: the pack type codes of the eight packs, the frame's source and version bytes, the
    header marker, the hit-map length, the reserved event keys, the 256 hash-table constants — each
    compared with the constant of the *reference* (Golib.Wire.Reference / Hash), not with a copy;
  * write skeletons: for every `Write` method involved (frame header, common header, the eight bodies,
    the helpers of the counter pack) the ordered list of stream writes with their arguments, local names
    made positional.  They are compared with the expected skeletons below, which were checked once,
    by hand and by script, against the field order of the reference encoder.  A dropped, added, reordered
    or retargeted write changes the regenerated skeleton and the `decide` fails; renaming a local or
    reordering statements that do not write does not.
-/
import Golib.Wire.Counter
import Golib.Wire.Steps
import Golib.Gen.C05

namespace C05Gen
open Wire Prim

/-! ### constants -/

theorem pack_type_codes :
    Gen.C05.packTypes.map (fun t => (t.1, t.2.2)) =
      [("TagCountPack", typeTagCount), ("LogSinkPack", typeLogSink), ("TextPack", typeText),
       ("ParamPack", typeParameter), ("EventPack", typeEvent), ("ZipPack", typeZip),
       ("HitMapPack1", typeHitMap1), ("CounterPack1", typeCounter1)] := by decide

theorem pack_type_codes_fit : ∀ t ∈ Gen.C05.packTypes, t.2.2 < 32768 := by decide

theorem frame_source_version : Gen.C05.netSrc = netSrcOneWay ∧ Gen.C05.netVer = netSrcVersion := by decide

/-- both WriteHeader calls of the client pass the source and version constants (what else they pass
    — the pack's project code and the hash of the per-send or the client's license — is checked on
    real frames by the harness) -/
theorem makeData_passes_constants :
    Gen.C05.makeDataHeaderConsts =
      [["netSrcAgentOneway", "netSrcAgentVersion"], ["netSrcAgentOneway", "netSrcAgentVersion"]] := by decide

theorem header_marker : Gen.C05.hdrMarkers = [hdrMarker] := by decide

theorem hash_table : Gen.C05.crcTable = crcTable.toList := by decide +kernel

theorem hitmap_length : Gen.C05.hitmapLength = hitMapLength := by decide

theorem event_keys :
    Gen.C05.eventKeys.map (fun kv => (kv.1, ascii kv.2)) =
      [("ESCALATION_KEY", keyEsca), ("UUID_KEY", keyUuid), ("STATUS_KEY", keyStatus), ("OTYPE_KEY", keyOtype)] := by
  decide

/-! ### expected write skeletons -/

def exp_makeData : List (String × String) := [
  ("WriteShort", "_L2. GetPackType()"),
  ("Write", "_L1"),
  ("if", "_L3. License != \"\""),
  ("WriteHeader", "netSrcAgentOneway, netSrcAgentVersion, _L2. GetPCODE(), whash.Hash64Str(_L3.License)"),
  ("else", ""),
  ("WriteHeader", "netSrcAgentOneway, netSrcAgentVersion, _L2. GetPCODE(), whash.Hash64Str(this.License)"),
  ("end", "")]

def exp_WriteHeader : List (String × String) := [
  ("WriteByte", "_L0"),
  ("WriteByte", "_L1"),
  ("WriteLong", "_L2"),
  ("WriteLong", "_L3"),
  ("WriteIntBytes", "_L4")]

def exp_WriteOneWayHeader : List (String × String) := [
  ("WriteByte", "_L0"),
  ("WriteByte", "_L1"),
  ("WriteLong", "_L2"),
  ("WriteLong", "_L3"),
  ("WriteIntBytes", "_L4")]

def exp_WriteIntBytes : List (String × String) := [
  ("if", "_L0 == nil || len(_L0) == 0"),
  ("WriteInt", "0"),
  ("else", ""),
  ("WriteInt", "int32(len(_L0))"),
  ("WriteBytes", "_L0"),
  ("end", "")]

def exp_Hash64 : List (String × String) := []

def exp_Hash64Str : List (String × String) := []

def exp_AbstractPack : List (String × String) := [
  ("if", "(this.Okind | this.Onode) == 0"),
  ("WriteDecimal", "this.Pcode"),
  ("WriteInt", "this.Oid"),
  ("WriteLong", "this.Time"),
  ("else", ""),
  ("WriteByte", "9"),
  ("WriteDecimal", "this.Pcode"),
  ("WriteInt", "this.Oid"),
  ("WriteInt", "this.Okind"),
  ("WriteInt", "this.Onode"),
  ("WriteLong", "this.Time"),
  ("end", "")]

def exp_TagCountPack : List (String × String) := [
  ("this.AbstractPack.Write", "_L0"),
  ("WriteByte", "0"),
  ("WriteText", "this.Category"),
  ("if", "this.tagHash == 0 && this.Tags.Size() > 0"),
  ("WriteValue", "_L1, this.Tags"),
  ("WriteDecimal", "this.tagHash"),
  ("WriteBytes", "_L2"),
  ("else", ""),
  ("WriteDecimal", "this.tagHash"),
  ("WriteValue", "_L0, this.Tags"),
  ("end", ""),
  ("WriteValue", "_L0, this.Data")]

def exp_LogSinkPack : List (String × String) := [
  ("this.AbstractPack.Write", "_L0"),
  ("WriteByte", "0"),
  ("WriteText", "this.Category"),
  ("if", "this.TagHash == 0 && this.Tags.Size() > 0"),
  ("WriteDecimal", "this.TagHash"),
  ("WriteBytes", "_L1"),
  ("else", ""),
  ("WriteDecimal", "this.TagHash"),
  ("WriteMapValue", "_L0, this.Tags"),
  ("end", ""),
  ("WriteDecimal", "this.Line"),
  ("WriteText", "this.Content"),
  ("if", "this.Fields != nil && this.Fields.Size() > 0"),
  ("WriteBool", "true"),
  ("WriteMapValue", "_L0, this.Fields"),
  ("else", ""),
  ("WriteBool", "false"),
  ("end", "")]

def exp_TextPack : List (String × String) := [
  ("this.AbstractPack.Write", "_L0"),
  ("WriteDecimal", "int64(len(this.records))"),
  ("for", ""),
  ("WriteByte", "_L1. Div"),
  ("WriteInt", "_L1. Hash"),
  ("WriteText", "_L1. Text"),
  ("end", "")]

def exp_ParamPack : List (String × String) := [
  ("this.AbstractPack.Write", "_L0"),
  ("WriteInt", "this.Id"),
  ("WriteDecimal", "this.Request"),
  ("WriteDecimal", "this.Response"),
  ("WriteDecimal", "int64(this.table.Size())"),
  ("for", ""),
  ("WriteText", "_L2"),
  ("WriteValue", "_L0, _L3"),
  ("end", "")]

def exp_EventPack : List (String × String) := [
  ("this.AbstractPack.Write", "_L0"),
  ("WriteByte", "this.Level"),
  ("WriteText", "this.Title"),
  ("WriteText", "this.Message"),
  ("if", "this.Uuid != \"\""),
  ("this.Attr.Put", "UUID_KEY, this.Uuid"),
  ("end", ""),
  ("if", "this.Escalation"),
  ("this.Attr.Put", "ESCALATION_KEY, \"true\""),
  ("else", ""),
  ("this.Attr.Put", "ESCALATION_KEY, \"false\""),
  ("end", ""),
  ("this.Attr.Put", "STATUS_KEY, fmt.Sprintf(\"%d\", this.Status)"),
  ("this.Attr.Put", "OTYPE_KEY, fmt.Sprintf(\"%d\", this.Otype)"),
  ("WriteByte", "byte(_L1)"),
  ("for", ""),
  ("WriteText", "_L3. GetKey()"),
  ("WriteText", "_L3. GetValue().(string)"),
  ("end", "")]

def exp_ZipPack : List (String × String) := [
  ("this.AbstractPack.Write", "_L0"),
  ("WriteByte", "this.Status"),
  ("WriteDecimal", "int64(this.RecordCount)"),
  ("WriteBlob", "this.Records")]

def exp_HitMapPack1 : List (String × String) := [
  ("this.AbstractPack.Write", "_L0"),
  ("WriteByte", "1"),
  ("for", ""),
  ("WriteShort", "int16(this.Hit[_L1])"),
  ("WriteShort", "int16(this.Error[_L1])"),
  ("end", "")]

def exp_CounterPack1 : List (String × String) := [
  ("this.AbstractPack.Write", "_L0"),
  ("WriteDecimal", "int64(this.Duration)"),
  ("WriteDecimal", "int64(this.Cputime)"),
  ("WriteDecimal", "this.HeapTot"),
  ("WriteDecimal", "this.HeapUse"),
  ("WriteDecimal", "this.HeapPerm"),
  ("WriteDecimal", "int64(this.HeapPendingFinalization)"),
  ("WriteDecimal", "int64(this.GcCount)"),
  ("WriteDecimal", "int64(this.GcTime)"),
  ("WriteDecimal", "int64(this.ServiceCount)"),
  ("WriteDecimal", "int64(this.ServiceError)"),
  ("WriteDecimal", "int64(this.ServiceTime)"),
  ("WriteDecimal", "int64(this.SqlCount)"),
  ("WriteDecimal", "int64(this.SqlError)"),
  ("WriteDecimal", "int64(this.SqlTime)"),
  ("WriteDecimal", "int64(this.SqlFetchCount)"),
  ("WriteDecimal", "int64(this.SqlFetchTime)"),
  ("WriteDecimal", "int64(this.HttpcCount)"),
  ("WriteDecimal", "int64(this.HttpcError)"),
  ("WriteDecimal", "int64(this.HttpcTime)"),
  ("WriteDecimal", "int64(this.ActSvcCount)"),
  ("writeShortArray", "_L1, this.ActSvcSlice"),
  ("WriteFloat", "this.Cpu"),
  ("WriteFloat", "this.CpuSys"),
  ("WriteFloat", "this.CpuUsr"),
  ("WriteFloat", "this.CpuWait"),
  ("WriteFloat", "this.CpuSteal"),
  ("WriteFloat", "this.CpuIrq"),
  ("WriteFloat", "this.CpuProc"),
  ("WriteDecimal", "int64(this.CpuCores)"),
  ("WriteFloat", "this.Mem"),
  ("WriteFloat", "this.Swap"),
  ("WriteFloat", "this.Disk"),
  ("WriteDecimal", "int64(this.ThreadTotalStarted)"),
  ("WriteDecimal", "int64(this.ThreadCount)"),
  ("WriteDecimal", "int64(this.ThreadDaemon)"),
  ("WriteDecimal", "int64(this.ThreadPeakCount)"),
  ("if", "this.DbNumActive == nil || this.DbNumIdle == nil"),
  ("WriteByte", "0"),
  ("else", ""),
  ("WriteByte", "1"),
  ("this.DbNumActive.ToBytes", "_L1"),
  ("this.DbNumIdle.ToBytes", "_L1"),
  ("end", ""),
  ("if", "this.Netstat == nil"),
  ("WriteByte", "0"),
  ("else", ""),
  ("WriteByte", "1"),
  ("WriteDecimal", "int64(this.Netstat.Est)"),
  ("WriteDecimal", "int64(this.Netstat.FinW)"),
  ("WriteDecimal", "int64(this.Netstat.CloW)"),
  ("WriteDecimal", "int64(this.Netstat.TimW)"),
  ("end", ""),
  ("WriteDecimal", "int64(this.ProcFd)"),
  ("WriteFloat", "this.Tps"),
  ("WriteDecimal", "int64(this.RespTime)"),
  ("WriteShort", "this.ApType"),
  ("if", "this.Websocket == nil"),
  ("WriteByte", "0"),
  ("else", ""),
  ("WriteByte", "1"),
  ("WriteDecimal", "int64(this.Websocket.Count)"),
  ("WriteDecimal", "this.Websocket.In"),
  ("WriteDecimal", "this.Websocket.Out"),
  ("end", ""),
  ("WriteDecimal", "int64(this.Starttime)"),
  ("WriteDecimal", "int64(this.PackDropped)"),
  ("WriteDecimal", "int64(this.HostIp)"),
  ("WriteDecimal", "int64(this.MacHash)"),
  ("if", "this.Extra == nil"),
  ("WriteByte", "0"),
  ("else", ""),
  ("WriteByte", "1"),
  ("WriteValue", "_L1, this.Extra"),
  ("end", ""),
  ("WriteInt", "this.Pid"),
  ("WriteByte", "byte(_L2)"),
  ("for", ""),
  ("WriteShort", "this.ActiveStat[_L3]"),
  ("end", ""),
  ("WriteDecimal", "int64(this.ThreadPoolActiveCount)"),
  ("WriteDecimal", "int64(this.ThreadPoolQueueSize)"),
  ("writeTxcallerOidMeter", "_L1"),
  ("writeSqlMeter", "_L1"),
  ("writeHttpcMeter", "_L1"),
  ("writeTxcallerGroupMeter", "_L1"),
  ("WriteDecimal", "0"),
  ("writeTxcallerOther", "_L1"),
  ("WriteDecimal", "int64(this.ContainerKey)"),
  ("WriteFloat", "this.TxDbcTime"),
  ("WriteFloat", "this.TxSqlTime"),
  ("WriteFloat", "this.TxHttpcTime"),
  ("WriteDecimal", "int64(this.ApdexSatisfied)"),
  ("WriteDecimal", "int64(this.ApdexTolerated)"),
  ("WriteFloat", "this.ArrivalRate"),
  ("WriteDecimal", "int64(this.GcOldgenCount)"),
  ("WriteByte", "this.Version"),
  ("WriteDecimal", "this.HeapMax"),
  ("WriteDecimal", "int64(this.ProcFdMax)"),
  ("WriteFloat", "this.Metering"),
  ("WriteDecimal", "int64(this.ApdexTotal)"),
  ("writeTxcallerPOidMeter", "_L1"),
  ("WriteDecimal", "int64(this.Resp90)"),
  ("WriteDecimal", "int64(this.Resp95)"),
  ("WriteDecimal", "this.TimeSqrSum"),
  ("WriteBlob", "_L1. ToByteArray()")]

def exp_CounterPack1_writeShortArray : List (String × String) := [
  ("if", "_L0 == nil"),
  ("WriteByte", "0"),
  ("else", ""),
  ("WriteByte", "byte(len(_L0))"),
  ("for", ""),
  ("WriteShort", "_L0[_L2]"),
  ("end", ""),
  ("end", "")]

def exp_CounterPack1_writeTxcallerOther : List (String × String) := [
  ("if", "this.TxcallerUnknown != nil"),
  ("WriteByte", "2"),
  ("WriteDecimal", "this.TxcallerUnknown.Time"),
  ("WriteDecimal", "int64(this.TxcallerUnknown.Count)"),
  ("WriteDecimal", "int64(this.TxcallerUnknown.Error)"),
  ("WriteDecimal", "int64(this.TxcallerUnknown.Actx)"),
  ("else", ""),
  ("WriteByte", "0"),
  ("end", "")]

def exp_CounterPack1_writeTxcallerOidMeter : List (String × String) := [
  ("if", "this.TxcallerOidMeter == nil"),
  ("WriteDecimal", "0"),
  ("else", ""),
  ("WriteByte", "9"),
  ("WriteDecimal", "int64(this.TxcallerOidMeter.Size())"),
  ("for", ""),
  ("WriteInt", "_L2. GetKey()"),
  ("WriteDecimal", "_L3. Time"),
  ("WriteDecimal", "int64(_L3.Count)"),
  ("WriteDecimal", "int64(_L3.Error)"),
  ("WriteDecimal", "int64(_L3.Actx)"),
  ("end", ""),
  ("end", "")]

def exp_CounterPack1_writeSqlMeter : List (String × String) := [
  ("if", "this.SqlMeter == nil"),
  ("WriteDecimal", "0"),
  ("else", ""),
  ("WriteByte", "9"),
  ("WriteDecimal", "int64(this.SqlMeter.Size())"),
  ("for", ""),
  ("WriteInt", "_L2. GetKey()"),
  ("WriteDecimal", "_L3. Time"),
  ("WriteDecimal", "int64(_L3.Count)"),
  ("WriteDecimal", "int64(_L3.Error)"),
  ("WriteDecimal", "int64(_L3.Actx)"),
  ("WriteDecimal", "int64(_L3.FetchCount)"),
  ("WriteDecimal", "int64(_L3.FetchTime)"),
  ("end", ""),
  ("end", "")]

def exp_CounterPack1_writeHttpcMeter : List (String × String) := [
  ("if", "this.HttpcMeter == nil"),
  ("WriteDecimal", "0"),
  ("else", ""),
  ("WriteByte", "9"),
  ("WriteDecimal", "int64(this.HttpcMeter.Size())"),
  ("for", ""),
  ("WriteInt", "_L2. GetKey()"),
  ("WriteDecimal", "_L3. Time"),
  ("WriteDecimal", "int64(_L3.Count)"),
  ("WriteDecimal", "int64(_L3.Error)"),
  ("WriteDecimal", "int64(_L3.Actx)"),
  ("end", ""),
  ("end", "")]

def exp_CounterPack1_writeTxcallerGroupMeter : List (String × String) := [
  ("if", "this.TxcallerGroupMeter == nil"),
  ("WriteDecimal", "0"),
  ("else", ""),
  ("WriteByte", "9"),
  ("WriteDecimal", "int64(this.TxcallerGroupMeter.Size())"),
  ("for", ""),
  ("WriteDecimal", "_L2. GetKey().(*lang.PKIND).PCode"),
  ("WriteDecimal", "int64(_L2.GetKey().(*lang.PKIND).OKind)"),
  ("WriteDecimal", "_L3. Time"),
  ("WriteDecimal", "int64(_L3.Count)"),
  ("WriteDecimal", "int64(_L3.Error)"),
  ("WriteDecimal", "int64(_L3.Actx)"),
  ("end", ""),
  ("end", "")]

def exp_CounterPack1_writeTxcallerPOidMeter : List (String × String) := [
  ("if", "this.TxcallerPOidMeter == nil"),
  ("WriteDecimal", "0"),
  ("else", ""),
  ("WriteDecimal", "int64(this.TxcallerPOidMeter.Size())"),
  ("for", ""),
  ("WriteDecimal", "_L2. GetKey().(*lang.POID).PCode"),
  ("WriteDecimal", "int64(_L2.GetKey().(*lang.POID).Oid)"),
  ("WriteDecimal", "_L3. Time"),
  ("WriteDecimal", "int64(_L3.Count)"),
  ("WriteDecimal", "int64(_L3.Error)"),
  ("writeShortArray", "_L0, _L3. Acts"),
  ("WriteDecimal", "int64(_L3.Actx)"),
  ("end", ""),
  ("end", "")]

def exp_LogSinkPack_ResetTagHash : List (String × String) := [
  ("WriteMapValue", "_L0, this.Tags")]

def exp_IntIntMap_ToBytes : List (String × String) := [
  ("WriteDecimal", "int64(this.Size())"),
  ("for", ""),
  ("WriteDecimal", "int64(_L2.GetKey())"),
  ("WriteDecimal", "int64(_L2.GetValue())"),
  ("end", "")]

/-! ### the regenerated skeletons are the expected ones -/

theorem skeleton_makeData : Gen.C05.skel_makeData = exp_makeData := by decide
theorem skeleton_WriteHeader : Gen.C05.skel_WriteHeader = exp_WriteHeader := by decide
theorem skeleton_WriteOneWayHeader : Gen.C05.skel_WriteOneWayHeader = exp_WriteOneWayHeader := by decide
theorem skeleton_WriteIntBytes : Gen.C05.skel_WriteIntBytes = exp_WriteIntBytes := by decide
theorem skeleton_Hash64 : Gen.C05.skel_Hash64 = exp_Hash64 := by decide
theorem skeleton_Hash64Str : Gen.C05.skel_Hash64Str = exp_Hash64Str := by decide
theorem skeleton_AbstractPack : Gen.C05.skel_AbstractPack = exp_AbstractPack := by decide
theorem skeleton_TagCountPack : Gen.C05.skel_TagCountPack = exp_TagCountPack := by decide
theorem skeleton_LogSinkPack : Gen.C05.skel_LogSinkPack = exp_LogSinkPack := by decide
theorem skeleton_TextPack : Gen.C05.skel_TextPack = exp_TextPack := by decide
theorem skeleton_ParamPack : Gen.C05.skel_ParamPack = exp_ParamPack := by decide
theorem skeleton_EventPack : Gen.C05.skel_EventPack = exp_EventPack := by decide
theorem skeleton_ZipPack : Gen.C05.skel_ZipPack = exp_ZipPack := by decide
theorem skeleton_HitMapPack1 : Gen.C05.skel_HitMapPack1 = exp_HitMapPack1 := by decide
theorem skeleton_CounterPack1 : Gen.C05.skel_CounterPack1 = exp_CounterPack1 := by decide
theorem skeleton_CounterPack1_writeShortArray : Gen.C05.skel_CounterPack1_writeShortArray = exp_CounterPack1_writeShortArray := by decide
theorem skeleton_CounterPack1_writeTxcallerOther : Gen.C05.skel_CounterPack1_writeTxcallerOther = exp_CounterPack1_writeTxcallerOther := by decide
theorem skeleton_CounterPack1_writeTxcallerOidMeter : Gen.C05.skel_CounterPack1_writeTxcallerOidMeter = exp_CounterPack1_writeTxcallerOidMeter := by decide
theorem skeleton_CounterPack1_writeSqlMeter : Gen.C05.skel_CounterPack1_writeSqlMeter = exp_CounterPack1_writeSqlMeter := by decide
theorem skeleton_CounterPack1_writeHttpcMeter : Gen.C05.skel_CounterPack1_writeHttpcMeter = exp_CounterPack1_writeHttpcMeter := by decide
theorem skeleton_CounterPack1_writeTxcallerGroupMeter : Gen.C05.skel_CounterPack1_writeTxcallerGroupMeter = exp_CounterPack1_writeTxcallerGroupMeter := by decide
theorem skeleton_CounterPack1_writeTxcallerPOidMeter : Gen.C05.skel_CounterPack1_writeTxcallerPOidMeter = exp_CounterPack1_writeTxcallerPOidMeter := by decide
theorem skeleton_LogSinkPack_ResetTagHash : Gen.C05.skel_LogSinkPack_ResetTagHash = exp_LogSinkPack_ResetTagHash := by decide
theorem skeleton_IntIntMap_ToBytes : Gen.C05.skel_IntIntMap_ToBytes = exp_IntIntMap_ToBytes := by decide

/-! ### the regenerated write steps mean the reference encoder, for all field values

  `sem… p` says what each Go field holds in terms of the reference's pack `p` (the name correspondence
  Go field ↔ reference field is the trusted part) and what each opaque section contributes (the
  reference's encoder of that section; the inside of the sections is tied by the skeletons above and by
  the harness). -/

def noSec : String → Bytes := fun _ => poison

def semHdr (h : Hdr) : Sem where
  hdr := poison
  env f := match f with
    | "Pcode" => .i h.pcode
    | "Oid" => .i h.oid
    | "Okind" => .i h.okind
    | "Onode" => .i h.onode
    | "Time" => .i h.time
    | _ => .none
  sec := noSec
  other := noSec

theorem header_writer_is_reference (h : Hdr) :
    Gen.C05.hdrCond = "(this.Okind | this.Onode) == 0" ∧
    run (semHdr h) Gen.C05.steps_hdrShort = encHdrShort h ∧
    run (semHdr h) Gen.C05.steps_hdrExt = encHdrExt h := by
  refine ⟨by decide, ?_, ?_⟩
  · simp [Gen.C05.steps_hdrShort, run, interp, wr, semHdr, encHdrShort]
  · simp [Gen.C05.steps_hdrExt, run, interp, wr, wrLit, semHdr, encHdrExt, hdrMarker]

def semZip (p : Zip) : Sem where
  hdr := encHdr p.hdr
  env f := match f with
    | "Status" => .n p.status
    | "RecordCount" => .i p.recordCount
    | "Records" => .b p.records
    | _ => .none
  sec := noSec
  other := noSec

theorem zip_writer_is_reference (p : Zip) : run (semZip p) Gen.C05.steps_ZipPack = encZip p := by
  simp [Gen.C05.steps_ZipPack, run, interp, wr, semZip, encZip]

def semTagCount (p : TagCount) : Sem where
  hdr := encHdr p.hdr
  env f := match f with
    | "Category" => .b p.category
    | "Data" => .m p.data
    | _ => .none
  sec s := match s with
    | "if:this.tagHash == 0 && this.Tags.Size() > 0" => encDecimal (effTagHash p.tagHash p.tags) ++ encMap p.tags
    | _ => poison
  other := noSec

theorem tagcount_writer_is_reference (p : TagCount) :
    run (semTagCount p) Gen.C05.steps_TagCountPack = encTagCount p := by
  simp [Gen.C05.steps_TagCountPack, run, interp, wr, wrLit, semTagCount, encTagCount, encTagCountRaw, TagCount.norm]

def semLogSink (p : LogSink) : Sem where
  hdr := encHdr p.hdr
  env f := match f with
    | "Category" => .b p.category
    | "Line" => .i p.line
    | "Content" => .b p.content
    | _ => .none
  sec s := match s with
    | "if:this.TagHash == 0 && this.Tags.Size() > 0" => encDecimal (effTagHash p.tagHash p.tags) ++ encMap p.tags
    | "if:this.Fields != nil && this.Fields.Size() > 0" => encOptMap p.fields
    | _ => poison
  other := noSec

theorem logsink_writer_is_reference (p : LogSink) :
    run (semLogSink p) Gen.C05.steps_LogSinkPack = encLogSink p := by
  simp [Gen.C05.steps_LogSinkPack, run, interp, wr, wrLit, semLogSink, encLogSink, encLogSinkRaw, LogSink.norm]

def semText (p : TextP) : Sem where
  hdr := encHdr p.hdr
  env _ := .none
  sec s := match s with
    | "for:records" => encMany encTextRec p.records
    | _ => poison
  other s := match s with
    | "WriteDecimal(int64(len(this.records)))" => encDecimal p.records.length
    | _ => poison

theorem text_writer_is_reference (p : TextP) : run (semText p) Gen.C05.steps_TextPack = encTextP p := by
  simp [Gen.C05.steps_TextPack, run, interp, semText, encTextP]

def semParam (p : Param) : Sem where
  hdr := encHdr p.hdr
  env f := match f with
    | "Id" => .i p.id
    | "Request" => .i p.request
    | "Response" => .i p.response
    | _ => .none
  sec s := match s with
    | "for:table.Get" => encMany encParamEntry p.table
    | _ => poison
  other s := match s with
    | "WriteDecimal(int64(this.table.Size()))" => encDecimal p.table.length
    | _ => poison

theorem param_writer_is_reference (p : Param) : run (semParam p) Gen.C05.steps_ParamPack = encParam p := by
  simp [Gen.C05.steps_ParamPack, run, interp, wr, semParam, encParam]

/-- the event: the four `Attr.Put` statements fold uuid / escalation / status / type into the attribute
    map (no bytes of their own; their order is tied by `skeleton_EventPack` and the harness); the count
    byte and the loop write the folded map -/
def semEvent (e : Event) : Sem where
  hdr := encHdr e.hdr
  env f := match f with
    | "Level" => .n e.level
    | "Title" => .b e.title
    | "Message" => .b e.message
    | _ => .none
  sec s := match s with
    | "if:this.Uuid != \"\"" => []
    | "if:this.Escalation" => []
    | "for:#0" => encMany encAttrEntry (foldAttrs e)
    | _ => poison
  other s := match s with
    | "this.Attr.Put(STATUS_KEY, fmt.Sprintf(\"%d\", this.Status))" => []
    | "this.Attr.Put(OTYPE_KEY, fmt.Sprintf(\"%d\", this.Otype))" => []
    | "WriteByte(byte(_L0))" => [(foldAttrs e).length % 256]
    | _ => poison

theorem event_writer_is_reference (e : Event) : run (semEvent e) Gen.C05.steps_EventPack = encEvent e := by
  simp [Gen.C05.steps_EventPack, run, interp, wr, semEvent, encEvent, encEventWire, Event.toWire]

def semHitMap (p : HitMap) : Sem where
  hdr := encHdr p.hdr
  env _ := .none
  sec s := match s with
    | "for:Hit" => encCells (p.hit.take hitMapLength) (p.error.take hitMapLength)
    | _ => poison
  other := noSec

theorem hitmap_writer_is_reference (p : HitMap) : run (semHitMap p) Gen.C05.steps_HitMapPack1 = encHitMap p := by
  simp [Gen.C05.steps_HitMapPack1, run, interp, wrLit, semHitMap, encHitMap]

def semCounter (p : Counter) : Sem where
  hdr := encHdr p.hdr
  env f := match f with
    | "Duration" => .i p.duration
    | "Cputime" => .i p.cputime
    | "HeapTot" => .i p.heapTot
    | "HeapUse" => .i p.heapUse
    | "HeapPerm" => .i p.heapPerm
    | "HeapPendingFinalization" => .i p.heapPendingFinalization
    | "GcCount" => .i p.gcCount
    | "GcTime" => .i p.gcTime
    | "ServiceCount" => .i p.serviceCount
    | "ServiceError" => .i p.serviceError
    | "ServiceTime" => .i p.serviceTime
    | "SqlCount" => .i p.sqlCount
    | "SqlError" => .i p.sqlError
    | "SqlTime" => .i p.sqlTime
    | "SqlFetchCount" => .i p.sqlFetchCount
    | "SqlFetchTime" => .i p.sqlFetchTime
    | "HttpcCount" => .i p.httpcCount
    | "HttpcError" => .i p.httpcError
    | "HttpcTime" => .i p.httpcTime
    | "ActSvcCount" => .i p.actSvcCount
    | "ActSvcSlice" => .is p.actSvcSlice
    | "Cpu" => .n p.cpu
    | "CpuSys" => .n p.cpuSys
    | "CpuUsr" => .n p.cpuUsr
    | "CpuWait" => .n p.cpuWait
    | "CpuSteal" => .n p.cpuSteal
    | "CpuIrq" => .n p.cpuIrq
    | "CpuProc" => .n p.cpuProc
    | "CpuCores" => .i p.cpuCores
    | "Mem" => .n p.mem
    | "Swap" => .n p.swap
    | "Disk" => .n p.disk
    | "ThreadTotalStarted" => .i p.threadTotalStarted
    | "ThreadCount" => .i p.threadCount
    | "ThreadDaemon" => .i p.threadDaemon
    | "ThreadPeakCount" => .i p.threadPeakCount
    | "ProcFd" => .i p.procFd
    | "Tps" => .n p.tps
    | "RespTime" => .i p.respTime
    | "ApType" => .i p.apType
    | "Starttime" => .i p.starttime
    | "PackDropped" => .i p.packDropped
    | "HostIp" => .i p.hostIp
    | "MacHash" => .i p.macHash
    | "Pid" => .i p.pid
    | "ActiveStat" => .is p.activeStat
    | "ThreadPoolActiveCount" => .i p.threadPoolActiveCount
    | "ThreadPoolQueueSize" => .i p.threadPoolQueueSize
    | "ContainerKey" => .i p.containerKey
    | "TxDbcTime" => .n p.txDbcTime
    | "TxSqlTime" => .n p.txSqlTime
    | "TxHttpcTime" => .n p.txHttpcTime
    | "ApdexSatisfied" => .i p.apdexSatisfied
    | "ApdexTolerated" => .i p.apdexTolerated
    | "ArrivalRate" => .n p.arrivalRate
    | "GcOldgenCount" => .i p.gcOldgenCount
    | "Version" => .n p.version
    | "HeapMax" => .i p.heapMax
    | "ProcFdMax" => .i p.procFdMax
    | "Metering" => .n p.metering
    | "ApdexTotal" => .i p.apdexTotal
    | "Resp90" => .i p.resp90
    | "Resp95" => .i p.resp95
    | "TimeSqrSum" => .i p.timeSqrSum
    | _ => .none
  sec s := match s with
    | "if:this.DbNumActive == nil || this.DbNumIdle == nil" => encOption 1 encDbPool p.dbPool
    | "if:this.Netstat == nil" => encOption 1 encNetStat p.netstat
    | "if:this.Websocket == nil" => encOption 1 encWebSocket p.websocket
    | "if:this.Extra == nil" => encOption 1 encIntMap p.extra
    | "for:ActiveStat" => encMany (encI 2) p.activeStat
    | "writeTxcallerOidMeter" => encOption 9 (encCounted encOidEntry) p.oidMeter
    | "writeSqlMeter" => encOption 9 (encCounted encSqlEntry) p.sqlMeter
    | "writeHttpcMeter" => encOption 9 (encCounted encOidEntry) p.httpcMeter
    | "writeTxcallerGroupMeter" => encOption 9 (encCounted encGroupEntry) p.groupMeter
    | "writeTxcallerOther" => encOption 2 encUnknown p.unknown
    | "writeTxcallerPOidMeter" => encCounted encPoidEntry p.poidMeter
    | _ => poison
  other s := match s with
    | "WriteByte(byte(_L0))" => [p.activeStat.length % 256]
    | _ => poison

/-- the 60-odd scalar fields of the counter pack are written with the method and at the position the
    reference has them, the sections sit where the reference has them, and the whole is wrapped in
    one blob after the header — for all field values -/
theorem counter_writer_is_reference (p : Counter) :
    runWrapped (semCounter p) Gen.C05.steps_CounterPack1 = encCounter p := by
  simp [Gen.C05.steps_CounterPack1, runWrapped, run, interp, wr, wrLit, semCounter, encCounter, encCounterBody,
    encShorts8]
  rfl

end C05Gen
