/-
  C05, tie A — obligations over the facts regenerated from the Go source on every run
  (lean/Golib/Gen/C05.lean, written by xlate/c05).

  * constants: the pack type codes of the eight packs, the frame's source and version bytes, the header
    marker, the hit-map length, the reserved event keys, the 256 hash-table constants — each compared with the
    constant of the *reference* (Golib.Wire.Reference / Hash), not with a copy;
  * interpreted write steps (Golib/Wire/Steps.lean gives them a meaning): for the common header, the frame
    functions (WriteIntBytes, WriteHeader, WriteOneWayHeader, makeData) and the eight `Write` methods with the
    bodies of their if / for statements — and, in C05GenCounter.lean, the counter pack's helpers and sections —
    theorems `…_is_reference`: for all field values the regenerated steps mean exactly the reference encoder;
  * the hash: the loop body of `Hash64` transcribed as an expression, proved to be the reference step, and the
    whole function (init, loop over all bytes, final xor, return conversion) proved to be `hash64`;
  * side buffers: what the tag-hash packs write to their side buffer, hash and copy into the stream
    (`tagcount_side_buffer`, `resetTagHash_is_reference`) — no golden skeleton is left.
-/
import Golib.Wire.Counter
import Golib.Wire.Steps
import Golib.Wire.Route
import Golib.Gen.C05

set_option linter.unusedSimpArgs false

namespace C05Gen
open Wire Prim

/-! ### constants -/

theorem pack_type_codes :
    Gen.C05.packTypes.map (fun t => (t.1, t.2.2)) =
      [("TagCountPack", typeTagCount), ("LogSinkPack", typeLogSink), ("TextPack", typeText),
       ("ParamPack", typeParameter), ("EventPack", typeEvent), ("ZipPack", typeZip),
       ("HitMapPack1", typeHitMap1), ("CounterPack1", typeCounter1)] := by decide

theorem pack_type_codes_fit : ∀ t ∈ Gen.C05.packTypes, t.2.2 < 32768 := by decide

theorem frame_source_version : Gen.C05.netSrc = netSrcOneWay ∧ Gen.C05.netVer = netSrcVersion := by decide

/-- both WriteHeader calls of the client pass the source and version constants (what else they pass
    — the pack's project code and the hash of the per-send or the client's license — is checked on
    real frames by the harness) -/
theorem makeData_passes_constants :
    Gen.C05.makeDataHeaderConsts =
      [["netSrcAgentOneway", "netSrcAgentVersion"], ["netSrcAgentOneway", "netSrcAgentVersion"]] := by decide

theorem header_marker : Gen.C05.hdrMarkers = [hdrMarker] := by decide

theorem hash_table : Gen.C05.crcTable = crcTable.toList := by decide +kernel

theorem hitmap_length : Gen.C05.hitmapLength = hitMapLength := by decide

theorem event_keys :
    Gen.C05.eventKeys.map (fun kv => (kv.1, ascii kv.2)) =
      [("ESCALATION_KEY", keyEsca), ("UUID_KEY", keyUuid), ("STATUS_KEY", keyStatus), ("OTYPE_KEY", keyOtype)] := by
  decide

/-! ### the regenerated write steps mean the reference encoder, for all field values

  `xlate/c05` transcribes every statement that writes — including the bodies of if / for statements and the
  helper methods of the counter pack — into nested steps (Golib/Wire/Steps.lean).  A `Sem` says what each
  written Go expression holds in terms of the reference's pack (the correspondence *Go expression ↔ reference
  field* is the trusted part: a table of names), which reference predicate a condition is, and which
  reference list a loop visits.  Every theorem below is for all field values.  Unknown methods, expressions,
  conditions or loops evaluate to a poison byte / the empty collection, so an unrecognised shape fails the
  obligation instead of being skipped. -/

def S0 : Sem := ⟨poison, fun _ => .none, fun _ => false, fun _ => [], fun _ => poison⟩

theorem encI2_ofNat (ty : Nat) (h : ty < 65536) : encI 2 (ty : Int) = beN 2 ty := by
  unfold encI toU
  rw [modulus_2, Int.emod_eq_of_lt (by omega) (by omega)]
  simp

/-! #### common header -/

def semHdr (h : Hdr) : Sem :=
  { S0 with env := fun a => match a with
    | "Pcode" => .i h.pcode
    | "Oid" => .i h.oid
    | "Okind" => .i h.okind
    | "Onode" => .i h.onode
    | "Time" => .i h.time
    | _ => .none }

theorem header_writer_is_reference (h : Hdr) :
    Gen.C05.hdrCond = "(this.Okind | this.Onode) == 0" ∧
    run (semHdr h) Gen.C05.steps_hdrShort = encHdrShort h ∧
    run (semHdr h) Gen.C05.steps_hdrExt = encHdrExt h := by
  refine ⟨by decide, ?_, ?_⟩
  · simp [Gen.C05.steps_hdrShort, run, interp, wr, semHdr, S0, encHdrShort]
  · simp [Gen.C05.steps_hdrExt, run, interp, wr, wrLit, semHdr, S0, encHdrExt, hdrMarker]

/-! #### frame: DataOutputX.WriteIntBytes / WriteHeader / WriteOneWayHeader, OneWayTcpClient.makeData -/

def semIntBytes (t : Bytes) : Sem :=
  { S0 with
    env := fun a => match a with
      | "_L0" => .raw t
      | "len(_L0)" => .i t.length
      | _ => .none
    cond := fun c => match c with
      | "_L0 == nil || len(_L0) == 0" => decide (t = [])
      | _ => false }

/-- `WriteIntBytes(t)` = 4-byte length, then the bytes — in both branches of its test for emptiness -/
theorem writeIntBytes_is_reference (t : Bytes) :
    run (semIntBytes t) Gen.C05.steps_WriteIntBytes = wr "WriteIntBytes" (.raw t) := by
  by_cases h : t = []
  · subst h
    simp [Gen.C05.steps_WriteIntBytes, run, interp, wr, wrLit, semIntBytes, S0]
  · simp [Gen.C05.steps_WriteIntBytes, run, interp, wr, wrLit, semIntBytes, S0, h]

def semWriteHeader (src ver : Nat) (pcode hash : Int) (t : Bytes) : Sem :=
  { S0 with env := fun a => match a with
    | "_L0" => .n src
    | "_L1" => .n ver
    | "_L2" => .i pcode
    | "_L3" => .i hash
    | "_L4" => .raw t
    | _ => .none }

/-- `WriteHeader(src, ver, pcode, hash)` writes src, ver, be8 pcode, be8 hash and then, through
    `WriteIntBytes`, be4 |t| and t, where t is the saved previous content of the stream -/
theorem writeHeader_is_reference (src ver : Nat) (pcode hash : Int) (t : Bytes) :
    run (semWriteHeader src ver pcode hash t) Gen.C05.steps_WriteHeader = wrapHeader src ver pcode hash t ∧
    run (semWriteHeader src ver pcode hash t) Gen.C05.steps_WriteOneWayHeader = wrapHeader src ver pcode hash t := by
  constructor
  · simp [Gen.C05.steps_WriteHeader, run, interp, wr, semWriteHeader, S0, wrapHeader]
  · simp [Gen.C05.steps_WriteOneWayHeader, run, interp, wr, semWriteHeader, S0, wrapHeader]

theorem wrapHeader_is_frame (pcode : Int) (license pl : Bytes) :
    wrapHeader netSrcOneWay netSrcVersion pcode (hash64 license) pl = frame pcode license pl := by
  simp [wrapHeader, frame, netSrcOneWay, netSrcVersion]

/-- meaning of `makeData`: the pack type and the pack's own bytes are written, then one of two
    `WriteHeader` calls wraps them -/
def makeDataMeaning (S : Sem) (constN : String → Nat) (valI : String → Int) : List Step → Bytes
  | [s1, s2, .ite c [.wrapHeader [a0, a1, a2, a3]] [.wrapHeader [b0, b1, b2, b3]]] =>
    if S.cond c then wrapHeader (constN a0) (constN a1) (valI a2) (valI a3) (run S [s1, s2])
    else wrapHeader (constN b0) (constN b1) (valI b2) (valI b3) (run S [s1, s2])
  | _ => poison

def semMakeData (ty : Nat) (body optLic : Bytes) : Sem :=
  { S0 with
    env := fun a => match a with
      | "_L0.Pack.GetPackType()" => .i ty
      | "_L0.Pack" => .raw body
      | _ => .none
    cond := fun c => match c with
      | "_L1.License != \"\"" => decide (optLic ≠ [])
      | _ => false }

/-- the frame the client builds, for every pack type code, pack body, client license and per-send license:
    source and version are the extracted constants, the project code is the pack's, the hash is `hash64` of
    the per-send license when that is non-empty and of the client's license otherwise -/
theorem makeData_is_reference (ty : Nat) (hty : ty < 65536) (pcode : Int) (body optLic clientLic : Bytes) :
    makeDataMeaning (semMakeData ty body optLic)
      (fun n => match n with
        | "netSrcAgentOneway" => Gen.C05.netSrc
        | "netSrcAgentVersion" => Gen.C05.netVer
        | _ => 999)
      (fun v => match v with
        | "_L0.Pack.GetPCODE()" => pcode
        | "whash.Hash64Str(_L1.License)" => hash64 optLic
        | "whash.Hash64Str(this.License)" => hash64 clientLic
        | _ => 0)
      Gen.C05.steps_makeData
    = frame pcode (if optLic ≠ [] then optLic else clientLic) (payload ty body) := by
  have e := encI2_ofNat ty hty
  by_cases h : optLic = []
  · simp [Gen.C05.steps_makeData, makeDataMeaning, run, interp, wr, semMakeData, S0, h, Gen.C05.netSrc, Gen.C05.netVer,
      ← wrapHeader_is_frame, netSrcOneWay, netSrcVersion, payload, e]
  · simp [Gen.C05.steps_makeData, makeDataMeaning, run, interp, wr, semMakeData, S0, h, Gen.C05.netSrc, Gen.C05.netVer,
      ← wrapHeader_is_frame, netSrcOneWay, netSrcVersion, payload, e]

def semSecureHeader (src ver : Nat) (pcode oid key : Int) (t : Bytes) : Sem :=
  { S0 with env := fun a => match a with
    | "_L0" => .n src
    | "_L1" => .n ver
    | "_L2" => .i pcode
    | "_L3" => .i oid
    | "_L4" => .i key
    | "_L5" => .raw t
    | _ => .none }

/-- `WriteSecureHeader(src, ver, pcode, oid, key)`: the reference secure frame around the saved content -/
theorem writeSecureHeader_is_reference (src ver : Nat) (pcode oid key : Int) (t : Bytes) :
    run (semSecureHeader src ver pcode oid key t) Gen.C05.steps_WriteSecureHeader = secureFrame src ver pcode oid key t := by
  simp [Gen.C05.steps_WriteSecureHeader, run, interp, wr, semSecureHeader, S0, secureFrame]

/-! ### what a pack carries from one Write to the next (the tie-A half of the re-send clause)

  `C05.resend_frames_are_current_state` says the model's frames depend on the current public state only.  For the
  Go objects to behave like that, a pack must not keep encoded bytes between Writes.  Regenerated from the
  source: the unexported fields of the eight pack structs (and AbstractPack), those among them that could hold
  encoded bytes, the fields assigned inside Write (or a method Write calls on the receiver), and the
  package-level variables Write mentions.  As of today the only state a Write leaves behind is the tag hash of
  the two tag-hash packs — a number, which the model has as an input (`effTagHash`, `send_*_frame_condition`).
  A new cache field, a new assignment in Write or a package-level scratch buffer changes one of these lists. -/

theorem pack_state_unexported_fields :
    Gen.C05.packUnexportedFields = [("AbstractPack", []), ("TagCountPack", [("tagHash", "int64")]), ("LogSinkPack", []),
      ("TextPack", [("records", "[]TextRec")]), ("ParamPack", [("table", "*hmap.StringKeyLinkedMap")]), ("EventPack", []),
      ("ZipPack", []), ("HitMapPack1", []), ("CounterPack1", [])] := by decide

theorem pack_state_no_byte_cache : ∀ e ∈ Gen.C05.packByteHoldingFields, e.2 = [] := by decide

theorem pack_state_assigned_in_write :
    Gen.C05.packAssignedInWrite = [("AbstractPack", []), ("TagCountPack", ["tagHash"]), ("LogSinkPack", ["TagHash"]),
      ("TextPack", []), ("ParamPack", []), ("EventPack", []), ("ZipPack", []), ("HitMapPack1", []), ("CounterPack1", [])] := by
  decide

theorem pack_state_no_package_scratch : ∀ e ∈ Gen.C05.packPkgVarsInWrite, e.2 = [] := by decide

/-! #### the small bodies -/

def semZip (p : Zip) : Sem :=
  { S0 with
    hdr := encHdr p.hdr
    env := fun a => match a with
      | "Status" => .n p.status
      | "RecordCount" => .i p.recordCount
      | "Records" => .b p.records
      | _ => .none }

theorem zip_writer_is_reference (p : Zip) : run (semZip p) Gen.C05.steps_ZipPack = encZip p := by
  simp [Gen.C05.steps_ZipPack, run, interp, wr, semZip, S0, encZip]

/-- tag-count pack.  Trusted in the `then` branch: the side buffer holds what was written to it (the encoded
    tag map) and `tagHash` holds `Hash64` of it after the assignment — the harness compares both on every pack. -/
def semTagCount (p : TagCount) : Sem :=
  { S0 with
    hdr := encHdr p.hdr
    env := fun a => match a with
      | "Category" => .b p.category
      | "tagHash" => .i (effTagHash p.tagHash p.tags)
      | "Tags" => .m p.tags
      | "Data" => .m p.data
      | "$side.ToByteArray()" => .raw (encMap p.tags)
      | _ => .none
    cond := fun c => match c with
      | "this.tagHash == 0 && this.Tags.Size() > 0" => decide (p.tagHash = 0 ∧ p.tags ≠ [])
      | _ => false }

theorem tagcount_writer_is_reference (p : TagCount) :
    run (semTagCount p) Gen.C05.steps_TagCountPack = encTagCount p := by
  by_cases h : p.tagHash = 0 ∧ p.tags ≠ []
  · simp [Gen.C05.steps_TagCountPack, run, interp, wr, wrLit, semTagCount, S0, encTagCount, encTagCountRaw,
      TagCount.norm, h]
  · simp [Gen.C05.steps_TagCountPack, run, interp, wr, wrLit, semTagCount, S0, encTagCount, encTagCountRaw,
      TagCount.norm, h]

def semLogSink (p : LogSink) : Sem :=
  { S0 with
    hdr := encHdr p.hdr
    env := fun a => match a with
      | "Category" => .b p.category
      | "TagHash" => .i (effTagHash p.tagHash p.tags)
      | "Tags" => .m p.tags
      | "ResetTagHash()" => .raw (encMap p.tags)
      | "Line" => .i p.line
      | "Content" => .b p.content
      | "Fields" => .m p.fields
      | _ => .none
    cond := fun c => match c with
      | "this.TagHash == 0 && this.Tags.Size() > 0" => decide (p.tagHash = 0 ∧ p.tags ≠ [])
      | "this.Fields != nil && this.Fields.Size() > 0" => decide (p.fields ≠ [])
      | _ => false }

theorem logsink_writer_is_reference (p : LogSink) :
    run (semLogSink p) Gen.C05.steps_LogSinkPack = encLogSink p := by
  have hf : (if p.fields ≠ [] then [1] ++ encMap p.fields else [0]) = encOptMap p.fields := by
    cases hfs : p.fields <;> simp [encOptMap, optOfMap, encOption]
  by_cases h : p.tagHash = 0 ∧ p.tags ≠ [] <;> by_cases h2 : p.fields = [] <;>
    simp [Gen.C05.steps_LogSinkPack, run, interp, wr, wrLit, semLogSink, S0, encLogSink, encLogSinkRaw,
      LogSink.norm, h, h2, encOptMap, optOfMap, encOption] <;>
    (cases hfs : p.fields <;> simp_all [encOptMap, optOfMap, encOption])

/-- tag-count pack, `then` branch: what goes to the side buffer is the encoded tag map — this is what the main
    stream then receives as `$side.ToByteArray()` — and `tagHash` is assigned `Hash64` of exactly those bytes
    (`hash64_is_reference`: that function is `hash64`).  With this, the two facts `semTagCount` takes about the
    branch are consequences of the regenerated steps, not assumptions. -/
theorem tagcount_side_buffer (p : TagCount) (h : p.tagHash = 0 ∧ p.tags ≠ []) :
    sideOf (semTagCount p) Gen.C05.steps_TagCountPack = encMap p.tags ∧
    (semTagCount p).env "$side.ToByteArray()" = .raw (sideOf (semTagCount p) Gen.C05.steps_TagCountPack) ∧
    Gen.C05.tagCountStores = "hash.Hash64(($side.ToByteArray()))" ∧
    (semTagCount p).env "tagHash" = .i (hash64 (sideOf (semTagCount p) Gen.C05.steps_TagCountPack)) := by
  have e : sideOf (semTagCount p) Gen.C05.steps_TagCountPack = encMap p.tags := by
    simp [Gen.C05.steps_TagCountPack, sideOf, sideI, wr, semTagCount, S0, h]
  refine ⟨e, ?_, by decide, ?_⟩
  · rw [e]; rfl
  · rw [e]; simp [semTagCount, S0, effTagHash, h]

/-- `LogSinkPack.ResetTagHash`: its stream receives the encoded tag map, it stores `Hash64` of that stream in
    `TagHash` and returns the stream — what `LogSinkPack.Write` copies after the hash -/
theorem resetTagHash_is_reference (p : LogSink) :
    run (semLogSink p) Gen.C05.steps_LogSinkPack_ResetTagHash = encMap p.tags ∧
    Gen.C05.resetTagHashReturns = "$.ToByteArray()" ∧
    Gen.C05.resetTagHashStores = "hash.Hash64(($.ToByteArray()))" ∧
    (semLogSink p).env "ResetTagHash()" = .raw (run (semLogSink p) Gen.C05.steps_LogSinkPack_ResetTagHash) := by
  have e : run (semLogSink p) Gen.C05.steps_LogSinkPack_ResetTagHash = encMap p.tags := by
    simp [Gen.C05.steps_LogSinkPack_ResetTagHash, run, interp, wr, semLogSink, S0]
  refine ⟨e, by decide, by decide, ?_⟩
  rw [e]; rfl

def semText (p : TextP) : Sem :=
  { S0 with
    hdr := encHdr p.hdr
    env := fun a => match a with
      | "len(this.records)" => .i p.records.length
      | _ => .none
    coll := fun n => match n with
      | "for _L0 := 0; _L0 < len(this.records); _L0++" => p.records.map (fun r a => match a with
          | "records[_L0].Div" => .n r.div
          | "records[_L0].Hash" => .i r.hash
          | "records[_L0].Text" => .b r.text
          | _ => .none)
      | _ => [] }

theorem text_writer_is_reference (p : TextP) : run (semText p) Gen.C05.steps_TextPack = encTextP p := by
  simp [Gen.C05.steps_TextPack, run, interp, wr, semText, S0, Sem.withElem, encTextP, List.flatMap_map,
    ← flatMap_eq_encMany]
  rfl

def semParam (p : Param) : Sem :=
  { S0 with
    hdr := encHdr p.hdr
    env := fun a => match a with
      | "Id" => .i p.id
      | "Request" => .i p.request
      | "Response" => .i p.response
      | "table.Size()" => .i p.table.length
      | _ => .none
    coll := fun n => match n with
      | "for this.Keys().HasMoreElements()" => p.table.map (fun kv a => match a with
          | "Keys().NextString()" => .b kv.1
          | "table.Get(((this.Keys()).NextString())).(val.Value)" => .v kv.2
          | _ => .none)
      | _ => [] }

theorem param_writer_is_reference (p : Param) : run (semParam p) Gen.C05.steps_ParamPack = encParam p := by
  simp [Gen.C05.steps_ParamPack, run, interp, wr, semParam, S0, Sem.withElem, encParam, List.flatMap_map,
    ← flatMap_eq_encMany]
  rfl

/-- event pack: the `Attr.Put` statements fold uuid / escalation / status / type into the attribute map
    (`event_puts_are_reference`); the count byte and the loop write that map -/
def semEvent (e : Event) : Sem :=
  { S0 with
    hdr := encHdr e.hdr
    env := fun a => match a with
      | "Level" => .n e.level
      | "Title" => .b e.title
      | "Message" => .b e.message
      | "Attr.Size()" => .n (foldAttrs e).length
      | _ => .none
    cond := fun c => match c with
      | "this.Uuid != \"\"" => decide (e.uuid ≠ [])
      | "this.Escalation" => e.escalation
      | _ => false
    coll := fun n => match n with
      | "for _L0 := 0; _L0 < this.Attr.Size(); _L0++" => (foldAttrs e).map (fun kv a => match a with
          | "Attr.Entries().NextElement().(*hmap.StringKeyLinkedEntry).GetKey()" => .b kv.1
          | "Attr.Entries().NextElement().(*hmap.StringKeyLinkedEntry).GetValue().(string)" => .b kv.2
          | _ => .none)
      | _ => [] }

theorem event_writer_is_reference (e : Event) : run (semEvent e) Gen.C05.steps_EventPack = encEvent e := by
  simp [Gen.C05.steps_EventPack, run, interp, wr, semEvent, S0, Sem.withElem, encEvent, encEventWire, Event.toWire,
    List.flatMap_map, ← flatMap_eq_encMany]
  rfl

/-- the key constant a `Put` names, through the extracted constants -/
def putKey (k : String) : Bytes := ascii ((Gen.C05.eventKeys.lookup k).getD "")

/-- the value a `Put` writes -/
def putVal (e : Event) (v : String) : Bytes :=
  match v with
  | "Uuid" => e.uuid
  | "\"true\"" => ascii "true"
  | "\"false\"" => ascii "false"
  | "fmt.Sprintf(\"%d\", this.Status)" => decText e.status
  | "fmt.Sprintf(\"%d\", this.Otype)" => decText e.otype
  | _ => poison

/-- executing the `Attr.Put` statements of `EventPack.Write` in their order (uuid only when set, escalation as
    "true"/"false", status and type as decimal text) on the user's attributes gives exactly the reference's
    folded attribute map — for all events -/
theorem event_puts_are_reference (e : Event) :
    (putsOf (semEvent e) Gen.C05.steps_EventPack).foldl (fun a kv => putAttr a (putKey kv.1) (putVal e kv.2)) e.attr
      = foldAttrs e := by
  have k1 : putKey "UUID_KEY" = keyUuid := by decide
  have k2 : putKey "ESCALATION_KEY" = keyEsca := by decide
  have k3 : putKey "STATUS_KEY" = keyStatus := by decide
  have k4 : putKey "OTYPE_KEY" = keyOtype := by decide
  by_cases hu : e.uuid = [] <;> cases he : e.escalation <;>
    simp [Gen.C05.steps_EventPack, putsOf, semEvent, S0, hu, he, foldAttrs, putVal, k1, k2, k3, k4]

/-- `EventPack.Write` takes out of `Attr` again exactly the keys it puts there (frame condition of a send of an event:
    `C05.send_event_frame_condition`): the keys of its `Put` statements and of its `Remove` statements are the same set -/
theorem event_removes_what_it_puts :
    ∀ k, k ∈ Gen.C05.eventRemovedKeys ↔ k ∈ ["UUID_KEY", "ESCALATION_KEY", "STATUS_KEY", "OTYPE_KEY"] := by
  have h : Gen.C05.eventRemovedKeys = ["UUID_KEY", "ESCALATION_KEY", "STATUS_KEY", "OTYPE_KEY"] := by decide
  intro k; rw [h]

/-- … and those four are the keys of the `Put` statements (whatever the branch conditions) -/
theorem event_put_keys (e : Event) :
    ∀ kv ∈ putsOf (semEvent e) Gen.C05.steps_EventPack, kv.1 ∈ ["UUID_KEY", "ESCALATION_KEY", "STATUS_KEY", "OTYPE_KEY"] := by
  by_cases hu : e.uuid = [] <;> cases he : e.escalation <;>
    simp [Gen.C05.steps_EventPack, putsOf, semEvent, S0, hu, he]

def semHitMap (p : HitMap) : Sem :=
  { S0 with
    hdr := encHdr p.hdr
    coll := fun n => match n with
      | "for _L0 := 0; _L0 < HITMAP_LENGTH; _L0++" =>
        ((p.hit.take Gen.C05.hitmapLength).zip (p.error.take Gen.C05.hitmapLength)).map (fun c a => match a with
          | "Hit[_L0]" => .i c.1
          | "Error[_L0]" => .i c.2
          | _ => .none)
      | _ => [] }

theorem encCells_flatMap (hs es : List Int) :
    encCells hs es = (hs.zip es).flatMap (fun c => encI 2 c.1 ++ encI 2 c.2) := by
  induction hs generalizing es with
  | nil => simp [encCells]
  | cons h hs ih =>
    cases es with
    | nil => simp [encCells]
    | cons e es => simp [encCells, ih es]

theorem hitmap_writer_is_reference (p : HitMap) : run (semHitMap p) Gen.C05.steps_HitMapPack1 = encHitMap p := by
  simp [Gen.C05.steps_HitMapPack1, run, interp, wr, wrLit, semHitMap, S0, Sem.withElem, encHitMap, List.flatMap_map,
    encCells_flatMap, Gen.C05.hitmapLength, hitMapLength]

/-! ### the hash: the loop body of `Hash64` is transcribed and proved to be the reference step -/

theorem hash64_step_is_reference (crc b : Nat) (hc : crc < 18446744073709551616) (hb : b < 256) :
    evalH Gen.C05.hash64Step crc b = ((hash64Step crc b : Nat) : Int) := by
  simp only [Gen.C05.hash64Step, evalH]
  rw [u64_ofNat crc hc, convTo_uint64_ofNat b (by omega), u64_ofNat b (by omega), convTo_uint8_ofNat,
    u64_convTo_uint64, u64_wrap32 _ (crcTable_lt _ (Nat.mod_lt _ (by decide))), u64_ofNat _ (by omega)]
  rfl

theorem goFold_eq (bs : Bytes) (c : Nat) (hc : c < 18446744073709551616) (h : WFB bs) :
    bs.foldl (fun c b => u64 (evalH Gen.C05.hash64Step c b)) c = bs.foldl hash64Step c := by
  induction bs generalizing c with
  | nil => rfl
  | cons b bs ih =>
    have ⟨hb, hbs⟩ := WFB_cons.mp h
    simp only [List.foldl_cons]
    rw [hash64_step_is_reference c b hc hb, u64_ofNat _ (hash64Step_lt c b hc)]
    exact ih _ (hash64Step_lt c b hc) hbs

/-- the transcribed function — initial register, transcribed step over all bytes from first to last,
    transcribed final expression, return conversion — is the reference `hash64` -/
theorem hash64_is_reference (bs : Bytes) (h : WFB bs) :
    goHash64 Gen.C05.hash64Init Gen.C05.hash64Step Gen.C05.hash64Final Gen.C05.hash64Ret bs = hash64 bs := by
  unfold goHash64
  rw [goFold_eq bs _ (by decide) h]
  have hf := foldl_hash64Step_lt bs Gen.C05.hash64Init (by decide)
  simp only [Gen.C05.hash64Final, evalH, Gen.C05.hash64Ret]
  rw [u64_ofNat _ hf, u64_ofNat _ (by decide)]
  have hx : (List.foldl hash64Step Gen.C05.hash64Init bs ^^^ 18446744073709551615) < 18446744073709551616 :=
    Nat.xor_lt_two_pow (n := 64) hf (by decide)
  rw [convTo_int64_ofNat _ hx]
  rfl

/-- the loop visits every byte once, first to last (`for i := 0; i < len(bytes); i++`, element `bytes[i]`) -/
theorem hash64_loop_shape :
    Gen.C05.hash64Shape = ["sz := len(bytes)", "for i := 0; i < sz; i++", "elem bytes[i]"] := by decide

/-- `Hash64Str(s)` is `Hash64` of the bytes of `s` -/
theorem hash64Str_is_hash64_of_bytes : Gen.C05.hash64StrBody = "Hash64([]byte(_L0))" := by decide

example : goHash64 Gen.C05.hash64Init Gen.C05.hash64Step Gen.C05.hash64Final Gen.C05.hash64Ret (ascii "abcdefg")
    = 3463164852 := by decide +kernel
/-! ### the send routes (queue mode): every statement of `Send` / `SendFlush`, interpreted (Golib.Wire.Route) -/

/-- **`SendFlush` in queue mode only enqueues** — for every client state, caller object and per-send license the
    regenerated statements of `SendFlush` mean the model's `send` step: a `TcpSend` carrying the caller's pack
    pointer, flush flag and options goes on the client's queue; there is no other statement (no call on the pack,
    no assignment through it): the pack reaches `makeData` as the caller handed it over. -/
theorem sendFlush_queue_branch_only_enqueues {σ : Type} (enc : Bytes → σ → Bytes) (after : σ → σ)
    (c : Queue.Client σ) (ref : Nat) (lic : Bytes) :
    sendFlushMeaning enc after true ref lic c Gen.C05.route_SendFlush = .enqueued (Queue.step enc after c (.send ref lic)) := by
  simp [Gen.C05.route_SendFlush, sendFlushMeaning, fieldOf]

/-- … and otherwise hands the same pack and the same options to `sendDirect` -/
theorem sendFlush_direct_branch {σ : Type} (enc : Bytes → σ → Bytes) (after : σ → σ)
    (c : Queue.Client σ) (ref : Nat) (lic : Bytes) :
    sendFlushMeaning enc after false ref lic c Gen.C05.route_SendFlush = .direct "_L1" "_L3..." := by
  simp [Gen.C05.route_SendFlush, sendFlushMeaning]

/-- `Send(p, opts...)` is `SendFlush(p, false, opts...)` -/
theorem send_is_sendFlush :
    (delegateMeaning Gen.C05.route_Send : RouteOutcome Unit) = .delegated "_L0.SendFlush" ["_L1", "false", "_L2..."] := by
  simp [Gen.C05.route_Send, delegateMeaning]

example : (sendFlushMeaning (fun _ (_ : Nat) => []) id true 3 [97] (Queue.Client.fresh [] (fun _ => 0)) Gen.C05.route_SendFlush
    matches .enqueued ⟨[], _, [⟨3, [97]⟩], []⟩) = true := by
  simp [Gen.C05.route_SendFlush, sendFlushMeaning, fieldOf, Queue.step, Queue.Client.fresh]
end C05Gen
