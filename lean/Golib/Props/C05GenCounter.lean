/-
  C05, tie A (continued) — the counter pack: its helper methods, the sections of its body and the whole
  `CounterPack1.Write`, as regenerated steps (lean/Golib/Gen/C05.lean) proved equal to the reference encoder
  for all field values.  Split from C05Gen.lean only to keep each module's build time short.
-/
import Golib.Props.C05Gen

set_option linter.unusedSimpArgs false

namespace C05Gen
open Wire Prim

/-! #### counter pack: helpers, sections, body -/

/-- `IntIntMap.ToBytes`: decimal count, then (decimal key, decimal value) per entry in the map's own order -/
def semIntIntMap (kvs : List (Int × Int)) : Sem :=
  { S0 with
    env := fun a => match a with
      | "Size()" => .i kvs.length
      | _ => .none
    coll := fun n => match n with
      | "for this.Entries().HasMoreElements()" => kvs.map (fun kv a => match a with
          | "Entries().NextElement().(*IntIntEntry).GetKey()" => .i kv.1
          | "Entries().NextElement().(*IntIntEntry).GetValue()" => .i kv.2
          | _ => .none)
      | _ => [] }

theorem intIntMap_ToBytes_is_reference (kvs : List (Int × Int)) :
    run (semIntIntMap kvs) Gen.C05.steps_IntIntMap_ToBytes = wr "ToBytes" (.ii kvs) := by
  simp [Gen.C05.steps_IntIntMap_ToBytes, run, interp, wr, semIntIntMap, S0, Sem.withElem, encCounted, List.flatMap_map,
    ← flatMap_eq_encMany]
  rfl

/-- `writeShortArray(out, v)`: one-byte count then the shorts; a nil slice is the single byte 0 -/
def semShortArray (xs : List Int) (isNil : Bool) : Sem :=
  { S0 with
    env := fun a => match a with
      | "len(_L0)" => .n xs.length
      | _ => .none
    cond := fun c => match c with
      | "_L0 == nil" => isNil
      | _ => false
    coll := fun n => match n with
      | "for _L1 := 0; _L1 < len(_L0); _L1++" => xs.map (fun x a => match a with
          | "_L0[_L1]" => .i x
          | _ => .none)
      | _ => [] }

theorem writeShortArray_is_reference (xs : List Int) (isNil : Bool) (h : isNil = true → xs = []) :
    run (semShortArray xs isNil) Gen.C05.steps_CounterPack1_writeShortArray = encShorts8 xs := by
  cases isNil with
  | true =>
    rw [h rfl]
    simp [Gen.C05.steps_CounterPack1_writeShortArray, run, interp, wrLit, semShortArray, S0, encShorts8, encMany]
  | false =>
    simp [Gen.C05.steps_CounterPack1_writeShortArray, run, interp, wr, semShortArray, S0, Sem.withElem, encShorts8,
      List.flatMap_map, ← flatMap_eq_encMany]

def oidEnv (e : OidEntry) : String → FV := fun a =>
  match a with
  | "TxcallerOidMeter.Entries().NextElement().(*hmap.IntKeyLinkedEntry).GetKey()" => .i e.key
  | "TxcallerOidMeter.Entries().NextElement().(*hmap.IntKeyLinkedEntry).GetValue().(*TxMeter).Time" => .i e.time
  | "TxcallerOidMeter.Entries().NextElement().(*hmap.IntKeyLinkedEntry).GetValue().(*TxMeter).Count" => .i e.count
  | "TxcallerOidMeter.Entries().NextElement().(*hmap.IntKeyLinkedEntry).GetValue().(*TxMeter).Error" => .i e.error
  | "TxcallerOidMeter.Entries().NextElement().(*hmap.IntKeyLinkedEntry).GetValue().(*TxMeter).Actx" => .i e.actx
  | _ => .none

def sqlEnv (e : SqlEntry) : String → FV := fun a =>
  match a with
  | "SqlMeter.Entries().NextElement().(*hmap.IntKeyLinkedEntry).GetKey()" => .i e.key
  | "SqlMeter.Entries().NextElement().(*hmap.IntKeyLinkedEntry).GetValue().(*SqlMeter).Time" => .i e.time
  | "SqlMeter.Entries().NextElement().(*hmap.IntKeyLinkedEntry).GetValue().(*SqlMeter).Count" => .i e.count
  | "SqlMeter.Entries().NextElement().(*hmap.IntKeyLinkedEntry).GetValue().(*SqlMeter).Error" => .i e.error
  | "SqlMeter.Entries().NextElement().(*hmap.IntKeyLinkedEntry).GetValue().(*SqlMeter).Actx" => .i e.actx
  | "SqlMeter.Entries().NextElement().(*hmap.IntKeyLinkedEntry).GetValue().(*SqlMeter).FetchCount" => .i e.fetchCount
  | "SqlMeter.Entries().NextElement().(*hmap.IntKeyLinkedEntry).GetValue().(*SqlMeter).FetchTime" => .i e.fetchTime
  | _ => .none

def httpcEnv (e : OidEntry) : String → FV := fun a =>
  match a with
  | "HttpcMeter.Entries().NextElement().(*hmap.IntKeyLinkedEntry).GetKey()" => .i e.key
  | "HttpcMeter.Entries().NextElement().(*hmap.IntKeyLinkedEntry).GetValue().(*HttpcMeter).Time" => .i e.time
  | "HttpcMeter.Entries().NextElement().(*hmap.IntKeyLinkedEntry).GetValue().(*HttpcMeter).Count" => .i e.count
  | "HttpcMeter.Entries().NextElement().(*hmap.IntKeyLinkedEntry).GetValue().(*HttpcMeter).Error" => .i e.error
  | "HttpcMeter.Entries().NextElement().(*hmap.IntKeyLinkedEntry).GetValue().(*HttpcMeter).Actx" => .i e.actx
  | _ => .none

def groupEnv (e : GroupEntry) : String → FV := fun a =>
  match a with
  | "TxcallerGroupMeter.Entries().NextElement().(*hmap.LinkedEntry).GetKey().(*lang.PKIND).PCode" => .i e.pcode
  | "TxcallerGroupMeter.Entries().NextElement().(*hmap.LinkedEntry).GetKey().(*lang.PKIND).OKind" => .i e.okind
  | "TxcallerGroupMeter.Entries().NextElement().(*hmap.LinkedEntry).GetValue().(*TxMeter).Time" => .i e.time
  | "TxcallerGroupMeter.Entries().NextElement().(*hmap.LinkedEntry).GetValue().(*TxMeter).Count" => .i e.count
  | "TxcallerGroupMeter.Entries().NextElement().(*hmap.LinkedEntry).GetValue().(*TxMeter).Error" => .i e.error
  | "TxcallerGroupMeter.Entries().NextElement().(*hmap.LinkedEntry).GetValue().(*TxMeter).Actx" => .i e.actx
  | _ => .none

def poidEnv (e : PoidEntry) : String → FV := fun a =>
  match a with
  | "TxcallerPOidMeter.Entries().NextElement().(*hmap.LinkedEntry).GetKey().(*lang.POID).PCode" => .i e.pcode
  | "TxcallerPOidMeter.Entries().NextElement().(*hmap.LinkedEntry).GetKey().(*lang.POID).Oid" => .i e.oid
  | "TxcallerPOidMeter.Entries().NextElement().(*hmap.LinkedEntry).GetValue().(*TxMeter).Time" => .i e.time
  | "TxcallerPOidMeter.Entries().NextElement().(*hmap.LinkedEntry).GetValue().(*TxMeter).Count" => .i e.count
  | "TxcallerPOidMeter.Entries().NextElement().(*hmap.LinkedEntry).GetValue().(*TxMeter).Error" => .i e.error
  | "TxcallerPOidMeter.Entries().NextElement().(*hmap.LinkedEntry).GetValue().(*TxMeter).Acts" => .is e.acts
  | "TxcallerPOidMeter.Entries().NextElement().(*hmap.LinkedEntry).GetValue().(*TxMeter).Actx" => .i e.actx
  | _ => .none

/-- what the Go expressions of the counter pack's helper methods hold, in terms of the reference's pack;
    `poidNil` = "the (project, object) meter map is nil" (nil and empty coincide on the wire) -/
def semMeters (p : Counter) (poidNil : Bool) : Sem :=
  { S0 with
    env := fun a => match a with
      | "TxcallerOidMeter.Size()" => .i (p.oidMeter.getD []).length
      | "SqlMeter.Size()" => .i (p.sqlMeter.getD []).length
      | "HttpcMeter.Size()" => .i (p.httpcMeter.getD []).length
      | "TxcallerGroupMeter.Size()" => .i (p.groupMeter.getD []).length
      | "TxcallerPOidMeter.Size()" => .i p.poidMeter.length
      | "TxcallerUnknown.Time" => .i ((p.unknown.map (·.time)).getD 0)
      | "TxcallerUnknown.Count" => .i ((p.unknown.map (·.count)).getD 0)
      | "TxcallerUnknown.Error" => .i ((p.unknown.map (·.error)).getD 0)
      | "TxcallerUnknown.Actx" => .i ((p.unknown.map (·.actx)).getD 0)
      | _ => .none
    cond := fun c => match c with
      | "this.TxcallerOidMeter == nil" => p.oidMeter.isNone
      | "this.SqlMeter == nil" => p.sqlMeter.isNone
      | "this.HttpcMeter == nil" => p.httpcMeter.isNone
      | "this.TxcallerGroupMeter == nil" => p.groupMeter.isNone
      | "this.TxcallerPOidMeter == nil" => poidNil
      | "this.TxcallerUnknown != nil" => p.unknown.isSome
      | _ => false
    coll := fun n => match n with
      | "for this.TxcallerOidMeter.Entries().HasMoreElements()" => (p.oidMeter.getD []).map oidEnv
      | "for this.SqlMeter.Entries().HasMoreElements()" => (p.sqlMeter.getD []).map sqlEnv
      | "for this.HttpcMeter.Entries().HasMoreElements()" => (p.httpcMeter.getD []).map httpcEnv
      | "for this.TxcallerGroupMeter.Entries().HasMoreElements()" => (p.groupMeter.getD []).map groupEnv
      | "for this.TxcallerPOidMeter.Entries().HasMoreElements()" => p.poidMeter.map poidEnv
      | _ => [] }

theorem oidMeter_is_reference (p : Counter) (b : Bool) :
    run (semMeters p b) Gen.C05.steps_CounterPack1_writeTxcallerOidMeter
      = encOption 9 (encCounted encOidEntry) p.oidMeter := by
  cases h : p.oidMeter with
  | none => simp [Gen.C05.steps_CounterPack1_writeTxcallerOidMeter, run, interp, wrLit, semMeters, S0, h, encOption]; decide
  | some xs =>
    simp [Gen.C05.steps_CounterPack1_writeTxcallerOidMeter, run, interp, wr, wrLit, semMeters, S0, Sem.withElem, h, encOption,
      encCounted, List.flatMap_map, ← flatMap_eq_encMany, oidEnv]
    rfl

theorem sqlMeter_is_reference (p : Counter) (b : Bool) :
    run (semMeters p b) Gen.C05.steps_CounterPack1_writeSqlMeter
      = encOption 9 (encCounted encSqlEntry) p.sqlMeter := by
  cases h : p.sqlMeter with
  | none => simp [Gen.C05.steps_CounterPack1_writeSqlMeter, run, interp, wrLit, semMeters, S0, h, encOption]; decide
  | some xs =>
    simp [Gen.C05.steps_CounterPack1_writeSqlMeter, run, interp, wr, wrLit, semMeters, S0, Sem.withElem, h, encOption,
      encCounted, List.flatMap_map, ← flatMap_eq_encMany, sqlEnv]
    rfl

theorem httpcMeter_is_reference (p : Counter) (b : Bool) :
    run (semMeters p b) Gen.C05.steps_CounterPack1_writeHttpcMeter
      = encOption 9 (encCounted encOidEntry) p.httpcMeter := by
  cases h : p.httpcMeter with
  | none => simp [Gen.C05.steps_CounterPack1_writeHttpcMeter, run, interp, wrLit, semMeters, S0, h, encOption]; decide
  | some xs =>
    simp [Gen.C05.steps_CounterPack1_writeHttpcMeter, run, interp, wr, wrLit, semMeters, S0, Sem.withElem, h, encOption,
      encCounted, List.flatMap_map, ← flatMap_eq_encMany, httpcEnv]
    rfl

theorem groupMeter_is_reference (p : Counter) (b : Bool) :
    run (semMeters p b) Gen.C05.steps_CounterPack1_writeTxcallerGroupMeter
      = encOption 9 (encCounted encGroupEntry) p.groupMeter := by
  cases h : p.groupMeter with
  | none => simp [Gen.C05.steps_CounterPack1_writeTxcallerGroupMeter, run, interp, wrLit, semMeters, S0, h, encOption]; decide
  | some xs =>
    simp [Gen.C05.steps_CounterPack1_writeTxcallerGroupMeter, run, interp, wr, wrLit, semMeters, S0, Sem.withElem, h, encOption,
      encCounted, List.flatMap_map, ← flatMap_eq_encMany, groupEnv]
    rfl

theorem unknownMeter_is_reference (p : Counter) (b : Bool) :
    run (semMeters p b) Gen.C05.steps_CounterPack1_writeTxcallerOther = encOption 2 encUnknown p.unknown := by
  cases h : p.unknown with
  | none => simp [Gen.C05.steps_CounterPack1_writeTxcallerOther, run, interp, wrLit, semMeters, S0, h, encOption]
  | some u =>
    simp [Gen.C05.steps_CounterPack1_writeTxcallerOther, run, interp, wr, wrLit, semMeters, S0, h, encOption, encUnknown]

/-- the (project, object) meter (D27): decimal count, then per entry pcode, oid, time, count, error,
    the active-slice array, actx -/
theorem poidMeter_is_reference (p : Counter) (b : Bool) (hb : b = true → p.poidMeter = []) :
    run (semMeters p b) Gen.C05.steps_CounterPack1_writeTxcallerPOidMeter = encCounted encPoidEntry p.poidMeter := by
  cases b with
  | true =>
    rw [hb rfl]
    simp [Gen.C05.steps_CounterPack1_writeTxcallerPOidMeter, run, interp, wrLit, semMeters, S0, encCounted, encMany]
  | false =>
    simp [Gen.C05.steps_CounterPack1_writeTxcallerPOidMeter, run, interp, wr, semMeters, S0, Sem.withElem,
      encCounted, List.flatMap_map, ← flatMap_eq_encMany, poidEnv]
    rfl

/-- what the Go expressions of `CounterPack1.Write` hold; a helper call means the helper's own regenerated steps -/
def semCounter (p : Counter) (poidNil : Bool) : Sem where
  hdr := encHdr p.hdr
  env a := match a with
    | "Duration" => .i p.duration
    | "Cputime" => .i p.cputime
    | "HeapTot" => .i p.heapTot
    | "HeapUse" => .i p.heapUse
    | "HeapPerm" => .i p.heapPerm
    | "HeapPendingFinalization" => .i p.heapPendingFinalization
    | "GcCount" => .i p.gcCount
    | "GcTime" => .i p.gcTime
    | "ServiceCount" => .i p.serviceCount
    | "ServiceError" => .i p.serviceError
    | "ServiceTime" => .i p.serviceTime
    | "SqlCount" => .i p.sqlCount
    | "SqlError" => .i p.sqlError
    | "SqlTime" => .i p.sqlTime
    | "SqlFetchCount" => .i p.sqlFetchCount
    | "SqlFetchTime" => .i p.sqlFetchTime
    | "HttpcCount" => .i p.httpcCount
    | "HttpcError" => .i p.httpcError
    | "HttpcTime" => .i p.httpcTime
    | "ActSvcCount" => .i p.actSvcCount
    | "ActSvcSlice" => .is p.actSvcSlice
    | "Cpu" => .n p.cpu
    | "CpuSys" => .n p.cpuSys
    | "CpuUsr" => .n p.cpuUsr
    | "CpuWait" => .n p.cpuWait
    | "CpuSteal" => .n p.cpuSteal
    | "CpuIrq" => .n p.cpuIrq
    | "CpuProc" => .n p.cpuProc
    | "CpuCores" => .i p.cpuCores
    | "Mem" => .n p.mem
    | "Swap" => .n p.swap
    | "Disk" => .n p.disk
    | "ThreadTotalStarted" => .i p.threadTotalStarted
    | "ThreadCount" => .i p.threadCount
    | "ThreadDaemon" => .i p.threadDaemon
    | "ThreadPeakCount" => .i p.threadPeakCount
    | "ProcFd" => .i p.procFd
    | "Tps" => .n p.tps
    | "RespTime" => .i p.respTime
    | "ApType" => .i p.apType
    | "Starttime" => .i p.starttime
    | "PackDropped" => .i p.packDropped
    | "HostIp" => .i p.hostIp
    | "MacHash" => .i p.macHash
    | "Pid" => .i p.pid
    | "ThreadPoolActiveCount" => .i p.threadPoolActiveCount
    | "ThreadPoolQueueSize" => .i p.threadPoolQueueSize
    | "ContainerKey" => .i p.containerKey
    | "TxDbcTime" => .n p.txDbcTime
    | "TxSqlTime" => .n p.txSqlTime
    | "TxHttpcTime" => .n p.txHttpcTime
    | "ApdexSatisfied" => .i p.apdexSatisfied
    | "ApdexTolerated" => .i p.apdexTolerated
    | "ArrivalRate" => .n p.arrivalRate
    | "GcOldgenCount" => .i p.gcOldgenCount
    | "Version" => .n p.version
    | "HeapMax" => .i p.heapMax
    | "ProcFdMax" => .i p.procFdMax
    | "Metering" => .n p.metering
    | "ApdexTotal" => .i p.apdexTotal
    | "Resp90" => .i p.resp90
    | "Resp95" => .i p.resp95
    | "TimeSqrSum" => .i p.timeSqrSum
    | "DbNumActive" => .ii ((p.dbPool.map (·.active)).getD [])
    | "DbNumIdle" => .ii ((p.dbPool.map (·.idle)).getD [])
    | "Netstat.Est" => .i ((p.netstat.map (·.est)).getD 0)
    | "Netstat.FinW" => .i ((p.netstat.map (·.finW)).getD 0)
    | "Netstat.CloW" => .i ((p.netstat.map (·.cloW)).getD 0)
    | "Netstat.TimW" => .i ((p.netstat.map (·.timW)).getD 0)
    | "Websocket.Count" => .i ((p.websocket.map (·.count)).getD 0)
    | "Websocket.In" => .i ((p.websocket.map (·.inBytes)).getD 0)
    | "Websocket.Out" => .i ((p.websocket.map (·.outBytes)).getD 0)
    | "Extra" => .im (p.extra.getD [])
    | "_L0" => .n p.activeStat.length
    | _ => .none
  cond c := match c with
    | "this.DbNumActive == nil || this.DbNumIdle == nil" => p.dbPool.isNone
    | "this.Netstat == nil" => p.netstat.isNone
    | "this.Websocket == nil" => p.websocket.isNone
    | "this.Extra == nil" => p.extra.isNone
    | _ => false
  coll n := match n with
    | "for _L1 := 0; _L1 < _L0; _L1++" => p.activeStat.map (fun x a => match a with
        | "ActiveStat[_L1]" => .i x
        | _ => .none)
    | _ => []
  call n := match n with
    | "writeTxcallerOidMeter" => run (semMeters p poidNil) Gen.C05.steps_CounterPack1_writeTxcallerOidMeter
    | "writeSqlMeter" => run (semMeters p poidNil) Gen.C05.steps_CounterPack1_writeSqlMeter
    | "writeHttpcMeter" => run (semMeters p poidNil) Gen.C05.steps_CounterPack1_writeHttpcMeter
    | "writeTxcallerGroupMeter" => run (semMeters p poidNil) Gen.C05.steps_CounterPack1_writeTxcallerGroupMeter
    | "writeTxcallerOther" => run (semMeters p poidNil) Gen.C05.steps_CounterPack1_writeTxcallerOther
    | "writeTxcallerPOidMeter" => run (semMeters p poidNil) Gen.C05.steps_CounterPack1_writeTxcallerPOidMeter
    | _ => poison

/-! the body of `CounterPack1.Write`, part by part (every if / for statement is a part of its own) -/

theorem counter_p0 (p : Counter) (b : Bool) :
    run (semCounter p b) Gen.C05.steps_CounterPack1_p0 = List.flatten [
      encDecimal p.duration, encDecimal p.cputime, encDecimal p.heapTot, encDecimal p.heapUse, encDecimal p.heapPerm,
      encDecimal p.heapPendingFinalization, encDecimal p.gcCount, encDecimal p.gcTime, encDecimal p.serviceCount,
      encDecimal p.serviceError, encDecimal p.serviceTime, encDecimal p.sqlCount, encDecimal p.sqlError,
      encDecimal p.sqlTime, encDecimal p.sqlFetchCount, encDecimal p.sqlFetchTime, encDecimal p.httpcCount,
      encDecimal p.httpcError, encDecimal p.httpcTime, encDecimal p.actSvcCount] := by
  simp [Gen.C05.steps_CounterPack1_p0, run, interp, wr, semCounter]

theorem counter_p1 (p : Counter) (b : Bool) :
    run (semCounter p b) Gen.C05.steps_CounterPack1_p1 = List.flatten [
      encShorts8 p.actSvcSlice, beN 4 p.cpu, beN 4 p.cpuSys, beN 4 p.cpuUsr, beN 4 p.cpuWait, beN 4 p.cpuSteal,
      beN 4 p.cpuIrq, beN 4 p.cpuProc, encDecimal p.cpuCores, beN 4 p.mem, beN 4 p.swap, beN 4 p.disk,
      encDecimal p.threadTotalStarted, encDecimal p.threadCount, encDecimal p.threadDaemon,
      encDecimal p.threadPeakCount] := by
  simp [Gen.C05.steps_CounterPack1_p1, run, interp, wr, semCounter]

theorem counter_p2 (p : Counter) (b : Bool) :
    run (semCounter p b) Gen.C05.steps_CounterPack1_p2 = encOption 1 encDbPool p.dbPool := by
  cases h : p.dbPool <;>
    simp [Gen.C05.steps_CounterPack1_p2, run, interp, wr, wrLit, semCounter, h, encOption, encDbPool]

theorem counter_p3 (p : Counter) (b : Bool) :
    run (semCounter p b) Gen.C05.steps_CounterPack1_p3 = encOption 1 encNetStat p.netstat := by
  cases h : p.netstat <;>
    simp [Gen.C05.steps_CounterPack1_p3, run, interp, wr, wrLit, semCounter, h, encOption, encNetStat]

theorem counter_p4 (p : Counter) (b : Bool) :
    run (semCounter p b) Gen.C05.steps_CounterPack1_p4
      = encDecimal p.procFd ++ (beN 4 p.tps ++ (encDecimal p.respTime ++ encI 2 p.apType)) := by
  simp [Gen.C05.steps_CounterPack1_p4, run, interp, wr, semCounter]

theorem counter_p5 (p : Counter) (b : Bool) :
    run (semCounter p b) Gen.C05.steps_CounterPack1_p5 = encOption 1 encWebSocket p.websocket := by
  cases h : p.websocket <;>
    simp [Gen.C05.steps_CounterPack1_p5, run, interp, wr, wrLit, semCounter, h, encOption, encWebSocket]

theorem counter_p6 (p : Counter) (b : Bool) :
    run (semCounter p b) Gen.C05.steps_CounterPack1_p6
      = encDecimal p.starttime ++ (encDecimal p.packDropped ++ (encDecimal p.hostIp ++ encDecimal p.macHash)) := by
  simp [Gen.C05.steps_CounterPack1_p6, run, interp, wr, semCounter]

theorem counter_p7 (p : Counter) (b : Bool) :
    run (semCounter p b) Gen.C05.steps_CounterPack1_p7 = encOption 1 encIntMap p.extra := by
  cases h : p.extra <;>
    simp [Gen.C05.steps_CounterPack1_p7, run, interp, wr, wrLit, semCounter, h, encOption]

/-- pid, then the active-stat array written inline: count byte (part 8) and the shorts (part 9) -/
theorem counter_p8_p9 (p : Counter) (b : Bool) :
    run (semCounter p b) Gen.C05.steps_CounterPack1_p8 ++ run (semCounter p b) Gen.C05.steps_CounterPack1_p9
      = encI 4 p.pid ++ encShorts8 p.activeStat := by
  simp [Gen.C05.steps_CounterPack1_p8, Gen.C05.steps_CounterPack1_p9, run, interp, wr, semCounter, Sem.withElem,
    encShorts8, List.flatMap_map, ← flatMap_eq_encMany]

theorem counter_p10 (p : Counter) (b : Bool) :
    run (semCounter p b) Gen.C05.steps_CounterPack1_p10 = List.flatten [
      encDecimal p.threadPoolActiveCount, encDecimal p.threadPoolQueueSize,
      encOption 9 (encCounted encOidEntry) p.oidMeter, encOption 9 (encCounted encSqlEntry) p.sqlMeter,
      encOption 9 (encCounted encOidEntry) p.httpcMeter, encOption 9 (encCounted encGroupEntry) p.groupMeter,
      [0], encOption 2 encUnknown p.unknown,
      encDecimal p.containerKey, beN 4 p.txDbcTime, beN 4 p.txSqlTime, beN 4 p.txHttpcTime,
      encDecimal p.apdexSatisfied, encDecimal p.apdexTolerated, beN 4 p.arrivalRate, encDecimal p.gcOldgenCount,
      [p.version % 256], encDecimal p.heapMax, encDecimal p.procFdMax, beN 4 p.metering] := by
  have z : encDecimal ((0 : Nat) : Int) = [0] := by decide
  have z' : encDecimal 0 = [0] := by decide
  simp [z', Gen.C05.steps_CounterPack1_p10, run, interp, wr, wrLit, semCounter, oidMeter_is_reference, sqlMeter_is_reference,
    httpcMeter_is_reference, groupMeter_is_reference, unknownMeter_is_reference, z]

theorem counter_p11 (p : Counter) (b : Bool) (hb : b = true → p.poidMeter = []) :
    run (semCounter p b) Gen.C05.steps_CounterPack1_p11 = List.flatten [
      encDecimal p.apdexTotal, encCounted encPoidEntry p.poidMeter, encDecimal p.resp90, encDecimal p.resp95,
      encDecimal p.timeSqrSum] := by
  simp [Gen.C05.steps_CounterPack1_p11, run, interp, wr, semCounter, poidMeter_is_reference p b hb]

/-- **the counter pack writer is the reference encoder, for all field values**: header on the outer stream,
    then ONE blob whose content is the twelve parts in order — 60-odd scalar fields with the method and at the
    position the reference has them, the four optional sections with their presence bytes and inner order, the
    inline active-stat array, the six meters (helpers interpreted from their own regenerated steps), the
    reserved zero count -/
theorem counter_writer_is_reference (p : Counter) (b : Bool) (hb : b = true → p.poidMeter = []) :
    Gen.C05.steps_CounterPack1 = .hdr :: (Gen.C05.steps_CounterPack1_body ++ [.blobWrap]) ∧
    (semCounter p b).hdr ++ encBlob (run (semCounter p b) Gen.C05.steps_CounterPack1_body) = encCounter p := by
  refine ⟨rfl, ?_⟩
  have h89 : ∀ rest : Bytes, run (semCounter p b) Gen.C05.steps_CounterPack1_p8 ++
      (run (semCounter p b) Gen.C05.steps_CounterPack1_p9 ++ rest) = encI 4 p.pid ++ (encShorts8 p.activeStat ++ rest) := by
    intro rest
    rw [← List.append_assoc, counter_p8_p9 p b, List.append_assoc]
  simp only [Gen.C05.steps_CounterPack1_body, run_append, List.append_assoc, h89, counter_p0, counter_p1, counter_p2,
    counter_p3, counter_p4, counter_p5, counter_p6, counter_p7, counter_p10, counter_p11 p b hb]
  simp [encCounter, encCounterBody, semCounter]


end C05Gen
