/-
  Property C03 — every pack type survives serialize/deserialize with all carried fields intact.

  Statements only; the proofs are references to Golib/Layout/*.lean and Golib/Packs/*.lean.

  Shape of the argument.  A pack body is a *layout* (Golib.Layout.IR): the writer body and the
  reader body are transcribed separately from the Go source on every run (xlate/c03 →
  Gen/PackLayouts.lean); `agrees w r` is decided by evaluation for every pack type
  (Props/C03Gen.lean); `pack_roundtrip` (below, proved once by induction on the layouts) turns
  each such fact into the round trip of that type for *all* field values, both header forms, any
  continuation of the input.  The tagged value codec inside map-valued fields is property C02: its
  theorem `Value.decode_encV` is plugged in (`Layout.valueRT`), so the statements below carry no
  hypothesis about values beyond well-formedness (`Value.WFV`, inside `L.WF`).
  gzip is abstract (`Packs.Gzip`: unzip ∘ zip = id).
-/
import Golib.Layout.Agree
import Golib.Layout.Reencode
import Golib.Layout.ValueInst
import Golib.Layout.Prefix
import Golib.Layout.History
import Golib.Layout.HeaderProg
import Golib.Packs.Profile
import Golib.Packs.Caps
import Golib.Packs.Container
import Golib.Packs.Tree
import Golib.Packs.Hand
import Golib.Packs.Counter
import Golib.Packs.Event

namespace C03
open Layout _root_.Prim Packs

/-! ### the common header -/

/-- both header forms decode to the header written, leaving exactly what followed -/
theorem header_roundtrip (h : Hdr) (r : Bytes) (wf : h.WF) :
    P.run decHeader (encHeader h ++ r) = some (h, r) := Layout.header_roundtrip h r wf

/-- the long form (marker byte 9, kind and node carried) is chosen iff Okind or Onode is non-zero -/
theorem header_form (h : Hdr) : (encHeader h).headD 0 = 9 ↔ (h.okind = 0 ∧ h.onode = 0 → False) := by
  rw [Layout.header_form h]
  simp [Hdr.short]

theorem header_short (h : Hdr) (h0 : h.okind = 0) (h1 : h.onode = 0) :
    encHeader h = encDecimal h.pcode ++ (encI 4 h.oid ++ encI 8 h.time) := by
  simp [encHeader, Hdr.short, h0, h1]

theorem header_long (h : Hdr) (hk : ¬ (h.okind = 0 ∧ h.onode = 0)) :
    encHeader h = 9 :: (encDecimal h.pcode ++ (encI 4 h.oid ++ (encI 4 h.okind ++ (encI 4 h.onode ++ encI 8 h.time)))) := by
  have : h.short = false := by
    simp only [Hdr.short, Bool.and_eq_false_iff, beq_eq_false_iff_ne]
    by_cases a : h.okind = 0
    · right; intro b; exact hk ⟨a, b⟩
    · left; exact a
  simp [encHeader, this]

/-! ### the header's public accessors (Pack interface) and a header received by a USED object -/

/-- **populated through the public setters, observed through the public getters**: whatever the object
    held, after `SetPCODE p; SetOID o; SetOKIND k; SetONODE n; SetTime t` a write/read trip delivers exactly
    those five values (either header form), and `GetPCODE` / `GetTime` of the decoded header return `p` / `t` -/
theorem header_setters_roundtrip (h : Hdr) (p o k n t : Int) (r : Bytes) (wf : (⟨p, o, k, n, t⟩ : Hdr).WF) :
    let h' := ((((h.setPCODE p).setOID o).setOKIND k).setONODE n).setTime t
    P.run decHeader (encHeader h' ++ r) = some (⟨p, o, k, n, t⟩, r) ∧ h'.getPCODE = p ∧ h'.getTime = t :=
  ⟨Layout.header_roundtrip ⟨p, o, k, n, t⟩ r wf, rfl, rfl⟩

/-- each setter changes its own field only (frame condition) -/
theorem header_setter_frame (h : Hdr) (v : Int) :
    (h.setOID v) = { h with oid := v } ∧ (h.setPCODE v) = { h with pcode := v } ∧
    (h.setOKIND v) = { h with okind := v } ∧ (h.setONODE v) = { h with onode := v } ∧
    (h.setTime v) = { h with time := v } := ⟨rfl, rfl, rfl, rfl, rfl⟩

/-- **a header decoded INTO AN OBJECT THAT ALREADY HOLDS `h0`** (re-use of a pack object, `p.Read(in)` twice):
    the long form replaces all five fields; the short form (Okind = Onode = 0 on the writer's side) assigns
    Pcode, Oid and Time and leaves the object's Okind / Onode as they were — so the decoded header equals
    the one written iff the form was long or the object held zeros there (`header_into_used_eq`).  This is
    the behaviour of the code (`AbstractPack.Read` returns early); `C03Gen.header_reader_interpreted` ties
    `decHeaderInto` to the transcribed statements for every `h0`. -/
theorem header_into_used (h0 h : Hdr) (r : Bytes) (wf : h.WF) :
    P.run (decHeaderInto h0) (encHeader h ++ r) = some (h0.into h, r) := Layout.header_into_used h0 h r wf

theorem header_into_used_eq (h0 h : Hdr) :
    h0.into h = h ↔ (h.short = false ∨ (h0.okind = 0 ∧ h0.onode = 0)) := by
  obtain ⟨pc, oid, okind, onode, t⟩ := h
  unfold Hdr.into
  cases hs : Hdr.short ⟨pc, oid, okind, onode, t⟩
  · simp
  · simp only [Hdr.short, Bool.and_eq_true, beq_iff_eq] at hs
    obtain ⟨a, b⟩ := hs
    subst a; subst b
    constructor
    · intro e
      have e1 := congrArg Hdr.okind e
      have e2 := congrArg Hdr.onode e
      simp at e1 e2
      exact Or.inr ⟨e1, e2⟩
    · rintro (e | ⟨e1, e2⟩)
      · cases e
      · simp [e1, e2]

/-- a fresh object (Okind = Onode = 0, what the factory creates) receives exactly the header written -/
theorem header_into_fresh (h : Hdr) : hdr0.into h = h := Layout.into_fresh h

example : (⟨1, 2, 7, 8, 3⟩ : Hdr).into ⟨5, 6, 0, 0, 9⟩ = ⟨5, 6, 7, 8, 9⟩ := by decide
example : P.run (decHeaderInto ⟨1, 2, 7, 8, 3⟩) (encHeader ⟨5, 6, 0, 0, 9⟩) = some (⟨5, 6, 7, 8, 9⟩, []) := by
  decide +kernel

/-! ### every primitive of the layouts -/

theorem prim_roundtrip (p : Layout.Prim) (v : Val) (r : Bytes) (h : Layout.Prim.wf valueRT p v) :
    p.decode (p.encode v ++ r) = some (v, r) := Layout.Prim.rt valueRT p v r h

/-! ### the generic round trip -/

/-- **pack body round trip**: if the transcribed writer and reader agree, then for every record
    meeting the writer's explicit guards (ranges of the Go field types, blob < 2^31, arrays ≤ 32767)
    reading what was written delivers exactly the carried fields `w.expect`, in wire order, and
    leaves exactly what followed the encoding -/
theorem pack_roundtrip (w r : L) (h : agrees w r = true)
    (E : Env) (pfx : String) (x : Rec) (rest : Bytes) (hwf : w.WF valueRT E pfx x) :
    ∃ E', r.read pfx E (w.write E pfx x ++ rest) = some (w.expect E pfx x, E', rest) :=
  agree_roundtrip valueRT w r h E pfx x rest hwf

/-- **re-encoding is byte-identical**: serialising the fields the reader delivered reproduces exactly
    the bytes that were read.  `w.known`: the writer has no section whose marker byte the decoded fields
    do not determine — true of every covered type but CounterPack1 (`C03Gen.covered_known`). -/
theorem pack_reencode (w r : L) (h : agrees w r = true) (hk : w.known = true)
    (E : Env) (pfx : String) (x : Rec) (rest : Bytes) (hwf : w.WF valueRT E pfx x) :
    ∃ o E', r.read pfx E (w.write E pfx x ++ rest) = some (o, E', rest) ∧
      w.encodeOut E o = some (w.write E pfx x, []) :=
  reencode_identical valueRT w r h hk E pfx x rest hwf

/-- the encoding depends on the carried fields only: packs equal on them encode identically -/
theorem carried_determines_bytes (w : L) (hk : w.known = true) (E : Env) (pfx : String) (x y : Rec)
    (h : w.expect E pfx x = w.expect E pfx y) : w.write E pfx x = w.write E pfx y :=
  write_eq_of_expect_eq w hk E pfx x y h

/-- **a strict prefix never decodes** (layout level): whatever reader layout without an end-of-input
    test, if `q ++ s` is read completely and `s ≠ []`, the strict prefix `q` is rejected.  (Every
    primitive decoder is append-stable: the `P` programs by `P.locality`, the tagged value decoder by
    C04's tail-free instrumented decoder.) -/
theorem layout_prefix_fails (l : L) (hn : l.tailFree = true) (pfx : String) (e : Env) (q s : Bytes)
    (o : Out) (e' : Env) (hs : s ≠ []) (h : l.read pfx e (q ++ s) = some (o, e', [])) :
    l.read pfx e q = none := read_prefix_fails l hn pfx e q s o e' hs h

/-- … hence no strict prefix of the encoding of a well-formed pack is accepted by its reader -/
theorem pack_prefix_fails (w r : L) (h : agrees w r = true) (hn : r.tailFree = true)
    (E : Env) (pfx : String) (x : Rec) (hwf : w.WF valueRT E pfx x) (q s : Bytes) (hs : s ≠ [])
    (hq : q ++ s = w.write E pfx x) : r.read pfx E q = none :=
  encoding_prefix_fails valueRT w r h hn E pfx x hwf q s hs hq

/-! ### re-use: one object receiving several packs, one stream carrying several packs -/

/-- frame condition: a path the reader did not assign keeps the object's old content -/
theorem reuse_frame (y : Rec) (o : Out) (p : String) (h : p ∉ keys o) : store y o p = y p :=
  store_frame y o p h

/-- decoding into a USED object: every carried path takes the new pack's value, every other path keeps
    what the object held before (readers that assign; readers that `Put` into a table they find merge
    rows — see Golib/Layout/History.lean) -/
theorem decode_into_used (w r : L) (h : agrees w r = true)
    (E : Env) (pfx : String) (x y : Rec) (rest : Bytes) (hwf : w.WF valueRT E pfx x)
    (hn : (keys (w.expect E pfx x)).Nodup) :
    ∃ o E', r.read pfx E (w.write E pfx x ++ rest) = some (o, E', rest) ∧
      (∀ k v, (k, v) ∈ w.expect E pfx x → store y o k = v) ∧
      (∀ p, p ∉ keys (w.expect E pfx x) → store y o p = y p) :=
  Layout.decode_into_used valueRT w r h E pfx x y rest hwf hn

/-- a history of packs written one after the other into one stream is read back one after the other:
    in order, each with exactly its carried fields, nothing shared, whatever follows the stream -/
theorem history_roundtrip (w r : L) (h : agrees w r = true) (E : Env) (pfx : String)
    (xs : List Rec) (rest : Bytes) (hwf : ∀ x ∈ xs, w.WF valueRT E pfx x) :
    readAll r E pfx xs.length (writeAll w E pfx xs ++ rest) = some (xs.map (w.expect E pfx), rest) :=
  Layout.history_roundtrip valueRT w r h E pfx xs rest hwf

/-- the object that received a whole history: a path no pack carried holds the initial content … -/
theorem history_frame (y : Rec) (os : List Out) (p : String) (h : ∀ o ∈ os, p ∉ keys o) :
    received y os p = y p := Layout.history_frame y os p h

/-- … and a path carried by the last pack holds the last pack's value, whatever came before -/
theorem history_last (y : Rec) (os : List Out) (o : Out) (hn : (keys o).Nodup) (k : String) (v : Val)
    (h : (k, v) ∈ o) : received y (os ++ [o]) k = v := Layout.history_last y os o hn k v h

/-- **type-tagged round trip** (`ToPack (ToBytesPack p)`): the tag written selects, in the factory, the
    reader of the same type; the decoded pack has that type code and the carried fields -/
theorem tagged_roundtrip (fac : Factory) (p : PV) (rest : Bytes) (h : p.ok valueRT fac) :
    readPack fac (writePack p ++ rest) = some (p.carried, rest) := readPack_writePack valueRT fac p rest h

/-- **`ToBytesPackECB`** (the encoding padded with zero bytes to a multiple of the block length `n`, for block
    ciphers): `ToPack` of the padded bytes is still the pack written — the type tag selects the reader, the
    reader consumes exactly the encoding and leaves exactly the padding … -/
theorem ecb_tagged_roundtrip (fac : Factory) (p : PV) (n : Nat) (h : p.ok valueRT fac) :
    readPack fac (ecbPad n (writePack p)) = some (p.carried, ecbTail n (writePack p)) := by
  rw [ecbPad_eq]; exact readPack_writePack valueRT fac p _ h

/-- … the padded length is a multiple of the block length, the padding is all zero, and an encoding that
    already fills its last block is not padded -/
theorem ecb_block_multiple (n : Nat) (hn : 0 < n) (bs : Bytes) : (ecbPad n bs).length % n = 0 :=
  ecbPad_length n hn bs
theorem ecb_padding_zero (n : Nat) (bs : Bytes) : ∀ b ∈ ecbTail n bs, b = 0 := ecbTail_zero n bs
theorem ecb_no_padding (n : Nat) (bs : Bytes) (h : bs.length % n = 0) : ecbPad n bs = bs := by
  simp [ecbPad, h]

example : ecbPad 8 [1, 2, 3, 4, 5, 6, 7, 8, 9, 10] = [1, 2, 3, 4, 5, 6, 7, 8, 9, 10, 0, 0, 0, 0, 0, 0] := by decide
example : ecbPad 5 [1, 2, 3, 4, 5] = [1, 2, 3, 4, 5] := by decide

/-- a type code the factory does not know does not decode (CreatePack returns nil) -/
theorem unknown_code_fails (fac : Factory) (code : Int) (body : Bytes) (hc : inRange 2 code)
    (h : fac code = none) : readPack fac (encI 2 code ++ body) = none := by
  unfold readPack
  rw [run_rdI 2 code body hc]
  simp [h]

/-! ### containers and record lists -/

/-- ZipPack: `GetRecords (SetRecords ps)` = the inner packs, in order, stamped with the container's
    Pcode/Oid/Okind/Onode -/
theorem zip_records (fac : Factory) (z : Zip) (ps : List PV) (h : ∀ p ∈ ps, p.ok valueRT fac) :
    (z.setRecords ps).getRecords fac = some (ps.map (fun p => stamp z.hdr p.carried)) :=
  Packs.zip_records valueRT fac z ps h

/-- LogSinkZipPack, with or without compression (whatever the threshold) -/
theorem logsink_zip_records (g : Gzip) (fac : Factory) (hdr : Hdr) (ps : List PV)
    (zipMinSize : Nat) (h : ∀ p ∈ ps, p.ok valueRT fac) :
    let st := doZip g 0 (writePacks ps) zipMinSize
    (Zip.getRecords fac ⟨hdr, doUnZip g st.1 st.2, ps.length⟩)
      = some (ps.map (fun p => stamp hdr p.carried)) :=
  Packs.logsink_zip_records valueRT g fac hdr ps zipMinSize h

/-- stamping touches the four identity fields only (Time and every body field are the inner pack's) -/
theorem stamp_only_identity (h : Hdr) (k : String) (v : Val)
    (hk : k ≠ "Pcode" ∧ k ≠ "Oid" ∧ k ≠ "Okind" ∧ k ≠ "Onode") : stampField h (k, v) = (k, v) := by
  simp [stampField, hk.1, hk.2.1, hk.2.2.1, hk.2.2.2]

/-- CompositePack, one level (any depth: `composite_tree_roundtrip` below).  `ps.length ≤ 32767`: the
    count travels as a signed 16-bit field; beyond it `Read` sees a negative count and returns no pack. -/
theorem composite_roundtrip (fac : Factory) (h : Hdr) (ps : List PV) (rest : Bytes)
    (hh : h.WF) (hn : ps.length ≤ 32767) (hp : ∀ p ∈ ps, p.ok valueRT fac) :
    readComposite fac (writeComposite h ps ++ rest) = some ((h, ps.map PV.carried), rest) :=
  Packs.composite_roundtrip valueRT fac h ps rest hh hn hp

/-- CompositePack to any depth: a tree of packs reads back as itself (every leaf's carried fields,
    every node's header, same shape and order), by structural recursion on the tree -/
theorem composite_tree_roundtrip (fac : Factory) (t : PT) (rest : Bytes)
    (hok : okPT valueRT fac t) :
    readPT fac (depthPT t) (writePT t ++ rest) = some (carriedPT t, rest) :=
  tree_roundtrip valueRT fac t (depthPT t) rest hok (Nat.le_refl _)

/-- record lists (`SetRecords*` / `GetRecords`): 16-bit count, then the records -/
theorem records_roundtrip (bw br : L) (h : agrees (recordsW bw) (recordsW br) = true)
    (e : Env) (x : Rec) (rest : Bytes) (hwf : (recordsW bw).WF valueRT e "" x) :
    ∃ e', (recordsW br).read "" e ((recordsW bw).write e "" x ++ rest)
      = some ((recordsW bw).expect e "" x, e', rest) :=
  Packs.records_roundtrip valueRT bw br h e x rest hwf

/-! ### LogSinkPack's content codec: `SetContentBytes (GetContentBytes ())` -/

/-- the second write/read pair LogSinkPack offers (version byte 1, Content, Line): reading what
    `GetContentBytes` produced assigns exactly Content and Line, whatever follows -/
theorem logsink_content_roundtrip (E : Env) (x : Rec) (rest : Bytes)
    (hwf : Hand.LogSinkContent.w.WF valueRT E "" x) :
    ∃ E', Hand.LogSinkContent.r.read "" E (Hand.LogSinkContent.w.write E "" x ++ rest)
      = some (Hand.LogSinkContent.w.expect E "" x, E', rest) :=
  pack_roundtrip _ _ (by decide) E "" x rest hwf

/-- … and no strict prefix of those bytes is accepted -/
theorem logsink_content_prefix_fails (E : Env) (x : Rec) (hwf : Hand.LogSinkContent.w.WF valueRT E "" x)
    (q s : Bytes) (hs : s ≠ []) (hq : q ++ s = Hand.LogSinkContent.w.write E "" x) :
    Hand.LogSinkContent.r.read "" E q = none :=
  pack_prefix_fails _ _ (by decide) (by decide) E "" x hwf q s hs hq

/-! ### bounded tables inside packs (StatRemoteIpPack.IpTable ≤ 10000, StatUserAgentPack.UserAgents ≤ 500) -/

/-- **a decoded pack carries of a wire table (pairwise distinct keys: what a table writes) put row by row
    (`Put`: an existing key is updated in place, a new key evicts the oldest row when the table is full)
    into a table bounded by `max` exactly its last `max` rows, in order**.  `1 ≤ max` is the code's own
    test (`if this.max > 0`: 0 means unbounded). -/
theorem bounded_table_keyed [BEq κ] [LawfulBEq κ] (max : Nat) (h : 1 ≤ max) (rows : List (κ × β))
    (hd : (rows.map (·.1)).Nodup) : rows.foldl (putK max) [] = capRows max rows := foldl_putK max h rows hd

/-- the same for rows treated as all new (no key comparison) -/
theorem bounded_table_keeps_last (max : Nat) (h : 1 ≤ max) (rows : List α) :
    rows.foldl (capPut max) [] = capRows max rows := foldl_capPut max h rows

/-- … in particular a table within the limit is carried whole -/
theorem bounded_table_within_limit (max : Nat) (rows : List α) (h : rows.length ≤ max) :
    capRows max rows = rows := capRows_of_le max rows h

theorem bounded_table_size (max : Nat) (rows : List α) : (capRows max rows).length ≤ max :=
  capRows_length max rows

example : capRows 3 [1, 2, 3, 4, 5] = [3, 4, 5] := by decide
example : [1, 2, 3, 4, 5].foldl (capPut 3) [] = [3, 4, 5] := by decide

/-! ### ProfilePack: the common header, then the body modelled and proved by property C08 -/

/-- header (both forms) + TxRecord behind its version byte + steps blob: every carried field of the
    transaction record (C08's `Step.profilePackBody.expect`, incl. the documented ErrorLevel defaulting),
    exact consumption.  Nothing of TxRecord is re-modelled: `Step.L.roundtrip` is composed with
    `header_roundtrip`. -/
theorem profile_roundtrip (h : Hdr) (x : Step.Rec) (rest : Bytes) (hh : h.WF)
    (hx : Step.profilePackBody.WF Step.valueRT x []) :
    readProfile (writeProfile h x ++ rest) = some ((h, Step.profilePackBody.expect x []), rest) :=
  Packs.profile_roundtrip h x rest hh hx

/-! ### EventPack: uuid / escalation / status / otype travel inside the attribute table -/

/-- `strconv.Atoi (fmt.Sprintf "%d" v) = v` on the digit model -/
theorem decimal_text_roundtrip (v : Int) : Event.atoi (Event.itoa v) = some v := Event.atoi_itoa v

/-- folding the four fields into the table (`Write`) and taking them out again (`Read`, as it is since
    the fix for D21; `EF`/`EU` driver lines tie both to the Go code) gives back every field and the user
    attributes, in order, for every table that does not itself use the four reserved keys -/
theorem event_folding_roundtrip (e : Event.Ev) (h : Event.noReserved e.attrs) :
    Event.unfold (Event.fold e) = e := Event.unfold_fold e h

/-- historical witness (D21, fixed in the code since): the reader as first found returned Status 0 for
    Status 5 (and Otype 0 for Otype 7) -/
theorem finding_D21 :
    Event.unfoldAsFound (Event.fold ⟨[], false, 5, 7, []⟩) ≠ ⟨[], false, 5, 7, []⟩ := Event.finding_D21

example : Event.noReserved [([97], [98]), ([], [])] := by
  intro p hp; simp at hp; rcases hp with rfl | rfl <;> decide

/-! ### CounterPack1, historical (D27, fixed in the code since): fragments as first found / as fixed.
    The statement for the code AS IT IS is `C03Gen.agree_CounterPack1` (whole pack, generated layout with
    the meter sections filled in) + `pack_roundtrip`; the `_partial` theorems below speak of single
    sections only and are kept as the record of what was wrong. -/

/-- the POid-meter entry round-trips with the fixed writer (one section, not the whole pack): -/
theorem counter_poid_roundtrip_partial :
    agrees Counter.poidEntry.wFixed Counter.poidEntry.r = true := by decide

/-- witness: the writer as found omits the `Acts` array the reader consumes -/
theorem finding_D27_poid : agrees Counter.poidEntry.w Counter.poidEntry.r = false := by decide

/-- witness: netstat (likewise DB pool and websocket) is written but dropped by the reader as found … -/
theorem finding_D27_netstat_dropped : agrees Counter.netstat.w Counter.netstat.r = false := by decide
/-- … and round-trips with the reader restored -/
theorem counter_netstat_partial : agrees Counter.netstat.w Counter.netstat.rFixed = true := by decide

/-- witness: the DB-pool section is two maps; the reader as found consumes (and drops) only one -/
theorem finding_D27_dbnum : agrees Counter.dbnum.w Counter.dbnum.r = false := by decide
theorem counter_dbnum_partial : agrees Counter.dbnum.w Counter.dbnum.rFixed = true := by decide

/-- witness: `Extra` is written with its type tag and read without it -/
theorem finding_D27_extra_tag : agrees Counter.extra.w Counter.extra.r = false := by decide

/-! ### non-vacuity -/

def demoL : L := .hdr (.lit .u8 1 (.fld "Seq" .i64 .i64 (.fld "Name" .blob .any
  (.rep .dec "T" (.fld "k" .i32 .i32 .nil) .nil))))
def demoR : L := .hdr (.var "ver" .u8 (.fld "Seq" .i64 .i64 (.fld "Name" .blob .any
  (.rep .dec "T" (.fld "k" .i32 .i32 .nil) .nil))))

def demoX : Rec := fun k =>
  if k = "Pcode" then .int 300 else if k = "Okind" then .int 7 else if k = "Seq" then .int (-5)
  else if k = "Name" then .bytes [104, 105] else if k = "T#" then .int 2
  else if k = "T[0].k" then .int 1 else if k = "T[1].k" then .int (-1) else .int 0

example : agrees demoL demoR = true := by decide

example : demoL.write env0 "" demoX =
    [9, 2, 1, 44, 0, 0, 0, 0, 0, 0, 0, 7, 0, 0, 0, 0, 0, 0, 0, 0, 0, 0, 0, 0,
     1, 255, 255, 255, 255, 255, 255, 255, 251, 2, 104, 105, 1, 2, 0, 0, 0, 1, 255, 255, 255, 255] := by
  decide +kernel

example : (demoR.read "" env0 (demoL.write env0 "" demoX ++ [42])).map (fun (o, _, r) => (o.length, r))
    = some (10, [42]) := by decide +kernel

/-- the marker / version idiom of the CounterPack1 meters, a fixed-count loop, a struct-valued field
    and an OS-like selector, on a small instance -/
def demoW2 : L := .kfld "OS" .i16 2 (.times 2 "" (.fld "Hit" .u16 .any .nil)
  (.mrep 9 "M" (.fld "key" .i32 .i32 (.fld "Actx" .dec .i32 .nil)) (.sub "S" (.fld "a" .u8 .u8 .nil) .nil)))
def demoR2 : L := .key "OS" .i16 "os" (.times 2 "" (.fld "Hit" .u16 .any .nil)
  (.vrep "ver" "M" (.fld "key" .i32 .i32 (.ite ⟨.ge, "ver", 9⟩ (.fld "Actx" .dec .i32 .nil) .nil .nil))
    (.ite ⟨.eq, "os", 2⟩ (.sub "S" (.fld "a" .u8 .u8 .nil) .nil) .nil .nil)))
def demoX2 : Rec := fun k =>
  if k = "OS" then .int 2 else if k = "[0].Hit" then .int 65535 else if k = "[1].Hit" then .int 1
  else if k = "M?" then .int 1 else if k = "M#" then .int 1 else if k = "M[0].key" then .int (-7)
  else if k = "M[0].Actx" then .int 3 else if k = "S.a" then .int 200 else .int 0
example : agrees demoW2 demoR2 = true := by decide
example : demoW2.write env0 "" demoX2 = [0, 2, 255, 255, 0, 1, 9, 1, 1, 255, 255, 255, 249, 1, 3, 200] := by decide +kernel
example : (demoR2.read "" env0 (demoW2.write env0 "" demoX2 ++ [5])).map (fun (o, _, r) => (o.length, r))
    = some (7, [5]) := by decide +kernel

example : (keys (demoL.expect env0 "" demoX)).Nodup := by decide +kernel

/-- the well-formedness hypothesis of `pack_roundtrip` / `pack_prefix_fails` / `decode_into_used` is met
    (long header form, negative numbers, a table with rows) -/
theorem demo_wf : demoL.WF valueRT env0 "" demoX := by
  have hc : countOf "" "T" demoX = 2 := by decide +kernel
  have e1 : demoX ("" ++ "Seq") = .int (-5) := by rfl
  have e2 : demoX ("" ++ "Name") = .bytes [104, 105] := by rfl
  have e3 : demoX (elemPfx "" "T" 0 ++ "k") = .int 1 := by rfl
  have e4 : demoX (elemPfx "" "T" 1 ++ "k") = .int (-1) := by rfl
  simp only [demoL, L.WF, hc, e1, e2]
  refine ⟨by decide +kernel, ?_, ?_, ?_, ?_, ?_, ?_, ?_, trivial⟩
  · simp [Layout.Prim.wf]
  · simp [Layout.Prim.wf, inRange, modulus]
  · simp [rngOk, Rng.ok, inRange, modulus]
  · simp [Layout.Prim.wf]
  · simp [rngOk]
  · simp [Layout.Prim.wf, inRange, modulus]
  · intro i hi
    have : i = 0 ∨ i = 1 := by omega
    rcases this with rfl | rfl
    · rw [e3]; simp [Layout.Prim.wf, rngOk, Rng.ok, inRange, modulus]
    · rw [e4]; simp [Layout.Prim.wf, rngOk, Rng.ok, inRange, modulus]
/-- … so the generic theorems have instances -/
example : ∃ E', demoR.read "" env0 (demoL.write env0 "" demoX ++ [42]) = some (demoL.expect env0 "" demoX, E', [42]) :=
  pack_roundtrip demoL demoR (by decide) env0 "" demoX [42] demo_wf
example (q s : Bytes) (hs : s ≠ []) (hq : q ++ s = demoL.write env0 "" demoX) : demoR.read "" env0 q = none :=
  pack_prefix_fails demoL demoR (by decide) (by decide) env0 "" demoX demo_wf q s hs hq

/-- a LogSinkPack content (`Content = "hi"`, `Line = -7`) meets the hypothesis of `logsink_content_roundtrip` -/
def contentX : Rec := fun k => if k = "Content" then .bytes [104, 105] else if k = "Line" then .int (-7) else .int 0
theorem contentX_wf : Hand.LogSinkContent.w.WF valueRT env0 "" contentX := by
  have e1 : contentX ("" ++ "Content") = .bytes [104, 105] := by rfl
  have e2 : contentX ("" ++ "Line") = .int (-7) := by rfl
  simp only [Hand.LogSinkContent.w, L.WF, e1, e2]
  refine ⟨?_, ?_, ?_, ?_, ?_, trivial⟩
  · simp [Layout.Prim.wf]
  · simp [Layout.Prim.wf]
  · simp [rngOk]
  · simp [Layout.Prim.wf, inRange, modulus]
  · simp [rngOk, Rng.ok, inRange, modulus]
example : Hand.LogSinkContent.w.write env0 "" contentX = [1, 2, 104, 105, 1, 249] := by decide +kernel
example : ∃ E', Hand.LogSinkContent.r.read "" env0 (Hand.LogSinkContent.w.write env0 "" contentX ++ [42])
    = some (Hand.LogSinkContent.w.expect env0 "" contentX, E', [42]) :=
  logsink_content_roundtrip env0 contentX [42] contentX_wf

example : (⟨300, 1, 7, 0, 99⟩ : Hdr).WF := by decide
example : encHeader ⟨0, 1, 0, 0, 2⟩ = [0, 0, 0, 0, 1, 0, 0, 0, 0, 0, 0, 0, 2] := by decide
example : P.run decHeader (encHeader ⟨-1, 1, 0, 5, 2⟩) = some (⟨-1, 1, 0, 5, 2⟩, []) := by decide +kernel

end C03
