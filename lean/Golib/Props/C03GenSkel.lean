/-
  Property C03 — skeleton obligations for the irregular pack functions (tie A, change detection).
  Generated once by xlate/c03/mkgolden.py; hand-owned.
-/
import Golib.Packs.Skeletons
import Golib.Gen.PackLayouts

namespace C03GenSkel
open Gen.Packs

-- AbstractPack.Write / Read: no longer pinned as text — transcribed statement by statement and INTERPRETED
-- (C03Gen.header_writer_interpreted / header_reader_interpreted, Golib/Layout/HeaderProg.lean)
theorem skel_WritePack : skel.WritePack = Packs.Skeletons.WritePack := rfl
theorem skel_ReadPack : skel.ReadPack = Packs.Skeletons.ReadPack := rfl
theorem skel_ToBytesPack : skel.ToBytesPack = Packs.Skeletons.ToBytesPack := rfl
theorem skel_LogSinkPack_GetContentBytes : skel.LogSinkPack_GetContentBytes = Packs.Skeletons.LogSinkPack_GetContentBytes := rfl
theorem skel_LogSinkPack_SetContentBytes : skel.LogSinkPack_SetContentBytes = Packs.Skeletons.LogSinkPack_SetContentBytes := rfl
theorem skel_ToBytesPackECB : skel.ToBytesPackECB = Packs.Skeletons.ToBytesPackECB := rfl
theorem skel_ToPack : skel.ToPack = Packs.Skeletons.ToPack := rfl
theorem skel_LogSinkPack_ResetTagHash : skel.LogSinkPack_ResetTagHash = Packs.Skeletons.LogSinkPack_ResetTagHash := rfl
theorem skel_toHeaderBytes : skel.toHeaderBytes = Packs.Skeletons.toHeaderBytes := rfl
theorem skel_toHeaderObject : skel.toHeaderObject = Packs.Skeletons.toHeaderObject := rfl
theorem skel_CompositePack_Write : skel.CompositePack_Write = Packs.Skeletons.CompositePack_Write := rfl
theorem skel_CompositePack_Read : skel.CompositePack_Read = Packs.Skeletons.CompositePack_Read := rfl
theorem skel_HitMapPack1_Write : skel.HitMapPack1_Write = Packs.Skeletons.HitMapPack1_Write := rfl
theorem skel_HitMapPack1_Read : skel.HitMapPack1_Read = Packs.Skeletons.HitMapPack1_Read := rfl
theorem skel_ProfilePack_Write : skel.ProfilePack_Write = Packs.Skeletons.ProfilePack_Write := rfl
theorem skel_ProfilePack_Read : skel.ProfilePack_Read = Packs.Skeletons.ProfilePack_Read := rfl
theorem skel_StatGeneralPack_Write : skel.StatGeneralPack_Write = Packs.Skeletons.StatGeneralPack_Write := rfl
theorem skel_StatGeneralPack_Read : skel.StatGeneralPack_Read = Packs.Skeletons.StatGeneralPack_Read := rfl
theorem skel_StatGeneralPack_writeTable : skel.StatGeneralPack_writeTable = Packs.Skeletons.StatGeneralPack_writeTable := rfl
theorem skel_StatGeneralPack_readTable : skel.StatGeneralPack_readTable = Packs.Skeletons.StatGeneralPack_readTable := rfl
theorem skel_StatGeneralPack_unpack : skel.StatGeneralPack_unpack = Packs.Skeletons.StatGeneralPack_unpack := rfl
theorem skel_CounterPack1_writeShortArray : skel.CounterPack1_writeShortArray = Packs.Skeletons.CounterPack1_writeShortArray := rfl
theorem skel_CounterPack1_readShortArray : skel.CounterPack1_readShortArray = Packs.Skeletons.CounterPack1_readShortArray := rfl
theorem skel_CounterPack1_ReadDropMap : skel.CounterPack1_ReadDropMap = Packs.Skeletons.CounterPack1_ReadDropMap := rfl
theorem skel_CounterPack1_readTxcallerUnknown : skel.CounterPack1_readTxcallerUnknown = Packs.Skeletons.CounterPack1_readTxcallerUnknown := rfl
theorem skel_CounterPack1_readTxcallerGroupMeter : skel.CounterPack1_readTxcallerGroupMeter = Packs.Skeletons.CounterPack1_readTxcallerGroupMeter := rfl
theorem skel_CounterPack1_readTxcallerPOidMeter : skel.CounterPack1_readTxcallerPOidMeter = Packs.Skeletons.CounterPack1_readTxcallerPOidMeter := rfl
theorem skel_CounterPack1_readTxcallerOkindMeterDeprecated : skel.CounterPack1_readTxcallerOkindMeterDeprecated = Packs.Skeletons.CounterPack1_readTxcallerOkindMeterDeprecated := rfl
theorem skel_CounterPack1_readHttpcMeter : skel.CounterPack1_readHttpcMeter = Packs.Skeletons.CounterPack1_readHttpcMeter := rfl
theorem skel_CounterPack1_readSqlMeter : skel.CounterPack1_readSqlMeter = Packs.Skeletons.CounterPack1_readSqlMeter := rfl
theorem skel_CounterPack1_readTxcallerOidMeter : skel.CounterPack1_readTxcallerOidMeter = Packs.Skeletons.CounterPack1_readTxcallerOidMeter := rfl
theorem skel_CounterPack1_writeTxcallerOther : skel.CounterPack1_writeTxcallerOther = Packs.Skeletons.CounterPack1_writeTxcallerOther := rfl
theorem skel_CounterPack1_writeTxcallerOidMeter : skel.CounterPack1_writeTxcallerOidMeter = Packs.Skeletons.CounterPack1_writeTxcallerOidMeter := rfl
theorem skel_CounterPack1_writeSqlMeter : skel.CounterPack1_writeSqlMeter = Packs.Skeletons.CounterPack1_writeSqlMeter := rfl
theorem skel_CounterPack1_writeHttpcMeter : skel.CounterPack1_writeHttpcMeter = Packs.Skeletons.CounterPack1_writeHttpcMeter := rfl
theorem skel_CounterPack1_writeTxcallerGroupMeter : skel.CounterPack1_writeTxcallerGroupMeter = Packs.Skeletons.CounterPack1_writeTxcallerGroupMeter := rfl
theorem skel_CounterPack1_writeTxcallerPOidMeter : skel.CounterPack1_writeTxcallerPOidMeter = Packs.Skeletons.CounterPack1_writeTxcallerPOidMeter := rfl
theorem skel_ReadShortArray : skel.ReadShortArray = Packs.Skeletons.ReadShortArray := rfl
theorem skel_ZipPack_SetRecords : skel.ZipPack_SetRecords = Packs.Skeletons.ZipPack_SetRecords := rfl
theorem skel_ZipPack_GetRecords : skel.ZipPack_GetRecords = Packs.Skeletons.ZipPack_GetRecords := rfl
theorem skel_LogSinkZipPack_SetRecords : skel.LogSinkZipPack_SetRecords = Packs.Skeletons.LogSinkZipPack_SetRecords := rfl
theorem skel_LogSinkZipPack_doZip : skel.LogSinkZipPack_doZip = Packs.Skeletons.LogSinkZipPack_doZip := rfl
theorem skel_LogSinkZipPack_doUnZip : skel.LogSinkZipPack_doUnZip = Packs.Skeletons.LogSinkZipPack_doUnZip := rfl
theorem skel_LogSinkZipPack_GetRecords : skel.LogSinkZipPack_GetRecords = Packs.Skeletons.LogSinkZipPack_GetRecords := rfl
theorem skel_StatTransactionPack_SetRecords : skel.StatTransactionPack_SetRecords = Packs.Skeletons.StatTransactionPack_SetRecords := rfl
theorem skel_StatTransactionPack_SetRecordsList : skel.StatTransactionPack_SetRecordsList = Packs.Skeletons.StatTransactionPack_SetRecordsList := rfl
theorem skel_StatTransactionPack_GetRecords : skel.StatTransactionPack_GetRecords = Packs.Skeletons.StatTransactionPack_GetRecords := rfl
theorem skel_StatTransactionPack1_SetRecords : skel.StatTransactionPack1_SetRecords = Packs.Skeletons.StatTransactionPack1_SetRecords := rfl
theorem skel_StatTransactionPack1_SetRecordsList : skel.StatTransactionPack1_SetRecordsList = Packs.Skeletons.StatTransactionPack1_SetRecordsList := rfl
theorem skel_StatTransactionPack1_GetRecords : skel.StatTransactionPack1_GetRecords = Packs.Skeletons.StatTransactionPack1_GetRecords := rfl
theorem skel_StatSqlPack_SetRecords : skel.StatSqlPack_SetRecords = Packs.Skeletons.StatSqlPack_SetRecords := rfl
theorem skel_StatSqlPack_SetRecordsList : skel.StatSqlPack_SetRecordsList = Packs.Skeletons.StatSqlPack_SetRecordsList := rfl
theorem skel_StatSqlPack_GetRecords : skel.StatSqlPack_GetRecords = Packs.Skeletons.StatSqlPack_GetRecords := rfl
theorem skel_StatHttpcPack_SetRecords : skel.StatHttpcPack_SetRecords = Packs.Skeletons.StatHttpcPack_SetRecords := rfl
theorem skel_StatHttpcPack_SetRecordsList : skel.StatHttpcPack_SetRecordsList = Packs.Skeletons.StatHttpcPack_SetRecordsList := rfl
theorem skel_StatHttpcPack_GetRecords : skel.StatHttpcPack_GetRecords = Packs.Skeletons.StatHttpcPack_GetRecords := rfl
theorem skel_StatErrorPack_SetRecords : skel.StatErrorPack_SetRecords = Packs.Skeletons.StatErrorPack_SetRecords := rfl
theorem skel_StatErrorPack_SetRecordsArray : skel.StatErrorPack_SetRecordsArray = Packs.Skeletons.StatErrorPack_SetRecordsArray := rfl
theorem skel_StatErrorPack_GetRecords : skel.StatErrorPack_GetRecords = Packs.Skeletons.StatErrorPack_GetRecords := rfl
theorem skel_StatServicePack_SetRecords : skel.StatServicePack_SetRecords = Packs.Skeletons.StatServicePack_SetRecords := rfl
theorem skel_StatServicePack_WriteRec : skel.StatServicePack_WriteRec = Packs.Skeletons.StatServicePack_WriteRec := rfl
theorem skel_ReadRec : skel.ReadRec = Packs.Skeletons.ReadRec := rfl
theorem skel_SMDownCheckPack_SetRecords : skel.SMDownCheckPack_SetRecords = Packs.Skeletons.SMDownCheckPack_SetRecords := rfl
theorem skel_SMDownCheckPack_GetRecords : skel.SMDownCheckPack_GetRecords = Packs.Skeletons.SMDownCheckPack_GetRecords := rfl
theorem gaps_CounterPack1_w : CounterPack1.wGaps = Packs.Skeletons.CounterPack1_wGaps := rfl
theorem gaps_CounterPack1_r : CounterPack1.rGaps = Packs.Skeletons.CounterPack1_rGaps := rfl
theorem gaps_TagCountPack_w : TagCountPack.wGaps = Packs.Skeletons.TagCountPack_wGaps := rfl
theorem gaps_TagLogPack_w : TagLogPack.wGaps = Packs.Skeletons.TagLogPack_wGaps := rfl
theorem gaps_LogSinkPack_w : LogSinkPack.wGaps = Packs.Skeletons.LogSinkPack_wGaps := rfl
theorem gaps_ParamPack_w : ParamPack.wGaps = Packs.Skeletons.ParamPack_wGaps := rfl
theorem gaps_ParamPack_r : ParamPack.rGaps = Packs.Skeletons.ParamPack_rGaps := rfl
theorem gaps_ExtensionPack_w : ExtensionPack.wGaps = Packs.Skeletons.ExtensionPack_wGaps := rfl
theorem gaps_ExtensionPack_r : ExtensionPack.rGaps = Packs.Skeletons.ExtensionPack_rGaps := rfl
theorem gaps_EventPack_w : EventPack.wGaps = Packs.Skeletons.EventPack_wGaps := rfl
theorem gaps_EventPack_r : EventPack.rGaps = Packs.Skeletons.EventPack_rGaps := rfl

end C03GenSkel
