/-
  Property C14 — obligations over the regenerated source facts (tie A).

  `Golib.Gen.C14` is rewritten by `xlate/c14` from /repo/util/hll on every run.  Each theorem
  below says that a transcribed source expression is the one the bridge theorems of
  `Golib.HLL.SrcBridge` were proved about (or that a constant/table equals the model's), so a
  change of the Go source that alters an expression, a constant, the clz table, the byte form's
  call sequence or the decision of `Cardinality` makes this module fail to check.
-/
import Golib.Gen.C14
import Golib.HLL.SrcBridge
import Golib.HLL.SrcProg
import Golib.HLL.SrcHash
import Golib.HLL.SrcObj

namespace C14Gen
open HLL

theorem gen_constants :
    Gen.C14.LOG2_BITS_PER_WORD = HLL.LOG2_BITS_PER_WORD ∧ Gen.C14.REGISTER_SIZE = HLL.REGISTER_SIZE := by decide

theorem gen_clz_table : Gen.C14.clzLookup = HLL.clzLookup := by decide

theorem gen_clz32 : Gen.C14.clz32 = Src.clz32 := by rfl

theorem gen_get : Gen.C14.get = Src.get := by rfl

theorem gen_set :
    Gen.C14.setTarget = .recv "M" ∧ Gen.C14.setIdx = Src.setIdx ∧ Gen.C14.setVal = Src.setVal := by
  refine ⟨by rfl, by rfl, by rfl⟩

theorem gen_updateIfGreater :
    Gen.C14.updCond = Src.updCond ∧ Gen.C14.updTarget = .recv "M" ∧ Gen.C14.updIdx = Src.updIdx ∧
    Gen.C14.updVal = Src.updVal ∧ Gen.C14.updRetThen = .tt ∧ Gen.C14.updRetElse = .ff := by
  refine ⟨by rfl, by rfl, by rfl, by rfl, by rfl, by rfl⟩

theorem gen_registerset_merge :
    Gen.C14.mergeOuterBound = .bin .lt 63 (.loc "l0") (.call1 "len" (.recv "M")) ∧
    Gen.C14.mergeInnerBound = .bin .lt 63 (.loc "l2") (.lit 6) ∧
    Gen.C14.mergeInit = .conv 32 (.lit 0) ∧
    Gen.C14.mergeCond = Src.mergeCond ∧ Gen.C14.mergeThen = Src.mergeThat ∧ Gen.C14.mergeElse = Src.mergeThis ∧
    Gen.C14.mergeStoreIdx = .loc "l0" ∧ Gen.C14.mergeStoreVal = .loc "l1" := by
  refine ⟨by rfl, by rfl, by rfl, by rfl, by rfl, by rfl, by rfl, by rfl⟩

theorem gen_sizeForCount : Gen.C14.getBits = Src.getBits ∧ Gen.C14.sizeForCount = Src.sizeForCount := by
  refine ⟨by rfl, by rfl⟩

theorem gen_offerHashed :
    Gen.C14.offerCallee = "registerSet.UpdateIfGreater" ∧ Gen.C14.offerIdx = Src.offerIdx ∧
    Gen.C14.offerRank = Src.offerRank ∧
    Gen.C14.offer = .call1 "offerHashed" (.call1 "MurmurHash" (.arg 0)) ∧
    Gen.C14.offerLong = .call1 "offerHashed" (.call1 "MurmurHashLong" (.arg 0)) := by
  refine ⟨by decide, by rfl, by rfl, by rfl, by rfl⟩

/-- the decision of `Cardinality`: loop over `registerSet.Count` registers, exact power-of-two
    terms, zero count, and — with fix-D30 — linear counting only if `zeros != 0` -/
theorem gen_cardinality :
    Gen.C14.cardLoopBound = .bin .lt 63 (.loc "l2") (.recv "registerSet.Count") ∧
    Gen.C14.cardTerm = Src.cardTerm ∧ Gen.C14.cardZeroTest = Src.cardZeroTest ∧
    Gen.C14.cardCond = Src.cardCond ∧ Gen.C14.cardThen = Src.cardThen ∧ Gen.C14.cardElse = Src.cardElse ∧
    Gen.C14.linearCounting = Src.linearCounting ∧ Gen.C14.round = Src.round := by
  refine ⟨by rfl, by rfl, by rfl, by rfl, by rfl, by rfl, by rfl, by rfl⟩

/-- `getAlphaMM`: the constants are those of `HLL.consts` (which the driver evaluates) -/
theorem gen_alpha : Gen.C14.alphaMM = Src.alphaMM := by rfl

theorem gen_bytes_and_merge_skeletons :
    Gen.C14.getBytesBody = Src.getBytesBody ∧ Gen.C14.buildBody = Src.buildBody ∧
    Gen.C14.mergeBody = Src.mergeBody ∧ Gen.C14.addAllBody = Src.addAllBody ∧
    Gen.C14.newIntBody = Src.newIntBody ∧ Gen.C14.newRegisterSetInitBody = Src.newRegisterSetInitBody := by
  refine ⟨by decide, by decide, by decide, by decide, by decide, by decide⟩

/-- input-count guards (`in.CheckCount(count, minBytes)`) are not part of the byte-form skeleton:
    they only reject a word count the remaining bytes cannot supply (4 bytes per word), which the
    model's `build` rejects as well (`decMany` fails on short input).  The only guard admitted is
    the one in `BuildHyperLogLog` on the decoded word count with element size 4; any other guard
    (another function, another count or element size) makes this obligation fail. -/
theorem gen_count_guards :
    Gen.C14.countGuards = [] ∨ Gen.C14.countGuards = ["BuildHyperLogLog: v0.CheckCount(int(v2), 4)"] := by
  decide

/-! ### what the regenerated expressions compute (bridge theorems applied to the generated trees) -/

open HLL.Src in
/-- the transcribed `RegisterSet.Get` computes the model's `wordGet` -/
theorem gen_get_meaning (ρ : Env) (pos : Nat) (h : ρ.args.getD 0 0 = pos) (hp : pos < 4611686018427387904) :
    Gen.C14.get.eval ρ = wordGet (ρ.tab "M" (pos / 6)) (pos % 6) := by
  rw [gen_get]; exact get_bridge ρ pos h hp

open HLL.Src in
/-- the transcribed `RegisterSet.Set` stores the model's `wordSet` at word `position / 6` -/
theorem gen_set_meaning (ρ : Env) (pos v : Nat) (h0 : ρ.args.getD 0 0 = pos) (h1 : ρ.args.getD 1 0 = v)
    (hp : pos < 4294967296) (hv : v < 32) (hw : ρ.tab "M" (pos / 6) < 4294967296) :
    Gen.C14.setIdx.eval ρ = pos / 6 ∧
    Gen.C14.setVal.eval ρ = wordSet (ρ.tab "M" (pos / 6)) (pos % 6) v := by
  rw [gen_set.2.1, gen_set.2.2]; exact set_bridge ρ pos v h0 h1 hp hv hw

open HLL.Src in
/-- the transcribed `RegisterSet.UpdateIfGreater` is the model's `wordUpd`: it stores
    `wordSet old i v` and returns true iff `wordGet old i < v`, else leaves the word and returns false -/
theorem gen_updateIfGreater_meaning (ρ : Env) (pos v : Nat) (h0 : ρ.args.getD 0 0 = pos)
    (h1 : ρ.args.getD 1 0 = v) (hp : pos < 4294967296) (hv : v < 32)
    (hw : ρ.tab "M" (pos / 6) < 4294967296) :
    Gen.C14.updIdx.eval ρ = pos / 6 ∧
    wordUpd (ρ.tab "M" (pos / 6)) (pos % 6) v =
      (if Gen.C14.updCond.eval ρ ≠ 0 then (Gen.C14.updVal.eval ρ, decide (Gen.C14.updRetThen.eval ρ ≠ 0))
       else (ρ.tab "M" (pos / 6), decide (Gen.C14.updRetElse.eval ρ ≠ 0))) := by
  obtain ⟨hc, _, hi, hv', ht, he⟩ := gen_updateIfGreater
  rw [hc, hi, hv', ht, he]
  obtain ⟨b1, b2, b3⟩ := upd_bridge ρ pos v h0 h1 hp hv hw
  refine ⟨b1, ?_⟩
  unfold wordUpd
  by_cases hlt : wordGet (ρ.tab "M" (pos / 6)) (pos % 6) < v
  · rw [if_pos hlt, if_pos (b2.mpr hlt), b3]; simp [Ex.eval]
  · rw [if_neg hlt, if_neg (fun h => hlt (b2.mp h))]; simp [Ex.eval]

open HLL.Src in
/-- the transcribed inner loop of `RegisterSet.Merge` accumulates the model's `mergeWord` -/
theorem gen_merge_meaning (ρ : Env) (a b j : Nat) (hj : ρ.locv "l2" = j) (hj6 : j < 6)
    (ha : ρ.tab "M" (ρ.locv "l0") = a) (hb : ρ.tab "that.M" (ρ.locv "l0") = b) :
    (if Gen.C14.mergeCond.eval ρ ≠ 0 then Gen.C14.mergeThen.eval ρ else Gen.C14.mergeElse.eval ρ) =
      mergeTerm a b j ∧ mergeLoop a b = mergeWord a b := by
  obtain ⟨_, _, _, hc, ht, he, _, _⟩ := gen_registerset_merge
  rw [hc, ht, he]
  exact ⟨merge_bridge ρ a b j hj hj6 ha hb, mergeLoop_eq a b⟩

open HLL.Src in
/-- the transcribed `getSizeForCount` is the model's `wordCount` -/
theorem gen_sizeForCount_meaning (ρ : Env) (count : Nat) (h0 : ρ.args.getD 0 0 = count)
    (hf : ρ.fn1 "getBits" count = count / 6) (hc : count < 4611686018427387904) :
    Gen.C14.getBits.eval ρ = count / 6 ∧ Gen.C14.sizeForCount.eval ρ = wordCount count := by
  rw [gen_sizeForCount.1, gen_sizeForCount.2]; exact sizeForCount_bridge ρ count h0 hf hc

open HLL.Src in
/-- the transcribed `clz32` (comparison tree + transcribed table) is the model's `clz32`,
    hence the number of leading zeros -/
theorem gen_clz32_meaning (ρ : Env) (x : Nat) (h0 : ρ.args.getD 0 0 = x) (hx : x < 4294967296)
    (ht : ∀ i, ρ.tab "clzLookup" i = Gen.C14.clzLookup.getD i 0) :
    Gen.C14.clz32.eval ρ = 32 - bitlen x := by
  rw [gen_clz32, clz32_bridge ρ x h0 hx (by intro i; rw [ht i, gen_clz_table]), HLL.clz32_correct x hx]
  rfl

open HLL.Src in
/-- the transcribed index and rank expressions of `offerHashed` are the model's `idx` and `rank` -/
theorem gen_offerHashed_meaning (ρ : Env) (p h : Nat) (h0 : ρ.args.getD 0 0 = h)
    (hl : ρ.fldv "log2m" = p) (hc : ∀ x, ρ.fn1 "clz32" x = HLL.clz32 x) (hp1 : 1 ≤ p) (hp2 : p ≤ 32) :
    Gen.C14.offerIdx.eval ρ = idx p h ∧ Gen.C14.offerRank.eval ρ = rank p h := by
  rw [gen_offerHashed.2.1, gen_offerHashed.2.2.1]; exact offer_bridge ρ p h h0 hl hc hp1 hp2

open HLL.Src in
/-- index and rank of the transcribed `offerHashed`, for every precision 4..16 at once (no per-p
    evaluation): the leading `p` bits, and the leading zeros of the remaining bits + 1 -/
theorem gen_offerHashed_spec (ρ : Env) (p h : Nat) (h0 : ρ.args.getD 0 0 = h)
    (hl : ρ.fldv "log2m" = p) (hc : ∀ x, ρ.fn1 "clz32" x = HLL.clz32 x) (h1 : 4 ≤ p) (h2 : p ≤ 16)
    (hh : Hashed h) :
    Gen.C14.offerIdx.eval ρ = h / 2 ^ (32 - p) ∧ Gen.C14.offerIdx.eval ρ < 2 ^ p ∧
    Gen.C14.offerRank.eval ρ = (32 - p) - bitlen (h % 2 ^ (32 - p)) + 1 ∧
    Gen.C14.offerRank.eval ρ < 32 := by
  obtain ⟨e1, e2⟩ := gen_offerHashed_meaning ρ p h h0 hl hc (by omega) (by omega)
  rw [e1, e2]
  exact ⟨rfl, idx_lt p h (by omega) hh, rank_spec p h (by omega) (by omega),
    rank_lt_32 p h (by omega) (by omega)⟩

/-- the transcribed statement lists of `GetBytes` and `BuildHyperLogLog` -/
theorem gen_byte_form_programs :
    Gen.C14.getBytesProg = Src.getBytesProg ∧ Gen.C14.buildProg = Src.buildProg := by
  refine ⟨by decide, by decide⟩

open HLL.Src in
/-- **interpreted**: running the transcribed `GetBytes` writes exactly the model's `getBytes` -/
theorem gen_getBytes_meaning (ρ : Env) (colls : String → List Nat) (p : Nat) (ws : Array Nat)
    (hl : ρ.fldv "log2m" = p) (hsz : ρ.fldv "registerSet.Size" = ws.size)
    (hc : colls "registerSet.ReadOnlyBits" = ws.toList)
    (hp : p < 4294967296) (hs : ws.size < 4294967296) (hw : ∀ w ∈ ws.toList, w < 4294967296) :
    WStep.run ρ colls Gen.C14.getBytesProg [] = some (getBytes p ws) := by
  rw [gen_byte_form_programs.1]; exact getBytes_bridge ρ colls p ws hl hsz hc hp hs hw

open HLL.Src in
/-- **interpreted**: the transcribed `BuildHyperLogLog` is the model's decoder `build`; with the
    round trip, rebuilding what the transcribed `GetBytes` wrote restores the counter -/
theorem gen_build_meaning (σ : Store) :
    RStep.sem Gen.C14.buildProg σ = build := by
  rw [gen_byte_form_programs.2]; exact build_bridge σ

open HLL.Src in
theorem gen_byte_form_roundtrip (ρ : Env) (colls : String → List Nat) (σ : Store) (p : Nat)
    (ws : Array Nat) (bs rest : Bytes)
    (hl : ρ.fldv "log2m" = p) (hsz : ρ.fldv "registerSet.Size" = ws.size)
    (hc : colls "registerSet.ReadOnlyBits" = ws.toList) (hp : PrecOK p) (hw : WFState p ws)
    (hrun : WStep.run ρ colls Gen.C14.getBytesProg [] = some bs) :
    P.run (RStep.sem Gen.C14.buildProg σ) (bs ++ rest) = some ((p, ws), rest) := by
  have hs : ws.size < 2147483648 := by rw [hw.size]; exact wordCount_lt p hp.hi
  rw [gen_getBytes_meaning ρ colls p ws hl hsz hc (by have := hp.hi; omega) (by omega)
    (wf_words_lt p ws hw)] at hrun
  injection hrun with hrun
  rw [← hrun, gen_build_meaning]
  exact run_build_getBytes p ws rest hp.hi hs (wf_words_lt p ws hw)

/-- the hash: the symbolically executed bodies of `MurmurHashLong` and `MurmurHash` -/
theorem gen_murmur : Gen.C14.murmurLong = Src.murmurLong ∧ Gen.C14.murmur32 = Src.murmur32 := by
  refine ⟨by rfl, by rfl⟩

open HLL.Src in
/-- **interpreted**: the transcribed `MurmurHashLong` computes the model's `murmurLong` for every
    64-bit item, `MurmurHash` the hash of the zero-extended 32-bit item; both are 32-bit values, so
    every theorem stated for an arbitrary hash applies to the hash the code uses -/
theorem gen_murmur_meaning (ρ : Env) (data : Nat) (h0 : ρ.args.getD 0 0 = data) :
    Gen.C14.murmurLong.eval ρ = murmurLong data ∧ Hashed (murmurLong data) ∧
    (data < 4294967296 → (∀ x, ρ.fn1 "MurmurHashLong" x = murmurLong x) →
      Gen.C14.murmur32.eval ρ = murmur32 data) := by
  refine ⟨?_, murmurLong_lt data, ?_⟩
  · rw [gen_murmur.1]; exact murmurLong_bridge ρ data h0
  · intro hd hf; rw [gen_murmur.2]; exact murmur32_bridge ρ data h0 hd hf

/-- the transcribed statement lists of `HyperLogLog.Merge` and `HyperLogLog.AddAll` -/
theorem gen_merge_addAll_programs :
    Gen.C14.mergeProg = Src.mergeProg ∧ Gen.C14.addAllProg = Src.addAllProg := by
  refine ⟨by decide, by decide⟩

open HLL.Src in
/-- **interpreted**: the transcribed `Merge` returns the model's `mergeAll` of receiver and
    arguments and writes neither the receiver nor any argument (only its fresh local) -/
theorem gen_merge_obj_meaning (σ : MState) (hr : σ.recv.size = wordCount (2 ^ σ.p))
    (ha : ∀ b ∈ σ.args, b.size = wordCount (2 ^ σ.p)) :
    ∃ τ, MStep.sem Gen.C14.mergeProg σ = some (some (mergeAll σ.p σ.recv σ.args), τ) ∧
      τ.recv = σ.recv ∧ τ.args = σ.args ∧ τ.p = σ.p := by
  rw [gen_merge_addAll_programs.1]; exact merge_bridge_obj σ hr ha

open HLL.Src in
/-- **interpreted**: the transcribed `AddAll` panics exactly when the sizes differ, otherwise turns
    the receiver's words into `merge recv other` and touches nothing else -/
theorem gen_addAll_obj_meaning (σ : MState) (b : Array Nat) (hb : σ.args = [b]) :
    MStep.sem Gen.C14.addAllProg σ =
      if σ.recv.size = b.size then some (none, { σ with recv := merge σ.recv b }) else none := by
  rw [gen_merge_addAll_programs.2]; exact addAll_bridge_obj σ b hb

/-! non-vacuity of the interpreted obligations: the evaluators compute on concrete environments -/
example : Gen.C14.get.eval ⟨[9], fun _ i => if i = 1 then 229376 else 0, fun _ => 0, fun _ _ => 0, fun _ => 0⟩ = 7 := by
  decide +kernel
example : Gen.C14.sizeForCount.eval ⟨[193], fun _ _ => 0, fun _ => 0, fun _ x => x / 6, fun _ => 0⟩ = 32 := by
  decide +kernel
example : Gen.C14.murmurLong.eval ⟨[1], fun _ _ => 0, fun _ => 0, fun _ _ => 0, fun _ => 0⟩ = 1527037976 := by
  decide +kernel
example : (HLL.Src.MStep.sem Gen.C14.addAllProg ⟨4, #[1, 0, 0], [#[32, 0, 0]], fun _ => #[]⟩).map
    (fun r => r.2.recv) = some #[33, 0, 0] := by decide +kernel
example : HLL.Src.MStep.sem Gen.C14.addAllProg ⟨4, #[1, 0, 0], [#[32, 0]], fun _ => #[]⟩ = none := by
  decide +kernel

end C14Gen
