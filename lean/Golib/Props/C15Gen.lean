/-
  Props.C15Gen — tie A: the Go source, regenerated as Lean data on every run (`Golib/Gen/C15.lean`,
  written by xlate/c15 with Go's own type checker), against the CodeModels of Props.C15.

  * constant tables and constants are equal to the model's (`decide`);
  * code: every transcribed block is given the semantics `GoSem` (Go's sized-integer arithmetic) and is
    proved to compute the arithmetic CodeModel **for all inputs**.  Each theorem below is
    `bridge ∘ canonical-form equality`: the bridge theorem (Golib/Hash/GoBridge*.lean) is about the
    hand-kept copy `GoModel`; the equality of canonical forms of the regenerated block and that copy is
    decided here; `GoSemProofs` proves that blocks with equal canonical forms compute the same values
    (inlining of temporaries, order of independent statements, operand order of `| & ^ + *`).
-/
import Golib.Gen.C15
import Golib.Hash.GoBridgeHash
import Golib.Hash.Murmur
import Golib.Hash.Hexa32

namespace C15Gen
open GoSem GoBridge Gen.C15

/-- the translator met no construct it could not transcribe -/
theorem nothing_unknown : unknownCount = 0 := by decide

/-! ### tables and constants -/

theorem table_tied : crcTable = Hash.table := by decide +kernel

theorem digits_tied : digits = Hexa32.digits.map Char.toNat := by decide +kernel

theorem hexa_constants_tied :
    plusChar = some 'x'.toNat ∧ minusChar = some 'z'.toNat
    ∧ toString32Texts.contains "z8000000000000" = true ∧ toLong32Texts.contains "z8000000000000" = true := by
  decide +kernel

theorem murmur_seeds_tied :
    murmur_MurmurHashByte_seed = some Murmur.defaultSeed
    ∧ murmur_MurmurHashLongByte_seed = some Murmur.defaultSeed := by decide +kernel

/-- the constant each register starts from -/
theorem hash_init_tied :
    loop_Hash.init = some 0xffffffff ∧ loop_Hash64.init = some 0xffffffffffffffff
    ∧ loop_Hash64v2.init = some 0xffffffffffffffff ∧ loop_Hash64V2.init = some 0xffffffffffffffff
    ∧ loop_HashCode.init = some 0 := by decide +kernel

/-- the string forms call the byte forms: `HashStr(s) = Hash([]byte(s))`, `Hash64Str → Hash64`,
    `Hash64StrV2 → Hash64V2`, `GetLongHash(s) = if s == "" then 0 else Hash64v2([]byte(s))`
    (modelled as `Hash.hashStr := Hash.hash`, `Hash.getLongHash`) -/
theorem wrappers_tied :
    wrapper_HashStr = ("Hash", none) ∧ wrapper_Hash64Str = ("Hash64", none)
    ∧ wrapper_Hash64StrV2 = ("Hash64V2", none) ∧ wrapper_GetLongHash = ("Hash64v2", some 0) := by decide

/-! ### util/bitutil — every function, all inputs -/

open BitUtil

theorem composite64_tied (h l : Int) (hh : isI32 h) (hl : isI32 l) :
    call noArr fn_Composite64 [h, l] = composite64 h l := by
  rw [call_congr (g := GoModel.fn_Composite64) (by decide +kernel) (by decide +kernel)]
  exact composite64_bridge h l hh hl

theorem composite32_tied (h l : Int) (hh : isI16 h) (hl : isI16 l) :
    call noArr fn_Composite32 [h, l] = composite32 h l := by
  rw [call_congr (g := GoModel.fn_Composite32) (by decide +kernel) (by decide +kernel)]
  exact composite32_bridge h l hh hl

theorem composite16_tied (h l : Int) (hh : isU8 h) (hl : isU8 l) :
    call noArr fn_Composite16 [h, l] = composite16 h l := by
  rw [call_congr (g := GoModel.fn_Composite16) (by decide +kernel) (by decide +kernel)]
  exact composite16_bridge h l hh hl

theorem setHigh64_tied (s h : Int) (hs : isI64 s) (hh : isI32 h) :
    call noArr fn_SetHigh64 [s, h] = setHigh64 s h := by
  rw [call_congr (g := GoModel.fn_SetHigh64) (by decide +kernel) (by decide +kernel)]
  exact setHigh64_bridge s h hs hh

theorem setLow64_tied (s l : Int) (hs : isI64 s) (hl : isI32 l) :
    call noArr fn_SetLow64 [s, l] = setLow64 s l := by
  rw [call_congr (g := GoModel.fn_SetLow64) (by decide +kernel) (by decide +kernel)]
  exact setLow64_bridge s l hs hl

theorem getHigh64_tied (k : Int) (hk : isI64 k) : call noArr fn_GetHigh64 [k] = getHigh64 k := by
  rw [call_congr (g := GoModel.fn_GetHigh64) (by decide +kernel) (by decide +kernel)]
  exact getHigh64_bridge k hk

theorem getLow64_tied (k : Int) (hk : isI64 k) : call noArr fn_GetLow64 [k] = getLow64 k := by
  rw [call_congr (g := GoModel.fn_GetLow64) (by decide +kernel) (by decide +kernel)]
  exact getLow64_bridge k hk

theorem getHigh32_tied (k : Int) (hk : isI32 k) : call noArr fn_GetHigh32 [k] = getHigh32 k := by
  rw [call_congr (g := GoModel.fn_GetHigh32) (by decide +kernel) (by decide +kernel)]
  exact getHigh32_bridge k hk

theorem getLow32_tied (k : Int) (hk : isI32 k) : call noArr fn_GetLow32 [k] = getLow32 k := by
  rw [call_congr (g := GoModel.fn_GetLow32) (by decide +kernel) (by decide +kernel)]
  exact getLow32_bridge k hk

theorem getHigh16_tied (k : Int) (hk : isI16 k) : call noArr fn_GetHigh16 [k] = getHigh16 k := by
  rw [call_congr (g := GoModel.fn_GetHigh16) (by decide +kernel) (by decide +kernel)]
  exact getHigh16_bridge k hk

theorem getLow16_tied (k : Int) (hk : isI16 k) : call noArr fn_GetLow16 [k] = getLow16 k := by
  rw [call_congr (g := GoModel.fn_GetLow16) (by decide +kernel) (by decide +kernel)]
  exact getLow16_bridge k hk

example : isI32 (-1) ∧ isI64 (-5) := by unfold isI32 isI64; decide

/-! ### util/hash — the whole loops, every byte string -/

/-- loop headers `for i := 0; i < len(bytes); i++`; the loop variable is identifier 1, the only variable
    carried around the loop (the register) is identifier 2, the slice parameter identifier 0 -/
theorem hash_headers_tied :
    loop_Hash.header = ["#1 := 0", "#1 < len(#0)", "#1++"] ∧ loop_Hash64.header = ["#1 := 0", "#1 < len(#0)", "#1++"]
    ∧ loop_Hash64v2.header = ["#1 := 0", "#1 < len(#0)", "#1++"] ∧ loop_Hash64V2.header = ["#1 := 0", "#1 < len(#0)", "#1++"]
    ∧ loop_HashCode.header = ["#1 := 0", "#1 < len(#0)", "#1++"]
    ∧ loop_Hash.loopVar = 1 ∧ loop_Hash.carried = [2] ∧ loop_Hash64.loopVar = 1 ∧ loop_Hash64.carried = [2]
    ∧ loop_Hash64v2.loopVar = 1 ∧ loop_Hash64v2.carried = [2] ∧ loop_Hash64V2.loopVar = 1 ∧ loop_Hash64V2.carried = [2]
    ∧ loop_HashCode.loopVar = 1 ∧ loop_HashCode.carried = [2] := by decide

/-- `Hash`: register (identifier 2) starting at 0xffffffff, the transcribed loop body run once per index,
    the transcribed final block — is `Hash.hash bs` (hence CRC-32 by `C15.hash_is_crc32`) -/
theorem hash_tied (bs : Bytes) (hw : WFB bs) (ρ : Env) (hρ : ρ 2 = 4294967295) :
    retVal (runRet (hashArrs bs) (forLoop (hashArrs bs) loop_Hash.body 1 bs.length 0 ρ) loop_Hash.after)
      = Hash.hash bs :=
  hash_fn_bridge _ _ (by decide +kernel) (by decide +kernel) bs hw ρ hρ

theorem hash64_tied (bs : Bytes) (hw : WFB bs) (ρ : Env) (hρ : ρ 2 = 18446744073709551615) :
    retVal (runRet (hashArrs bs) (forLoop (hashArrs bs) loop_Hash64.body 1 bs.length 0 ρ) loop_Hash64.after)
      = Hash.hash64 bs :=
  hash64_fn_bridge _ _ (by decide +kernel) (by decide +kernel) bs hw ρ hρ

theorem hash64v2_tied (bs : Bytes) (hw : WFB bs) (ρ : Env) (hρ : ρ 2 = 18446744073709551615) :
    retVal (runRet (hashArrs bs) (forLoop (hashArrs bs) loop_Hash64v2.body 1 bs.length 0 ρ) loop_Hash64v2.after)
      = Hash.hash64v2 (some bs) :=
  hash64v2_fn_bridge _ _ (by decide +kernel) (by decide +kernel) bs hw ρ hρ

theorem hash64V2_tied (bs : Bytes) (hw : WFB bs) (hne : bs ≠ []) (ρ : Env) (hρ : ρ 2 = 18446744073709551615) :
    retVal (runRet (hashArrs bs) (forLoop (hashArrs bs) loop_Hash64V2.body 1 bs.length 0 ρ) loop_Hash64V2.after)
      = Hash.hash64V2 (some bs) :=
  hash64V2_fn_bridge _ _ (by decide +kernel) (by decide +kernel) bs hw hne ρ hρ

/-- `stringutil.HashCode`, whole function -/
theorem hashCode_tied (bs : Bytes) (hw : WFB bs) (ρ : Env) :
    callLoop (strArrs bs) loop_HashCode.pre loop_HashCode.body loop_HashCode.after 1 bs.length ρ
      = StrHash.hashCode bs :=
  hashCode_fn_bridge _ _ _ (by decide +kernel) (by decide +kernel) (by decide +kernel) bs hw ρ

example : WFB [104, 105] := by decide

end C15Gen
