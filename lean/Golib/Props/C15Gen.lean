/-
  Props.C15Gen — tie A: facts regenerated from the Go source on every run (`Golib/Gen/C15.lean`,
  written by xlate/c15) against the hand-written CodeModels the theorems of Props.C15 are about.

  * constant tables and constants: equal to the model's (`decide`);
  * straight-line code (the four hash loop bodies, every bitutil function): the transcribed Go
    statements, run by the typed evaluator `GoX` with Go's integer semantics, give the CodeModel's
    value on grids of boundary inputs (boundary byte values × boundary registers for the hash steps;
    boundary × boundary for the bit helpers) — `decide +kernel`.
-/
import Golib.Gen.C15
import Golib.Hash.Crc
import Golib.Hash.Murmur
import Golib.Hash.Hexa32
import Golib.Hash.BitIp

namespace C15Gen
open GoX Gen.C15

/-! ### tables and constants -/

theorem table_tied : crcTable = Hash.table := by decide +kernel

theorem digits_tied : digits = Hexa32.digits.map Char.toNat := by decide +kernel

theorem hexa_constants_tied :
    plusChar = some 'x'.toNat ∧ minusChar = some 'z'.toNat
    ∧ toLongLimit = some Hexa32.limit ∧ toLongMultmin = some Hexa32.multmin
    ∧ toLongRadix = some 32 ∧ toStrRadix = some 32
    ∧ toString32Texts.contains "z8000000000000" = true ∧ toLong32Texts.contains "z8000000000000" = true := by
  decide +kernel

theorem murmur_constants_tied :
    murmur_murmurHash_m = some Murmur.m32 ∧ murmur_murmurHash_r = some 24
    ∧ murmur_MurmurHashLong_m = some Murmur.m32 ∧ murmur_MurmurHashLong_r = some 24
    ∧ murmur_murmurHashLong_m = some Murmur.m64 ∧ murmur_murmurHashLong_r = some 47
    ∧ murmur_MurmurHashByte_seed = some Murmur.defaultSeed
    ∧ murmur_MurmurHashLongByte_seed = some Murmur.defaultSeed := by decide +kernel

theorem hash_init_tied :
    init_Hash = some 0xffffffff ∧ init_Hash64 = some 0xffffffffffffffff
    ∧ init_Hash64v2 = some 0xffffffffffffffff ∧ init_Hash64V2 = some 0xffffffffffffffff := by decide +kernel

/-! ### hash loop bodies -/

def arrs : Arrays := [(sym_table, .i64, crcTable.map Int.ofNat)]

/-- byte values fed to the loop bodies (the table's *content* is tied entry by entry in `table_tied`;
    here the index computation, shifts, masks and conversions are exercised) -/
def someBytes : List Nat := [0, 1, 0x61, 0x7f, 0x80, 0xaa, 0xfe, 0xff]

def regs32 : List Nat :=
  [0, 1, 0x80, 0xff, 0x100, 0xffff, 0x10000, 0x7fffffff, 0x80000000, 0xffffffff, 0xedb88320, 0x12345678,
   0xdeadbeef, 0x00ff00ff, 0xff00ff00, 0xfffffffe]

def regs64 : List Nat :=
  [0, 1, 0xff, 0x100, 0xffffffff, 0x100000000, 0xff00000000, 0x7fffffffffffffff, 0x8000000000000000,
   0xffffffffffffffff, 0xedb88320edb88320, 0x123456789abcdef0, 0xdeadbeefcafebabe, 0x00ff00ff00ff00ff,
   0xff00ff00ff00ff00, 0xfffffffffffffffe, 0x0000ffff0000ffff, 0x8000000080000000]

def stepOk (body : List Stmt) (reg byteVar : Nat) (t : Ty) (model : Nat → Nat → Nat) (c b : Nat) : Bool :=
  step arrs [(reg, t, (c : Int)), (byteVar, .u8, (b : Int))] body reg == some ((model c b : Nat) : Int)

/-- the body of the loop of `Hash` computes `Hash.crcStep` -/
theorem hash_loop_tied :
    (regs32.all fun c => someBytes.all fun b => stepOk loop_Hash loop_Hash_register loop_Hash_byteVar .u32 Hash.crcStep c b) = true := by
  decide +kernel

theorem hash64_loop_tied :
    (regs64.all fun c => someBytes.all fun b => stepOk loop_Hash64 loop_Hash64_register loop_Hash64_byteVar .u64 Hash.crc64Step c b) = true := by
  decide +kernel

theorem hash64v2_loop_tied :
    (regs64.all fun c => someBytes.all fun b => stepOk loop_Hash64v2 loop_Hash64v2_register loop_Hash64v2_byteVar .u64 Hash.v2StepA c b) = true := by
  decide +kernel

theorem hash64V2_loop_tied :
    (regs64.all fun c => someBytes.all fun b => stepOk loop_Hash64V2 loop_Hash64V2_register loop_Hash64V2_byteVar .u64 Hash.v2StepB c b) = true := by
  decide +kernel

/-! ### bitutil function bodies -/

def g8 : List Int := [0, 1, 2, 127, 128, 129, 254, 255, 85, 170]
def g16 : List Int := [0, 1, -1, 2, -2, 127, 128, 255, 256, -128, -129, -256, 32767, 32766, -32768, -32767, 21845, -21846]
def g32 : List Int :=
  [0, 1, -1, 2, -2, 255, 256, -256, 32767, 32768, 65535, 65536, -32768, -32769, -65536, 2147483647, 2147483646,
   -2147483648, -2147483647, 1431655765, -1431655766]
def g64 : List Int :=
  [0, 1, -1, 2, -2, 255, 65535, 65536, 2147483647, 2147483648, 4294967295, 4294967296, 4294967297, -2147483648,
   -2147483649, -4294967295, -4294967296, -4294967297, 9223372036854775807, 9223372036854775806,
   -9223372036854775808, -9223372036854775807, 9223372032559808512, 6148914691236517205, -6148914691236517206]

def fn2Ok (f : Fn) (model : Int → Int → Int) (a b : Int) : Bool := call [] f [a, b] == some (model a b)
def fn1Ok (f : Fn) (model : Int → Int) (a : Int) : Bool := call [] f [a] == some (model a)

theorem composite_tied :
    (g32.all fun h => g32.all fun l => fn2Ok fn_Composite64 BitUtil.composite64 h l) = true
    ∧ (g16.all fun h => g16.all fun l => fn2Ok fn_Composite32 BitUtil.composite32 h l) = true
    ∧ (g8.all fun h => g8.all fun l => fn2Ok fn_Composite16 BitUtil.composite16 h l) = true := by decide +kernel

theorem set_tied :
    (g64.all fun s => g32.all fun h => fn2Ok fn_SetHigh64 BitUtil.setHigh64 s h) = true
    ∧ (g64.all fun s => g32.all fun l => fn2Ok fn_SetLow64 BitUtil.setLow64 s l) = true := by decide +kernel

theorem get_tied :
    (g64.all fun k => fn1Ok fn_GetHigh64 BitUtil.getHigh64 k) = true
    ∧ (g64.all fun k => fn1Ok fn_GetLow64 BitUtil.getLow64 k) = true
    ∧ (g32.all fun k => fn1Ok fn_GetHigh32 BitUtil.getHigh32 k) = true
    ∧ (g32.all fun k => fn1Ok fn_GetLow32 BitUtil.getLow32 k) = true
    ∧ (g16.all fun k => fn1Ok fn_GetHigh16 BitUtil.getHigh16 k) = true
    ∧ (g16.all fun k => fn1Ok fn_GetLow16 BitUtil.getLow16 k) = true := by decide +kernel

end C15Gen
