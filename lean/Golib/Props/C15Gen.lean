/-
  Props.C15Gen — tie A: the Go source, regenerated as Lean data on every run (`Golib/Gen/C15.lean`,
  written by xlate/c15 with Go's own type checker), against the CodeModels of Props.C15.

  * constant tables and constants are equal to the model's (`decide`);
  * code: every transcribed block is given the semantics `GoSem` (Go's sized-integer arithmetic) and is
    proved to compute the arithmetic CodeModel **for all inputs**.  Each theorem below is
    `bridge ∘ canonical-form equality`: the bridge theorem (Golib/Hash/GoBridge*.lean) is about the
    hand-kept copy `GoModel`; the equality of canonical forms of the regenerated block and that copy is
    decided here; `GoSemProofs` proves that blocks with equal canonical forms compute the same values
    (inlining of temporaries, order of independent statements, operand order of `| & ^ + *`).
-/
import Golib.Gen.C15
import Golib.Hash.GoBridgeHash
import Golib.Hash.GoBridgeHexa
import Golib.Hash.GoBridgeMurmur
import Golib.Hash.IpShape
import Golib.Hash.GoBridgeFull
import Golib.Hash.StrShape
import Golib.Hash.CrcProofs

namespace C15Gen
open GoSem GoBridge Gen.C15

/-- the translator met no construct it could not transcribe -/
theorem nothing_unknown : unknownCount = 0 := by decide

/-- **no hidden state**: no function of util/hash, util/hexa32, util/bitutil, util/iputil, hll/MurmurHash.go writes a
    package-level variable (assignment, increment or decrement, address taken, append/copy/delete, method call on it), and
    `stringutil.HashCode` touches none — so no result can depend on earlier calls (a cache breaks this by name) -/
theorem no_package_state_written :
    stateRefs.all (fun r => r.2.2.1 == "r" || (r.1 == "util/stringutil" && r.2.1 != "HashCode")) = true := by decide

/-- the only package-level variables of these packages are the two constant tables -/
theorem package_vars_tied :
    pkgVars.lookup "util/hash" = some ["table"] ∧ pkgVars.lookup "util/hexa32" = some ["digits"]
    ∧ pkgVars.lookup "util/bitutil" = some [] ∧ pkgVars.lookup "util/iputil" = some [] ∧ pkgVars.lookup "util/hll" = some [] := by
  decide

/-- **the caller's memory is never written**: no function of util/hash, util/hexa32, util/bitutil, util/iputil,
    hll/MurmurHash.go (nor `stringutil.HashCode`) stores through, appends to, copies into or takes the address of an element
    of a name that may alias one of its slice parameters (the parameters, and every local assigned from a slice expression or
    an `append` of one — a fixpoint).  `append(data[a:b], …)` is on the list because it writes into the spare capacity of the
    caller's array: a "pure" hash that pads its tail that way zeroes the bytes that follow the hashed region. -/
theorem no_argument_written :
    argWrites.all (fun r => r.1 == "util/stringutil" && r.2.1 != "HashCode") = true := by decide

/-- … and the only code outside these files that is ever handed (a slice of) a caller's slice is `io.ToInt`
    (read-only: C01's big-endian reader); every other receiver is a function of the same files, covered by
    `no_argument_written` -/
theorem argument_passed_tied :
    argPasses.all (fun r => r.2.2.1 == "local" || r.2.2.2 == "io.ToInt"
      || (r.1 == "util/stringutil" && r.2.1 != "HashCode")) = true := by decide

/-- the scan sees the property's functions: the hand-overs it is expected to report are reported -/
example : argPasses.contains ("util/hll", "MurmurHashLongByte", "local", "murmurHashLong") = true
    ∧ argPasses.contains ("util/iputil", "ToInt", "extern", "io.ToInt") = true := by decide

/-! ### tables and constants -/

theorem table_tied : crcTable = Hash.table := by decide +kernel

theorem digits_tied : digits = Hexa32.digits.map Char.toNat := by decide +kernel

theorem hexa_constants_tied :
    plusChar = some 'x'.toNat ∧ minusChar = some 'z'.toNat
    ∧ toString32Texts.contains "z8000000000000" = true ∧ toLong32Texts.contains "z8000000000000" = true := by
  decide +kernel

theorem murmur_seeds_tied :
    murmur_MurmurHashByte_seed = some Murmur.defaultSeed
    ∧ murmur_MurmurHashLongByte_seed = some Murmur.defaultSeed := by decide +kernel

/-- the exported murmur entry points are one call each (parameters written `#k`, constants by value):
    `MurmurHash(o) = MurmurHashLong(uint64(o))` (model `Murmur.murmurU32`, `C15.murmurU32_ref`);
    `MurmurHashByte(data) = murmurHash(data, int32(len(data)), 0xe17a1465)` and `MurmurHashByteSeed(data, seed)` likewise — so the
    hypothesis `ρ 1 = data.length` of `murmurHash_full_tied` is what every exported caller passes;
    `MurmurHashLongByte(data, length) = murmurHashLong(data, length, 0xe17a1465)` hands the caller's `length` through
    (`Murmur.murmurLongByte`, `C15.murmurLongByte_prefix`) -/
theorem murmur_wrappers_tied :
    wrapcall_MurmurHash = ("MurmurHashLong", ["uint64(#0)"])
    ∧ wrapcall_MurmurHashByte = ("murmurHash", ["#0", "int32(len(#0))", "3782874213"])
    ∧ wrapcall_MurmurHashByteSeed = ("murmurHash", ["#0", "int32(len(#0))", "#1"])
    ∧ wrapcall_MurmurHashLongByte = ("murmurHashLong", ["#0", "#1", "3782874213"])
    ∧ Murmur.defaultSeed = 3782874213 := by decide +kernel

/-- the string forms call the byte forms: `HashStr(s) = Hash([]byte(s))`, `Hash64Str → Hash64`,
    `Hash64StrV2 → Hash64V2`, `GetLongHash(s) = if s == "" then 0 else Hash64v2([]byte(s))`
    (modelled as `Hash.hashStr := Hash.hash`, `Hash.getLongHash`) -/
theorem wrappers_tied :
    wrapper_HashStr = ("Hash", none) ∧ wrapper_Hash64Str = ("Hash64", none)
    ∧ wrapper_Hash64StrV2 = ("Hash64V2", none) ∧ wrapper_GetLongHash = ("Hash64v2", some 0) := by decide

/-! ### util/bitutil — every function, all inputs -/

open BitUtil

theorem composite64_tied (h l : Int) (hh : isI32 h) (hl : isI32 l) :
    call noArr fn_Composite64 [h, l] = composite64 h l := by
  rw [call_congr (g := GoModel.fn_Composite64) (by decide +kernel) (by decide +kernel)]
  exact composite64_bridge h l hh hl

theorem composite32_tied (h l : Int) (hh : isI16 h) (hl : isI16 l) :
    call noArr fn_Composite32 [h, l] = composite32 h l := by
  rw [call_congr (g := GoModel.fn_Composite32) (by decide +kernel) (by decide +kernel)]
  exact composite32_bridge h l hh hl

theorem composite16_tied (h l : Int) (hh : isU8 h) (hl : isU8 l) :
    call noArr fn_Composite16 [h, l] = composite16 h l := by
  rw [call_congr (g := GoModel.fn_Composite16) (by decide +kernel) (by decide +kernel)]
  exact composite16_bridge h l hh hl

theorem setHigh64_tied (s h : Int) (hs : isI64 s) (hh : isI32 h) :
    call noArr fn_SetHigh64 [s, h] = setHigh64 s h := by
  rw [call_congr (g := GoModel.fn_SetHigh64) (by decide +kernel) (by decide +kernel)]
  exact setHigh64_bridge s h hs hh

theorem setLow64_tied (s l : Int) (hs : isI64 s) (hl : isI32 l) :
    call noArr fn_SetLow64 [s, l] = setLow64 s l := by
  rw [call_congr (g := GoModel.fn_SetLow64) (by decide +kernel) (by decide +kernel)]
  exact setLow64_bridge s l hs hl

theorem getHigh64_tied (k : Int) (hk : isI64 k) : call noArr fn_GetHigh64 [k] = getHigh64 k := by
  rw [call_congr (g := GoModel.fn_GetHigh64) (by decide +kernel) (by decide +kernel)]
  exact getHigh64_bridge k hk

theorem getLow64_tied (k : Int) (hk : isI64 k) : call noArr fn_GetLow64 [k] = getLow64 k := by
  rw [call_congr (g := GoModel.fn_GetLow64) (by decide +kernel) (by decide +kernel)]
  exact getLow64_bridge k hk

theorem getHigh32_tied (k : Int) (hk : isI32 k) : call noArr fn_GetHigh32 [k] = getHigh32 k := by
  rw [call_congr (g := GoModel.fn_GetHigh32) (by decide +kernel) (by decide +kernel)]
  exact getHigh32_bridge k hk

theorem getLow32_tied (k : Int) (hk : isI32 k) : call noArr fn_GetLow32 [k] = getLow32 k := by
  rw [call_congr (g := GoModel.fn_GetLow32) (by decide +kernel) (by decide +kernel)]
  exact getLow32_bridge k hk

theorem getHigh16_tied (k : Int) (hk : isI16 k) : call noArr fn_GetHigh16 [k] = getHigh16 k := by
  rw [call_congr (g := GoModel.fn_GetHigh16) (by decide +kernel) (by decide +kernel)]
  exact getHigh16_bridge k hk

theorem getLow16_tied (k : Int) (hk : isI16 k) : call noArr fn_GetLow16 [k] = getLow16 k := by
  rw [call_congr (g := GoModel.fn_GetLow16) (by decide +kernel) (by decide +kernel)]
  exact getLow16_bridge k hk

example : isI32 (-1) ∧ isI64 (-5) := by unfold isI32 isI64; decide

/-! ### util/hash — whole functions: guard, prelude, `for` header (as a `while` loop), body, final block -/

/-- **`Hash(bytes)`**, nil or not: `crc := 0xffffffff; sz := len(bytes); for i := 0; i < sz; i++ { … }; crc ^= …;
    return int32(crc)` — every block regenerated from the source and interpreted by `GoSem` — is `Hash.hash`,
    hence CRC-32 (IEEE) of the bytes by `C15.hash_is_crc32`.  No hypothesis on the start environment. -/
theorem hash_full_tied (o : Option Bytes) (hw : WFB (o.getD [])) (hl : (o.getD []).length < 4611686018427387904) (ρ : Env) (e : Nat) :
    callWhile (hashArrsO o) loop_Hash.pre loop_Hash.init loop_Hash.cond loop_Hash.post loop_Hash.body loop_Hash.after
      ((o.getD []).length + 1 + e) ρ = Hash.hash (o.getD []) :=
  hash_full_bridge _ _ _ _ _ _ ⟨by decide +kernel, by decide +kernel, by decide +kernel, by decide +kernel,
    by decide +kernel, by decide +kernel⟩ o hw hl ρ e

theorem hash64_full_tied (o : Option Bytes) (hw : WFB (o.getD [])) (hl : (o.getD []).length < 4611686018427387904) (ρ : Env) (e : Nat) :
    callWhile (hashArrsO o) loop_Hash64.pre loop_Hash64.init loop_Hash64.cond loop_Hash64.post loop_Hash64.body
      loop_Hash64.after ((o.getD []).length + 1 + e) ρ = Hash.hash64 (o.getD []) :=
  hash64_full_bridge _ _ _ _ _ _ ⟨by decide +kernel, by decide +kernel, by decide +kernel, by decide +kernel,
    by decide +kernel, by decide +kernel⟩ o hw hl ρ e

/-- the regenerated `Hash` computes CRC-32 (IEEE) of the bytes, read as int32 — the property's first clause,
    stated about the regenerated code -/
theorem hash_crc32_tied (o : Option Bytes) (hw : WFB (o.getD [])) (hl : (o.getD []).length < 4611686018427387904) (ρ : Env) (e : Nat) :
    callWhile (hashArrsO o) loop_Hash.pre loop_Hash.init loop_Hash.cond loop_Hash.post loop_Hash.body loop_Hash.after
      ((o.getD []).length + 1 + e) ρ = Hash.toI32 (Hash.crc32 (o.getD [])) := by
  rw [hash_full_tied o hw hl ρ e]
  unfold Hash.hash
  rw [Hash.hashU_eq_crc32 _ hw]

/-- the regenerated table is the CRC-32 table: entry `i` = eight shift/xor steps of `i` with 0xEDB88320 -/
theorem crc_table_generated_tied : crcTable = (List.range 256).map Hash.crcEntry := by
  rw [table_tied]; exact Hash.table_eq_entries

/-- `Hash64v2` including `if bytes == nil { return 0 }` (`none` is the nil slice) -/
theorem hash64v2_full_tied (o : Option Bytes) (hw : WFB (o.getD [])) (hl : (o.getD []).length < 4611686018427387904)
    (ρ : Env) (e : Nat) :
    callWhile (hashArrsO o) loop_Hash64v2.pre loop_Hash64v2.init loop_Hash64v2.cond loop_Hash64v2.post loop_Hash64v2.body
      loop_Hash64v2.after ((o.getD []).length + 1 + e) ρ = Hash.hash64v2 o :=
  hash64v2_full_bridge _ _ _ _ _ _ ⟨by decide +kernel, by decide +kernel, by decide +kernel, by decide +kernel,
    by decide +kernel, by decide +kernel⟩ o hw hl ρ e

/-- `Hash64V2` including `if sz := len(bytes); sz == 0 { return 0 } else { … }` -/
theorem hash64V2_full_tied (o : Option Bytes) (hw : WFB (o.getD [])) (hl : (o.getD []).length < 4611686018427387904)
    (ρ : Env) (e : Nat) :
    callWhile (hashArrsO o) loop_Hash64V2.pre loop_Hash64V2.init loop_Hash64V2.cond loop_Hash64V2.post loop_Hash64V2.body
      loop_Hash64V2.after ((o.getD []).length + 1 + e) ρ = Hash.hash64V2 o :=
  hash64V2_full_bridge _ _ _ _ _ _ ⟨by decide +kernel, by decide +kernel, by decide +kernel, by decide +kernel,
    by decide +kernel, by decide +kernel⟩ o hw hl ρ e

/-- hence the two regenerated v2 implementations agree on every input -/
theorem hash64v2_agree_tied (o : Option Bytes) (hw : WFB (o.getD [])) (hl : (o.getD []).length < 4611686018427387904)
    (ρ ρ' : Env) (e : Nat) :
    callWhile (hashArrsO o) loop_Hash64v2.pre loop_Hash64v2.init loop_Hash64v2.cond loop_Hash64v2.post loop_Hash64v2.body
      loop_Hash64v2.after ((o.getD []).length + 1 + e) ρ
    = callWhile (hashArrsO o) loop_Hash64V2.pre loop_Hash64V2.init loop_Hash64V2.cond loop_Hash64V2.post
      loop_Hash64V2.body loop_Hash64V2.after ((o.getD []).length + 1 + e) ρ' := by
  rw [hash64v2_full_tied o hw hl ρ e, hash64V2_full_tied o hw hl ρ' e]
  exact Hash.hash64v2_agree o

/-- `HashAddr`: `switch len(src) { case 4: c := ToInt(src); return int64(c)*int64(c)  case 8: return ToLong(src)
    default: return int64(Hash(src)) }`; the three calls are pseudo-variables 1, 3, 4 holding the callees' results -/
theorem hashAddr_tied (src : Bytes) (hw : WFB src) (ρ : Env)
    (h1 : ρ 1 = (Hash.toInt src).getD 0) (h3 : ρ 3 = (Hash.toLong src).getD 0) (h4 : ρ 4 = Hash.hash src) :
    retVal (runRet (bufArrs src) ρ fn_HashAddr.body) = Hash.hashAddr src :=
  hashAddr_bridge _ (by decide +kernel) src hw ρ h1 h3 h4

/-- which identifier numbers stand for the three calls (`#0` is the parameter `src`) -/
theorem hashAddr_calls_tied :
    fn_HashAddr.names.lookup "ToInt(#0)" = some 1 ∧ fn_HashAddr.names.lookup "ToLong(#0)" = some 3
    ∧ fn_HashAddr.names.lookup "Hash(#0)" = some 4 := by decide

/-- `stringutil.HashCode`, whole function with its `for i := 0; i < len(s); i++` -/
theorem hashCode_full_tied (bs : Bytes) (hw : WFB bs) (hl : bs.length < 4611686018427387904) (ρ : Env) (e : Nat) :
    callWhile (strArrs bs) loop_HashCode.pre loop_HashCode.init loop_HashCode.cond loop_HashCode.post loop_HashCode.body
      loop_HashCode.after (bs.length + 1 + e) ρ = StrHash.hashCode bs :=
  hashCode_full_bridge _ _ _ _ _ _ (by decide +kernel) (by decide +kernel) (by decide +kernel) (by decide +kernel)
    (by decide +kernel) (by decide +kernel) (by decide +kernel) bs hw hl ρ e

example : WFB ((some [104, 105] : Option Bytes).getD []) := by decide

/-! ### util/hexa32 — `to_long` and `to_str`, whole functions -/

/-- `to_long`: prelude (`result`, `limit = -MaxInt64`, `multmin = limit/32`), per character
    `digit := findc(…)` and the guarded loop body, final `-result` — is `Hexa32.toLong`, for every text -/
theorem toLong_tied (ρ : Env) (cs : List Char) :
    goToLong noArr fn_findc loop_to_long.body loop_to_long.after (runEnv noArr ρ loop_to_long.pre) cs
      = Hexa32.toLong cs :=
  toLong_fn_bridge fn_findc loop_to_long.pre loop_to_long.body loop_to_long.after
    (by decide +kernel) (by decide +kernel) (by decide +kernel) (by decide +kernel) noArr ρ cs

/-- the character loop of `to_long` is `for i := 0; i < len(s); i++` (compared as text; its meaning is the
    recursion over the characters in `GoBridge.goToLong`) -/
theorem toLong_header_tied : loop_to_long.header = ["#1 := 0", "#1 < len(#0)", "#1++"] := by decide

/-- the closure `findc` -/
theorem findc_tied (c : Char) : call noArr fn_findc [(c.toNat : Int)] = Hexa32.findc c := by
  have h : fn_findc.params = GoModel.fn_findc.params ∧ normStmts fn_findc.body = normStmts GoModel.fn_findc.body := by
    decide +kernel
  rw [← findc_bridge c]
  unfold call
  rw [h.1, (normStmts_eq h.2 noArr _).2]

/-- `to_str(v)`: `radix := 32`, `i = -i`, the digit loop on the negated value (condition, stored digit,
    `i = i / radix`), the last digit — is `Hexa32.toStr v`, for every `0 ≤ v ≤ MaxInt64` -/
theorem toStr_tied (v : Int) (hv : 0 ≤ v ∧ v ≤ Hexa32.maxInt64) (ρ : Env) (h0 : ρ 0 = v) (fuel : Nat) (hf : v.natAbs ≤ fuel) :
    goToStrLoop hexaArrs loop_to_str.cond loop_to_str.body loop_to_str.post loop_to_str.after (fuel + 1)
      (runEnv hexaArrs (runEnv hexaArrs ρ loop_to_str.pre) loop_to_str.init) [] = Hexa32.toStr v :=
  toStr_fn_bridge _ _ _ _ _ _ (by decide +kernel) (by decide +kernel) (by decide +kernel) (by decide +kernel)
    (by decide +kernel) (by decide +kernel) v hv ρ h0 fuel hf

example : (0 : Int) ≤ 35 ∧ (35 : Int) ≤ Hexa32.maxInt64 := by decide

/-! ### util/hexa32 — the top level: `ToString32`, `ToLong32` and the bijection, all from regenerated code -/

/-- `to_str(v)` as regenerated and interpreted -/
def goToStrF (v : Int) : List Char :=
  goToStrLoop hexaArrs loop_to_str.cond loop_to_str.body loop_to_str.post loop_to_str.after (v.natAbs + 1)
    (runEnv hexaArrs (runEnv hexaArrs (upd (fun _ => 0) 0 v) loop_to_str.pre) loop_to_str.init) []

/-- `to_long(s)` as regenerated and interpreted -/
def goToLongF (cs : List Char) : Int :=
  goToLong noArr fn_findc loop_to_long.body loop_to_long.after (runEnv noArr (fun _ => 0) loop_to_long.pre) cs

/-- **`ToString32(num)`** — sign test, the MinInt64 literal, `"z" + to_str(-num)`, `strconv.Itoa` for 0..9,
    `"x" + to_str(num)`, with `to_str` the regenerated function — is `Hexa32.toString32`, on all of int64 -/
theorem toString32_full_tied (n : Int) (hn : Hexa32.minInt64 ≤ n ∧ n ≤ Hexa32.maxInt64) (A : Arrays) (ρ : Env) (h0 : ρ 0 = n) :
    StrShape.evalT goToStrF ρ A tree_ToString32 = Hexa32.toString32 n := by
  have e : tree_ToString32 = GoModel.tree_ToString32 := by decide +kernel
  rw [e]
  exact StrShape.toString32_bridge goToStrF
    (fun v h0 h1 => toStr_tied v ⟨h0, h1⟩ _ (by simp [upd]) _ (Nat.le_refl _)) A ρ n h0 hn.1 hn.2

/-- **`ToLong32(str)`** — empty text, first byte `z` / `x`, the MinInt64 literal, `-1 * to_long(str[1:])`,
    `strconv.Atoi` otherwise, with `to_long` the regenerated function — is `Hexa32.toLong32`, on every text -/
theorem toLong32_full_tied (s : List Char) : StrShape.evalD goToLongF s tree_ToLong32 = Hexa32.toLong32 s := by
  have e : tree_ToLong32 = GoModel.tree_ToLong32 := by decide +kernel
  rw [e]
  exact StrShape.toLong32_bridge goToLongF (fun t => toLong_tied _ t) s

/-- **the identifier encoding is a bijection on int64, stated about the regenerated code**: decoding (regenerated
    `ToLong32`) the encoding (regenerated `ToString32`) of any 64-bit integer returns it — MinInt64 and both signs included -/
theorem hexa_bijection_tied (n : Int) (hn : Hexa32.minInt64 ≤ n ∧ n ≤ Hexa32.maxInt64) (A : Arrays) (ρ : Env) (h0 : ρ 0 = n) :
    StrShape.evalD goToLongF (StrShape.evalT goToStrF ρ A tree_ToString32) tree_ToLong32 = n := by
  rw [toString32_full_tied n hn A ρ h0, toLong32_full_tied]
  exact Hexa32.toLong32_toString32 n hn.1 hn.2

example : Hexa32.minInt64 ≤ Hexa32.minInt64 ∧ Hexa32.minInt64 ≤ Hexa32.maxInt64 := by decide

/-! ### util/hll — MurmurHashLong and murmurHash, whole functions -/

theorem murmurHashLong_fn_tied (d : Nat) (hd : d < 18446744073709551616) :
    call noArr fn_MurmurHashLong [(d : Int)] = ((Murmur.murmurLong d : Nat) : Int) := by
  rw [call_congr (g := GoModel.fn_MurmurHashLong) (by decide +kernel) (by decide +kernel)]
  exact murmurLong_bridge d hd

/-- `murmurHash(data, len(data), seed)` with its header `for i := 0; i < int(len_4); i++` interpreted: prelude,
    loop, tail and avalanche — is `Murmur.murmur32 data seed` (Props.C15: the exact relation to MurmurHash2).
    `ρ 1`, `ρ 2` are the arguments `length`, `seed`. -/
theorem murmurHash_full_tied (data : Bytes) (hw : WFB data) (seed : Nat) (hs : seed < 4294967296)
    (hl : data.length < 2147483648) (ρ : Env) (h1 : ρ 1 = (data.length : Int)) (h2 : ρ 2 = (seed : Int)) (e : Nat) :
    callWhile (dataArrs data) loop_murmurHash.pre loop_murmurHash.init loop_murmurHash.cond loop_murmurHash.post
      loop_murmurHash.body loop_murmurHash.after (data.length / 4 + 1 + e) ρ = ((Murmur.murmur32 data seed : Nat) : Int) :=
  murmur32_full_bridge _ _ _ _ _ _ (by decide +kernel) (by decide +kernel) (by decide +kernel) (by decide +kernel)
    (by decide +kernel) (by decide +kernel) (by decide +kernel) data hw seed hs hl ρ h1 h2 e

/-- … which is the published MurmurHash2 of the input with its last `len % 4` bytes reversed -/
theorem murmurHash_ref_tied (data : Bytes) (hw : WFB data) (seed : Nat) (hs : seed < 4294967296)
    (hl : data.length < 2147483648) (ρ : Env) (h1 : ρ 1 = (data.length : Int)) (h2 : ρ 2 = (seed : Int)) (e : Nat) :
    callWhile (dataArrs data) loop_murmurHash.pre loop_murmurHash.init loop_murmurHash.cond loop_murmurHash.post
      loop_murmurHash.body loop_murmurHash.after (data.length / 4 + 1 + e) ρ
      = ((Murmur.Ref.murmurHash2 (Murmur.swapTail data) seed : Nat) : Int) := by
  rw [murmurHash_full_tied data hw seed hs hl ρ h1 h2 e, Murmur.murmur32_eq_ref_swapTail data seed hw]

/-- `murmurHashLong(data, len(data), seed)` (behind `MurmurHashLongByte`): prelude, `for i := 0; i < int(length8); i++`,
    the fall-through `switch` on `length % 8`, avalanche — is `Murmur.murmur64 data seed` = MurmurHash64A -/
theorem murmurHashLong64_full_tied (data : Bytes) (hw : WFB data) (seed : Nat) (hs : seed < 4294967296)
    (hl : data.length < 2147483648) (ρ : Env) (h1 : ρ 1 = (data.length : Int)) (h2 : ρ 2 = (seed : Int)) (e : Nat) :
    callWhile (dataArrs data) loop_murmurHashLong.pre loop_murmurHashLong.init loop_murmurHashLong.cond
      loop_murmurHashLong.post loop_murmurHashLong.body loop_murmurHashLong.after (data.length / 8 + 1 + e) ρ
      = ((Murmur.murmur64 data seed : Nat) : Int) :=
  murmur64_full_bridge _ _ _ _ _ _ (by decide +kernel) (by decide +kernel) (by decide +kernel) (by decide +kernel)
    (by decide +kernel) (by decide +kernel) (by decide +kernel) data hw seed hs hl ρ h1 h2 e

/-- the regenerated `murmurHashLong` is the published MurmurHash64A -/
theorem murmurHashLong64_ref_tied (data : Bytes) (hw : WFB data) (seed : Nat) (hs : seed < 4294967296)
    (hl : data.length < 2147483648) (ρ : Env) (h1 : ρ 1 = (data.length : Int)) (h2 : ρ 2 = (seed : Int)) (e : Nat) :
    callWhile (dataArrs data) loop_murmurHashLong.pre loop_murmurHashLong.init loop_murmurHashLong.cond
      loop_murmurHashLong.post loop_murmurHashLong.body loop_murmurHashLong.after (data.length / 8 + 1 + e) ρ
      = ((Murmur.Ref.murmurHash64A data seed : Nat) : Int) := by
  rw [murmurHashLong64_full_tied data hw seed hs hl ρ h1 h2 e, Murmur.murmur64_eq_ref data seed hw]

/-! ### hash.ToInt / hash.ToLong -/

theorem toInt_tied (a b c d : Nat) (rest : Bytes) (ha : a < 256) (hb : b < 256) (hc : c < 256) (hd : d < 256) :
    some (call (bufArrs (a :: b :: c :: d :: rest)) fn_ToInt []) = Hash.toInt (a :: b :: c :: d :: rest) := by
  rw [call_congr (g := GoModel.fn_ToInt) (by decide +kernel) (by decide +kernel)]
  exact toInt_bridge a b c d rest ha hb hc hd

theorem toLong_bytes_tied (a b c d e f g h : Nat) (rest : Bytes) (ha : a < 256) (hb : b < 256) (hc : c < 256)
    (hd : d < 256) (he : e < 256) (hf : f < 256) (hg : g < 256) (hh : h < 256) :
    some (call (bufArrs (a :: b :: c :: d :: e :: f :: g :: h :: rest)) fn_ToLong [])
      = Hash.toLong (a :: b :: c :: d :: e :: f :: g :: h :: rest) := by
  rw [call_congr (g := GoModel.fn_ToLong) (by decide +kernel) (by decide +kernel)]
  exact toLong_bridge a b c d e f g h rest ha hb hc hd he hf hg hh

/-! ### util/iputil — the shape of ToString / ToBytes, interpreted -/

/-- the sequence of buffer writes of `ToString` and its empty-slice text, interpreted by
    `IpShape.toStringOf`, is `IpUtil.toString` on every slice -/
theorem ipToString_tied (ip : Bytes) :
    IpShape.toStringOf ipToString_pieces ipToString_empty ip = IpUtil.toString ip := by
  have h : ipToString_pieces = [.octet 0, .text ".", .octet 1, .text ".", .octet 2, .text ".", .octet 3]
      ∧ ipToString_empty = "0.0.0.0" := by decide
  rw [h.1, h.2]; exact IpShape.toStringOf_model ip

/-- separator, part count, loop bound, mask and default bytes of `ToBytes`, interpreted by
    `IpShape.toBytesOf`, give `IpUtil.toBytes` on every text -/
theorem ipToBytes_tied (s : List Char) :
    IpShape.toBytesOf ipToBytes_sep ipToBytes_count ipToBytes_bound ipToBytes_mask ipToBytes_default s
      = IpUtil.toBytes s := by
  have h : ipToBytes_sep = "." ∧ ipToBytes_count = 4 ∧ ipToBytes_bound = 4 ∧ ipToBytes_mask = 255
      ∧ ipToBytes_default = [0, 0, 0, 0] := by decide
  rw [h.1, h.2.1, h.2.2.1, h.2.2.2.1, h.2.2.2.2]; exact IpShape.toBytesOf_model s

/-! ### non-vacuity: the hypotheses of the ties above are met by concrete inputs -/

example : callWhile (hashArrsO (some [104, 105])) loop_Hash.pre loop_Hash.init loop_Hash.cond loop_Hash.post loop_Hash.body
    loop_Hash.after 3 (fun _ => 0) = Hash.hash [104, 105] :=
  hash_full_tied (some [104, 105]) (by decide) (by decide) (fun _ => 0) 0

example : callWhile (hashArrsO none) loop_Hash64v2.pre loop_Hash64v2.init loop_Hash64v2.cond loop_Hash64v2.post
    loop_Hash64v2.body loop_Hash64v2.after 1 (fun _ => 7) = 0 :=
  hash64v2_full_tied none (by decide) (by decide) (fun _ => 7) 0

example : callWhile (dataArrs [1, 2, 3]) loop_murmurHash.pre loop_murmurHash.init loop_murmurHash.cond loop_murmurHash.post
    loop_murmurHash.body loop_murmurHash.after 1 (upd (upd (fun _ => 0) 1 3) 2 7) = ((Murmur.murmur32 [1, 2, 3] 7 : Nat) : Int) :=
  murmurHash_full_tied [1, 2, 3] (by decide) 7 (by decide) (by decide) _ (by simp [upd]) (by simp [upd]) 0

example (A : Arrays) : StrShape.evalD goToLongF (StrShape.evalT goToStrF (upd (fun _ => 0) 0 Hexa32.minInt64) A tree_ToString32)
    tree_ToLong32 = Hexa32.minInt64 :=
  hexa_bijection_tied Hexa32.minInt64 (by decide) A _ (by simp [upd])

example (src : Bytes) (hw : WFB src) :
    retVal (runRet (bufArrs src)
      (upd (upd (upd (fun _ => 0) 1 ((Hash.toInt src).getD 0)) 3 ((Hash.toLong src).getD 0)) 4 (Hash.hash src))
      fn_HashAddr.body) = Hash.hashAddr src :=
  hashAddr_tied src hw _ (by simp [upd]) (by simp [upd]) (by simp [upd])

end C15Gen
