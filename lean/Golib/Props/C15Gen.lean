/-
  Props.C15Gen — tie A: the Go source, regenerated as Lean data on every run (`Golib/Gen/C15.lean`,
  written by xlate/c15 with Go's own type checker), against the CodeModels of Props.C15.

  * constant tables and constants are equal to the model's (`decide`);
  * code: every transcribed block is given the semantics `GoSem` (Go's sized-integer arithmetic) and is
    proved to compute the arithmetic CodeModel **for all inputs**.  Each theorem below is
    `bridge ∘ canonical-form equality`: the bridge theorem (Golib/Hash/GoBridge*.lean) is about the
    hand-kept copy `GoModel`; the equality of canonical forms of the regenerated block and that copy is
    decided here; `GoSemProofs` proves that blocks with equal canonical forms compute the same values
    (inlining of temporaries, order of independent statements, operand order of `| & ^ + *`).
-/
import Golib.Gen.C15
import Golib.Hash.GoBridgeHash
import Golib.Hash.GoBridgeHexa
import Golib.Hash.GoBridgeMurmur
import Golib.Hash.IpShape

namespace C15Gen
open GoSem GoBridge Gen.C15

/-- the translator met no construct it could not transcribe -/
theorem nothing_unknown : unknownCount = 0 := by decide

/-! ### tables and constants -/

theorem table_tied : crcTable = Hash.table := by decide +kernel

theorem digits_tied : digits = Hexa32.digits.map Char.toNat := by decide +kernel

theorem hexa_constants_tied :
    plusChar = some 'x'.toNat ∧ minusChar = some 'z'.toNat
    ∧ toString32Texts.contains "z8000000000000" = true ∧ toLong32Texts.contains "z8000000000000" = true := by
  decide +kernel

theorem murmur_seeds_tied :
    murmur_MurmurHashByte_seed = some Murmur.defaultSeed
    ∧ murmur_MurmurHashLongByte_seed = some Murmur.defaultSeed := by decide +kernel

/-- the constant each register starts from -/
theorem hash_init_tied :
    loop_Hash.init = some 0xffffffff ∧ loop_Hash64.init = some 0xffffffffffffffff
    ∧ loop_Hash64v2.init = some 0xffffffffffffffff ∧ loop_Hash64V2.init = some 0xffffffffffffffff
    ∧ loop_HashCode.init = some 0 := by decide +kernel

/-- the string forms call the byte forms: `HashStr(s) = Hash([]byte(s))`, `Hash64Str → Hash64`,
    `Hash64StrV2 → Hash64V2`, `GetLongHash(s) = if s == "" then 0 else Hash64v2([]byte(s))`
    (modelled as `Hash.hashStr := Hash.hash`, `Hash.getLongHash`) -/
theorem wrappers_tied :
    wrapper_HashStr = ("Hash", none) ∧ wrapper_Hash64Str = ("Hash64", none)
    ∧ wrapper_Hash64StrV2 = ("Hash64V2", none) ∧ wrapper_GetLongHash = ("Hash64v2", some 0) := by decide

/-! ### util/bitutil — every function, all inputs -/

open BitUtil

theorem composite64_tied (h l : Int) (hh : isI32 h) (hl : isI32 l) :
    call noArr fn_Composite64 [h, l] = composite64 h l := by
  rw [call_congr (g := GoModel.fn_Composite64) (by decide +kernel) (by decide +kernel)]
  exact composite64_bridge h l hh hl

theorem composite32_tied (h l : Int) (hh : isI16 h) (hl : isI16 l) :
    call noArr fn_Composite32 [h, l] = composite32 h l := by
  rw [call_congr (g := GoModel.fn_Composite32) (by decide +kernel) (by decide +kernel)]
  exact composite32_bridge h l hh hl

theorem composite16_tied (h l : Int) (hh : isU8 h) (hl : isU8 l) :
    call noArr fn_Composite16 [h, l] = composite16 h l := by
  rw [call_congr (g := GoModel.fn_Composite16) (by decide +kernel) (by decide +kernel)]
  exact composite16_bridge h l hh hl

theorem setHigh64_tied (s h : Int) (hs : isI64 s) (hh : isI32 h) :
    call noArr fn_SetHigh64 [s, h] = setHigh64 s h := by
  rw [call_congr (g := GoModel.fn_SetHigh64) (by decide +kernel) (by decide +kernel)]
  exact setHigh64_bridge s h hs hh

theorem setLow64_tied (s l : Int) (hs : isI64 s) (hl : isI32 l) :
    call noArr fn_SetLow64 [s, l] = setLow64 s l := by
  rw [call_congr (g := GoModel.fn_SetLow64) (by decide +kernel) (by decide +kernel)]
  exact setLow64_bridge s l hs hl

theorem getHigh64_tied (k : Int) (hk : isI64 k) : call noArr fn_GetHigh64 [k] = getHigh64 k := by
  rw [call_congr (g := GoModel.fn_GetHigh64) (by decide +kernel) (by decide +kernel)]
  exact getHigh64_bridge k hk

theorem getLow64_tied (k : Int) (hk : isI64 k) : call noArr fn_GetLow64 [k] = getLow64 k := by
  rw [call_congr (g := GoModel.fn_GetLow64) (by decide +kernel) (by decide +kernel)]
  exact getLow64_bridge k hk

theorem getHigh32_tied (k : Int) (hk : isI32 k) : call noArr fn_GetHigh32 [k] = getHigh32 k := by
  rw [call_congr (g := GoModel.fn_GetHigh32) (by decide +kernel) (by decide +kernel)]
  exact getHigh32_bridge k hk

theorem getLow32_tied (k : Int) (hk : isI32 k) : call noArr fn_GetLow32 [k] = getLow32 k := by
  rw [call_congr (g := GoModel.fn_GetLow32) (by decide +kernel) (by decide +kernel)]
  exact getLow32_bridge k hk

theorem getHigh16_tied (k : Int) (hk : isI16 k) : call noArr fn_GetHigh16 [k] = getHigh16 k := by
  rw [call_congr (g := GoModel.fn_GetHigh16) (by decide +kernel) (by decide +kernel)]
  exact getHigh16_bridge k hk

theorem getLow16_tied (k : Int) (hk : isI16 k) : call noArr fn_GetLow16 [k] = getLow16 k := by
  rw [call_congr (g := GoModel.fn_GetLow16) (by decide +kernel) (by decide +kernel)]
  exact getLow16_bridge k hk

example : isI32 (-1) ∧ isI64 (-5) := by unfold isI32 isI64; decide

/-! ### util/hash — the whole loops, every byte string -/

/-- loop headers `for i := 0; i < len(bytes); i++`; the loop variable is identifier 1, the only variable
    carried around the loop (the register) is identifier 2, the slice parameter identifier 0 -/
theorem hash_headers_tied :
    loop_Hash.header = ["#1 := 0", "#1 < len(#0)", "#1++"] ∧ loop_Hash64.header = ["#1 := 0", "#1 < len(#0)", "#1++"]
    ∧ loop_Hash64v2.header = ["#1 := 0", "#1 < len(#0)", "#1++"] ∧ loop_Hash64V2.header = ["#1 := 0", "#1 < len(#0)", "#1++"]
    ∧ loop_HashCode.header = ["#1 := 0", "#1 < len(#0)", "#1++"]
    ∧ loop_Hash.loopVar = 1 ∧ loop_Hash.carried = [2] ∧ loop_Hash64.loopVar = 1 ∧ loop_Hash64.carried = [2]
    ∧ loop_Hash64v2.loopVar = 1 ∧ loop_Hash64v2.carried = [2] ∧ loop_Hash64V2.loopVar = 1 ∧ loop_Hash64V2.carried = [2]
    ∧ loop_HashCode.loopVar = 1 ∧ loop_HashCode.carried = [2] := by decide

/-- `Hash`: register (identifier 2) starting at 0xffffffff, the transcribed loop body run once per index,
    the transcribed final block — is `Hash.hash bs` (hence CRC-32 by `C15.hash_is_crc32`) -/
theorem hash_tied (bs : Bytes) (hw : WFB bs) (ρ : Env) (hρ : ρ 2 = 4294967295) :
    retVal (runRet (hashArrs bs) (forLoop (hashArrs bs) loop_Hash.body 1 bs.length 0 ρ) loop_Hash.after)
      = Hash.hash bs :=
  hash_fn_bridge _ _ (by decide +kernel) (by decide +kernel) bs hw ρ hρ

theorem hash64_tied (bs : Bytes) (hw : WFB bs) (ρ : Env) (hρ : ρ 2 = 18446744073709551615) :
    retVal (runRet (hashArrs bs) (forLoop (hashArrs bs) loop_Hash64.body 1 bs.length 0 ρ) loop_Hash64.after)
      = Hash.hash64 bs :=
  hash64_fn_bridge _ _ (by decide +kernel) (by decide +kernel) bs hw ρ hρ

theorem hash64v2_tied (bs : Bytes) (hw : WFB bs) (ρ : Env) (hρ : ρ 2 = 18446744073709551615) :
    retVal (runRet (hashArrs bs) (forLoop (hashArrs bs) loop_Hash64v2.body 1 bs.length 0 ρ) loop_Hash64v2.after)
      = Hash.hash64v2 (some bs) :=
  hash64v2_fn_bridge _ _ (by decide +kernel) (by decide +kernel) bs hw ρ hρ

theorem hash64V2_tied (bs : Bytes) (hw : WFB bs) (hne : bs ≠ []) (ρ : Env) (hρ : ρ 2 = 18446744073709551615) :
    retVal (runRet (hashArrs bs) (forLoop (hashArrs bs) loop_Hash64V2.body 1 bs.length 0 ρ) loop_Hash64V2.after)
      = Hash.hash64V2 (some bs) :=
  hash64V2_fn_bridge _ _ (by decide +kernel) (by decide +kernel) bs hw hne ρ hρ

/-- `stringutil.HashCode`, whole function -/
theorem hashCode_tied (bs : Bytes) (hw : WFB bs) (ρ : Env) :
    callLoop (strArrs bs) loop_HashCode.pre loop_HashCode.body loop_HashCode.after 1 bs.length ρ
      = StrHash.hashCode bs :=
  hashCode_fn_bridge _ _ _ (by decide +kernel) (by decide +kernel) (by decide +kernel) bs hw ρ

example : WFB [104, 105] := by decide

/-! ### util/hexa32 — `to_long` and `to_str`, whole functions -/

/-- `to_long`: prelude (`result`, `limit = -MaxInt64`, `multmin = limit/32`), per character
    `digit := findc(…)` and the guarded loop body, final `-result` — is `Hexa32.toLong`, for every text -/
theorem toLong_tied (ρ : Env) (cs : List Char) :
    goToLong noArr fn_findc loop_to_long.body loop_to_long.after (runEnv noArr ρ loop_to_long.pre) cs
      = Hexa32.toLong cs :=
  toLong_fn_bridge fn_findc loop_to_long.pre loop_to_long.body loop_to_long.after
    (by decide +kernel) (by decide +kernel) (by decide +kernel) (by decide +kernel) noArr ρ cs

/-- the closure `findc` -/
theorem findc_tied (c : Char) : call noArr fn_findc [(c.toNat : Int)] = Hexa32.findc c := by
  have h : fn_findc.params = GoModel.fn_findc.params ∧ normStmts fn_findc.body = normStmts GoModel.fn_findc.body := by
    decide +kernel
  rw [← findc_bridge c]
  unfold call
  rw [h.1, (normStmts_eq h.2 noArr _).2]

/-- `to_str(v)`: `radix := 32`, `i = -i`, the digit loop on the negated value (condition, stored digit,
    `i = i / radix`), the last digit — is `Hexa32.toStr v`, for every `0 ≤ v ≤ MaxInt64` -/
theorem toStr_tied (v : Int) (hv : 0 ≤ v ∧ v ≤ Hexa32.maxInt64) (ρ : Env) (h0 : ρ 0 = v) :
    goToStrLoop hexaArrs loop_to_str.cond loop_to_str.body loop_to_str.post loop_to_str.after (v.natAbs + 1)
      (runEnv hexaArrs (runEnv hexaArrs ρ loop_to_str.pre) loop_to_str.init) [] = Hexa32.toStr v :=
  toStr_fn_bridge _ _ _ _ _ _ (by decide +kernel) (by decide +kernel) (by decide +kernel) (by decide +kernel)
    (by decide +kernel) (by decide +kernel) v hv ρ h0

example : (0 : Int) ≤ 35 ∧ (35 : Int) ≤ Hexa32.maxInt64 := by decide

/-! ### util/hll — MurmurHashLong and murmurHash, whole functions -/

theorem murmurHashLong_fn_tied (d : Nat) (hd : d < 18446744073709551616) :
    call noArr fn_MurmurHashLong [(d : Int)] = ((Murmur.murmurLong d : Nat) : Int) := by
  rw [call_congr (g := GoModel.fn_MurmurHashLong) (by decide +kernel) (by decide +kernel)]
  exact murmurLong_bridge d hd

/-- `murmurHash(data, len(data), seed)`: loop header `for i := 0; i < int(len_4); i++`, identifier numbers,
    prelude, body, tail and avalanche — is `Murmur.murmur32 data seed` (for which Props.C15 proves the exact
    relation to MurmurHash2) -/
theorem murmurHash_tied (data : Bytes) (hw : WFB data) (seed : Nat) (hs : seed < 4294967296)
    (hl : data.length < 2147483648) (ρ : Env) (h1 : ρ 1 = (data.length : Int)) (h2 : ρ 2 = (seed : Int)) :
    callLoop (dataArrs data) loop_murmurHash.pre loop_murmurHash.body loop_murmurHash.after 3 (data.length / 4) ρ
      = ((Murmur.murmur32 data seed : Nat) : Int) :=
  murmur32_fn_bridge _ _ _ (by decide +kernel) (by decide +kernel) (by decide +kernel) (by decide +kernel)
    (by decide +kernel) (by decide +kernel) (by decide +kernel) data hw seed hs hl ρ h1 h2

/-- `murmurHashLong(data, len(data), seed)` (behind `MurmurHashLongByte`): prelude, loop body, the
    fall-through `switch` on `length % 8`, avalanche — is `Murmur.murmur64 data seed` = MurmurHash64A -/
theorem murmurHashLong64_tied (data : Bytes) (hw : WFB data) (seed : Nat) (hs : seed < 4294967296)
    (hl : data.length < 2147483648) (ρ : Env) (h1 : ρ 1 = (data.length : Int)) (h2 : ρ 2 = (seed : Int)) :
    callLoop (dataArrs data) loop_murmurHashLong.pre loop_murmurHashLong.body loop_murmurHashLong.after 3
      (data.length / 8) ρ = ((Murmur.murmur64 data seed : Nat) : Int) :=
  murmur64_fn_bridge _ _ _ (by decide +kernel) (by decide +kernel) (by decide +kernel) data hw seed hs hl ρ h1 h2

theorem murmur_headers_tied :
    loop_murmurHash.header = ["#3 := 0", "#3 < int(#7)", "#3++"] ∧ loop_murmurHash.loopVar = 3
    ∧ loop_murmurHash.carried = [4]
    ∧ loop_murmurHashLong.header = ["#3 := 0", "#3 < int(#7)", "#3++"] ∧ loop_murmurHashLong.loopVar = 3
    ∧ loop_murmurHashLong.carried = [4] := by decide

/-! ### hash.ToInt / hash.ToLong -/

theorem toInt_tied (a b c d : Nat) (rest : Bytes) (ha : a < 256) (hb : b < 256) (hc : c < 256) (hd : d < 256) :
    some (call (bufArrs (a :: b :: c :: d :: rest)) fn_ToInt []) = Hash.toInt (a :: b :: c :: d :: rest) := by
  rw [call_congr (g := GoModel.fn_ToInt) (by decide +kernel) (by decide +kernel)]
  exact toInt_bridge a b c d rest ha hb hc hd

theorem toLong_bytes_tied (a b c d e f g h : Nat) (rest : Bytes) (ha : a < 256) (hb : b < 256) (hc : c < 256)
    (hd : d < 256) (he : e < 256) (hf : f < 256) (hg : g < 256) (hh : h < 256) :
    some (call (bufArrs (a :: b :: c :: d :: e :: f :: g :: h :: rest)) fn_ToLong [])
      = Hash.toLong (a :: b :: c :: d :: e :: f :: g :: h :: rest) := by
  rw [call_congr (g := GoModel.fn_ToLong) (by decide +kernel) (by decide +kernel)]
  exact toLong_bridge a b c d e f g h rest ha hb hc hd he hf hg hh

/-! ### util/iputil — the shape of ToString / ToBytes, interpreted -/

/-- the sequence of buffer writes of `ToString` and its empty-slice text, interpreted by
    `IpShape.toStringOf`, is `IpUtil.toString` on every slice -/
theorem ipToString_tied (ip : Bytes) :
    IpShape.toStringOf ipToString_pieces ipToString_empty ip = IpUtil.toString ip := by
  have h : ipToString_pieces = [.octet 0, .text ".", .octet 1, .text ".", .octet 2, .text ".", .octet 3]
      ∧ ipToString_empty = "0.0.0.0" := by decide
  rw [h.1, h.2]; exact IpShape.toStringOf_model ip

/-- separator, part count, loop bound, mask and default bytes of `ToBytes`, interpreted by
    `IpShape.toBytesOf`, give `IpUtil.toBytes` on every text -/
theorem ipToBytes_tied (s : List Char) :
    IpShape.toBytesOf ipToBytes_sep ipToBytes_count ipToBytes_bound ipToBytes_mask ipToBytes_default s
      = IpUtil.toBytes s := by
  have h : ipToBytes_sep = "." ∧ ipToBytes_count = 4 ∧ ipToBytes_bound = 4 ∧ ipToBytes_mask = 255
      ∧ ipToBytes_default = [0, 0, 0, 0] := by decide
  rw [h.1, h.2.1, h.2.2.1, h.2.2.2.1, h.2.2.2.2]; exact IpShape.toBytesOf_model s

end C15Gen
