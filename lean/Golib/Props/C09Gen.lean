/-
  C09, tie A — obligations over the per-type facts regenerated from /repo/util/hmap/<Type>.go
  (lean/Golib/Gen/C09.lean, written by xlate/c09 on every run): key / value kind, the `add` operator
  (`+=` vs `=`), the growth rule 2n+1, the end evicted per put mode, the capacity-0 constructor guard,
  the bounds of the `ContainsValue` scan, the empty-key guards.

  Each theorem says: the descriptor extracted from the source is the descriptor the CodeModel (and the
  driver session of that type) is configured with — or, for a type with a recorded deviation (known
  finding D15 / D17), that descriptor with the deviation repaired.  `decide` on finite data.
-/
import Golib.HMap.Types
import Golib.Gen.C09

namespace C09Gen
open HMap

theorem LinkedMap_desc : ∃ m, findType linkedTypes "LinkedMap" = some m ∧ (Gen.C09.LinkedMap = m ∨ Gen.C09.LinkedMap = m.repaired) := by
  refine ⟨_, rfl, ?_⟩; decide

theorem IntKeyLinkedMap_desc : ∃ m, findType linkedTypes "IntKeyLinkedMap" = some m ∧ (Gen.C09.IntKeyLinkedMap = m ∨ Gen.C09.IntKeyLinkedMap = m.repaired) := by
  refine ⟨_, rfl, ?_⟩; decide

theorem LongKeyLinkedMap_desc : ∃ m, findType linkedTypes "LongKeyLinkedMap" = some m ∧ (Gen.C09.LongKeyLinkedMap = m ∨ Gen.C09.LongKeyLinkedMap = m.repaired) := by
  refine ⟨_, rfl, ?_⟩; decide

theorem StringKeyLinkedMap_desc : ∃ m, findType linkedTypes "StringKeyLinkedMap" = some m ∧ (Gen.C09.StringKeyLinkedMap = m ∨ Gen.C09.StringKeyLinkedMap = m.repaired) := by
  refine ⟨_, rfl, ?_⟩; decide

theorem IntIntLinkedMap_desc : ∃ m, findType linkedTypes "IntIntLinkedMap" = some m ∧ (Gen.C09.IntIntLinkedMap = m ∨ Gen.C09.IntIntLinkedMap = m.repaired) := by
  refine ⟨_, rfl, ?_⟩; decide

theorem IntFloatLinkedMap_desc : ∃ m, findType linkedTypes "IntFloatLinkedMap" = some m ∧ (Gen.C09.IntFloatLinkedMap = m ∨ Gen.C09.IntFloatLinkedMap = m.repaired) := by
  refine ⟨_, rfl, ?_⟩; decide

theorem LongFloatLinkedMap_desc : ∃ m, findType linkedTypes "LongFloatLinkedMap" = some m ∧ (Gen.C09.LongFloatLinkedMap = m ∨ Gen.C09.LongFloatLinkedMap = m.repaired) := by
  refine ⟨_, rfl, ?_⟩; decide

theorem LongLongLinkedMap_desc : ∃ m, findType linkedTypes "LongLongLinkedMap" = some m ∧ (Gen.C09.LongLongLinkedMap = m ∨ Gen.C09.LongLongLinkedMap = m.repaired) := by
  refine ⟨_, rfl, ?_⟩; decide

theorem StringIntLinkedMap_desc : ∃ m, findType linkedTypes "StringIntLinkedMap" = some m ∧ (Gen.C09.StringIntLinkedMap = m ∨ Gen.C09.StringIntLinkedMap = m.repaired) := by
  refine ⟨_, rfl, ?_⟩; decide

theorem StringLongLinkedMap_desc : ∃ m, findType linkedTypes "StringLongLinkedMap" = some m ∧ (Gen.C09.StringLongLinkedMap = m ∨ Gen.C09.StringLongLinkedMap = m.repaired) := by
  refine ⟨_, rfl, ?_⟩; decide

theorem LinkedSet_desc : ∃ m, findType linkedTypes "LinkedSet" = some m ∧ (Gen.C09.LinkedSet = m ∨ Gen.C09.LinkedSet = m.repaired) := by
  refine ⟨_, rfl, ?_⟩; decide

theorem IntLinkedSet_desc : ∃ m, findType linkedTypes "IntLinkedSet" = some m ∧ (Gen.C09.IntLinkedSet = m ∨ Gen.C09.IntLinkedSet = m.repaired) := by
  refine ⟨_, rfl, ?_⟩; decide

theorem StringLinkedSet_desc : ∃ m, findType linkedTypes "StringLinkedSet" = some m ∧ (Gen.C09.StringLinkedSet = m ∨ Gen.C09.StringLinkedSet = m.repaired) := by
  refine ⟨_, rfl, ?_⟩; decide

/-- the whole table, in order (a type with a recorded deviation may also appear in its repaired form) -/
theorem types_match :
    (Gen.C09.types.map (·.name) = linkedTypes.map (·.name)) ∧
    (Gen.C09.types.zip linkedTypes).all (fun p => decide (p.1 = p.2) || decide (p.1 = p.2.repaired)) = true := by decide

end C09Gen
