/-
  C09, tie A — obligations over the per-type facts regenerated from /repo/util/hmap/<Type>.go
  (lean/Golib/Gen/C09.lean, written by xlate/c09 on every run): key / value kind, the `add` operator
  (`+=` vs `=`), the growth rule 2n+1, the end evicted per put mode, the capacity-0 constructor guard,
  the bounds of the `ContainsValue` scan, the empty-key guards.

  Each theorem says: the descriptor extracted from the source is the descriptor the CodeModel (and the
  driver session of that type) is configured with — or, for a type with a recorded deviation (known
  finding D15 / D17), that descriptor with the deviation repaired.  `decide` on finite data.
-/
import Golib.HMap.Types
import Golib.Gen.C09
import Golib.Gen.C09IR
import Golib.HMap.IR

set_option linter.unusedSectionVars false

namespace C09Gen
open HMap

theorem LinkedMap_desc : ∃ m, findType linkedTypes "LinkedMap" = some m ∧ (Gen.C09.LinkedMap = m ∨ Gen.C09.LinkedMap = m.repaired) := by
  refine ⟨_, rfl, ?_⟩; decide

theorem IntKeyLinkedMap_desc : ∃ m, findType linkedTypes "IntKeyLinkedMap" = some m ∧ (Gen.C09.IntKeyLinkedMap = m ∨ Gen.C09.IntKeyLinkedMap = m.repaired) := by
  refine ⟨_, rfl, ?_⟩; decide

theorem LongKeyLinkedMap_desc : ∃ m, findType linkedTypes "LongKeyLinkedMap" = some m ∧ (Gen.C09.LongKeyLinkedMap = m ∨ Gen.C09.LongKeyLinkedMap = m.repaired) := by
  refine ⟨_, rfl, ?_⟩; decide

theorem StringKeyLinkedMap_desc : ∃ m, findType linkedTypes "StringKeyLinkedMap" = some m ∧ (Gen.C09.StringKeyLinkedMap = m ∨ Gen.C09.StringKeyLinkedMap = m.repaired) := by
  refine ⟨_, rfl, ?_⟩; decide

theorem IntIntLinkedMap_desc : ∃ m, findType linkedTypes "IntIntLinkedMap" = some m ∧ (Gen.C09.IntIntLinkedMap = m ∨ Gen.C09.IntIntLinkedMap = m.repaired) := by
  refine ⟨_, rfl, ?_⟩; decide

theorem IntFloatLinkedMap_desc : ∃ m, findType linkedTypes "IntFloatLinkedMap" = some m ∧ (Gen.C09.IntFloatLinkedMap = m ∨ Gen.C09.IntFloatLinkedMap = m.repaired) := by
  refine ⟨_, rfl, ?_⟩; decide

theorem LongFloatLinkedMap_desc : ∃ m, findType linkedTypes "LongFloatLinkedMap" = some m ∧ (Gen.C09.LongFloatLinkedMap = m ∨ Gen.C09.LongFloatLinkedMap = m.repaired) := by
  refine ⟨_, rfl, ?_⟩; decide

theorem LongLongLinkedMap_desc : ∃ m, findType linkedTypes "LongLongLinkedMap" = some m ∧ (Gen.C09.LongLongLinkedMap = m ∨ Gen.C09.LongLongLinkedMap = m.repaired) := by
  refine ⟨_, rfl, ?_⟩; decide

theorem StringIntLinkedMap_desc : ∃ m, findType linkedTypes "StringIntLinkedMap" = some m ∧ (Gen.C09.StringIntLinkedMap = m ∨ Gen.C09.StringIntLinkedMap = m.repaired) := by
  refine ⟨_, rfl, ?_⟩; decide

theorem StringLongLinkedMap_desc : ∃ m, findType linkedTypes "StringLongLinkedMap" = some m ∧ (Gen.C09.StringLongLinkedMap = m ∨ Gen.C09.StringLongLinkedMap = m.repaired) := by
  refine ⟨_, rfl, ?_⟩; decide

theorem LinkedSet_desc : ∃ m, findType linkedTypes "LinkedSet" = some m ∧ (Gen.C09.LinkedSet = m ∨ Gen.C09.LinkedSet = m.repaired) := by
  refine ⟨_, rfl, ?_⟩; decide

theorem IntLinkedSet_desc : ∃ m, findType linkedTypes "IntLinkedSet" = some m ∧ (Gen.C09.IntLinkedSet = m ∨ Gen.C09.IntLinkedSet = m.repaired) := by
  refine ⟨_, rfl, ?_⟩; decide

theorem StringLinkedSet_desc : ∃ m, findType linkedTypes "StringLinkedSet" = some m ∧ (Gen.C09.StringLinkedSet = m ∨ Gen.C09.StringLinkedSet = m.repaired) := by
  refine ⟨_, rfl, ?_⟩; decide

/-- the whole table, in order (a type with a recorded deviation may also appear in its repaired form) -/
theorem types_match :
    (Gen.C09.types.map (·.name) = linkedTypes.map (·.name)) ∧
    (Gen.C09.types.zip linkedTypes).all (fun p => decide (p.1 = p.2) || decide (p.1 = p.2.repaired)) = true := by decide


/-! ### interpreted tie A: the transcribed statements of put / add / addNoOver / remove / rehash, run with the
    semantics of `Golib.HMap.IR`, are the CodeModel's steps — for every state, key, value, mode, hash function and
    threshold function.  (`Gen.C09IR.*` is regenerated from the Go source on every run.) -/

section interpreted
open HMap.IR
variable {K V : Type} [DecidableEq K] [DecidableEq V]

/-- LinkedMap.put -/
theorem LinkedMap_put_interp (d : Desc K V) (hash : K → Nat) (thr : Nat → Nat) (m : LMap K V) (mode : Mode) (k : K) (v : V) :
    run d hash thr mode k v Gen.C09IR.LinkedMap_put m = expectPut d hash thr (putShape "LinkedMap") m mode k v :=
  put_linked_interp d hash thr (putShape "LinkedMap") rfl (by decide) rfl rfl rfl _ (by decide) m mode k v

/-- LinkedMap.remove -/
theorem LinkedMap_remove_interp (d : Desc K V) (hash : K → Nat) (thr : Nat → Nat) (m : LMap K V) (mode : Mode) (k : K) (v : V) :
    run d hash thr mode k v Gen.C09IR.LinkedMap_remove m = expectRemove hash (removeShape "LinkedMap") m k :=
  remove_linked_interp d hash thr (removeShape "LinkedMap") rfl rfl _ (by decide) m mode k v

/-- LinkedMap.rehash -/
theorem LinkedMap_rehash_interp (hash : K → Nat) (thr : Nat → Nat) (m : LMap K V) :
    interpRehash hash thr Gen.C09IR.LinkedMap_rehash m = m.rehash hash thr := by
  rw [show Gen.C09IR.LinkedMap_rehash = canonRehash from by decide]; exact rehash_correct hash thr m

/-- IntKeyLinkedMap.put -/
theorem IntKeyLinkedMap_put_interp (d : Desc K V) (hash : K → Nat) (thr : Nat → Nat) (m : LMap K V) (mode : Mode) (k : K) (v : V) :
    run d hash thr mode k v Gen.C09IR.IntKeyLinkedMap_put m = expectPut d hash thr (putShape "IntKeyLinkedMap") m mode k v :=
  put_linked_interp d hash thr (putShape "IntKeyLinkedMap") rfl (by decide) rfl rfl rfl _ (by decide) m mode k v

/-- IntKeyLinkedMap.remove -/
theorem IntKeyLinkedMap_remove_interp (d : Desc K V) (hash : K → Nat) (thr : Nat → Nat) (m : LMap K V) (mode : Mode) (k : K) (v : V) :
    run d hash thr mode k v Gen.C09IR.IntKeyLinkedMap_remove m = expectRemove hash (removeShape "IntKeyLinkedMap") m k :=
  remove_linked_interp d hash thr (removeShape "IntKeyLinkedMap") rfl rfl _ (by decide) m mode k v

/-- IntKeyLinkedMap.rehash -/
theorem IntKeyLinkedMap_rehash_interp (hash : K → Nat) (thr : Nat → Nat) (m : LMap K V) :
    interpRehash hash thr Gen.C09IR.IntKeyLinkedMap_rehash m = m.rehash hash thr := by
  rw [show Gen.C09IR.IntKeyLinkedMap_rehash = canonRehash from by decide]; exact rehash_correct hash thr m

/-- LongKeyLinkedMap.put -/
theorem LongKeyLinkedMap_put_interp (d : Desc K V) (hash : K → Nat) (thr : Nat → Nat) (m : LMap K V) (mode : Mode) (k : K) (v : V) :
    run d hash thr mode k v Gen.C09IR.LongKeyLinkedMap_put m = expectPut d hash thr (putShape "LongKeyLinkedMap") m mode k v :=
  put_linked_interp d hash thr (putShape "LongKeyLinkedMap") rfl (by decide) rfl rfl rfl _ (by decide) m mode k v

/-- LongKeyLinkedMap.remove -/
theorem LongKeyLinkedMap_remove_interp (d : Desc K V) (hash : K → Nat) (thr : Nat → Nat) (m : LMap K V) (mode : Mode) (k : K) (v : V) :
    run d hash thr mode k v Gen.C09IR.LongKeyLinkedMap_remove m = expectRemove hash (removeShape "LongKeyLinkedMap") m k :=
  remove_linked_interp d hash thr (removeShape "LongKeyLinkedMap") rfl rfl _ (by decide) m mode k v

/-- LongKeyLinkedMap.rehash -/
theorem LongKeyLinkedMap_rehash_interp (hash : K → Nat) (thr : Nat → Nat) (m : LMap K V) :
    interpRehash hash thr Gen.C09IR.LongKeyLinkedMap_rehash m = m.rehash hash thr := by
  rw [show Gen.C09IR.LongKeyLinkedMap_rehash = canonRehash from by decide]; exact rehash_correct hash thr m

/-- StringKeyLinkedMap.put -/
theorem StringKeyLinkedMap_put_interp (d : Desc K V) (hash : K → Nat) (thr : Nat → Nat) (m : LMap K V) (mode : Mode) (k : K) (v : V) :
    run d hash thr mode k v Gen.C09IR.StringKeyLinkedMap_put m = expectPut d hash thr (putShape "StringKeyLinkedMap") m mode k v :=
  put_linked_interp d hash thr (putShape "StringKeyLinkedMap") rfl (by decide) rfl rfl rfl _ (by decide) m mode k v

/-- StringKeyLinkedMap.remove -/
theorem StringKeyLinkedMap_remove_interp (d : Desc K V) (hash : K → Nat) (thr : Nat → Nat) (m : LMap K V) (mode : Mode) (k : K) (v : V) :
    run d hash thr mode k v Gen.C09IR.StringKeyLinkedMap_remove m = expectRemove hash (removeShape "StringKeyLinkedMap") m k :=
  remove_linked_interp d hash thr (removeShape "StringKeyLinkedMap") rfl rfl _ (by decide) m mode k v

/-- StringKeyLinkedMap.rehash -/
theorem StringKeyLinkedMap_rehash_interp (hash : K → Nat) (thr : Nat → Nat) (m : LMap K V) :
    interpRehash hash thr Gen.C09IR.StringKeyLinkedMap_rehash m = m.rehash hash thr := by
  rw [show Gen.C09IR.StringKeyLinkedMap_rehash = canonRehash from by decide]; exact rehash_correct hash thr m

/-- IntIntLinkedMap.put -/
theorem IntIntLinkedMap_put_interp (d : Desc K V) (hash : K → Nat) (thr : Nat → Nat) (m : LMap K V) (mode : Mode) (k : K) (v : V) :
    run d hash thr mode k v Gen.C09IR.IntIntLinkedMap_put m = expectPut d hash thr (putShape "IntIntLinkedMap") m mode k v :=
  put_linked_interp d hash thr (putShape "IntIntLinkedMap") rfl (by decide) rfl rfl rfl _ (by decide) m mode k v

/-- IntIntLinkedMap.add / _add -/
theorem IntIntLinkedMap_add_interp (d : Desc K V) (hash : K → Nat) (thr : Nat → Nat) (m : LMap K V) (mode : Mode) (k : K) (v : V) :
    run d hash thr mode k v Gen.C09IR.IntIntLinkedMap_add m = expectPut d hash thr (addShape "IntIntLinkedMap") m mode k v :=
  put_linked_interp d hash thr (addShape "IntIntLinkedMap") rfl (by decide) rfl rfl rfl _ (by decide) m mode k v

/-- IntIntLinkedMap.remove -/
theorem IntIntLinkedMap_remove_interp (d : Desc K V) (hash : K → Nat) (thr : Nat → Nat) (m : LMap K V) (mode : Mode) (k : K) (v : V) :
    run d hash thr mode k v Gen.C09IR.IntIntLinkedMap_remove m = expectRemove hash (removeShape "IntIntLinkedMap") m k :=
  remove_linked_interp d hash thr (removeShape "IntIntLinkedMap") rfl rfl _ (by decide) m mode k v

/-- IntIntLinkedMap.rehash -/
theorem IntIntLinkedMap_rehash_interp (hash : K → Nat) (thr : Nat → Nat) (m : LMap K V) :
    interpRehash hash thr Gen.C09IR.IntIntLinkedMap_rehash m = m.rehash hash thr := by
  rw [show Gen.C09IR.IntIntLinkedMap_rehash = canonRehash from by decide]; exact rehash_correct hash thr m

/-- IntFloatLinkedMap.put -/
theorem IntFloatLinkedMap_put_interp (d : Desc K V) (hash : K → Nat) (thr : Nat → Nat) (m : LMap K V) (mode : Mode) (k : K) (v : V) :
    run d hash thr mode k v Gen.C09IR.IntFloatLinkedMap_put m = expectPut d hash thr (putShape "IntFloatLinkedMap") m mode k v :=
  put_linked_interp d hash thr (putShape "IntFloatLinkedMap") rfl (by decide) rfl rfl rfl _ (by decide) m mode k v

/-- IntFloatLinkedMap.add / _add -/
theorem IntFloatLinkedMap_add_interp (d : Desc K V) (hash : K → Nat) (thr : Nat → Nat) (m : LMap K V) (mode : Mode) (k : K) (v : V) :
    run d hash thr mode k v Gen.C09IR.IntFloatLinkedMap_add m = expectPut d hash thr (addShape "IntFloatLinkedMap") m mode k v :=
  put_linked_interp d hash thr (addShape "IntFloatLinkedMap") rfl (by decide) rfl rfl rfl _ (by decide) m mode k v

/-- IntFloatLinkedMap.remove -/
theorem IntFloatLinkedMap_remove_interp (d : Desc K V) (hash : K → Nat) (thr : Nat → Nat) (m : LMap K V) (mode : Mode) (k : K) (v : V) :
    run d hash thr mode k v Gen.C09IR.IntFloatLinkedMap_remove m = expectRemove hash (removeShape "IntFloatLinkedMap") m k :=
  remove_linked_interp d hash thr (removeShape "IntFloatLinkedMap") rfl rfl _ (by decide) m mode k v

/-- IntFloatLinkedMap.rehash -/
theorem IntFloatLinkedMap_rehash_interp (hash : K → Nat) (thr : Nat → Nat) (m : LMap K V) :
    interpRehash hash thr Gen.C09IR.IntFloatLinkedMap_rehash m = m.rehash hash thr := by
  rw [show Gen.C09IR.IntFloatLinkedMap_rehash = canonRehash from by decide]; exact rehash_correct hash thr m

/-- LongFloatLinkedMap.put -/
theorem LongFloatLinkedMap_put_interp (d : Desc K V) (hash : K → Nat) (thr : Nat → Nat) (m : LMap K V) (mode : Mode) (k : K) (v : V) :
    run d hash thr mode k v Gen.C09IR.LongFloatLinkedMap_put m = expectPut d hash thr (putShape "LongFloatLinkedMap") m mode k v :=
  put_linked_interp d hash thr (putShape "LongFloatLinkedMap") rfl (by decide) rfl rfl rfl _ (by decide) m mode k v

/-- LongFloatLinkedMap.add / _add -/
theorem LongFloatLinkedMap_add_interp (d : Desc K V) (hash : K → Nat) (thr : Nat → Nat) (m : LMap K V) (mode : Mode) (k : K) (v : V) :
    run d hash thr mode k v Gen.C09IR.LongFloatLinkedMap_add m = expectPut d hash thr (addShape "LongFloatLinkedMap") m mode k v :=
  put_linked_interp d hash thr (addShape "LongFloatLinkedMap") rfl (by decide) rfl rfl rfl _ (by decide) m mode k v

/-- LongFloatLinkedMap.remove -/
theorem LongFloatLinkedMap_remove_interp (d : Desc K V) (hash : K → Nat) (thr : Nat → Nat) (m : LMap K V) (mode : Mode) (k : K) (v : V) :
    run d hash thr mode k v Gen.C09IR.LongFloatLinkedMap_remove m = expectRemove hash (removeShape "LongFloatLinkedMap") m k :=
  remove_linked_interp d hash thr (removeShape "LongFloatLinkedMap") rfl rfl _ (by decide) m mode k v

/-- LongFloatLinkedMap.rehash -/
theorem LongFloatLinkedMap_rehash_interp (hash : K → Nat) (thr : Nat → Nat) (m : LMap K V) :
    interpRehash hash thr Gen.C09IR.LongFloatLinkedMap_rehash m = m.rehash hash thr := by
  rw [show Gen.C09IR.LongFloatLinkedMap_rehash = canonRehash from by decide]; exact rehash_correct hash thr m

/-- LongLongLinkedMap.put -/
theorem LongLongLinkedMap_put_interp (d : Desc K V) (hash : K → Nat) (thr : Nat → Nat) (m : LMap K V) (mode : Mode) (k : K) (v : V) :
    run d hash thr mode k v Gen.C09IR.LongLongLinkedMap_put m = expectPut d hash thr (putShape "LongLongLinkedMap") m mode k v :=
  put_linked_interp d hash thr (putShape "LongLongLinkedMap") rfl (by decide) rfl rfl rfl _ (by decide) m mode k v

/-- LongLongLinkedMap.add / _add -/
theorem LongLongLinkedMap_add_interp (d : Desc K V) (hash : K → Nat) (thr : Nat → Nat) (m : LMap K V) (mode : Mode) (k : K) (v : V) :
    run d hash thr mode k v Gen.C09IR.LongLongLinkedMap_add m = expectPut d hash thr (addShape "LongLongLinkedMap") m mode k v :=
  put_linked_interp d hash thr (addShape "LongLongLinkedMap") rfl (by decide) rfl rfl rfl _ (by decide) m mode k v

/-- LongLongLinkedMap.remove -/
theorem LongLongLinkedMap_remove_interp (d : Desc K V) (hash : K → Nat) (thr : Nat → Nat) (m : LMap K V) (mode : Mode) (k : K) (v : V) :
    run d hash thr mode k v Gen.C09IR.LongLongLinkedMap_remove m = expectRemove hash (removeShape "LongLongLinkedMap") m k :=
  remove_linked_interp d hash thr (removeShape "LongLongLinkedMap") rfl rfl _ (by decide) m mode k v

/-- LongLongLinkedMap.rehash -/
theorem LongLongLinkedMap_rehash_interp (hash : K → Nat) (thr : Nat → Nat) (m : LMap K V) :
    interpRehash hash thr Gen.C09IR.LongLongLinkedMap_rehash m = m.rehash hash thr := by
  rw [show Gen.C09IR.LongLongLinkedMap_rehash = canonRehash from by decide]; exact rehash_correct hash thr m

/-- StringIntLinkedMap.put -/
theorem StringIntLinkedMap_put_interp (d : Desc K V) (hash : K → Nat) (thr : Nat → Nat) (m : LMap K V) (mode : Mode) (k : K) (v : V) :
    run d hash thr mode k v Gen.C09IR.StringIntLinkedMap_put m = expectPut d hash thr (putShape "StringIntLinkedMap") m mode k v :=
  put_linked_interp d hash thr (putShape "StringIntLinkedMap") rfl (by decide) rfl rfl rfl _ (by decide) m mode k v

/-- StringIntLinkedMap.add / _add -/
theorem StringIntLinkedMap_add_interp (d : Desc K V) (hash : K → Nat) (thr : Nat → Nat) (m : LMap K V) (mode : Mode) (k : K) (v : V) :
    run d hash thr mode k v Gen.C09IR.StringIntLinkedMap_add m = expectPut d hash thr (addShape "StringIntLinkedMap") m mode k v :=
  put_linked_interp d hash thr (addShape "StringIntLinkedMap") rfl (by decide) rfl rfl rfl _ (by decide) m mode k v

/-- StringIntLinkedMap.remove -/
theorem StringIntLinkedMap_remove_interp (d : Desc K V) (hash : K → Nat) (thr : Nat → Nat) (m : LMap K V) (mode : Mode) (k : K) (v : V) :
    run d hash thr mode k v Gen.C09IR.StringIntLinkedMap_remove m = expectRemove hash (removeShape "StringIntLinkedMap") m k :=
  remove_linked_interp d hash thr (removeShape "StringIntLinkedMap") rfl rfl _ (by decide) m mode k v

/-- StringIntLinkedMap.rehash -/
theorem StringIntLinkedMap_rehash_interp (hash : K → Nat) (thr : Nat → Nat) (m : LMap K V) :
    interpRehash hash thr Gen.C09IR.StringIntLinkedMap_rehash m = m.rehash hash thr := by
  rw [show Gen.C09IR.StringIntLinkedMap_rehash = canonRehash from by decide]; exact rehash_correct hash thr m

/-- StringLongLinkedMap.put -/
theorem StringLongLinkedMap_put_interp (d : Desc K V) (hash : K → Nat) (thr : Nat → Nat) (m : LMap K V) (mode : Mode) (k : K) (v : V) :
    run d hash thr mode k v Gen.C09IR.StringLongLinkedMap_put m = expectPut d hash thr (putShape "StringLongLinkedMap") m mode k v :=
  put_linked_interp d hash thr (putShape "StringLongLinkedMap") rfl (by decide) rfl rfl rfl _ (by decide) m mode k v

/-- StringLongLinkedMap.add / _add -/
theorem StringLongLinkedMap_add_interp (d : Desc K V) (hash : K → Nat) (thr : Nat → Nat) (m : LMap K V) (mode : Mode) (k : K) (v : V) :
    run d hash thr mode k v Gen.C09IR.StringLongLinkedMap_add m = expectPut d hash thr (addShape "StringLongLinkedMap") m mode k v :=
  put_linked_interp d hash thr (addShape "StringLongLinkedMap") rfl (by decide) rfl rfl rfl _ (by decide) m mode k v

/-- StringLongLinkedMap.remove -/
theorem StringLongLinkedMap_remove_interp (d : Desc K V) (hash : K → Nat) (thr : Nat → Nat) (m : LMap K V) (mode : Mode) (k : K) (v : V) :
    run d hash thr mode k v Gen.C09IR.StringLongLinkedMap_remove m = expectRemove hash (removeShape "StringLongLinkedMap") m k :=
  remove_linked_interp d hash thr (removeShape "StringLongLinkedMap") rfl rfl _ (by decide) m mode k v

/-- StringLongLinkedMap.rehash -/
theorem StringLongLinkedMap_rehash_interp (hash : K → Nat) (thr : Nat → Nat) (m : LMap K V) :
    interpRehash hash thr Gen.C09IR.StringLongLinkedMap_rehash m = m.rehash hash thr := by
  rw [show Gen.C09IR.StringLongLinkedMap_rehash = canonRehash from by decide]; exact rehash_correct hash thr m

/-- LinkedSet.put(key, m): the set's statements are `putWith` on `V = Unit` -/
theorem LinkedSet_put_interp {K : Type} [DecidableEq K] (d : Desc K Unit) (hash : K → Nat) (thr : Nat → Nat) (m : LMap K Unit) (mode : Mode) (k : K) :
    run d hash thr mode k () Gen.C09IR.LinkedSet_put m = expectPut d hash thr (putShape "LinkedSet") m mode k () :=
  put_set_interp d hash thr (putShape "LinkedSet") rfl rfl rfl rfl rfl rfl _ (by decide) m mode k () (fun _ _ => rfl)

/-- LinkedSet.remove -/
theorem LinkedSet_remove_interp (d : Desc K V) (hash : K → Nat) (thr : Nat → Nat) (m : LMap K V) (mode : Mode) (k : K) (v : V) :
    run d hash thr mode k v Gen.C09IR.LinkedSet_remove m = expectRemove hash (removeShape "LinkedSet") m k :=
  remove_linked_interp d hash thr (removeShape "LinkedSet") rfl rfl _ (by decide) m mode k v

/-- LinkedSet.rehash -/
theorem LinkedSet_rehash_interp (hash : K → Nat) (thr : Nat → Nat) (m : LMap K V) :
    interpRehash hash thr Gen.C09IR.LinkedSet_rehash m = m.rehash hash thr := by
  rw [show Gen.C09IR.LinkedSet_rehash = canonRehash from by decide]; exact rehash_correct hash thr m

/-- IntLinkedSet.put(key, m): the set's statements are `putWith` on `V = Unit` -/
theorem IntLinkedSet_put_interp {K : Type} [DecidableEq K] (d : Desc K Unit) (hash : K → Nat) (thr : Nat → Nat) (m : LMap K Unit) (mode : Mode) (k : K) :
    run d hash thr mode k () Gen.C09IR.IntLinkedSet_put m = expectPut d hash thr (putShape "IntLinkedSet") m mode k () :=
  put_set_interp d hash thr (putShape "IntLinkedSet") rfl rfl rfl rfl rfl rfl _ (by decide) m mode k () (fun _ _ => rfl)

/-- IntLinkedSet.remove -/
theorem IntLinkedSet_remove_interp (d : Desc K V) (hash : K → Nat) (thr : Nat → Nat) (m : LMap K V) (mode : Mode) (k : K) (v : V) :
    run d hash thr mode k v Gen.C09IR.IntLinkedSet_remove m = expectRemove hash (removeShape "IntLinkedSet") m k :=
  remove_linked_interp d hash thr (removeShape "IntLinkedSet") rfl rfl _ (by decide) m mode k v

/-- IntLinkedSet.rehash -/
theorem IntLinkedSet_rehash_interp (hash : K → Nat) (thr : Nat → Nat) (m : LMap K V) :
    interpRehash hash thr Gen.C09IR.IntLinkedSet_rehash m = m.rehash hash thr := by
  rw [show Gen.C09IR.IntLinkedSet_rehash = canonRehash from by decide]; exact rehash_correct hash thr m

/-- StringLinkedSet.put(key, m): the set's statements are `putWith` on `V = Unit` -/
theorem StringLinkedSet_put_interp {K : Type} [DecidableEq K] (d : Desc K Unit) (hash : K → Nat) (thr : Nat → Nat) (m : LMap K Unit) (mode : Mode) (k : K) :
    run d hash thr mode k () Gen.C09IR.StringLinkedSet_put m = expectPut d hash thr (putShape "StringLinkedSet") m mode k () :=
  put_set_interp d hash thr (putShape "StringLinkedSet") rfl rfl rfl rfl rfl rfl _ (by decide) m mode k () (fun _ _ => rfl)

/-- StringLinkedSet.remove -/
theorem StringLinkedSet_remove_interp (d : Desc K V) (hash : K → Nat) (thr : Nat → Nat) (m : LMap K V) (mode : Mode) (k : K) (v : V) :
    run d hash thr mode k v Gen.C09IR.StringLinkedSet_remove m = expectRemove hash (removeShape "StringLinkedSet") m k :=
  remove_linked_interp d hash thr (removeShape "StringLinkedSet") rfl rfl _ (by decide) m mode k v

/-- StringLinkedSet.rehash -/
theorem StringLinkedSet_rehash_interp (hash : K → Nat) (thr : Nat → Nat) (m : LMap K V) :
    interpRehash hash thr Gen.C09IR.StringLinkedSet_rehash m = m.rehash hash thr := by
  rw [show Gen.C09IR.StringLinkedSet_rehash = canonRehash from by decide]; exact rehash_correct hash thr m

/-- IntIntLinkedMap.addNoOver (mode PUT_LAST) -/
theorem IntIntLinkedMap_addNoOver_interp (d : Desc K V) (hash : K → Nat) (thr : Nat → Nat) (m : LMap K V) (k : K) (v : V)
    (hnr : d.refuse k = false) :
    run d hash thr .last k v Gen.C09IR.IntIntLinkedMap_addNoOver m =
      ((m.addNoOver hash thr d k v).1,
       some (if (m.tab.get hash k).isSome then Ret.old else if m.isFull then Ret.absent else Ret.absent)) := by
  rw [show Gen.C09IR.IntIntLinkedMap_addNoOver = canonPut addNoOverShape from by decide]
  exact canonPut_noOver_correct d hash thr addNoOverShape rfl rfl rfl rfl .absent rfl rfl rfl m k v hnr

/-- the expected results are the CodeModel's own operations (unfolding `expectPut` for an unguarded and a guarded type) -/
theorem expectPut_is_put (d : Desc K V) (hash : K → Nat) (thr : Nat → Nat) (m : LMap K V) (mode : Mode) (k : K) (v : V) :
    (expectPut d hash thr (putShape "IntKeyLinkedMap") m mode k v).1 = (m.putWith hash thr mode k (fun _ => v)).1 ∧
    (expectPut d hash thr (putShape "StringIntLinkedMap") m mode k v).1 = (m.put hash thr d mode k v).1 ∧
    (expectPut d hash thr (addShape "StringIntLinkedMap") m mode k v).1 = (m.add hash thr d mode k v).1 := by
  refine ⟨rfl, ?_, ?_⟩
  · unfold expectPut LMap.put; simp only [putShape, mapPut]; cases d.refuse k <;> rfl
  · unfold expectPut LMap.add; simp only [addShape, mapPut]; cases d.refuse k <;> rfl

/-- the transcribed `IntKeyLinkedMap.put` and `remove`, run on a concrete map with a bound (constant hash: one chain) -/
example :
    let d : Desc Int Int := { comb := fun a b => a + b, veq := fun a b => a == b }
    let m0 : LMap Int Int := { LMap.new (fun c => c / 2) 1 with max := 2 }
    let m1 := (run d (fun _ => 7) (fun c => c / 2) .last 1 10 Gen.C09IR.IntKeyLinkedMap_put m0).1
    let m2 := (run d (fun _ => 7) (fun c => c / 2) .forceFirst 2 20 Gen.C09IR.IntKeyLinkedMap_put m1).1
    let r3 := run d (fun _ => 7) (fun c => c / 2) .last 3 30 Gen.C09IR.IntKeyLinkedMap_put m2
    let r4 := run d (fun _ => 7) (fun c => c / 2) .last 3 0 Gen.C09IR.IntKeyLinkedMap_remove r3.1
    m2.order = [2, 1] ∧ r3.1.order = [1, 3] ∧ r3.2 = some Ret.absent ∧ r4.1.order = [1] ∧ r4.2 = some Ret.old := by
  decide

end interpreted

end C09Gen
