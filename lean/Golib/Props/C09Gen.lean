/-
  C09, tie A — obligations over the per-type facts regenerated from /repo/util/hmap/<Type>.go
  (lean/Golib/Gen/C09.lean, written by xlate/c09 on every run): key / value kind, the `add` operator
  (`+=` vs `=`), the growth rule 2n+1, the end evicted per put mode, the capacity-0 constructor guard,
  the bounds of the `ContainsValue` scan, the empty-key guards.

  Each theorem says: the descriptor extracted from the source is the descriptor the CodeModel (and the
  driver session of that type) is configured with — or, for a type with a recorded deviation (known
  finding D15 / D17), that descriptor with the deviation repaired.  `decide` on finite data.
-/
import Golib.HMap.Types
import Golib.Gen.C09
import Golib.Gen.C09IR
import Golib.Gen.C09Entry
import Golib.HMap.EntryTypes
import Golib.HMap.IR

set_option linter.unusedSectionVars false

namespace C09Gen
open HMap

theorem LinkedMap_desc : ∃ m, findType linkedTypes "LinkedMap" = some m ∧ (Gen.C09.LinkedMap = m ∨ Gen.C09.LinkedMap = m.repaired) := by
  refine ⟨_, rfl, ?_⟩; decide

theorem IntKeyLinkedMap_desc : ∃ m, findType linkedTypes "IntKeyLinkedMap" = some m ∧ (Gen.C09.IntKeyLinkedMap = m ∨ Gen.C09.IntKeyLinkedMap = m.repaired) := by
  refine ⟨_, rfl, ?_⟩; decide

theorem LongKeyLinkedMap_desc : ∃ m, findType linkedTypes "LongKeyLinkedMap" = some m ∧ (Gen.C09.LongKeyLinkedMap = m ∨ Gen.C09.LongKeyLinkedMap = m.repaired) := by
  refine ⟨_, rfl, ?_⟩; decide

theorem StringKeyLinkedMap_desc : ∃ m, findType linkedTypes "StringKeyLinkedMap" = some m ∧ (Gen.C09.StringKeyLinkedMap = m ∨ Gen.C09.StringKeyLinkedMap = m.repaired) := by
  refine ⟨_, rfl, ?_⟩; decide

theorem IntIntLinkedMap_desc : ∃ m, findType linkedTypes "IntIntLinkedMap" = some m ∧ (Gen.C09.IntIntLinkedMap = m ∨ Gen.C09.IntIntLinkedMap = m.repaired) := by
  refine ⟨_, rfl, ?_⟩; decide

theorem IntFloatLinkedMap_desc : ∃ m, findType linkedTypes "IntFloatLinkedMap" = some m ∧ (Gen.C09.IntFloatLinkedMap = m ∨ Gen.C09.IntFloatLinkedMap = m.repaired) := by
  refine ⟨_, rfl, ?_⟩; decide

theorem LongFloatLinkedMap_desc : ∃ m, findType linkedTypes "LongFloatLinkedMap" = some m ∧ (Gen.C09.LongFloatLinkedMap = m ∨ Gen.C09.LongFloatLinkedMap = m.repaired) := by
  refine ⟨_, rfl, ?_⟩; decide

theorem LongLongLinkedMap_desc : ∃ m, findType linkedTypes "LongLongLinkedMap" = some m ∧ (Gen.C09.LongLongLinkedMap = m ∨ Gen.C09.LongLongLinkedMap = m.repaired) := by
  refine ⟨_, rfl, ?_⟩; decide

theorem StringIntLinkedMap_desc : ∃ m, findType linkedTypes "StringIntLinkedMap" = some m ∧ (Gen.C09.StringIntLinkedMap = m ∨ Gen.C09.StringIntLinkedMap = m.repaired) := by
  refine ⟨_, rfl, ?_⟩; decide

theorem StringLongLinkedMap_desc : ∃ m, findType linkedTypes "StringLongLinkedMap" = some m ∧ (Gen.C09.StringLongLinkedMap = m ∨ Gen.C09.StringLongLinkedMap = m.repaired) := by
  refine ⟨_, rfl, ?_⟩; decide

theorem LinkedSet_desc : ∃ m, findType linkedTypes "LinkedSet" = some m ∧ (Gen.C09.LinkedSet = m ∨ Gen.C09.LinkedSet = m.repaired) := by
  refine ⟨_, rfl, ?_⟩; decide

theorem IntLinkedSet_desc : ∃ m, findType linkedTypes "IntLinkedSet" = some m ∧ (Gen.C09.IntLinkedSet = m ∨ Gen.C09.IntLinkedSet = m.repaired) := by
  refine ⟨_, rfl, ?_⟩; decide

theorem StringLinkedSet_desc : ∃ m, findType linkedTypes "StringLinkedSet" = some m ∧ (Gen.C09.StringLinkedSet = m ∨ Gen.C09.StringLinkedSet = m.repaired) := by
  refine ⟨_, rfl, ?_⟩; decide

/-- the whole table, in order (a type with a recorded deviation may also appear in its repaired form) -/
theorem types_match :
    (Gen.C09.types.map (·.name) = linkedTypes.map (·.name)) ∧
    (Gen.C09.types.zip linkedTypes).all (fun p => decide (p.1 = p.2) || decide (p.1 = p.2.repaired)) = true := by decide


/-! ### interpreted tie A: the transcribed statements of put / add / addNoOver / remove / rehash, run with the
    semantics of `Golib.HMap.IR`, are the CodeModel's steps — for every state, key, value, mode, hash function and
    threshold function.  (`Gen.C09IR.*` is regenerated from the Go source on every run.) -/

section interpreted
open HMap.IR
variable {K V : Type} [DecidableEq K] [DecidableEq V]

/-- LinkedMap.put -/
theorem LinkedMap_put_interp (d : Desc K V) (hash : K → Nat) (thr : Nat → Nat) (m : LMap K V) (mode : Mode) (k : K) (v : V) :
    run d hash thr mode k v Gen.C09IR.LinkedMap_put m = expectPut d hash thr (putShape "LinkedMap") m mode k v :=
  put_linked_interp d hash thr (putShape "LinkedMap") rfl (by decide) rfl rfl rfl _ (by decide) m mode k v

/-- LinkedMap.remove -/
theorem LinkedMap_remove_interp (d : Desc K V) (hash : K → Nat) (thr : Nat → Nat) (m : LMap K V) (mode : Mode) (k : K) (v : V) :
    run d hash thr mode k v Gen.C09IR.LinkedMap_remove m = expectRemove hash (removeShape "LinkedMap") m k :=
  remove_linked_interp d hash thr (removeShape "LinkedMap") rfl rfl _ (by decide) m mode k v

/-- LinkedMap.rehash -/
theorem LinkedMap_rehash_interp (hash : K → Nat) (thr : Nat → Nat) (m : LMap K V) :
    interpRehash hash thr Gen.C09IR.LinkedMap_rehash m = m.rehash hash thr := by
  rw [show Gen.C09IR.LinkedMap_rehash = canonRehash from by decide]; exact rehash_correct hash thr m

/-- IntKeyLinkedMap.put -/
theorem IntKeyLinkedMap_put_interp (d : Desc K V) (hash : K → Nat) (thr : Nat → Nat) (m : LMap K V) (mode : Mode) (k : K) (v : V) :
    run d hash thr mode k v Gen.C09IR.IntKeyLinkedMap_put m = expectPut d hash thr (putShape "IntKeyLinkedMap") m mode k v :=
  put_linked_interp d hash thr (putShape "IntKeyLinkedMap") rfl (by decide) rfl rfl rfl _ (by decide) m mode k v

/-- IntKeyLinkedMap.remove -/
theorem IntKeyLinkedMap_remove_interp (d : Desc K V) (hash : K → Nat) (thr : Nat → Nat) (m : LMap K V) (mode : Mode) (k : K) (v : V) :
    run d hash thr mode k v Gen.C09IR.IntKeyLinkedMap_remove m = expectRemove hash (removeShape "IntKeyLinkedMap") m k :=
  remove_linked_interp d hash thr (removeShape "IntKeyLinkedMap") rfl rfl _ (by decide) m mode k v

/-- IntKeyLinkedMap.rehash -/
theorem IntKeyLinkedMap_rehash_interp (hash : K → Nat) (thr : Nat → Nat) (m : LMap K V) :
    interpRehash hash thr Gen.C09IR.IntKeyLinkedMap_rehash m = m.rehash hash thr := by
  rw [show Gen.C09IR.IntKeyLinkedMap_rehash = canonRehash from by decide]; exact rehash_correct hash thr m

/-- LongKeyLinkedMap.put -/
theorem LongKeyLinkedMap_put_interp (d : Desc K V) (hash : K → Nat) (thr : Nat → Nat) (m : LMap K V) (mode : Mode) (k : K) (v : V) :
    run d hash thr mode k v Gen.C09IR.LongKeyLinkedMap_put m = expectPut d hash thr (putShape "LongKeyLinkedMap") m mode k v :=
  put_linked_interp d hash thr (putShape "LongKeyLinkedMap") rfl (by decide) rfl rfl rfl _ (by decide) m mode k v

/-- LongKeyLinkedMap.remove -/
theorem LongKeyLinkedMap_remove_interp (d : Desc K V) (hash : K → Nat) (thr : Nat → Nat) (m : LMap K V) (mode : Mode) (k : K) (v : V) :
    run d hash thr mode k v Gen.C09IR.LongKeyLinkedMap_remove m = expectRemove hash (removeShape "LongKeyLinkedMap") m k :=
  remove_linked_interp d hash thr (removeShape "LongKeyLinkedMap") rfl rfl _ (by decide) m mode k v

/-- LongKeyLinkedMap.rehash -/
theorem LongKeyLinkedMap_rehash_interp (hash : K → Nat) (thr : Nat → Nat) (m : LMap K V) :
    interpRehash hash thr Gen.C09IR.LongKeyLinkedMap_rehash m = m.rehash hash thr := by
  rw [show Gen.C09IR.LongKeyLinkedMap_rehash = canonRehash from by decide]; exact rehash_correct hash thr m

/-- StringKeyLinkedMap.put -/
theorem StringKeyLinkedMap_put_interp (d : Desc K V) (hash : K → Nat) (thr : Nat → Nat) (m : LMap K V) (mode : Mode) (k : K) (v : V) :
    run d hash thr mode k v Gen.C09IR.StringKeyLinkedMap_put m = expectPut d hash thr (putShape "StringKeyLinkedMap") m mode k v :=
  put_linked_interp d hash thr (putShape "StringKeyLinkedMap") rfl (by decide) rfl rfl rfl _ (by decide) m mode k v

/-- StringKeyLinkedMap.remove -/
theorem StringKeyLinkedMap_remove_interp (d : Desc K V) (hash : K → Nat) (thr : Nat → Nat) (m : LMap K V) (mode : Mode) (k : K) (v : V) :
    run d hash thr mode k v Gen.C09IR.StringKeyLinkedMap_remove m = expectRemove hash (removeShape "StringKeyLinkedMap") m k :=
  remove_linked_interp d hash thr (removeShape "StringKeyLinkedMap") rfl rfl _ (by decide) m mode k v

/-- StringKeyLinkedMap.rehash -/
theorem StringKeyLinkedMap_rehash_interp (hash : K → Nat) (thr : Nat → Nat) (m : LMap K V) :
    interpRehash hash thr Gen.C09IR.StringKeyLinkedMap_rehash m = m.rehash hash thr := by
  rw [show Gen.C09IR.StringKeyLinkedMap_rehash = canonRehash from by decide]; exact rehash_correct hash thr m

/-- IntIntLinkedMap.put -/
theorem IntIntLinkedMap_put_interp (d : Desc K V) (hash : K → Nat) (thr : Nat → Nat) (m : LMap K V) (mode : Mode) (k : K) (v : V) :
    run d hash thr mode k v Gen.C09IR.IntIntLinkedMap_put m = expectPut d hash thr (putShape "IntIntLinkedMap") m mode k v :=
  put_linked_interp d hash thr (putShape "IntIntLinkedMap") rfl (by decide) rfl rfl rfl _ (by decide) m mode k v

/-- IntIntLinkedMap.add / _add -/
theorem IntIntLinkedMap_add_interp (d : Desc K V) (hash : K → Nat) (thr : Nat → Nat) (m : LMap K V) (mode : Mode) (k : K) (v : V) :
    run d hash thr mode k v Gen.C09IR.IntIntLinkedMap_add m = expectPut d hash thr (addShape "IntIntLinkedMap") m mode k v :=
  put_linked_interp d hash thr (addShape "IntIntLinkedMap") rfl (by decide) rfl rfl rfl _ (by decide) m mode k v

/-- IntIntLinkedMap.remove -/
theorem IntIntLinkedMap_remove_interp (d : Desc K V) (hash : K → Nat) (thr : Nat → Nat) (m : LMap K V) (mode : Mode) (k : K) (v : V) :
    run d hash thr mode k v Gen.C09IR.IntIntLinkedMap_remove m = expectRemove hash (removeShape "IntIntLinkedMap") m k :=
  remove_linked_interp d hash thr (removeShape "IntIntLinkedMap") rfl rfl _ (by decide) m mode k v

/-- IntIntLinkedMap.rehash -/
theorem IntIntLinkedMap_rehash_interp (hash : K → Nat) (thr : Nat → Nat) (m : LMap K V) :
    interpRehash hash thr Gen.C09IR.IntIntLinkedMap_rehash m = m.rehash hash thr := by
  rw [show Gen.C09IR.IntIntLinkedMap_rehash = canonRehash from by decide]; exact rehash_correct hash thr m

/-- IntFloatLinkedMap.put -/
theorem IntFloatLinkedMap_put_interp (d : Desc K V) (hash : K → Nat) (thr : Nat → Nat) (m : LMap K V) (mode : Mode) (k : K) (v : V) :
    run d hash thr mode k v Gen.C09IR.IntFloatLinkedMap_put m = expectPut d hash thr (putShape "IntFloatLinkedMap") m mode k v :=
  put_linked_interp d hash thr (putShape "IntFloatLinkedMap") rfl (by decide) rfl rfl rfl _ (by decide) m mode k v

/-- IntFloatLinkedMap.add / _add -/
theorem IntFloatLinkedMap_add_interp (d : Desc K V) (hash : K → Nat) (thr : Nat → Nat) (m : LMap K V) (mode : Mode) (k : K) (v : V) :
    run d hash thr mode k v Gen.C09IR.IntFloatLinkedMap_add m = expectPut d hash thr (addShape "IntFloatLinkedMap") m mode k v :=
  put_linked_interp d hash thr (addShape "IntFloatLinkedMap") rfl (by decide) rfl rfl rfl _ (by decide) m mode k v

/-- IntFloatLinkedMap.remove -/
theorem IntFloatLinkedMap_remove_interp (d : Desc K V) (hash : K → Nat) (thr : Nat → Nat) (m : LMap K V) (mode : Mode) (k : K) (v : V) :
    run d hash thr mode k v Gen.C09IR.IntFloatLinkedMap_remove m = expectRemove hash (removeShape "IntFloatLinkedMap") m k :=
  remove_linked_interp d hash thr (removeShape "IntFloatLinkedMap") rfl rfl _ (by decide) m mode k v

/-- IntFloatLinkedMap.rehash -/
theorem IntFloatLinkedMap_rehash_interp (hash : K → Nat) (thr : Nat → Nat) (m : LMap K V) :
    interpRehash hash thr Gen.C09IR.IntFloatLinkedMap_rehash m = m.rehash hash thr := by
  rw [show Gen.C09IR.IntFloatLinkedMap_rehash = canonRehash from by decide]; exact rehash_correct hash thr m

/-- LongFloatLinkedMap.put -/
theorem LongFloatLinkedMap_put_interp (d : Desc K V) (hash : K → Nat) (thr : Nat → Nat) (m : LMap K V) (mode : Mode) (k : K) (v : V) :
    run d hash thr mode k v Gen.C09IR.LongFloatLinkedMap_put m = expectPut d hash thr (putShape "LongFloatLinkedMap") m mode k v :=
  put_linked_interp d hash thr (putShape "LongFloatLinkedMap") rfl (by decide) rfl rfl rfl _ (by decide) m mode k v

/-- LongFloatLinkedMap.add / _add -/
theorem LongFloatLinkedMap_add_interp (d : Desc K V) (hash : K → Nat) (thr : Nat → Nat) (m : LMap K V) (mode : Mode) (k : K) (v : V) :
    run d hash thr mode k v Gen.C09IR.LongFloatLinkedMap_add m = expectPut d hash thr (addShape "LongFloatLinkedMap") m mode k v :=
  put_linked_interp d hash thr (addShape "LongFloatLinkedMap") rfl (by decide) rfl rfl rfl _ (by decide) m mode k v

/-- LongFloatLinkedMap.remove -/
theorem LongFloatLinkedMap_remove_interp (d : Desc K V) (hash : K → Nat) (thr : Nat → Nat) (m : LMap K V) (mode : Mode) (k : K) (v : V) :
    run d hash thr mode k v Gen.C09IR.LongFloatLinkedMap_remove m = expectRemove hash (removeShape "LongFloatLinkedMap") m k :=
  remove_linked_interp d hash thr (removeShape "LongFloatLinkedMap") rfl rfl _ (by decide) m mode k v

/-- LongFloatLinkedMap.rehash -/
theorem LongFloatLinkedMap_rehash_interp (hash : K → Nat) (thr : Nat → Nat) (m : LMap K V) :
    interpRehash hash thr Gen.C09IR.LongFloatLinkedMap_rehash m = m.rehash hash thr := by
  rw [show Gen.C09IR.LongFloatLinkedMap_rehash = canonRehash from by decide]; exact rehash_correct hash thr m

/-- LongLongLinkedMap.put -/
theorem LongLongLinkedMap_put_interp (d : Desc K V) (hash : K → Nat) (thr : Nat → Nat) (m : LMap K V) (mode : Mode) (k : K) (v : V) :
    run d hash thr mode k v Gen.C09IR.LongLongLinkedMap_put m = expectPut d hash thr (putShape "LongLongLinkedMap") m mode k v :=
  put_linked_interp d hash thr (putShape "LongLongLinkedMap") rfl (by decide) rfl rfl rfl _ (by decide) m mode k v

/-- LongLongLinkedMap.add / _add -/
theorem LongLongLinkedMap_add_interp (d : Desc K V) (hash : K → Nat) (thr : Nat → Nat) (m : LMap K V) (mode : Mode) (k : K) (v : V) :
    run d hash thr mode k v Gen.C09IR.LongLongLinkedMap_add m = expectPut d hash thr (addShape "LongLongLinkedMap") m mode k v :=
  put_linked_interp d hash thr (addShape "LongLongLinkedMap") rfl (by decide) rfl rfl rfl _ (by decide) m mode k v

/-- LongLongLinkedMap.remove -/
theorem LongLongLinkedMap_remove_interp (d : Desc K V) (hash : K → Nat) (thr : Nat → Nat) (m : LMap K V) (mode : Mode) (k : K) (v : V) :
    run d hash thr mode k v Gen.C09IR.LongLongLinkedMap_remove m = expectRemove hash (removeShape "LongLongLinkedMap") m k :=
  remove_linked_interp d hash thr (removeShape "LongLongLinkedMap") rfl rfl _ (by decide) m mode k v

/-- LongLongLinkedMap.rehash -/
theorem LongLongLinkedMap_rehash_interp (hash : K → Nat) (thr : Nat → Nat) (m : LMap K V) :
    interpRehash hash thr Gen.C09IR.LongLongLinkedMap_rehash m = m.rehash hash thr := by
  rw [show Gen.C09IR.LongLongLinkedMap_rehash = canonRehash from by decide]; exact rehash_correct hash thr m

/-- StringIntLinkedMap.put -/
theorem StringIntLinkedMap_put_interp (d : Desc K V) (hash : K → Nat) (thr : Nat → Nat) (m : LMap K V) (mode : Mode) (k : K) (v : V) :
    run d hash thr mode k v Gen.C09IR.StringIntLinkedMap_put m = expectPut d hash thr (putShape "StringIntLinkedMap") m mode k v :=
  put_linked_interp d hash thr (putShape "StringIntLinkedMap") rfl (by decide) rfl rfl rfl _ (by decide) m mode k v

/-- StringIntLinkedMap.add / _add -/
theorem StringIntLinkedMap_add_interp (d : Desc K V) (hash : K → Nat) (thr : Nat → Nat) (m : LMap K V) (mode : Mode) (k : K) (v : V) :
    run d hash thr mode k v Gen.C09IR.StringIntLinkedMap_add m = expectPut d hash thr (addShape "StringIntLinkedMap") m mode k v :=
  put_linked_interp d hash thr (addShape "StringIntLinkedMap") rfl (by decide) rfl rfl rfl _ (by decide) m mode k v

/-- StringIntLinkedMap.remove -/
theorem StringIntLinkedMap_remove_interp (d : Desc K V) (hash : K → Nat) (thr : Nat → Nat) (m : LMap K V) (mode : Mode) (k : K) (v : V) :
    run d hash thr mode k v Gen.C09IR.StringIntLinkedMap_remove m = expectRemove hash (removeShape "StringIntLinkedMap") m k :=
  remove_linked_interp d hash thr (removeShape "StringIntLinkedMap") rfl rfl _ (by decide) m mode k v

/-- StringIntLinkedMap.rehash -/
theorem StringIntLinkedMap_rehash_interp (hash : K → Nat) (thr : Nat → Nat) (m : LMap K V) :
    interpRehash hash thr Gen.C09IR.StringIntLinkedMap_rehash m = m.rehash hash thr := by
  rw [show Gen.C09IR.StringIntLinkedMap_rehash = canonRehash from by decide]; exact rehash_correct hash thr m

/-- StringLongLinkedMap.put -/
theorem StringLongLinkedMap_put_interp (d : Desc K V) (hash : K → Nat) (thr : Nat → Nat) (m : LMap K V) (mode : Mode) (k : K) (v : V) :
    run d hash thr mode k v Gen.C09IR.StringLongLinkedMap_put m = expectPut d hash thr (putShape "StringLongLinkedMap") m mode k v :=
  put_linked_interp d hash thr (putShape "StringLongLinkedMap") rfl (by decide) rfl rfl rfl _ (by decide) m mode k v

/-- StringLongLinkedMap.add / _add -/
theorem StringLongLinkedMap_add_interp (d : Desc K V) (hash : K → Nat) (thr : Nat → Nat) (m : LMap K V) (mode : Mode) (k : K) (v : V) :
    run d hash thr mode k v Gen.C09IR.StringLongLinkedMap_add m = expectPut d hash thr (addShape "StringLongLinkedMap") m mode k v :=
  put_linked_interp d hash thr (addShape "StringLongLinkedMap") rfl (by decide) rfl rfl rfl _ (by decide) m mode k v

/-- StringLongLinkedMap.remove -/
theorem StringLongLinkedMap_remove_interp (d : Desc K V) (hash : K → Nat) (thr : Nat → Nat) (m : LMap K V) (mode : Mode) (k : K) (v : V) :
    run d hash thr mode k v Gen.C09IR.StringLongLinkedMap_remove m = expectRemove hash (removeShape "StringLongLinkedMap") m k :=
  remove_linked_interp d hash thr (removeShape "StringLongLinkedMap") rfl rfl _ (by decide) m mode k v

/-- StringLongLinkedMap.rehash -/
theorem StringLongLinkedMap_rehash_interp (hash : K → Nat) (thr : Nat → Nat) (m : LMap K V) :
    interpRehash hash thr Gen.C09IR.StringLongLinkedMap_rehash m = m.rehash hash thr := by
  rw [show Gen.C09IR.StringLongLinkedMap_rehash = canonRehash from by decide]; exact rehash_correct hash thr m

/-- LinkedSet.put(key, m): the set's statements are `putWith` on `V = Unit` -/
theorem LinkedSet_put_interp {K : Type} [DecidableEq K] (d : Desc K Unit) (hash : K → Nat) (thr : Nat → Nat) (m : LMap K Unit) (mode : Mode) (k : K) :
    run d hash thr mode k () Gen.C09IR.LinkedSet_put m = expectPut d hash thr (putShape "LinkedSet") m mode k () :=
  put_set_interp d hash thr (putShape "LinkedSet") rfl rfl rfl rfl rfl rfl _ (by decide) m mode k () (fun _ _ => rfl)

/-- LinkedSet.remove -/
theorem LinkedSet_remove_interp (d : Desc K V) (hash : K → Nat) (thr : Nat → Nat) (m : LMap K V) (mode : Mode) (k : K) (v : V) :
    run d hash thr mode k v Gen.C09IR.LinkedSet_remove m = expectRemove hash (removeShape "LinkedSet") m k :=
  remove_linked_interp d hash thr (removeShape "LinkedSet") rfl rfl _ (by decide) m mode k v

/-- LinkedSet.rehash -/
theorem LinkedSet_rehash_interp (hash : K → Nat) (thr : Nat → Nat) (m : LMap K V) :
    interpRehash hash thr Gen.C09IR.LinkedSet_rehash m = m.rehash hash thr := by
  rw [show Gen.C09IR.LinkedSet_rehash = canonRehash from by decide]; exact rehash_correct hash thr m

/-- IntLinkedSet.put(key, m): the set's statements are `putWith` on `V = Unit` -/
theorem IntLinkedSet_put_interp {K : Type} [DecidableEq K] (d : Desc K Unit) (hash : K → Nat) (thr : Nat → Nat) (m : LMap K Unit) (mode : Mode) (k : K) :
    run d hash thr mode k () Gen.C09IR.IntLinkedSet_put m = expectPut d hash thr (putShape "IntLinkedSet") m mode k () :=
  put_set_interp d hash thr (putShape "IntLinkedSet") rfl rfl rfl rfl rfl rfl _ (by decide) m mode k () (fun _ _ => rfl)

/-- IntLinkedSet.remove -/
theorem IntLinkedSet_remove_interp (d : Desc K V) (hash : K → Nat) (thr : Nat → Nat) (m : LMap K V) (mode : Mode) (k : K) (v : V) :
    run d hash thr mode k v Gen.C09IR.IntLinkedSet_remove m = expectRemove hash (removeShape "IntLinkedSet") m k :=
  remove_linked_interp d hash thr (removeShape "IntLinkedSet") rfl rfl _ (by decide) m mode k v

/-- IntLinkedSet.rehash -/
theorem IntLinkedSet_rehash_interp (hash : K → Nat) (thr : Nat → Nat) (m : LMap K V) :
    interpRehash hash thr Gen.C09IR.IntLinkedSet_rehash m = m.rehash hash thr := by
  rw [show Gen.C09IR.IntLinkedSet_rehash = canonRehash from by decide]; exact rehash_correct hash thr m

/-- StringLinkedSet.put(key, m): the set's statements are `putWith` on `V = Unit` -/
theorem StringLinkedSet_put_interp {K : Type} [DecidableEq K] (d : Desc K Unit) (hash : K → Nat) (thr : Nat → Nat) (m : LMap K Unit) (mode : Mode) (k : K) :
    run d hash thr mode k () Gen.C09IR.StringLinkedSet_put m = expectPut d hash thr (putShape "StringLinkedSet") m mode k () :=
  put_set_interp d hash thr (putShape "StringLinkedSet") rfl rfl rfl rfl rfl rfl _ (by decide) m mode k () (fun _ _ => rfl)

/-- StringLinkedSet.remove -/
theorem StringLinkedSet_remove_interp (d : Desc K V) (hash : K → Nat) (thr : Nat → Nat) (m : LMap K V) (mode : Mode) (k : K) (v : V) :
    run d hash thr mode k v Gen.C09IR.StringLinkedSet_remove m = expectRemove hash (removeShape "StringLinkedSet") m k :=
  remove_linked_interp d hash thr (removeShape "StringLinkedSet") rfl rfl _ (by decide) m mode k v

/-- StringLinkedSet.rehash -/
theorem StringLinkedSet_rehash_interp (hash : K → Nat) (thr : Nat → Nat) (m : LMap K V) :
    interpRehash hash thr Gen.C09IR.StringLinkedSet_rehash m = m.rehash hash thr := by
  rw [show Gen.C09IR.StringLinkedSet_rehash = canonRehash from by decide]; exact rehash_correct hash thr m

/-- IntIntLinkedMap.addNoOver (mode PUT_LAST) -/
theorem IntIntLinkedMap_addNoOver_interp (d : Desc K V) (hash : K → Nat) (thr : Nat → Nat) (m : LMap K V) (k : K) (v : V)
    (hnr : d.refuse k = false) :
    run d hash thr .last k v Gen.C09IR.IntIntLinkedMap_addNoOver m =
      ((m.addNoOver hash thr d k v).1,
       some (if (m.tab.get hash k).isSome then Ret.old else if m.isFull then Ret.absent else Ret.absent)) := by
  rw [show Gen.C09IR.IntIntLinkedMap_addNoOver = canonPut addNoOverShape from by decide]
  exact canonPut_noOver_correct d hash thr addNoOverShape rfl rfl rfl rfl .absent rfl rfl rfl m k v hnr

/-- the expected results are the CodeModel's own operations (unfolding `expectPut` for an unguarded and a guarded type) -/
theorem expectPut_is_put (d : Desc K V) (hash : K → Nat) (thr : Nat → Nat) (m : LMap K V) (mode : Mode) (k : K) (v : V) :
    (expectPut d hash thr (putShape "IntKeyLinkedMap") m mode k v).1 = (m.putWith hash thr mode k (fun _ => v)).1 ∧
    (expectPut d hash thr (putShape "StringIntLinkedMap") m mode k v).1 = (m.put hash thr d mode k v).1 ∧
    (expectPut d hash thr (addShape "StringIntLinkedMap") m mode k v).1 = (m.add hash thr d mode k v).1 := by
  refine ⟨rfl, ?_, ?_⟩
  · unfold expectPut LMap.put; simp only [putShape, mapPut]; cases d.refuse k <;> rfl
  · unfold expectPut LMap.add; simp only [addShape, mapPut]; cases d.refuse k <;> rfl

/-- the transcribed `IntKeyLinkedMap.put` and `remove`, run on a concrete map with a bound (constant hash: one chain) -/
example :
    let d : Desc Int Int := { comb := fun a b => a + b, veq := fun a b => a == b }
    let m0 : LMap Int Int := { LMap.new (fun c => c / 2) 1 with max := 2 }
    let m1 := (run d (fun _ => 7) (fun c => c / 2) .last 1 10 Gen.C09IR.IntKeyLinkedMap_put m0).1
    let m2 := (run d (fun _ => 7) (fun c => c / 2) .forceFirst 2 20 Gen.C09IR.IntKeyLinkedMap_put m1).1
    let r3 := run d (fun _ => 7) (fun c => c / 2) .last 3 30 Gen.C09IR.IntKeyLinkedMap_put m2
    let r4 := run d (fun _ => 7) (fun c => c / 2) .last 3 0 Gen.C09IR.IntKeyLinkedMap_remove r3.1
    m2.order = [2, 1] ∧ r3.1.order = [1, 3] ∧ r3.2 = some Ret.absent ∧ r4.1.order = [1] ∧ r4.2 = some Ret.old := by
  decide

end interpreted


/-! ### interpreted tie A, second part: Get / ContainsKey / Contains / GetLRU / RemoveFirst / RemoveLast / clear / ContainsValue /
    Sort / ToBytes / ToObject — the transcribed statements (or loop facts) are the CodeModel's steps for all inputs.
    For `Contains` the empty-key guard statement tests the descriptor's *blind* predicate (`{ d with refuse := d.blind }`). -/

section interpreted2
open HMap.IR
variable {K V : Type} [DecidableEq K] [DecidableEq V]

/-- LinkedMap.Get: the map is unchanged, the answer is the stored value iff the key is present -/
theorem LinkedMap_get_interp (d : Desc K V) (hash : K → Nat) (thr : Nat → Nat) (m : LMap K V) (mode : Mode) (k : K) (v : V) :
    run d hash thr mode k v Gen.C09IR.LinkedMap_get m = (m, some (if (m.tab.get hash k).isSome then Ret.cur else Ret.absent)) := by
  rw [show Gen.C09IR.LinkedMap_get = canonLookup none .cur .absent from by decide]; exact canonLookup_correct d hash thr none .cur .absent m mode k v

/-- IntKeyLinkedMap.Get: the map is unchanged, the answer is the stored value iff the key is present -/
theorem IntKeyLinkedMap_get_interp (d : Desc K V) (hash : K → Nat) (thr : Nat → Nat) (m : LMap K V) (mode : Mode) (k : K) (v : V) :
    run d hash thr mode k v Gen.C09IR.IntKeyLinkedMap_get m = (m, some (if (m.tab.get hash k).isSome then Ret.cur else Ret.absent)) := by
  rw [show Gen.C09IR.IntKeyLinkedMap_get = canonLookup none .cur .absent from by decide]; exact canonLookup_correct d hash thr none .cur .absent m mode k v

/-- LongKeyLinkedMap.Get: the map is unchanged, the answer is the stored value iff the key is present -/
theorem LongKeyLinkedMap_get_interp (d : Desc K V) (hash : K → Nat) (thr : Nat → Nat) (m : LMap K V) (mode : Mode) (k : K) (v : V) :
    run d hash thr mode k v Gen.C09IR.LongKeyLinkedMap_get m = (m, some (if (m.tab.get hash k).isSome then Ret.cur else Ret.absent)) := by
  rw [show Gen.C09IR.LongKeyLinkedMap_get = canonLookup none .cur .absent from by decide]; exact canonLookup_correct d hash thr none .cur .absent m mode k v

/-- StringKeyLinkedMap.Get: the map is unchanged, the answer is the stored value iff the key is present -/
theorem StringKeyLinkedMap_get_interp (d : Desc K V) (hash : K → Nat) (thr : Nat → Nat) (m : LMap K V) (mode : Mode) (k : K) (v : V) :
    run d hash thr mode k v Gen.C09IR.StringKeyLinkedMap_get m = (m, some (if (m.tab.get hash k).isSome then Ret.cur else Ret.absent)) := by
  rw [show Gen.C09IR.StringKeyLinkedMap_get = canonLookup none .cur .absent from by decide]; exact canonLookup_correct d hash thr none .cur .absent m mode k v

/-- IntIntLinkedMap.Get: the map is unchanged, the answer is the stored value iff the key is present -/
theorem IntIntLinkedMap_get_interp (d : Desc K V) (hash : K → Nat) (thr : Nat → Nat) (m : LMap K V) (mode : Mode) (k : K) (v : V) :
    run d hash thr mode k v Gen.C09IR.IntIntLinkedMap_get m = (m, some (if (m.tab.get hash k).isSome then Ret.cur else Ret.absent)) := by
  rw [show Gen.C09IR.IntIntLinkedMap_get = canonLookup none .cur .absent from by decide]; exact canonLookup_correct d hash thr none .cur .absent m mode k v

/-- IntFloatLinkedMap.Get: the map is unchanged, the answer is the stored value iff the key is present -/
theorem IntFloatLinkedMap_get_interp (d : Desc K V) (hash : K → Nat) (thr : Nat → Nat) (m : LMap K V) (mode : Mode) (k : K) (v : V) :
    run d hash thr mode k v Gen.C09IR.IntFloatLinkedMap_get m = (m, some (if (m.tab.get hash k).isSome then Ret.cur else Ret.absent)) := by
  rw [show Gen.C09IR.IntFloatLinkedMap_get = canonLookup none .cur .absent from by decide]; exact canonLookup_correct d hash thr none .cur .absent m mode k v

/-- LongFloatLinkedMap.Get: the map is unchanged, the answer is the stored value iff the key is present -/
theorem LongFloatLinkedMap_get_interp (d : Desc K V) (hash : K → Nat) (thr : Nat → Nat) (m : LMap K V) (mode : Mode) (k : K) (v : V) :
    run d hash thr mode k v Gen.C09IR.LongFloatLinkedMap_get m = (m, some (if (m.tab.get hash k).isSome then Ret.cur else Ret.absent)) := by
  rw [show Gen.C09IR.LongFloatLinkedMap_get = canonLookup none .cur .absent from by decide]; exact canonLookup_correct d hash thr none .cur .absent m mode k v

/-- LongLongLinkedMap.Get: the map is unchanged, the answer is the stored value iff the key is present -/
theorem LongLongLinkedMap_get_interp (d : Desc K V) (hash : K → Nat) (thr : Nat → Nat) (m : LMap K V) (mode : Mode) (k : K) (v : V) :
    run d hash thr mode k v Gen.C09IR.LongLongLinkedMap_get m = (m, some (if (m.tab.get hash k).isSome then Ret.cur else Ret.absent)) := by
  rw [show Gen.C09IR.LongLongLinkedMap_get = canonLookup none .cur .absent from by decide]; exact canonLookup_correct d hash thr none .cur .absent m mode k v

/-- StringIntLinkedMap.Get: the map is unchanged, the answer is the stored value iff the key is present -/
theorem StringIntLinkedMap_get_interp (d : Desc K V) (hash : K → Nat) (thr : Nat → Nat) (m : LMap K V) (mode : Mode) (k : K) (v : V) :
    run d hash thr mode k v Gen.C09IR.StringIntLinkedMap_get m = (m, some (if (m.tab.get hash k).isSome then Ret.cur else Ret.absent)) := by
  rw [show Gen.C09IR.StringIntLinkedMap_get = canonLookup none .cur .absent from by decide]; exact canonLookup_correct d hash thr none .cur .absent m mode k v

/-- StringLongLinkedMap.Get: the map is unchanged, the answer is the stored value iff the key is present -/
theorem StringLongLinkedMap_get_interp (d : Desc K V) (hash : K → Nat) (thr : Nat → Nat) (m : LMap K V) (mode : Mode) (k : K) (v : V) :
    run d hash thr mode k v Gen.C09IR.StringLongLinkedMap_get m = (m, some (if (m.tab.get hash k).isSome then Ret.cur else Ret.absent)) := by
  rw [show Gen.C09IR.StringLongLinkedMap_get = canonLookup none .cur .absent from by decide]; exact canonLookup_correct d hash thr none .cur .absent m mode k v

/-- LinkedMap.ContainsKey: unchanged map, presence (behind the empty-key guard where the source has one) -/
theorem LinkedMap_contains_interp (d : Desc K V) (hash : K → Nat) (thr : Nat → Nat) (m : LMap K V) (mode : Mode) (k : K) (v : V) :
    (guardHead Gen.C09IR.LinkedMap_contains = none ∨ guardHead Gen.C09IR.LinkedMap_contains = some Ret.boolF) ∧
    run { d with refuse := d.blind } hash thr mode k v Gen.C09IR.LinkedMap_contains m =
      (m, some (match guardHead Gen.C09IR.LinkedMap_contains with
                | some r => if d.blind k then r else if (m.tab.get hash k).isSome then Ret.boolT else Ret.boolF
                | none => if (m.tab.get hash k).isSome then Ret.boolT else Ret.boolF)) := by
  refine ⟨by decide, ?_⟩
  rw [show Gen.C09IR.LinkedMap_contains = canonLookup (guardHead Gen.C09IR.LinkedMap_contains) .boolT .boolF from by decide]
  exact canonLookup_correct { d with refuse := d.blind } hash thr _ .boolT .boolF m mode k v

/-- LinkedMap.RemoveFirst / RemoveLast: the state after is the CodeModel's -/
theorem LinkedMap_removeEnd_interp (d : Desc K V) (hash : K → Nat) (thr : Nat → Nat) (m : LMap K V) (mode : Mode) (k : K) (v : V) :
    (run d hash thr mode k v Gen.C09IR.LinkedMap_removeFirst m).1 = (LMap.step hash thr d m .removeFirst).1 ∧
    (run d hash thr mode k v Gen.C09IR.LinkedMap_removeLast m).1 = (LMap.step hash thr d m .removeLast).1 := by
  obtain ⟨r, hf, hl⟩ : ∃ r, Gen.C09IR.LinkedMap_removeFirst = canonRemoveEnd r .front ∧ Gen.C09IR.LinkedMap_removeLast = canonRemoveEnd r .back := by
    first | exact ⟨.zero, by decide, by decide⟩ | exact ⟨.absent, by decide, by decide⟩
  rw [hf, hl]; exact canonRemoveEnd_correct d hash thr r m mode k v

/-- LinkedMap.clear -/
theorem LinkedMap_clear_interp (d : Desc K V) (hash : K → Nat) (thr : Nat → Nat) (m : LMap K V) (mode : Mode) (k : K) (v : V) :
    run d hash thr mode k v Gen.C09IR.LinkedMap_clear m = (m.clear, none) := by
  rw [show Gen.C09IR.LinkedMap_clear = canonClear from by decide]; exact canonClear_correct d hash thr m mode k v

/-- LinkedMap.Sort: collect, sort.Sort by key, clear, re-put with PUT_LAST -/
theorem LinkedMap_sort_interp (d : Desc K V) (hash : K → Nat) (thr : Nat → Nat) (m : LMap K V) (lt : K → K → Bool) :
    interpSort d hash thr Gen.C09IR.LinkedMap_sort m lt = m.sort hash thr d lt := by
  rw [show Gen.C09IR.LinkedMap_sort = canonSort from by decide]; exact interpSort_correct d hash thr m lt

/-- IntKeyLinkedMap.ContainsKey: unchanged map, presence (behind the empty-key guard where the source has one) -/
theorem IntKeyLinkedMap_contains_interp (d : Desc K V) (hash : K → Nat) (thr : Nat → Nat) (m : LMap K V) (mode : Mode) (k : K) (v : V) :
    (guardHead Gen.C09IR.IntKeyLinkedMap_contains = none ∨ guardHead Gen.C09IR.IntKeyLinkedMap_contains = some Ret.boolF) ∧
    run { d with refuse := d.blind } hash thr mode k v Gen.C09IR.IntKeyLinkedMap_contains m =
      (m, some (match guardHead Gen.C09IR.IntKeyLinkedMap_contains with
                | some r => if d.blind k then r else if (m.tab.get hash k).isSome then Ret.boolT else Ret.boolF
                | none => if (m.tab.get hash k).isSome then Ret.boolT else Ret.boolF)) := by
  refine ⟨by decide, ?_⟩
  rw [show Gen.C09IR.IntKeyLinkedMap_contains = canonLookup (guardHead Gen.C09IR.IntKeyLinkedMap_contains) .boolT .boolF from by decide]
  exact canonLookup_correct { d with refuse := d.blind } hash thr _ .boolT .boolF m mode k v

/-- IntKeyLinkedMap.RemoveFirst / RemoveLast: the state after is the CodeModel's -/
theorem IntKeyLinkedMap_removeEnd_interp (d : Desc K V) (hash : K → Nat) (thr : Nat → Nat) (m : LMap K V) (mode : Mode) (k : K) (v : V) :
    (run d hash thr mode k v Gen.C09IR.IntKeyLinkedMap_removeFirst m).1 = (LMap.step hash thr d m .removeFirst).1 ∧
    (run d hash thr mode k v Gen.C09IR.IntKeyLinkedMap_removeLast m).1 = (LMap.step hash thr d m .removeLast).1 := by
  obtain ⟨r, hf, hl⟩ : ∃ r, Gen.C09IR.IntKeyLinkedMap_removeFirst = canonRemoveEnd r .front ∧ Gen.C09IR.IntKeyLinkedMap_removeLast = canonRemoveEnd r .back := by
    first | exact ⟨.zero, by decide, by decide⟩ | exact ⟨.absent, by decide, by decide⟩
  rw [hf, hl]; exact canonRemoveEnd_correct d hash thr r m mode k v

/-- IntKeyLinkedMap.clear -/
theorem IntKeyLinkedMap_clear_interp (d : Desc K V) (hash : K → Nat) (thr : Nat → Nat) (m : LMap K V) (mode : Mode) (k : K) (v : V) :
    run d hash thr mode k v Gen.C09IR.IntKeyLinkedMap_clear m = (m.clear, none) := by
  rw [show Gen.C09IR.IntKeyLinkedMap_clear = canonClear from by decide]; exact canonClear_correct d hash thr m mode k v

/-- IntKeyLinkedMap.Sort: collect, sort.Sort by key, clear, re-put with PUT_LAST -/
theorem IntKeyLinkedMap_sort_interp (d : Desc K V) (hash : K → Nat) (thr : Nat → Nat) (m : LMap K V) (lt : K → K → Bool) :
    interpSort d hash thr Gen.C09IR.IntKeyLinkedMap_sort m lt = m.sort hash thr d lt := by
  rw [show Gen.C09IR.IntKeyLinkedMap_sort = canonSort from by decide]; exact interpSort_correct d hash thr m lt

/-- LongKeyLinkedMap.ContainsKey: unchanged map, presence (behind the empty-key guard where the source has one) -/
theorem LongKeyLinkedMap_contains_interp (d : Desc K V) (hash : K → Nat) (thr : Nat → Nat) (m : LMap K V) (mode : Mode) (k : K) (v : V) :
    (guardHead Gen.C09IR.LongKeyLinkedMap_contains = none ∨ guardHead Gen.C09IR.LongKeyLinkedMap_contains = some Ret.boolF) ∧
    run { d with refuse := d.blind } hash thr mode k v Gen.C09IR.LongKeyLinkedMap_contains m =
      (m, some (match guardHead Gen.C09IR.LongKeyLinkedMap_contains with
                | some r => if d.blind k then r else if (m.tab.get hash k).isSome then Ret.boolT else Ret.boolF
                | none => if (m.tab.get hash k).isSome then Ret.boolT else Ret.boolF)) := by
  refine ⟨by decide, ?_⟩
  rw [show Gen.C09IR.LongKeyLinkedMap_contains = canonLookup (guardHead Gen.C09IR.LongKeyLinkedMap_contains) .boolT .boolF from by decide]
  exact canonLookup_correct { d with refuse := d.blind } hash thr _ .boolT .boolF m mode k v

/-- LongKeyLinkedMap.RemoveFirst / RemoveLast: the state after is the CodeModel's -/
theorem LongKeyLinkedMap_removeEnd_interp (d : Desc K V) (hash : K → Nat) (thr : Nat → Nat) (m : LMap K V) (mode : Mode) (k : K) (v : V) :
    (run d hash thr mode k v Gen.C09IR.LongKeyLinkedMap_removeFirst m).1 = (LMap.step hash thr d m .removeFirst).1 ∧
    (run d hash thr mode k v Gen.C09IR.LongKeyLinkedMap_removeLast m).1 = (LMap.step hash thr d m .removeLast).1 := by
  obtain ⟨r, hf, hl⟩ : ∃ r, Gen.C09IR.LongKeyLinkedMap_removeFirst = canonRemoveEnd r .front ∧ Gen.C09IR.LongKeyLinkedMap_removeLast = canonRemoveEnd r .back := by
    first | exact ⟨.zero, by decide, by decide⟩ | exact ⟨.absent, by decide, by decide⟩
  rw [hf, hl]; exact canonRemoveEnd_correct d hash thr r m mode k v

/-- LongKeyLinkedMap.clear -/
theorem LongKeyLinkedMap_clear_interp (d : Desc K V) (hash : K → Nat) (thr : Nat → Nat) (m : LMap K V) (mode : Mode) (k : K) (v : V) :
    run d hash thr mode k v Gen.C09IR.LongKeyLinkedMap_clear m = (m.clear, none) := by
  rw [show Gen.C09IR.LongKeyLinkedMap_clear = canonClear from by decide]; exact canonClear_correct d hash thr m mode k v

/-- LongKeyLinkedMap.Sort: collect, sort.Sort by key, clear, re-put with PUT_LAST -/
theorem LongKeyLinkedMap_sort_interp (d : Desc K V) (hash : K → Nat) (thr : Nat → Nat) (m : LMap K V) (lt : K → K → Bool) :
    interpSort d hash thr Gen.C09IR.LongKeyLinkedMap_sort m lt = m.sort hash thr d lt := by
  rw [show Gen.C09IR.LongKeyLinkedMap_sort = canonSort from by decide]; exact interpSort_correct d hash thr m lt

/-- StringKeyLinkedMap.ContainsKey: unchanged map, presence (behind the empty-key guard where the source has one) -/
theorem StringKeyLinkedMap_contains_interp (d : Desc K V) (hash : K → Nat) (thr : Nat → Nat) (m : LMap K V) (mode : Mode) (k : K) (v : V) :
    (guardHead Gen.C09IR.StringKeyLinkedMap_contains = none ∨ guardHead Gen.C09IR.StringKeyLinkedMap_contains = some Ret.boolF) ∧
    run { d with refuse := d.blind } hash thr mode k v Gen.C09IR.StringKeyLinkedMap_contains m =
      (m, some (match guardHead Gen.C09IR.StringKeyLinkedMap_contains with
                | some r => if d.blind k then r else if (m.tab.get hash k).isSome then Ret.boolT else Ret.boolF
                | none => if (m.tab.get hash k).isSome then Ret.boolT else Ret.boolF)) := by
  refine ⟨by decide, ?_⟩
  rw [show Gen.C09IR.StringKeyLinkedMap_contains = canonLookup (guardHead Gen.C09IR.StringKeyLinkedMap_contains) .boolT .boolF from by decide]
  exact canonLookup_correct { d with refuse := d.blind } hash thr _ .boolT .boolF m mode k v

/-- StringKeyLinkedMap.RemoveFirst / RemoveLast: the state after is the CodeModel's -/
theorem StringKeyLinkedMap_removeEnd_interp (d : Desc K V) (hash : K → Nat) (thr : Nat → Nat) (m : LMap K V) (mode : Mode) (k : K) (v : V) :
    (run d hash thr mode k v Gen.C09IR.StringKeyLinkedMap_removeFirst m).1 = (LMap.step hash thr d m .removeFirst).1 ∧
    (run d hash thr mode k v Gen.C09IR.StringKeyLinkedMap_removeLast m).1 = (LMap.step hash thr d m .removeLast).1 := by
  obtain ⟨r, hf, hl⟩ : ∃ r, Gen.C09IR.StringKeyLinkedMap_removeFirst = canonRemoveEnd r .front ∧ Gen.C09IR.StringKeyLinkedMap_removeLast = canonRemoveEnd r .back := by
    first | exact ⟨.zero, by decide, by decide⟩ | exact ⟨.absent, by decide, by decide⟩
  rw [hf, hl]; exact canonRemoveEnd_correct d hash thr r m mode k v

/-- StringKeyLinkedMap.clear -/
theorem StringKeyLinkedMap_clear_interp (d : Desc K V) (hash : K → Nat) (thr : Nat → Nat) (m : LMap K V) (mode : Mode) (k : K) (v : V) :
    run d hash thr mode k v Gen.C09IR.StringKeyLinkedMap_clear m = (m.clear, none) := by
  rw [show Gen.C09IR.StringKeyLinkedMap_clear = canonClear from by decide]; exact canonClear_correct d hash thr m mode k v

/-- StringKeyLinkedMap.Sort: collect, sort.Sort by key, clear, re-put with PUT_LAST -/
theorem StringKeyLinkedMap_sort_interp (d : Desc K V) (hash : K → Nat) (thr : Nat → Nat) (m : LMap K V) (lt : K → K → Bool) :
    interpSort d hash thr Gen.C09IR.StringKeyLinkedMap_sort m lt = m.sort hash thr d lt := by
  rw [show Gen.C09IR.StringKeyLinkedMap_sort = canonSort from by decide]; exact interpSort_correct d hash thr m lt

/-- IntIntLinkedMap.ContainsKey: unchanged map, presence (behind the empty-key guard where the source has one) -/
theorem IntIntLinkedMap_contains_interp (d : Desc K V) (hash : K → Nat) (thr : Nat → Nat) (m : LMap K V) (mode : Mode) (k : K) (v : V) :
    (guardHead Gen.C09IR.IntIntLinkedMap_contains = none ∨ guardHead Gen.C09IR.IntIntLinkedMap_contains = some Ret.boolF) ∧
    run { d with refuse := d.blind } hash thr mode k v Gen.C09IR.IntIntLinkedMap_contains m =
      (m, some (match guardHead Gen.C09IR.IntIntLinkedMap_contains with
                | some r => if d.blind k then r else if (m.tab.get hash k).isSome then Ret.boolT else Ret.boolF
                | none => if (m.tab.get hash k).isSome then Ret.boolT else Ret.boolF)) := by
  refine ⟨by decide, ?_⟩
  rw [show Gen.C09IR.IntIntLinkedMap_contains = canonLookup (guardHead Gen.C09IR.IntIntLinkedMap_contains) .boolT .boolF from by decide]
  exact canonLookup_correct { d with refuse := d.blind } hash thr _ .boolT .boolF m mode k v

/-- IntIntLinkedMap.RemoveFirst / RemoveLast: the state after is the CodeModel's -/
theorem IntIntLinkedMap_removeEnd_interp (d : Desc K V) (hash : K → Nat) (thr : Nat → Nat) (m : LMap K V) (mode : Mode) (k : K) (v : V) :
    (run d hash thr mode k v Gen.C09IR.IntIntLinkedMap_removeFirst m).1 = (LMap.step hash thr d m .removeFirst).1 ∧
    (run d hash thr mode k v Gen.C09IR.IntIntLinkedMap_removeLast m).1 = (LMap.step hash thr d m .removeLast).1 := by
  obtain ⟨r, hf, hl⟩ : ∃ r, Gen.C09IR.IntIntLinkedMap_removeFirst = canonRemoveEnd r .front ∧ Gen.C09IR.IntIntLinkedMap_removeLast = canonRemoveEnd r .back := by
    first | exact ⟨.zero, by decide, by decide⟩ | exact ⟨.absent, by decide, by decide⟩
  rw [hf, hl]; exact canonRemoveEnd_correct d hash thr r m mode k v

/-- IntIntLinkedMap.clear -/
theorem IntIntLinkedMap_clear_interp (d : Desc K V) (hash : K → Nat) (thr : Nat → Nat) (m : LMap K V) (mode : Mode) (k : K) (v : V) :
    run d hash thr mode k v Gen.C09IR.IntIntLinkedMap_clear m = (m.clear, none) := by
  rw [show Gen.C09IR.IntIntLinkedMap_clear = canonClear from by decide]; exact canonClear_correct d hash thr m mode k v

/-- IntIntLinkedMap.Sort: collect, sort.Sort by key, clear, re-put with PUT_LAST -/
theorem IntIntLinkedMap_sort_interp (d : Desc K V) (hash : K → Nat) (thr : Nat → Nat) (m : LMap K V) (lt : K → K → Bool) :
    interpSort d hash thr Gen.C09IR.IntIntLinkedMap_sort m lt = m.sort hash thr d lt := by
  rw [show Gen.C09IR.IntIntLinkedMap_sort = canonSort from by decide]; exact interpSort_correct d hash thr m lt

/-- IntFloatLinkedMap.ContainsKey: unchanged map, presence (behind the empty-key guard where the source has one) -/
theorem IntFloatLinkedMap_contains_interp (d : Desc K V) (hash : K → Nat) (thr : Nat → Nat) (m : LMap K V) (mode : Mode) (k : K) (v : V) :
    (guardHead Gen.C09IR.IntFloatLinkedMap_contains = none ∨ guardHead Gen.C09IR.IntFloatLinkedMap_contains = some Ret.boolF) ∧
    run { d with refuse := d.blind } hash thr mode k v Gen.C09IR.IntFloatLinkedMap_contains m =
      (m, some (match guardHead Gen.C09IR.IntFloatLinkedMap_contains with
                | some r => if d.blind k then r else if (m.tab.get hash k).isSome then Ret.boolT else Ret.boolF
                | none => if (m.tab.get hash k).isSome then Ret.boolT else Ret.boolF)) := by
  refine ⟨by decide, ?_⟩
  rw [show Gen.C09IR.IntFloatLinkedMap_contains = canonLookup (guardHead Gen.C09IR.IntFloatLinkedMap_contains) .boolT .boolF from by decide]
  exact canonLookup_correct { d with refuse := d.blind } hash thr _ .boolT .boolF m mode k v

/-- IntFloatLinkedMap.RemoveFirst / RemoveLast: the state after is the CodeModel's -/
theorem IntFloatLinkedMap_removeEnd_interp (d : Desc K V) (hash : K → Nat) (thr : Nat → Nat) (m : LMap K V) (mode : Mode) (k : K) (v : V) :
    (run d hash thr mode k v Gen.C09IR.IntFloatLinkedMap_removeFirst m).1 = (LMap.step hash thr d m .removeFirst).1 ∧
    (run d hash thr mode k v Gen.C09IR.IntFloatLinkedMap_removeLast m).1 = (LMap.step hash thr d m .removeLast).1 := by
  obtain ⟨r, hf, hl⟩ : ∃ r, Gen.C09IR.IntFloatLinkedMap_removeFirst = canonRemoveEnd r .front ∧ Gen.C09IR.IntFloatLinkedMap_removeLast = canonRemoveEnd r .back := by
    first | exact ⟨.zero, by decide, by decide⟩ | exact ⟨.absent, by decide, by decide⟩
  rw [hf, hl]; exact canonRemoveEnd_correct d hash thr r m mode k v

/-- IntFloatLinkedMap.clear -/
theorem IntFloatLinkedMap_clear_interp (d : Desc K V) (hash : K → Nat) (thr : Nat → Nat) (m : LMap K V) (mode : Mode) (k : K) (v : V) :
    run d hash thr mode k v Gen.C09IR.IntFloatLinkedMap_clear m = (m.clear, none) := by
  rw [show Gen.C09IR.IntFloatLinkedMap_clear = canonClear from by decide]; exact canonClear_correct d hash thr m mode k v

/-- IntFloatLinkedMap.Sort: collect, sort.Sort by key, clear, re-put with PUT_LAST -/
theorem IntFloatLinkedMap_sort_interp (d : Desc K V) (hash : K → Nat) (thr : Nat → Nat) (m : LMap K V) (lt : K → K → Bool) :
    interpSort d hash thr Gen.C09IR.IntFloatLinkedMap_sort m lt = m.sort hash thr d lt := by
  rw [show Gen.C09IR.IntFloatLinkedMap_sort = canonSort from by decide]; exact interpSort_correct d hash thr m lt

/-- LongFloatLinkedMap.ContainsKey: unchanged map, presence (behind the empty-key guard where the source has one) -/
theorem LongFloatLinkedMap_contains_interp (d : Desc K V) (hash : K → Nat) (thr : Nat → Nat) (m : LMap K V) (mode : Mode) (k : K) (v : V) :
    (guardHead Gen.C09IR.LongFloatLinkedMap_contains = none ∨ guardHead Gen.C09IR.LongFloatLinkedMap_contains = some Ret.boolF) ∧
    run { d with refuse := d.blind } hash thr mode k v Gen.C09IR.LongFloatLinkedMap_contains m =
      (m, some (match guardHead Gen.C09IR.LongFloatLinkedMap_contains with
                | some r => if d.blind k then r else if (m.tab.get hash k).isSome then Ret.boolT else Ret.boolF
                | none => if (m.tab.get hash k).isSome then Ret.boolT else Ret.boolF)) := by
  refine ⟨by decide, ?_⟩
  rw [show Gen.C09IR.LongFloatLinkedMap_contains = canonLookup (guardHead Gen.C09IR.LongFloatLinkedMap_contains) .boolT .boolF from by decide]
  exact canonLookup_correct { d with refuse := d.blind } hash thr _ .boolT .boolF m mode k v

/-- LongFloatLinkedMap.RemoveFirst / RemoveLast: the state after is the CodeModel's -/
theorem LongFloatLinkedMap_removeEnd_interp (d : Desc K V) (hash : K → Nat) (thr : Nat → Nat) (m : LMap K V) (mode : Mode) (k : K) (v : V) :
    (run d hash thr mode k v Gen.C09IR.LongFloatLinkedMap_removeFirst m).1 = (LMap.step hash thr d m .removeFirst).1 ∧
    (run d hash thr mode k v Gen.C09IR.LongFloatLinkedMap_removeLast m).1 = (LMap.step hash thr d m .removeLast).1 := by
  obtain ⟨r, hf, hl⟩ : ∃ r, Gen.C09IR.LongFloatLinkedMap_removeFirst = canonRemoveEnd r .front ∧ Gen.C09IR.LongFloatLinkedMap_removeLast = canonRemoveEnd r .back := by
    first | exact ⟨.zero, by decide, by decide⟩ | exact ⟨.absent, by decide, by decide⟩
  rw [hf, hl]; exact canonRemoveEnd_correct d hash thr r m mode k v

/-- LongFloatLinkedMap.clear -/
theorem LongFloatLinkedMap_clear_interp (d : Desc K V) (hash : K → Nat) (thr : Nat → Nat) (m : LMap K V) (mode : Mode) (k : K) (v : V) :
    run d hash thr mode k v Gen.C09IR.LongFloatLinkedMap_clear m = (m.clear, none) := by
  rw [show Gen.C09IR.LongFloatLinkedMap_clear = canonClear from by decide]; exact canonClear_correct d hash thr m mode k v

/-- LongFloatLinkedMap.Sort: collect, sort.Sort by key, clear, re-put with PUT_LAST -/
theorem LongFloatLinkedMap_sort_interp (d : Desc K V) (hash : K → Nat) (thr : Nat → Nat) (m : LMap K V) (lt : K → K → Bool) :
    interpSort d hash thr Gen.C09IR.LongFloatLinkedMap_sort m lt = m.sort hash thr d lt := by
  rw [show Gen.C09IR.LongFloatLinkedMap_sort = canonSort from by decide]; exact interpSort_correct d hash thr m lt

/-- LongLongLinkedMap.ContainsKey: unchanged map, presence (behind the empty-key guard where the source has one) -/
theorem LongLongLinkedMap_contains_interp (d : Desc K V) (hash : K → Nat) (thr : Nat → Nat) (m : LMap K V) (mode : Mode) (k : K) (v : V) :
    (guardHead Gen.C09IR.LongLongLinkedMap_contains = none ∨ guardHead Gen.C09IR.LongLongLinkedMap_contains = some Ret.boolF) ∧
    run { d with refuse := d.blind } hash thr mode k v Gen.C09IR.LongLongLinkedMap_contains m =
      (m, some (match guardHead Gen.C09IR.LongLongLinkedMap_contains with
                | some r => if d.blind k then r else if (m.tab.get hash k).isSome then Ret.boolT else Ret.boolF
                | none => if (m.tab.get hash k).isSome then Ret.boolT else Ret.boolF)) := by
  refine ⟨by decide, ?_⟩
  rw [show Gen.C09IR.LongLongLinkedMap_contains = canonLookup (guardHead Gen.C09IR.LongLongLinkedMap_contains) .boolT .boolF from by decide]
  exact canonLookup_correct { d with refuse := d.blind } hash thr _ .boolT .boolF m mode k v

/-- LongLongLinkedMap.RemoveFirst / RemoveLast: the state after is the CodeModel's -/
theorem LongLongLinkedMap_removeEnd_interp (d : Desc K V) (hash : K → Nat) (thr : Nat → Nat) (m : LMap K V) (mode : Mode) (k : K) (v : V) :
    (run d hash thr mode k v Gen.C09IR.LongLongLinkedMap_removeFirst m).1 = (LMap.step hash thr d m .removeFirst).1 ∧
    (run d hash thr mode k v Gen.C09IR.LongLongLinkedMap_removeLast m).1 = (LMap.step hash thr d m .removeLast).1 := by
  obtain ⟨r, hf, hl⟩ : ∃ r, Gen.C09IR.LongLongLinkedMap_removeFirst = canonRemoveEnd r .front ∧ Gen.C09IR.LongLongLinkedMap_removeLast = canonRemoveEnd r .back := by
    first | exact ⟨.zero, by decide, by decide⟩ | exact ⟨.absent, by decide, by decide⟩
  rw [hf, hl]; exact canonRemoveEnd_correct d hash thr r m mode k v

/-- LongLongLinkedMap.clear -/
theorem LongLongLinkedMap_clear_interp (d : Desc K V) (hash : K → Nat) (thr : Nat → Nat) (m : LMap K V) (mode : Mode) (k : K) (v : V) :
    run d hash thr mode k v Gen.C09IR.LongLongLinkedMap_clear m = (m.clear, none) := by
  rw [show Gen.C09IR.LongLongLinkedMap_clear = canonClear from by decide]; exact canonClear_correct d hash thr m mode k v

/-- LongLongLinkedMap.Sort: collect, sort.Sort by key, clear, re-put with PUT_LAST -/
theorem LongLongLinkedMap_sort_interp (d : Desc K V) (hash : K → Nat) (thr : Nat → Nat) (m : LMap K V) (lt : K → K → Bool) :
    interpSort d hash thr Gen.C09IR.LongLongLinkedMap_sort m lt = m.sort hash thr d lt := by
  rw [show Gen.C09IR.LongLongLinkedMap_sort = canonSort from by decide]; exact interpSort_correct d hash thr m lt

/-- StringIntLinkedMap.ContainsKey: unchanged map, presence (behind the empty-key guard where the source has one) -/
theorem StringIntLinkedMap_contains_interp (d : Desc K V) (hash : K → Nat) (thr : Nat → Nat) (m : LMap K V) (mode : Mode) (k : K) (v : V) :
    (guardHead Gen.C09IR.StringIntLinkedMap_contains = none ∨ guardHead Gen.C09IR.StringIntLinkedMap_contains = some Ret.boolF) ∧
    run { d with refuse := d.blind } hash thr mode k v Gen.C09IR.StringIntLinkedMap_contains m =
      (m, some (match guardHead Gen.C09IR.StringIntLinkedMap_contains with
                | some r => if d.blind k then r else if (m.tab.get hash k).isSome then Ret.boolT else Ret.boolF
                | none => if (m.tab.get hash k).isSome then Ret.boolT else Ret.boolF)) := by
  refine ⟨by decide, ?_⟩
  rw [show Gen.C09IR.StringIntLinkedMap_contains = canonLookup (guardHead Gen.C09IR.StringIntLinkedMap_contains) .boolT .boolF from by decide]
  exact canonLookup_correct { d with refuse := d.blind } hash thr _ .boolT .boolF m mode k v

/-- StringIntLinkedMap.RemoveFirst / RemoveLast: the state after is the CodeModel's -/
theorem StringIntLinkedMap_removeEnd_interp (d : Desc K V) (hash : K → Nat) (thr : Nat → Nat) (m : LMap K V) (mode : Mode) (k : K) (v : V) :
    (run d hash thr mode k v Gen.C09IR.StringIntLinkedMap_removeFirst m).1 = (LMap.step hash thr d m .removeFirst).1 ∧
    (run d hash thr mode k v Gen.C09IR.StringIntLinkedMap_removeLast m).1 = (LMap.step hash thr d m .removeLast).1 := by
  obtain ⟨r, hf, hl⟩ : ∃ r, Gen.C09IR.StringIntLinkedMap_removeFirst = canonRemoveEnd r .front ∧ Gen.C09IR.StringIntLinkedMap_removeLast = canonRemoveEnd r .back := by
    first | exact ⟨.zero, by decide, by decide⟩ | exact ⟨.absent, by decide, by decide⟩
  rw [hf, hl]; exact canonRemoveEnd_correct d hash thr r m mode k v

/-- StringIntLinkedMap.clear -/
theorem StringIntLinkedMap_clear_interp (d : Desc K V) (hash : K → Nat) (thr : Nat → Nat) (m : LMap K V) (mode : Mode) (k : K) (v : V) :
    run d hash thr mode k v Gen.C09IR.StringIntLinkedMap_clear m = (m.clear, none) := by
  rw [show Gen.C09IR.StringIntLinkedMap_clear = canonClear from by decide]; exact canonClear_correct d hash thr m mode k v

/-- StringIntLinkedMap.Sort: collect, sort.Sort by key, clear, re-put with PUT_LAST -/
theorem StringIntLinkedMap_sort_interp (d : Desc K V) (hash : K → Nat) (thr : Nat → Nat) (m : LMap K V) (lt : K → K → Bool) :
    interpSort d hash thr Gen.C09IR.StringIntLinkedMap_sort m lt = m.sort hash thr d lt := by
  rw [show Gen.C09IR.StringIntLinkedMap_sort = canonSort from by decide]; exact interpSort_correct d hash thr m lt

/-- StringLongLinkedMap.ContainsKey: unchanged map, presence (behind the empty-key guard where the source has one) -/
theorem StringLongLinkedMap_contains_interp (d : Desc K V) (hash : K → Nat) (thr : Nat → Nat) (m : LMap K V) (mode : Mode) (k : K) (v : V) :
    (guardHead Gen.C09IR.StringLongLinkedMap_contains = none ∨ guardHead Gen.C09IR.StringLongLinkedMap_contains = some Ret.boolF) ∧
    run { d with refuse := d.blind } hash thr mode k v Gen.C09IR.StringLongLinkedMap_contains m =
      (m, some (match guardHead Gen.C09IR.StringLongLinkedMap_contains with
                | some r => if d.blind k then r else if (m.tab.get hash k).isSome then Ret.boolT else Ret.boolF
                | none => if (m.tab.get hash k).isSome then Ret.boolT else Ret.boolF)) := by
  refine ⟨by decide, ?_⟩
  rw [show Gen.C09IR.StringLongLinkedMap_contains = canonLookup (guardHead Gen.C09IR.StringLongLinkedMap_contains) .boolT .boolF from by decide]
  exact canonLookup_correct { d with refuse := d.blind } hash thr _ .boolT .boolF m mode k v

/-- StringLongLinkedMap.RemoveFirst / RemoveLast: the state after is the CodeModel's -/
theorem StringLongLinkedMap_removeEnd_interp (d : Desc K V) (hash : K → Nat) (thr : Nat → Nat) (m : LMap K V) (mode : Mode) (k : K) (v : V) :
    (run d hash thr mode k v Gen.C09IR.StringLongLinkedMap_removeFirst m).1 = (LMap.step hash thr d m .removeFirst).1 ∧
    (run d hash thr mode k v Gen.C09IR.StringLongLinkedMap_removeLast m).1 = (LMap.step hash thr d m .removeLast).1 := by
  obtain ⟨r, hf, hl⟩ : ∃ r, Gen.C09IR.StringLongLinkedMap_removeFirst = canonRemoveEnd r .front ∧ Gen.C09IR.StringLongLinkedMap_removeLast = canonRemoveEnd r .back := by
    first | exact ⟨.zero, by decide, by decide⟩ | exact ⟨.absent, by decide, by decide⟩
  rw [hf, hl]; exact canonRemoveEnd_correct d hash thr r m mode k v

/-- StringLongLinkedMap.clear -/
theorem StringLongLinkedMap_clear_interp (d : Desc K V) (hash : K → Nat) (thr : Nat → Nat) (m : LMap K V) (mode : Mode) (k : K) (v : V) :
    run d hash thr mode k v Gen.C09IR.StringLongLinkedMap_clear m = (m.clear, none) := by
  rw [show Gen.C09IR.StringLongLinkedMap_clear = canonClear from by decide]; exact canonClear_correct d hash thr m mode k v

/-- StringLongLinkedMap.Sort: collect, sort.Sort by key, clear, re-put with PUT_LAST -/
theorem StringLongLinkedMap_sort_interp (d : Desc K V) (hash : K → Nat) (thr : Nat → Nat) (m : LMap K V) (lt : K → K → Bool) :
    interpSort d hash thr Gen.C09IR.StringLongLinkedMap_sort m lt = m.sort hash thr d lt := by
  rw [show Gen.C09IR.StringLongLinkedMap_sort = canonSort from by decide]; exact interpSort_correct d hash thr m lt

/-- LinkedSet.Contains: unchanged map, presence (behind the empty-key guard where the source has one) -/
theorem LinkedSet_contains_interp (d : Desc K V) (hash : K → Nat) (thr : Nat → Nat) (m : LMap K V) (mode : Mode) (k : K) (v : V) :
    (guardHead Gen.C09IR.LinkedSet_contains = none ∨ guardHead Gen.C09IR.LinkedSet_contains = some Ret.boolF) ∧
    run { d with refuse := d.blind } hash thr mode k v Gen.C09IR.LinkedSet_contains m =
      (m, some (match guardHead Gen.C09IR.LinkedSet_contains with
                | some r => if d.blind k then r else if (m.tab.get hash k).isSome then Ret.boolT else Ret.boolF
                | none => if (m.tab.get hash k).isSome then Ret.boolT else Ret.boolF)) := by
  refine ⟨by decide, ?_⟩
  rw [show Gen.C09IR.LinkedSet_contains = canonLookup (guardHead Gen.C09IR.LinkedSet_contains) .boolT .boolF from by decide]
  exact canonLookup_correct { d with refuse := d.blind } hash thr _ .boolT .boolF m mode k v

/-- LinkedSet.RemoveFirst / RemoveLast: the state after is the CodeModel's -/
theorem LinkedSet_removeEnd_interp (d : Desc K V) (hash : K → Nat) (thr : Nat → Nat) (m : LMap K V) (mode : Mode) (k : K) (v : V) :
    (run d hash thr mode k v Gen.C09IR.LinkedSet_removeFirst m).1 = (LMap.step hash thr d m .removeFirst).1 ∧
    (run d hash thr mode k v Gen.C09IR.LinkedSet_removeLast m).1 = (LMap.step hash thr d m .removeLast).1 := by
  obtain ⟨r, hf, hl⟩ : ∃ r, Gen.C09IR.LinkedSet_removeFirst = canonRemoveEnd r .front ∧ Gen.C09IR.LinkedSet_removeLast = canonRemoveEnd r .back := by
    first | exact ⟨.zero, by decide, by decide⟩ | exact ⟨.absent, by decide, by decide⟩
  rw [hf, hl]; exact canonRemoveEnd_correct d hash thr r m mode k v

/-- LinkedSet.clear -/
theorem LinkedSet_clear_interp (d : Desc K V) (hash : K → Nat) (thr : Nat → Nat) (m : LMap K V) (mode : Mode) (k : K) (v : V) :
    run d hash thr mode k v Gen.C09IR.LinkedSet_clear m = (m.clear, none) := by
  rw [show Gen.C09IR.LinkedSet_clear = canonClear from by decide]; exact canonClear_correct d hash thr m mode k v

/-- LinkedSet.Sort: collect, sort.Sort by key, clear, re-put with PUT_LAST -/
theorem LinkedSet_sort_interp (d : Desc K V) (hash : K → Nat) (thr : Nat → Nat) (m : LMap K V) (lt : K → K → Bool) :
    interpSort d hash thr Gen.C09IR.LinkedSet_sort m lt = m.sort hash thr d lt := by
  rw [show Gen.C09IR.LinkedSet_sort = canonSort from by decide]; exact interpSort_correct d hash thr m lt

/-- IntLinkedSet.Contains: unchanged map, presence (behind the empty-key guard where the source has one) -/
theorem IntLinkedSet_contains_interp (d : Desc K V) (hash : K → Nat) (thr : Nat → Nat) (m : LMap K V) (mode : Mode) (k : K) (v : V) :
    (guardHead Gen.C09IR.IntLinkedSet_contains = none ∨ guardHead Gen.C09IR.IntLinkedSet_contains = some Ret.boolF) ∧
    run { d with refuse := d.blind } hash thr mode k v Gen.C09IR.IntLinkedSet_contains m =
      (m, some (match guardHead Gen.C09IR.IntLinkedSet_contains with
                | some r => if d.blind k then r else if (m.tab.get hash k).isSome then Ret.boolT else Ret.boolF
                | none => if (m.tab.get hash k).isSome then Ret.boolT else Ret.boolF)) := by
  refine ⟨by decide, ?_⟩
  rw [show Gen.C09IR.IntLinkedSet_contains = canonLookup (guardHead Gen.C09IR.IntLinkedSet_contains) .boolT .boolF from by decide]
  exact canonLookup_correct { d with refuse := d.blind } hash thr _ .boolT .boolF m mode k v

/-- IntLinkedSet.RemoveFirst / RemoveLast: the state after is the CodeModel's -/
theorem IntLinkedSet_removeEnd_interp (d : Desc K V) (hash : K → Nat) (thr : Nat → Nat) (m : LMap K V) (mode : Mode) (k : K) (v : V) :
    (run d hash thr mode k v Gen.C09IR.IntLinkedSet_removeFirst m).1 = (LMap.step hash thr d m .removeFirst).1 ∧
    (run d hash thr mode k v Gen.C09IR.IntLinkedSet_removeLast m).1 = (LMap.step hash thr d m .removeLast).1 := by
  obtain ⟨r, hf, hl⟩ : ∃ r, Gen.C09IR.IntLinkedSet_removeFirst = canonRemoveEnd r .front ∧ Gen.C09IR.IntLinkedSet_removeLast = canonRemoveEnd r .back := by
    first | exact ⟨.zero, by decide, by decide⟩ | exact ⟨.absent, by decide, by decide⟩
  rw [hf, hl]; exact canonRemoveEnd_correct d hash thr r m mode k v

/-- IntLinkedSet.clear -/
theorem IntLinkedSet_clear_interp (d : Desc K V) (hash : K → Nat) (thr : Nat → Nat) (m : LMap K V) (mode : Mode) (k : K) (v : V) :
    run d hash thr mode k v Gen.C09IR.IntLinkedSet_clear m = (m.clear, none) := by
  rw [show Gen.C09IR.IntLinkedSet_clear = canonClear from by decide]; exact canonClear_correct d hash thr m mode k v

/-- IntLinkedSet.Sort: collect, sort.Sort by key, clear, re-put with PUT_LAST -/
theorem IntLinkedSet_sort_interp (d : Desc K V) (hash : K → Nat) (thr : Nat → Nat) (m : LMap K V) (lt : K → K → Bool) :
    interpSort d hash thr Gen.C09IR.IntLinkedSet_sort m lt = m.sort hash thr d lt := by
  rw [show Gen.C09IR.IntLinkedSet_sort = canonSort from by decide]; exact interpSort_correct d hash thr m lt

/-- StringLinkedSet.Contains: unchanged map, presence (behind the empty-key guard where the source has one) -/
theorem StringLinkedSet_contains_interp (d : Desc K V) (hash : K → Nat) (thr : Nat → Nat) (m : LMap K V) (mode : Mode) (k : K) (v : V) :
    (guardHead Gen.C09IR.StringLinkedSet_contains = none ∨ guardHead Gen.C09IR.StringLinkedSet_contains = some Ret.boolF) ∧
    run { d with refuse := d.blind } hash thr mode k v Gen.C09IR.StringLinkedSet_contains m =
      (m, some (match guardHead Gen.C09IR.StringLinkedSet_contains with
                | some r => if d.blind k then r else if (m.tab.get hash k).isSome then Ret.boolT else Ret.boolF
                | none => if (m.tab.get hash k).isSome then Ret.boolT else Ret.boolF)) := by
  refine ⟨by decide, ?_⟩
  rw [show Gen.C09IR.StringLinkedSet_contains = canonLookup (guardHead Gen.C09IR.StringLinkedSet_contains) .boolT .boolF from by decide]
  exact canonLookup_correct { d with refuse := d.blind } hash thr _ .boolT .boolF m mode k v

/-- StringLinkedSet.RemoveFirst / RemoveLast: the state after is the CodeModel's -/
theorem StringLinkedSet_removeEnd_interp (d : Desc K V) (hash : K → Nat) (thr : Nat → Nat) (m : LMap K V) (mode : Mode) (k : K) (v : V) :
    (run d hash thr mode k v Gen.C09IR.StringLinkedSet_removeFirst m).1 = (LMap.step hash thr d m .removeFirst).1 ∧
    (run d hash thr mode k v Gen.C09IR.StringLinkedSet_removeLast m).1 = (LMap.step hash thr d m .removeLast).1 := by
  obtain ⟨r, hf, hl⟩ : ∃ r, Gen.C09IR.StringLinkedSet_removeFirst = canonRemoveEnd r .front ∧ Gen.C09IR.StringLinkedSet_removeLast = canonRemoveEnd r .back := by
    first | exact ⟨.zero, by decide, by decide⟩ | exact ⟨.absent, by decide, by decide⟩
  rw [hf, hl]; exact canonRemoveEnd_correct d hash thr r m mode k v

/-- StringLinkedSet.clear -/
theorem StringLinkedSet_clear_interp (d : Desc K V) (hash : K → Nat) (thr : Nat → Nat) (m : LMap K V) (mode : Mode) (k : K) (v : V) :
    run d hash thr mode k v Gen.C09IR.StringLinkedSet_clear m = (m.clear, none) := by
  rw [show Gen.C09IR.StringLinkedSet_clear = canonClear from by decide]; exact canonClear_correct d hash thr m mode k v

/-- StringLinkedSet.Sort: collect, sort.Sort by key, clear, re-put with PUT_LAST -/
theorem StringLinkedSet_sort_interp (d : Desc K V) (hash : K → Nat) (thr : Nat → Nat) (m : LMap K V) (lt : K → K → Bool) :
    interpSort d hash thr Gen.C09IR.StringLinkedSet_sort m lt = m.sort hash thr d lt := by
  rw [show Gen.C09IR.StringLinkedSet_sort = canonSort from by decide]; exact interpSort_correct d hash thr m lt

/-- IntKeyLinkedMap.GetLRU -/
theorem IntKeyLinkedMap_getLRU_interp (d : Desc K V) (hash : K → Nat) (thr : Nat → Nat) (m : LMap K V) (mode : Mode) (k : K) (v : V) :
    (run d hash thr mode k v Gen.C09IR.IntKeyLinkedMap_getLRU m).1 = (LMap.step hash thr d m (.getLRU k)).1 := by
  rw [show Gen.C09IR.IntKeyLinkedMap_getLRU = canonGetLRU from by decide, canonGetLRU_correct]
  simp only [LMap.step, LMap.get]
  cases m.tab.get hash k <;> rfl

/-- IntKeyLinkedMap.ContainsValue: the bucket loop visits every bucket exactly once -/
theorem IntKeyLinkedMap_cv_interp (d : Desc K V) (hash : K → Nat) (thr : Nat → Nat) (m : LMap K V) (v : V) :
    interpCV d Gen.C09IR.IntKeyLinkedMap_cv m v = (LMap.step hash thr d m (.containsValue v)).2.isTrue := by
  rw [show Gen.C09IR.IntKeyLinkedMap_cv = canonCVa from by decide]; exact (interpCV_correct d hash thr m v).1

/-- IntIntLinkedMap.ContainsValue: the bucket loop visits every bucket exactly once -/
theorem IntIntLinkedMap_cv_interp (d : Desc K V) (hash : K → Nat) (thr : Nat → Nat) (m : LMap K V) (v : V) :
    interpCV d Gen.C09IR.IntIntLinkedMap_cv m v = (LMap.step hash thr d m (.containsValue v)).2.isTrue := by
  rw [show Gen.C09IR.IntIntLinkedMap_cv = canonCVa from by decide]; exact (interpCV_correct d hash thr m v).1

/-- IntFloatLinkedMap.ContainsValue: the bucket loop visits every bucket exactly once -/
theorem IntFloatLinkedMap_cv_interp (d : Desc K V) (hash : K → Nat) (thr : Nat → Nat) (m : LMap K V) (v : V) :
    interpCV d Gen.C09IR.IntFloatLinkedMap_cv m v = (LMap.step hash thr d m (.containsValue v)).2.isTrue := by
  rw [show Gen.C09IR.IntFloatLinkedMap_cv = canonCVa from by decide]; exact (interpCV_correct d hash thr m v).1

/-- LongFloatLinkedMap.ContainsValue: the bucket loop visits every bucket exactly once -/
theorem LongFloatLinkedMap_cv_interp (d : Desc K V) (hash : K → Nat) (thr : Nat → Nat) (m : LMap K V) (v : V) :
    interpCV d Gen.C09IR.LongFloatLinkedMap_cv m v = (LMap.step hash thr d m (.containsValue v)).2.isTrue := by
  rw [show Gen.C09IR.LongFloatLinkedMap_cv = canonCVa from by decide]; exact (interpCV_correct d hash thr m v).1

/-- LongLongLinkedMap.ContainsValue: the bucket loop visits every bucket exactly once -/
theorem LongLongLinkedMap_cv_interp (d : Desc K V) (hash : K → Nat) (thr : Nat → Nat) (m : LMap K V) (v : V) :
    interpCV d Gen.C09IR.LongLongLinkedMap_cv m v = (LMap.step hash thr d m (.containsValue v)).2.isTrue := by
  rw [show Gen.C09IR.LongLongLinkedMap_cv = canonCVa from by decide]; exact (interpCV_correct d hash thr m v).1

/-- StringIntLinkedMap.ContainsValue: the bucket loop visits every bucket exactly once -/
theorem StringIntLinkedMap_cv_interp (d : Desc K V) (hash : K → Nat) (thr : Nat → Nat) (m : LMap K V) (v : V) :
    interpCV d Gen.C09IR.StringIntLinkedMap_cv m v = (LMap.step hash thr d m (.containsValue v)).2.isTrue := by
  rw [show Gen.C09IR.StringIntLinkedMap_cv = canonCVb from by decide]; exact (interpCV_correct d hash thr m v).2

/-- StringLongLinkedMap.ContainsValue: the bucket loop visits every bucket exactly once -/
theorem StringLongLinkedMap_cv_interp (d : Desc K V) (hash : K → Nat) (thr : Nat → Nat) (m : LMap K V) (v : V) :
    interpCV d Gen.C09IR.StringLongLinkedMap_cv m v = (LMap.step hash thr d m (.containsValue v)).2.isTrue := by
  rw [show Gen.C09IR.StringLongLinkedMap_cv = canonCVb from by decide]; exact (interpCV_correct d hash thr m v).2

/-- IntIntLinkedMap.ToBytes / ToObject: the stream calls are the wire model's codec -/
theorem IntIntLinkedMap_wire_interp (hash : Int → Nat) (m : LMap Int Int) :
    interpToBytes Gen.C09IR.IntIntLinkedMap_toBytes (m.entries hash) = LMap.toBytes hash false m ∧
    interpReader Gen.C09IR.IntIntLinkedMap_toObject = (if false then pairsFromBytesF else pairsFromBytes) ∧ Gen.C09IR.IntIntLinkedMap_toObject.puts = true := by
  refine ⟨?_, ?_, by decide⟩
  · rw [show Gen.C09IR.IntIntLinkedMap_toBytes = canonWire false from by decide, interpToBytes_correct]; rfl
  · rw [show Gen.C09IR.IntIntLinkedMap_toObject = canonWire false from by decide, interpReader_correct]

/-- LongLongLinkedMap.ToBytes / ToObject: the stream calls are the wire model's codec -/
theorem LongLongLinkedMap_wire_interp (hash : Int → Nat) (m : LMap Int Int) :
    interpToBytes Gen.C09IR.LongLongLinkedMap_toBytes (m.entries hash) = LMap.toBytes hash false m ∧
    interpReader Gen.C09IR.LongLongLinkedMap_toObject = (if false then pairsFromBytesF else pairsFromBytes) ∧ Gen.C09IR.LongLongLinkedMap_toObject.puts = true := by
  refine ⟨?_, ?_, by decide⟩
  · rw [show Gen.C09IR.LongLongLinkedMap_toBytes = canonWire false from by decide, interpToBytes_correct]; rfl
  · rw [show Gen.C09IR.LongLongLinkedMap_toObject = canonWire false from by decide, interpReader_correct]

/-- IntFloatLinkedMap.ToBytes / ToObject: the stream calls are the wire model's codec -/
theorem IntFloatLinkedMap_wire_interp (hash : Int → Nat) (m : LMap Int Int) :
    interpToBytes Gen.C09IR.IntFloatLinkedMap_toBytes (m.entries hash) = LMap.toBytes hash true m ∧
    interpReader Gen.C09IR.IntFloatLinkedMap_toObject = (if true then pairsFromBytesF else pairsFromBytes) ∧ Gen.C09IR.IntFloatLinkedMap_toObject.puts = true := by
  refine ⟨?_, ?_, by decide⟩
  · rw [show Gen.C09IR.IntFloatLinkedMap_toBytes = canonWire true from by decide, interpToBytes_correct]; rfl
  · rw [show Gen.C09IR.IntFloatLinkedMap_toObject = canonWire true from by decide, interpReader_correct]

/-- LongFloatLinkedMap.ToBytes / ToObject: the stream calls are the wire model's codec -/
theorem LongFloatLinkedMap_wire_interp (hash : Int → Nat) (m : LMap Int Int) :
    interpToBytes Gen.C09IR.LongFloatLinkedMap_toBytes (m.entries hash) = LMap.toBytes hash true m ∧
    interpReader Gen.C09IR.LongFloatLinkedMap_toObject = (if true then pairsFromBytesF else pairsFromBytes) ∧ Gen.C09IR.LongFloatLinkedMap_toObject.puts = true := by
  refine ⟨?_, ?_, by decide⟩
  · rw [show Gen.C09IR.LongFloatLinkedMap_toBytes = canonWire true from by decide, interpToBytes_correct]; rfl
  · rw [show Gen.C09IR.LongFloatLinkedMap_toObject = canonWire true from by decide, interpReader_correct]


/-! ### configuration setters: SetMax assigns the bound and nothing else; SetNullValue leaves the container alone -/

/-- LinkedMap.SetMax: every statement of the method is `this.max = max; return this` — the model's `setMax`, with the frame
    condition (table, order list, count, threshold untouched) -/
theorem LinkedMap_setMax_interp (d : Desc K V) (hash : K → Nat) (thr : Nat → Nat) (m : LMap K V) (n : Nat) :
    runC n Gen.C09IR.LinkedMap_setMax m = some (LMap.step hash thr d m (.setMax n)).1 ∧
    ∀ m', runC n Gen.C09IR.LinkedMap_setMax m = some m' → m'.tab = m.tab ∧ m'.order = m.order ∧ m'.count = m.count ∧ m'.threshold = m.threshold ∧ m'.max = n := by
  rw [show Gen.C09IR.LinkedMap_setMax = canonSetMax from by decide]; exact canonSetMax_correct d hash thr m n

/-- IntKeyLinkedMap.SetMax: every statement of the method is `this.max = max; return this` — the model's `setMax`, with the frame
    condition (table, order list, count, threshold untouched) -/
theorem IntKeyLinkedMap_setMax_interp (d : Desc K V) (hash : K → Nat) (thr : Nat → Nat) (m : LMap K V) (n : Nat) :
    runC n Gen.C09IR.IntKeyLinkedMap_setMax m = some (LMap.step hash thr d m (.setMax n)).1 ∧
    ∀ m', runC n Gen.C09IR.IntKeyLinkedMap_setMax m = some m' → m'.tab = m.tab ∧ m'.order = m.order ∧ m'.count = m.count ∧ m'.threshold = m.threshold ∧ m'.max = n := by
  rw [show Gen.C09IR.IntKeyLinkedMap_setMax = canonSetMax from by decide]; exact canonSetMax_correct d hash thr m n

/-- LongKeyLinkedMap.SetMax: every statement of the method is `this.max = max; return this` — the model's `setMax`, with the frame
    condition (table, order list, count, threshold untouched) -/
theorem LongKeyLinkedMap_setMax_interp (d : Desc K V) (hash : K → Nat) (thr : Nat → Nat) (m : LMap K V) (n : Nat) :
    runC n Gen.C09IR.LongKeyLinkedMap_setMax m = some (LMap.step hash thr d m (.setMax n)).1 ∧
    ∀ m', runC n Gen.C09IR.LongKeyLinkedMap_setMax m = some m' → m'.tab = m.tab ∧ m'.order = m.order ∧ m'.count = m.count ∧ m'.threshold = m.threshold ∧ m'.max = n := by
  rw [show Gen.C09IR.LongKeyLinkedMap_setMax = canonSetMax from by decide]; exact canonSetMax_correct d hash thr m n

/-- StringKeyLinkedMap.SetMax: every statement of the method is `this.max = max; return this` — the model's `setMax`, with the frame
    condition (table, order list, count, threshold untouched) -/
theorem StringKeyLinkedMap_setMax_interp (d : Desc K V) (hash : K → Nat) (thr : Nat → Nat) (m : LMap K V) (n : Nat) :
    runC n Gen.C09IR.StringKeyLinkedMap_setMax m = some (LMap.step hash thr d m (.setMax n)).1 ∧
    ∀ m', runC n Gen.C09IR.StringKeyLinkedMap_setMax m = some m' → m'.tab = m.tab ∧ m'.order = m.order ∧ m'.count = m.count ∧ m'.threshold = m.threshold ∧ m'.max = n := by
  rw [show Gen.C09IR.StringKeyLinkedMap_setMax = canonSetMax from by decide]; exact canonSetMax_correct d hash thr m n

/-- IntIntLinkedMap.SetMax: every statement of the method is `this.max = max; return this` — the model's `setMax`, with the frame
    condition (table, order list, count, threshold untouched) -/
theorem IntIntLinkedMap_setMax_interp (d : Desc K V) (hash : K → Nat) (thr : Nat → Nat) (m : LMap K V) (n : Nat) :
    runC n Gen.C09IR.IntIntLinkedMap_setMax m = some (LMap.step hash thr d m (.setMax n)).1 ∧
    ∀ m', runC n Gen.C09IR.IntIntLinkedMap_setMax m = some m' → m'.tab = m.tab ∧ m'.order = m.order ∧ m'.count = m.count ∧ m'.threshold = m.threshold ∧ m'.max = n := by
  rw [show Gen.C09IR.IntIntLinkedMap_setMax = canonSetMax from by decide]; exact canonSetMax_correct d hash thr m n

/-- IntFloatLinkedMap.SetMax: every statement of the method is `this.max = max; return this` — the model's `setMax`, with the frame
    condition (table, order list, count, threshold untouched) -/
theorem IntFloatLinkedMap_setMax_interp (d : Desc K V) (hash : K → Nat) (thr : Nat → Nat) (m : LMap K V) (n : Nat) :
    runC n Gen.C09IR.IntFloatLinkedMap_setMax m = some (LMap.step hash thr d m (.setMax n)).1 ∧
    ∀ m', runC n Gen.C09IR.IntFloatLinkedMap_setMax m = some m' → m'.tab = m.tab ∧ m'.order = m.order ∧ m'.count = m.count ∧ m'.threshold = m.threshold ∧ m'.max = n := by
  rw [show Gen.C09IR.IntFloatLinkedMap_setMax = canonSetMax from by decide]; exact canonSetMax_correct d hash thr m n

/-- LongFloatLinkedMap.SetMax: every statement of the method is `this.max = max; return this` — the model's `setMax`, with the frame
    condition (table, order list, count, threshold untouched) -/
theorem LongFloatLinkedMap_setMax_interp (d : Desc K V) (hash : K → Nat) (thr : Nat → Nat) (m : LMap K V) (n : Nat) :
    runC n Gen.C09IR.LongFloatLinkedMap_setMax m = some (LMap.step hash thr d m (.setMax n)).1 ∧
    ∀ m', runC n Gen.C09IR.LongFloatLinkedMap_setMax m = some m' → m'.tab = m.tab ∧ m'.order = m.order ∧ m'.count = m.count ∧ m'.threshold = m.threshold ∧ m'.max = n := by
  rw [show Gen.C09IR.LongFloatLinkedMap_setMax = canonSetMax from by decide]; exact canonSetMax_correct d hash thr m n

/-- LongLongLinkedMap.SetMax: every statement of the method is `this.max = max; return this` — the model's `setMax`, with the frame
    condition (table, order list, count, threshold untouched) -/
theorem LongLongLinkedMap_setMax_interp (d : Desc K V) (hash : K → Nat) (thr : Nat → Nat) (m : LMap K V) (n : Nat) :
    runC n Gen.C09IR.LongLongLinkedMap_setMax m = some (LMap.step hash thr d m (.setMax n)).1 ∧
    ∀ m', runC n Gen.C09IR.LongLongLinkedMap_setMax m = some m' → m'.tab = m.tab ∧ m'.order = m.order ∧ m'.count = m.count ∧ m'.threshold = m.threshold ∧ m'.max = n := by
  rw [show Gen.C09IR.LongLongLinkedMap_setMax = canonSetMax from by decide]; exact canonSetMax_correct d hash thr m n

/-- StringIntLinkedMap.SetMax: every statement of the method is `this.max = max; return this` — the model's `setMax`, with the frame
    condition (table, order list, count, threshold untouched) -/
theorem StringIntLinkedMap_setMax_interp (d : Desc K V) (hash : K → Nat) (thr : Nat → Nat) (m : LMap K V) (n : Nat) :
    runC n Gen.C09IR.StringIntLinkedMap_setMax m = some (LMap.step hash thr d m (.setMax n)).1 ∧
    ∀ m', runC n Gen.C09IR.StringIntLinkedMap_setMax m = some m' → m'.tab = m.tab ∧ m'.order = m.order ∧ m'.count = m.count ∧ m'.threshold = m.threshold ∧ m'.max = n := by
  rw [show Gen.C09IR.StringIntLinkedMap_setMax = canonSetMax from by decide]; exact canonSetMax_correct d hash thr m n

/-- StringLongLinkedMap.SetMax: every statement of the method is `this.max = max; return this` — the model's `setMax`, with the frame
    condition (table, order list, count, threshold untouched) -/
theorem StringLongLinkedMap_setMax_interp (d : Desc K V) (hash : K → Nat) (thr : Nat → Nat) (m : LMap K V) (n : Nat) :
    runC n Gen.C09IR.StringLongLinkedMap_setMax m = some (LMap.step hash thr d m (.setMax n)).1 ∧
    ∀ m', runC n Gen.C09IR.StringLongLinkedMap_setMax m = some m' → m'.tab = m.tab ∧ m'.order = m.order ∧ m'.count = m.count ∧ m'.threshold = m.threshold ∧ m'.max = n := by
  rw [show Gen.C09IR.StringLongLinkedMap_setMax = canonSetMax from by decide]; exact canonSetMax_correct d hash thr m n

/-- LinkedSet.SetMax: every statement of the method is `this.max = max; return this` — the model's `setMax`, with the frame
    condition (table, order list, count, threshold untouched) -/
theorem LinkedSet_setMax_interp (d : Desc K V) (hash : K → Nat) (thr : Nat → Nat) (m : LMap K V) (n : Nat) :
    runC n Gen.C09IR.LinkedSet_setMax m = some (LMap.step hash thr d m (.setMax n)).1 ∧
    ∀ m', runC n Gen.C09IR.LinkedSet_setMax m = some m' → m'.tab = m.tab ∧ m'.order = m.order ∧ m'.count = m.count ∧ m'.threshold = m.threshold ∧ m'.max = n := by
  rw [show Gen.C09IR.LinkedSet_setMax = canonSetMax from by decide]; exact canonSetMax_correct d hash thr m n

/-- IntLinkedSet.SetMax: every statement of the method is `this.max = max; return this` — the model's `setMax`, with the frame
    condition (table, order list, count, threshold untouched) -/
theorem IntLinkedSet_setMax_interp (d : Desc K V) (hash : K → Nat) (thr : Nat → Nat) (m : LMap K V) (n : Nat) :
    runC n Gen.C09IR.IntLinkedSet_setMax m = some (LMap.step hash thr d m (.setMax n)).1 ∧
    ∀ m', runC n Gen.C09IR.IntLinkedSet_setMax m = some m' → m'.tab = m.tab ∧ m'.order = m.order ∧ m'.count = m.count ∧ m'.threshold = m.threshold ∧ m'.max = n := by
  rw [show Gen.C09IR.IntLinkedSet_setMax = canonSetMax from by decide]; exact canonSetMax_correct d hash thr m n

/-- StringLinkedSet.SetMax: every statement of the method is `this.max = max; return this` — the model's `setMax`, with the frame
    condition (table, order list, count, threshold untouched) -/
theorem StringLinkedSet_setMax_interp (d : Desc K V) (hash : K → Nat) (thr : Nat → Nat) (m : LMap K V) (n : Nat) :
    runC n Gen.C09IR.StringLinkedSet_setMax m = some (LMap.step hash thr d m (.setMax n)).1 ∧
    ∀ m', runC n Gen.C09IR.StringLinkedSet_setMax m = some m' → m'.tab = m.tab ∧ m'.order = m.order ∧ m'.count = m.count ∧ m'.threshold = m.threshold ∧ m'.max = n := by
  rw [show Gen.C09IR.StringLinkedSet_setMax = canonSetMax from by decide]; exact canonSetMax_correct d hash thr m n

/-- LongLongLinkedMap.SetNullValue: `this.NONE = none; return this` — the container is not touched -/
theorem LongLongLinkedMap_setNull_interp (m : LMap K V) (n : Nat) : runC n Gen.C09IR.LongLongLinkedMap_setNull m = some m := by
  rw [show Gen.C09IR.LongLongLinkedMap_setNull = canonSetNull from by decide]; exact canonSetNull_correct m n

/-- StringIntLinkedMap.SetNullValue: `this.NONE = none; return this` — the container is not touched -/
theorem StringIntLinkedMap_setNull_interp (m : LMap K V) (n : Nat) : runC n Gen.C09IR.StringIntLinkedMap_setNull m = some m := by
  rw [show Gen.C09IR.StringIntLinkedMap_setNull = canonSetNull from by decide]; exact canonSetNull_correct m n

/-- StringLongLinkedMap.SetNullValue: `this.NONE = none; return this` — the container is not touched -/
theorem StringLongLinkedMap_setNull_interp (m : LMap K V) (n : Nat) : runC n Gen.C09IR.StringLongLinkedMap_setNull m = some m := by
  rw [show Gen.C09IR.StringLongLinkedMap_setNull = canonSetNull from by decide]; exact canonSetNull_correct m n


/-! ### one-line accessors: Size / IsEmpty / IsFull / first and last key and value, statement by statement -/

/-- LinkedMap.Size / IsEmpty / IsFull: `return this.count`, `return this.count == 0`, `return this.max > 0 && this.max <= this.count` -/
theorem LinkedMap_size_interp (d : Desc K V) (hash : K → Nat) (thr : Nat → Nat) (m : LMap K V) :
    runA hash Gen.C09IR.LinkedMap_size m = some (LMap.step hash thr d m .size).2 ∧
    runA hash Gen.C09IR.LinkedMap_isEmpty m = some (LMap.step hash thr d m .isEmpty).2 ∧
    runA hash Gen.C09IR.LinkedMap_isFull m = some (LMap.step hash thr d m .isFull).2 := by
  rw [show Gen.C09IR.LinkedMap_size = [ASt.retCount] from by decide, show Gen.C09IR.LinkedMap_isEmpty = [ASt.retCountZero] from by decide,
    show Gen.C09IR.LinkedMap_isFull = [ASt.retIsFull] from by decide]
  exact canonSize_correct d hash thr m

/-- LinkedMap: first / last key and value — `return this.header.link_X.key` / `.value` (behind `if this.count == 0 { return NONE }` where the source has it);
    in every state satisfying the invariant (`count` = length of the order list) they are the model's accessors -/
theorem LinkedMap_ends_interp (d : Desc K V) (hash : K → Nat) (thr : Nat → Nat) (m : LMap K V) (hc : m.count = m.order.length) :
    runA hash Gen.C09IR.LinkedMap_firstKey m = some (LMap.step hash thr d m .firstKey).2 ∧
    runA hash Gen.C09IR.LinkedMap_lastKey m = some (LMap.step hash thr d m .lastKey).2 ∧
    runA hash Gen.C09IR.LinkedMap_firstValue m = some (LMap.step hash thr d m .firstValue).2 ∧
    runA hash Gen.C09IR.LinkedMap_lastValue m = some (LMap.step hash thr d m .lastValue).2 := by
  have hk := canonEnd_correct d hash thr false m hc
  rw [show Gen.C09IR.LinkedMap_firstKey = canonEnd false (.retEndKey .front) from by decide,
    show Gen.C09IR.LinkedMap_lastKey = canonEnd false (.retEndKey .back) from by decide]
  first
  | (rw [show Gen.C09IR.LinkedMap_firstValue = canonEnd false (.retEndValue .front) from by decide,
      show Gen.C09IR.LinkedMap_lastValue = canonEnd false (.retEndValue .back) from by decide]
     exact ⟨hk.1, hk.2.1, hk.2.2.1, hk.2.2.2⟩)
  | (have hg := canonEnd_correct d hash thr true m hc
     rw [show Gen.C09IR.LinkedMap_firstValue = canonEnd true (.retEndValue .front) from by decide,
      show Gen.C09IR.LinkedMap_lastValue = canonEnd true (.retEndValue .back) from by decide]
     exact ⟨hk.1, hk.2.1, hg.2.2.1, hg.2.2.2⟩)

/-- IntKeyLinkedMap.Size / IsEmpty / IsFull: `return this.count`, `return this.count == 0`, `return this.max > 0 && this.max <= this.count` -/
theorem IntKeyLinkedMap_size_interp (d : Desc K V) (hash : K → Nat) (thr : Nat → Nat) (m : LMap K V) :
    runA hash Gen.C09IR.IntKeyLinkedMap_size m = some (LMap.step hash thr d m .size).2 ∧
    runA hash Gen.C09IR.IntKeyLinkedMap_isEmpty m = some (LMap.step hash thr d m .isEmpty).2 ∧
    runA hash Gen.C09IR.IntKeyLinkedMap_isFull m = some (LMap.step hash thr d m .isFull).2 := by
  rw [show Gen.C09IR.IntKeyLinkedMap_size = [ASt.retCount] from by decide, show Gen.C09IR.IntKeyLinkedMap_isEmpty = [ASt.retCountZero] from by decide,
    show Gen.C09IR.IntKeyLinkedMap_isFull = [ASt.retIsFull] from by decide]
  exact canonSize_correct d hash thr m

/-- IntKeyLinkedMap: first / last key and value — `return this.header.link_X.key` / `.value` (behind `if this.count == 0 { return NONE }` where the source has it);
    in every state satisfying the invariant (`count` = length of the order list) they are the model's accessors -/
theorem IntKeyLinkedMap_ends_interp (d : Desc K V) (hash : K → Nat) (thr : Nat → Nat) (m : LMap K V) (hc : m.count = m.order.length) :
    runA hash Gen.C09IR.IntKeyLinkedMap_firstKey m = some (LMap.step hash thr d m .firstKey).2 ∧
    runA hash Gen.C09IR.IntKeyLinkedMap_lastKey m = some (LMap.step hash thr d m .lastKey).2 ∧
    runA hash Gen.C09IR.IntKeyLinkedMap_firstValue m = some (LMap.step hash thr d m .firstValue).2 ∧
    runA hash Gen.C09IR.IntKeyLinkedMap_lastValue m = some (LMap.step hash thr d m .lastValue).2 := by
  have hk := canonEnd_correct d hash thr false m hc
  rw [show Gen.C09IR.IntKeyLinkedMap_firstKey = canonEnd false (.retEndKey .front) from by decide,
    show Gen.C09IR.IntKeyLinkedMap_lastKey = canonEnd false (.retEndKey .back) from by decide]
  first
  | (rw [show Gen.C09IR.IntKeyLinkedMap_firstValue = canonEnd false (.retEndValue .front) from by decide,
      show Gen.C09IR.IntKeyLinkedMap_lastValue = canonEnd false (.retEndValue .back) from by decide]
     exact ⟨hk.1, hk.2.1, hk.2.2.1, hk.2.2.2⟩)
  | (have hg := canonEnd_correct d hash thr true m hc
     rw [show Gen.C09IR.IntKeyLinkedMap_firstValue = canonEnd true (.retEndValue .front) from by decide,
      show Gen.C09IR.IntKeyLinkedMap_lastValue = canonEnd true (.retEndValue .back) from by decide]
     exact ⟨hk.1, hk.2.1, hg.2.2.1, hg.2.2.2⟩)

/-- LongKeyLinkedMap.Size / IsEmpty / IsFull: `return this.count`, `return this.count == 0`, `return this.max > 0 && this.max <= this.count` -/
theorem LongKeyLinkedMap_size_interp (d : Desc K V) (hash : K → Nat) (thr : Nat → Nat) (m : LMap K V) :
    runA hash Gen.C09IR.LongKeyLinkedMap_size m = some (LMap.step hash thr d m .size).2 ∧
    runA hash Gen.C09IR.LongKeyLinkedMap_isEmpty m = some (LMap.step hash thr d m .isEmpty).2 ∧
    runA hash Gen.C09IR.LongKeyLinkedMap_isFull m = some (LMap.step hash thr d m .isFull).2 := by
  rw [show Gen.C09IR.LongKeyLinkedMap_size = [ASt.retCount] from by decide, show Gen.C09IR.LongKeyLinkedMap_isEmpty = [ASt.retCountZero] from by decide,
    show Gen.C09IR.LongKeyLinkedMap_isFull = [ASt.retIsFull] from by decide]
  exact canonSize_correct d hash thr m

/-- LongKeyLinkedMap: first / last key and value — `return this.header.link_X.key` / `.value` (behind `if this.count == 0 { return NONE }` where the source has it);
    in every state satisfying the invariant (`count` = length of the order list) they are the model's accessors -/
theorem LongKeyLinkedMap_ends_interp (d : Desc K V) (hash : K → Nat) (thr : Nat → Nat) (m : LMap K V) (hc : m.count = m.order.length) :
    runA hash Gen.C09IR.LongKeyLinkedMap_firstKey m = some (LMap.step hash thr d m .firstKey).2 ∧
    runA hash Gen.C09IR.LongKeyLinkedMap_lastKey m = some (LMap.step hash thr d m .lastKey).2 ∧
    runA hash Gen.C09IR.LongKeyLinkedMap_firstValue m = some (LMap.step hash thr d m .firstValue).2 ∧
    runA hash Gen.C09IR.LongKeyLinkedMap_lastValue m = some (LMap.step hash thr d m .lastValue).2 := by
  have hk := canonEnd_correct d hash thr false m hc
  rw [show Gen.C09IR.LongKeyLinkedMap_firstKey = canonEnd false (.retEndKey .front) from by decide,
    show Gen.C09IR.LongKeyLinkedMap_lastKey = canonEnd false (.retEndKey .back) from by decide]
  first
  | (rw [show Gen.C09IR.LongKeyLinkedMap_firstValue = canonEnd false (.retEndValue .front) from by decide,
      show Gen.C09IR.LongKeyLinkedMap_lastValue = canonEnd false (.retEndValue .back) from by decide]
     exact ⟨hk.1, hk.2.1, hk.2.2.1, hk.2.2.2⟩)
  | (have hg := canonEnd_correct d hash thr true m hc
     rw [show Gen.C09IR.LongKeyLinkedMap_firstValue = canonEnd true (.retEndValue .front) from by decide,
      show Gen.C09IR.LongKeyLinkedMap_lastValue = canonEnd true (.retEndValue .back) from by decide]
     exact ⟨hk.1, hk.2.1, hg.2.2.1, hg.2.2.2⟩)

/-- StringKeyLinkedMap.Size / IsEmpty / IsFull: `return this.count`, `return this.count == 0`, `return this.max > 0 && this.max <= this.count` -/
theorem StringKeyLinkedMap_size_interp (d : Desc K V) (hash : K → Nat) (thr : Nat → Nat) (m : LMap K V) :
    runA hash Gen.C09IR.StringKeyLinkedMap_size m = some (LMap.step hash thr d m .size).2 ∧
    runA hash Gen.C09IR.StringKeyLinkedMap_isEmpty m = some (LMap.step hash thr d m .isEmpty).2 ∧
    runA hash Gen.C09IR.StringKeyLinkedMap_isFull m = some (LMap.step hash thr d m .isFull).2 := by
  rw [show Gen.C09IR.StringKeyLinkedMap_size = [ASt.retCount] from by decide, show Gen.C09IR.StringKeyLinkedMap_isEmpty = [ASt.retCountZero] from by decide,
    show Gen.C09IR.StringKeyLinkedMap_isFull = [ASt.retIsFull] from by decide]
  exact canonSize_correct d hash thr m

/-- StringKeyLinkedMap: first / last key and value — `return this.header.link_X.key` / `.value` (behind `if this.count == 0 { return NONE }` where the source has it);
    in every state satisfying the invariant (`count` = length of the order list) they are the model's accessors -/
theorem StringKeyLinkedMap_ends_interp (d : Desc K V) (hash : K → Nat) (thr : Nat → Nat) (m : LMap K V) (hc : m.count = m.order.length) :
    runA hash Gen.C09IR.StringKeyLinkedMap_firstKey m = some (LMap.step hash thr d m .firstKey).2 ∧
    runA hash Gen.C09IR.StringKeyLinkedMap_lastKey m = some (LMap.step hash thr d m .lastKey).2 ∧
    runA hash Gen.C09IR.StringKeyLinkedMap_firstValue m = some (LMap.step hash thr d m .firstValue).2 ∧
    runA hash Gen.C09IR.StringKeyLinkedMap_lastValue m = some (LMap.step hash thr d m .lastValue).2 := by
  have hk := canonEnd_correct d hash thr false m hc
  rw [show Gen.C09IR.StringKeyLinkedMap_firstKey = canonEnd false (.retEndKey .front) from by decide,
    show Gen.C09IR.StringKeyLinkedMap_lastKey = canonEnd false (.retEndKey .back) from by decide]
  first
  | (rw [show Gen.C09IR.StringKeyLinkedMap_firstValue = canonEnd false (.retEndValue .front) from by decide,
      show Gen.C09IR.StringKeyLinkedMap_lastValue = canonEnd false (.retEndValue .back) from by decide]
     exact ⟨hk.1, hk.2.1, hk.2.2.1, hk.2.2.2⟩)
  | (have hg := canonEnd_correct d hash thr true m hc
     rw [show Gen.C09IR.StringKeyLinkedMap_firstValue = canonEnd true (.retEndValue .front) from by decide,
      show Gen.C09IR.StringKeyLinkedMap_lastValue = canonEnd true (.retEndValue .back) from by decide]
     exact ⟨hk.1, hk.2.1, hg.2.2.1, hg.2.2.2⟩)

/-- IntIntLinkedMap.Size / IsEmpty / IsFull: `return this.count`, `return this.count == 0`, `return this.max > 0 && this.max <= this.count` -/
theorem IntIntLinkedMap_size_interp (d : Desc K V) (hash : K → Nat) (thr : Nat → Nat) (m : LMap K V) :
    runA hash Gen.C09IR.IntIntLinkedMap_size m = some (LMap.step hash thr d m .size).2 ∧
    runA hash Gen.C09IR.IntIntLinkedMap_isEmpty m = some (LMap.step hash thr d m .isEmpty).2 ∧
    runA hash Gen.C09IR.IntIntLinkedMap_isFull m = some (LMap.step hash thr d m .isFull).2 := by
  rw [show Gen.C09IR.IntIntLinkedMap_size = [ASt.retCount] from by decide, show Gen.C09IR.IntIntLinkedMap_isEmpty = [ASt.retCountZero] from by decide,
    show Gen.C09IR.IntIntLinkedMap_isFull = [ASt.retIsFull] from by decide]
  exact canonSize_correct d hash thr m

/-- IntIntLinkedMap: first / last key and value — `return this.header.link_X.key` / `.value` (behind `if this.count == 0 { return NONE }` where the source has it);
    in every state satisfying the invariant (`count` = length of the order list) they are the model's accessors -/
theorem IntIntLinkedMap_ends_interp (d : Desc K V) (hash : K → Nat) (thr : Nat → Nat) (m : LMap K V) (hc : m.count = m.order.length) :
    runA hash Gen.C09IR.IntIntLinkedMap_firstKey m = some (LMap.step hash thr d m .firstKey).2 ∧
    runA hash Gen.C09IR.IntIntLinkedMap_lastKey m = some (LMap.step hash thr d m .lastKey).2 ∧
    runA hash Gen.C09IR.IntIntLinkedMap_firstValue m = some (LMap.step hash thr d m .firstValue).2 ∧
    runA hash Gen.C09IR.IntIntLinkedMap_lastValue m = some (LMap.step hash thr d m .lastValue).2 := by
  have hk := canonEnd_correct d hash thr false m hc
  rw [show Gen.C09IR.IntIntLinkedMap_firstKey = canonEnd false (.retEndKey .front) from by decide,
    show Gen.C09IR.IntIntLinkedMap_lastKey = canonEnd false (.retEndKey .back) from by decide]
  first
  | (rw [show Gen.C09IR.IntIntLinkedMap_firstValue = canonEnd false (.retEndValue .front) from by decide,
      show Gen.C09IR.IntIntLinkedMap_lastValue = canonEnd false (.retEndValue .back) from by decide]
     exact ⟨hk.1, hk.2.1, hk.2.2.1, hk.2.2.2⟩)
  | (have hg := canonEnd_correct d hash thr true m hc
     rw [show Gen.C09IR.IntIntLinkedMap_firstValue = canonEnd true (.retEndValue .front) from by decide,
      show Gen.C09IR.IntIntLinkedMap_lastValue = canonEnd true (.retEndValue .back) from by decide]
     exact ⟨hk.1, hk.2.1, hg.2.2.1, hg.2.2.2⟩)

/-- IntFloatLinkedMap.Size / IsEmpty / IsFull: `return this.count`, `return this.count == 0`, `return this.max > 0 && this.max <= this.count` -/
theorem IntFloatLinkedMap_size_interp (d : Desc K V) (hash : K → Nat) (thr : Nat → Nat) (m : LMap K V) :
    runA hash Gen.C09IR.IntFloatLinkedMap_size m = some (LMap.step hash thr d m .size).2 ∧
    runA hash Gen.C09IR.IntFloatLinkedMap_isEmpty m = some (LMap.step hash thr d m .isEmpty).2 ∧
    runA hash Gen.C09IR.IntFloatLinkedMap_isFull m = some (LMap.step hash thr d m .isFull).2 := by
  rw [show Gen.C09IR.IntFloatLinkedMap_size = [ASt.retCount] from by decide, show Gen.C09IR.IntFloatLinkedMap_isEmpty = [ASt.retCountZero] from by decide,
    show Gen.C09IR.IntFloatLinkedMap_isFull = [ASt.retIsFull] from by decide]
  exact canonSize_correct d hash thr m

/-- IntFloatLinkedMap: first / last key and value — `return this.header.link_X.key` / `.value` (behind `if this.count == 0 { return NONE }` where the source has it);
    in every state satisfying the invariant (`count` = length of the order list) they are the model's accessors -/
theorem IntFloatLinkedMap_ends_interp (d : Desc K V) (hash : K → Nat) (thr : Nat → Nat) (m : LMap K V) (hc : m.count = m.order.length) :
    runA hash Gen.C09IR.IntFloatLinkedMap_firstKey m = some (LMap.step hash thr d m .firstKey).2 ∧
    runA hash Gen.C09IR.IntFloatLinkedMap_lastKey m = some (LMap.step hash thr d m .lastKey).2 ∧
    runA hash Gen.C09IR.IntFloatLinkedMap_firstValue m = some (LMap.step hash thr d m .firstValue).2 ∧
    runA hash Gen.C09IR.IntFloatLinkedMap_lastValue m = some (LMap.step hash thr d m .lastValue).2 := by
  have hk := canonEnd_correct d hash thr false m hc
  rw [show Gen.C09IR.IntFloatLinkedMap_firstKey = canonEnd false (.retEndKey .front) from by decide,
    show Gen.C09IR.IntFloatLinkedMap_lastKey = canonEnd false (.retEndKey .back) from by decide]
  first
  | (rw [show Gen.C09IR.IntFloatLinkedMap_firstValue = canonEnd false (.retEndValue .front) from by decide,
      show Gen.C09IR.IntFloatLinkedMap_lastValue = canonEnd false (.retEndValue .back) from by decide]
     exact ⟨hk.1, hk.2.1, hk.2.2.1, hk.2.2.2⟩)
  | (have hg := canonEnd_correct d hash thr true m hc
     rw [show Gen.C09IR.IntFloatLinkedMap_firstValue = canonEnd true (.retEndValue .front) from by decide,
      show Gen.C09IR.IntFloatLinkedMap_lastValue = canonEnd true (.retEndValue .back) from by decide]
     exact ⟨hk.1, hk.2.1, hg.2.2.1, hg.2.2.2⟩)

/-- LongFloatLinkedMap.Size / IsEmpty / IsFull: `return this.count`, `return this.count == 0`, `return this.max > 0 && this.max <= this.count` -/
theorem LongFloatLinkedMap_size_interp (d : Desc K V) (hash : K → Nat) (thr : Nat → Nat) (m : LMap K V) :
    runA hash Gen.C09IR.LongFloatLinkedMap_size m = some (LMap.step hash thr d m .size).2 ∧
    runA hash Gen.C09IR.LongFloatLinkedMap_isEmpty m = some (LMap.step hash thr d m .isEmpty).2 ∧
    runA hash Gen.C09IR.LongFloatLinkedMap_isFull m = some (LMap.step hash thr d m .isFull).2 := by
  rw [show Gen.C09IR.LongFloatLinkedMap_size = [ASt.retCount] from by decide, show Gen.C09IR.LongFloatLinkedMap_isEmpty = [ASt.retCountZero] from by decide,
    show Gen.C09IR.LongFloatLinkedMap_isFull = [ASt.retIsFull] from by decide]
  exact canonSize_correct d hash thr m

/-- LongFloatLinkedMap: first / last key and value — `return this.header.link_X.key` / `.value` (behind `if this.count == 0 { return NONE }` where the source has it);
    in every state satisfying the invariant (`count` = length of the order list) they are the model's accessors -/
theorem LongFloatLinkedMap_ends_interp (d : Desc K V) (hash : K → Nat) (thr : Nat → Nat) (m : LMap K V) (hc : m.count = m.order.length) :
    runA hash Gen.C09IR.LongFloatLinkedMap_firstKey m = some (LMap.step hash thr d m .firstKey).2 ∧
    runA hash Gen.C09IR.LongFloatLinkedMap_lastKey m = some (LMap.step hash thr d m .lastKey).2 ∧
    runA hash Gen.C09IR.LongFloatLinkedMap_firstValue m = some (LMap.step hash thr d m .firstValue).2 ∧
    runA hash Gen.C09IR.LongFloatLinkedMap_lastValue m = some (LMap.step hash thr d m .lastValue).2 := by
  have hk := canonEnd_correct d hash thr false m hc
  rw [show Gen.C09IR.LongFloatLinkedMap_firstKey = canonEnd false (.retEndKey .front) from by decide,
    show Gen.C09IR.LongFloatLinkedMap_lastKey = canonEnd false (.retEndKey .back) from by decide]
  first
  | (rw [show Gen.C09IR.LongFloatLinkedMap_firstValue = canonEnd false (.retEndValue .front) from by decide,
      show Gen.C09IR.LongFloatLinkedMap_lastValue = canonEnd false (.retEndValue .back) from by decide]
     exact ⟨hk.1, hk.2.1, hk.2.2.1, hk.2.2.2⟩)
  | (have hg := canonEnd_correct d hash thr true m hc
     rw [show Gen.C09IR.LongFloatLinkedMap_firstValue = canonEnd true (.retEndValue .front) from by decide,
      show Gen.C09IR.LongFloatLinkedMap_lastValue = canonEnd true (.retEndValue .back) from by decide]
     exact ⟨hk.1, hk.2.1, hg.2.2.1, hg.2.2.2⟩)

/-- LongLongLinkedMap.Size / IsEmpty / IsFull: `return this.count`, `return this.count == 0`, `return this.max > 0 && this.max <= this.count` -/
theorem LongLongLinkedMap_size_interp (d : Desc K V) (hash : K → Nat) (thr : Nat → Nat) (m : LMap K V) :
    runA hash Gen.C09IR.LongLongLinkedMap_size m = some (LMap.step hash thr d m .size).2 ∧
    runA hash Gen.C09IR.LongLongLinkedMap_isEmpty m = some (LMap.step hash thr d m .isEmpty).2 ∧
    runA hash Gen.C09IR.LongLongLinkedMap_isFull m = some (LMap.step hash thr d m .isFull).2 := by
  rw [show Gen.C09IR.LongLongLinkedMap_size = [ASt.retCount] from by decide, show Gen.C09IR.LongLongLinkedMap_isEmpty = [ASt.retCountZero] from by decide,
    show Gen.C09IR.LongLongLinkedMap_isFull = [ASt.retIsFull] from by decide]
  exact canonSize_correct d hash thr m

/-- LongLongLinkedMap: first / last key and value — `return this.header.link_X.key` / `.value` (behind `if this.count == 0 { return NONE }` where the source has it);
    in every state satisfying the invariant (`count` = length of the order list) they are the model's accessors -/
theorem LongLongLinkedMap_ends_interp (d : Desc K V) (hash : K → Nat) (thr : Nat → Nat) (m : LMap K V) (hc : m.count = m.order.length) :
    runA hash Gen.C09IR.LongLongLinkedMap_firstKey m = some (LMap.step hash thr d m .firstKey).2 ∧
    runA hash Gen.C09IR.LongLongLinkedMap_lastKey m = some (LMap.step hash thr d m .lastKey).2 ∧
    runA hash Gen.C09IR.LongLongLinkedMap_firstValue m = some (LMap.step hash thr d m .firstValue).2 ∧
    runA hash Gen.C09IR.LongLongLinkedMap_lastValue m = some (LMap.step hash thr d m .lastValue).2 := by
  have hk := canonEnd_correct d hash thr false m hc
  rw [show Gen.C09IR.LongLongLinkedMap_firstKey = canonEnd false (.retEndKey .front) from by decide,
    show Gen.C09IR.LongLongLinkedMap_lastKey = canonEnd false (.retEndKey .back) from by decide]
  first
  | (rw [show Gen.C09IR.LongLongLinkedMap_firstValue = canonEnd false (.retEndValue .front) from by decide,
      show Gen.C09IR.LongLongLinkedMap_lastValue = canonEnd false (.retEndValue .back) from by decide]
     exact ⟨hk.1, hk.2.1, hk.2.2.1, hk.2.2.2⟩)
  | (have hg := canonEnd_correct d hash thr true m hc
     rw [show Gen.C09IR.LongLongLinkedMap_firstValue = canonEnd true (.retEndValue .front) from by decide,
      show Gen.C09IR.LongLongLinkedMap_lastValue = canonEnd true (.retEndValue .back) from by decide]
     exact ⟨hk.1, hk.2.1, hg.2.2.1, hg.2.2.2⟩)

/-- StringIntLinkedMap.Size / IsEmpty / IsFull: `return this.count`, `return this.count == 0`, `return this.max > 0 && this.max <= this.count` -/
theorem StringIntLinkedMap_size_interp (d : Desc K V) (hash : K → Nat) (thr : Nat → Nat) (m : LMap K V) :
    runA hash Gen.C09IR.StringIntLinkedMap_size m = some (LMap.step hash thr d m .size).2 ∧
    runA hash Gen.C09IR.StringIntLinkedMap_isEmpty m = some (LMap.step hash thr d m .isEmpty).2 ∧
    runA hash Gen.C09IR.StringIntLinkedMap_isFull m = some (LMap.step hash thr d m .isFull).2 := by
  rw [show Gen.C09IR.StringIntLinkedMap_size = [ASt.retCount] from by decide, show Gen.C09IR.StringIntLinkedMap_isEmpty = [ASt.retCountZero] from by decide,
    show Gen.C09IR.StringIntLinkedMap_isFull = [ASt.retIsFull] from by decide]
  exact canonSize_correct d hash thr m

/-- StringIntLinkedMap: first / last key and value — `return this.header.link_X.key` / `.value` (behind `if this.count == 0 { return NONE }` where the source has it);
    in every state satisfying the invariant (`count` = length of the order list) they are the model's accessors -/
theorem StringIntLinkedMap_ends_interp (d : Desc K V) (hash : K → Nat) (thr : Nat → Nat) (m : LMap K V) (hc : m.count = m.order.length) :
    runA hash Gen.C09IR.StringIntLinkedMap_firstKey m = some (LMap.step hash thr d m .firstKey).2 ∧
    runA hash Gen.C09IR.StringIntLinkedMap_lastKey m = some (LMap.step hash thr d m .lastKey).2 ∧
    runA hash Gen.C09IR.StringIntLinkedMap_firstValue m = some (LMap.step hash thr d m .firstValue).2 ∧
    runA hash Gen.C09IR.StringIntLinkedMap_lastValue m = some (LMap.step hash thr d m .lastValue).2 := by
  have hk := canonEnd_correct d hash thr false m hc
  rw [show Gen.C09IR.StringIntLinkedMap_firstKey = canonEnd false (.retEndKey .front) from by decide,
    show Gen.C09IR.StringIntLinkedMap_lastKey = canonEnd false (.retEndKey .back) from by decide]
  first
  | (rw [show Gen.C09IR.StringIntLinkedMap_firstValue = canonEnd false (.retEndValue .front) from by decide,
      show Gen.C09IR.StringIntLinkedMap_lastValue = canonEnd false (.retEndValue .back) from by decide]
     exact ⟨hk.1, hk.2.1, hk.2.2.1, hk.2.2.2⟩)
  | (have hg := canonEnd_correct d hash thr true m hc
     rw [show Gen.C09IR.StringIntLinkedMap_firstValue = canonEnd true (.retEndValue .front) from by decide,
      show Gen.C09IR.StringIntLinkedMap_lastValue = canonEnd true (.retEndValue .back) from by decide]
     exact ⟨hk.1, hk.2.1, hg.2.2.1, hg.2.2.2⟩)

/-- StringLongLinkedMap.Size / IsEmpty / IsFull: `return this.count`, `return this.count == 0`, `return this.max > 0 && this.max <= this.count` -/
theorem StringLongLinkedMap_size_interp (d : Desc K V) (hash : K → Nat) (thr : Nat → Nat) (m : LMap K V) :
    runA hash Gen.C09IR.StringLongLinkedMap_size m = some (LMap.step hash thr d m .size).2 ∧
    runA hash Gen.C09IR.StringLongLinkedMap_isEmpty m = some (LMap.step hash thr d m .isEmpty).2 ∧
    runA hash Gen.C09IR.StringLongLinkedMap_isFull m = some (LMap.step hash thr d m .isFull).2 := by
  rw [show Gen.C09IR.StringLongLinkedMap_size = [ASt.retCount] from by decide, show Gen.C09IR.StringLongLinkedMap_isEmpty = [ASt.retCountZero] from by decide,
    show Gen.C09IR.StringLongLinkedMap_isFull = [ASt.retIsFull] from by decide]
  exact canonSize_correct d hash thr m

/-- StringLongLinkedMap: first / last key and value — `return this.header.link_X.key` / `.value` (behind `if this.count == 0 { return NONE }` where the source has it);
    in every state satisfying the invariant (`count` = length of the order list) they are the model's accessors -/
theorem StringLongLinkedMap_ends_interp (d : Desc K V) (hash : K → Nat) (thr : Nat → Nat) (m : LMap K V) (hc : m.count = m.order.length) :
    runA hash Gen.C09IR.StringLongLinkedMap_firstKey m = some (LMap.step hash thr d m .firstKey).2 ∧
    runA hash Gen.C09IR.StringLongLinkedMap_lastKey m = some (LMap.step hash thr d m .lastKey).2 ∧
    runA hash Gen.C09IR.StringLongLinkedMap_firstValue m = some (LMap.step hash thr d m .firstValue).2 ∧
    runA hash Gen.C09IR.StringLongLinkedMap_lastValue m = some (LMap.step hash thr d m .lastValue).2 := by
  have hk := canonEnd_correct d hash thr false m hc
  rw [show Gen.C09IR.StringLongLinkedMap_firstKey = canonEnd false (.retEndKey .front) from by decide,
    show Gen.C09IR.StringLongLinkedMap_lastKey = canonEnd false (.retEndKey .back) from by decide]
  first
  | (rw [show Gen.C09IR.StringLongLinkedMap_firstValue = canonEnd false (.retEndValue .front) from by decide,
      show Gen.C09IR.StringLongLinkedMap_lastValue = canonEnd false (.retEndValue .back) from by decide]
     exact ⟨hk.1, hk.2.1, hk.2.2.1, hk.2.2.2⟩)
  | (have hg := canonEnd_correct d hash thr true m hc
     rw [show Gen.C09IR.StringLongLinkedMap_firstValue = canonEnd true (.retEndValue .front) from by decide,
      show Gen.C09IR.StringLongLinkedMap_lastValue = canonEnd true (.retEndValue .back) from by decide]
     exact ⟨hk.1, hk.2.1, hg.2.2.1, hg.2.2.2⟩)

/-- LinkedSet.Size / IsEmpty / IsFull: `return this.count`, `return this.count == 0`, `return this.max > 0 && this.max <= this.count` -/
theorem LinkedSet_size_interp (d : Desc K V) (hash : K → Nat) (thr : Nat → Nat) (m : LMap K V) :
    runA hash Gen.C09IR.LinkedSet_size m = some (LMap.step hash thr d m .size).2 ∧
    runA hash Gen.C09IR.LinkedSet_isEmpty m = some (LMap.step hash thr d m .isEmpty).2 ∧
    runA hash Gen.C09IR.LinkedSet_isFull m = some (LMap.step hash thr d m .isFull).2 := by
  rw [show Gen.C09IR.LinkedSet_size = [ASt.retCount] from by decide, show Gen.C09IR.LinkedSet_isEmpty = [ASt.retCountZero] from by decide,
    show Gen.C09IR.LinkedSet_isFull = [ASt.retIsFull] from by decide]
  exact canonSize_correct d hash thr m

/-- LinkedSet: first / last key — `return this.header.link_X.key`;
    in every state satisfying the invariant (`count` = length of the order list) they are the model's accessors -/
theorem LinkedSet_ends_interp (d : Desc K V) (hash : K → Nat) (thr : Nat → Nat) (m : LMap K V) (hc : m.count = m.order.length) :
    runA hash Gen.C09IR.LinkedSet_firstKey m = some (LMap.step hash thr d m .firstKey).2 ∧
    runA hash Gen.C09IR.LinkedSet_lastKey m = some (LMap.step hash thr d m .lastKey).2 := by
  have hk := canonEnd_correct d hash thr false m hc
  rw [show Gen.C09IR.LinkedSet_firstKey = canonEnd false (.retEndKey .front) from by decide,
    show Gen.C09IR.LinkedSet_lastKey = canonEnd false (.retEndKey .back) from by decide]
  exact ⟨hk.1, hk.2.1⟩

/-- IntLinkedSet.Size / IsEmpty / IsFull: `return this.count`, `return this.count == 0`, `return this.max > 0 && this.max <= this.count` -/
theorem IntLinkedSet_size_interp (d : Desc K V) (hash : K → Nat) (thr : Nat → Nat) (m : LMap K V) :
    runA hash Gen.C09IR.IntLinkedSet_size m = some (LMap.step hash thr d m .size).2 ∧
    runA hash Gen.C09IR.IntLinkedSet_isEmpty m = some (LMap.step hash thr d m .isEmpty).2 ∧
    runA hash Gen.C09IR.IntLinkedSet_isFull m = some (LMap.step hash thr d m .isFull).2 := by
  rw [show Gen.C09IR.IntLinkedSet_size = [ASt.retCount] from by decide, show Gen.C09IR.IntLinkedSet_isEmpty = [ASt.retCountZero] from by decide,
    show Gen.C09IR.IntLinkedSet_isFull = [ASt.retIsFull] from by decide]
  exact canonSize_correct d hash thr m

/-- IntLinkedSet: first / last key — `return this.header.link_X.key`;
    in every state satisfying the invariant (`count` = length of the order list) they are the model's accessors -/
theorem IntLinkedSet_ends_interp (d : Desc K V) (hash : K → Nat) (thr : Nat → Nat) (m : LMap K V) (hc : m.count = m.order.length) :
    runA hash Gen.C09IR.IntLinkedSet_firstKey m = some (LMap.step hash thr d m .firstKey).2 ∧
    runA hash Gen.C09IR.IntLinkedSet_lastKey m = some (LMap.step hash thr d m .lastKey).2 := by
  have hk := canonEnd_correct d hash thr false m hc
  rw [show Gen.C09IR.IntLinkedSet_firstKey = canonEnd false (.retEndKey .front) from by decide,
    show Gen.C09IR.IntLinkedSet_lastKey = canonEnd false (.retEndKey .back) from by decide]
  exact ⟨hk.1, hk.2.1⟩

/-- StringLinkedSet.Size / IsEmpty / IsFull: `return this.count`, `return this.count == 0`, `return this.max > 0 && this.max <= this.count` -/
theorem StringLinkedSet_size_interp (d : Desc K V) (hash : K → Nat) (thr : Nat → Nat) (m : LMap K V) :
    runA hash Gen.C09IR.StringLinkedSet_size m = some (LMap.step hash thr d m .size).2 ∧
    runA hash Gen.C09IR.StringLinkedSet_isEmpty m = some (LMap.step hash thr d m .isEmpty).2 ∧
    runA hash Gen.C09IR.StringLinkedSet_isFull m = some (LMap.step hash thr d m .isFull).2 := by
  rw [show Gen.C09IR.StringLinkedSet_size = [ASt.retCount] from by decide, show Gen.C09IR.StringLinkedSet_isEmpty = [ASt.retCountZero] from by decide,
    show Gen.C09IR.StringLinkedSet_isFull = [ASt.retIsFull] from by decide]
  exact canonSize_correct d hash thr m

/-- StringLinkedSet: first / last key — `return this.header.link_X.key`;
    in every state satisfying the invariant (`count` = length of the order list) they are the model's accessors -/
theorem StringLinkedSet_ends_interp (d : Desc K V) (hash : K → Nat) (thr : Nat → Nat) (m : LMap K V) (hc : m.count = m.order.length) :
    runA hash Gen.C09IR.StringLinkedSet_firstKey m = some (LMap.step hash thr d m .firstKey).2 ∧
    runA hash Gen.C09IR.StringLinkedSet_lastKey m = some (LMap.step hash thr d m .lastKey).2 := by
  have hk := canonEnd_correct d hash thr false m hc
  rw [show Gen.C09IR.StringLinkedSet_firstKey = canonEnd false (.retEndKey .front) from by decide,
    show Gen.C09IR.StringLinkedSet_lastKey = canonEnd false (.retEndKey .back) from by decide]
  exact ⟨hk.1, hk.2.1⟩


/-! ### enumerator objects: every HasMoreElements / Next* method of every enumerator type, statement by statement -/

/-- the enumerator objects of LinkedMap: each `HasMoreElements` is `LEnum.hasMore` (and changes nothing), each `Next*` is `LEnum.next`
    (the element under the cursor, cursor moved to `link_next`; "exhausted" exactly when the cursor is at the header) -/
theorem LinkedMap_enum_interp (e : LEnum K) :
    Gen.C09IR.LinkedMap_enumHasMore ≠ [] ∧ Gen.C09IR.LinkedMap_enumNext ≠ [] ∧
    (∀ l ∈ Gen.C09IR.LinkedMap_enumHasMore, runEL l e = some (e, .hasMore e.hasMore)) ∧
    (∀ l ∈ Gen.C09IR.LinkedMap_enumNext, runEL l e =
      match e.next with
      | some (k, e') => some (e', .elem k)
      | none => some (e, .exhausted)) := by
  refine ⟨by decide, by decide, fun l hl => ?_, fun l hl => ?_⟩
  · rw [(by decide : ∀ l ∈ Gen.C09IR.LinkedMap_enumHasMore, l = canonHasMoreL) l hl]; exact canonHasMoreL_correct e
  · exact canonNextL_correct l ((by decide : ∀ l ∈ Gen.C09IR.LinkedMap_enumNext, l = canonNextL ∨ l = [ESt.retNextElement]) l hl) e

/-- the enumerator objects of IntKeyLinkedMap: each `HasMoreElements` is `LEnum.hasMore` (and changes nothing), each `Next*` is `LEnum.next`
    (the element under the cursor, cursor moved to `link_next`; "exhausted" exactly when the cursor is at the header) -/
theorem IntKeyLinkedMap_enum_interp (e : LEnum K) :
    Gen.C09IR.IntKeyLinkedMap_enumHasMore ≠ [] ∧ Gen.C09IR.IntKeyLinkedMap_enumNext ≠ [] ∧
    (∀ l ∈ Gen.C09IR.IntKeyLinkedMap_enumHasMore, runEL l e = some (e, .hasMore e.hasMore)) ∧
    (∀ l ∈ Gen.C09IR.IntKeyLinkedMap_enumNext, runEL l e =
      match e.next with
      | some (k, e') => some (e', .elem k)
      | none => some (e, .exhausted)) := by
  refine ⟨by decide, by decide, fun l hl => ?_, fun l hl => ?_⟩
  · rw [(by decide : ∀ l ∈ Gen.C09IR.IntKeyLinkedMap_enumHasMore, l = canonHasMoreL) l hl]; exact canonHasMoreL_correct e
  · exact canonNextL_correct l ((by decide : ∀ l ∈ Gen.C09IR.IntKeyLinkedMap_enumNext, l = canonNextL ∨ l = [ESt.retNextElement]) l hl) e

/-- the enumerator objects of LongKeyLinkedMap: each `HasMoreElements` is `LEnum.hasMore` (and changes nothing), each `Next*` is `LEnum.next`
    (the element under the cursor, cursor moved to `link_next`; "exhausted" exactly when the cursor is at the header) -/
theorem LongKeyLinkedMap_enum_interp (e : LEnum K) :
    Gen.C09IR.LongKeyLinkedMap_enumHasMore ≠ [] ∧ Gen.C09IR.LongKeyLinkedMap_enumNext ≠ [] ∧
    (∀ l ∈ Gen.C09IR.LongKeyLinkedMap_enumHasMore, runEL l e = some (e, .hasMore e.hasMore)) ∧
    (∀ l ∈ Gen.C09IR.LongKeyLinkedMap_enumNext, runEL l e =
      match e.next with
      | some (k, e') => some (e', .elem k)
      | none => some (e, .exhausted)) := by
  refine ⟨by decide, by decide, fun l hl => ?_, fun l hl => ?_⟩
  · rw [(by decide : ∀ l ∈ Gen.C09IR.LongKeyLinkedMap_enumHasMore, l = canonHasMoreL) l hl]; exact canonHasMoreL_correct e
  · exact canonNextL_correct l ((by decide : ∀ l ∈ Gen.C09IR.LongKeyLinkedMap_enumNext, l = canonNextL ∨ l = [ESt.retNextElement]) l hl) e

/-- the enumerator objects of StringKeyLinkedMap: each `HasMoreElements` is `LEnum.hasMore` (and changes nothing), each `Next*` is `LEnum.next`
    (the element under the cursor, cursor moved to `link_next`; "exhausted" exactly when the cursor is at the header) -/
theorem StringKeyLinkedMap_enum_interp (e : LEnum K) :
    Gen.C09IR.StringKeyLinkedMap_enumHasMore ≠ [] ∧ Gen.C09IR.StringKeyLinkedMap_enumNext ≠ [] ∧
    (∀ l ∈ Gen.C09IR.StringKeyLinkedMap_enumHasMore, runEL l e = some (e, .hasMore e.hasMore)) ∧
    (∀ l ∈ Gen.C09IR.StringKeyLinkedMap_enumNext, runEL l e =
      match e.next with
      | some (k, e') => some (e', .elem k)
      | none => some (e, .exhausted)) := by
  refine ⟨by decide, by decide, fun l hl => ?_, fun l hl => ?_⟩
  · rw [(by decide : ∀ l ∈ Gen.C09IR.StringKeyLinkedMap_enumHasMore, l = canonHasMoreL) l hl]; exact canonHasMoreL_correct e
  · exact canonNextL_correct l ((by decide : ∀ l ∈ Gen.C09IR.StringKeyLinkedMap_enumNext, l = canonNextL ∨ l = [ESt.retNextElement]) l hl) e

/-- the enumerator objects of IntIntLinkedMap: each `HasMoreElements` is `LEnum.hasMore` (and changes nothing), each `Next*` is `LEnum.next`
    (the element under the cursor, cursor moved to `link_next`; "exhausted" exactly when the cursor is at the header) -/
theorem IntIntLinkedMap_enum_interp (e : LEnum K) :
    Gen.C09IR.IntIntLinkedMap_enumHasMore ≠ [] ∧ Gen.C09IR.IntIntLinkedMap_enumNext ≠ [] ∧
    (∀ l ∈ Gen.C09IR.IntIntLinkedMap_enumHasMore, runEL l e = some (e, .hasMore e.hasMore)) ∧
    (∀ l ∈ Gen.C09IR.IntIntLinkedMap_enumNext, runEL l e =
      match e.next with
      | some (k, e') => some (e', .elem k)
      | none => some (e, .exhausted)) := by
  refine ⟨by decide, by decide, fun l hl => ?_, fun l hl => ?_⟩
  · rw [(by decide : ∀ l ∈ Gen.C09IR.IntIntLinkedMap_enumHasMore, l = canonHasMoreL) l hl]; exact canonHasMoreL_correct e
  · exact canonNextL_correct l ((by decide : ∀ l ∈ Gen.C09IR.IntIntLinkedMap_enumNext, l = canonNextL ∨ l = [ESt.retNextElement]) l hl) e

/-- the enumerator objects of IntFloatLinkedMap: each `HasMoreElements` is `LEnum.hasMore` (and changes nothing), each `Next*` is `LEnum.next`
    (the element under the cursor, cursor moved to `link_next`; "exhausted" exactly when the cursor is at the header) -/
theorem IntFloatLinkedMap_enum_interp (e : LEnum K) :
    Gen.C09IR.IntFloatLinkedMap_enumHasMore ≠ [] ∧ Gen.C09IR.IntFloatLinkedMap_enumNext ≠ [] ∧
    (∀ l ∈ Gen.C09IR.IntFloatLinkedMap_enumHasMore, runEL l e = some (e, .hasMore e.hasMore)) ∧
    (∀ l ∈ Gen.C09IR.IntFloatLinkedMap_enumNext, runEL l e =
      match e.next with
      | some (k, e') => some (e', .elem k)
      | none => some (e, .exhausted)) := by
  refine ⟨by decide, by decide, fun l hl => ?_, fun l hl => ?_⟩
  · rw [(by decide : ∀ l ∈ Gen.C09IR.IntFloatLinkedMap_enumHasMore, l = canonHasMoreL) l hl]; exact canonHasMoreL_correct e
  · exact canonNextL_correct l ((by decide : ∀ l ∈ Gen.C09IR.IntFloatLinkedMap_enumNext, l = canonNextL ∨ l = [ESt.retNextElement]) l hl) e

/-- the enumerator objects of LongFloatLinkedMap: each `HasMoreElements` is `LEnum.hasMore` (and changes nothing), each `Next*` is `LEnum.next`
    (the element under the cursor, cursor moved to `link_next`; "exhausted" exactly when the cursor is at the header) -/
theorem LongFloatLinkedMap_enum_interp (e : LEnum K) :
    Gen.C09IR.LongFloatLinkedMap_enumHasMore ≠ [] ∧ Gen.C09IR.LongFloatLinkedMap_enumNext ≠ [] ∧
    (∀ l ∈ Gen.C09IR.LongFloatLinkedMap_enumHasMore, runEL l e = some (e, .hasMore e.hasMore)) ∧
    (∀ l ∈ Gen.C09IR.LongFloatLinkedMap_enumNext, runEL l e =
      match e.next with
      | some (k, e') => some (e', .elem k)
      | none => some (e, .exhausted)) := by
  refine ⟨by decide, by decide, fun l hl => ?_, fun l hl => ?_⟩
  · rw [(by decide : ∀ l ∈ Gen.C09IR.LongFloatLinkedMap_enumHasMore, l = canonHasMoreL) l hl]; exact canonHasMoreL_correct e
  · exact canonNextL_correct l ((by decide : ∀ l ∈ Gen.C09IR.LongFloatLinkedMap_enumNext, l = canonNextL ∨ l = [ESt.retNextElement]) l hl) e

/-- the enumerator objects of LongLongLinkedMap: each `HasMoreElements` is `LEnum.hasMore` (and changes nothing), each `Next*` is `LEnum.next`
    (the element under the cursor, cursor moved to `link_next`; "exhausted" exactly when the cursor is at the header) -/
theorem LongLongLinkedMap_enum_interp (e : LEnum K) :
    Gen.C09IR.LongLongLinkedMap_enumHasMore ≠ [] ∧ Gen.C09IR.LongLongLinkedMap_enumNext ≠ [] ∧
    (∀ l ∈ Gen.C09IR.LongLongLinkedMap_enumHasMore, runEL l e = some (e, .hasMore e.hasMore)) ∧
    (∀ l ∈ Gen.C09IR.LongLongLinkedMap_enumNext, runEL l e =
      match e.next with
      | some (k, e') => some (e', .elem k)
      | none => some (e, .exhausted)) := by
  refine ⟨by decide, by decide, fun l hl => ?_, fun l hl => ?_⟩
  · rw [(by decide : ∀ l ∈ Gen.C09IR.LongLongLinkedMap_enumHasMore, l = canonHasMoreL) l hl]; exact canonHasMoreL_correct e
  · exact canonNextL_correct l ((by decide : ∀ l ∈ Gen.C09IR.LongLongLinkedMap_enumNext, l = canonNextL ∨ l = [ESt.retNextElement]) l hl) e

/-- the enumerator objects of StringIntLinkedMap: each `HasMoreElements` is `LEnum.hasMore` (and changes nothing), each `Next*` is `LEnum.next`
    (the element under the cursor, cursor moved to `link_next`; "exhausted" exactly when the cursor is at the header) -/
theorem StringIntLinkedMap_enum_interp (e : LEnum K) :
    Gen.C09IR.StringIntLinkedMap_enumHasMore ≠ [] ∧ Gen.C09IR.StringIntLinkedMap_enumNext ≠ [] ∧
    (∀ l ∈ Gen.C09IR.StringIntLinkedMap_enumHasMore, runEL l e = some (e, .hasMore e.hasMore)) ∧
    (∀ l ∈ Gen.C09IR.StringIntLinkedMap_enumNext, runEL l e =
      match e.next with
      | some (k, e') => some (e', .elem k)
      | none => some (e, .exhausted)) := by
  refine ⟨by decide, by decide, fun l hl => ?_, fun l hl => ?_⟩
  · rw [(by decide : ∀ l ∈ Gen.C09IR.StringIntLinkedMap_enumHasMore, l = canonHasMoreL) l hl]; exact canonHasMoreL_correct e
  · exact canonNextL_correct l ((by decide : ∀ l ∈ Gen.C09IR.StringIntLinkedMap_enumNext, l = canonNextL ∨ l = [ESt.retNextElement]) l hl) e

/-- the enumerator objects of StringLongLinkedMap: each `HasMoreElements` is `LEnum.hasMore` (and changes nothing), each `Next*` is `LEnum.next`
    (the element under the cursor, cursor moved to `link_next`; "exhausted" exactly when the cursor is at the header) -/
theorem StringLongLinkedMap_enum_interp (e : LEnum K) :
    Gen.C09IR.StringLongLinkedMap_enumHasMore ≠ [] ∧ Gen.C09IR.StringLongLinkedMap_enumNext ≠ [] ∧
    (∀ l ∈ Gen.C09IR.StringLongLinkedMap_enumHasMore, runEL l e = some (e, .hasMore e.hasMore)) ∧
    (∀ l ∈ Gen.C09IR.StringLongLinkedMap_enumNext, runEL l e =
      match e.next with
      | some (k, e') => some (e', .elem k)
      | none => some (e, .exhausted)) := by
  refine ⟨by decide, by decide, fun l hl => ?_, fun l hl => ?_⟩
  · rw [(by decide : ∀ l ∈ Gen.C09IR.StringLongLinkedMap_enumHasMore, l = canonHasMoreL) l hl]; exact canonHasMoreL_correct e
  · exact canonNextL_correct l ((by decide : ∀ l ∈ Gen.C09IR.StringLongLinkedMap_enumNext, l = canonNextL ∨ l = [ESt.retNextElement]) l hl) e

/-- the enumerator objects of LinkedSet: each `HasMoreElements` is `LEnum.hasMore` (and changes nothing), each `Next*` is `LEnum.next`
    (the element under the cursor, cursor moved to `link_next`; "exhausted" exactly when the cursor is at the header) -/
theorem LinkedSet_enum_interp (e : LEnum K) :
    Gen.C09IR.LinkedSet_enumHasMore ≠ [] ∧ Gen.C09IR.LinkedSet_enumNext ≠ [] ∧
    (∀ l ∈ Gen.C09IR.LinkedSet_enumHasMore, runEL l e = some (e, .hasMore e.hasMore)) ∧
    (∀ l ∈ Gen.C09IR.LinkedSet_enumNext, runEL l e =
      match e.next with
      | some (k, e') => some (e', .elem k)
      | none => some (e, .exhausted)) := by
  refine ⟨by decide, by decide, fun l hl => ?_, fun l hl => ?_⟩
  · rw [(by decide : ∀ l ∈ Gen.C09IR.LinkedSet_enumHasMore, l = canonHasMoreL) l hl]; exact canonHasMoreL_correct e
  · exact canonNextL_correct l ((by decide : ∀ l ∈ Gen.C09IR.LinkedSet_enumNext, l = canonNextL ∨ l = [ESt.retNextElement]) l hl) e

/-- the enumerator objects of IntLinkedSet: each `HasMoreElements` is `LEnum.hasMore` (and changes nothing), each `Next*` is `LEnum.next`
    (the element under the cursor, cursor moved to `link_next`; "exhausted" exactly when the cursor is at the header) -/
theorem IntLinkedSet_enum_interp (e : LEnum K) :
    Gen.C09IR.IntLinkedSet_enumHasMore ≠ [] ∧ Gen.C09IR.IntLinkedSet_enumNext ≠ [] ∧
    (∀ l ∈ Gen.C09IR.IntLinkedSet_enumHasMore, runEL l e = some (e, .hasMore e.hasMore)) ∧
    (∀ l ∈ Gen.C09IR.IntLinkedSet_enumNext, runEL l e =
      match e.next with
      | some (k, e') => some (e', .elem k)
      | none => some (e, .exhausted)) := by
  refine ⟨by decide, by decide, fun l hl => ?_, fun l hl => ?_⟩
  · rw [(by decide : ∀ l ∈ Gen.C09IR.IntLinkedSet_enumHasMore, l = canonHasMoreL) l hl]; exact canonHasMoreL_correct e
  · exact canonNextL_correct l ((by decide : ∀ l ∈ Gen.C09IR.IntLinkedSet_enumNext, l = canonNextL ∨ l = [ESt.retNextElement]) l hl) e

/-- the enumerator objects of StringLinkedSet: each `HasMoreElements` is `LEnum.hasMore` (and changes nothing), each `Next*` is `LEnum.next`
    (the element under the cursor, cursor moved to `link_next`; "exhausted" exactly when the cursor is at the header) -/
theorem StringLinkedSet_enum_interp (e : LEnum K) :
    Gen.C09IR.StringLinkedSet_enumHasMore ≠ [] ∧ Gen.C09IR.StringLinkedSet_enumNext ≠ [] ∧
    (∀ l ∈ Gen.C09IR.StringLinkedSet_enumHasMore, runEL l e = some (e, .hasMore e.hasMore)) ∧
    (∀ l ∈ Gen.C09IR.StringLinkedSet_enumNext, runEL l e =
      match e.next with
      | some (k, e') => some (e', .elem k)
      | none => some (e, .exhausted)) := by
  refine ⟨by decide, by decide, fun l hl => ?_, fun l hl => ?_⟩
  · rw [(by decide : ∀ l ∈ Gen.C09IR.StringLinkedSet_enumHasMore, l = canonHasMoreL) l hl]; exact canonHasMoreL_correct e
  · exact canonNextL_correct l ((by decide : ∀ l ∈ Gen.C09IR.StringLinkedSet_enumNext, l = canonNextL ∨ l = [ESt.retNextElement]) l hl) e

end interpreted2

/-! ### entry objects (`<Type>LinkedEntry.go`) and the per-element text of the sets (round 4) -/

/-- the regenerated facts about GetKey / GetValue / SetValue / Equals / HashCode / ToString of the ten entry types and the
    per-key format of the three sets are the table the CodeModel (and the driver's `entryKindOf`) assumes -/
theorem entry_facts_match : Gen.C09Entry.entryFacts = HMap.entryDescs := by decide

/-- interpreted: the transcribed statements of every `SetValue(v)` mean "store `v` in the cell, return what was there" —
    the step of `LMap.entrySetValue` on the cell of the key — for every value type and all values -/
theorem entry_setValue_interp {V : Type} (value v : V) :
    ∀ e ∈ Gen.C09Entry.entryFacts, e.entry ≠ "" → HMap.interpSetValue e.setValue value v = some (v, value) := by
  rw [entry_facts_match]
  intro e he hne
  simp only [HMap.entryDescs, List.mem_cons, List.mem_nil_iff, or_false] at he
  rcases he with rfl | rfl | rfl | rfl | rfl | rfl | rfl | rfl | rfl | rfl | rfl | rfl | rfl <;>
    first
    | (exfalso; exact hne rfl)
    | (simp [HMap.interpSetValue, HMap.interpSetValue.go])

/-- interpreted: `Equals` of the regenerated facts, read through `entryKindOf`, compares the value exactly for the four
    numeric-valued int/long-keyed entry types and the key only for the other six -/
theorem entry_equals_interp :
    (Gen.C09Entry.entryFacts.filter (fun e => e.entry != "")).map (fun e => (e.owner, e.equals == "kv", e.getters))
      = [("LinkedMap", false, "this.key,this.value"), ("IntKeyLinkedMap", false, "this.key,this.value"),
         ("LongKeyLinkedMap", false, "this.key,this.value"), ("StringKeyLinkedMap", false, "this.key,this.value"),
         ("IntIntLinkedMap", true, "this.key,this.value"), ("IntFloatLinkedMap", true, "this.key,this.value"),
         ("LongFloatLinkedMap", true, "this.key,this.value"), ("LongLongLinkedMap", true, "this.key,this.value"),
         ("StringIntLinkedMap", false, "this.key,this.value"), ("StringLongLinkedMap", false, "this.key,this.value")] := by
  rw [entry_facts_match]; decide

end C09Gen
