/-
  Props.C15 — hashes and identifier encodings are the stated pure functions and bijections.

  Every function below is a Lean function of its arguments only, so purity ("the value for a given
  input never changes") holds by construction for the model; the definitions in `Golib.Hash.*` are the
  pinned identities the correspondence harness compares the Go return values with on every run.

  CodeModels: Golib/Hash/{Crc,Murmur,Hexa32,BitIp,Strconv}.lean (transcriptions of the Go code).
  Specs:      `Hash.crc32` (bit-by-bit CRC-32/IEEE), `Murmur.Ref.murmurHash2`, `Murmur.Ref.murmurHash64A`
              (the published algorithms), the identity function for the round trips.
-/
import Golib.Hash.CrcProofs
import Golib.Hash.MurmurProofs
import Golib.Hash.Hexa32Proofs
import Golib.Hash.BitIpProofs
import Golib.Hash.IpProofs

namespace C15

/-! ## CRC family -/

/-- the 256 table entries are the CRC-32 table: entry `i` is eight shift/xor steps of `i` with the
    reflected IEEE polynomial 0xEDB88320 -/
theorem crc_table : Hash.table = (List.range 256).map Hash.crcEntry := Hash.table_eq_entries

/-- `Hash(bs)` is CRC-32 (IEEE) of `bs`, for every byte string: the table-driven loop equals the
    bit-by-bit definition (xor-linearity of the shift register), read as an `int32` -/
theorem hash_is_crc32 (bs : Bytes) (h : WFB bs) : Hash.hash bs = Hash.toI32 (Hash.crc32 bs) := by
  unfold Hash.hash; rw [Hash.hashU_eq_crc32 bs h]

/-- per-byte form of the same fact, for every register value -/
theorem crc_step (c b : Nat) (hb : b < 256) : Hash.crcStep c b = Hash.crc32Step c b := Hash.crcStep_eq c b hb

/-- the string form hashes the string's bytes -/
theorem hashstr (s : Bytes) : Hash.hashStr s = Hash.hash s := rfl

/-- the two 64-bit v2 implementations agree on every input, nil and empty included -/
theorem hash64v2_agree (o : Option Bytes) : Hash.hash64v2 o = Hash.hash64V2 o := Hash.hash64v2_agree o

/-- `GetLongHash` is `Hash64v2` of the bytes (0 on the empty string either way) -/
theorem getLongHash_eq (s : Bytes) : Hash.getLongHash s = Hash.hash64v2 (some s) := by
  unfold Hash.getLongHash
  cases s with
  | nil => rfl
  | cons b bs => rfl

example : Hash.hash [104, 101, 108, 108, 111, 32, 119, 111, 114, 108, 100] = 222957957 := by decide +kernel
example : Hash.toI32 (Hash.crc32 [104, 101, 108, 108, 111, 32, 119, 111, 114, 108, 100]) = 222957957 := by decide +kernel
example : Hash.hash64v2 (some [104, 101, 108, 108, 111, 32, 119, 111, 114, 108, 100]) = -2739238572885903238 := by
  decide +kernel
example : WFB [104, 101, 108, 108, 111] := by decide

/-! ## Murmur -/

/-- **full characterisation** of `MurmurHashByteSeed`: it is the published MurmurHash2 of the input whose
    last `len % 4` bytes are reversed (the Go code indexes the tail from the end) -/
theorem murmur32_is_ref_on_swapped_tail (data : Bytes) (seed : Nat) (hw : WFB data) :
    Murmur.murmur32 data seed = Murmur.Ref.murmurHash2 (Murmur.swapTail data) seed :=
  Murmur.murmur32_eq_ref_swapTail data seed hw

/-- The property as stated is `∀ data seed, murmur32 data seed = murmurHash2 data seed`; it fails on the
    unchanged code (`finding_murmur_tail`).  What holds: equality whenever at most one byte is left over. -/
theorem murmur_ref_partial (data : Bytes) (seed : Nat) (hw : WFB data) (hl : data.length % 4 ≤ 1) :
    Murmur.murmur32 data seed = Murmur.Ref.murmurHash2 data seed :=
  Murmur.murmur32_eq_ref_of_short_tail data seed hw hl

/-- witness: on the two bytes 01 02 with the default seed the Go function returns 2681676510, the published
    algorithm 2783606710 -/
theorem finding_murmur_tail :
    ¬ (Murmur.murmurByte [1, 2] = Murmur.Ref.murmurHash2 [1, 2] Murmur.defaultSeed) := by decide +kernel

/-- … and it is exactly the value of the reversed tail -/
theorem finding_murmur_tail_value :
    Murmur.murmurByte [1, 2] = 2681676510 ∧ Murmur.Ref.murmurHash2 [1, 2] Murmur.defaultSeed = 2783606710
    ∧ Murmur.Ref.murmurHash2 [2, 1] Murmur.defaultSeed = 2681676510 := by decide +kernel

/-- the stream-lib *Java* port (the file the Go code names as its source) has the same tail order but
    sign-extends tail bytes; on a tail byte ≥ 0x80 the Go value differs from that one too -/
theorem finding_murmur_vs_java_port :
    Murmur.murmurByte [1, 2] = Murmur.Ref.javaMurmur32 [1, 2] Murmur.defaultSeed
    ∧ ¬ (Murmur.murmurByte [128] = Murmur.Ref.javaMurmur32 [128] Murmur.defaultSeed) := by decide +kernel

/-- narrowing of the same finding against the *Java* reference: whenever the left-over bytes are all below 0x80
    (every ASCII input) the Go function **is** the stream-lib Java function; the witness above (byte 0x80) shows the
    hypothesis cannot be dropped -/
theorem murmur_java_partial (data : Bytes) (seed : Nat) (hw : WFB data)
    (h7 : ∀ b ∈ data.drop (data.length / 4 * 4), b < 128) :
    Murmur.murmur32 data seed = Murmur.Ref.javaMurmur32 data seed := Murmur.murmur32_eq_java data seed hw h7

example : ∀ b ∈ ([104, 105, 33] : Bytes).drop (([104, 105, 33] : Bytes).length / 4 * 4), b < 128 := by decide

/-- `MurmurHashLong(d)` is MurmurHash2 of the eight little-endian bytes of `d` with seed 8 -/
theorem murmurLong_ref (d : Nat) (hd : d < 18446744073709551616) :
    Murmur.murmurLong d = Murmur.Ref.murmurHash2 (Murmur.Ref.bytes8 d) 8 := Murmur.murmurLong_ref d hd

/-- `MurmurHash(o uint32) = MurmurHashLong(uint64(o))`: MurmurHash2 of the four little-endian bytes of `o` followed by four
    zero bytes, seed 8 -/
theorem murmurU32_ref (o : Nat) (ho : o < 4294967296) :
    Murmur.murmurU32 o = Murmur.Ref.murmurHash2 (Murmur.Ref.bytes8 o) 8 := by
  unfold Murmur.murmurU32
  rw [Nat.mod_eq_of_lt ho]
  exact Murmur.murmurLong_ref o (by omega)

example : Murmur.Ref.bytes8 4294967295 = [255, 255, 255, 255, 0, 0, 0, 0] := by decide +kernel

/-- `murmurHashLong` / `MurmurHashLongByte` is MurmurHash64A, for every byte string and seed -/
theorem murmur64_ref (data : Bytes) (seed : Nat) (hw : WFB data) :
    Murmur.murmur64 data seed = Murmur.Ref.murmurHash64A data seed := Murmur.murmur64_eq_ref data seed hw

/-- **hashing a prefix of a larger buffer**: `MurmurHashLongByte(buf, n)` with `n ≤ len(buf)` is MurmurHash64A of the first
    `n` bytes, whatever follows them in the caller's buffer (arbitrary trailing bytes) -/
theorem murmurLongByte_prefix (data rest : Bytes) (hw : WFB data) :
    Murmur.murmurLongByte (data ++ rest) data.length = Murmur.Ref.murmurHash64A data Murmur.defaultSeed := by
  unfold Murmur.murmurLongByte
  rw [List.take_left]
  exact Murmur.murmur64_eq_ref data _ hw

/-- … so the value is independent of the bytes behind the hashed region (no hypothesis on them, not even `< 256`) -/
theorem murmurLongByte_frame (data rest rest' : Bytes) :
    Murmur.murmurLongByte (data ++ rest) data.length = Murmur.murmurLongByte (data ++ rest') data.length := by
  unfold Murmur.murmurLongByte
  rw [List.take_left, List.take_left]

/-- a length beyond the slice is not a hash of anything in Go (index panic); in the model `take` stops at the end -/
example : Murmur.murmurLongByte [1, 2, 3] 3 = Murmur.murmurLongByte ([1, 2, 3] ++ [9, 9, 9, 9, 9, 9, 9]) 3 :=
  murmurLongByte_frame [1, 2, 3] [] _
example : WFB ([1, 2, 3] : Bytes) := by decide

example : Murmur.murmurByte [1, 2, 3, 4, 5] = Murmur.Ref.murmurHash2 [1, 2, 3, 4, 5] Murmur.defaultSeed := by decide +kernel
example : ([1, 2, 3, 4, 5] : Bytes).length % 4 ≤ 1 := by decide

/-! ## Hexa32 -/

def i64 (n : Int) : Prop := Hexa32.minInt64 ≤ n ∧ n ≤ Hexa32.maxInt64

/-- decoding the encoding of any 64-bit integer returns it — including −2^63 and ±(2^63−1) -/
theorem hexa_roundtrip (n : Int) (h : i64 n) : Hexa32.toLong32 (Hexa32.toString32 n) = n :=
  Hexa32.toLong32_toString32 n h.1 h.2

/-- hence the encoding is injective on int64 -/
theorem hexa_injective (a b : Int) (ha : i64 a) (hb : i64 b)
    (h : Hexa32.toString32 a = Hexa32.toString32 b) : a = b := by
  rw [← hexa_roundtrip a ha, ← hexa_roundtrip b hb, h]

/-- **bijection, both directions**: `ToString32 ∘ ToLong32` fixes a text **iff** the text is the encoding of some 64-bit
    integer — the encoder's image is exactly the set of texts that survive decode-then-encode, and on it the two functions
    are mutual inverses (no text outside the image is fixed: `ToLong32` is total and stays inside int64, `toLong32_range`) -/
theorem hexa_text_fixed_iff (t : List Char) :
    Hexa32.toString32 (Hexa32.toLong32 t) = t ↔ ∃ n, i64 n ∧ Hexa32.toString32 n = t := by
  constructor
  · intro h
    exact ⟨Hexa32.toLong32 t, Hexa32.toLong32_range t, h⟩
  · rintro ⟨n, hn, rfl⟩
    rw [hexa_roundtrip n hn]

example : ∃ n, i64 n ∧ Hexa32.toString32 n = "x10".toList := ⟨32, by unfold i64; decide, by decide +kernel⟩
/-- a text outside the image: the leading zero is not canonical, decoding accepts it, re-encoding drops it -/
example : Hexa32.toString32 (Hexa32.toLong32 "x010".toList) = "x10".toList := by decide +kernel

/-- documented forms: 0..9 ↦ the decimal digit -/
theorem hexa_form_digit : ∀ k : Fin 10, Hexa32.toString32 (k.val : Int) = [Char.ofNat (48 + k.val)] := by
  decide +kernel
/-- ≥ 10 ↦ `x` followed by the base-32 digits -/
theorem hexa_form_plus (n : Int) (h : 10 ≤ n) : Hexa32.toString32 n = 'x' :: Hexa32.toStr n := by
  unfold Hexa32.toString32
  simp only [show ¬ n < 0 by omega, show ¬ n < 10 by omega, if_false]
/-- < 0 ↦ `z` followed by the base-32 digits of the magnitude -/
theorem hexa_form_minus (n : Int) (h : n < 0) (hm : n ≠ Hexa32.minInt64) :
    Hexa32.toString32 n = 'z' :: Hexa32.toStr (-n) := by
  unfold Hexa32.toString32
  simp only [h, hm, if_true, if_false]
/-- −2^63 ↦ the special text -/
theorem hexa_form_min : Hexa32.toString32 Hexa32.minInt64 = "z8000000000000".toList := by decide +kernel

/-- **canonical form** (the encoding is the stated function, not just an invertible one): after the prefix the
    text is exactly the radix-32 numeral of the magnitude (`Hexa32.refDigits`, positional notation written
    independently of the Go loop): every digit in `0-9a-v`, no leading zero (hence minimal length) -/
theorem hexa_canonical (n : Int) (h : i64 n) :
    (10 ≤ n → Hexa32.toString32 n = 'x' :: Hexa32.refDigits n.toNat)
    ∧ (n < 0 → n ≠ Hexa32.minInt64 → Hexa32.toString32 n = 'z' :: Hexa32.refDigits (-n).toNat)
    ∧ (∀ m : Nat, ∀ c ∈ Hexa32.refDigits m, c ∈ Hexa32.digits.take 32)
    ∧ (∀ m : Nat, 0 < m → ∃ c rest, Hexa32.refDigits m = c :: rest ∧ c ≠ '0') := by
  refine ⟨fun h10 => ?_, fun hneg hmin => ?_, Hexa32.refDigits_alphabet, Hexa32.refDigits_head⟩
  · rw [hexa_form_plus n h10, Hexa32.toStr_canonical n (by omega)]
  · rw [hexa_form_minus n hneg hmin, Hexa32.toStr_canonical (-n) (by omega)]

example : Hexa32.refDigits 32 = "10".toList ∧ Hexa32.refDigits 1024 = "100".toList := by decide +kernel

example : Hexa32.toString32 (-743752992412427445) = "zkkincvom0p5l".toList := by decide +kernel
example : i64 Hexa32.minInt64 ∧ i64 Hexa32.maxInt64 := by unfold i64; decide

/-! ## bitutil -/

open BitUtil in
/-- 64-bit compose/split: the halves come back, and splitting then composing is the identity -/
theorem compose_split_64 :
    (∀ h l, isI32 h → isI32 l → getHigh64 (composite64 h l) = h ∧ getLow64 (composite64 h l) = l)
    ∧ (∀ k, isI64 k → composite64 (getHigh64 k) (getLow64 k) = k) :=
  ⟨fun h l hh hl => ⟨getHigh64_composite64 h l hh hl, getLow64_composite64 h l hh hl⟩, composite64_split⟩

open BitUtil in
theorem compose_split_32 :
    (∀ h l, isI16 h → isI16 l → getHigh32 (composite32 h l) = h ∧ getLow32 (composite32 h l) = l)
    ∧ (∀ k, isI32 k → composite32 (getHigh32 k) (getLow32 k) = k) :=
  ⟨fun h l hh hl => ⟨getHigh32_composite32 h l hh hl, getLow32_composite32 h l hh hl⟩, composite32_split⟩

open BitUtil in
theorem compose_split_16 :
    (∀ h l, isU8 h → isU8 l → getHigh16 (composite16 h l) = h ∧ getLow16 (composite16 h l) = l)
    ∧ (∀ k, isI16 k → composite16 (getHigh16 k) (getLow16 k) = k) :=
  ⟨fun h l hh hl => ⟨getHigh16_composite16 h l hh hl, getLow16_composite16 h l hh hl⟩, composite16_split⟩

open BitUtil in
/-- setting one half replaces it and leaves the other -/
theorem set_high_low (s v : Int) (hs : isI64 s) (hv : isI32 v) :
    getHigh64 (setHigh64 s v) = v ∧ getLow64 (setHigh64 s v) = getLow64 s
    ∧ getLow64 (setLow64 s v) = v ∧ getHigh64 (setLow64 s v) = getHigh64 s :=
  ⟨getHigh64_setHigh64 s v hs hv, getLow64_setHigh64 s v hs hv, getLow64_setLow64 s v hs hv, getHigh64_setLow64 s v hs hv⟩

example : BitUtil.isI32 (-2147483648) ∧ BitUtil.isI64 (-9223372036854775808) ∧ BitUtil.isU8 255 := by
  unfold BitUtil.isI32 BitUtil.isI64 BitUtil.isU8; decide

/-! ## IPv4 -/

/-- text ∘ bytes, bytes ∘ text and int ∘ bytes are mutual inverses on all addresses -/
theorem ip_roundtrips :
    (∀ a b c d : Nat, a < 256 → b < 256 → c < 256 → d < 256 →
        (IpUtil.toString [a, b, c, d]).map IpUtil.toBytes = some [a, b, c, d])
    ∧ (∀ s, IpUtil.canonical s → IpUtil.toString (IpUtil.toBytes s) = some s)
    ∧ (∀ i, BitUtil.isI32 i → IpUtil.toInt (IpUtil.toBytesFrInt i) = some i)
    ∧ (∀ a b c d : Nat, a < 256 → b < 256 → c < 256 → d < 256 →
        (IpUtil.toInt [a, b, c, d]).map IpUtil.toBytesFrInt = some [a, b, c, d])
    ∧ (∀ i, (IpUtil.toStringFrInt i).map IpUtil.toBytes = some (IpUtil.toBytesFrInt i)) :=
  ⟨IpUtil.toBytes_toString, IpUtil.toString_toBytes, IpUtil.toInt_toBytesFrInt, IpUtil.toBytesFrInt_toInt,
   IpUtil.toStringFrInt_roundtrip⟩

/-- per-octet lemma -/
theorem octet_roundtrip : ∀ n : Fin 256, IpUtil.octet (Strconv.itoaNat n.val) = n.val := IpUtil.octet_itoa

example : IpUtil.toString [127, 0, 0, 1] = some "127.0.0.1".toList := by decide +kernel
example : IpUtil.canonical "127.0.0.1".toList := ⟨127, 0, 0, 1, by decide, by decide, by decide, by decide, by decide +kernel⟩

/-- `ToBytes` is total: four bytes for every text -/
theorem ip_toBytes_total (s : List Char) : (IpUtil.toBytes s).length = 4 ∧ WFB (IpUtil.toBytes s) :=
  IpUtil.toBytes_wf s

/-- **which texts `ToBytes` accepts and what it makes of them**: a text of exactly four dot-separated parts
    gives one byte per part — the part parsed as `strconv.Atoi` does (optional sign, decimal digits only,
    within int64) and reduced mod 256, or 0 if it does not parse; every other text gives 0.0.0.0.
    So leading `+`/`-`, leading zeros and values outside 0..255 are accepted (and wrapped), garbage parts
    count as 0. -/
theorem ip_toBytes_any_text :
    (∀ a b c d : List Char, (∀ x ∈ a, x ≠ '.') → (∀ x ∈ b, x ≠ '.') → (∀ x ∈ c, x ≠ '.') → (∀ x ∈ d, x ≠ '.') →
        IpUtil.toBytes (a ++ '.' :: (b ++ '.' :: (c ++ '.' :: d)))
          = [IpUtil.octet a, IpUtil.octet b, IpUtil.octet c, IpUtil.octet d])
    ∧ (∀ s, (Strconv.splitOn '.' s).length ≠ 4 → IpUtil.toBytes s = [0, 0, 0, 0])
    ∧ (∀ p v, Strconv.atoi p = some v → IpUtil.octet p = (v % 256).toNat)
    ∧ (∀ p, Strconv.atoi p = none → IpUtil.octet p = 0) :=
  ⟨IpUtil.toBytes_parts, IpUtil.toBytes_other, IpUtil.octet_of_atoi, IpUtil.octet_of_fail⟩

/-- concrete non-canonical texts -/
theorem ip_noncanonical_examples :
    IpUtil.toBytes "+1.01.256.-1".toList = [1, 1, 0, 255]
    ∧ IpUtil.toBytes "1.2.3".toList = [0, 0, 0, 0] ∧ IpUtil.toBytes "1.2.3.4.5".toList = [0, 0, 0, 0]
    ∧ IpUtil.toBytes "a.b.c.d".toList = [0, 0, 0, 0] ∧ IpUtil.toBytes " 1.2.3.4".toList = [0, 2, 3, 4]
    ∧ IpUtil.toBytes "99999999999999999999.1.1.1".toList = [0, 1, 1, 1]
    ∧ IpUtil.toBytes "-9223372036854775808.0.0.300".toList = [0, 0, 0, 44] := by decide +kernel

/-- **`ToString ∘ ToBytes` fixes a text iff it is a canonical dotted quad**, and canonicity is the decidable
    syntactic condition "four parts, each the decimal numeral of a value ≤ 255" -/
theorem ip_text_fixed_iff (s : List Char) :
    (IpUtil.toString (IpUtil.toBytes s) = some s ↔ IpUtil.canonical s)
    ∧ (IpUtil.canonical s ↔ IpUtil.isCanonical s = true) :=
  ⟨IpUtil.toString_toBytes_iff s, IpUtil.canonical_iff s⟩

/-- `ToString` is injective on addresses; the dotted text of an int32 parses back to that int32 -/
theorem ip_text_int_roundtrip (i : Int) (hi : BitUtil.isI32 i) :
    (IpUtil.toStringFrInt i).map (fun s => IpUtil.toInt (IpUtil.toBytes s)) = some (some i) :=
  IpUtil.toInt_toBytes_toStringFrInt i hi

theorem ip_toString_injective (a b c d a' b' c' d' : Nat) (ha : a < 256) (hb : b < 256) (hc : c < 256) (hd : d < 256)
    (ha' : a' < 256) (hb' : b' < 256) (hc' : c' < 256) (hd' : d' < 256)
    (h : IpUtil.toString [a, b, c, d] = IpUtil.toString [a', b', c', d']) : [a, b, c, d] = [a', b', c', d'] :=
  IpUtil.toString_injective a b c d a' b' c' d' ha hb hc hd ha' hb' hc' hd' h

/-- **`IsOK` is exactly the domain of the conversions**: whatever `ToBytes` (any text) and `ToBytesFrInt` (any int) return
    satisfies it, and every slice that satisfies it comes back from its text and from its int;
    `IsNotLocal` on such a slice says that the first octet is not 127 -/
theorem ip_isOK :
    (∀ s, IpUtil.isOK (IpUtil.toBytes s) = true) ∧ (∀ i, IpUtil.isOK (IpUtil.toBytesFrInt i) = true)
    ∧ (∀ ip, WFB ip → IpUtil.isOK ip = true →
        (IpUtil.toString ip).map IpUtil.toBytes = some ip ∧ (IpUtil.toInt ip).map IpUtil.toBytesFrInt = some ip)
    ∧ (∀ ip, IpUtil.isNotLocal ip = true ↔ IpUtil.isOK ip = true ∧ ip.head? ≠ some 127) := by
  refine ⟨fun s => ?_, fun i => ?_, fun ip hw h => ?_, fun ip => ?_⟩
  · simp [IpUtil.isOK, (IpUtil.toBytes_wf s).1]
  · simp [IpUtil.isOK, (IpUtil.toBytesFrInt_wf i).1]
  · match ip, hw, h with
    | [a, b, c, d], hw, _ =>
      have ha : a < 256 := hw a (by simp)
      have hb : b < 256 := hw b (by simp)
      have hc : c < 256 := hw c (by simp)
      have hd : d < 256 := hw d (by simp)
      exact ⟨IpUtil.toBytes_toString a b c d ha hb hc hd, IpUtil.toBytesFrInt_toInt a b c d ha hb hc hd⟩
  · cases ip with
    | nil => simp [IpUtil.isNotLocal, IpUtil.isOK]
    | cons a t => simp [IpUtil.isNotLocal, IpUtil.isOK]

example : IpUtil.isOK [127, 0, 0, 1] = true ∧ IpUtil.isNotLocal [127, 0, 0, 1] = false
    ∧ IpUtil.isNotLocal [10, 0, 0, 1] = true ∧ IpUtil.isOK [1, 2, 3] = false ∧ IpUtil.isOK [] = false := by decide

example : IpUtil.isCanonical "10.0.0.255".toList = true ∧ IpUtil.isCanonical "10.0.0.256".toList = false
    ∧ IpUtil.isCanonical "010.0.0.1".toList = false := by decide +kernel

/-! ## stringutil.HashCode -/

/-- the pinned definition as a recurrence: `HashCode("") = 0`, `HashCode(s + b) = 31·HashCode(s) + b` in int64 -/
theorem hashCode_recurrence (s : Bytes) (b : Nat) :
    StrHash.hashCode [] = 0 ∧ StrHash.hashCode (s ++ [b]) = BitUtil.wrap64 (31 * StrHash.hashCode s + (b : Int)) := by
  constructor
  · rfl
  · unfold StrHash.hashCode; rw [List.foldl_append]; rfl

example : StrHash.hashCode [104, 105] = 3329 := by decide +kernel


/-- `int32(HashCode(s))` is Java's `String.hashCode` recurrence in 32-bit arithmetic -/
theorem hashCode_java (s : Bytes) : BitUtil.wrap32 (StrHash.hashCode s) = StrHash.javaHashCode s :=
  StrHash.wrap32_hashCode s

end C15
