/-
  Property C16 — log-sink zip batching emits every record exactly once, in order, decodably.

  Statements about the CodeModel `Golib.ZipSender.Model` of logsink/zip/ZipSendProxyThread.go;
  the proofs refer to lemmas of `Golib.ZipSender.{Lemmas,History,Theorems,Answers,Loop,LogSink}`.

  The model is tied to the Go code by the correspondence harness `harness/c16` (tie B: real
  sender, recording and faulting client, stepped and free-running background loop) and by the
  regenerated facts of `Golib.Gen.C16` (tie A, interpreted: see Golib/Props/C16Gen.lean).

  `Variant.fixed` is the repaired code (D31 defaults kept, D32 uncompressed payload copied at
  hand-over, D33 queue drained on stop); `Variant.asFound` is the code as found and carries the
  `finding_*` witnesses; `Variant.returnOnError` is the seeded regression "sendAndClear returns when
  SendFlush fails".  Theorems quantified over `v` need `hr : v.sound = true` (errors are logged and the batch reset anyway; the count follows the write; true for
  `fixed` and `asFound` by `rfl`): the code logs a transmission error and resets the batch anyway.

  Every theorem about a fresh sender quantifies over `ans`, the client's answers to the hand-overs
  to come: a faulting client is part of every statement.

  Assumptions appear as structures/hypotheses, never as axioms:
    `Unzip Z`     gzip round-trips (compress/gzip, not modelled) — the only assumption left in
                  `decodable_logsink`, where the record codec is the real LogSinkPack layout (C03)
    `Decoder C`   (generic form only) a record codec that round-trips
    `∀ r, C.enc r ≠ []`  a record's encoding is not empty (proved for the LogSinkPack layout)
-/
import Golib.ZipSender.Theorems
import Golib.ZipSender.Answers
import Golib.ZipSender.Loop
import Golib.ZipSender.LogSink
import Golib.ZipSender.Timing
import Golib.ZipSender.WireFacts
import Golib.ZipSender.Client
import Golib.ZipSender.LoopStop

namespace C16
open ZipSender
open Prim (encMany)

variable {ρ : Type} (v : Variant) (Z : Zip) (C : Codec ρ) (hr : v.sound = true)

example : Variant.fixed.sound = true ∧ Variant.asFound.sound = true := ⟨rfl, rfl⟩

/-! ### every record exactly once, in order -/

include hr in
/-- For every history from a fresh sender, every behaviour `ans` of the client and whichever
    records fail to serialise (`C.fails`: `Append` recovers from the panic and drops them): the queue
    is FIFO and loses nothing it accepted (`deq ++ queue = accepted`); `fed`, the records that reached
    `Append`, is an order-preserving merge of what the loop dequeued and what was appended directly;
    and the emitted batches followed by the batch under construction are exactly the serialisable
    records of `fed` — nothing lost, duplicated or reordered, and a dropped record leaves no trace. -/
theorem exactly_once_in_order (st : Settings) (ans : List Bool) (h : List (In ρ)) :
    ∃ deq fed, deq ++ (final v Z C (init st ans) h).queue = accepted v Z C (init st ans) h ∧
      Interleave deq (directAppends h) fed ∧
      sharedRecs (emitted v Z C (init st ans) h) ++ (final v Z C (init st ans) h).buf.reverse = good C fed := by
  obtain ⟨deq, fed, h1, h2, h3⟩ := history_inv v Z C h hr (init st ans)
  exact ⟨deq, fed, by simpa [init] using h1, h2, by simpa [init] using h3⟩

include hr in
/-- queue path alone (the sender used through `Add` only): emitted ++ buffered ++ queued =
    accepted, as lists, restricted to the records that serialise -/
theorem exactly_once_queue_path (st : Settings) (ans : List Bool) (h : List (In ρ)) (hq : directAppends h = []) :
    sharedRecs (emitted v Z C (init st ans) h) ++ (final v Z C (init st ans) h).buf.reverse
      ++ good C (final v Z C (init st ans) h).queue = good C (accepted v Z C (init st ans) h) := by
  obtain ⟨deq, fed, h1, h2, h3⟩ := exactly_once_in_order v Z C hr st ans h
  rw [hq] at h2
  rw [h3, h2.nil_right, ← good_append, h1]

include hr in
/-- `Append` path alone (the sender used without its queue): emitted ++ buffered = the
    serialisable ones of the appended records -/
theorem exactly_once_append_path (st : Settings) (ans : List Bool) (h : List (In ρ))
    (hq : accepted v Z C (init st ans) h = []) :
    sharedRecs (emitted v Z C (init st ans) h) ++ (final v Z C (init st ans) h).buf.reverse
      = good C (directAppends h) := by
  obtain ⟨deq, fed, h1, h2, h3⟩ := exactly_once_in_order v Z C hr st ans h
  rw [hq] at h1
  have : deq = [] := (List.append_eq_nil_iff.mp h1).1
  rw [this] at h2
  rw [h3, h2.nil_left]

include hr in
/-- **a failing append is a no-op**: a record whose serialisation panics (nil Tags, nil pack, an
    element of the wrong type on the queue) leaves the batch — buffer, count, first time — exactly as
    it was and hands nothing over -/
theorem append_fail_noop (s : State ρ) (r : ρ) (hf : C.fails r = true) : appendRec v Z C s r = (s, []) :=
  ZipSender.append_fail_noop v Z C s r hr hf

/-- the regression "packCount += 1 before WritePack" (seeded, not in the code): the dropped record is
    counted; here it was alone in its batch, the empty buffer is not flushed, and the surplus leaks
    into the next pack, whose count (2) exceeds its records (1) -/
theorem finding_count_first_miscounts :
    (emitted .countFirst ⟨fun b => 31 :: b⟩ (⟨(·.2), (·.1), fun r => r.2.isEmpty⟩ : Codec (Int × Bytes)) (init defaults)
      [.append (1000, []), .step, .append (1001, [7]), .step]).map (fun p => (p.count, p.recs.length)) = [(2, 1)] := by
  decide

include hr in
/-- `SendDirect`: the packs it hands over hold exactly its arguments, in order -/
theorem exactly_once_direct (hne : ∀ r, C.enc r ≠ []) (s : State ρ) (h : List (In ρ)) :
    directRecs (emitted v Z C s h) = directSent h :=
  history_direct v Z C hne h hr s

/-- once the (repaired) sender is stopped, every serialisable record accepted or appended before
    has been emitted: the emitted records are the good ones of a merge of the two streams -/
theorem all_emitted_at_stop (hne : ∀ r, C.enc r ≠ []) (st : Settings) (ans : List Bool) (h : List (In ρ))
    (hs : (final .fixed Z C (init st ans) h).stopped = false) :
    ∃ fed, Interleave (accepted .fixed Z C (init st ans) (h ++ [.stop])) (directAppends h) fed ∧
      sharedRecs (emitted .fixed Z C (init st ans) (h ++ [.stop])) = good C fed :=
  ZipSender.all_emitted_at_stop .fixed Z C rfl rfl hne st ans h hs

/-! ### acceptance is the C11 queue's answer -/

/-- `Add` is `RequestQueue.Put` of the C11 model (`Golib.Queue.Seq`): same content afterwards,
    same answer, `accepted` / `failed` event; a full queue refuses the newcomer and keeps the rest -/
theorem add_is_queue_put (key : ρ → Nat) (s : State ρ) (r : ρ) :
    Queue.step (qAbs key s) (.put (key r)) =
      (qAbs key (add s r).1, .bool (canPut s),
       [if canPut s then Queue.Ev.accepted (key r) else Queue.Ev.failed (key r)]) :=
  add_refines_put key s r

/-- what the loop takes out is what the C11 queue's `GetTimeout` delivers (handles are non-nil) -/
theorem dequeue_is_queue_getTimeout (key : ρ → Nat) (s : State ρ) (k : Nat) (hk : ∀ r ∈ s.queue, key r ≠ 0) :
    Queue.step (qAbs key s) (.getTimeout k) =
      match s.queue with
      | [] => (qAbs key s, .val 0, [])
      | r :: q => (qAbs key { s with queue := q }, .val (key r), [.delivered (key r)]) :=
  dequeue_refines_getTimeout key s k hk

include hr in
/-- exactly-once with acceptance *defined* by the C11 model (`acceptedQ`: the records for which
    `Queue.step … (.put …)` answered `true`) -/
theorem exactly_once_accepted_by_queue (key : ρ → Nat) (st : Settings) (ans : List Bool) (h : List (In ρ))
    (hq : directAppends h = []) :
    sharedRecs (emitted v Z C (init st ans) h) ++ (final v Z C (init st ans) h).buf.reverse
      ++ good C (final v Z C (init st ans) h).queue = good C (acceptedQ key v Z C (init st ans) h) := by
  rw [acceptedQ_eq]; exact exactly_once_queue_path v Z C hr st ans h hq

/-! ### per pack: count, payload, compression flag -/

include hr in
theorem count_matches (st : Settings) (ans : List Bool) (h : List (In ρ)) :
    ∀ p ∈ emitted v Z C (init st ans) h, p.count = p.recs.length :=
  (history_WF v Z C h hr (init st ans) (WF_init C st ans)).2

include hr in
/-- the payload, after decompression when flagged, decodes back to exactly the pack's records
    (their observations under the decoder) and nothing is left over -/
theorem decodable (U : Unzip Z) (D : Decoder C) (st : Settings) (ans : List Bool) (h : List (In ρ)) :
    ∀ p ∈ emitted v Z C (init st ans) h, (∀ r ∈ p.recs, D.wf r) →
      decodePack U D p = some (p.recs.map D.obs, []) := by
  intro p hp hw
  obtain ⟨st', hb⟩ := emitted_built v Z C h (init st ans) hr p hp
  exact decode_built U D hb (count_matches v Z C hr st ans h p hp) hw

/-- **with the real record format**: records are LogSinkPacks in the wire layout of C03
    (`LogSink.codec`: type code 0x170a, header, Category, TagHash, Tags, Line, Content, optional
    Fields; reader layout regenerated from LogSinkPack.Read).  For every factory that maps the type
    code to that reader, every pack's payload — decompressed when flagged — reads back, with
    `readPack` `count` times, as the carried fields of exactly its records.  The only assumption
    left is `Unzip` (gzip). -/
theorem decodable_logsink (hr : v.sound = true) (U : Unzip Z) (fac : Packs.Factory) (hf : LogSink.Fac fac)
    (st : Settings) (ans : List Bool) (h : List (In Layout.Rec)) :
    ∀ p ∈ emitted v Z LogSink.codec (init st ans) h, (∀ x ∈ p.recs, LogSink.WFRec x) →
      decodePack U (LogSink.decoder fac hf) p = some (p.recs.map (fun x => (LogSink.pv x).carried), []) :=
  decodable v Z LogSink.codec hr U (LogSink.decoder fac hf) st ans h

/-- **"decodably", end to end**: the payload of every emitted pack is — compressed when flagged —
    exactly C03's container encoding `writePacks` of its records (each: 16-bit type code, header,
    body in the LogSinkPack layout), nothing else -/
theorem payload_is_c03_encoding (hr : v.sound = true) (st : Settings) (ans : List Bool) (h : List (In Layout.Rec)) :
    ∀ p ∈ emitted v Z LogSink.codec (init st ans) h,
      p.payload = (if p.zipped then Z.zip (Packs.writePacks (p.recs.map LogSink.pv))
                   else Packs.writePacks (p.recs.map LogSink.pv)) ∧
      p.count = p.recs.length := by
  intro p hp
  obtain ⟨st', hb⟩ := emitted_built v Z LogSink.codec h (init st ans) hr p hp
  rw [← LogSink.encMany_is_writePacks]
  exact ⟨hb.payload, count_matches v Z LogSink.codec hr st ans h p hp⟩

/-- … hence the receiving side — `ZipPack.GetRecords` as modelled and proved in C03
    (`Packs.Zip.getRecords`: read `RecordCount` packs, stamp each with the container's
    Pcode/Oid/Okind/Onode) — obtains exactly the records, in order, for all record contents within
    the writer's guards; gzip's round trip is the single hypothesis -/
theorem receiver_gets_records (hr : v.sound = true) (U : Unzip Z) (fac : Packs.Factory) (hf : LogSink.Fac fac)
    (hdr : Layout.Hdr) (st : Settings) (ans : List Bool) (h : List (In Layout.Rec)) :
    ∀ p ∈ emitted v Z LogSink.codec (init st ans) h, (∀ x ∈ p.recs, LogSink.WFRec x) →
      (if p.zipped then U.unzip p.payload else some p.payload).bind
        (fun raw => Packs.Zip.getRecords fac ⟨hdr, raw, p.count⟩)
      = some (p.recs.map (fun x => Packs.stamp hdr (LogSink.pv x).carried)) := by
  intro p hp hw
  obtain ⟨hpay, hcnt⟩ := payload_is_c03_encoding v Z hr st ans h p hp
  have hz := Packs.zip_records Layout.valueRT fac ⟨hdr, [], 0⟩ (p.recs.map LogSink.pv)
    (fun q hq => by
      obtain ⟨x, hx, rfl⟩ := List.mem_map.mp hq
      exact LogSink.pv_ok fac hf x (hw x hx))
  simp only [Packs.Zip.setRecords, List.length_map, List.map_map, Function.comp_def] at hz
  rw [hpay, hcnt]
  by_cases hzp : p.zipped = true
  · simp only [hzp, if_true, U.rt, Option.bind_some]; exact hz
  · simp only [hzp, Bool.false_eq_true, if_false, Option.bind_some]; exact hz

/-- the tag section travels as it is: the record's `TagHash` field with whatever value the caller
    left in it (0 excepted, see notes) and its `Tags` table — a stale hash does not change the tags
    the receiver decodes (`decodable_logsink` delivers `(pv x).carried`, which holds both) -/
theorem tags_travel_with_any_hash (x : Layout.Rec) :
    ("TagHash", x "TagHash") ∈ (LogSink.pv x).carried.2 ∧ ("Tags", x "Tags") ∈ (LogSink.pv x).carried.2 :=
  LogSink.carried_hash_and_tags x

/-- the non-emptiness hypothesis of `exactly_once_direct` / `all_emitted_at_stop` holds for it -/
theorem logsink_encoding_nonempty (x : Layout.Rec) : LogSink.codec.enc x ≠ [] := LogSink.enc_ne_nil x

include hr in
/-- compression is applied exactly when the payload reaches the minimum size in force at
    the moment the pack is built (`x.1` = the settings in force, `x.2` = the pack) -/
theorem zipped_iff (s : State ρ) (h : List (In ρ)) :
    ∀ x ∈ (run v Z C s h).2, (x.2.zipped = true ↔ x.1.zipMin ≤ ((encMany C.enc x.2.recs).length : Int)) :=
  fun x hx => (history_built v Z C h hr s x hx).zipped_iff

include hr in
/-- … and without configuration updates the settings in force are the initial ones -/
theorem zipped_iff_const (st : Settings) (ans : List Bool) (h : List (In ρ)) (hc : ∀ i ∈ h, isConfig i = false) :
    ∀ p ∈ emitted v Z C (init st ans) h, (p.zipped = true ↔ st.zipMin ≤ ((encMany C.enc p.recs).length : Int)) := by
  intro p hp
  obtain ⟨x, hx, rfl⟩ := List.mem_map.mp hp
  have := zipped_iff v Z C hr (init st ans) h x hx
  rwa [(settings_const v Z C h hr (init st ans) hc).2 x hx] at this

/-! ### flush conditions -/

include hr in
/-- `Append`: the batch is flushed as soon as the buffer size in force is reached or the
    record is at least the waiting time in force younger than the first one of the batch -/
theorem flush_on_append (s : State ρ) (r : ρ) (hok : C.fails r = false)
    (hm : s.settings.maxBuf ≤ ((s.bufLen + (C.enc r).length : Nat) : Int) ∨
          (s.firstTime ≠ 0 ∧ s.settings.maxWait ≤ C.time r - s.firstTime)) :
    (appendRec v Z C s r).1.bufLen = 0 ∧
    (0 < s.bufLen + (C.enc r).length →
      (appendRec v Z C s r).1.buf = [] ∧ (appendRec v Z C s r).2.map (·.recs) = [s.buf.reverse ++ [r]]) :=
  ⟨append_flushes v Z C s r hr hok hm, append_flushes_pack v Z C s r hr hok hm⟩

/-- … and only then: otherwise the record is buffered and nothing is handed over -/
theorem no_flush_below_limits (s : State ρ) (r : ρ) (hok : C.fails r = false)
    (hm : ¬ (s.settings.maxBuf ≤ ((s.bufLen + (C.enc r).length : Nat) : Int) ∨
          (s.firstTime ≠ 0 ∧ s.settings.maxWait ≤ C.time r - s.firstTime))) :
    (appendRec v Z C s r).2 = [] ∧ (appendRec v Z C s r).1.buf = r :: s.buf :=
  append_buffers v Z C s r hok hm

include hr in
/-- the idle timeout of the queue flushes the batch -/
theorem flush_on_idle (s : State ρ) (hs : s.stopped = false) (hq : s.queue = []) :
    (step v Z C s).1.bufLen = 0 := idle_flushes v Z C s hr hs hq

/-- stopping flushes the batch, and (repaired code) first drains the queue into it -/
theorem flush_on_stop (s : State ρ) (hs : s.stopped = false) :
    (stop .fixed Z C s).1.bufLen = 0 ∧ (stop .fixed Z C s).1.queue = [] ∧ (stop .fixed Z C s).1.stopped = true :=
  ⟨stop_flushes .fixed Z C s rfl hs, stop_drains .fixed Z C rfl s rfl hs, stop_stopped .fixed Z C s⟩

include hr in
/-- "no bytes buffered" means "no records buffered" when encodings are non-empty -/
theorem flushed_means_empty (hne : ∀ r, C.enc r ≠ []) (st : Settings) (ans : List Bool) (h : List (In ρ))
    (h0 : (final v Z C (init st ans) h).bufLen = 0) : (final v Z C (init st ans) h).buf = [] :=
  buf_nil_of_len C hne _ (history_WF v Z C h hr (init st ans) (WF_init C st ans)).1 h0

/-! ### a hand-over is final: the client's answer changes nothing -/

include hr in
/-- two runs that differ only in what the client answers (`a`, `a'`: any streams of
    ok / transmission error) hand over the same packs, paired with the same settings, and end in the
    same state up to the answers not yet consumed — a failed hand-over is neither repeated nor taken back -/
theorem hand_over_final (st : Settings) (a a' : List Bool) (h : List (In ρ)) :
    (run v Z C (init st a) h).2 = (run v Z C (init st a') h).2 ∧
    Sim (run v Z C (init st a) h).1 (run v Z C (init st a') h).1 :=
  let r := run_sim v Z C hr h (s := init st a) (t := init st a') rfl
  ⟨r.2, r.1⟩

/-- the regression "return before the reset when SendFlush fails" (seeded, not in the code):
    the batch whose hand-over failed is handed over a second time inside the next pack -/
theorem finding_return_on_error_duplicates :
    sharedRecs (emitted .returnOnError ⟨fun b => 31 :: b⟩ (⟨(·.2), (·.1), fun _ => false⟩ : Codec (Int × Bytes)) (init defaults [false])
      [.append (1000, [1]), .step, .append (1001, [2]), .step]) = [(1000, [1]), (1000, [1]), (1001, [2])] := by
  decide

/-! ### a pack that has been handed over never changes -/

/-- repaired code: every emitted pack owns its bytes … -/
theorem handed_over_owned (s : State ρ) (h : List (In ρ)) :
    ∀ p ∈ emitted .fixed Z C s h, p.ref = .owned :=
  all_owned .fixed Z C rfl rfl h s

/-- … hence whatever happens later (`h'`), a client that retained the pack still reads the
    payload it was handed -/
theorem handed_over_immutable (st : Settings) (ans : List Bool) (h h' : List (In ρ)) :
    ∀ p ∈ emitted .fixed Z C (init st ans) h, view C (final .fixed Z C (init st ans) (h ++ h')) p = p.payload :=
  fun p hp => view_owned C _ p (handed_over_owned Z C (init st ans) h p hp)

/-- code as found: compressed packs are safe (gzip allocates), and an aliased pack is intact
    at the moment of the hand-over — the damage comes later (`finding_D32`) -/
theorem found_zipped_owned (s : State ρ) (h : List (In ρ)) :
    ∀ p ∈ emitted .asFound Z C s h, p.zipped = true → p.ref = .owned :=
  zipped_owned .asFound Z C rfl h s

theorem found_intact_at_handover (s : State ρ) :
    ∀ p ∈ (sendAndClear .asFound Z C s).2, view C (sendAndClear .asFound Z C s).1 p = p.payload :=
  view_at_handover .asFound Z C s rfl

/-! ### the real background loop: every schedule is a history -/

include hr in
/-- `run()` as an action machine (program counter `top` / `polling n` / `exited`; producers,
    configuration updates and the cancellation interleave freely with its `select` and `poll`
    actions; the cancellation is noticed only at the `select`): every execution hands over exactly
    the packs, and reaches exactly the sender state, of the atomic-action history `absHist` —
    so every theorem of this file about histories holds for every schedule of the real loop -/
theorem loop_refines (st : Settings) (ans : List Bool) (as : List (Act ρ)) :
    (lrun v Z C (linit st ans) as).1.core = final v Z C (init st ans) (absHist v Z C (linit st ans) as) ∧
    (lrun v Z C (linit st ans) as).2 = emitted v Z C (init st ans) (absHist v Z C (linit st ans) as) :=
  let r := ZipSender.loop_refines v Z C hr as (linit st ans) (LInv_init st ans)
  ⟨r.1, r.2.1⟩

include hr in
/-- exactly once and in order, counts, over the schedules of the loop itself -/
theorem loop_exactly_once (st : Settings) (ans : List Bool) (as : List (Act ρ)) :
    sharedRecs (lrun v Z C (linit st ans) as).2 ++ (lrun v Z C (linit st ans) as).1.core.buf.reverse
      ++ good C (lrun v Z C (linit st ans) as).1.core.queue
      = good C (accepted v Z C (init st ans) (absHist v Z C (linit st ans) as)) ∧
    ∀ p ∈ (lrun v Z C (linit st ans) as).2, p.count = p.recs.length := by
  obtain ⟨h1, h2⟩ := loop_refines v Z C hr st ans as
  rw [h1, h2]
  exact ⟨exactly_once_queue_path v Z C hr st ans _ (absHist_no_append v Z C as _),
         count_matches v Z C hr st ans _⟩
where
  absHist_no_append (v : Variant) (Z : Zip) (C : Codec ρ) (as : List (Act ρ)) :
      ∀ l : LState ρ, directAppends (absHist v Z C l as) = [] := by
    induction as with
    | nil => intro l; rfl
    | cons a as ih =>
      intro l
      simp only [absHist, directAppends_append, ih, List.append_nil]
      cases a with
      | add r => rfl
      | sendDirect rs => rfl
      | applyConfig c => rfl
      | cancel => rfl
      | select k => simp only [absAct]; split <;> rfl
      | poll =>
        simp only [absAct]
        split
        · split <;> rfl
        · rfl

include hr in
/-- **the waiting-time clause over arbitrary clock readings**: the loop at its `select` reads the clock
    (`t0`) and enters GetTimeout with the waiting time in force; nothing is queued and the producers
    are silent; the rounds read the clock at arbitrary values `nows` before the deadline (the clock may
    stand still or jump back) and then at some `t1` at or after it.  The batch is flushed in that last
    round and not before, and `t1 - t0` is at least the waiting time in force. -/
theorem loop_idle_timeout_flushes (l : LState ρ) (t0 t1 : Int) (nows : List Int) (hpc : l.pc = .top)
    (hc : l.cancelled = false) (hq : l.core.queue = [])
    (hb : ∀ n ∈ nows, n < t0 + l.core.settings.maxWait) (hd : t0 + l.core.settings.maxWait ≤ t1) :
    let r := lrun v Z C l (.select t0 :: (nows.map .poll ++ [.poll t1]))
    r.1.core.bufLen = 0 ∧ r.1.pc = .top ∧ r.2 = (sendAndClear v Z C l.core).2 ∧
    t1 - t0 ≥ l.core.settings.maxWait :=
  idle_timeout_flushes v Z C hr l t0 t1 nows hpc hc hq hb hd

/-- the idle flush, both directions, for one round of GetTimeout: with nothing queued the round that
    reads the clock `now` flushes exactly when `timeto ≤ now`; earlier rounds change nothing -/
theorem loop_idle_flush_iff_due (l : LState ρ) (timeto now : Int) (hpc : l.pc = .polling timeto) (hq : l.core.queue = []) :
    (timeto ≤ now → lstep v Z C l (.poll now) =
        ({ l with core := (sendAndClear v Z C l.core).1, pc := .top }, (sendAndClear v Z C l.core).2)) ∧
    (now < timeto → lstep v Z C l (.poll now) = (l, [])) :=
  idle_flush_iff_due v Z C l timeto now hpc hq

/-- GetTimeout always returns once the clock has reached the deadline, whatever happened before -/
theorem loop_due_poll_returns (l : LState ρ) (timeto now : Int) (hpc : l.pc = .polling timeto) (hd : timeto ≤ now) :
    (lstep v Z C l (.poll now)).1.pc = .top :=
  due_poll_returns v Z C l timeto now hpc hd

include hr in
/-- **the size and time clauses over whole histories** (no configuration update in the history; any
    client answers, any failing records): in every reachable state the batch under construction is
    below the buffer limit in force (or empty), and every record in it is younger than the waiting
    time in force, counted from the batch's first record (`firstTime`; a record with time 0 does not
    start the count — the code's sentinel) -/
theorem batch_within_limits (hne : ∀ r, C.enc r ≠ []) (st : Settings) (ans : List Bool) (h : List (In ρ))
    (hc : ∀ i ∈ h, isConfig i = false) :
    let s := final v Z C (init st ans) h
    ((s.bufLen : Int) < st.maxBuf ∨ s.bufLen = 0) ∧
    (s.firstTime = 0 → ∀ r ∈ s.buf, C.time r = 0) ∧
    (s.firstTime ≠ 0 → ∀ r ∈ s.buf, C.time r = 0 ∨ C.time r = s.firstTime ∨ C.time r - s.firstTime < st.maxWait) := by
  have hb := history_BInv v Z C hr hne h (init st ans) hc (BInv_init C st ans)
  have hs := (settings_const v Z C h hr (init st ans) hc).1
  unfold BInv at hb
  rw [hs] at hb
  exact hb

include hr in
/-- **… across configuration updates**: take ANY history `h` — configuration updates anywhere in it —
    that ends with nothing buffered (at the start, or right after a flush by size, by time, by the idle
    timeout), and any continuation `h'` without a further update: in the state reached the batch under
    construction is within the buffer limit and the waiting time *in force*, i.e. those the last update
    of `h` put in force (`lim`).  (While a batch is under construction an update may lower the limits
    below what is already buffered; the code re-examines the batch at the next `Append`, which is what
    `flush_on_append` states for arbitrary settings.)  `batch_within_limits` is the case `h = []`. -/
theorem batch_within_limits_after_reconfig (hne : ∀ r, C.enc r ≠ []) (st : Settings) (ans : List Bool) (h h' : List (In ρ))
    (h0 : (final v Z C (init st ans) h).bufLen = 0) (hc : ∀ i ∈ h', isConfig i = false) :
    let lim := (final v Z C (init st ans) h).settings
    let s := final v Z C (init st ans) (h ++ h')
    ((s.bufLen : Int) < lim.maxBuf ∨ s.bufLen = 0) ∧
    (s.firstTime = 0 → ∀ r ∈ s.buf, C.time r = 0) ∧
    (s.firstTime ≠ 0 → ∀ r ∈ s.buf, C.time r = 0 ∨ C.time r = s.firstTime ∨ C.time r - s.firstTime < lim.maxWait) := by
  intro lim s
  have hb0 : (final v Z C (init st ans) h).buf = [] := flushed_means_empty v Z C hr hne st ans h h0
  have hB : BInv C (final v Z C (init st ans) h) := by
    refine ⟨Or.inr h0, ?_, ?_⟩ <;> intro _ r hr' <;> simp [hb0] at hr'
  have hb := history_BInv v Z C hr hne h' _ hc hB
  have hs := (settings_const v Z C h' hr (final v Z C (init st ans) h) hc).1
  rw [← final_append] at hb hs
  unfold BInv at hb
  rw [hs] at hb
  exact hb

/-- cancellation (repaired code): at its next `select` the loop drains the queue into the last
    batch, flushes it and returns -/
theorem loop_cancel_exits (l : LState ρ) (k : Int) (hi : LInv l) (hpc : l.pc = .top) (hc : l.cancelled = true) :
    let l' := (lstep .fixed Z C l (.select k)).1
    l'.pc = .exited ∧ l'.core.queue = [] ∧ l'.core.bufLen = 0 ∧ l'.core.stopped = true :=
  cancel_exits .fixed Z C rfl rfl l k hi hpc hc

/-- **the stop clause over the schedules of the real loop** (repaired code): after ANY schedule `as` —
    producers, SendDirect callers, configuration updates, clock readings interleaved at will — that leaves
    the loop at its `select` with the context cancelled, the next `select` exits the loop, and at that
    moment the shared packs handed over hold exactly the serialisable records the queue ever accepted,
    in order: nothing is left in the queue or in the batch -/
theorem loop_exit_emits_everything (hne : ∀ r, C.enc r ≠ []) (st : Settings) (ans : List Bool) (as : List (Act ρ)) (k : Int)
    (hpc : (lrun .fixed Z C (linit st ans) as).1.pc = .top) (hc : (lrun .fixed Z C (linit st ans) as).1.cancelled = true) :
    (lrun .fixed Z C (linit st ans) (as ++ [.select k])).1.pc = .exited ∧
    sharedRecs (lrun .fixed Z C (linit st ans) (as ++ [.select k])).2 =
      good C (accepted .fixed Z C (init st ans) (absHist .fixed Z C (linit st ans) (as ++ [.select k]))) :=
  exit_emits_everything .fixed Z C rfl rfl hne st ans as k hpc hc

/-- the verification hook `StepForVerif` that the deterministic harness drives is exactly one
    iteration of the modelled loop in which the first round already finds the deadline reached -/
theorem hook_step_is_loop_body (l : LState ρ) (t : Int) (hi : LInv l) (hpc : l.pc = .top) (hc : l.cancelled = false) :
    lrun v Z C l [.select t, .poll (t + l.core.settings.maxWait)] = hookStep v Z C l :=
  hookStep_is_loop_body v Z C l t hi hpc hc

/-! ### the pack on the wire and at the receiver (ZipPack.Write / Read / GetRecords / SetRecords) -/

/-- **ZipPack.Write → ZipPack.Read**: the client transmits the pack with `pack.WritePack` (type code
    0x170b, header, status byte, decimal record count, blob); whatever header `hdr` the transmitting side
    stamped it with and whatever follows in the stream (`rest`), `pack.ReadPack` — with the reader layout
    regenerated from `ZipPack.Read` — delivers the same header, status, record count and payload, and
    leaves `rest`.  Guards: the Go field ranges (count an int64, payload a blob below 2 GiB). -/
theorem transmitted_pack_reads_back (fac : Packs.Factory) (hf : Wire.FacZ fac) (hdr : Layout.Hdr) (hh : hdr.WF)
    (p : Pack ρ) (rest : Bytes) (hc : (p.count : Int) < 9223372036854775808) (hl : p.payload.length < 2147483648) :
    Wire.unwire fac (Wire.wirePack hdr p ++ rest) = some (⟨hdr, Wire.statusOf p, p.count, p.payload⟩, rest) := by
  have hw : Wire.WFZip hdr (Wire.statusOf p) p.count p.payload := by
    refine ⟨hh, ?_, ?_, hl⟩
    · unfold Wire.statusOf; split <;> omega
    · rw [Prim.inRange_8]; omega
  exact Wire.unwire_wire fac hf hdr _ _ _ rest hw

/-- **end to end, through the wire**: every pack the sender emits (records = LogSinkPacks in C03's
    layout), transmitted with `WritePack`, received with `ReadPack`, decompressed when `Status == ZIPPED`
    and opened with `ZipPack.GetRecords`, yields exactly the sender's records of that pack, in order,
    each stamped with the container's Pcode/Oid/Okind/Onode — for every history, every client answer,
    every settings, any trailing bytes.  Hypotheses: gzip round-trips (`Unzip`), the records are within
    the writer's guards, the Go field ranges of the container. -/
theorem receiver_end_to_end (hr : v.sound = true) (U : Unzip Z) (fac : Packs.Factory) (hf : LogSink.Fac fac)
    (hz : Wire.FacZ fac) (hdr : Layout.Hdr) (hh : hdr.WF) (st : Settings) (ans : List Bool)
    (h : List (In Layout.Rec)) (rest : Bytes) :
    ∀ p ∈ emitted v Z LogSink.codec (init st ans) h, (∀ x ∈ p.recs, LogSink.WFRec x) →
      (p.count : Int) < 9223372036854775808 → p.payload.length < 2147483648 →
      Wire.receive U fac (Wire.wirePack hdr p ++ rest)
        = some (p.recs.map (fun x => Packs.stamp hdr (LogSink.pv x).carried), rest) := by
  intro p hp hw hc hl
  rw [Wire.receive_wirePack U fac hz hdr p rest hh hc hl,
    receiver_gets_records v Z hr U fac hf hdr st ans h p hp hw]
  rfl

/-- **ZipPack.SetRecords**: an uncompressed pack of the sender is what `SetRecords(records)` makes of a
    fresh ZipPack (C03's `Zip.setRecords`: `RecordCount = len(items)`, `Records` = the packs written one
    after the other) — the sender's incremental batching and the library's own container writer agree -/
theorem emitted_is_setRecords (hr : v.sound = true) (hdr : Layout.Hdr) (st : Settings) (ans : List Bool)
    (h : List (In Layout.Rec)) :
    ∀ p ∈ emitted v Z LogSink.codec (init st ans) h, p.zipped = false →
      (⟨hdr, p.payload, p.count⟩ : Packs.Zip) = Packs.Zip.setRecords ⟨hdr, [], 0⟩ (p.recs.map LogSink.pv) := by
  intro p hp hz
  obtain ⟨hpay, hcnt⟩ := payload_is_c03_encoding v Z hr st ans h p hp
  simp only [hz, Bool.false_eq_true, if_false] at hpay
  simp only [Packs.Zip.setRecords, List.length_map, hpay, hcnt]

/-! ### SetTcpClient: the client can be replaced at any time -/

/-- forgetting who received what, a history with `SetTcpClient` calls anywhere in it reaches the state
    and hands over the packs (with the settings in force) of the history without them: the switch
    changes nothing but the destination, so **every theorem of this file holds across client switches** -/
theorem set_client_is_transparent (s : State ρ) (k : Nat) (h : List (CIn ρ)) :
    (crun v Z C s k h).1.1 = final v Z C s (erase h) ∧
    (crun v Z C s k h).2.map (fun x => (x.settings, x.pack)) = (run v Z C s (erase h)).2 :=
  crun_erase v Z C h s k

/-- a switch in the middle of any history (`h1`, then `SetTcpClient(c_k')`, then `h2` without switches):
    the hand-overs before it stand, the switch hands nothing over, and every pack handed over afterwards
    — the batch that was under construction included — goes to the new client -/
theorem set_client_switch (s : State ρ) (k k' : Nat) (h1 h2 : List (CIn ρ)) (hn : ∀ i ∈ h2, isSwitch i = false) :
    (crun v Z C s k (h1 ++ .setClient k' :: h2)).2 =
      (crun v Z C s k h1).2 ++ (crun v Z C (crun v Z C s k h1).1.1 k' h2).2 ∧
    (∀ x ∈ (crun v Z C (crun v Z C s k h1).1.1 k' h2).2, x.dest = k') ∧
    (crun v Z C s k (h1 ++ .setClient k' :: h2)).1.2 = k' :=
  crun_switch v Z C h1 h2 k' hn s k

include hr in
/-- exactly once and in order **across all clients**: the records of the shared packs, taken in
    hand-over order whichever client received them, followed by the batch under construction, are the
    serialisable records fed to `Append`, `fed` being a merge of the dequeued and the directly appended ones -/
theorem exactly_once_across_clients (st : Settings) (ans : List Bool) (k : Nat) (h : List (CIn ρ)) :
    ∃ deq fed, deq ++ (crun v Z C (init st ans) k h).1.1.queue = accepted v Z C (init st ans) (erase h) ∧
      Interleave deq (directAppends (erase h)) fed ∧
      sharedRecs (cemitted v Z C (init st ans) k h) ++ (crun v Z C (init st ans) k h).1.1.buf.reverse = good C fed := by
  rw [cemitted_erase, (crun_erase v Z C h (init st ans) k).1]
  exact exactly_once_in_order v Z C hr st ans (erase h)

/-! ### defaults and configuration -/

/-- a sender created without size/time options runs with 5 s, 1000 records, 64 KiB, 100 bytes -/
theorem defaults_in_force : resolve .fixed ⟨0, 0, 0, 0⟩ = ⟨5000, 1000, 65536, 100⟩ := by decide

theorem defaults_are : defaults = ⟨5000, 1000, 1024 * 64, 100⟩ := rfl

/-- construction in general: a positive option wins, anything else keeps the default -/
theorem options_override (o : Settings) : resolve .fixed o =
    ⟨if o.maxWait > 0 then o.maxWait else 5000, if o.queueCap > 0 then o.queueCap else 1000,
     if o.maxBuf > 0 then o.maxBuf else 65536, if o.zipMin > 0 then o.zipMin else 100⟩ :=
  resolve_fixed o

/-- after `ApplyConfig c` the four settings are those of `c` (absent keys: the fall-backs
    written in `ApplyConfig`: 2000 ms, 1000, 64 KiB, 100) … -/
theorem config_overrides (s : State ρ) (c : Conf) :
    (stepIn v Z C s (.applyConfig c)).1.settings = c.resolve ∧ (stepIn v Z C s (.applyConfig c)).2 = [] :=
  ⟨rfl, rfl⟩

theorem config_present (q w b z : Int) : (Conf.mk (some q) (some w) (some b) (some z)).resolve = ⟨w, q, b, z⟩ := rfl

theorem config_absent : (Conf.mk none none none none).resolve = ⟨2000, 1000, 65536, 100⟩ := rfl

include hr in
/-- … and they stay in force for every pack built until the next configuration update -/
theorem config_stays (s : State ρ) (c : Conf) (h : List (In ρ)) (hc : ∀ i ∈ h, isConfig i = false) :
    ∀ x ∈ (run v Z C (stepIn v Z C s (.applyConfig c)).1 h).2, x.1 = c.resolve :=
  (settings_const v Z C h hr _ hc).2

include hr in
/-- no operation other than `ApplyConfig` touches the settings -/
theorem settings_stable (s : State ρ) (h : List (In ρ)) (hc : ∀ i ∈ h, isConfig i = false) :
    (final v Z C s h).settings = s.settings := (settings_const v Z C h hr s hc).1

/-! ### witnesses: the code as found violates the property (candidate defects D31–D33)

  concrete instance: a record is (time, encoded bytes); gzip is modelled by prefixing a byte -/

def xC : Codec (Int × Bytes) := ⟨(·.2), (·.1), fun _ => false⟩
/-- the same, where a record without bytes stands for one that cannot be serialised -/
def fC : Codec (Int × Bytes) := ⟨(·.2), (·.1), fun r => r.2.isEmpty⟩
def xZ : Zip := ⟨fun b => 31 :: b⟩
def xU : Unzip xZ := ⟨fun b => b.tail?, fun _ => rfl⟩

/-- D31: `GetInstance` assigns the defaults and then overwrites them with the option struct,
    whose four fields no exported option can set: buffer 0, wait 0, zip-min 0, queue 0 -/
theorem finding_D31 : resolve .asFound ⟨0, 0, 0, 0⟩ = ⟨0, 0, 0, 0⟩ ∧ resolve .asFound ⟨0, 0, 0, 0⟩ ≠ defaults := by
  decide

/-- consequence of D31: with the limits at zero every record leaves in a pack of its own,
    compressed — no batching at all -/
theorem finding_D31_no_batching :
    (emitted .asFound xZ xC (init (resolve .asFound ⟨0, 0, 0, 0⟩))
      [.append (1000, [1, 2]), .append (1001, [3]), .append (1002, [4, 5])]).map (fun p => (p.count, p.zipped))
      = [(1, true), (1, true), (1, true)] := by decide

def d32History : List (In (Int × Bytes)) := [.append (1000, [1, 2, 3]), .step]

/-- D32: an uncompressed pack handed over by `sendAndClear` is a view of the reusable buffer;
    the next record overwrites what the client retained -/
theorem finding_D32 :
    (emitted .asFound xZ xC (init defaults) d32History).map (fun p => (p.ref, p.payload)) = [(.sharedBuf, [1, 2, 3])] ∧
    (emitted .asFound xZ xC (init defaults) d32History).map
      (view xC (final .asFound xZ xC (init defaults) d32History)) = [[1, 2, 3]] ∧
    (emitted .asFound xZ xC (init defaults) d32History).map
      (view xC (final .asFound xZ xC (init defaults) (d32History ++ [.append (1001, [9, 9, 9])]))) = [[9, 9, 9]] := by
  decide

/-- the same at the `SendDirect` site: the first pack is overwritten within the same call -/
theorem finding_D32_direct :
    let h : List (In (Int × Bytes)) := [.sendDirect [(1, [1, 2]), (2, [3, 4]), (3, [5])]]
    let st : Settings := ⟨5000, 1000, 2, 100⟩
    (emitted .asFound xZ xC (init st) h).map (·.payload) = [[1, 2], [3, 4], [5]] ∧
    (emitted .asFound xZ xC (init st) h).map (view xC (final .asFound xZ xC (init st) h)) = [[5, 4], [5, 4], [5]] := by
  decide

/-- the repaired code on the same histories -/
theorem fixed_D32 :
    (emitted .fixed xZ xC (init defaults) d32History).map
      (view xC (final .fixed xZ xC (init defaults) (d32History ++ [.append (1001, [9, 9, 9])]))) = [[1, 2, 3]] := by
  decide

def d33History : List (In (Int × Bytes)) := [.add (1000, [1]), .add (1001, [2]), .step, .stop]

/-- D33: a record still queued at cancellation is never emitted: the loop has returned
    (every later `step`/`stop` is inert) and the record sits in the queue -/
theorem finding_D33 :
    sharedRecs (emitted .asFound xZ xC (init defaults) d33History) = [(1000, [1])] ∧
    (final .asFound xZ xC (init defaults) d33History).queue = [(1001, [2])] ∧
    (final .asFound xZ xC (init defaults) d33History).stopped = true := by
  decide

theorem stopped_is_final (s : State ρ) (hs : s.stopped = true) :
    step v Z C s = (s, []) ∧ stop v Z C s = (s, []) := stopped_inert v Z C s hs

theorem fixed_D33 :
    sharedRecs (emitted .fixed xZ xC (init defaults) d33History) = [(1000, [1]), (1001, [2])] ∧
    (final .fixed xZ xC (init defaults) d33History).queue = [] := by
  decide

/-! ### non-vacuity -/

/-- a record codec satisfying the `Decoder` hypothesis: 8-byte time, then a length-prefixed blob -/
def yC : Codec (Int × Bytes) := ⟨fun r => Prim.encI 8 r.1 ++ Prim.encBlob r.2, (·.1), fun _ => false⟩

def yD : Decoder yC :=
  Decoder.ofP (P.bind (Prim.rdI 8) (fun t => P.bind Prim.decBlob (fun b => .pure (t, b))))
    (fun r => Prim.inRange 8 r.1 ∧ r.2.length < 2147483648) (by
    intro r rest hw
    show P.run _ ((Prim.encI 8 r.1 ++ Prim.encBlob r.2) ++ rest) = _
    rw [List.append_assoc, P.run_bind_some _ _ _ _ _ (Prim.run_rdI 8 r.1 _ hw.1),
      P.run_bind_some _ _ _ _ _ (Prim.run_decBlob r.2 rest hw.2)]
    rfl)

theorem yC_nonempty : ∀ r : Int × Bytes, yC.enc r ≠ [] := by
  intro r h
  have : (yC.enc r).length = 0 := by rw [h]; rfl
  simp [yC, Prim.encI_length] at this

/-- a history that exercises size flush, time flush, idle flush, both compression outcomes,
    SendDirect and a configuration update -/
def demo : List (In (Int × Bytes)) :=
  [.add (1000, [1, 2, 3]), .add (1001, [4, 5]), .step, .step,                -- 5 bytes ≥ maxBuf 5 → flush
   .add (1002, [6]), .step, .add (9000, [7]), .step,                          -- 9000−1002 ≥ 5000 → flush
   .add (9001, [8]), .step, .step,                                            -- idle flush
   .sendDirect [(1, [1, 1, 1]), (2, [2, 2, 2]), (3, [3])],
   .applyConfig ⟨none, none, some 100, some 0⟩, .append (9002, [9]), .stop]

example : (emitted .fixed xZ xC (init ⟨5000, 1000, 5, 3⟩) demo).map (fun p => (p.src, p.recs.map (·.1), p.count, p.zipped)) =
    [(.shared, [1000, 1001], 2, true), (.shared, [1002, 9000], 2, false), (.shared, [9001], 1, false),
     (.direct, [1, 2], 2, true), (.direct, [3], 1, false), (.shared, [9002], 1, true)] := by decide

/-- the hypotheses of `decodable` are satisfiable: instance with `yC`, `yD`, `xU` -/
example (st : Settings) (ans : List Bool) (h : List (In (Int × Bytes))) :=
  decodable .fixed xZ yC rfl xU yD st ans h

/-- … and its well-formedness side condition holds for ordinary records -/
example : yD.wf (1700000000000, [1, 2, 3]) := by
  show Prim.inRange 8 _ ∧ _
  exact ⟨(Prim.inRange_8 _).mpr (by omega), by decide⟩

/-- `decodable_logsink` is not vacuous: the factory `fac0` qualifies, gzip-as-prefix is an `Unzip` -/
example (st : Settings) (ans : List Bool) (h : List (In Layout.Rec)) :=
  decodable_logsink .fixed xZ rfl xU LogSink.fac0 LogSink.fac0_ok st ans h

/-- unserialisable records at every position of a batch (first, middle, last, alone, two in a row,
    right before a size flush and before the stop): counts match and only the good records come out -/
example : (emitted .fixed xZ fC (init ⟨5000, 1000, 4, 3⟩)
      [.add (1, []), .add (2, [1]), .add (3, []), .add (4, [2]), .add (5, []), .step, .step, .step, .step, .step, .step,
       .add (6, []), .step, .step, .append (7, []), .append (8, []), .append (9, [3]), .add (10, []), .append (11, [4, 5, 6]),
       .add (12, [7]), .add (13, []), .stop]).map (fun p => (p.count, p.recs.map (·.1))) =
    [(2, [2, 4]), (2, [9, 11]), (1, [12])] := by decide

/-- a faulting client on a concrete history: every hand-over answered with an error, same packs -/
example : (emitted .fixed xZ xC (init ⟨5000, 1000, 5, 3⟩ [false, false, false, false, false, false]) demo).map (·.recs) =
    (emitted .fixed xZ xC (init ⟨5000, 1000, 5, 3⟩) demo).map (·.recs) := by decide

/-- a schedule of the loop machine: two producers' records, a GetTimeout whose clock even jumps back
    before it finds the first one, an idle timeout, a cancellation noticed at the next select -/
example : ((lrun .fixed xZ xC (linit ⟨5000, 1000, 100, 3⟩)
      [.select 100, .poll 100, .poll 90, .add (1000, [1, 2]), .poll 5000, .add (1001, [3]), .select 200, .poll 200,
       .select 300, .poll 5299, .poll 5300, .add (1002, [4]), .cancel, .select 9000]).2.map (·.recs)) =
    [[(1000, [1, 2]), (1001, [3])], [(1002, [4])]] := by decide

section
open Layout Packs
/-- a LogSinkPack (tags present, no fields) -/
def demoLS : Layout.Rec := fun k =>
  if k = "Pcode" then .int 7 else if k = "Oid" then .int 31 else if k = "Time" then .int 1700000000000
  else if k = "Category" then .bytes [99, 97, 116] else if k = "TagHash" then .int 0
  else if k = "Tags" then .value (.map [([107], .text [118])]) else if k = "Line" then .int 1
  else if k = "Content" then .bytes [104, 105] else if k = "Fields?" then .int 0
  else if k = "Fields" then .value (.map []) else .int 0

/-- on a concrete LogSinkPack the decoder reads back what the codec wrote (type code 0x170a) and
    leaves what follows; the bytes start `17 0a` (type code), then the short header -/
example : ((LogSink.decoder LogSink.fac0 LogSink.fac0_ok).dec (LogSink.codec.enc demoLS ++ [42])).map (fun x => (x.1.1, x.2)) =
    some (5898, [42]) := by decide +kernel

example : (LogSink.codec.enc demoLS).take 8 = [23, 10, 1, 7, 0, 0, 0, 31] := by decide +kernel

/-- `demoLS` meets the writer's guards: the hypothesis `LogSink.WFRec` of `decodable_logsink` /
    `receiver_gets_records` is satisfiable -/
example : LogSink.WFRec demoLS := by
  unfold LogSink.WFRec
  simp only [Packs.Hand.LogSinkPack.w, Gen.Packs.LogSinkPack.w, Packs.Hand.tagSection, L.WF]
  refine ⟨?_, ?_, ?_, rfl, ?_, ?_, ⟨?_, _, rfl⟩, rfl, ?_, ?_, ?_, rfl, ?_, trivial⟩
  · show Layout.Hdr.WF ⟨7, 31, 0, 0, 1700000000000⟩; decide
  · show (0 : Int) ≤ 0 ∧ (0 : Int) < 256; decide
  · show [99, 97, 116].length < 2147483648; decide
  · show Prim.inRange 8 0; decide
  · show Prim.inRange 8 0; decide
  · show Value.WFV (.map [([107], .text [118])]); decide
  · show Prim.inRange 8 1; decide
  · show Prim.inRange 8 1; decide
  · show [104, 105].length < 2147483648; decide
  · intro h; exact absurd h (by decide)


/-- `receiver_gets_records` instantiated (factory `fac0`, gzip-as-prefix) -/
example (st : Settings) (ans : List Bool) (h : List (In Layout.Rec)) :=
  receiver_gets_records .fixed xZ rfl xU LogSink.fac0 LogSink.fac0_ok ⟨1, 2, 0, 0, 3⟩ st ans h

/-- the hypotheses of `all_emitted_at_stop` are met by a running sender with a non-empty codec -/
example : (final .fixed xZ yC (init defaults) [.add (1, [1]), .append (2, [2])]).stopped = false := by decide
example := all_emitted_at_stop xZ yC yC_nonempty defaults [] [.add (1, [1]), .append (2, [2])] (by decide)

/-- a factory as `CreatePack` is: LogSinkPack and ZipPack readers under their type codes -/
def facLZ : Packs.Factory := fun c =>
  if c = LogSink.code then some Gen.Packs.LogSinkPack.r else if c = Wire.zipCode then some Gen.Packs.ZipPack.r else none

/-- `receiver_end_to_end` instantiated: its factory hypotheses are satisfiable together -/
example (st : Settings) (ans : List Bool) (h : List (In Layout.Rec)) (rest : Bytes) :=
  receiver_end_to_end .fixed xZ rfl xU facLZ (by simp [LogSink.Fac, facLZ]) (by simp [Wire.FacZ, facLZ, LogSink.code, Wire.zipCode])
    ⟨1, 2, 0, 0, 3⟩ (by decide) st ans h rest

/-- the wire form of a concrete pack (2 records, uncompressed, payload `[1,2,3]`), followed by `[42]`:
    type code 17 0b, short header, status 0, decimal 2, blob; it reads back and leaves `[42]` -/
example : Wire.wire ⟨7, 31, 0, 0, 5⟩ 0 2 [1, 2, 3] = [23, 11, 1, 7, 0, 0, 0, 31, 0, 0, 0, 0, 0, 0, 0, 5, 0, 1, 2, 3, 1, 2, 3] := by
  decide +kernel
example : (Wire.unwire Wire.facZ (Wire.wire ⟨7, 31, 9, 0, 5⟩ 1 2 [1, 2, 3] ++ [42])).map (fun x => (x.1.hdr, x.1.status, x.1.count, x.1.records, x.2)) =
    some (⟨7, 31, 9, 0, 5⟩, 1, 2, [1, 2, 3], [42]) := by decide +kernel

/-- `transmitted_pack_reads_back` on a concrete pack (long header form, one record, trailing byte) -/
example := transmitted_pack_reads_back (ρ := Int × Bytes) Wire.facZ Wire.facZ_ok ⟨7, 31, 9, 0, 5⟩ (by decide)
  ⟨.shared, [(1, [1])], 1, false, [1], .owned⟩ [42] (by decide) (by decide)

/-- `set_client_switch` instantiated: a batch started under client 0, the switch, then the stop -/
example := set_client_switch .fixed xZ xC (init defaults) 0 1 [.op (.append (1, [1]))] [.op .stop] (by decide)

/-- `emitted_is_setRecords` / `exactly_once_across_clients` instantiated -/
example (st : Settings) (ans : List Bool) (h : List (In Layout.Rec)) := emitted_is_setRecords .fixed xZ rfl ⟨1, 2, 0, 0, 3⟩ st ans h
example (st : Settings) (ans : List Bool) (h : List (CIn (Int × Bytes))) := exactly_once_across_clients .fixed xZ xC rfl st ans 0 h

/-- client switches on a concrete history: the batch started under client 0 is flushed to client 1,
    the SendDirect packs after the second switch go to client 2; nothing twice -/
example : ((crun .fixed xZ xC (init ⟨5000, 1000, 5, 3⟩) 0
      [.op (.append (1000, [1, 2])), .setClient 1, .op (.append (1001, [3, 4, 5])), .op (.append (1002, [6])),
       .setClient 2, .op (.sendDirect [(1, [1, 1, 1, 1, 1]), (2, [2])]), .op .stop]).2.map
        (fun x => (x.dest, x.pack.recs.map (·.1)))) =
    [(1, [1000, 1001]), (2, [1]), (2, [2]), (2, [1002])] := by decide

/-- `loop_exit_emits_everything` instantiated: a schedule that ends at the `select` with the context
    cancelled while records are queued and a batch is under construction -/
example := loop_exit_emits_everything xZ yC yC_nonempty defaults []
  [.add (1, [1]), .select 0, .poll 0, .add (2, [2]), .add (3, [3]), .cancel] 7 (by decide) (by decide)

/-- `batch_within_limits_after_reconfig` instantiated: two updates, a flush, then records under the new limits -/
example := batch_within_limits_after_reconfig .fixed xZ yC rfl yC_nonempty ⟨50, 1000, 100, 3⟩ [false, true]
  [.append (1000, [1]), .applyConfig ⟨none, some 10, some 30, none⟩, .append (1001, [2]), .applyConfig ⟨none, some 7, some 20, some 0⟩, .step, .step]
  [.add (1010, [2, 3]), .step, .sendDirect [(1, [4])]] (by decide) (by decide)

/-- `batch_within_limits` instantiated: no configuration update in the history -/
example := batch_within_limits .fixed xZ yC rfl yC_nonempty ⟨50, 1000, 100, 3⟩ [false, true]
  [.add (1000, [1]), .step, .append (1010, [2, 3]), .sendDirect [(1, [4])], .stop] (by decide)

end

end C16
