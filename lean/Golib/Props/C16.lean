/-
  Property C16 — log-sink zip batching emits every record exactly once, in order, decodably.

  Statements about the CodeModel `Golib.ZipSender.Model` of logsink/zip/ZipSendProxyThread.go;
  the proofs refer to lemmas of `Golib.ZipSender.{Lemmas,History,Theorems}`.

  The model is tied to the Go code by the correspondence harness `harness/c16` (tie B: real
  sender, recording client, stepped and free-running background loop) and by the regenerated
  facts of `Golib.Gen.C16` (tie A: see Golib/Props/C16Gen.lean).

  `Variant.fixed` is the code with the three repairs proposed in /verif/proposed/C16
  (D31 defaults kept, D32 uncompressed payload copied at hand-over, D33 queue drained on stop);
  `Variant.asFound` is the code as found and carries the `finding_*` witnesses.  Theorems
  quantified over `v` hold for both.

  Assumptions appear as structures/hypotheses, never as axioms:
    `Unzip Z`     gzip round-trips            (compress/gzip, not modelled)
    `Decoder C`   the record codec round-trips (LogSinkPack wire format: property C03)
    `∀ r, C.enc r ≠ []`  a record's encoding is not empty (it starts with the 2-byte pack type)
-/
import Golib.ZipSender.Theorems

namespace C16
open ZipSender
open Prim (encMany)

variable {ρ : Type} (v : Variant) (Z : Zip) (C : Codec ρ)

/-! ### every record exactly once, in order -/

/-- For every history from a fresh sender: the queue is FIFO and loses nothing it accepted
    (`deq ++ queue = accepted`), and the records in the emitted batches followed by the batch
    under construction are an order-preserving merge of what the loop dequeued and what was
    passed to `Append` directly — nothing lost, nothing duplicated, nothing reordered. -/
theorem exactly_once_in_order (st : Settings) (h : List (In ρ)) :
    ∃ deq, deq ++ (final v Z C (init st) h).queue = accepted v Z C (init st) h ∧
      Interleave deq (directAppends h)
        (sharedRecs (emitted v Z C (init st) h) ++ (final v Z C (init st) h).buf.reverse) := by
  obtain ⟨deq, fed, h1, h2, h3⟩ := history_inv v Z C h (init st)
  refine ⟨deq, by simpa [init] using h1, ?_⟩
  have : sharedRecs (emitted v Z C (init st) h) ++ (final v Z C (init st) h).buf.reverse = fed := by
    simpa [init] using h3
  rw [this]; exact h2

/-- queue path alone (the sender used through `Add` only):
    emitted ++ buffered ++ queued = accepted, as lists -/
theorem exactly_once_queue_path (st : Settings) (h : List (In ρ)) (hq : directAppends h = []) :
    sharedRecs (emitted v Z C (init st) h) ++ (final v Z C (init st) h).buf.reverse
      ++ (final v Z C (init st) h).queue = accepted v Z C (init st) h := by
  obtain ⟨deq, h1, h2⟩ := exactly_once_in_order v Z C st h
  rw [hq] at h2
  rw [h2.nil_right, h1]

/-- `Append` path alone (the sender used without its queue): emitted ++ buffered = appended -/
theorem exactly_once_append_path (st : Settings) (h : List (In ρ)) (hq : accepted v Z C (init st) h = []) :
    sharedRecs (emitted v Z C (init st) h) ++ (final v Z C (init st) h).buf.reverse = directAppends h := by
  obtain ⟨deq, h1, h2⟩ := exactly_once_in_order v Z C st h
  rw [hq] at h1
  have : deq = [] := (List.append_eq_nil_iff.mp h1).1
  rw [this] at h2
  exact h2.nil_left

/-- `SendDirect`: the packs it hands over hold exactly its arguments, in order -/
theorem exactly_once_direct (hne : ∀ r, C.enc r ≠ []) (s : State ρ) (h : List (In ρ)) :
    directRecs (emitted v Z C s h) = directSent h :=
  history_direct v Z C hne h s

/-- once the (repaired) sender is stopped, everything accepted or appended before has been emitted -/
theorem all_emitted_at_stop (hne : ∀ r, C.enc r ≠ []) (st : Settings) (h : List (In ρ))
    (hs : (final .fixed Z C (init st) h).stopped = false) :
    Interleave (accepted .fixed Z C (init st) (h ++ [.stop])) (directAppends h)
      (sharedRecs (emitted .fixed Z C (init st) (h ++ [.stop]))) :=
  ZipSender.all_emitted_at_stop .fixed Z C rfl hne st h hs

/-! ### per pack: count, payload, compression flag -/

theorem count_matches (st : Settings) (h : List (In ρ)) :
    ∀ p ∈ emitted v Z C (init st) h, p.count = p.recs.length :=
  (history_WF v Z C h (init st) (WF_init C st)).2

/-- the payload, after decompression when flagged, decodes back to exactly the pack's records
    and nothing is left over -/
theorem decodable (U : Unzip Z) (D : Decoder C) (st : Settings) (h : List (In ρ)) :
    ∀ p ∈ emitted v Z C (init st) h, (∀ r ∈ p.recs, D.wf r) → decodePack U D p = some (p.recs, []) := by
  intro p hp hw
  obtain ⟨st', hb⟩ := emitted_built v Z C h (init st) p hp
  exact decode_built U D hb (count_matches v Z C st h p hp) hw

/-- compression is applied exactly when the payload reaches the minimum size in force at
    the moment the pack is built (`x.1` = the settings in force, `x.2` = the pack) -/
theorem zipped_iff (s : State ρ) (h : List (In ρ)) :
    ∀ x ∈ (run v Z C s h).2, (x.2.zipped = true ↔ x.1.zipMin ≤ ((encMany C.enc x.2.recs).length : Int)) :=
  fun x hx => (history_built v Z C h s x hx).zipped_iff

/-- … and without configuration updates the settings in force are the initial ones -/
theorem zipped_iff_const (st : Settings) (h : List (In ρ)) (hc : ∀ i ∈ h, isConfig i = false) :
    ∀ p ∈ emitted v Z C (init st) h, (p.zipped = true ↔ st.zipMin ≤ ((encMany C.enc p.recs).length : Int)) := by
  intro p hp
  obtain ⟨x, hx, rfl⟩ := List.mem_map.mp hp
  have := zipped_iff v Z C (init st) h x hx
  rwa [(settings_const v Z C h (init st) hc).2 x hx] at this

/-! ### flush conditions -/

/-- `Append`: the batch is flushed as soon as the buffer size in force is reached or the
    record is at least the waiting time in force younger than the first one of the batch -/
theorem flush_on_append (s : State ρ) (r : ρ)
    (hm : s.settings.maxBuf ≤ ((s.bufLen + (C.enc r).length : Nat) : Int) ∨
          (s.firstTime ≠ 0 ∧ s.settings.maxWait ≤ C.time r - s.firstTime)) :
    (appendRec v Z C s r).1.bufLen = 0 ∧
    (0 < s.bufLen + (C.enc r).length →
      (appendRec v Z C s r).1.buf = [] ∧ (appendRec v Z C s r).2.map (·.recs) = [s.buf.reverse ++ [r]]) :=
  ⟨append_flushes v Z C s r hm, append_flushes_pack v Z C s r hm⟩

/-- … and only then: otherwise the record is buffered and nothing is handed over -/
theorem no_flush_below_limits (s : State ρ) (r : ρ)
    (hm : ¬ (s.settings.maxBuf ≤ ((s.bufLen + (C.enc r).length : Nat) : Int) ∨
          (s.firstTime ≠ 0 ∧ s.settings.maxWait ≤ C.time r - s.firstTime))) :
    (appendRec v Z C s r).2 = [] ∧ (appendRec v Z C s r).1.buf = r :: s.buf :=
  append_buffers v Z C s r hm

/-- the idle timeout of the queue flushes the batch -/
theorem flush_on_idle (s : State ρ) (hs : s.stopped = false) (hq : s.queue = []) :
    (step v Z C s).1.bufLen = 0 := idle_flushes v Z C s hs hq

/-- stopping flushes the batch, and (repaired code) first drains the queue into it -/
theorem flush_on_stop (s : State ρ) (hs : s.stopped = false) :
    (stop .fixed Z C s).1.bufLen = 0 ∧ (stop .fixed Z C s).1.queue = [] ∧ (stop .fixed Z C s).1.stopped = true :=
  ⟨stop_flushes .fixed Z C s hs, stop_drains .fixed Z C rfl s hs, stop_stopped .fixed Z C s⟩

/-- "no bytes buffered" means "no records buffered" when encodings are non-empty -/
theorem flushed_means_empty (hne : ∀ r, C.enc r ≠ []) (st : Settings) (h : List (In ρ))
    (h0 : (final v Z C (init st) h).bufLen = 0) : (final v Z C (init st) h).buf = [] :=
  buf_nil_of_len C hne _ (history_WF v Z C h (init st) (WF_init C st)).1 h0

/-! ### a pack that has been handed over never changes -/

/-- repaired code: every emitted pack owns its bytes … -/
theorem handed_over_owned (s : State ρ) (h : List (In ρ)) :
    ∀ p ∈ emitted .fixed Z C s h, p.ref = .owned :=
  all_owned .fixed Z C rfl h s

/-- … hence whatever happens later (`h'`), a client that retained the pack still reads the
    payload it was handed -/
theorem handed_over_immutable (st : Settings) (h h' : List (In ρ)) :
    ∀ p ∈ emitted .fixed Z C (init st) h, view C (final .fixed Z C (init st) (h ++ h')) p = p.payload :=
  fun p hp => view_owned C _ p (handed_over_owned Z C (init st) h p hp)

/-- code as found: compressed packs are safe (gzip allocates), and an aliased pack is intact
    at the moment of the hand-over — the damage comes later (`finding_D32`) -/
theorem found_zipped_owned (s : State ρ) (h : List (In ρ)) :
    ∀ p ∈ emitted .asFound Z C s h, p.zipped = true → p.ref = .owned :=
  zipped_owned .asFound Z C h s

theorem found_intact_at_handover (s : State ρ) :
    ∀ p ∈ (sendAndClear .asFound Z C s).2, view C (sendAndClear .asFound Z C s).1 p = p.payload :=
  view_at_handover .asFound Z C s

/-! ### defaults and configuration -/

/-- a sender created without size/time options runs with 5 s, 1000 records, 64 KiB, 100 bytes -/
theorem defaults_in_force : resolve .fixed ⟨0, 0, 0, 0⟩ = ⟨5000, 1000, 65536, 100⟩ := by decide

theorem defaults_are : defaults = ⟨5000, 1000, 1024 * 64, 100⟩ := rfl

/-- construction in general: a positive option wins, anything else keeps the default -/
theorem options_override (o : Settings) : resolve .fixed o =
    ⟨if o.maxWait > 0 then o.maxWait else 5000, if o.queueCap > 0 then o.queueCap else 1000,
     if o.maxBuf > 0 then o.maxBuf else 65536, if o.zipMin > 0 then o.zipMin else 100⟩ :=
  resolve_fixed o

/-- after `ApplyConfig c` the four settings are those of `c` (absent keys: the fall-backs
    written in `ApplyConfig`: 2000 ms, 1000, 64 KiB, 100) … -/
theorem config_overrides (s : State ρ) (c : Conf) :
    (stepIn v Z C s (.applyConfig c)).1.settings = c.resolve ∧ (stepIn v Z C s (.applyConfig c)).2 = [] :=
  ⟨rfl, rfl⟩

theorem config_present (q w b z : Int) : (Conf.mk (some q) (some w) (some b) (some z)).resolve = ⟨w, q, b, z⟩ := rfl

theorem config_absent : (Conf.mk none none none none).resolve = ⟨2000, 1000, 65536, 100⟩ := rfl

/-- … and they stay in force for every pack built until the next configuration update -/
theorem config_stays (s : State ρ) (c : Conf) (h : List (In ρ)) (hc : ∀ i ∈ h, isConfig i = false) :
    ∀ x ∈ (run v Z C (stepIn v Z C s (.applyConfig c)).1 h).2, x.1 = c.resolve :=
  (settings_const v Z C h _ hc).2

/-- no operation other than `ApplyConfig` touches the settings -/
theorem settings_stable (s : State ρ) (h : List (In ρ)) (hc : ∀ i ∈ h, isConfig i = false) :
    (final v Z C s h).settings = s.settings := (settings_const v Z C h s hc).1

/-! ### witnesses: the code as found violates the property (candidate defects D31–D33)

  concrete instance: a record is (time, encoded bytes); gzip is modelled by prefixing a byte -/

def xC : Codec (Int × Bytes) := ⟨(·.2), (·.1)⟩
def xZ : Zip := ⟨fun b => 31 :: b⟩
def xU : Unzip xZ := ⟨fun b => b.tail?, fun _ => rfl⟩

/-- D31: `GetInstance` assigns the defaults and then overwrites them with the option struct,
    whose four fields no exported option can set: buffer 0, wait 0, zip-min 0, queue 0 -/
theorem finding_D31 : resolve .asFound ⟨0, 0, 0, 0⟩ = ⟨0, 0, 0, 0⟩ ∧ resolve .asFound ⟨0, 0, 0, 0⟩ ≠ defaults := by
  decide

/-- consequence of D31: with the limits at zero every record leaves in a pack of its own,
    compressed — no batching at all -/
theorem finding_D31_no_batching :
    (emitted .asFound xZ xC (init (resolve .asFound ⟨0, 0, 0, 0⟩))
      [.append (1000, [1, 2]), .append (1001, [3]), .append (1002, [4, 5])]).map (fun p => (p.count, p.zipped))
      = [(1, true), (1, true), (1, true)] := by decide

def d32History : List (In (Int × Bytes)) := [.append (1000, [1, 2, 3]), .step]

/-- D32: an uncompressed pack handed over by `sendAndClear` is a view of the reusable buffer;
    the next record overwrites what the client retained -/
theorem finding_D32 :
    (emitted .asFound xZ xC (init defaults) d32History).map (fun p => (p.ref, p.payload)) = [(.sharedBuf, [1, 2, 3])] ∧
    (emitted .asFound xZ xC (init defaults) d32History).map
      (view xC (final .asFound xZ xC (init defaults) d32History)) = [[1, 2, 3]] ∧
    (emitted .asFound xZ xC (init defaults) d32History).map
      (view xC (final .asFound xZ xC (init defaults) (d32History ++ [.append (1001, [9, 9, 9])]))) = [[9, 9, 9]] := by
  decide

/-- the same at the `SendDirect` site: the first pack is overwritten within the same call -/
theorem finding_D32_direct :
    let h : List (In (Int × Bytes)) := [.sendDirect [(1, [1, 2]), (2, [3, 4]), (3, [5])]]
    let st : Settings := ⟨5000, 1000, 2, 100⟩
    (emitted .asFound xZ xC (init st) h).map (·.payload) = [[1, 2], [3, 4], [5]] ∧
    (emitted .asFound xZ xC (init st) h).map (view xC (final .asFound xZ xC (init st) h)) = [[5, 4], [5, 4], [5]] := by
  decide

/-- the repaired code on the same histories -/
theorem fixed_D32 :
    (emitted .fixed xZ xC (init defaults) d32History).map
      (view xC (final .fixed xZ xC (init defaults) (d32History ++ [.append (1001, [9, 9, 9])]))) = [[1, 2, 3]] := by
  decide

def d33History : List (In (Int × Bytes)) := [.add (1000, [1]), .add (1001, [2]), .step, .stop]

/-- D33: a record still queued at cancellation is never emitted: the loop has returned
    (every later `step`/`stop` is inert) and the record sits in the queue -/
theorem finding_D33 :
    sharedRecs (emitted .asFound xZ xC (init defaults) d33History) = [(1000, [1])] ∧
    (final .asFound xZ xC (init defaults) d33History).queue = [(1001, [2])] ∧
    (final .asFound xZ xC (init defaults) d33History).stopped = true := by
  decide

theorem stopped_is_final (s : State ρ) (hs : s.stopped = true) :
    step v Z C s = (s, []) ∧ stop v Z C s = (s, []) := stopped_inert v Z C s hs

theorem fixed_D33 :
    sharedRecs (emitted .fixed xZ xC (init defaults) d33History) = [(1000, [1]), (1001, [2])] ∧
    (final .fixed xZ xC (init defaults) d33History).queue = [] := by
  decide

/-! ### non-vacuity -/

/-- a record codec satisfying the `Decoder` hypothesis: 8-byte time, then a length-prefixed blob -/
def yC : Codec (Int × Bytes) := ⟨fun r => Prim.encI 8 r.1 ++ Prim.encBlob r.2, (·.1)⟩

def yD : Decoder yC where
  dec := P.bind (Prim.rdI 8) (fun t => P.bind Prim.decBlob (fun b => .pure (t, b)))
  wf := fun r => Prim.inRange 8 r.1 ∧ r.2.length < 2147483648
  rt := by
    intro r rest hw
    show P.run _ ((Prim.encI 8 r.1 ++ Prim.encBlob r.2) ++ rest) = _
    rw [List.append_assoc, P.run_bind_some _ _ _ _ _ (Prim.run_rdI 8 r.1 _ hw.1),
      P.run_bind_some _ _ _ _ _ (Prim.run_decBlob r.2 rest hw.2)]
    rfl

example : ∀ r : Int × Bytes, yC.enc r ≠ [] := by
  intro r h
  have : (yC.enc r).length = 0 := by rw [h]; rfl
  simp [yC, Prim.encI_length] at this

/-- a history that exercises size flush, time flush, idle flush, both compression outcomes,
    SendDirect and a configuration update -/
def demo : List (In (Int × Bytes)) :=
  [.add (1000, [1, 2, 3]), .add (1001, [4, 5]), .step, .step,                -- 5 bytes ≥ maxBuf 5 → flush
   .add (1002, [6]), .step, .add (9000, [7]), .step,                          -- 9000−1002 ≥ 5000 → flush
   .add (9001, [8]), .step, .step,                                            -- idle flush
   .sendDirect [(1, [1, 1, 1]), (2, [2, 2, 2]), (3, [3])],
   .applyConfig ⟨none, none, some 100, some 0⟩, .append (9002, [9]), .stop]

example : (emitted .fixed xZ xC (init ⟨5000, 1000, 5, 3⟩) demo).map (fun p => (p.src, p.recs.map (·.1), p.count, p.zipped)) =
    [(.shared, [1000, 1001], 2, true), (.shared, [1002, 9000], 2, false), (.shared, [9001], 1, false),
     (.direct, [1, 2], 2, true), (.direct, [3], 1, false), (.shared, [9002], 1, true)] := by decide

/-- the hypotheses of `decodable` are satisfiable: instance with `yC`, `yD`, `xU` -/
example (st : Settings) (h : List (In (Int × Bytes))) :=
  decodable .fixed xZ yC xU yD st h

/-- … and its well-formedness side condition holds for ordinary records -/
example : yD.wf (1700000000000, [1, 2, 3]) := by
  show Prim.inRange 8 _ ∧ _
  exact ⟨(Prim.inRange_8 _).mpr (by omega), by decide⟩

end C16
