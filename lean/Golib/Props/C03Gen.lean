/-
  Property C03 — obligations over the layouts regenerated from lang/pack on every run (tie A).

  `Gen.Packs.T.w` / `T.r` are the transcriptions of T's `Write` and `Read` bodies, made separately
  by xlate/c03.  Each `agree_T` below is decided by evaluation (`decide`); a field dropped, reordered,
  read with another width or into another field, a version gate edited on one side only, makes the
  regenerated data differ and the obligation fail.  With `Layout.agree_roundtrip` (proved once,
  Golib/Layout/Agree.lean) each `agree_T` gives T's round trip for every field value: see
  `C03.pack_roundtrip` in Props/C03.lean.
-/
import Golib.Layout.Agree
import Golib.Packs.Hand
import Golib.Packs.Container
import Golib.Packs.Irregular
import Golib.Layout.Prefix
import Golib.Packs.Caps
import Golib.Layout.HeaderProg
import Golib.Layout.Reencode
import Golib.Gen.PackLayouts

namespace C03Gen
open Layout Gen.Packs

/-! ### packs whose two bodies are both transcribed -/
theorem agree_ActiveStackPack : agrees ActiveStackPack.w ActiveStackPack.r = true := by decide
theorem agree_ErrorSnapPack1 : agrees ErrorSnapPack1.w ErrorSnapPack1.r = true := by decide
theorem agree_RealtimeUserPack : agrees RealtimeUserPack.w RealtimeUserPack.r = true := by decide
theorem agree_TextPack : agrees TextPack.w TextPack.r = true := by decide
theorem agree_StatServicePack : agrees StatServicePack.w StatServicePack.r = true := by decide
theorem agree_StatSqlPack : agrees StatSqlPack.w StatSqlPack.r = true := by decide
theorem agree_StatHttpcPack : agrees StatHttpcPack.w StatHttpcPack.r = true := by decide
theorem agree_StatErrorPack : agrees StatErrorPack.w StatErrorPack.r = true := by decide
theorem agree_StatRemoteIpPack : agrees StatRemoteIpPack.w StatRemoteIpPack.r = true := by decide
theorem agree_StatUserAgentPack : agrees StatUserAgentPack.w StatUserAgentPack.r = true := by decide
theorem agree_ZipPack : agrees ZipPack.w ZipPack.r = true := by decide
theorem agree_LogSinkZipPack : agrees LogSinkZipPack.w LogSinkZipPack.r = true := by decide
theorem agree_ServerInfoPack : agrees ServerInfoPack.w ServerInfoPack.r = true := by decide          -- D24
/-! unregistered pack types with a write/read pair -/
theorem agree_ProfileStepSplitPack : agrees ProfileStepSplitPack.w ProfileStepSplitPack.r = true := by decide
theorem agree_StatTransactionPack : agrees StatTransactionPack.w StatTransactionPack.r = true := by decide
theorem agree_StatTransactionPack1 : agrees StatTransactionPack1.w StatTransactionPack1.r = true := by decide
theorem agree_SMDiskPerfPack : agrees SMDiskPerfPack.w (SMDiskPerfPack.r.forget "Count") = true := by decide
theorem agree_SMNetPerfPack : agrees SMNetPerfPack.w (SMNetPerfPack.r.forget "Count") = true := by decide
theorem agree_SMProcPerfPack : agrees SMProcPerfPack.w SMProcPerfPack.r = true := by decide
theorem agree_SMTCPPerfPack : agrees SMTCPPerfPack.w SMTCPPerfPack.r = true := by decide
theorem agree_SMLogEventPack : agrees SMLogEventPack.w SMLogEventPack.r = true := by decide
theorem agree_SMPingPack : agrees SMPingPack.w SMPingPack.r = true := by decide
theorem agree_SMDownCheckPack : agrees SMDownCheckPack.w SMDownCheckPack.r = true := by decide
theorem agree_SMExtension : agrees SMExtension.w SMExtension.r = true := by decide                    -- D25
/-! element structs and records with their own write/read pair -/
theorem agree_CpuLinux : agrees CpuLinux.w CpuLinux.r = true := by decide
theorem agree_CpuWindow : agrees CpuWindow.w CpuWindow.r = true := by decide
theorem agree_CpuOSX : agrees CpuOSX.w CpuOSX.r = true := by decide                                   -- D26
theorem agree_MemoryLinux : agrees MemoryLinux.w MemoryLinux.r = true := by decide
theorem agree_MemoryWindow : agrees MemoryWindow.w MemoryWindow.r = true := by decide
/-- `DiskPerf.Write` emits the constant 1 where `Read` fills `Count`: `Count` is not carried -/
theorem agree_DiskPerf : agrees DiskPerf.w (DiskPerf.r.forget "Count") = true := by decide
theorem agree_NetPerf : agrees NetPerf.w (NetPerf.r.forget "Count") = true := by decide
theorem agree_ProcNetPerf : agrees ProcNetPerf.w ProcNetPerf.r = true := by decide
theorem agree_ProcFilePerf : agrees ProcFilePerf.w ProcFilePerf.r = true := by decide
theorem agree_ProcPerf : agrees ProcPerf.w ProcPerf.r = true := by decide
theorem agree_TCPPortPerf : agrees TCPPortPerf.w TCPPortPerf.r = true := by decide
theorem agree_SMLogEvent : agrees SMLogEvent.w SMLogEvent.r = true := by decide
theorem agree_TimeCount : agrees TimeCount.w TimeCount.r = true := by decide
theorem agree_SqlRec : agrees SqlRec.w SqlRec.r = true := by decide
theorem agree_HttpcRec : agrees HttpcRec.w HttpcRec.r = true := by decide
theorem agree_ErrorRec : agrees ErrorRec.w ErrorRec.r = true := by decide
theorem agree_DownCheckRec : agrees DownCheckRec.w DownCheckRec.r = true := by decide
/-- transaction records at the three versions in use (2: StatTransactionPack, 4: StatTransactionPack1) -/
theorem agree_TransactionRec_v2 : agrees (TransactionRec.w.subst "version" 2) TransactionRec.r = true := by decide
theorem agree_TransactionRec_v3 : agrees (TransactionRec.w.subst "version" 3) TransactionRec.r = true := by decide
theorem agree_TransactionRec_v4 : agrees (TransactionRec.w.subst "version" 4) TransactionRec.r = true := by decide
/-- … and the reader refuses the old versions 0 and 1, as the writer's comment says -/
theorem TransactionRec_old_refused :
    agrees (TransactionRec.w.subst "version" 1) TransactionRec.r = false ∧
    agrees (TransactionRec.w.subst "version" 0) TransactionRec.r = false := by decide

/-! ### record lists (`SetRecords*` / `GetRecords`): a 16-bit count, then the records -/
open Packs in
theorem agree_records_SqlRec : agrees (recordsW SqlRec.w) (recordsW SqlRec.r) = true := by decide
open Packs in
theorem agree_records_HttpcRec : agrees (recordsW HttpcRec.w) (recordsW HttpcRec.r) = true := by decide
open Packs in
theorem agree_records_ErrorRec : agrees (recordsW ErrorRec.w) (recordsW ErrorRec.r) = true := by decide
open Packs in
theorem agree_records_DownCheckRec : agrees (recordsW DownCheckRec.w) (recordsW DownCheckRec.r) = true := by decide
open Packs in
theorem agree_records_TransactionRec_v2 :
    agrees (recordsW (TransactionRec.w.subst "version" 2)) (recordsW TransactionRec.r) = true := by decide
open Packs in
theorem agree_records_TransactionRec_v3 :
    agrees (recordsW (TransactionRec.w.subst "version" 3)) (recordsW TransactionRec.r) = true := by decide
open Packs in
theorem agree_records_TransactionRec_v4 :
    agrees (recordsW (TransactionRec.w.subst "version" 4)) (recordsW TransactionRec.r) = true := by decide

theorem agree_HitMapPack1 : agrees HitMapPack1.w HitMapPack1.r = true := by decide
theorem agree_ServiceRec : agrees ServiceRec.w ServiceRec.r = true := by decide
open Packs in
theorem agree_records_ServiceRec : agrees (recordsW ServiceRec.w) (recordsW ServiceRec.r) = true := by decide

/-! ### irregular packs: writer and reader layouts written by hand after the Go functions
    (Golib/Packs/Irregular.lean; tied by the correspondence harness and the statement skeletons) -/

open Packs.Irregular in
theorem agree_CounterPack1 : agrees Packs.Irregular.CounterPack1.w Packs.Irregular.CounterPack1.r = true := by decide

/-- both sides transcribed: `SMBasePack.w Cpu Memory` (dynamic dispatch: the layouts of the concrete types are
    parameters) pinned to the OS value, against the reader that binds OS and switches on it -/
def smBaseReader : L := SMBasePack.r
/-- SMBasePack for each OS class the reader knows (Cpu/CpuCore/Memory of the matching layout) -/
theorem agree_SMBasePack_linux : agrees ((SMBasePack.w CpuLinux.w MemoryLinux.w).pin "OS" 1) smBaseReader = true := by decide
theorem agree_SMBasePack_window : agrees ((SMBasePack.w CpuWindow.w MemoryWindow.w).pin "OS" 2) smBaseReader = true := by decide
theorem agree_SMBasePack_osx : agrees ((SMBasePack.w CpuLinux.w MemoryLinux.w).pin "OS" 3) smBaseReader = true := by decide
theorem agree_SMBasePack_hpux : agrees ((SMBasePack.w CpuLinux.w MemoryLinux.w).pin "OS" 4) smBaseReader = true := by decide
theorem agree_SMBasePack_aix : agrees ((SMBasePack.w CpuLinux.w MemoryLinux.w).pin "OS" 5) smBaseReader = true := by decide
/-- known finding `SMBasePack.OS:unsupported-os`: for OS_SUNOS / OPENBSD / FREEBSD (6, 7, 8) the reader has no
    case: what `Write` emits for Cpu / CpuCore / Memory is not consumed -/
theorem finding_SMBasePack_unsupported_os :
    agrees ((SMBasePack.w CpuLinux.w MemoryLinux.w).pin "OS" 6) smBaseReader = false ∧
    agrees ((SMBasePack.w CpuLinux.w MemoryLinux.w).pin "OS" 7) smBaseReader = false ∧
    agrees ((SMBasePack.w CpuLinux.w MemoryLinux.w).pin "OS" 8) smBaseReader = false := by decide

theorem agree_StatGeneralPack : agrees Packs.Irregular.StatGeneralPack.l Packs.Irregular.StatGeneralPack.l = true := by decide
theorem agree_StatGeneralPack1 : agrees Packs.Irregular.StatGeneralPack1.l Packs.Irregular.StatGeneralPack1.l = true := by decide
theorem agree_StatGeneralTable : agrees Packs.Irregular.StatGeneralTable.l Packs.Irregular.StatGeneralTable.l = true := by decide

/-! ### no transcribed reader asks whether the input has ended: `Layout.read_prefix_fails` applies to each -/
theorem generated_readers_tailFree : all.all (fun t => t.2.2.tailFree) = true := by decide
theorem CounterPack1_reader_tailFree : Packs.Irregular.CounterPack1.r.tailFree = true := by decide
/-- SMBasePack's `Available() == 0` test (C04's documented older-version tail) sits inside the blob the
    whole pack travels in: at the pack level a strict prefix still fails (the blob is cut short) -/
theorem SMBasePack_reader_tailFree : smBaseReader.tailFree = true := by decide

/-! ### packs whose bodies are transcribed up to a few statements ("gaps", parameters of the generated layout,
    filled in by hand in Golib/Packs/Hand.lean and pinned by their text): both sides must agree -/
theorem agree_TagCountPack : agrees Packs.Hand.TagCountPack.w TagCountPack.r = true := by decide
theorem agree_TagLogPack : agrees Packs.Hand.TagLogPack.w TagLogPack.r = true := by decide            -- D22
theorem agree_LogSinkPack : agrees Packs.Hand.LogSinkPack.w LogSinkPack.r = true := by decide
theorem agree_ParamPack : agrees Packs.Hand.ParamPack.w Packs.Hand.ParamPack.r = true := by decide
theorem agree_ExtensionPack : agrees Packs.Hand.ExtensionPack.w Packs.Hand.ExtensionPack.r = true := by decide
theorem agree_EventPack_wire : agrees Packs.Hand.EventPack.w Packs.Hand.EventPack.r = true := by decide

/-! ### the common header, INTERPRETED: the statements of `AbstractPack.Write` / `AbstractPack.Read` as regenerated
    (`AbstractPack.wProg` / `rProg`, xlate/c03/header.go) mean, for every header and every input, exactly the
    model the layout IR uses for `.hdr` (`encHeader` / `decHeader`, Golib/Layout/Header.lean) -/

/-- **writer**: for every header whose fields are in their Go types' ranges, what the transcribed statements
    write is `encHeader h` (the `(Okind | Onode) == 0` test is evaluated as a 32-bit bitwise or: `or32Zero_eq`) -/
theorem header_writer_interpreted (h : Hdr) (wf : h.WF) : AbstractPack.wProg.write h = encHeader h := by
  obtain ⟨_, _, h3, h4, _⟩ := wf
  simp [AbstractPack.wProg, WS.write, Hdr.get, or32Zero_eq _ _ h3 h4, encHeader, Hdr.short]

/-- **reader**, as a decoder program (hence on every input, complete or not): running the transcribed
    statements on an object holding `h0` is `decHeaderInto h0` … -/
theorem header_reader_interpreted (h0 : Hdr) : AbstractPack.rProg.toP nenv0 h0 = decHeaderInto h0 := by
  simp [AbstractPack.rProg, RS.toP, NEnv.set, Hdr.set, decHeaderInto]

/-- … and on a fresh object (what `CreatePack` hands to `Read`) it is the `decHeader` of the layout IR -/
theorem header_reader_fresh : AbstractPack.rProg.toP nenv0 hdr0 = decHeader := by
  rw [header_reader_interpreted, decHeaderInto_fresh]

/-- both transcriptions are complete (no statement the translator did not know) -/
theorem header_progs_total : AbstractPack.wProg.total = true := by decide

example : AbstractPack.wProg.write ⟨300, 1, 7, 0, 99⟩ = encHeader ⟨300, 1, 7, 0, 99⟩ :=
  header_writer_interpreted _ (by decide)

/-! ### LogSinkPack's content codec (`GetContentBytes` / `SetContentBytes`, pinned by skeleton) -/
theorem agree_LogSinkContent : agrees Packs.Hand.LogSinkContent.w Packs.Hand.LogSinkContent.r = true := by decide
theorem LogSinkContent_tailFree : Packs.Hand.LogSinkContent.r.tailFree = true := by decide
theorem LogSinkContent_known : Packs.Hand.LogSinkContent.w.known = true := by decide

/-! ### bounded tables: the limits the constructors set (SetMax), as recorded in Golib/Packs/Caps.lean -/
theorem caps_as_recorded : caps = Packs.expectedCaps := by decide

/-! ### the registry -/

/-- the type tag `WritePack` emits for a registered type selects that same type in `CreatePack` -/
theorem registry_consistent :
    registry.all (fun (code, ty) => packType.lookup ty == some code) = true := by decide

/-- no type code is listed twice in the factory -/
theorem registry_codes_distinct : (registry.map (·.1)).Nodup := by decide

/-- pack types that declare a type code the factory maps to *another* type (or to nothing) -/
def unregistered : List String :=
  (packType.filter (fun (ty, code) => registry.lookup code != some ty)).map (·.1)

theorem unregistered_types : unregistered =
    ["ProfileStepSplitPack", "SMBasePack", "SMDiskPerfPack", "SMDownCheckPack", "SMExtension",
     "SMLogEventPack", "SMNetPerfPack", "SMPingPack", "SMProcPerfPack", "SMTCPPerfPack",
     "StatTransactionPack", "StatTransactionPack1"] := by decide

end C03Gen
