/-
  Golib.Props.X02Gen — obligations about the tables and constants re-read from the Go source by
  xlate/x02 (Golib/Gen/X02.lean, regenerated on every run): the models Golib.Ext.* are the generic
  functions instantiated with exactly the regenerated data, for all inputs.
-/
import Golib.Gen.X02
import Golib.Ext.ParamText
import Golib.Ext.ShellArg
import Golib.Ext.UrlUtil
import Golib.Ext.CastMath

namespace X02
open Ext Ext.Str

/-! ### castutil: the type switches -/
section Cast
open Ext.Cast

def row (i : Nat) : Row := Gen.X02.castSwitch.getD i ([], none)

/-- the regenerated switch table is the one the models were written against -/
theorem gen_castSwitch : Gen.X02.castSwitch = switchTable := by decide

/-- every C* function installs `recover()` and tests `val == nil` (so the models are total and nil is zero) -/
theorem gen_cast_guards : Gen.X02.castRecover.all id = true ∧ Gen.X02.castNilTest.all id = true ∧
    Gen.X02.castRecover.length = 6 ∧ Gen.X02.castNilTest.length = 6 := by decide

/-- for every argument: each model computes what the branch selected by the REGENERATED table computes -/
theorem gen_cInt (d : Dyn) : cInt d = cIntBy (branchOf (row 0) d) d := by cases d <;> rfl
theorem gen_cLong (d : Dyn) : cLong d = cLongBy (branchOf (row 1) d) d := by cases d <;> rfl
theorem gen_cFloat (d : Dyn) : cFloat d = cFloatBy (branchOf (row 2) d) d := by cases d <;> rfl
theorem gen_cDouble (d : Dyn) : cDouble d = cDoubleBy (branchOf (row 3) d) d := by cases d <;> rfl
theorem gen_cString (d : Dyn) : cString d = cStringBy (branchOf (row 4) d) d := by cases d <;> rfl
theorem gen_cBool (d : Dyn) : cBool d = cBoolBy (branchOf (row 5) d) d := by cases d <;> rfl

/-- the branch taken by an `int`, `int32` or `float32` argument in the numeric conversions is the
    default clause whose assertion panics -/
theorem gen_other_types_panic (v : Int) (b : Nat) :
    branchOf (row 0) (.int v) = .dfltPanic ∧ branchOf (row 0) (.i32 v) = .dfltPanic ∧
    branchOf (row 1) (.int v) = .dfltPanic ∧ branchOf (row 2) (.f32 b) = .dfltPanic ∧
    branchOf (row 3) (.f32 b) = .dfltPanic := ⟨rfl, rfl, rfl, rfl, rfl⟩

end Cast

/-! ### mathutil.Scale -/

def lookupInt : List (Int × Int) → Int → Option Int
  | [], _ => none
  | (k, v) :: t, n => if k = n then some v else lookupInt t n

/-- `Scale` is the regenerated switch table with the regenerated default, for every argument -/
theorem gen_scale (n : Int) :
    Cast.scale n = (lookupInt Gen.X02.scaleCases n).getD Gen.X02.scaleDefault := by
  unfold Cast.scale Gen.X02.scaleCases Gen.X02.scaleDefault
  simp only [lookupInt]
  by_cases h1 : n = 1
  · subst h1; rfl
  · by_cases h2 : n = 2
    · subst h2; rfl
    · by_cases h3 : n = 3
      · subst h3; rfl
      · have e1 : ¬ (1 : Int) = n := fun e => h1 e.symm
        have e2 : ¬ (2 : Int) = n := fun e => h2 e.symm
        have e3 : ¬ (3 : Int) = n := fun e => h3 e.symm
        simp [h1, h2, h3, e1, e2, e3]

theorem gen_scale_table : Gen.X02.scaleCases = Cast.scaleTable ∧ Gen.X02.scaleDefault = Cast.scaleDefault := by decide

/-! ### paramtext / shellarg constants -/

/-- `NewParamText(t) = NewParamTextBrace(t, "${", "}")` -/
theorem gen_defaultBraces : Gen.X02.defaultBraces = ([36, 123], [125]) := by decide

/-- the tag rule of the model is the generic rule with the regenerated prefix and offset … -/
theorem gen_addTag (s : ShellArg.SA) (a : Bytes) :
    ShellArg.addTag s a =
      if Gen.X02.tagPrefix.isPrefixOf a then { s with tags := ShellArg.put s.tags a (a.drop Gen.X02.tagSkip) } else s := rfl

/-- … the literal offset is the length of the prefix (so the tag value is what follows the prefix) … -/
theorem gen_tagSkip : Gen.X02.tagSkip = Gen.X02.tagPrefix.length := by decide

/-- … and a word is a value iff it does not start with the regenerated marker -/
theorem gen_isVal (w : Bytes) : ShellArg.isVal w = !(Gen.X02.valueMarker.isPrefixOf w) := rfl

/-! ### urlutil: separators, offsets, default ports -/
section Url
open Ext.Url

def sep (i : Nat) : Bytes := (Gen.X02.urlSearches.getD i (false, [])).2
def off (i : Nat) : Nat := Gen.X02.urlOffsets.getD i 0

/-- the searches are Index ?, LastIndex /, Index ://, Index /, Index : — in this order -/
theorem gen_url_search_kinds : Gen.X02.urlSearches.map (·.1) = [false, true, false, false, false] := by decide

theorem gen_splitQ (u : Bytes) : splitQ u =
    match indexOf (sep 0) u with
    | some p => (u.drop (p + off 0), u.take p)
    | none => ([], u) := rfl

/-- `File` is cut at the last occurrence of the one-byte separator `/` (the model's `lastIndexB 47`) -/
theorem gen_file_sep : sep 1 = [47] := by decide

theorem gen_splitProto (u : Bytes) : splitProto u =
    match indexOf (sep 2) u with
    | some p => (u.take p, u.drop (p + off 1))
    | none => ([], u) := rfl

theorem gen_splitPath (u : Bytes) : splitPath u =
    match indexOf (sep 3) u with
    | some p => (u.take p, u.drop p)
    | none => (u, []) := rfl

theorem gen_parsePort (u : Bytes) : parsePort u =
    match indexOf (sep 4) u with
    | some p => (u.take p, u.drop (p + off 2), true)
    | none => (u, [], false) := rfl

/-- default ports: 443 for the protocol literal compared (`https`), 80 otherwise, at both places -/
theorem gen_url_ports : Gen.X02.urlProtocols = [https, https] ∧ Gen.X02.urlPorts = [443, 80, 443, 80] := by decide

end Url

end X02
