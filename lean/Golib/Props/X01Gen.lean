/-
  X01 — tie A: the method bodies of the key types, re-transcribed from the Go source on every run
  (Golib/Gen/X01.lean, by xlate/x01 with go/parser + go/ast), interpreted by Ext.KeySrc and PROVED to be the
  hand-written CodeModel Ext.Keys for ALL inputs.  A change of a field order, multiplier, initial value,
  arithmetic type, compared field, comparison style, offset or width in the Go code changes the generated
  data and breaks one of these obligations.
-/
import Golib.Gen.X01
import Golib.Ext.KeysLemmas

set_option linter.unusedVariables false

namespace X01Gen
open Ext.Keys Ext.KeySrc Prim

/-! ### Hash -/
theorem i2_hash (a : I2) : hashOf Gen.X01.i2 [a.v1, a.v2] = I2.hash a := rfl
theorem i3_hash (a : I3) : hashOf Gen.X01.i3 [a.v1, a.v2, a.v3] = I3.hash a := rfl
theorem l2_hash (a : L2) : hashOf Gen.X01.l2 [a.v1, a.v2] = L2.hash a := rfl
theorem l3_hash (a : L3) : hashOf Gen.X01.l3 [a.v1, a.v2, a.v3] = L3.hash a := rfl
theorem poid_hash (a : POID) : hashOf Gen.X01.poid [a.pcode, a.oid] = POID.hash a := rfl
theorem pkind_hash (a : POID) : hashOf Gen.X01.pkind [a.pcode, a.oid] = POID.hash a := rfl
theorem pkoid_hash (a : PKOID) : hashOf Gen.X01.pkoid [a.pcode, a.okind, a.oid] = PKOID.hash a := rfl
/-- every Hash ends in `return uint(result)` -/
theorem hash_returns :
    [Gen.X01.i2, Gen.X01.i3, Gen.X01.l2, Gen.X01.l3, Gen.X01.poid, Gen.X01.pkind, Gen.X01.pkoid].map (·.hashRet)
      = List.replicate 7 "uint(result)" := by decide

/-! ### Equals -/
theorem i2_equals (a b : I2) : equalsOf Gen.X01.i2 [a.v1, a.v2] [b.v1, b.v2] = I2.equals a b := by
  simp [equalsOf, Gen.X01.i2, I2.equals]
theorem i3_equals (a b : I3) : equalsOf Gen.X01.i3 [a.v1, a.v2, a.v3] [b.v1, b.v2, b.v3] = I3.equals a b := by
  simp [equalsOf, Gen.X01.i3, I3.equals, Bool.and_assoc]
theorem l2_equals (a b : L2) : equalsOf Gen.X01.l2 [a.v1, a.v2] [b.v1, b.v2] = L2.equals a b := by
  simp [equalsOf, Gen.X01.l2, L2.equals]
theorem l3_equals (a b : L3) : equalsOf Gen.X01.l3 [a.v1, a.v2, a.v3] [b.v1, b.v2, b.v3] = L3.equals a b := by
  simp [equalsOf, Gen.X01.l3, L3.equals, Bool.and_assoc]
theorem poid_equals (a b : POID) : equalsOf Gen.X01.poid [a.pcode, a.oid] [b.pcode, b.oid] = POID.equals a b := by
  simp [equalsOf, Gen.X01.poid, POID.equals, bne, Bool.not_not]
theorem pkind_equals (a b : POID) : equalsOf Gen.X01.pkind [a.pcode, a.oid] [b.pcode, b.oid] = POID.equals a b := by
  simp [equalsOf, Gen.X01.pkind, POID.equals, bne, Bool.not_not]
theorem pkoid_equals (a b : PKOID) :
    equalsOf Gen.X01.pkoid [a.pcode, a.okind, a.oid] [b.pcode, b.okind, b.oid] = PKOID.equals a b := by
  simp [equalsOf, Gen.X01.pkoid, PKOID.equals, Bool.and_assoc, bne, Bool.not_not]

/-! ### CompareTo -/
theorem i2_compare (a b : I2) : cmpOf Gen.X01.i2 [a.v1, a.v2] [b.v1, b.v2] = I2.compareTo a b := rfl
theorem i3_compare (a b : I3) : cmpOf Gen.X01.i3 [a.v1, a.v2, a.v3] [b.v1, b.v2, b.v3] = I3.compareTo a b := rfl
theorem l2_compare (a b : L2) : cmpOf Gen.X01.l2 [a.v1, a.v2] [b.v1, b.v2] = L2.compareTo a b := rfl
theorem l3_compare (a b : L3) : cmpOf Gen.X01.l3 [a.v1, a.v2, a.v3] [b.v1, b.v2, b.v3] = L3.compareTo a b := rfl
theorem poid_compare (a b : POID) : cmpOf Gen.X01.poid [a.pcode, a.oid] [b.pcode, b.oid] = POID.compareTo a b := rfl
theorem pkind_compare (a b : POID) : cmpOf Gen.X01.pkind [a.pcode, a.oid] [b.pcode, b.oid] = POID.compareTo a b := rfl
theorem pkoid_compare (a b : PKOID) :
    cmpOf Gen.X01.pkoid [a.pcode, a.okind, a.oid] [b.pcode, b.okind, b.oid] = PKOID.compareTo a b := rfl

/-! ### ToBytes / ToObject -/
theorem i2_tobytes (a : I2) : toBytesOf Gen.X01.i2 [a.v1, a.v2] = some (I2.toBytes a) := by
  simp [toBytesOf, contiguous, Gen.X01.i2, I2.toBytes, encFields]
theorem i3_tobytes (a : I3) : toBytesOf Gen.X01.i3 [a.v1, a.v2, a.v3] = some (I3.toBytes a) := by
  simp [toBytesOf, contiguous, Gen.X01.i3, I3.toBytes, encFields]
theorem l2_tobytes (a : L2) : toBytesOf Gen.X01.l2 [a.v1, a.v2] = some (L2.toBytes a) := by
  simp [toBytesOf, contiguous, Gen.X01.l2, L2.toBytes, encFields]
theorem l3_tobytes (a : L3) : toBytesOf Gen.X01.l3 [a.v1, a.v2, a.v3] = some (L3.toBytes a) := by
  simp [toBytesOf, contiguous, Gen.X01.l3, L3.toBytes, encFields]
/-- ToObject reads field i at the i-th slot, widths 4 4 (4) / 8 8 (8), no gap — the shape of `I2.toObject` … `L3.toObject` -/
theorem toobject_shapes :
    toObjectShape Gen.X01.i2 = some [4, 4] ∧ toObjectShape Gen.X01.i3 = some [4, 4, 4] ∧
    toObjectShape Gen.X01.l2 = some [8, 8] ∧ toObjectShape Gen.X01.l3 = some [8, 8, 8] := by decide
/-- POID / PKIND / PKOID have no byte form -/
theorem no_byte_form : [Gen.X01.poid, Gen.X01.pkind, Gen.X01.pkoid].all (fun s => s.toBytes.isEmpty && s.toObject.isEmpty) = true := by
  decide

/-! ### LINK (text of the bodies, receiver `this`, parameter `o`) -/
theorem link_source : Gen.X01.link =
  { hashRet := "returnuint(this.HashCode())",
    hashCode := "return(hash.Hash(this.IP)|int32(this.Port))",
    equals := ["vark*LINK", "ifo!=nil{k=o.(*LINK)}", "ifcompare.EqualBytes(this.IP,k.IP)==false{returnfalse}",
      "returnthis.Port==k.Port"],
    includes := ["ifcompare.EqualBytes(this.IP,o.IP)==false{returnfalse}", "ifthis.Port==0{returntrue}",
      "returnthis.Port==o.Port"],
    toBytes := ["o.WriteBlob(this.IP)", "o.WriteInt(int32(this.Port))", "returnthis"],
    toObject := ["this.IP=o.ReadBlob()", "this.Port=int(o.ReadInt())", "returnthis"] } := by decide

end X01Gen
