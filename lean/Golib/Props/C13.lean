/-
  Property C13 — typed lists are faithful sequences; sorting yields an ordering permutation.

  Statements only; proofs are references to lemmas of Golib.Lists.*.
  CodeModel: `Lists.TL` (util/list/<T>List.go: size + table + ensure/add/…),
  `Lists.write/read` (wire form), `Lists.Sort.*` (comparator closures of Sorting /
  SortingAnyList / CompareChild), `Lists.Linked.LL` (LinkedList on a node heap).
  Spec: plain `List α`.  `sort.Sort` is a parameter (`Sort.SortContract`).

  The model describes the code with proposed/C13/fix-D43.diff, fix-D44.diff, fix-D45.diff
  applied; the three `finding_*` theorems are about the statements as they stand in /repo.
-/
import Golib.Lists.Run
import Golib.Lists.Wire
import Golib.Lists.Sort
import Golib.Lists.LinkedProof
import Golib.Lists.Multi

namespace C13
open Lists

/-- the objects a caller can start from: the zero value (`new(XList)`, nil table) or
    `NewXList(cap)` / `NewXListDefault()` -/
inductive Fresh {α : Type} (z : α) : TL α → Prop where
  | zeroValue : Fresh z TL.zeroValue
  | withCap (cap : Nat) : Fresh z (TL.mk' z cap)

theorem Fresh.inv {α : Type} {z : α} {l : TL α} (h : Fresh z l) : TL.Inv l := by
  cases h
  · exact TL.inv_zeroValue
  · exact TL.inv_mk' z _

theorem Fresh.abs {α : Type} {z : α} {l : TL α} (h : Fresh z l) : TL.abs l = [] := by
  cases h <;> simp

/-- **list_refines_seq.**  For every history of Add / AddAllArray / AddAll(other) / AddAll(this) /
    Set / Get / Size / ToArray on a fresh list, every answer (values, panics on out-of-range
    indices, sizes, arrays) is the answer of the plain sequence, and the final `ToArray()` is the
    final sequence.  (`BOUND` = 1 431 655 759 elements: below it `ensure` cannot reach
    "too big size".) -/
theorem list_refines_seq {α : Type} (g : Growth) (hg : g.OK) (z : α) (ops : List (Op α)) (l0 : TL α) (h0 : Fresh z l0)
    (hb : (Spec.run ops []).2.length ≤ TL.BOUND) :
    (Code.run g z ops l0).1 = (Spec.run ops []).1 ∧
    TL.toArray (Code.run g z ops l0).2 = (Spec.run ops []).2 := by
  have := run_refines g hg z ops l0 h0.inv (by rw [h0.abs]; exact hb)
  rw [h0.abs] at this
  exact ⟨this.1, this.2.1⟩

/-- the same from any reachable state (any object satisfying the representation invariant) -/
theorem list_refines_seq_from {α : Type} (g : Growth) (hg : g.OK) (z : α) (ops : List (Op α)) (l : TL α) (hi : TL.Inv l)
    (hb : (Spec.run ops (TL.abs l)).2.length ≤ TL.BOUND) :
    (Code.run g z ops l).1 = (Spec.run ops (TL.abs l)).1 ∧
    TL.abs (Code.run g z ops l).2 = (Spec.run ops (TL.abs l)).2 ∧ TL.Inv (Code.run g z ops l).2 :=
  run_refines g hg z ops l hi hb

/-- **never a stale slot.**  `get(i)` answers exactly for `0 ≤ i < size`, with the i-th element of
    the sequence; everything else panics — also the indices between `size` and the capacity. -/
theorem get_never_stale {α : Type} (l : TL α) (hi : TL.Inv l) (i : Int) :
    TL.get l i = if 0 ≤ i ∧ i < (TL.abs l).length then (TL.abs l)[i.toNat]? else none :=
  TL.get_spec l i hi

theorem get_beyond_size_panics {α : Type} (l : TL α) (i : Int) (h : (l.size : Int) ≤ i) :
    TL.get l i = none := by
  unfold TL.get; simp [h]

theorem set_in_range_only {α : Type} (l : TL α) (hi : TL.Inv l) (i : Int) (v : α) :
    (0 ≤ i ∧ i < (TL.abs l).length →
        ∃ l', TL.set l i v = some l' ∧ TL.abs l' = (TL.abs l).set i.toNat v ∧ TL.Inv l') ∧
    (¬ (0 ≤ i ∧ i < (TL.abs l).length) → TL.set l i v = none) :=
  TL.set_spec l i v hi

/-- **capacity_irrelevant.**  Two fresh lists of any initial capacities (or the zero value)
    answer every history identically. -/
theorem capacity_irrelevant {α : Type} (g1 g2 : Growth) (hg1 : g1.OK) (hg2 : g2.OK) (z : α) (ops : List (Op α)) (l1 l2 : TL α)
    (h1 : Fresh z l1) (h2 : Fresh z l2) (hb : (Spec.run ops []).2.length ≤ TL.BOUND) :
    (Code.run g1 z ops l1).1 = (Code.run g2 z ops l2).1 ∧
    TL.toArray (Code.run g1 z ops l1).2 = TL.toArray (Code.run g2 z ops l2).2 := by
  have a := list_refines_seq g1 hg1 z ops l1 h1 hb
  have b := list_refines_seq g2 hg2 z ops l2 h2 hb
  exact ⟨a.1.trans b.1.symm, a.2.trans b.2.symm⟩

/-- … and so do two objects with different growth histories that hold the same sequence -/
theorem growth_history_irrelevant {α : Type} (g1 g2 : Growth) (hg1 : g1.OK) (hg2 : g2.OK) (z : α) (ops : List (Op α)) (l1 l2 : TL α)
    (h1 : TL.Inv l1) (h2 : TL.Inv l2) (he : TL.abs l1 = TL.abs l2)
    (hb : (Spec.run ops (TL.abs l1)).2.length ≤ TL.BOUND) :
    (Code.run g1 z ops l1).1 = (Code.run g2 z ops l2).1 ∧
    TL.abs (Code.run g1 z ops l1).2 = TL.abs (Code.run g2 z ops l2).2 := by
  have a := run_refines g1 hg1 z ops l1 h1 hb
  have b := run_refines g2 hg2 z ops l2 h2 (by rw [← he]; exact hb)
  rw [← he] at b
  exact ⟨a.1.trans b.1.symm, a.2.1.trans b.2.1.symm⟩

/-- the driver's tail-recursive runner is the run the theorems speak about -/
theorem driver_run_is_run {α : Type} (g : Growth) (z : α) (ops : List (Op α)) (l : TL α) :
    Code.runTR g z ops l [] = Code.run g z ops l := by
  rw [Code.runTR_eq]; simp

/-! ### several live objects: no aliasing -/

/-- **no_aliasing_lists.**  In a history over a pool of lists and caller-held slices, an operation
    leaves every list other than its target exactly as it was: the source of `AddAll`, the source
    of `Filtering`, and every bystander.  (Lists are values in the model, so this is the
    specification "no shared storage"; tie B compares all live objects after every operation.) -/
theorem no_aliasing_lists {α : Type} (g : Growth) (z : α) (op : Multi.MOp α) (st : Multi.MState α)
    (i : Nat) (h : op.targetList ≠ some i) : (Multi.step g z op st).2.lists i = st.lists i :=
  Multi.list_frame g z op st i h

/-- **no_aliasing_slices.**  A slice handed in (`AddAllArray`) or out (`ToArray`) changes only when
    the caller assigns or writes it, and writing it changes no list. -/
theorem no_aliasing_slices {α : Type} (g : Growth) (z : α) (op : Multi.MOp α) (st : Multi.MState α)
    (k : Nat) (h : op.targetArr ≠ some k) : (Multi.step g z op st).2.arrs k = st.arrs k :=
  Multi.arr_frame g z op st k h

theorem slice_write_keeps_lists {α : Type} (g : Growth) (z : α) (k i : Nat) (v : α)
    (st : Multi.MState α) : (Multi.step g z (.arrSet k i v) st).2.lists = st.lists :=
  Multi.arrSet_keeps_lists g z k i v st

/-- **multi_object_refines.**  Every history over the pools answers as independent plain sequences
    (one per list, one per slice), from the all-zero-value pool, under any OK capacity policy. -/
theorem multi_object_refines {α : Type} (g : Growth) (hg : g.OK) (z : α) (ops : List (Multi.MOp α))
    (hs : Multi.SmallRun ops Multi.SState.init) :
    (Multi.run g z ops Multi.MState.init).1 = (Multi.srun ops Multi.SState.init).1 ∧
    Multi.Rel (Multi.run g z ops Multi.MState.init).2 (Multi.srun ops Multi.SState.init).2 :=
  Multi.run_refines g hg z ops _ _ Multi.Rel.init hs

/-- AddAll(other), then Set on the receiver: the source still holds its own elements -/
example : (Multi.run Growth.go (0 : Int)
    [.add 1 5, .add 1 6, .addAll 0 1, .set 0 0 9, .get 1 0, .set 1 1 7, .get 0 1]
    Multi.MState.init).1 = [.unit, .unit, .unit, .unit, .val 5, .unit, .val 6] := by decide

/-! ### wire form -/

/-- **list_wire.**  `Read` of what `Write` produced, into a fresh list, gives an equal list and
    leaves the following bytes untouched — for fewer than 2^23 elements. -/
theorem list_wire {α : Type} (g : Growth) (hg : g.OK) (c : Codec α) (z : α) (l l0 : TL α) (r : Bytes)
    (hi : TL.Inv l) (h0 : Fresh z l0) (hsz : l.size < 8388608) (hw : ∀ x ∈ TL.abs l, c.wf x) :
    ∃ l', P.run (read g c z l0) (write c l ++ r) = some (l', r) ∧ TL.toArray l' = TL.toArray l := by
  have hs0 : l0.size = 0 := by cases h0 <;> rfl
  obtain ⟨l', h, ha, _⟩ := run_read_write g hg c z l l0 r hi h0.inv hsz hw
    (by rw [hs0]; unfold TL.BOUND; omega)
  exact ⟨l', h, by rw [TL.toArray_eq_abs, ha, h0.abs]; rfl⟩

/-- the five list types with their element codecs: every int / int64 (decimal), every float32 /
    float64 bit pattern (NaN payloads included), every string shorter than 2^31 bytes — each
    followed by arbitrary bytes `r`, which are left untouched -/
theorem int_wire (g : Growth) (hg : g.OK) (z : Int) (l l0 : TL Int) (r : Bytes) (hi : TL.Inv l) (h0 : Fresh z l0)
    (hsz : l.size < 8388608) (hw : ∀ x ∈ TL.abs l, Prim.inRange 8 x) :
    ∃ l', P.run (read g decimalCodec z l0) (write decimalCodec l ++ r) = some (l', r) ∧
      TL.toArray l' = TL.toArray l := list_wire g hg decimalCodec z l l0 r hi h0 hsz hw

theorem long_wire (g : Growth) (hg : g.OK) (z : Int) (l l0 : TL Int) (r : Bytes) (hi : TL.Inv l) (h0 : Fresh z l0)
    (hsz : l.size < 8388608) (hw : ∀ x ∈ TL.abs l, Prim.inRange 8 x) :
    ∃ l', P.run (read g decimalCodec z l0) (write decimalCodec l ++ r) = some (l', r) ∧
      TL.toArray l' = TL.toArray l := list_wire g hg decimalCodec z l l0 r hi h0 hsz hw

theorem float_wire (g : Growth) (hg : g.OK) (z : Nat) (l l0 : TL Nat) (r : Bytes) (hi : TL.Inv l) (h0 : Fresh z l0)
    (hsz : l.size < 8388608) (hw : ∀ x ∈ TL.abs l, x < 256 ^ 4) :
    ∃ l', P.run (read g floatCodec z l0) (write floatCodec l ++ r) = some (l', r) ∧
      TL.toArray l' = TL.toArray l := list_wire g hg floatCodec z l l0 r hi h0 hsz hw

theorem double_wire (g : Growth) (hg : g.OK) (z : Nat) (l l0 : TL Nat) (r : Bytes) (hi : TL.Inv l) (h0 : Fresh z l0)
    (hsz : l.size < 8388608) (hw : ∀ x ∈ TL.abs l, x < 256 ^ 8) :
    ∃ l', P.run (read g doubleCodec z l0) (write doubleCodec l ++ r) = some (l', r) ∧
      TL.toArray l' = TL.toArray l := list_wire g hg doubleCodec z l l0 r hi h0 hsz hw

theorem string_wire (g : Growth) (hg : g.OK) (z : Bytes) (l l0 : TL Bytes) (r : Bytes) (hi : TL.Inv l) (h0 : Fresh z l0)
    (hsz : l.size < 8388608) (hw : ∀ x ∈ TL.abs l, x.length < 2147483648) :
    ∃ l', P.run (read g textCodec z l0) (write textCodec l ++ r) = some (l', r) ∧
      TL.toArray l' = TL.toArray l := list_wire g hg textCodec z l l0 r hi h0 hsz hw

/-- **wire_prefix_fails.**  No strict prefix of a written list reads back, for any element codec
    (so a truncated list is never mistaken for a shorter one) -/
theorem wire_prefix_fails {α : Type} (g : Growth) (hg : g.OK) (c : Codec α) (z : α) (l l0 : TL α)
    (q s : Bytes) (hi : TL.Inv l) (h0 : Fresh z l0) (hsz : l.size < 8388608)
    (hw : ∀ x ∈ TL.abs l, c.wf x) (hs : s ≠ []) (hq : q ++ s = write c l) :
    P.run (read g c z l0) q = none := by
  have hs0 : l0.size = 0 := by cases h0 <;> rfl
  exact run_read_prefix_fails g hg c z l l0 q s hi h0.inv hsz hw
    (by rw [hs0]; unfold TL.BOUND; omega) hs hq

/-- reading depends only on the bytes consumed: the same list is read whatever follows -/
theorem wire_locality {α : Type} (g : Growth) (c : Codec α) (z : α) (l0 l' : TL α) (bs r : Bytes)
    (h : P.run (read g c z l0) bs = some (l', r)) :
    ∃ a, bs = a ++ r ∧ ∀ r', P.run (read g c z l0) (a ++ r') = some (l', r') :=
  P.locality (read g c z l0) bs l' r h

example : P.run (read Growth.go decimalCodec 0 (TL.mk' (0 : Int) 0)) [0, 0, 2, 1, 5] = none := by decide

/-- the bound is sharp: with 2^23 ≤ size < 2^24 the 24-bit count reads back negative and the
    reader takes no element (the error side is stated, not totalised away) -/
theorem wire_count_wraps {α : Type} (g : Growth) (c : Codec α) (z : α) (l l0 : TL α) (r : Bytes)
    (h1 : 8388608 ≤ l.size) (h2 : l.size < 16777216) :
    P.run (read g c z l0) (write c l ++ r) = some (l0, Prim.encMany c.enc (TL.toArray l) ++ r) :=
  run_read_count_wraps g c z l l0 r h1 h2

/-! ### sorting -/

open Lists.Sort

/-- **less_is_total_preorder** (Sorting): the closure is `≤` read in the requested direction -/
theorem less_is_total_preorder_1 {α : Type} {le : α → α → Bool} (h : TotalPreorder le)
    (asc : Bool) (vals : Nat → α) : TotalPreorder (lessIdx1 le asc vals) := lessIdx1_tp h asc vals

/-- **less_is_total_preorder** (SortingAnyList with CompareChild) -/
theorem less_is_total_preorder_2 {α β : Type} {le : α → α → Bool} {cle : β → β → Bool}
    (h : TotalPreorder le) (hc : TotalPreorder cle) (asc childAsc : Bool)
    (vals : Nat → α) (child : Nat → β) :
    TotalPreorder (lessIdx2 le asc vals cle child childAsc) := lessIdx2_tp h hc asc childAsc vals child

/-- the element orders the five list types use are total preorders -/
theorem element_orders : TotalPreorder intLe ∧ TotalPreorder (floatLe 31) ∧
    TotalPreorder (floatLe 63) ∧ TotalPreorder lexLe :=
  ⟨intLe_tp, floatLe_tp 31, floatLe_tp 63, lexLe_tp⟩

/-- **sorted_means_ordered** (Sorting): an index list sorted w.r.t. the closure meets the values in
    non-decreasing (asc) / non-increasing (desc) order -/
theorem sorted_means_ordered_1 {α : Type} (le : α → α → Bool) (asc : Bool) (vals : Nat → α)
    (out : List Nat) (hs : out.Pairwise (fun i j => lessIdx1 le asc vals i j = true)) :
    (out.map vals).Pairwise (fun a b => dir le asc a b = true) := by
  rw [List.pairwise_map]
  exact hs.imp (fun h => by simpa [lessIdx1, lessOne_eq] using h)

/-- **sorted_means_ordered** (SortingAnyList): … and inside every run of equal primary values the
    child values are in the order requested for the child.  Conversely every such index list is
    sorted w.r.t. the closure: the closure decides exactly `Ordered2`. -/
theorem sorted_means_ordered_2 {α β : Type} (le : α → α → Bool) (asc : Bool) (vals : Nat → α)
    (cle : β → β → Bool) (child : Nat → β) (childAsc : Bool) (out : List Nat) :
    out.Pairwise (fun i j => lessIdx2 le asc vals cle child childAsc i j = true) ↔
    out.Pairwise (Ordered2 le asc vals cle child childAsc) := by
  constructor <;> intro h <;> exact h.imp (fun h => by
    first
      | exact (lessIdx2_iff_ordered le asc vals cle child childAsc _ _).mp h
      | exact (lessIdx2_iff_ordered le asc vals cle child childAsc _ _).mpr h)

/-- adjacent comparisons suffice (what the driver evaluates on the implementation's results) -/
theorem chain_is_sorted {less : Nat → Nat → Bool} (h : TotalPreorder less) (out : List Nat)
    (hc : chainB less out = true) : out.Pairwise (fun i j => less i j = true) :=
  chainB_pairwise less h.trans out hc

/-- **Sorting / SortingAnyList return an ordering permutation**, for every `sort` that keeps the
    contract assumed of `sort.Sort` -/
theorem sorting_orders {α : Type} (sort : SortFn) (hs : SortContract sort)
    {le : α → α → Bool} (h : TotalPreorder le) (asc : Bool) (vals : Nat → α) (n : Nat) :
    (sorting sort le asc vals n).Perm (List.range n) ∧
    ((sorting sort le asc vals n).map vals).Pairwise (fun a b => dir le asc a b = true) :=
  ⟨hs.perm _ _, sorted_means_ordered_1 le asc vals _ (hs.sorted _ _ (lessIdx1_tp h asc vals))⟩

theorem sortingAnyList_orders {α β : Type} (sort : SortFn) (hs : SortContract sort)
    {le : α → α → Bool} {cle : β → β → Bool} (h : TotalPreorder le) (hc : TotalPreorder cle)
    (asc childAsc : Bool) (vals : Nat → α) (child : Nat → β) (n : Nat) :
    (sortingAnyList sort le asc vals cle child childAsc n).Perm (List.range n) ∧
    (sortingAnyList sort le asc vals cle child childAsc n).Pairwise
      (Ordered2 le asc vals cle child childAsc) :=
  ⟨hs.perm _ _, (sorted_means_ordered_2 le asc vals cle child childAsc _).mp
    (hs.sorted _ _ (lessIdx2_tp h hc asc childAsc vals child))⟩

/-- the contract is not vacuous: merge sort keeps it -/
theorem sort_contract_satisfiable : SortContract (fun less xs => xs.mergeSort less) :=
  mergeSort_contract

/-! ### Filtering -/

/-- **filtering.**  `Filtering(idx)` returns the selected elements in that order and panics iff
    some index is outside `0 ≤ i < size`. -/
theorem filtering {α : Type} (g : Growth) (hg : g.OK) (z : α) (l : TL α) (hi : TL.Inv l) (idx : List Int)
    (hb : idx.length ≤ TL.BOUND) :
    (match Spec.filtering (TL.abs l) idx with
     | some vs => ∃ out, TL.filtering g z l idx = some out ∧ TL.toArray out = vs
     | none => TL.filtering g z l idx = none) ∧
    (Spec.filtering (TL.abs l) idx = none ↔ ∃ i ∈ idx, ¬ (0 ≤ i ∧ i < (TL.abs l).length)) ∧
    (∀ vs, Spec.filtering (TL.abs l) idx = some vs →
      vs.map some = idx.map (fun i => (TL.abs l)[i.toNat]?)) := by
  refine ⟨?_, Spec.filtering_eq_none_iff _ _, Spec.filtering_eq_map _ _⟩
  have := filtering_spec g hg z l hi idx hb
  cases hf : Spec.filtering (TL.abs l) idx with
  | none => rw [hf] at this; exact this
  | some vs =>
    rw [hf] at this
    obtain ⟨out, h1, h2, _⟩ := this
    exact ⟨out, h1, h2⟩

/-! ### LinkedList -/

/-- **linkedlist_seq.**  Every history of AddFirst / AddLast / Add / RemoveFirst / RemoveLast /
    Remove(entity) / PutBefore(value, entity) / Clear / ToArray / Size / GetFirst / GetLast on the
    pointer structure answers as the deque on a plain list. -/
theorem linkedlist_seq (ops : List Linked.Op) :
    (Linked.LL.run ops Linked.LL.empty).1 = (Linked.Spec.run ops []).1 :=
  Linked.run_refines_empty ops

/-! ### the statements of /repo that the repairs replace -/

/-- **finding_D43.**  `CompareChild` of /repo compares an int/long child through float64.  For the
    primary values 7,7 and the child values (2^53, 2^53+1) — and for the mirrored child
    (2^53+1, 2^53) — the closure sees a tie, so *both* index orders are sorted w.r.t. it in both
    cases; whichever `sort.Sort` returns is out of child order for one of the two inputs. -/
theorem finding_D43 :
    let vals : Nat → Int := fun _ => 7
    let childA : Nat → Int := fun i => if i = 0 then 9007199254740992 else 9007199254740993
    let childB : Nat → Int := fun i => if i = 0 then 9007199254740993 else 9007199254740992
    ∀ out ∈ [[0, 1], [1, 0]],
      (chainB (lessIdx2 intLe true vals intLeViaDouble childA true) out = true ∧
       chainB (lessIdx2 intLe true vals intLeViaDouble childB true) out = true) ∧
      ¬ (chainB (lessIdx2 intLe true vals intLe childA true) out = true ∧
         chainB (lessIdx2 intLe true vals intLe childB true) out = true) := by
  decide

/-- … while the repaired comparison orders exactly these: -/
example : chainB (lessIdx2 intLe true (fun _ => (7 : Int)) intLe
    (fun i => if i = 0 then (9007199254740993 : Int) else 9007199254740992) true) [1, 0] = true := by
  decide

/-- **finding_D44.**  `ensure` of /repo on the zero value takes `min(10, n)`: appending more than
    ten elements at once to `new(XList)` panics. -/
theorem finding_D44 {α : Type} (z : α) (xs : List α) (h : 10 < xs.length) :
    TL.addAllArrayOrig z xs (TL.zeroValue : TL α) = none :=
  TL.addAllArrayOrig_zeroValue_panics z xs h

/-- **finding_D45.**  `l.AddAll(l)` of /repo panics for every non-empty list. -/
theorem finding_D45 {α : Type} (g : Growth) (hg : g.OK) (z : α) (l : TL α) (hi : TL.Inv l) (h0 : 0 < l.size)
    (hb : l.size + l.size ≤ TL.BOUND) : TL.addAllSelfOrig g z l = none :=
  TL.addAllSelfOrig_panics g hg z l hi h0 hb

/-! ### non-vacuity -/

example : Fresh (0 : Int) (TL.mk' 0 3) := Fresh.withCap 3

/-- a history across two growth steps, with an out-of-range get at a slot that exists in the
    table (index 2, capacity 3) — it panics, it does not return the stale 0 -/
example : (Code.run Growth.go (0 : Int) [.add 5, .add 6, .get 2, .get 1, .addAllSelf, .add 7, .toArray, .size]
    (TL.mk' 0 3)).1 = [.unit, .unit, .panic, .val 6, .unit, .unit, .arr [5, 6, 5, 6, 7], .size 5] := by
  decide

example : (Spec.run [Op.add (5 : Int), .add 6, .get 2, .addAllSelf] []).2.length ≤ TL.BOUND := by
  decide

example : write decimalCodec (TL.mk' (0 : Int) 0) = [0, 0, 0] := by decide

example : TotalPreorder (lessIdx2 intLe false (fun i => (i : Int) % 2) lexLe (fun _ => [97]) true) :=
  lessIdx2_tp intLe_tp lexLe_tp _ _ _ _

example : floatLe 31 0x80000000 0 = true ∧ floatLe 31 0 0x80000000 = true ∧
    floatLe 31 0xbf800000 0x3f800000 = true ∧ floatLe 31 0x3f800000 0xbf800000 = false := by decide

example : roundNat 9007199254740993 = 9007199254740992 ∧ roundNat 9007199254740995 = 9007199254740996 := by
  decide

end C13
