/-
  Property C13 — typed lists are faithful sequences; sorting yields an ordering permutation.

  Statements only; proofs are references to lemmas of Golib.Lists.*.
  CodeModel: `Lists.TL` (util/list/<T>List.go: size + table + ensure/add/…),
  `Lists.write/read` (wire form), `Lists.Sort.*` (comparator closures of Sorting /
  SortingAnyList / CompareChild), `Lists.Linked.LL` (LinkedList on a node heap).
  Spec: plain `List α`.  `sort.Sort` is a parameter (`Sort.SortContract`).

  The model describes the code with proposed/C13/fix-D43.diff, fix-D44.diff, fix-D45.diff
  applied; the three `finding_*` theorems are about the statements as they stand in /repo.
-/
import Golib.Lists.Run
import Golib.Lists.Wire
import Golib.Lists.Sort
import Golib.Lists.LinkedProof
import Golib.Lists.Multi
import Golib.Lists.Cross
import Golib.Lists.TableWire
import Golib.Lists.LinkedAtomic
import Golib.Lists.LinkedConc
import Golib.Lists.CrossNum
import Golib.Lists.PackTable
import Golib.Lists.RunLift
import Golib.Lists.FloatText
import Golib.Lists.LinkedText

namespace C13
open Lists

/-- the objects a caller can start from: the zero value (`new(XList)`, nil table) or
    `NewXList(cap)` / `NewXListDefault()` -/
inductive Fresh {α : Type} (z : α) : TL α → Prop where
  | zeroValue : Fresh z TL.zeroValue
  | withCap (cap : Nat) : Fresh z (TL.mk' z cap)

theorem Fresh.inv {α : Type} {z : α} {l : TL α} (h : Fresh z l) : TL.Inv l := by
  cases h
  · exact TL.inv_zeroValue
  · exact TL.inv_mk' z _

theorem Fresh.abs {α : Type} {z : α} {l : TL α} (h : Fresh z l) : TL.abs l = [] := by
  cases h <;> simp

/-- **list_refines_seq.**  For every history of Add / AddAllArray / AddAll(other) / AddAll(this) /
    Set / Get / Size / ToArray on a fresh list, every answer (values, panics on out-of-range
    indices, sizes, arrays) is the answer of the plain sequence, and the final `ToArray()` is the
    final sequence.  (`BOUND` = 1 431 655 759 elements: below it `ensure` cannot reach
    "too big size".) -/
theorem list_refines_seq {α : Type} (g : Growth) (hg : g.OK) (z : α) (ops : List (Op α)) (l0 : TL α) (h0 : Fresh z l0)
    (hb : (Spec.run ops []).2.length ≤ TL.BOUND) :
    (Code.run g z ops l0).1 = (Spec.run ops []).1 ∧
    TL.toArray (Code.run g z ops l0).2 = (Spec.run ops []).2 := by
  have := run_refines g hg z ops l0 h0.inv (by rw [h0.abs]; exact hb)
  rw [h0.abs] at this
  exact ⟨this.1, this.2.1⟩

/-- the same from any reachable state (any object satisfying the representation invariant) -/
theorem list_refines_seq_from {α : Type} (g : Growth) (hg : g.OK) (z : α) (ops : List (Op α)) (l : TL α) (hi : TL.Inv l)
    (hb : (Spec.run ops (TL.abs l)).2.length ≤ TL.BOUND) :
    (Code.run g z ops l).1 = (Spec.run ops (TL.abs l)).1 ∧
    TL.abs (Code.run g z ops l).2 = (Spec.run ops (TL.abs l)).2 ∧ TL.Inv (Code.run g z ops l).2 :=
  run_refines g hg z ops l hi hb

/-- **never a stale slot.**  `get(i)` answers exactly for `0 ≤ i < size`, with the i-th element of
    the sequence; everything else panics — also the indices between `size` and the capacity. -/
theorem get_never_stale {α : Type} (l : TL α) (hi : TL.Inv l) (i : Int) :
    TL.get l i = if 0 ≤ i ∧ i < (TL.abs l).length then (TL.abs l)[i.toNat]? else none :=
  TL.get_spec l i hi

theorem get_beyond_size_panics {α : Type} (l : TL α) (i : Int) (h : (l.size : Int) ≤ i) :
    TL.get l i = none := by
  unfold TL.get; simp [h]

theorem set_in_range_only {α : Type} (l : TL α) (hi : TL.Inv l) (i : Int) (v : α) :
    (0 ≤ i ∧ i < (TL.abs l).length →
        ∃ l', TL.set l i v = some l' ∧ TL.abs l' = (TL.abs l).set i.toNat v ∧ TL.Inv l') ∧
    (¬ (0 ≤ i ∧ i < (TL.abs l).length) → TL.set l i v = none) :=
  TL.set_spec l i v hi

/-- **capacity_irrelevant.**  Two fresh lists of any initial capacities (or the zero value)
    answer every history identically. -/
theorem capacity_irrelevant {α : Type} (g1 g2 : Growth) (hg1 : g1.OK) (hg2 : g2.OK) (z : α) (ops : List (Op α)) (l1 l2 : TL α)
    (h1 : Fresh z l1) (h2 : Fresh z l2) (hb : (Spec.run ops []).2.length ≤ TL.BOUND) :
    (Code.run g1 z ops l1).1 = (Code.run g2 z ops l2).1 ∧
    TL.toArray (Code.run g1 z ops l1).2 = TL.toArray (Code.run g2 z ops l2).2 := by
  have a := list_refines_seq g1 hg1 z ops l1 h1 hb
  have b := list_refines_seq g2 hg2 z ops l2 h2 hb
  exact ⟨a.1.trans b.1.symm, a.2.trans b.2.symm⟩

/-- … and so do two objects with different growth histories that hold the same sequence -/
theorem growth_history_irrelevant {α : Type} (g1 g2 : Growth) (hg1 : g1.OK) (hg2 : g2.OK) (z : α) (ops : List (Op α)) (l1 l2 : TL α)
    (h1 : TL.Inv l1) (h2 : TL.Inv l2) (he : TL.abs l1 = TL.abs l2)
    (hb : (Spec.run ops (TL.abs l1)).2.length ≤ TL.BOUND) :
    (Code.run g1 z ops l1).1 = (Code.run g2 z ops l2).1 ∧
    TL.abs (Code.run g1 z ops l1).2 = TL.abs (Code.run g2 z ops l2).2 := by
  have a := run_refines g1 hg1 z ops l1 h1 hb
  have b := run_refines g2 hg2 z ops l2 h2 (by rw [← he]; exact hb)
  rw [← he] at b
  exact ⟨a.1.trans b.1.symm, a.2.1.trans b.2.1.symm⟩

/-- the driver's tail-recursive runner is the run the theorems speak about -/
theorem driver_run_is_run {α : Type} (g : Growth) (z : α) (ops : List (Op α)) (l : TL α) :
    Code.runTR g z ops l [] = Code.run g z ops l := by
  rw [Code.runTR_eq]; simp

/-! ### several live objects: no aliasing -/

/-- **no_aliasing_lists.**  In a history over a pool of lists and caller-held slices, an operation
    leaves every list other than its target exactly as it was: the source of `AddAll`, the source
    of `Filtering`, and every bystander.  (Lists are values in the model, so this is the
    specification "no shared storage"; tie B compares all live objects after every operation.) -/
theorem no_aliasing_lists {α : Type} (g : Growth) (z : α) (op : Multi.MOp α) (st : Multi.MState α)
    (i : Nat) (h : op.targetList ≠ some i) : (Multi.step g z op st).2.lists i = st.lists i :=
  Multi.list_frame g z op st i h

/-- **no_aliasing_slices.**  A slice handed in (`AddAllArray`) or out (`ToArray`) changes only when
    the caller assigns or writes it, and writing it changes no list. -/
theorem no_aliasing_slices {α : Type} (g : Growth) (z : α) (op : Multi.MOp α) (st : Multi.MState α)
    (k : Nat) (h : op.targetArr ≠ some k) : (Multi.step g z op st).2.arrs k = st.arrs k :=
  Multi.arr_frame g z op st k h

theorem slice_write_keeps_lists {α : Type} (g : Growth) (z : α) (k i : Nat) (v : α)
    (st : Multi.MState α) : (Multi.step g z (.arrSet k i v) st).2.lists = st.lists :=
  Multi.arrSet_keeps_lists g z k i v st

/-- **multi_object_refines.**  Every history over the pools answers as independent plain sequences
    (one per list, one per slice), from the all-zero-value pool, under any OK capacity policy. -/
theorem multi_object_refines {α : Type} (g : Growth) (hg : g.OK) (z : α) (ops : List (Multi.MOp α))
    (hs : Multi.SmallRun ops Multi.SState.init) :
    (Multi.run g z ops Multi.MState.init).1 = (Multi.srun ops Multi.SState.init).1 ∧
    Multi.Rel (Multi.run g z ops Multi.MState.init).2 (Multi.srun ops Multi.SState.init).2 :=
  Multi.run_refines g hg z ops _ _ Multi.Rel.init hs

/-- AddAll(other), then Set on the receiver: the source still holds its own elements -/
example : (Multi.run Growth.go (0 : Int)
    [.add 1 5, .add 1 6, .addAll 0 1, .set 0 0 9, .get 1 0, .set 1 1 7, .get 0 1]
    Multi.MState.init).1 = [.unit, .unit, .unit, .unit, .val 5, .unit, .val 6] := by decide

/-! ### wire form -/

/-- **list_wire.**  `Read` of what `Write` produced, into a fresh list, gives an equal list and
    leaves the following bytes untouched — for fewer than 2^23 elements. -/
theorem list_wire {α : Type} (g : Growth) (hg : g.OK) (c : Codec α) (z : α) (l l0 : TL α) (r : Bytes)
    (hi : TL.Inv l) (h0 : Fresh z l0) (hsz : l.size < 8388608) (hw : ∀ x ∈ TL.abs l, c.wf x) :
    ∃ l', P.run (read g c z l0) (write c l ++ r) = some (l', r) ∧ TL.toArray l' = TL.toArray l := by
  have hs0 : l0.size = 0 := by cases h0 <;> rfl
  obtain ⟨l', h, ha, _⟩ := run_read_write g hg c z l l0 r hi h0.inv hsz hw
    (by rw [hs0]; unfold TL.BOUND; omega)
  exact ⟨l', h, by rw [TL.toArray_eq_abs, ha, h0.abs]; rfl⟩

/-- the five list types with their element codecs: every int / int64 (decimal), every float32 /
    float64 bit pattern (NaN payloads included), every string shorter than 2^31 bytes — each
    followed by arbitrary bytes `r`, which are left untouched -/
theorem int_wire (g : Growth) (hg : g.OK) (z : Int) (l l0 : TL Int) (r : Bytes) (hi : TL.Inv l) (h0 : Fresh z l0)
    (hsz : l.size < 8388608) (hw : ∀ x ∈ TL.abs l, Prim.inRange 8 x) :
    ∃ l', P.run (read g decimalCodec z l0) (write decimalCodec l ++ r) = some (l', r) ∧
      TL.toArray l' = TL.toArray l := list_wire g hg decimalCodec z l l0 r hi h0 hsz hw

theorem long_wire (g : Growth) (hg : g.OK) (z : Int) (l l0 : TL Int) (r : Bytes) (hi : TL.Inv l) (h0 : Fresh z l0)
    (hsz : l.size < 8388608) (hw : ∀ x ∈ TL.abs l, Prim.inRange 8 x) :
    ∃ l', P.run (read g decimalCodec z l0) (write decimalCodec l ++ r) = some (l', r) ∧
      TL.toArray l' = TL.toArray l := list_wire g hg decimalCodec z l l0 r hi h0 hsz hw

theorem float_wire (g : Growth) (hg : g.OK) (z : Nat) (l l0 : TL Nat) (r : Bytes) (hi : TL.Inv l) (h0 : Fresh z l0)
    (hsz : l.size < 8388608) (hw : ∀ x ∈ TL.abs l, x < 256 ^ 4) :
    ∃ l', P.run (read g floatCodec z l0) (write floatCodec l ++ r) = some (l', r) ∧
      TL.toArray l' = TL.toArray l := list_wire g hg floatCodec z l l0 r hi h0 hsz hw

theorem double_wire (g : Growth) (hg : g.OK) (z : Nat) (l l0 : TL Nat) (r : Bytes) (hi : TL.Inv l) (h0 : Fresh z l0)
    (hsz : l.size < 8388608) (hw : ∀ x ∈ TL.abs l, x < 256 ^ 8) :
    ∃ l', P.run (read g doubleCodec z l0) (write doubleCodec l ++ r) = some (l', r) ∧
      TL.toArray l' = TL.toArray l := list_wire g hg doubleCodec z l l0 r hi h0 hsz hw

theorem string_wire (g : Growth) (hg : g.OK) (z : Bytes) (l l0 : TL Bytes) (r : Bytes) (hi : TL.Inv l) (h0 : Fresh z l0)
    (hsz : l.size < 8388608) (hw : ∀ x ∈ TL.abs l, x.length < 2147483648) :
    ∃ l', P.run (read g textCodec z l0) (write textCodec l ++ r) = some (l', r) ∧
      TL.toArray l' = TL.toArray l := list_wire g hg textCodec z l l0 r hi h0 hsz hw

/-- **wire_prefix_fails.**  No strict prefix of a written list reads back, for any element codec
    (so a truncated list is never mistaken for a shorter one) -/
theorem wire_prefix_fails {α : Type} (g : Growth) (hg : g.OK) (c : Codec α) (z : α) (l l0 : TL α)
    (q s : Bytes) (hi : TL.Inv l) (h0 : Fresh z l0) (hsz : l.size < 8388608)
    (hw : ∀ x ∈ TL.abs l, c.wf x) (hs : s ≠ []) (hq : q ++ s = write c l) :
    P.run (read g c z l0) q = none := by
  have hs0 : l0.size = 0 := by cases h0 <;> rfl
  exact run_read_prefix_fails g hg c z l l0 q s hi h0.inv hsz hw
    (by rw [hs0]; unfold TL.BOUND; omega) hs hq

/-- **wire_read_appends.**  `Read` is an append into the receiver IN WHATEVER STATE it is: after
    adds, after an earlier `Read`, … — the receiver's elements stay in place and the decoded ones
    follow; so two chunks read one after the other into one list give both sequences in order. -/
theorem wire_read_appends {α : Type} (g : Growth) (hg : g.OK) (c : Codec α) (z : α) (l l0 : TL α) (r : Bytes)
    (hi : TL.Inv l) (hi0 : TL.Inv l0) (hsz : l.size < 8388608) (hw : ∀ x ∈ TL.abs l, c.wf x)
    (hb : l0.size + l.size ≤ TL.BOUND) :
    ∃ l', P.run (read g c z l0) (write c l ++ r) = some (l', r) ∧
      TL.abs l' = TL.abs l0 ++ TL.abs l ∧ TL.Inv l' :=
  run_read_write g hg c z l l0 r hi hi0 hsz hw hb

theorem wire_read_two_chunks {α : Type} (g : Growth) (hg : g.OK) (c : Codec α) (z : α) (a b l0 : TL α)
    (r : Bytes) (ha : TL.Inv a) (hb' : TL.Inv b) (hi0 : TL.Inv l0)
    (hsa : a.size < 8388608) (hsb : b.size < 8388608)
    (hwa : ∀ x ∈ TL.abs a, c.wf x) (hwb : ∀ x ∈ TL.abs b, c.wf x)
    (hbound : l0.size + a.size + b.size ≤ TL.BOUND) :
    ∃ l1 l2, P.run (read g c z l0) (write c a ++ (write c b ++ r)) = some (l1, write c b ++ r) ∧
      P.run (read g c z l1) (write c b ++ r) = some (l2, r) ∧
      TL.abs l2 = TL.abs l0 ++ TL.abs a ++ TL.abs b := by
  obtain ⟨l1, h1, a1, i1⟩ := run_read_write g hg c z a l0 (write c b ++ r) ha hi0 hsa hwa (by omega)
  have hs1 : l1.size = l0.size + a.size := by
    rw [← TL.abs_length i1, a1, List.length_append, TL.abs_length hi0, TL.abs_length ha]
  obtain ⟨l2, h2, a2, _⟩ := run_read_write g hg c z b l1 r hb' i1 hsb hwb (by omega)
  exact ⟨l1, l2, h1, h2, by rw [a2, a1]⟩

/-- reading depends only on the bytes consumed: the same list is read whatever follows -/
theorem wire_locality {α : Type} (g : Growth) (c : Codec α) (z : α) (l0 l' : TL α) (bs r : Bytes)
    (h : P.run (read g c z l0) bs = some (l', r)) :
    ∃ a, bs = a ++ r ∧ ∀ r', P.run (read g c z l0) (a ++ r') = some (l', r') :=
  P.locality (read g c z l0) bs l' r h

example : P.run (read Growth.go decimalCodec 0 (TL.mk' (0 : Int) 0)) [0, 0, 2, 1, 5] = none := by decide

/-- the bound is sharp: with 2^23 ≤ size < 2^24 the 24-bit count reads back negative and the
    reader takes no element (the error side is stated, not totalised away) -/
theorem wire_count_wraps {α : Type} (g : Growth) (c : Codec α) (z : α) (l l0 : TL α) (r : Bytes)
    (h1 : 8388608 ≤ l.size) (h2 : l.size < 16777216) :
    P.run (read g c z l0) (write c l ++ r) = some (l0, Prim.encMany c.enc (TL.toArray l) ++ r) :=
  run_read_count_wraps g c z l l0 r h1 h2

/-! ### sorting -/

open Lists.Sort

/-- **less_is_total_preorder** (Sorting): the closure is `≤` read in the requested direction -/
theorem less_is_total_preorder_1 {α : Type} {le : α → α → Bool} (h : TotalPreorder le)
    (asc : Bool) (vals : Nat → α) : TotalPreorder (lessIdx1 le asc vals) := lessIdx1_tp h asc vals

/-- **less_is_total_preorder** (SortingAnyList with CompareChild) -/
theorem less_is_total_preorder_2 {α β : Type} {le : α → α → Bool} {cle : β → β → Bool}
    (h : TotalPreorder le) (hc : TotalPreorder cle) (asc childAsc : Bool)
    (vals : Nat → α) (child : Nat → β) :
    TotalPreorder (lessIdx2 le asc vals cle child childAsc) := lessIdx2_tp h hc asc childAsc vals child

/-- the element orders the five list types use are total preorders -/
theorem element_orders : TotalPreorder intLe ∧ TotalPreorder (floatLe 31) ∧
    TotalPreorder (floatLe 63) ∧ TotalPreorder lexLe :=
  ⟨intLe_tp, floatLe_tp 31, floatLe_tp 63, lexLe_tp⟩

/-- **sorted_means_ordered** (Sorting): an index list sorted w.r.t. the closure meets the values in
    non-decreasing (asc) / non-increasing (desc) order -/
theorem sorted_means_ordered_1 {α : Type} (le : α → α → Bool) (asc : Bool) (vals : Nat → α)
    (out : List Nat) (hs : out.Pairwise (fun i j => lessIdx1 le asc vals i j = true)) :
    (out.map vals).Pairwise (fun a b => dir le asc a b = true) := by
  rw [List.pairwise_map]
  exact hs.imp (fun h => by simpa [lessIdx1, lessOne_eq] using h)

/-- **sorted_means_ordered** (SortingAnyList): … and inside every run of equal primary values the
    child values are in the order requested for the child.  Conversely every such index list is
    sorted w.r.t. the closure: the closure decides exactly `Ordered2`. -/
theorem sorted_means_ordered_2 {α β : Type} (le : α → α → Bool) (asc : Bool) (vals : Nat → α)
    (cle : β → β → Bool) (child : Nat → β) (childAsc : Bool) (out : List Nat) :
    out.Pairwise (fun i j => lessIdx2 le asc vals cle child childAsc i j = true) ↔
    out.Pairwise (Ordered2 le asc vals cle child childAsc) := by
  constructor <;> intro h <;> exact h.imp (fun h => by
    first
      | exact (lessIdx2_iff_ordered le asc vals cle child childAsc _ _).mp h
      | exact (lessIdx2_iff_ordered le asc vals cle child childAsc _ _).mpr h)

/-- adjacent comparisons suffice (what the driver evaluates on the implementation's results) -/
theorem chain_is_sorted {less : Nat → Nat → Bool} (h : TotalPreorder less) (out : List Nat)
    (hc : chainB less out = true) : out.Pairwise (fun i j => less i j = true) :=
  chainB_pairwise less h.trans out hc

/-- **Sorting / SortingAnyList return an ordering permutation**, for every `sort` that keeps the
    contract assumed of `sort.Sort` -/
theorem sorting_orders {α : Type} (sort : SortFn) (hs : SortContract sort)
    {le : α → α → Bool} (h : TotalPreorder le) (asc : Bool) (vals : Nat → α) (n : Nat) :
    (sorting sort le asc vals n).Perm (List.range n) ∧
    ((sorting sort le asc vals n).map vals).Pairwise (fun a b => dir le asc a b = true) :=
  ⟨hs.perm _ _, sorted_means_ordered_1 le asc vals _ (hs.sorted _ _ (lessIdx1_tp h asc vals))⟩

theorem sortingAnyList_orders {α β : Type} (sort : SortFn) (hs : SortContract sort)
    {le : α → α → Bool} {cle : β → β → Bool} (h : TotalPreorder le) (hc : TotalPreorder cle)
    (asc childAsc : Bool) (vals : Nat → α) (child : Nat → β) (n : Nat) :
    (sortingAnyList sort le asc vals cle child childAsc n).Perm (List.range n) ∧
    (sortingAnyList sort le asc vals cle child childAsc n).Pairwise
      (Ordered2 le asc vals cle child childAsc) :=
  ⟨hs.perm _ _, (sorted_means_ordered_2 le asc vals cle child childAsc _).mp
    (hs.sorted _ _ (lessIdx2_tp h hc asc childAsc vals child))⟩

/-- **go_sort_small_inputs.**  `sort.Sort` on at most 12 elements is `insertionSort`
    (go1.23 `pdqsort`: `if length <= 12 { insertionSort(data, a, b); return }`), and that loop,
    transcribed, orders its input for EVERY total preorder handed to it as `Less` — reflexive ones
    like the closures of this package included.  Nothing is assumed about `sort.Sort` here. -/
theorem go_sort_small_inputs {α : Type} {less : α → α → Bool} (h : TotalPreorder less) (xs : List α) :
    (goInsertionSort less xs).Perm xs ∧ (goInsertionSort less xs).Pairwise (fun a b => less a b = true) :=
  ⟨goInsertionSort_perm less xs, goInsertionSort_sorted h xs⟩

/-- **go_sort_contract.**  The contract of `sort.Sort` used by the theorems above follows from the
    model of its insertion sort plus the residual assumption `BigContract` about inputs longer than
    12 elements (partitioning and heap sort: permutation; sorted for total-preorder `Less`). -/
theorem go_sort_contract (big : SortFn) (hb : BigContract big) : SortContract (goSort big) :=
  goSort_contract big hb

/-- **sorting_orders_go / sortingAnyList_orders_go.**  The final form: for Go's `sort.Sort`
    (`goSort big`: insertion sort as transcribed up to 12 elements, `big` beyond) the ONLY hypothesis
    is `BigContract big` — about inputs longer than 12 elements.  Tie B checks that contract on the
    Go runtime directly (S cases: `sort.Sort` with reflexive total-preorder `Less`, 13 … 5000
    elements, duplicate-heavy) and through every Sorting* call. -/
theorem sorting_orders_go {α : Type} (big : SortFn) (hb : BigContract big)
    {le : α → α → Bool} (h : TotalPreorder le) (asc : Bool) (vals : Nat → α) (n : Nat) :
    (sorting (goSort big) le asc vals n).Perm (List.range n) ∧
    ((sorting (goSort big) le asc vals n).map vals).Pairwise (fun a b => dir le asc a b = true) :=
  sorting_ok (goSort big) (goSort_contract big hb) h asc vals n

theorem sortingAnyList_orders_go {α β : Type} (big : SortFn) (hb : BigContract big)
    {le : α → α → Bool} {cle : β → β → Bool} (h : TotalPreorder le) (hc : TotalPreorder cle)
    (asc childAsc : Bool) (vals : Nat → α) (child : Nat → β) (n : Nat) :
    (sortingAnyList (goSort big) le asc vals cle child childAsc n).Perm (List.range n) ∧
    (sortingAnyList (goSort big) le asc vals cle child childAsc n).Pairwise
      (Ordered2 le asc vals cle child childAsc) :=
  sortingAnyList_ok (goSort big) (goSort_contract big hb) h hc asc childAsc vals child n

/-- the residual assumption is satisfiable -/
theorem big_contract_satisfiable : BigContract (fun less xs => xs.mergeSort less) :=
  ⟨fun less xs _ => List.mergeSort_perm xs less,
   fun less xs _ h => List.pairwise_mergeSort h.trans
     (fun a b => by rcases h.total a b with h | h <;> simp [h]) xs⟩

/-- Sorting on lists of at most 12 elements: ordering permutation with no assumption at all -/
theorem sorting_orders_small {α : Type} (big : SortFn) {le : α → α → Bool} (h : TotalPreorder le)
    (asc : Bool) (vals : Nat → α) (n : Nat) (hn : n ≤ 12) :
    (sorting (goSort big) le asc vals n).Perm (List.range n) ∧
    ((sorting (goSort big) le asc vals n).map vals).Pairwise (fun a b => dir le asc a b = true) := by
  have hl : (List.range n).length ≤ 12 := by simpa using hn
  have e : sorting (goSort big) le asc vals n = goInsertionSort (lessIdx1 le asc vals) (List.range n) := by
    unfold sorting goSort; rw [if_pos hl]
  rw [e]
  refine ⟨goInsertionSort_perm _ _, ?_⟩
  exact sorted_means_ordered_1 le asc vals _ (goInsertionSort_sorted (lessIdx1_tp h asc vals) _)

example : goInsertionSort (fun a b : Nat => decide (a ≤ b)) [3, 1, 2, 1] = [1, 1, 2, 3] := by decide

/-- queries are functions of the CURRENT contents (nothing is remembered between calls in the
    model): Sorting, an in-place Set at an existing index, the same Sorting again -/
example :
    let l0 : TL Int := ⟨3, false, #[3, 1, 2]⟩
    let srt := fun (l : TL Int) => sorting (goSort (fun less xs => xs.mergeSort less)) intLe true
      (fun i => l.table.getD i 0) l.size
    srt l0 = [1, 2, 0] ∧ (TL.set l0 1 9).map srt = some [2, 0, 1] := by decide

/-- the contract is not vacuous: merge sort keeps it -/
theorem sort_contract_satisfiable : SortContract (fun less xs => xs.mergeSort less) :=
  mergeSort_contract

/-! ### Filtering -/

/-- **filtering.**  `Filtering(idx)` returns the selected elements in that order and panics iff
    some index is outside `0 ≤ i < size`. -/
theorem filtering {α : Type} (g : Growth) (hg : g.OK) (z : α) (l : TL α) (hi : TL.Inv l) (idx : List Int)
    (hb : idx.length ≤ TL.BOUND) :
    (match Spec.filtering (TL.abs l) idx with
     | some vs => ∃ out, TL.filtering g z l idx = some out ∧ TL.toArray out = vs
     | none => TL.filtering g z l idx = none) ∧
    (Spec.filtering (TL.abs l) idx = none ↔ ∃ i ∈ idx, ¬ (0 ≤ i ∧ i < (TL.abs l).length)) ∧
    (∀ vs, Spec.filtering (TL.abs l) idx = some vs →
      vs.map some = idx.map (fun i => (TL.abs l)[i.toNat]?)) := by
  refine ⟨?_, Spec.filtering_eq_none_iff _ _, Spec.filtering_eq_map _ _⟩
  have := filtering_spec g hg z l hi idx hb
  cases hf : Spec.filtering (TL.abs l) idx with
  | none => rw [hf] at this; exact this
  | some vs =>
    rw [hf] at this
    obtain ⟨out, h1, h2, _⟩ := this
    exact ⟨out, h1, h2⟩

/-! ### cross-type methods: integers and their decimal text -/

/-- **atoi_itoa.**  `strconv.Atoi(strconv.Itoa(v)) = v` for every int64 (the digit functions that
    model strconv) -/
theorem atoi_itoa (v : Int) (h : -9223372036854775808 ≤ v ∧ v ≤ 9223372036854775807) :
    Cross.atoi (Cross.itoa v) = some v := Cross.atoi_itoa v h

/-- **int_list_text_view.**  AddInt/AddLong, AddString, SetInt, SetString, GetInt, GetString on an
    IntList / LongList answer as the plain sequence of integers with `Atoi` on the way in (a text
    that does not parse panics and changes nothing) and `Itoa` on the way out -/
theorem int_list_text_view (g : Growth) (hg : g.OK) (op : Cross.IOp) (l : TL Int) (hi : TL.Inv l)
    (hb : (TL.abs l).length + 1 ≤ TL.BOUND) :
    (Cross.stepI g op l).1 = (Cross.specI op (TL.abs l)).1 ∧
    TL.abs (Cross.stepI g op l).2 = (Cross.specI op (TL.abs l)).2 ∧ TL.Inv (Cross.stepI g op l).2 :=
  Cross.stepI_refines g hg op l hi hb

/-- **string_list_int_view.**  AddInt/AddLong/SetInt (Itoa) and GetInt/GetLong (Atoi; panic when the
    element is not a number) on a StringList answer as the plain sequence of strings -/
theorem string_list_int_view (g : Growth) (hg : g.OK) (op : Cross.SOp) (l : TL Bytes) (hi : TL.Inv l)
    (hb : (TL.abs l).length + 1 ≤ TL.BOUND) :
    (Cross.stepS g op l).1 = (Cross.specS op (TL.abs l)).1 ∧
    TL.abs (Cross.stepS g op l).2 = (Cross.specS op (TL.abs l)).2 ∧ TL.Inv (Cross.stepS g op l).2 :=
  Cross.stepS_refines g hg op l hi hb

/-- **cross_view_histories.**  The three views above for EVERY op sequence (from any well-formed
    list, as long as the list stays below the bound): all answers are those of the plain sequence
    and the final list holds the final sequence. -/
theorem cross_view_histories (g : Growth) (hg : g.OK) :
    (∀ (ops : List Cross.IOp) (l : TL Int), TL.Inv l → (TL.abs l).length + ops.length ≤ TL.BOUND →
      (RunLift.runG (Cross.stepI g) ops l).1 = (RunLift.runG Cross.specI ops (TL.abs l)).1 ∧
      TL.abs (RunLift.runG (Cross.stepI g) ops l).2 = (RunLift.runG Cross.specI ops (TL.abs l)).2) ∧
    (∀ (ops : List Cross.SOp) (l : TL Bytes), TL.Inv l → (TL.abs l).length + ops.length ≤ TL.BOUND →
      (RunLift.runG (Cross.stepS g) ops l).1 = (RunLift.runG Cross.specS ops (TL.abs l)).1 ∧
      TL.abs (RunLift.runG (Cross.stepS g) ops l).2 = (RunLift.runG Cross.specS ops (TL.abs l)).2) ∧
    (∀ (k : CrossNum.Kind) (ops : List CrossNum.NOp) (l : TL CrossNum.Num), TL.Inv l →
      (TL.abs l).length + ops.length ≤ TL.BOUND →
      (RunLift.runG (CrossNum.step g k) ops l).1 = (RunLift.runG (CrossNum.spec k) ops (TL.abs l)).1 ∧
      TL.abs (RunLift.runG (CrossNum.step g k) ops l).2 = (RunLift.runG (CrossNum.spec k) ops (TL.abs l)).2) :=
  ⟨fun ops l hi hb => ⟨(RunLift.runI_refines g hg ops l hi hb).1, (RunLift.runI_refines g hg ops l hi hb).2.2⟩,
   fun ops l hi hb => ⟨(RunLift.runS_refines g hg ops l hi hb).1, (RunLift.runS_refines g hg ops l hi hb).2.2⟩,
   fun k ops l hi hb => ⟨(RunLift.runN_refines g hg k ops l hi hb).1, (RunLift.runN_refines g hg k ops l hi hb).2.2⟩⟩

example : (RunLift.runG (Cross.stepS Growth.go) [.addString [45, 49, 50], .addString [43, 53], .getInt 0, .getInt 1, .getInt 2]
    (TL.mk' ([] : Bytes) 0)).1 = [.unit, .unit, .int (-12), .int 5, .panic] := by decide

/-- an integer stored through the text view comes back as itself, in both directions -/
theorem cross_roundtrips (v : Int) (h : -9223372036854775808 ≤ v ∧ v ≤ 9223372036854775807) :
    (∀ s : List Bytes, (Cross.specS (.getInt s.length) (Cross.specS (.addInt v) s).2).1 = .int v) ∧
    (∀ s : List Int, Cross.specI (.addString (Cross.itoa v)) s = Cross.specI (.addInt v) s) :=
  ⟨fun s => Cross.stringList_int_roundtrip s v h, fun s => Cross.intList_text_roundtrip s v h⟩

example : Cross.atoi [43, 55] = some 7 ∧ Cross.atoi [45] = none ∧ Cross.atoi [49, 95, 48] = none ∧
    Cross.atoi [] = none := by decide

example : Cross.decDigits 120 = [49, 50, 48] := by
  rw [Cross.decDigits, Cross.decDigits, Cross.decDigits]; simp

/-! ### numeric cross-type methods, GetValue / GetObject / ToString -/

/-- **numeric_view.**  AddInt/AddLong/AddFloat/AddDouble, Set…, GetInt/GetLong/GetFloat/GetDouble,
    GetValue, GetObject on an int, long, float or double list answer as the plain sequence with
    Go's conversion (`FloatConv`: round to nearest even into float32/float64 with subnormals and
    overflow to ±Inf; truncation toward zero into int64) applied on the way in / out.  Excluded
    (answer `excluded`, never generated by tie B): float → int of NaN, ±Inf or a value whose
    truncation is outside int64 — Go leaves that result implementation-dependent — and NaN operands. -/
theorem numeric_view (g : Growth) (hg : g.OK) (k : CrossNum.Kind) (op : CrossNum.NOp)
    (l : TL CrossNum.Num) (hi : TL.Inv l) (hb : (TL.abs l).length + 1 ≤ TL.BOUND) :
    (CrossNum.step g k op l).1 = (CrossNum.spec k op (TL.abs l)).1 ∧
    TL.abs (CrossNum.step g k op l).2 = (CrossNum.spec k op (TL.abs l)).2 ∧
    TL.Inv (CrossNum.step g k op l).2 :=
  CrossNum.step_refines g hg k op l hi hb

/-- a value stored through a conversion is already of the list's kind: converting it again (the
    matching getter) returns it unchanged -/
theorem numeric_conv_idempotent (k : CrossNum.Kind) (x y : CrossNum.Num)
    (h : CrossNum.conv k x = some y) : CrossNum.conv k y = some y := CrossNum.conv_idem k x y h

/-- ToString prints the whole table; it shows exactly the sequence iff there is no spare capacity
    (an observable that does depend on capacity — not one of this property's) -/
theorem toString_full_table (l : TL Int) (h : l.table.size = l.size) :
    CrossNum.toStringInts l = [91] ++ CrossNum.joinSp ((TL.abs l).map Cross.itoa) ++ [93] :=
  CrossNum.toStringInts_full l h

/-- a list without spare capacity (hypothesis of `toString_full_table`) is reachable -/
example : (TL.add Growth.go 0 (5 : Int) (TL.mk' 0 0)).map (fun l => (l.table.size, l.size)) = some (1, 1) := by
  decide

example : CrossNum.conv .f64 (.int 9007199254740993) = some (.f64 0x4340000000000000) ∧
    CrossNum.conv .int (.f64 0xbff8000000000000) = some (.int (-1)) ∧
    CrossNum.conv .int (.f64 0x43e0000000000000) = none ∧
    CrossNum.conv .f32 (.f64 0x3ff0000010000000) = some (.f32 0x3f800000) := by decide

/-! ### StatGeneralPack's table of lists -/

open Lists.Table in
/-- **table_filter_rows_aligned.**  The loop "every column ↦ Filtering(idx)" refines the column-wise
    selection; when every index is in range for every column, EVERY column is selected by the SAME
    indices — row r of the result is row idx[r] of the source, in all columns — and one out-of-range
    index for one column makes the whole call panic. -/
theorem table_filter_rows_aligned (g : Growth) (hg : g.OK) (t : T) (hi : InvT t) (idx : List Int)
    (hb : idx.length ≤ TL.BOUND) :
    (match specFilter (absT t) idx with
     | some a' => ∃ t', filterCols g t idx = some t' ∧ absT t' = a' ∧ InvT t'
     | none => filterCols g t idx = none) ∧
    ((∀ e ∈ absT t, ∀ i ∈ idx, 0 ≤ i ∧ i < (e.2.2.length : Int)) →
      specFilter (absT t) idx = some ((absT t).map (fun e => (e.1, e.2.1, pick e.2.2 idx)))) ∧
    ((∃ e ∈ absT t, ∃ i ∈ idx, ¬ (0 ≤ i ∧ i < (e.2.2.length : Int))) → specFilter (absT t) idx = none) :=
  ⟨filterCols_spec g hg t hi idx hb, specFilter_valid _ _, specFilter_invalid _ _⟩

open Lists.Table in
/-- row r of a selected column is row idx[r] of the source column -/
theorem table_pick_row (xs : List V) (idx : List Int)
    (h : ∀ i ∈ idx, 0 ≤ i ∧ i < (xs.length : Int)) (r : Nat) :
    (pick xs idx)[r]? = (idx[r]?).bind (fun i => xs[i.toNat]?) := pick_getElem xs idx h r

open Lists.Table in
/-- **table_sort_permutes_rows.**  `Sort(data, key, asc)`: with the key present and all columns as
    long as the sort column, every column of the result is the source column selected by ONE
    permutation of the row numbers, and along it the sort column is in the requested order. -/
theorem table_sort_permutes_rows (sort : SortFn) (hs : SortContract sort) (g : Growth) (hg : g.OK)
    (t : T) (hi : InvT t) (key : Bytes) (asc : Bool) (c : Col) (hk : get t key = some c)
    (hlen : ∀ e ∈ t, e.2.l.size = c.l.size) (hb : c.l.size ≤ TL.BOUND) :
    ∃ (ord : List Nat) (t' : T), sortTable sort g t key asc = some t' ∧
      ord.Perm (List.range c.l.size) ∧
      absT t' = (absT t).map (fun e => (e.1, e.2.1, pick e.2.2 (ord.map Int.ofNat))) ∧
      (ord.map (cell c)).Pairwise (fun a b => dir (vLe (widthOfTy c.ty)) asc a b = true) :=
  sortTable_spec sort hs g hg t hi key asc c hk hlen hb

open Lists.Table in
/-- … and selecting a column along a permutation of its row numbers permutes it: every row of the
    source is in the result exactly once (so `pick`, defined by `filterMap`, drops nothing in the
    two theorems around this one, and the row count is kept) -/
theorem table_sorted_column_is_permutation (xs : List V) (ord : List Nat)
    (h : ord.Perm (List.range xs.length)) :
    (pick xs (ord.map Int.ofNat)).Perm xs ∧ (pick xs (ord.map Int.ofNat)).length = xs.length :=
  ⟨pick_perm xs ord h, (pick_perm xs ord h).length_eq⟩

open Lists.Table in
/-- **table_sortAny_permutes_rows.**  `SortAnyList(data, key, asc, key2, asc2)`: the same, with ties
    of the first column ordered by the second -/
theorem table_sortAny_permutes_rows (sort : SortFn) (hs : SortContract sort) (g : Growth) (hg : g.OK)
    (t : T) (hi : InvT t) (key : Bytes) (asc : Bool) (key2 : Bytes) (asc2 : Bool) (c c2 : Col)
    (hk : get t key = some c) (hk2 : get t key2 = some c2)
    (hlen : ∀ e ∈ t, e.2.l.size = c.l.size) (hb : c.l.size ≤ TL.BOUND) :
    ∃ (ord : List Nat) (t' : T), sortAnyTable sort g t key asc key2 asc2 = some t' ∧
      ord.Perm (List.range c.l.size) ∧
      absT t' = (absT t).map (fun e => (e.1, e.2.1, pick e.2.2 (ord.map Int.ofNat))) ∧
      ord.Pairwise (Ordered2 (vLe (widthOfTy c.ty)) asc (cell c) (vLe (widthOfTy c2.ty)) (cell c2) asc2) :=
  sortAnyTable_spec sort hs g hg t hi key asc key2 asc2 c c2 hk hk2 hlen hb

open Lists.Table in
/-- Put / Get / create: a put key is found, other keys are untouched, a new key goes last and an
    existing one keeps its place; `create` gives an empty list of the coded type (unknown → string);
    the element orders on tagged values are total preorders -/
theorem table_put_get_create (t : T) (k k2 : Bytes) (c : Col) (code w : Nat) :
    get (put t k c) k = some c ∧
    ((k == k2) = false → get (put t k c) k2 = get t k2) ∧
    (put t k c).map (·.1) = (if (t.map (·.1)).contains k then t.map (·.1) else t.map (·.1) ++ [k]) ∧
    ((create code).ty = (if code = 1 ∨ code = 2 ∨ code = 3 ∨ code = 4 then code else 5) ∧
      TL.abs (create code).l = [] ∧ TL.Inv (create code).l) ∧
    TotalPreorder (vLe w) :=
  ⟨get_put_same t k c, get_put_other t k k2 c, keys_put t k c, create_type code, vLe_tp w⟩

open Lists.Table in
/-- **table_wire.**  `readTable(writeTable(t))` into an empty table: same keys in the same order,
    same list types (through `create`), equal lists, following bytes untouched — for at most 32767
    columns with pairwise distinct keys, each list below 2^23 elements of its own type. -/
theorem table_wire (g : Growth) (hg : g.OK) (t : T) (r : Bytes)
    (hn : t.length ≤ 32767) (hw : ∀ e ∈ t, WFEntry e)
    (hd : t.Pairwise (fun a b => (a.1 == b.1) = false)) :
    ∃ t', P.run (readTable g []) (writeTable t ++ r) = some (t', r) ∧ absT t' = absT t ∧ InvT t' :=
  run_readTable_writeTable g hg t r hn hw hd

open Lists.Table in
/-- … and a strict prefix of a written table never reads back -/
theorem table_wire_prefix_fails (g : Growth) (hg : g.OK) (t : T) (q s : Bytes)
    (hn : t.length ≤ 32767) (hw : ∀ e ∈ t, WFEntry e)
    (hd : t.Pairwise (fun a b => (a.1 == b.1) = false)) (hs : s ≠ []) (hq : q ++ s = writeTable t) :
    P.run (readTable g []) q = none := by
  obtain ⟨t', h, _, _⟩ := run_readTable_writeTable g hg t [] hn hw hd
  rw [List.append_nil, ← hq] at h
  exact P.prefix_fails (readTable g []) q s t' hs h

open Lists.Table in
example : (sortTable (goSort (fun less xs => xs.mergeSort less)) Growth.go
    [([1], ⟨1, ⟨3, false, #[.i 3, .i 1, .i 2]⟩⟩), ([2], ⟨5, ⟨3, false, #[.s [99], .s [97], .s [98]]⟩⟩)]
    [1] true).map absT = some [([1], 1, [.i 1, .i 2, .i 3]), ([2], 5, [.s [97], .s [98], .s [99]])] := by
  decide

/-! ### the pack's lazy table: wire state and in-memory edits -/

open Lists.Table in
/-- **pack_unpack_merges.**  Read → Put(other columns) → Get / GetDataTable: a pack whose in-memory
    table is `m` and whose `dataBytes` hold the encoding of `w` (keys of `w` pairwise distinct and
    different from those of `m`) unpacks to the table `m` followed by `w` — every wire column is
    there, with its key, type and contents — and the byte cache is emptied. -/
theorem pack_unpack_merges (g : Growth) (hg : g.OK) (m w : T) (sz : Nat)
    (hn : w.length ≤ 32767) (hw : ∀ e ∈ w, WFEntry e)
    (hd : w.Pairwise (fun a b => (a.1 == b.1) = false))
    (hf : ∀ a ∈ m, ∀ e ∈ w, (a.1 == e.1) = false) :
    ∃ s', PackTable.unpack g { raw := writeTable w, rawSize := sz, table := m } = some s' ∧
      s'.raw = [] ∧ s'.rawSize = 0 ∧ absT s'.table = absT m ++ absT w :=
  PackTable.unpack_merges g hg m w sz hn hw hd hf

open Lists.Table in
/-- **pack_unpack_general.**  The same without any hypothesis on the keys: whatever the in-memory
    table holds and whatever keys the wire table has (colliding, repeated), unpack succeeds and the
    table is the in-memory one with the wire columns PUT one after the other — a colliding key is
    replaced in place by the wire column, new keys go last (`PackTable.aput`). -/
theorem pack_unpack_general (g : Growth) (hg : g.OK) (m w : T) (sz : Nat)
    (hn : w.length ≤ 32767) (hw : ∀ e ∈ w, WFEntry e) :
    ∃ s', PackTable.unpack g { raw := writeTable w, rawSize := sz, table := m } = some s' ∧
      s'.raw = [] ∧ s'.rawSize = 0 ∧ absT s'.table = (absT w).foldl PackTable.aput (absT m) :=
  PackTable.unpack_general g hg m w sz hn hw

open Lists.Table in
/-- readTable of a written table into ANY receiver (no distinct-keys hypothesis): the decoded columns
    are put into it in order -/
theorem table_wire_any_receiver (g : Growth) (hg : g.OK) (t acc : T) (r : Bytes)
    (hn : t.length ≤ 32767) (hw : ∀ e ∈ t, WFEntry e) :
    ∃ es', P.run (readTable g acc) (writeTable t ++ r) = some (putAll acc es', r) ∧
      absT es' = absT t ∧ InvT es' :=
  run_readTable_gen g hg t acc r hn hw

open Lists.Table in
/-- a pack whose memory holds column `a` and whose wire table holds `a` (other contents) and `b`:
    after unpack `a` is the wire one, in its old place, and `b` follows -/
example : (PackTable.unpack Growth.go
    { raw := writeTable [([97], ⟨1, ⟨1, false, #[.i 7]⟩⟩), ([98], ⟨5, ⟨0, false, #[]⟩⟩)], rawSize := 0,
      table := [([97], ⟨1, ⟨2, false, #[.i 1, .i 2]⟩⟩), ([99], ⟨2, ⟨0, false, #[]⟩⟩)] }).map
      (fun s => (s.raw, absT s.table)) =
    some ([], [([97], 1, [.i 7]), ([99], 2, []), ([98], 5, [])]) := by decide

/-- **pack_write_current_after_unpack.**  Every access that unpacks (Get, GetDataTable) empties the
    byte cache, and a Write with an empty cache encodes the CURRENT in-memory table — so
    Write → Get → edit the list → Write emits the edited table. -/
theorem pack_write_current_after_unpack (g : Growth) (s s' : PackTable.St)
    (h : PackTable.unpack g s = some s') (hne : s'.table ≠ []) :
    (PackTable.write s').2 = ((Table.writeTable s'.table).length, Table.writeTable s'.table) :=
  PackTable.write_current s' (PackTable.unpack_clears_cache g s s' h) hne

/-- the code's cache, stated: while `dataBytes` is non-empty a Write re-emits it unchanged, whatever
    was Put or edited since (Put does not touch `dataBytes`); see the observation in notes/C13.md -/
theorem pack_write_cached (s : PackTable.St) (h : s.raw ≠ []) (k : Bytes) (c : Table.Col) :
    (PackTable.write s).2 = (s.rawSize, s.raw) ∧
    (PackTable.write (PackTable.put s k c)).2 = (s.rawSize, s.raw) := by
  refine ⟨(PackTable.write_cached s h).1, ?_⟩
  have := (PackTable.write_cached (PackTable.put s k c) (by simpa [PackTable.put] using h)).1
  simpa [PackTable.put] using this

/-! ### LinkedList -/

/-- **linkedlist_seq.**  Every history of AddFirst / AddLast / Add / RemoveFirst / RemoveLast /
    Remove(entity) / PutBefore(value, entity) / Clear / ToArray / Size / GetFirst / GetLast on the
    pointer structure answers as the deque on a plain list. -/
theorem linkedlist_seq (ops : List Linked.Op) :
    (Linked.LL.run ops Linked.LL.empty).1 = (Linked.Spec.run ops []).1 :=
  Linked.run_refines_empty ops

/-- **linkedlist_atomic_conservation.**  For every sequential history of the mutators
    (AddFirst / AddLast / Add / RemoveFirst / RemoveLast / Remove) — hence for every interleaving
    in which concurrent calls take effect one at a time under the list's mutex — the elements
    still in the list together with the elements handed out by the Remove* calls are, as a
    multiset, the initial elements together with the elements added; two interleavings of the
    same calls agree on it.  (Tie B's concurrent stage checks this on the implementation through
    every public mutator alias.) -/
theorem linkedlist_atomic_conservation (ops : List Linked.Op) (s : List Int)
    (h : ∀ op ∈ ops, op.mutator = true) :
    ((Linked.Spec.run ops s).2 ++ ((Linked.Spec.run ops s).1.map Linked.Out.handedOut).flatten).Perm
      (s ++ (ops.map Linked.Op.added).flatten) ∧
    ∀ ops2, ops.Perm ops2 →
      ((Linked.Spec.run ops s).2 ++ ((Linked.Spec.run ops s).1.map Linked.Out.handedOut).flatten).Perm
        ((Linked.Spec.run ops2 s).2 ++ ((Linked.Spec.run ops2 s).1.map Linked.Out.handedOut).flatten) :=
  ⟨Linked.run_conserves ops s h, fun ops2 hp => Linked.interleavings_agree ops ops2 s hp h⟩

/-- **linkedlist_locked_conservation.**  With the mutex modelled (C10's mutex-object machine: any
    number of threads, any schedule of inv/acq/load/store/rel/ret actions, the pointer-level body
    between acq and rel): after EVERY schedule the heap represents the list the deque holds after
    the linearized operations, the recorded results are the deque's, and for mutators the elements
    left together with the elements handed out are exactly the elements added; two threads are
    never inside a body at once.  That the code is such a machine is tie A
    (`C13Gen.linkedlist_*_locked`). -/
theorem linkedlist_locked_conservation (sched : List (Conc.Act Linked.Op))
    (s : Conc.St Linked.LL Linked.Op Linked.Out)
    (hs : Conc.runActs Conc.Inst.llStep (Conc.initSt Linked.LL.empty) sched = some s) :
    (∃ vals, Conc.Inst.ListRel s.sh vals ∧
      vals = (Linked.Spec.run (Linked.opsOf (Conc.linOps s.log)) []).2 ∧
      Linked.outsOf (Conc.linOps s.log) = (Linked.Spec.run (Linked.opsOf (Conc.linOps s.log)) []).1 ∧
      ((∀ op ∈ Linked.opsOf (Conc.linOps s.log), op.mutator = true) →
        (vals ++ ((Linked.outsOf (Conc.linOps s.log)).map Linked.Out.handedOut).flatten).Perm
          (((Linked.opsOf (Conc.linOps s.log)).map Linked.Op.added).flatten))) ∧
    (∀ t u, Conc.inCS (s.ph t) → Conc.inCS (s.ph u) → t = u) :=
  ⟨Linked.locked_conservation sched s hs, fun t u ht hu => Linked.locked_mutual_exclusion sched s hs t u ht hu⟩

/-- a schedule of two threads: both invoke Add, thread 1 runs its body inside thread 0's invocation -/
example : (Conc.runActs Conc.Inst.llStep (Conc.initSt Linked.LL.empty)
    [.inv 0 (.add 1), .inv 1 (.add 2), .acq 1, .load 1, .store 1, .rel 1, .acq 0, .load 0, .store 0,
     .rel 0, .ret 0, .ret 1]).map (fun s => s.sh.size) = some 2 := by decide

example : ((Linked.Spec.run [.add 1, .addFirst 2, .removeLast, .addLast 3, .removeAt 0] []).2 ++
    [1, 2]).Perm ([] ++ [1, 2, 3]) := by decide

/-! ### the statements of /repo that the repairs replace -/

/-- **finding_D43.**  `CompareChild` of /repo compares an int/long child through float64.  For the
    primary values 7,7 and the child values (2^53, 2^53+1) — and for the mirrored child
    (2^53+1, 2^53) — the closure sees a tie, so *both* index orders are sorted w.r.t. it in both
    cases; whichever `sort.Sort` returns is out of child order for one of the two inputs. -/
theorem finding_D43 :
    let vals : Nat → Int := fun _ => 7
    let childA : Nat → Int := fun i => if i = 0 then 9007199254740992 else 9007199254740993
    let childB : Nat → Int := fun i => if i = 0 then 9007199254740993 else 9007199254740992
    ∀ out ∈ [[0, 1], [1, 0]],
      (chainB (lessIdx2 intLe true vals intLeViaDouble childA true) out = true ∧
       chainB (lessIdx2 intLe true vals intLeViaDouble childB true) out = true) ∧
      ¬ (chainB (lessIdx2 intLe true vals intLe childA true) out = true ∧
         chainB (lessIdx2 intLe true vals intLe childB true) out = true) := by
  decide

/-- … while the repaired comparison orders exactly these: -/
example : chainB (lessIdx2 intLe true (fun _ => (7 : Int)) intLe
    (fun i => if i = 0 then (9007199254740993 : Int) else 9007199254740992) true) [1, 0] = true := by
  decide

/-- **finding_D44.**  `ensure` of /repo on the zero value takes `min(10, n)`: appending more than
    ten elements at once to `new(XList)` panics. -/
theorem finding_D44 {α : Type} (z : α) (xs : List α) (h : 10 < xs.length) :
    TL.addAllArrayOrig z xs (TL.zeroValue : TL α) = none :=
  TL.addAllArrayOrig_zeroValue_panics z xs h

/-- **finding_D45.**  `l.AddAll(l)` of /repo panics for every non-empty list. -/
theorem finding_D45 {α : Type} (g : Growth) (hg : g.OK) (z : α) (l : TL α) (hi : TL.Inv l) (h0 : 0 < l.size)
    (hb : l.size + l.size ≤ TL.BOUND) : TL.addAllSelfOrig g z l = none :=
  TL.addAllSelfOrig_panics g hg z l hi h0 hb

/-! ### non-vacuity -/

/-- the capacity policy of /repo is one of those the theorems quantify over -/
example : Growth.go.OK := Growth.go_ok

/-- … and so is a different one (double instead of one and a half) -/
example : (Growth.mk (fun o m => if o * 2 < m then m else o * 2) 4 2863311518).OK :=
  ⟨fun o m => by simp only []; split <;> omega,
   fun o m h1 h2 => by simp only []; unfold TL.BOUND at h2; split <;> omega,
   by simp [TL.BOUND]⟩

/-- a multi-object history meeting `SmallRun` -/
example : Multi.SmallRun [Multi.MOp.add 1 (5 : Int), .addAll 0 1] Multi.SState.init := by
  refine ⟨⟨fun i => ?_, trivial⟩, ⟨fun i => ?_, trivial⟩, trivial⟩ <;>
    simp only [Multi.sstep, Multi.upd, Multi.SState.init] <;> (repeat' split) <;> simp [TL.BOUND]

/-- a list at the wire count's wrap-around (hypotheses of `wire_count_wraps`) -/
example : ∃ l : TL Int, 8388608 ≤ l.size ∧ l.size < 16777216 := ⟨⟨8388608, false, #[]⟩, by decide⟩

open Lists.Table in
/-- a table meeting the hypotheses of `table_wire` / `pack_unpack_merges` -/
example : WFEntry ([97], ⟨1, ⟨2, false, #[.i 1, .i (-2)]⟩⟩) ∧ WFEntry ([], ⟨5, ⟨1, false, #[.s [104, 105], .s []]⟩⟩) := by
  refine ⟨⟨by decide, by simp [TL.Inv], by decide, ?_, by decide⟩, ⟨by decide, by simp [TL.Inv], by decide, ?_, by decide⟩⟩
  · intro x hx
    simp [TL.abs] at hx
    rcases hx with rfl | rfl <;> simp [wfV, Prim.inRange_8]
  · intro x hx
    simp [TL.abs] at hx
    subst hx; simp [wfV]


example : Fresh (0 : Int) (TL.mk' 0 3) := Fresh.withCap 3

/-- a history across two growth steps, with an out-of-range get at a slot that exists in the
    table (index 2, capacity 3) — it panics, it does not return the stale 0 -/
example : (Code.run Growth.go (0 : Int) [.add 5, .add 6, .get 2, .get 1, .addAllSelf, .add 7, .toArray, .size]
    (TL.mk' 0 3)).1 = [.unit, .unit, .panic, .val 6, .unit, .unit, .arr [5, 6, 5, 6, 7], .size 5] := by
  decide

example : (Spec.run [Op.add (5 : Int), .add 6, .get 2, .addAllSelf] []).2.length ≤ TL.BOUND := by
  decide

example : write decimalCodec (TL.mk' (0 : Int) 0) = [0, 0, 0] := by decide

example : TotalPreorder (lessIdx2 intLe false (fun i => (i : Int) % 2) lexLe (fun _ => [97]) true) :=
  lessIdx2_tp intLe_tp lexLe_tp _ _ _ _

example : floatLe 31 0x80000000 0 = true ∧ floatLe 31 0 0x80000000 = true ∧
    floatLe 31 0xbf800000 0x3f800000 = true ∧ floatLe 31 0x3f800000 0xbf800000 = false := by decide

example : roundNat 9007199254740993 = 9007199254740992 ∧ roundNat 9007199254740995 = 9007199254740996 := by
  decide

/-! ### round 7: float <-> text cross-type methods, text views of the linked list -/

/-- **float_text_view.**  AddString / SetString / GetString on a FloatList or DoubleList
    (`FloatText.floatView`: ParseFloat with error → panic, FormatFloat 'f' 6) and AddFloat / AddDouble /
    SetFloat / SetDouble / GetFloat / GetDouble on a StringList (`FloatText.stringView`) — any view
    `v` — answer as the plain sequence with the conversion applied on the way in / out, for EVERY op
    sequence from any well-formed list below the bound; the final list holds the final sequence.
    Excluded (answer `excluded`, never generated by tie B): texts with '_', hexadecimal texts, "nan". -/
theorem float_text_view {α : Type} (g : Growth) (hg : g.OK) (v : FloatText.View α)
    (ops : List FloatText.VOp) (l : TL α) (hi : TL.Inv l) (hb : (TL.abs l).length + ops.length ≤ TL.BOUND) :
    (RunLift.runG (FloatText.stepV g v) ops l).1 = (RunLift.runG (FloatText.specV v) ops (TL.abs l)).1 ∧
    TL.abs (RunLift.runG (FloatText.stepV g v) ops l).2 = (RunLift.runG (FloatText.specV v) ops (TL.abs l)).2 := by
  have h := RunLift.lift (FloatText.stepV g v) (FloatText.specV v) RunLift.RelL List.length TL.BOUND
    (fun op c a h hb => by
      obtain ⟨hi, ha⟩ := h
      subst ha
      obtain ⟨h1, h2, h3⟩ := FloatText.stepV_refines g hg v op c hi hb
      exact ⟨h1, h3, h2⟩)
    (FloatText.specV_len v) ops l (TL.abs l) ⟨hi, rfl⟩ hb
  exact ⟨h.1, h.2.2⟩

example : (RunLift.runG (FloatText.specV (FloatText.floatView true)) [.add (.text [48, 46, 49]), .get 0 .f64,
      .add (.text [49, 101]), .get 1 .f64] []).1 =
    [.unit, .val (.f64 0x3fb999999999999a), .panic, .panic] := by decide +kernel

/-- **getString_correctly_rounded.**  The number `GetString` prints for the finite element ±m·2^e
    (`fmtF6 = sign, N / 10^6, '.', N mod 10^6 on six digits` with `N = scaled6 m e`) is the value
    rounded correctly to six decimals: exact for e ≥ 0, and |m·10^6 / 2^(-e) − N| ≤ 1/2 otherwise. -/
theorem getString_correctly_rounded (f : FloatConv.Fmt) (bits : Nat) (neg : Bool) (m : Nat) (e : Int)
    (hd : FloatConv.decode f bits = some (neg, m, e)) :
    FloatText.fmtF6 f bits = FloatText.fixed6 neg (FloatText.scaled6 m e) ∧
    (0 ≤ e → FloatText.scaled6 m e = m * 2 ^ e.toNat * 1000000) ∧
    (e < 0 → 2 * (2 ^ (-e).toNat * FloatText.scaled6 m e) ≤ 2 * (m * 1000000) + 2 ^ (-e).toNat ∧
      2 * (m * 1000000) ≤ 2 * (2 ^ (-e).toNat * FloatText.scaled6 m e) + 2 ^ (-e).toNat) :=
  ⟨by simp [FloatText.fmtF6, hd], FloatText.scaled6_exact m e, FloatText.scaled6_nearest m e⟩

example : FloatConv.decode FloatConv.f64 0x3f80000000000000 = some (false, 2 ^ 52, -59) ∧     -- 1/128: a tie
    FloatText.scaled6 (2 ^ 52) (-59) = 7812 := by decide +kernel

/-- **doubleList_setString_partial.**  With the repaired statement (`quirk := false`,
    proposed/C13/fix-D46.diff) SetString stores on a DoubleList what AddString stores; on a FloatList
    and a StringList it does in the code as it is. -/
theorem doubleList_setString_partial (x : FloatText.TV) :
    (FloatText.floatView true false).cin true x = (FloatText.floatView true false).cin false x ∧
    (FloatText.floatView false).cin true x = (FloatText.floatView false).cin false x ∧
    FloatText.stringView.cin true x = FloatText.stringView.cin false x := by
  cases x <;> exact ⟨rfl, rfl, rfl⟩

/-- **finding_D46.**  In the code as it is, `DoubleList.SetString(0, "0.1")` stores
    float64(float32(0.1)) where `AddString("0.1")` stores 0.1, and `SetString(0, "1e39")` panics where
    `AddString("1e39")` does not (ParseFloat(v, 32), the statement of FloatList). -/
theorem finding_D46 :
    (FloatText.floatView true).cin true (.text [48, 46, 49]) ≠ (FloatText.floatView true).cin false (.text [48, 46, 49]) ∧
    (FloatText.specV (FloatText.floatView true) (.set 0 (.text [49, 101, 51, 57])) [0]).1 = .panic ∧
    (FloatText.specV (FloatText.floatView true) (.add (.text [49, 101, 51, 57])) [0]).1 = .unit := by
  decide +kernel

/-- **linkedlist_text_views.**  After every history on the pointer structure, `ToString()` is the
    deque's elements in decimal, comma separated, and `ToString()` of the k-th entity (GetFirst +
    k × GetNext) is the decimal of the k-th element — a nil dereference exactly when there is none. -/
theorem linkedlist_text_views (ops : List Linked.Op) (k : Nat) :
    (Linked.LL.run ops Linked.LL.empty).2.toStringL =
      some (Linked.joinComma ((Linked.Spec.run ops []).2.map Cross.itoa)) ∧
    (Linked.LL.run ops Linked.LL.empty).2.entityToString k = ((Linked.Spec.run ops []).2)[k]?.map Cross.itoa := by
  obtain ⟨ids, h⟩ := Linked.run_rep ops _ _ _ Linked.Rep.empty
  exact ⟨Linked.toStringL_spec h, Linked.entityToString_spec h k⟩

example : (Linked.LL.run [.addLast 5, .addFirst (-7), .removeFirst, .addLast 12] Linked.LL.empty).2.toStringL =
    some (Cross.itoa 5 ++ [44] ++ Cross.itoa 12) := by
  rw [(linkedlist_text_views _ 0).1]; rfl

/-- **pack_iterate.**  `Iterate` is an unpacking access like Get / GetDataTable: it leaves the state
    `unpack` leaves (wire columns merged into the table, cache empty — so the next Write encodes the
    current table), hands the callback the keys of the merged table and calls it once per row of the
    first column (not at all for an empty table). -/
theorem pack_iterate (g : Growth) (s s' : PackTable.St) (r : Option (List Bytes × Nat))
    (h : PackTable.iterate g s = some (s', r)) :
    PackTable.unpack g s = some s' ∧ s'.raw = [] ∧
    r = (match s'.table with
      | [] => none
      | e :: _ => some (s'.table.map (fun x => x.1), e.2.l.size)) :=
  PackTable.iterate_spec g s s' r h

example : PackTable.iterate Growth.go (PackTable.put PackTable.empty [99] ⟨1, TL.mk' (.i 0) 0⟩) =
    some (PackTable.put PackTable.empty [99] ⟨1, TL.mk' (.i 0) 0⟩, some ([[99]], 0)) := by
  simp [PackTable.iterate, PackTable.unpack, PackTable.put, PackTable.empty, Table.put, TL.mk']

/-- **wire_roundtrip_iff.**  For a list of fewer than 2^24 elements the wire form reads back (into a
    fresh list, any bytes behind it left alone) to an equal list IF AND ONLY IF it has fewer than 2^23
    elements — the sharp domain of the wire clause (from 2^23 on the 24-bit count reads negative). -/
theorem wire_roundtrip_iff {α : Type} (g : Growth) (hg : g.OK) (c : Codec α) (z : α) (l l0 : TL α) (r : Bytes)
    (hi : TL.Inv l) (h0 : Fresh z l0) (h24 : l.size < 16777216) (hw : ∀ x ∈ TL.abs l, c.wf x) :
    (∃ l', P.run (read g c z l0) (write c l ++ r) = some (l', r) ∧ TL.toArray l' = TL.toArray l) ↔
      l.size < 8388608 := by
  constructor
  · intro ⟨l', h1, h2⟩
    apply Classical.byContradiction
    intro hn
    have hw' := wire_count_wraps g c z l l0 r (by omega) h24
    rw [hw'] at h1
    simp only [Option.some.injEq, Prod.mk.injEq] at h1
    rw [← h1.1, TL.toArray_eq_abs, TL.toArray_eq_abs, h0.abs] at h2
    have hl := TL.abs_length hi
    rw [← h2] at hl
    simp at hl
    omega
  · intro hsz
    exact list_wire g hg c z l l0 r hi h0 hsz hw

/-- **sorting_after_history.**  Sorting is a query on the CURRENT contents: after every history of
    Add / AddAll / Set / Get / … from a fresh list, `Sorting(asc)` — the code reads the elements through
    `get(i)`, i < size — returns a permutation of the indices of the sequence the history built that
    meets its values in the requested order (`BigContract`: sort.Sort beyond 12 elements). -/
theorem sorting_after_history {α : Type} (big : SortFn) (hbig : BigContract big) {le : α → α → Bool}
    (h : TotalPreorder le) (g : Growth) (hg : g.OK) (z : α) (ops : List (Op α)) (l0 : TL α) (h0 : Fresh z l0)
    (hb : (Spec.run ops []).2.length ≤ TL.BOUND) (asc : Bool) :
    (sorting (goSort big) le asc (fun i => (TL.get (Code.run g z ops l0).2 (i : Int)).getD z)
        (Code.run g z ops l0).2.size).Perm (List.range (Spec.run ops []).2.length) ∧
    ((sorting (goSort big) le asc (fun i => (TL.get (Code.run g z ops l0).2 (i : Int)).getD z)
        (Code.run g z ops l0).2.size).map (fun i => (Spec.run ops []).2.getD i z)).Pairwise
      (fun a b => dir le asc a b = true) := by
  have hr := list_refines_seq_from g hg z ops l0 h0.inv (by rw [h0.abs]; exact hb)
  rw [h0.abs] at hr
  obtain ⟨_, ha, hinv⟩ := hr
  have hv : (fun i : Nat => (TL.get (Code.run g z ops l0).2 (i : Int)).getD z) =
      (fun i => (Spec.run ops []).2.getD i z) := by
    funext i
    rw [TL.get_spec _ _ hinv, ha]
    by_cases hlt : i < (Spec.run ops []).2.length
    · have : (0 : Int) ≤ (i : Int) ∧ (i : Int) < ((Spec.run ops []).2.length : Int) := by omega
      simp [this, List.getD]
    · simp [List.getD, List.getElem?_eq_none (Nat.le_of_not_lt hlt)]
  have hn : (Code.run g z ops l0).2.size = (Spec.run ops []).2.length := by
    rw [← TL.abs_length hinv, ha]
  rw [hv, hn]
  exact sorting_orders_go big hbig h asc _ _

example : (Spec.run [Op.add (3 : Int), Op.add 1, Op.add 2] []).2 = [3, 1, 2] := by decide

end C13
